#!/usr/bin/env python3
"""dbgcase.py <cases.v> <index> : print the case's description with the model's per-step output next to the observed one"""
import sys, re, json, subprocess, os
vf, idx = sys.argv[1], int(sys.argv[2])
src = open(vf).read()
imp = re.search(r"From Mac Require Import (\S+)\.", src).group(1)
body = src[src.index("Definition cases := [")+len("Definition cases := ["):src.index("].\nDefinition M")]
cases = [c.strip().rstrip(";") for c in body.strip().split("\n")]
case = cases[idx]
tmp = "/tmp/dbgcase.v"
open(tmp, "w").write("From Mac Require Import %s.\nLocal Open Scope string_scope.\nDefinition k := %s.\nEval vm_compute in (model_out k, obs_out k).\n" % (imp, case))
out = subprocess.run(["coqc", "-Q", "/verif/coq", "Mac", tmp], capture_output=True, text=True).stdout
out = re.sub(r"%[A-Za-z]+", "", re.sub(r"\s+", " ", out))
m = re.search(r"= \(\[(.*?)\], \[(.*?)\]\)", out)
mo = [x.strip() for x in m.group(1).split(";")]; ob = [x.strip() for x in m.group(2).split(";")]
def unflat(l):
    res=[]; i=0
    while i < len(l):
        n=int(l[i]); res.append(l[i+1:i+1+n]); i+=1+n
    return res
try:
    mo2, ob2 = unflat(mo), unflat(ob)
except Exception:
    mo2, ob2 = [mo], [ob]
js = vf[:-2] + ".jsonl"
desc = json.loads(open(js).read().splitlines()[idx])["desc"]
hist = desc.get("history") or desc.get("scenario") or []
for i in range(max(len(mo2), len(ob2))):
    a = mo2[i] if i < len(mo2) else None; b = ob2[i] if i < len(ob2) else None
    flag = "  " if a == b else "!!"
    print(flag, i, (hist[i][:150] if i < len(hist) else ""), "\n      model:", a, "\n      impl: ", b if a != b else "(same)")
