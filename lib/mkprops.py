#!/usr/bin/env python3
"""mkprops.py OUT.v HEADER_FILE module:lemma[=thmname] ...  -- generate a Properties file whose theorems restate
the listed lemmas (statement printed by Coq) and are closed by `exact`."""
import sys, subprocess, re, os
out, header = sys.argv[1], sys.argv[2]
items = sys.argv[3:]
mods = []
lem = []
for it in items:
    mod, name = it.split(":")
    thm = None
    if "=" in name:
        name, thm = name.split("=")
    if thm is None:
        thm = name[:-2] if name.endswith("_l") else name + "_thm"
    if mod not in mods:
        mods.append(mod)
    lem.append((mod, name, thm))
hdr = open(header).read()
script = hdr + "\nSet Printing Width 110.\nSet Printing Depth 1000.\n" + "".join("Check @%s.\n" % n for _, n, _ in lem)
p = subprocess.run(["coqtop", "-Q", "/verif/coq", "Mac", "-quiet"], input=script, stdout=subprocess.PIPE, stderr=subprocess.STDOUT, text=True, cwd="/verif/coq")
txt = p.stdout
res = {}
for _, n, _ in lem:
    m = re.search(r"(?:^|\n)(?:Coq < )*@?%s\s*\n?\s*:\s(.*?)(?=\n\s*\n|\nCoq <|\Z)" % re.escape(n), txt, re.S)
    if not m:
        print("cannot find Check output for", n); print(txt[-3000:]); sys.exit(1)
    res[n] = re.sub(r"\n\s+", "\n    ", m.group(1).strip())
with open(out, "w") as f:
    f.write(hdr + "\n")
    for _, n, t in lem:
        f.write("Theorem %s :\n    %s.\nProof. exact (@%s). Qed.\n\n" % (t, res[n], n))
    for _, n, t in lem:
        f.write("Print Assumptions %s.\n" % t)
print("wrote", out, len(lem), "theorems")
