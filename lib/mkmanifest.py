#!/usr/bin/env python3
"""Regenerate MANIFEST.json from lib/props.py and lib/manifest_text.py."""
import json, os, sys
ROOT = os.path.dirname(os.path.dirname(os.path.abspath(__file__)))
sys.path.insert(0, os.path.join(ROOT, "lib"))
import props as P
import manifest_text as T

allp = [json.loads(l)["id"] for l in open(os.path.join(ROOT, "properties.jsonl"))]
checks = []
for pid in allp:
    if pid not in P.PROPS or pid not in T.TEXT:
        continue
    t = T.TEXT[pid]
    checks.append({
        "property_id": pid,
        "quick_cmd": "./check %s --tier quick" % pid,
        "thorough_cmd": "./check %s --tier thorough" % pid,
        "evidence_file": "/verif/evidence/%s.json" % pid,
        "replay_cmd_template": "./check %s --replay {path}" % pid,
        "engine": "coq-model+correspondence",
        "level_claimed": {"category": "proof", "text": t["text"], "design_ref": t.get("design_ref", "DESIGN.md section 6 (%s)" % pid)},
        "level_note": t["note"],
        "technique": t["technique"],
    })
na = [{"property_id": pid, "reason": T.NOT_APPLICABLE.get(pid, "check not built yet (work in progress; DESIGN.md section 11)")}
      for pid in allp if pid not in [c["property_id"] for c in checks]]
m = {
    "version": 1,
    "setup_cmd": "./setup.sh",
    "hooks": {"guard": "verif", "enable": "go build -tags verif (harness module: replace github.com/superfly/macaroon => /repo)",
              "baseline_off_cmd": "cd /repo && GOFLAGS=-mod=mod GOPROXY=off go test -vet=off -count=1 ./...",
              "source_commits": T.HOOK_COMMITS, "add_only": True},
    "engines": [{"name": "coq-model+correspondence", "path": "/verif/check", "serves_properties": [c["property_id"] for c in checks],
                 "kind_free_text": "Coq 8.16.1 theorems about a hand-written executable Gallina model (coq/Model, coq/Proofs, coq/Properties) + translator for constants/tables (harness/cmd/facts) + per-run correspondence: the Go harness runs the real library on generated cases, coqc evaluates the model on the same cases (vm_compute) and reports disagreements"}],
    "checks": checks,
    "not_applicable": na,
    "notes": T.NOTES,
}
json.dump(m, open(os.path.join(ROOT, "MANIFEST.json"), "w"), indent=1)
print("checks:", [c["property_id"] for c in checks], "not_applicable:", [n["property_id"] for n in na])
