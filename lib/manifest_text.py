HOOK_COMMITS = []
NOTES = "See DESIGN.md. Every check: ./check <id> --tier quick|thorough; evidence in evidence/<id>.json; replays in replays/."
NOT_APPLICABLE = {}
TEXT = {
 "C18": {
  "text": "Coq theorems (Properties/C18.v) state, for every condition value and every discharge request, that each identity condition permits exactly when the presented identities include the required one, that every other request kind is denied, that a lifetime limit never permits a lifetime beyond it for every uint64 limit (overflow included) and is exact when representable, and that the effective maximum is the minimum of all nested limits; the model is compared with auth.* on ~2k (quick) / ~40k (thorough) generated cases per run inside Coq.",
  "note": "Trusted: Coq kernel+VM; the hand model of auth caveats/DischargeRequest tied to the code by the per-run correspondence (class-set observables); time.Now() inside DischargeRequest keeps the exact lifetime boundary out of the correspondence (10 s margin) - the boundary is settled by the theorem on the model's comparison, whose shape (>) the margin cases cannot distinguish from >=.",
  "technique": "Coq proof over executable model + in-Coq differential correspondence",
 },
}
