HOOK_COMMITS = []
NOTES = "See DESIGN.md. Every check: ./check <id> --tier quick|thorough; evidence in evidence/<id>.json; replays in replays/."
NOT_APPLICABLE = {}
TEXT = {
 "C18": {
  "text": "Coq theorems (Properties/C18.v) state, for every condition value and every discharge request, that each identity condition permits exactly when the presented identities include the required one, that every other request kind is denied, that a lifetime limit never permits a lifetime beyond it for every uint64 limit (overflow included) and is exact when representable, and that the effective maximum is the minimum of all nested limits; the model is compared with auth.* on ~2k (quick) / ~40k (thorough) generated cases per run inside Coq.",
  "note": "Trusted: Coq kernel+VM; the hand model of auth caveats/DischargeRequest tied to the code by the per-run correspondence (class-set observables); time.Now() inside DischargeRequest keeps the exact lifetime boundary out of the correspondence (10 s margin) - the boundary is settled by the theorem on the model's comparison, whose shape (>) the margin cases cannot distinguish from >=.",
  "technique": "Coq proof over executable model + in-Coq differential correspondence",
 },
 "C03": {
  "text": "Coq theorems (Properties/C03.v): validate clears iff every request is well-formed and every non-attestation caveat clears every request (validate_iff), the error class set is the union over all failing items so none is masked (validate_err_union), invariance under permutation of caveats and requests, one denial / one malformed request suffices, unregistered/3P/bind/attestation caveats and caveats lacking the information they need always deny. Proved for all caveat lists (arbitrary nesting) and request lists; model compared with CaveatSet.Validate / Prohibits on ~2k (quick) / ~40k (thorough) cases per run.",
  "note": "Trusted: Coq kernel+VM; hand model of Prohibits/Validate/merr.Append (coq/Model/Prohibits.v) tied to the code by the per-run correspondence on class-set observables plus an implementation-side oracle; error messages are not modelled.",
  "technique": "Coq proof over executable model + in-Coq differential correspondence",
 },
 "C10": {
  "text": "Coq theorems (Properties/C10.v): one iff per Fly.io caveat type against its documented rule (organization, the eight resource-set caveats as instances of the generic resource set, mutations, commands incl. exact/prefix, roles against the MemberFeatures table regenerated from the source, IsMember, FromMachine, FlySrc with empty-field wildcards, validity window on Go's wrapped time representation) and Access.Validate = the documented well-formedness predicate (fa_wf) for every request; model compared with the code on all 2^10 presence patterns and ~7k (quick) / ~60k (thorough) rule cases per run.",
  "note": "Trusted: Coq kernel+VM; hand model of flyio caveats/Access tied to the code by the per-run correspondence; translator cmd/facts for MemberFeatures and constants; the harness replaces flyio.Access.Now() by an input clock (embedding), time.Unix wrap-around is modelled explicitly (wrap64).",
  "technique": "Coq proof over executable model + in-Coq differential correspondence",
 },
 "C09": {
  "text": "Coq theorems (Properties/C09.v), generic in the id type and instantiated for integer, string and prefix ids: a resource set permits exactly when the set is valid (no wildcard mixed with other entries), some entry is the wildcard or matches (equal / prefix), and the action lies within 0xffff and within the mask of every matching entry (intersection); unspecified resource => ErrResourceUnspecified; mixed wildcard => ErrBadCaveat for every request; verdict invariant under permutation of entries (map order); IfPresent permits iff (some inner caveat is applicable and all applicable ones permit) or (none applicable and action within else), for arbitrary nesting; action caveat spec; permission is monotone in the action for every caveat of every registered type and every set (action_monotone). Model compared with the code exhaustively over small universes (~13k cases quick, ~150k thorough).",
  "note": "Trusted: Coq kernel+VM; hand model (coq/Model/Prohibits.v) tied to the code by per-run correspondence; 'applies all its inner caveats' is read as documented and tested: inner caveats about resources the request does not specify are vacuous (stated explicitly in ifpresent_spec).",
  "technique": "Coq proof over executable model + exhaustive small-scope in-Coq differential correspondence",
 },
 "C17": {
  "text": "Coq theorems (Properties/C17.v): OrganizationScope's id is permitted by every (nested) Organization caveat and every request for another org is denied by the full set; AppScope/ClusterScope: listed ids clear the Apps/Clusters caveats, left-out ids are denied by the full set for every request naming them, 'unrestricted' only if every id clears; AppsAllowing: every listed app clears the full set for the action, the error shapes are exhaustive; the computed expiry is an upper bound: any request whose clock is after it is denied (nested windows, Go's wrapped time); DangerousUserID spec. All for arbitrary sets and nesting. Model compared with the flyio helpers and brute-force Validate on ~3.6k (quick) / ~90k (thorough) cases.",
  "note": "Trusted: Coq kernel+VM; hand model (coq/Model/Scope.v) tied to the code by per-run correspondence + brute-force oracle; repaired defect F10 (ClusterScope lone wildcard) is in KNOWN_FINDINGS as fixed.",
  "technique": "Coq proof over executable model + in-Coq differential correspondence",
 },
 "C19": {
  "text": "Coq theorems (Properties/C19.v): base64 decode(encode bs) = bs for every byte string and no encoding character is ',', '_', '=', or ASCII space; Parse is a function, accepts exactly the parts with a known label and non-empty valid base64 (fo1 entries skipped), rejects unknown label / missing separator / bad base64 / empty token / no tokens; formatting any non-empty list of non-empty tokens (any of the three labels per token) and decorating it with any sequence of FlyV1/Bearer schemes in any case and any ASCII whitespace parses back to the same tokens in order (parse_format_roundtrip, unbounded in sizes and decoration depth); permission/discharge split is exactly a filter on the location predicate; the bundle tokeniser yields Parse's tokens in order on every header Parse accepts. Model compared with format.go / bundle.parseToks / encoding/base64 on ~4k (quick) / ~90k (thorough) headers.",
  "note": "Trusted: Coq kernel+VM; hand model of the header grammar and of Go's base64 decoder tied to the code by per-run correspondence; ASCII guard (non-ASCII Unicode space/folding not modelled); FindPermissionAndDischargeTokens is modelled parametrically in the token decoder (msgpack decode is layer B).",
  "technique": "Coq proof over executable model + in-Coq differential correspondence",
 },
}
