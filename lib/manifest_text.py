HOOK_COMMITS = []
NOTES = "See DESIGN.md. Every check: ./check <id> --tier quick|thorough; evidence in evidence/<id>.json; replays in replays/."
NOT_APPLICABLE = {}
TEXT = {
 "C18": {
  "text": "Coq theorems (Properties/C18.v) state, for every condition value and every discharge request, that each identity condition permits exactly when the presented identities include the required one, that every other request kind is denied, that a lifetime limit never permits a lifetime beyond it for every uint64 limit (overflow included) and is exact when representable, and that the effective maximum is the minimum of all nested limits; the model is compared with auth.* on ~2k (quick) / ~40k (thorough) generated cases per run inside Coq.",
  "note": "Trusted: Coq kernel+VM; the hand model of auth caveats/DischargeRequest tied to the code by the per-run correspondence (class-set observables); time.Now() inside DischargeRequest keeps the exact lifetime boundary out of the correspondence (10 s margin) - the boundary is settled by the theorem on the model's comparison, whose shape (>) the margin cases cannot distinguish from >=.",
  "technique": "Coq proof over executable model + in-Coq differential correspondence",
 },
 "C03": {
  "text": "Coq theorems (Properties/C03.v): validate clears iff every request is well-formed and every non-attestation caveat clears every request (validate_iff), the error class set is the union over all failing items so none is masked (validate_err_union), invariance under permutation of caveats and requests, one denial / one malformed request suffices, unregistered/3P/bind/attestation caveats and caveats lacking the information they need always deny. Proved for all caveat lists (arbitrary nesting) and request lists; model compared with CaveatSet.Validate / Prohibits on ~2k (quick) / ~40k (thorough) cases per run.",
  "note": "Trusted: Coq kernel+VM; hand model of Prohibits/Validate/merr.Append (coq/Model/Prohibits.v) tied to the code by the per-run correspondence on class-set observables plus an implementation-side oracle; error messages are not modelled.",
  "technique": "Coq proof over executable model + in-Coq differential correspondence",
 },
 "C10": {
  "text": "Coq theorems (Properties/C10.v): one iff per Fly.io caveat type against its documented rule (organization, the eight resource-set caveats as instances of the generic resource set, mutations, commands incl. exact/prefix, roles against the MemberFeatures table regenerated from the source, IsMember, FromMachine, FlySrc with empty-field wildcards, validity window on Go's wrapped time representation) and Access.Validate = the documented well-formedness predicate (fa_wf) for every request; model compared with the code on all 2^10 presence patterns and ~7k (quick) / ~60k (thorough) rule cases per run.",
  "note": "Trusted: Coq kernel+VM; hand model of flyio caveats/Access tied to the code by the per-run correspondence; translator cmd/facts for MemberFeatures and constants; the harness replaces flyio.Access.Now() by an input clock (embedding), time.Unix wrap-around is modelled explicitly (wrap64).",
  "technique": "Coq proof over executable model + in-Coq differential correspondence",
 },
}
