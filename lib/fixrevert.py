#!/usr/bin/env python3
"""fixrevert.py -- self-test: for every 'fixed:' entry of KNOWN_FINDINGS reverse-apply that fix commit to /repo's working tree,
run the check of its property (quick tier; evidence goes to .build/evidence-seeded), restore the tree.  The defect must come back
as a VIOLATION.  Never commits anything."""
import re, subprocess, os, sys
ENV = dict(os.environ, GOFLAGS="-mod=mod", GOPROXY="off", GOSUMDB="off", GOTOOLCHAIN="local", VERIF_EVIDENCE_DIR="/verif/.build/evidence-seeded")
def sh(cmd, cwd=None):
    p = subprocess.run(cmd, cwd=cwd, env=ENV, shell=True, stdout=subprocess.PIPE, stderr=subprocess.STDOUT, text=True)
    return p.returncode, p.stdout
if sh("git -C /repo status --short")[1].strip():
    print("/repo not clean"); sys.exit(2)
for l in open("/verif/KNOWN_FINDINGS"):
    m = re.match(r"fixed: property=(C\d\d) ([0-9a-f]{7}) \[(F\w+)\]", l)
    if not m:
        continue
    pid, commit, fid = m.groups()
    rc, out = sh("git -C /repo show %s -- . ':(exclude)*_test.go' | git -C /repo apply -R" % commit)
    if rc != 0:
        print("%-4s %s %s: fix does not reverse-apply cleanly (later commits touch the same lines): %s" % (fid, pid, commit, out.strip()[-80:])); sh("git -C /repo checkout -- ."); continue
    rc, out = sh("./check %s --tier quick" % pid, cwd="/verif")
    lines = [x for x in out.splitlines() if x.startswith(("VIOLATION", "OK "))]
    print("%-4s %s %s: exit=%d %s" % (fid, pid, commit, rc, lines[0][:90] if lines else out[-100:]), flush=True)
    sh("git -C /repo checkout -- .")
