"""Property-specific steps of ./check that are not case-stream correspondences."""
import os, re, json, subprocess, time


def _paths(coq):
    txt = open(os.path.join(coq, "Generated", "LockProgs.v")).read()
    progs = re.findall(r'\("([A-Za-z0-9_]+)", \[(.*?)\]\)[;\n]', txt, flags=re.S)
    out = []
    for name, body in progs:
        for pth in re.findall(r"\[([^\[\]]*)\]", body):
            out.append((name, [x.strip() for x in pth.split(";") if x.strip()]))
    return out


def _flat(p):
    held = None
    for ins in p:
        if ins.startswith("Acq"):
            if held is not None:
                return False
            held = ins[-1]
        elif ins.startswith("Rel"):
            if held != ins[-1]:
                return False
            held = None
        elif ins == "Rd":
            if held is None:
                return False
        elif ins == "Wr":
            if held != "W":
                return False
    return held is None


def c15(ctx):
    """lock programs: coverage numbers from the generated file; stress run as failing-schedule search"""
    viol, errs = [], []
    try:
        paths = _paths(ctx["coq"])
    except Exception as e:  # generated file missing: translator failed
        paths = []
    nonflat = [(n, p) for n, p in paths if not _flat(p)]
    # atomicity obligation (lockprogs_single_section): more than one critical section on a path of one operation
    nonflat += [(n + " (more than one critical section: not atomic)", p) for n, p in paths if sum(1 for i in p if i.startswith("Acq")) > 1]
    try:
        gen = open(os.path.join(ctx["coq"], "Generated", "LockProgs.v")).read()
        for fn, so, sl in re.findall(r'\("([A-Za-z0-9_]+)", (true|false), (true|false)\)', gen):
            if so == "true" and sl == "false":
                nonflat.append((fn, ["derived bundle shares token objects but not the lock"]))
    except Exception:
        pass
    distinct = {(n, tuple(p)) for n, p in paths if p}
    cov = {"evaluations": len(paths), "distinct_nontrivial": len(distinct),
           "samples": [{"method": n, "path": p} for n, p in paths[:6]],
           "programs": len({n for n, _ in paths}), "non_flat_paths": [{"method": n, "path": p} for n, p in nonflat]}
    broken = bool(ctx["broken"]) or bool(nonflat)
    thorough = ctx["tier"] == "thorough"
    exe = os.path.join(ctx["bin"], "stress")
    dur = "1200ms" if (thorough or broken) else "60ms"
    if broken or thorough:
        # race detector build (needs cgo); best effort
        env = dict(ctx["goenv"], CGO_ENABLED="1")
        rc, out = ctx["sh"](["go", "build", "-race", "-tags", "verif", "-o", os.path.join(ctx["bin"], "stress-race"), "./cmd/stress"],
                            cwd=ctx["harness"], env=env, timeout=900)
        if rc == 0:
            exe = os.path.join(ctx["bin"], "stress-race")
            dur = "400ms"
    t0 = time.time()
    rc, out = ctx["sh"]([exe, "-dur", dur], cwd=ctx["harness"], env=ctx["goenv"], timeout=1500)
    cov["stress"] = {"binary": os.path.basename(exe), "per_pair": dur, "wall_s": round(time.time() - t0, 1), "rc": rc,
                     "pairs": 153, "deadlocks": out.count("DEADLOCK"), "races": out.count("DATA RACE")}
    cov["traces_validated_against_impl"] = 153
    dead = [l for l in out.splitlines() if l.startswith("DEADLOCK")]  # incl. DEADLOCK-OR-LOSS lines of the client fan-out
    races = "DATA RACE" in out
    if dead or races:
        sched = {"property": ctx["pid"], "kind": "concurrent Bundle operations deadlock or race on the real code",
                 "deadlocks": dead[:5], "race_report": out[out.find("WARNING: DATA RACE"):][:3000] if races else "",
                 "non_flat_paths": cov["non_flat_paths"],
                 "replay_cmd": "cd /verif/harness && go run -race -tags verif ./cmd/stress -dur 1500ms"}
        viol.append((ctx["write_replay"](ctx["pid"], "schedule", sched), True))
    elif nonflat:
        errs.append("lock programs not flat / not one critical section per operation: " + json.dumps(cov["non_flat_paths"])[:800])
    return viol, cov, errs
