#!/usr/bin/env python3
"""seedall.py [tier] [prefix] -- regression over every kept seeded change: apply seeded/<dir>/patch.diff to /repo, run the
check of its property, undo, record the outcome in seeded/<dir>/meta.json (key "checks") and print a table.
Never commits anything to /repo; refuses to start when /repo is not clean."""
import os, sys, json, subprocess, time, re
tier = sys.argv[1] if len(sys.argv) > 1 else "quick"
only = sys.argv[2] if len(sys.argv) > 2 else ""   # optional prefix filter, e.g. C13
ENV = dict(os.environ, GOFLAGS="-mod=mod", GOPROXY="off", GOSUMDB="off", GOTOOLCHAIN="local", VERIF_EVIDENCE_DIR="/verif/.build/evidence-seeded")
def sh(cmd, cwd=None, timeout=3600):
    p = subprocess.run(cmd, cwd=cwd, env=ENV, shell=True, stdout=subprocess.PIPE, stderr=subprocess.STDOUT, text=True, timeout=timeout)
    return p.returncode, p.stdout
root = "/verif/seeded"
rows = []
for d in sorted(os.listdir(root)):
    mp = os.path.join(root, d, "meta.json")
    pp = os.path.join(root, d, "patch.diff")
    if not (os.path.exists(mp) and os.path.exists(pp)) or not d.startswith(only):
        continue
    meta = json.load(open(mp))
    if not meta.get("confirmed"):
        continue
    pid = meta["property"]
    rc, out = sh("git -C /repo status --short")
    if out.strip():
        print("/repo not clean, stopping"); sys.exit(2)
    rc, out = sh("git -C /repo apply %s" % pp)
    if rc != 0:
        print(d, "patch does not apply any more:", out[-200:]); continue
    try:
        t0 = time.time()
        rc, out = sh("./check %s --tier %s" % (pid, tier), cwd="/verif")
        lines = [l for l in out.splitlines() if l.startswith(("VIOLATION", "OK ", "KNOWN"))]
        entry = {"exit": rc, "wall_s": round(time.time() - t0, 1), "lines": lines[:4]}
        for l in lines:
            mm = re.search(r"replay=(\S+)", l)
            if mm and os.path.exists(os.path.join("/verif", mm.group(1))):
                try:
                    entry["replay_kind"] = json.load(open(os.path.join("/verif", mm.group(1)))).get("kind")
                except Exception:
                    pass
                break
    finally:
        sh("git -C /repo checkout -- .")
    meta.setdefault("checks_first", meta.get("checks"))
    meta["checks"] = {pid: entry}
    json.dump(meta, open(mp, "w"), indent=1)
    kind = entry.get("replay_kind", "")
    print("%-16s %s exit=%d %5.1fs %s" % (d, pid, entry["exit"], entry["wall_s"], "concrete input" if "input" in kind else ("no-failing-input-found" if entry["exit"] else "MISSED")), flush=True)
print("ALLDONE")
