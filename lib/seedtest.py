#!/usr/bin/env python3
"""seedtest.py <PID> <N> [--checks C01,C02,...]

Confirms a seeded change produced by an independent sub-agent (in /tmp/seed-<PID>/SEED/patch<N>.diff + demo<N>_test.go):
 1. in a scratch worktree of /repo: with the change the existing suite passes, the demonstration test fails;
    without the change the demonstration passes;
 2. applies the change to /repo, runs the quick check(s), undoes it;
 3. stores patch, demo and meta.json under /verif/seeded/<PID>-<N>/.
"""
import sys, os, re, json, subprocess, shutil, time

ENV = dict(os.environ, GOFLAGS="-mod=mod", GOPROXY="off", GOSUMDB="off", GOTOOLCHAIN="local", VERIF_EVIDENCE_DIR="/verif/.build/evidence-seeded")


def sh(cmd, cwd=None, timeout=1800):
    p = subprocess.run(cmd, cwd=cwd, env=ENV, shell=isinstance(cmd, str), stdout=subprocess.PIPE, stderr=subprocess.STDOUT, text=True, timeout=timeout)
    return p.returncode, p.stdout


def main():
    pid, n = sys.argv[1], sys.argv[2]
    checks = [pid]
    if "--checks" in sys.argv:
        checks = sys.argv[sys.argv.index("--checks") + 1].split(",")
    rnd = "seed"
    if "--round" in sys.argv:
        rnd = sys.argv[sys.argv.index("--round") + 1]
    src = "/tmp/%s-%s/SEED" % (rnd, pid)
    patch = os.path.join(src, "patch%s.diff" % n)
    demo = os.path.join(src, "demo%s_test.go" % n)
    if not (os.path.exists(patch) and os.path.exists(demo)):
        print("missing", patch, demo)
        return 2
    m = re.search(r"place in:\s*(\S+)", open(demo).read())
    ddir = (m.group(1) if m else ".").strip("/") or "."
    if ddir in ("root", "(root)", "repo-root"):
        ddir = "."
    wt = "/tmp/sv-%s-%s" % (pid, n)
    meta_round = rnd
    sh("git -C /repo worktree remove --force %s" % wt)
    rc, out = sh("git -C /repo worktree add -q %s HEAD" % wt)
    meta = {"property": pid, "n": int(n), "demo_dir": ddir, "steps": {}}
    try:
        rc, out = sh("git apply %s" % patch, cwd=wt)
        meta["steps"]["apply"] = rc
        if rc != 0:
            meta["error"] = "patch does not apply: " + out[-500:]
            raise SystemExit
        touched = [l[6:] for l in open(patch) if l.startswith("+++ b/")]
        meta["files"] = [t.strip() for t in touched]
        if any(t.strip().endswith("_test.go") or t.strip() in ("go.mod", "go.sum", "verif_hooks.go") for t in touched):
            meta["error"] = "patch touches forbidden files"
            raise SystemExit
        rc, out = sh("go build ./... && go test -vet=off -count=1 ./...", cwd=wt)
        meta["steps"]["suite_with_change"] = rc
        meta["suite_tail"] = out[-600:] if rc != 0 else ""
        shutil.copy(demo, os.path.join(wt, ddir, "seed_demo%s_test.go" % n))
        rc, out = sh("go test -vet=off -count=1 -run 'TestSeedDemo%s$' ./%s" % (n, ddir), cwd=wt, timeout=600)
        meta["steps"]["demo_with_change"] = rc
        meta["demo_fail_tail"] = out[-800:]
        sh("git apply -R %s" % patch, cwd=wt)
        rc, out = sh("go test -vet=off -count=1 -run 'TestSeedDemo%s$' ./%s" % (n, ddir), cwd=wt, timeout=600)
        meta["steps"]["demo_without_change"] = rc
        meta["demo_pass_tail"] = out[-300:] if rc != 0 else ""
    except SystemExit:
        pass
    finally:
        sh("git -C /repo worktree remove --force %s" % wt)
    st = meta["steps"]
    meta["confirmed"] = (st.get("apply") == 0 and st.get("suite_with_change") == 0 and st.get("demo_with_change", 0) != 0 and st.get("demo_without_change") == 0 and "error" not in meta)
    # run our checks against the change
    meta["checks"] = {}
    if meta["confirmed"]:
        rc, out = sh("git -C /repo status --short")
        if out.strip():
            print("/repo not clean, refusing")
            return 2
        rc, out = sh("git -C /repo apply %s" % patch)
        try:
            for c in checks:
                t0 = time.time()
                rc, out = sh("./check %s --tier quick" % c, cwd="/verif", timeout=2400)
                lines = [l for l in out.splitlines() if l.startswith("VIOLATION") or l.startswith("OK ") or l.startswith("KNOWN")]
                meta["checks"][c] = {"exit": rc, "wall_s": round(time.time() - t0, 1), "lines": lines[:4]}
                # keep one replay for the record
                for l in lines:
                    mm = re.search(r"replay=(\S+)", l)
                    if mm and os.path.exists(os.path.join("/verif", mm.group(1))):
                        try:
                            meta["checks"][c]["replay_kind"] = json.load(open(os.path.join("/verif", mm.group(1)))).get("kind")
                        except Exception:
                            pass
                        break
        finally:
            sh("git -C /repo checkout -- .")
    dst = "/verif/seeded/%s-%s%s" % (pid, n, "" if rnd == "seed" else "-" + rnd)
    os.makedirs(dst, exist_ok=True)
    shutil.copy(patch, os.path.join(dst, "patch.diff"))
    shutil.copy(demo, os.path.join(dst, "demo_test.go"))
    readme = os.path.join(src, "README.md")
    if os.path.exists(readme):
        shutil.copy(readme, os.path.join(dst, "agent_README.md"))
    meta["what_ran"] = "scratch worktree: git apply; go build ./... && go test ./... ; demo with/without change; then git -C /repo apply; ./check <id> --tier quick; git -C /repo checkout -- ."
    json.dump(meta, open(os.path.join(dst, "meta.json"), "w"), indent=1)
    det = {c: v["exit"] for c, v in meta["checks"].items()}
    print(pid, n, "confirmed=%s" % meta["confirmed"], "steps=%s" % st, "detected=%s" % det, meta.get("error", ""))
    return 0


if __name__ == "__main__":
    sys.exit(main())
