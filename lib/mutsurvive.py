#!/usr/bin/env python3
"""mutsurvive.py [workers] -- phase 1 of the mutation measurement: enumerate small syntactic mutants of /repo's non-test Go
files (cmd/mutgen), and keep those that still build and pass the repository's unedited suite ("survivors").  Works in
scratch worktrees under /tmp only; writes /verif/.build/mutants/<id>.diff + index.jsonl.  Support tool, not a registered check."""
import os, sys, subprocess, json, glob, threading, queue, shutil
W = int(sys.argv[1]) if len(sys.argv) > 1 else 8
ENV = dict(os.environ, GOFLAGS="-mod=mod", GOPROXY="off", GOSUMDB="off", GOTOOLCHAIN="local")
OUT = "/verif/.build/mutants"
os.makedirs(OUT, exist_ok=True)
MUTGEN = "/verif/.build/bin/mutgen"
def sh(cmd, cwd=None, timeout=300):
    try:
        p = subprocess.run(cmd, cwd=cwd, env=ENV, shell=True, stdout=subprocess.PIPE, stderr=subprocess.STDOUT, text=True, timeout=timeout)
        return p.returncode, p.stdout
    except subprocess.TimeoutExpired:
        return 124, "timeout"
files = []
for root, dirs, fs in os.walk("/repo"):
    if "/.git" in root or "/examples" in root or "/machinesapi" in root or "/test-vectors" in root:
        continue
    for f in fs:
        if f.endswith(".go") and not f.endswith("_test.go") and f != "verif_hooks.go":
            files.append(os.path.relpath(os.path.join(root, f), "/repo"))
files.sort()
jobs = queue.Queue()
total = 0
for f in files:
    rc, out = sh("%s -file /repo/%s -count" % (MUTGEN, f))
    n = int(out.strip() or 0)
    total += n
    for i in range(n):
        jobs.put((f, i))
print("files", len(files), "mutants", total, flush=True)
lock = threading.Lock()
stats = {"nocompile": 0, "killed": 0, "survived": 0}
idx = open(os.path.join(OUT, "index.jsonl"), "a")
def worker(k):
    wt = "/tmp/mutw-%d" % k
    sh("git -C /repo worktree remove --force %s" % wt)
    sh("git -C /repo worktree add -q %s HEAD" % wt)
    try:
        while True:
            try:
                f, i = jobs.get_nowait()
            except queue.Empty:
                return
            mid = "%s-%d" % (f.replace("/", "_").replace(".go", ""), i)
            if os.path.exists(os.path.join(OUT, mid + ".diff")) or os.path.exists(os.path.join(OUT, mid + ".dead")):
                continue
            rc, desc = sh("%s -file /repo/%s -n %d -out %s/%s" % (MUTGEN, f, i, wt, f))
            if rc != 0:
                continue
            pkg = "./" + (os.path.dirname(f) or ".")
            rc, out = sh("go build ./...", cwd=wt, timeout=300)
            verdict = "nocompile"
            if rc == 0:
                rc, out = sh("go test -vet=off -count=1 ./...", cwd=wt, timeout=240)
                verdict = "survived" if rc == 0 else "killed"
            if verdict == "survived":
                rc, diff = sh("git diff", cwd=wt)
                open(os.path.join(OUT, mid + ".diff"), "w").write(diff)
                with lock:
                    idx.write(json.dumps({"id": mid, "file": f, "n": i, "desc": desc.strip()}) + "\n"); idx.flush()
            else:
                open(os.path.join(OUT, mid + ".dead"), "w").write(verdict)
            with lock:
                stats[verdict] += 1
                s = sum(stats.values())
                if s % 50 == 0:
                    print(s, stats, flush=True)
            sh("git checkout -- .", cwd=wt)
    finally:
        sh("git -C /repo worktree remove --force %s" % wt)
ts = [threading.Thread(target=worker, args=(k,)) for k in range(W)]
[t.start() for t in ts]
[t.join() for t in ts]
print("DONE", stats, flush=True)
