"""Registry: which Coq files, generators and correspondence streams decide which property."""

GENERATORS = [
    ("facts", "Generated/Facts.v", "*"),
    ("lockprog", "Generated/LockProgs.v", ["C15"]),
]

TRUSTED_BASE = [
    "Coq 8.16.1 kernel and its VM (vm_compute used for case evaluation and finite-domain lemmas); no native_compute",
    "no axioms declared; Print Assumptions of every property theorem is checked to be 'Closed under the global context' on every run",
    "coqchk -silent -o over the closure of all Properties/*.vo: Axioms <none>, no type-in-type, no unsafe fixpoints, no assumed positivity (notes/coqchk.txt; re-run per property in the thorough tier)",
    "Coq standard library only (List, NArith, ZArith, String, Ascii, Lia/Zify, Permutation, Sorted, Decimal*); Uint63 literals only transport case bytes, never appear in a model definition or theorem; no extraction, no Extract directives",
    "translators harness/cmd/facts (reflection/constant dump into coq/Generated/Facts.v) and, for C15, harness/cmd/lockprog (go/ast -> lock programs, coq/Generated/LockProgs.v)",
    "correspondence harness (Go): generators, observable projection (errors.Is class sets, never messages), case-file printer, coqc output scraper",
    "hand-written Gallina model compared with the implementation on every run (coq/Model); Go runtime, stdlib and third-party libraries are modelled, not verified",
]

LAYER_A_MODEL = ["Generated/Facts.v", "Model/Err.v", "Model/Caveat.v", "Model/Access.v", "Model/Prohibits.v", "Corr/Transport.v", "Corr/RunA.v"]

PROPS = {
    "C18": {
        "obligation_files": ["Properties/C18.v"],
        "model_files": LAYER_A_MODEL,
        "rule": "stream auth-cond: every identity condition x every identity configuration (0-3 identities per provider over a 3-id universe), "
                "every lifetime limit boundary (0, 1, 2^63/1e9 +-1, 2^64/1e9 +-1, 2^63 +-1, 2^64-1, ...) x lifetimes around the limit (>= 10 s clock margin) "
                "and extreme expiries, random nested sets for GetMaxValidity/Validate; non-trivial = a discharge request reaches the caveat's own rule "
                "(not the wrong-access-kind shortcut) resp. a set with >= 2 limits; distinct = distinct Coq case term; scale: requests with 33-300 identities and organisation lists (required id first, middle, last, absent; asked three times), each followed by a small request",
        "assumptions": [
            "auth.DischargeRequest.Now() is the wall clock: lifetime cases keep >= 10 s between the requested lifetime and the limit, so the exact boundary instant is covered by the theorem (max_validity_exact), not by the correspondence",
            "Time.Sub saturation is modelled (sat64) and compared at the extreme expiries",
        ],
    },
    "C03": {
        "obligation_files": ["Properties/C03.v"],
        "model_files": LAYER_A_MODEL,
        "rule": "stream clear: random caveat sets (0-6 caveats of every registered kind incl. nested IfPresent to depth 2, unregistered, 3P, bind, attestations) x 1-4 requests of the four request kinds "
                "(flyio with clock input, discharge, bare, action-only; ~20% arbitrary presence patterns), plus every caveat kind singly against every request kind; observable = nil / sentinel class set; "
                "implementation-side oracle: Validate clears iff every request validates and every non-attestation caveat clears every request; non-trivial = non-empty set; distinct = distinct Coq case term; history: a set validated before whose members were replaced at the same length or re-filled from JSON decides by its current members",
        "assumptions": ["errors are observed through errors.Is against the library's sentinels only"],
    },
    "C10": {
        "obligation_files": ["Properties/C10.v"],
        "model_files": LAYER_A_MODEL,
        "generated_obligations": [],
        "rule": "stream flyio-rules: all 2^10 presence patterns of the request hierarchy fields x {litefs-cloud, other} feature for Access.Validate (exhaustive); per Fly.io caveat type random values over small universes "
                "steered to the caveat's resource; validity-window end points +-1 s / +-1 ns around both ends incl. the int64 wrap of time.Unix; every MemberFeatures entry x every action < 64 x 4 role masks; "
                "non-trivial = flyio request (not the wrong-access shortcut); distinct = distinct Coq case term; scale: the same large sets in the flyio-rules stream; role checks with undefined mask bits asked right after the same mask without them, in both orders",
        "assumptions": ["flyio.Access.Now() is replaced by a harness clock (embedding *flyio.Access and overriding Now) so window boundaries are exact",
                        "MemberFeatures is regenerated from the source into Generated/Facts.v on every run; member_features_pinned re-checks it against the documented table"],
    },
    "C09": {
        "obligation_files": ["Properties/C09.v"],
        "model_files": LAYER_A_MODEL,
        "rule": "stream resset: exhaustive over entry subsets (<=2 entries quick, <=3 thorough) of the id universe {\"\", a, ab, b} x masks x request ids {absent, zero, listed, unlisted, prefix-extended} x action masks, "
                "for string, prefix and integer resource sets; CAction exhaustively over the mask/action universes; random IfPresent nested to depth 3 and random sets with an implementation-side monotonicity oracle "
                "(a permitted action's random subset must be permitted); repeated evaluation of one map-backed set (iteration order); non-trivial = the request reaches the set's rule; distinct = distinct Coq case term; scale: prefix / string / integer sets of 9-257 (thorough: 1000) entries and conditionals of 9-257 members, every question asked three times",
        "assumptions": ["Go map iteration order is arbitrary: rs_perm_invariant proves the verdict does not depend on it; the harness emits entries sorted"],
    },
    "C17": {
        "obligation_files": ["Properties/C17.v"],
        "model_files": LAYER_A_MODEL + ["Model/Scope.v"],
        "rule": "stream scope: random caveat sets mixing Organization/Apps/Clusters/FeatureSet/IfPresent(nested <=2)/ValidityWindow/Action/IsUser/FlyioUserID (0-5 caveats, wildcard and conflicting ids, any masks); "
                "OrganizationScope, AppScope, ClusterScope, AppsAllowing (5 actions), Expiration, DangerousUserID compared with the model; implementation-side brute-force oracle over the id universe "
                "(listed ids clear, left-out ids do not, unrestricted only if all clear, nothing clears after the expiry); non-trivial = the set contains a caveat of the kind the helper reads; scale: Apps / Clusters caveats of 33-600 entries (alone, overlapping, under a conditional); history: one request object checked in a loop across the token's computed expiry in real time",
        "assumptions": ["the helpers read time.Now() through flyio.Access: generated validity windows stay >= 1 h away from the wall clock; the model takes the clock as an input"],
    },
    "C19": {
        "obligation_files": ["Properties/C19.v"],
        "model_files": ["Model/Base64.v", "Model/Header.v", "Corr/Transport.v", "Corr/RunH.v"],
        "rule": "stream header: random token lists (1-5 tokens, lengths 1-200 incl. every length class mod 3) formatted by ToAuthorizationHeader, re-labelled per token (fm2/fm1r/fm1a), decorated (0-3 schemes FlyV1/Bearer in random case, random ASCII whitespace) "
                "and corrupted in 12 ways (unknown label, missing separator, bad alphabet, bad padding, embedded CR/LF, empty element, spaces around commas, fo1 entries, empty token, only-oauth, label variants, random byte); "
                "Parse, StripAuthorizationScheme, ToAuthorizationHeader, bundle tokeniser (typed parts), base64 decoder and FindPermissionAndDischargeTokens compared with the model; implementation-side round-trip oracle; ASCII only; "
                "non-trivial = all header cases (base64 cases: decodes to non-empty); distinct = distinct Coq case term; scale: tokens of 4095-20000 bytes formatted and parsed back; history: one header read for several issuers in a row",
        "assumptions": ["headers are ASCII: Go's Unicode TrimSpace/EqualFold on non-ASCII input is outside the model (guard stated in the theorems' domain: str = list of bytes < 128 is what the generator emits)",
                        "encoding/base64 is modelled (Model/Base64.v) and compared directly on ~300/8000 strings per run"],
    },
    "C15": {
        "obligation_files": ["Properties/C15.v"],
        "model_files": ["Model/RWLock.v", "Generated/LockProgs.v"],
        "corr": False,
        "custom": "c15",
        "trusted_extra": ["translator harness/cmd/lockprog (go/ast: Bundle methods -> lock programs; syntactic read/write classification of token-list accesses; callbacks assumed terminating and non-reentrant)",
                          "Go sync.RWMutex modelled as writer-preferring (RLock blocks behind a pending Lock)"],
        "rule": "T-mode: every control-flow path (loops unrolled 0/1/2 times, callees inlined, deferred releases at return) of every Bundle method and generic helper is translated from /repo/bundle on every run and checked flat inside Coq "
                "(lockprogs_flat); evaluations = translated paths; non-trivial = distinct non-empty paths; support: goroutine stress of every pair of operations (incl. on a Select-ed bundle sharing the lock) with a deadlock watchdog "
                "(and the race detector in the thorough tier / when the obligation breaks); the library's own concurrent user of a bundle, the discharge client's fan-out, over 1, 2, 8, 9, 16, 17, 40 and 100 tickets against an in-process third party: the call returns and every discharge is in the result",
        "assumptions": ["race freedom is at the model's granularity (accesses to the token list and in-place token updates under the Bundle lock); token objects reached through returned Macaroon values are documented as unsafe by the library and not claimed",
                        "user callbacks (predicates, ForEach/Map/Reduce functions, Discharger) are assumed terminating and not to call back into the same bundle"],
    },
    "C01": {
        "obligation_files": ["Properties/C01.v"],
        "model_files": ['Model/Sym.v', 'Model/Ops.v', 'Corr/Transport.v', 'Corr/RunS.v'],
        "rule": "stream sym-forge (scenario language of coq/Model/Ops.v interpreted on the real library with real HMAC/SHA-256/ChaCha20-Poly1305 and symbolically in Coq): honest family (root token under the issuer key, 1-3 attenuation steps, optional third-party caveat and discharges, both nonce versions, proof/non-proof) + an independently minted sibling; the attacker holds a strict subset (never the root) and applies 1-3 surgery steps from 16 kinds (drop/swap/insert/append caveats without re-MAC, tails set to held tails / chains continued from held tails / finalised / hashed / truncated / literal / own-key chains, nonce kid/rnd/proof/version changes, location change, truncation + held tail, legitimate extension) before Verify; implementation-side oracle: an accepted token's nonce and caveat encodings must extend a held token; plus 3000 (quick) / 100000 (thorough) random bit/byte mutations of held wire tokens under the same oracle; observable per Verify = accept/reject, returned caveat identities in order, reachable attestations; every scenario is non-trivial (contains at least one Verify); distinct = distinct scenario term",
        "assumptions": ["symbolic cryptography: HMAC-SHA256, SHA-256, its 16-byte prefix and ChaCha20-Poly1305 are free injective non-invertible constructors, random values are fresh atoms, the attacker is the Dolev-Yao closure; computational soundness and collision probabilities are outside the theorems",
                        "data caveats are abstract in this layer (identity = canonical encoding, attestation flag, wraps-attestation flag); the Go side maps real caveats to identities through their canonical encoding"],
    },
    "C02": {
        "obligation_files": ["Properties/C02.v"],
        "model_files": ['Model/Sym.v', 'Model/Ops.v', 'Corr/Transport.v', 'Corr/RunS.v'],
        "rule": "stream sym-atten (scenario language of coq/Model/Ops.v interpreted on the real library with real HMAC/SHA-256/ChaCha20-Poly1305 and symbolically in Coq): chains of 1-3 attenuation steps from the encoded token (clone, add 1-2 data caveats incl. exact duplicates and near-duplicates, sometimes a third-party caveat), re-adding identical caveats (token must be byte-identical: OSameWire), verify child and parent with the same discharges; oracle: child accepted => parent accepted and the parent's returned caveats are a sub-multiset of the child's; observable per Verify = accept/reject, returned caveat identities in order, reachable attestations; every scenario is non-trivial (contains at least one Verify); distinct = distinct scenario term; history: an Add refused as a whole followed by Adds of its caveats on the same object; attenuations verified through a VerificationCache that already accepted the original",
        "assumptions": ["symbolic cryptography: HMAC-SHA256, SHA-256, its 16-byte prefix and ChaCha20-Poly1305 are free injective non-invertible constructors, random values are fresh atoms, the attacker is the Dolev-Yao closure; computational soundness and collision probabilities are outside the theorems",
                        "data caveats are abstract in this layer (identity = canonical encoding, attestation flag, wraps-attestation flag); the Go side maps real caveats to identities through their canonical encoding"],
    },
    "C04": {
        "obligation_files": ["Properties/C04.v"],
        "model_files": ['Model/Sym.v', 'Model/Ops.v', 'Corr/Transport.v', 'Corr/RunS.v'],
        "rule": "stream sym-3p (scenario language of coq/Model/Ops.v interpreted on the real library with real HMAC/SHA-256/ChaCha20-Poly1305 and symbolically in Coq): tokens with 1-2 third-party caveats at random positions; presented discharge multisets drawn from {genuine, for another token's ticket, re-keyed (right ticket, wrong secret), tampered, nested (itself demanding a discharge), extended, duplicate}, wrong third-party key at DischargeTicket, verifier-key/ticket splices between tokens; four presentation orders each; observable per Verify = accept/reject, returned caveat identities in order, reachable attestations; every scenario is non-trivial (contains at least one Verify); distinct = distinct scenario term; history: one prepared third-party caveat object added to six tokens (each accepts its genuine discharge, none a token minted for its ticket under a made-up key)",
        "assumptions": ["symbolic cryptography: HMAC-SHA256, SHA-256, its 16-byte prefix and ChaCha20-Poly1305 are free injective non-invertible constructors, random values are fresh atoms, the attacker is the Dolev-Yao closure; computational soundness and collision probabilities are outside the theorems",
                        "data caveats are abstract in this layer (identity = canonical encoding, attestation flag, wraps-attestation flag); the Go side maps real caveats to identities through their canonical encoding"],
    },
    "C05": {
        "obligation_files": ["Properties/C05.v"],
        "model_files": ['Model/Sym.v', 'Model/Ops.v', 'Corr/Transport.v', 'Corr/RunS.v'],
        "rule": "stream sym-honest (scenario language of coq/Model/Ops.v interpreted on the real library with real HMAC/SHA-256/ChaCha20-Poly1305 and symbolically in Coq): random honest histories: mint (v0/v1 nonce, occasionally a proof root), 0-3 clone+add steps by different holders, 0-2 third-party caveats, discharges (proof / non-proof, with caveats and attestations, optionally bound to a chain member), verification direct and through the wire, by a clone, without trusted keys and under a wrong key; oracle: the honest presentation is accepted and a clone verifies identically; observable per Verify = accept/reject, returned caveat identities in order, reachable attestations; every scenario is non-trivial (contains at least one Verify); distinct = distinct scenario term; history: one prepared third-party caveat object on many tokens; several presentations of one non-proof discharge nonce with different contents through Verify(bytes)",
        "assumptions": ["symbolic cryptography: HMAC-SHA256, SHA-256, its 16-byte prefix and ChaCha20-Poly1305 are free injective non-invertible constructors, random values are fresh atoms, the attacker is the Dolev-Yao closure; computational soundness and collision probabilities are outside the theorems",
                        "data caveats are abstract in this layer (identity = canonical encoding, attestation flag, wraps-attestation flag); the Go side maps real caveats to identities through their canonical encoding"],
    },
    "C06": {
        "obligation_files": ["Properties/C06.v"],
        "model_files": ['Model/Sym.v', 'Model/Ops.v', 'Corr/Transport.v', 'Corr/RunS.v'],
        "rule": "stream sym-bind (scenario language of coq/Model/Ops.v interpreted on the real library with real HMAC/SHA-256/ChaCha20-Poly1305 and symbolically in Coq): attenuation trees (2-7 nodes) over a token with a third-party caveat; a non-proof discharge bound to 1-2 nodes (or an unrelated token) presented with every node; oracle: accepted iff the presented node is a descendant-or-self of every bound node; a permission token carrying a binding is rejected; observable per Verify = accept/reject, returned caveat identities in order, reachable attestations; every scenario is non-trivial (contains at least one Verify); distinct = distinct scenario term",
        "assumptions": ["symbolic cryptography: HMAC-SHA256, SHA-256, its 16-byte prefix and ChaCha20-Poly1305 are free injective non-invertible constructors, random values are fresh atoms, the attacker is the Dolev-Yao closure; computational soundness and collision probabilities are outside the theorems",
                        "data caveats are abstract in this layer (identity = canonical encoding, attestation flag, wraps-attestation flag); the Go side maps real caveats to identities through their canonical encoding"],
    },
    "C07": {
        "obligation_files": ["Properties/C07.v"],
        "model_files": ['Model/Sym.v', 'Model/Ops.v', 'Corr/Transport.v', 'Corr/RunS.v'],
        "rule": "stream sym-att (scenario language of coq/Model/Ops.v interpreted on the real library with real HMAC/SHA-256/ChaCha20-Poly1305 and symbolically in Coq): nine assemblies (bearer-added or hand-appended attestations/wrappers, own third-party caveat under own key with spoofed location, copied trusted ticket with own verifier key and self-issued proof, non-proof discharge extended by hand, finalised proof extended by hand, own proof root, relocated genuine discharge) x trusted-key maps {absent, empty, wrong key, several keys, other location, right key}; observable includes the attestations reachable through GetCaveats (wrappers included); observable per Verify = accept/reject, returned caveat identities in order, reachable attestations; every scenario is non-trivial (contains at least one Verify); distinct = distinct scenario term; wire forms: old-format (two-field nonce) tokens hand-extended with an attestation and presented as arrays and as maps naming the Nonce field twice with three-field decoys (proof set): none is accepted",
        "assumptions": ["symbolic cryptography: HMAC-SHA256, SHA-256, its 16-byte prefix and ChaCha20-Poly1305 are free injective non-invertible constructors, random values are fresh atoms, the attacker is the Dolev-Yao closure; computational soundness and collision probabilities are outside the theorems",
                        "data caveats are abstract in this layer (identity = canonical encoding, attestation flag, wraps-attestation flag); the Go side maps real caveats to identities through their canonical encoding"],
    },
    "C08": {
        "obligation_files": ["Properties/C08.v"],
        "model_files": ['Model/Sym.v', 'Model/Ops.v', 'Corr/Transport.v', 'Corr/RunS.v'],
        "rule": "stream sym-proof (scenario language of coq/Model/Ops.v interpreted on the real library with real HMAC/SHA-256/ChaCha20-Poly1305 and symbolically in Coq): random sequences (1-7 steps) of add / encode / clone / raw decode / verify (wire and direct) / same-wire comparison on a fresh proof discharge and its copies, and hand-built extensions from the published tail with 5 tail shapes; oracle: Add never succeeds after the first encode, no hand extension is accepted; observable per Verify = accept/reject, returned caveat identities in order, reachable attestations; every scenario is non-trivial (contains at least one Verify); distinct = distinct scenario term; history: a finalised proof and the bytes Encode returned, re-examined after the process minted, sealed and encoded 900 other tokens",
        "assumptions": ["symbolic cryptography: HMAC-SHA256, SHA-256, its 16-byte prefix and ChaCha20-Poly1305 are free injective non-invertible constructors, random values are fresh atoms, the attacker is the Dolev-Yao closure; computational soundness and collision probabilities are outside the theorems",
                        "data caveats are abstract in this layer (identity = canonical encoding, attestation flag, wraps-attestation flag); the Go side maps real caveats to identities through their canonical encoding"],
    },
    "C20": {
        "obligation_files": ["Properties/C20.v"],
        "model_files": ["Model/TPClient.v", "Corr/Transport.v", "Corr/RunC.v"],
        "rule": "stream client-opts: 1-3 third-party locations over 12 authority variants (port, case, sub-/super-domain, look-alike suffix/prefix, userinfo tricks, IP literals, base paths), 1-2 permission tokens with third-party caveats, 0-6 client options in random order and repetition "
                "(WithHTTP with 3 capturing transports, WithAuthentication / WithBearerAuthentication for configured or other hosts incl. non-URL locations and empty credentials, WithIgnoredThirdParties, WithPollingBackoff) and scripted third-party replies "
                "(immediate discharge, poll URL on an arbitrary host with 0-2 'not ready', 307 redirects to arbitrary hosts nested up to 3 deep, errors); observable = multiset of (transport, URL hostname, Authorization) of every captured request and the number of discharges appended; "
                "implementation-side oracle on the returned header (scheme prefix kept, caller's tokens unchanged and in order, discharges appended); non-trivial = at least one request was made; history: the client is handed its own previous result three more times (no request, same header, scheme prefix kept)",
        "assumptions": ["net/url (Parse, IsAbs, Hostname) and net/http's redirect following are trusted and exercised, not modelled: the model works on the hostnames Go reports",
                        "net/http adds 'Basic <userinfo>' itself for URLs carrying userinfo; the harness does not count that as a configured credential"],
    },
    "C16": {
        "obligation_files": ["Properties/C16.v"],
        "model_files": ["Model/TPServer.v", "Model/TPStoreLRU.v", "Corr/Transport.v", "Corr/RunT.v"],
        "rule": "stream tp-hist: the real tp.TP handlers and MemoryStore driven in-process (httptest) over three root tokens with third-party caveats: histories of 3-12 actions from {init with a valid / tampered / foreign / empty ticket and an application that answers immediately, with a poll URL, a user-interactive pair or an error; poll; user-page visit with approve / abort / nothing; direct DischargePoll / AbortPoll / DischargeUserInteractive / AbortUserInteractive} "
                "with right, crossed (poll secret at the user endpoint and vice versa) and guessed secrets, interleaving several flows; observable = status, body kind, whether the application ran, and for every returned discharge which root token it verifies against (exactly one expected) and the caveats it adds; "
                "implementation-side oracle: no poll delivers a discharge for a flow the application never approved; "
                "the same service over a MemoryStore of 1..6 keys (case kind KTPLRU, model Model/TPStoreLRU.v): 600 (quick) / 6000 (thorough) histories of 8-50 steps in which eviction happens in ~90 % of the histories, every secret ever issued (also the undisclosed user secret of poll-only flows) keeps being presented; oracles: nothing delivered without approval, nothing delivered twice, every use of a collected flow's secrets refused, never more than cap keys in the cache; a forced interleaving (another flow inserted between the two store calls of one handler) must take the error branches; non-trivial = at least one flow was created",
        "assumptions": ["secrets are 16 random bytes: modelled as fresh atoms, a guess is a value the store never issued",
                        "LRU eviction of the MemoryStore is modelled key by key (Model/TPStoreLRU.v: two keys per flow in one recency list, Get refreshes, Add evicts the oldest key); approvals that the discharge refuses (bad caveat list) are not generated against the bounded store",
                        "two polls racing on the same flow may both deliver (outside 'once the answer has been collected'); handlers are compared sequentially"],
    },
    "C13": {
        "obligation_files": ["Properties/C13.v"],
        "model_files": ['Model/BundleM.v', 'Model/BundleOps.v', 'Model/BundleHeap.v', 'Corr/Transport.v', 'Proofs/CacheProofs.v', 'Corr/RunB.v'],
        "rule": "stream bundle-heap (object sharing, model Model/BundleHeap.v, case kind KBunH): scenarios that mutate through aliases - Select, then Attenuate / Verify / AddTokens / Filter / Discharge on the parent and on the derived bundle in every order (all 5x5 pairs, both sides), verify-select-attenuate, select-verify-one-side, nested derivations with Clone in between, free scenarios - observing Validate (4 requests), Header, Len and Count(verified) on EVERY live bundle after EVERY step; hard oracle on every scenario: every decision of a bundle is the decision of its own Header() parsed and verified afresh (with every discharge the scenario has seen); four scripted F15 regression cases; "
                "stream bundle-hist: headers assembled in random order from a pool of valid, attenuated, undischarged (one and two third parties), wrongly-keyed, unknown-key-id and foreign-location permission tokens, genuine / extraneous / wrongly-signed discharges, non-macaroon and malformed entries (incl. empty elements); histories of 4-12 operations from "
                "{ParseBundle, ParseBundleWithFilter(KeepAll), AddTokens, Select/Filter with 8 predicates, Verify with a KeyResolver, Validate (3 requests), Header, Len, Count (predicate and non-predicate filters), Attenuate (3 caveat lists incl. a duplicate), Discharge for either third party with the right or a wrong key, Clone, UndischargedThirdPartyTickets, Select/Filter/Count/Any with the non-predicate filters IsMissingDischarge, AllowsAccess (flyio.IsForOrg), WithDischarges (nested), IsEmpty, Error, VerificationCache.Purge}, plus scripted openings (all-or-nothing Discharge, failing Attenuate, one token for several accesses, the bundle of an empty header and its clone); "
                "the model's verification / clearing / attenuation tables are filled by DIRECT calls (macaroon.Decode+Verify with all discharges of the bundle, CaveatSet.Validate, Decode+Add+String) outside the bundle; implementation-side oracle: after Verify the bundle clears a request iff one of the returned verified sets clears it, and Header() = 'FlyV1 ' + tokens joined in order; "
                "non-trivial = at least one direct verification was recorded; oracles: caches of capacity 1-3 against headers with more valid tokens than they hold; non-canonical wire forms of a valid token in a header; bundles sharing a parsed macaroon with spare capacity attenuated in turn",
        "assumptions": ["derived bundles (Select) share token objects with their parent by design: modelled by the heap model (cells for token objects and verification wrappers); the value model's scenarios only read derived bundles and the refinement theorem says when the two agree; locks are C15",
                        "the tokeniser (header string -> typed entries) is C19's model; here entries arrive already typed by the real tokeniser",
                        "map iteration order over third-party locations inside Verify is arbitrary in Go; the model uses caveat order (irrelevant to the result by the C04 theorems)"],
    },
    "C14": {
        "obligation_files": ["Properties/C14.v"],
        "model_files": ['Model/BundleM.v', 'Model/BundleOps.v', 'Corr/Transport.v', 'Proofs/CacheProofs.v', 'Corr/RunB.v'],
        "rule": "stream cache-hist: as bundle-hist but every Verify goes through one VerificationCache shared by all bundles of the scenario (capacity 1, 2 or 8; TTL +1 h or -1 h = always expired), headers are re-used across bundles (hits, former aliasing F7a), Attenuate between verifications; observable adds the inner verifier's call log (which tokens missed the cache); "
                "each case also evaluates key_sound_list on the recorded direct-verification table for the queries the scenario makes (hypothesis of run_transparent_check); one dedicated case reproduces known finding F7b on every run; non-trivial = at least one direct verification was recorded",
        "assumptions": ["with capacity < 8 bundles hold one permission token (Go iterates dissByPerm in map order, which makes LRU recency of several simultaneous lookups arbitrary)",
                        "TTL is modelled as live / always-expired; real-time expiry inside a scenario is not exercised in the quick tier",
                        "known finding F7b (two distinct valid discharges for one ticket in non-sorted order) is excluded by the key-soundness hypothesis and reported as KNOWN-FINDING"],
    },
    "C11": {
        "obligation_files": ["Properties/C11.v"],
        "model_files": ['Model/Caveat.v', 'Model/Msgpack.v', 'Model/Codec.v', 'Model/TypedDec.v', 'Model/TypedDec2.v', 'Model/TokenDec.v', 'Generated/Facts.v', 'Corr/Transport.v', 'Corr/RunM.v'],
        "rule": "stream typed2: the same for the twelve non-scalar types, unregistered caveats and whole sets (case kinds KDecBody2 / KDecSet, model dec_body2 / dec_set_typed): unsorted and duplicate map keys, str and bin and nil keys, nil in place of each field and of the whole body, map- vs array-encoded structs with repeated and unknown field names, ext headers in front of maps, nested sets 0-4 deep with registered, unregistered and undecodable members, short and long arrays, wrong shapes - acceptance AND the re-encoding of the decoded value must agree exactly, both ways; oracles: the re-encoding decodes, is a fixed point, and decodes to an equal value; "
                "stream typed: for every scalar-bodied caveat type, bodies in canonical and non-canonical form (every integer width incl. signed codes and negative values, nil for each field and for the whole body, str/bin interchange, arrays shorter and longer than the field count, map-encoded structs with known, unknown, repeated and non-string keys, wrong shapes, trailing bytes) fed to DecodeCaveats as 92 <type> <body>; the re-encoding of what the library decoded (or its refusal) is compared with the typed lenient decoder model dec_body; "
                "stream codec: caveats of every registered type with fields on encoding boundaries (0, 127/128, 255/256, 65535/65536, 2^32-1/2^32, 2^63-1/2^63, 2^64-1; negative int64 boundaries; string/byte lengths 0,1,31,32,255,256; maps and slices of 0,1,15,16,17 entries; nil vs empty; nested conditionals; unregistered types with arbitrary msgpack bodies) - "
                "MarshalMsgpack bytes compared with the model's encoder; whole sets and tokens (both nonce versions); frames the decoder sees (type + body bytes) on encoded sets; Decoder.Skip on well-formed, truncated, mutated and extended msgpack values; JSON round trip (msgpack of the result compared with the model's json_rt); the JSON type field: written for built-in types and for three user-defined types the harness registers at 2^48+7, 2^63+7 and 2^64-2, and read from names, decimal numerals on every width boundary, with leading zeros, out of range, and malformed numerals; "
                "implementation-side oracles: encoding twice gives the same bytes, decode then re-encode reproduces the bytes, and three non-canonical re-encodings of every generated token (map-encoded structs + full-width ints, full-width ints, trailing bytes) decode to a value that re-encodes to the canonical bytes and verifies with the same verdict; non-trivial = all encode cases, skip cases the library accepts; tokens sent as maps whose field names repeat (decoy and genuine nonce in both orders, finalised and plain tails): the verdict is the same before and after re-encoding and the proof flag of an accepted token is the signed one; nil / empty key-ids round-trip; stream token (case kind KDecTok, model dec_token_gen): ~930 (quick) / 16k (thorough) array and map forms of whole tokens of both nonce versions - reordered, unknown and repeated field names (decoy nonces of 2 and 3 fields first and last, repeated caveats / location / tail, nil values), str/bin variants, trailing bytes, truncations, wrong arities - acceptance and re-encoding compared exactly",
        "assumptions": ["partial: typed lenient decoding of individual fields (width variants, nil-for-zero, str/bin, map-encoded structs, 16/32-bit truncation) is modelled and proved for every caveat type and for whole sets (Model/TypedDec.v, Model/TypedDec2.v); not representable in the model's caveat type and therefore compared after normalisation: a nil versus an empty resource-set map (two library-canonical encodings, each a fixed point); which of two decoders msgpack caches for *CaveatSet depends on whether the process first encoded or first decoded a conditional caveat (model parameter pz, both variants compared)",
                        "encoding/json's text layer is trusted; text fields are ASCII in the generator (valid UTF-8 is a hypothesis of the property)"],
    },
    "C12": {
        "obligation_files": ["Properties/C12.v"],
        "model_files": ['Model/Caveat.v', 'Model/Msgpack.v', 'Model/Codec.v', 'Model/TypedDec.v', 'Model/TypedDec2.v', 'Model/CavSize.v', 'Corr/Transport.v', 'Corr/RunM.v'],
        "rule": "stream malformed: structurally valid tokens damaged in 9 ways (byte mutation, nil in place of a field, oversized length prefixes array32/map32/bin32/str32/array16, nesting up to 2000 deep, unknown types with arbitrary bodies and mistyped bodies for registered types, truncation, random bytes, the recorded crashers F2-F5/F11, mistyped spliced values), "
                "JSON documents (null bodies, null ifs, wrong shapes, mutated) and header strings; every input goes through Decode / DecodeCaveats / DecodeNonce / Parse / ParseBundle and then EVERY operation the library offers on the result (Validate, GetCaveats, scopes, Expiration, tickets, Verify, Add, Encode, String, Clone, JSON, bundle ops) under recover() with a TotalAlloc bound of 256*len + 64 MiB; "
                "the model's Decoder.Skip is compared on the same hostile inputs; non-trivial = all inputs; scale: an array header that lies in front of 63-300 well-formed caveats (decode-only allocation bound); Count/Any with whole-list filters before printing, cloning and verifying every parsed bundle",
        "assumptions": ["partial: Go-runtime panics, stack growth on deep nesting and real allocation are exhibited by this fuzz run (support), not by the theorems; the theorems bound what the parser model can be made to allocate or return",
                        "msgpack's own chunked allocation limits (1 MB per byte string read attempt) are relied on and covered by the measured bound"],
    },
}
