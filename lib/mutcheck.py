#!/usr/bin/env python3
"""mutcheck.py [workers] [limit] -- phase 2 of the mutation measurement: for every test-surviving mutant (phase 1,
.build/mutants/*.diff) run the quick correspondence streams of the properties anchored in the mutated file against the
mutant, in parallel, each worker in its own scratch worktree + harness copy under /tmp (the compiled Coq development in
/verif/coq is only read).  A mutant counts as caught when an implementation-side oracle fails, the model evaluated in Coq
disagrees with the mutated library, the harness crashes/does not build, or (bundle/*.go) the regenerated lock programs are
not flat / not single-section / do not share locks.  Approximates `./check <id> --tier quick` without rebuilding the proofs.
Writes .build/mutants/results.jsonl.  Support tool, not a registered check."""
import os, sys, subprocess, json, threading, queue, shutil, re, collections, glob
W = int(sys.argv[1]) if len(sys.argv) > 1 else 8
LIMIT = int(sys.argv[2]) if len(sys.argv) > 2 else 10**9
ENV = dict(os.environ, GOFLAGS="-mod=mod", GOPROXY="off", GOSUMDB="off", GOTOOLCHAIN="local")
OUT = "/verif/.build/mutants"
sys.path.insert(0, "/verif/lib")
import custom
def sh(cmd, cwd=None, timeout=600, env=None):
    try:
        p = subprocess.run(cmd, cwd=cwd, env=env or ENV, shell=True, stdout=subprocess.PIPE, stderr=subprocess.STDOUT, text=True, timeout=timeout)
        return p.returncode, p.stdout
    except subprocess.TimeoutExpired:
        return 124, "timeout"
anch = collections.defaultdict(set)
for l in open("/verif/properties.jsonl"):
    d = json.loads(l)
    for f in d["anchors"]["files"]:
        anch[f].add(d["id"])
DIRDEF = {"": ["C01", "C03", "C05", "C11"], "bundle": ["C13", "C14"], "flyio": ["C10", "C17"], "auth": ["C18"], "resset": ["C09"], "tp": ["C16", "C20"], "internal/merr": ["C03"]}
if os.environ.get("MUT_WIDE"):
    # second pass: every check whose streams reach the package
    DIRDEF = {"": ["C01", "C02", "C03", "C04", "C05", "C06", "C07", "C08", "C11", "C12", "C19"], "bundle": ["C02", "C12", "C13", "C14", "C15", "C19"],
              "flyio": ["C10", "C12", "C13", "C17", "C19"], "auth": ["C07", "C11", "C12", "C18"], "resset": ["C09", "C11", "C12", "C03"], "tp": ["C16", "C20"], "internal/merr": ["C03", "C09"]}
def props_for(f):
    ps = set(anch.get(f, set()))
    ps |= set(DIRDEF.get(os.path.dirname(f), []))
    return sorted(ps)
done = set()
rp = os.path.join(OUT, os.environ.get("MUT_RESULTS", "results.jsonl"))
ONLY = None
if os.environ.get("MUT_ONLY_MISSED_OF"):
    ONLY = {json.loads(l)["id"] for l in open(os.path.join(OUT, os.environ["MUT_ONLY_MISSED_OF"])) if not json.loads(l)["caught_by"]}
if os.path.exists(rp):
    for l in open(rp):
        done.add(json.loads(l)["id"])
jobs = queue.Queue()
n = 0
for l in open(os.path.join(OUT, "index.jsonl")):
    d = json.loads(l)
    if d["id"] in done or n >= LIMIT or (ONLY is not None and d["id"] not in ONLY):
        continue
    jobs.put(d); n += 1
print("mutants to check:", n, flush=True)
lock = threading.Lock()
res = open(rp, "a")
stats = collections.Counter()
def run_prop(k, pid, hcopy, wt):
    """returns (caught, how)"""
    if pid == "C15":
        rc, out = sh("LOCKPROG_DIR=%s/bundle %s/bin/lockprog" % (wt, hcopy), timeout=120)
        if rc != 0:
            return True, "lockprog translator fails"
        tmpc = "/tmp/mutc-%d/C15coq/Generated" % k
        os.makedirs(tmpc, exist_ok=True)
        open(os.path.join(tmpc, "LockProgs.v"), "w").write(out)
        paths = custom._paths("/tmp/mutc-%d/C15coq" % k)
        bad = [p for nme, p in paths if not custom._flat(p) or sum(1 for i in p if i.startswith("Acq")) > 1]
        for fn, so, sl in re.findall(r'\("([A-Za-z0-9_]+)", (true|false), (true|false)\)', out):
            if so == "true" and sl == "false":
                bad.append(fn)
        return (True, "lock programs: " + str(bad[:2])) if bad else (False, "")
    cdir = "/tmp/mutc-%d/%s" % (k, pid)
    shutil.rmtree(cdir, ignore_errors=True)
    rc, out = sh("%s/bin/corr -prop %s -tier quick -seed 1 -out %s" % (hcopy, pid, cdir), cwd=hcopy, timeout=600)
    if rc != 0:
        return True, "harness exits %d: %s" % (rc, out[-200:].replace("\n", " "))
    summ = json.load(open(os.path.join(cdir, "summary.json")))
    if summ.get("oracle_fails"):
        return True, "oracle: " + str(summ["oracle_fails"][0].get("oracle"))[:160]
    for s in summ["shards"]:
        rc, out = sh("coqc -Q /verif/coq Mac %s" % s["file"], cwd=cdir, timeout=900)
        if rc != 0:
            return True, "coqc error on cases"
        m = re.search(r"M\s*=\s*(.*?)\n\s*:", out, re.S)
        if not m or m.group(1).strip() != "[]":
            return True, "model mismatch in " + s["file"]
    return False, ""
def worker(k):
    wt, hcopy = "/tmp/mutw-%d" % k, "/tmp/muth-%d" % k
    sh("git -C /repo worktree remove --force %s" % wt)
    sh("git -C /repo worktree add -q %s HEAD" % wt)
    shutil.rmtree(hcopy, ignore_errors=True)
    shutil.copytree("/verif/harness", hcopy)
    gm = open(os.path.join(hcopy, "go.mod")).read().replace("=> /repo", "=> " + wt)
    open(os.path.join(hcopy, "go.mod"), "w").write(gm)
    os.makedirs("/tmp/mutc-%d" % k, exist_ok=True)
    os.makedirs(os.path.join(hcopy, "bin"), exist_ok=True)
    try:
        while True:
            try:
                d = jobs.get_nowait()
            except queue.Empty:
                return
            rc, out = sh("git apply %s/%s.diff" % (OUT, d["id"]), cwd=wt)
            if rc != 0:
                sh("git checkout -- .", cwd=wt); continue
            props = props_for(d["file"])
            rc, out = sh("go build -tags verif -o bin/ ./cmd/corr ./cmd/lockprog", cwd=hcopy, timeout=600)
            r = {"id": d["id"], "file": d["file"], "desc": d["desc"], "props": props, "caught_by": [], "how": {}}
            if rc != 0:
                r["caught_by"], r["how"] = ["build"], {"build": out[-200:]}
            else:
                # cheap streams first; stop at the first check that catches the mutant
                for pid in sorted(props, key=lambda p: (p in ("C11", "C19", "C12", "C09", "C10"), p)):
                    try:
                        c, how = run_prop(k, pid, hcopy, wt)
                    except Exception as e:
                        c, how = True, "exception %r" % e
                    if c:
                        r["caught_by"].append(pid); r["how"][pid] = how
                        break
            with lock:
                res.write(json.dumps(r) + "\n"); res.flush()
                stats["caught" if r["caught_by"] else "missed"] += 1
                if sum(stats.values()) % 20 == 0:
                    print(dict(stats), flush=True)
            sh("git checkout -- .", cwd=wt)
    finally:
        sh("git -C /repo worktree remove --force %s" % wt)
        shutil.rmtree(hcopy, ignore_errors=True)
        shutil.rmtree("/tmp/mutc-%d" % k, ignore_errors=True)
ts = [threading.Thread(target=worker, args=(k,)) for k in range(W)]
[t.start() for t in ts]
[t.join() for t in ts]
print("DONE", dict(stats), flush=True)
