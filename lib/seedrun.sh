#!/bin/bash
# lib/seedrun.sh <seed dir name under seeded/> <check id> [tier]
# applies a kept seeded change to /repo, runs one check, undoes the change (never commits it)
set -u
d=/verif/seeded/$1; c=$2; t=${3:-quick}
[ -z "$(git -C /repo status --short)" ] || { echo "/repo not clean"; exit 2; }
git -C /repo apply "$d/patch.diff" || exit 2
cd /verif && VERIF_EVIDENCE_DIR=/verif/.build/evidence-seeded ./check "$c" --tier "$t" 2>&1 | grep -E "^(OK|VIOLATION|KNOWN)" | head -4
git -C /repo checkout -- .
