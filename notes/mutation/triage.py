import json, collections, re
rows=[json.loads(l) for l in open('/verif/notes/mutation/pass3.jsonl')]
src={}
def lines(f):
    if f not in src: src[f]=open('/repo/'+f).read().split('\n')
    return src[f]
def ctx(f,n,k=2):
    L=lines(f); return ' '.join(x.strip() for x in L[max(0,n-1-k):n+k])
cats=collections.defaultdict(list)
for d in rows:
    if d['caught_by']: continue
    m=re.search(r':(\d+):\d+$', d['desc']); n=int(m.group(1)); f=d['file']
    ln=lines(f)[n-1].strip(); op=d['desc'].split(' at ')[0]
    c=None
    if re.search(r'\.Warn\(|log\.Info\(\)|getLog|log\.With|logrus|\.Info\(\)', ln) or (op=='delete statement' and re.search(r'Warn|Info\(', ln)): c='logging only'
    elif re.search(r'make\(|\.Grow\(|capHint|len\(ts\) - 1|nDiss\+\+|nPerm\+\+', ln): c='capacity / pre-size hint only'
    elif re.search(r'lastBO|nextBO|pollBackoffNext|defaultBackoff|time\.Second', ln) or 'bo = c.nextBO' in ln: c='poll back-off timing'
    elif f=='caveat.go' and 50<=n<=61: c='declared constant never used in a decision'
    elif re.search(r'nonceRndSize|secretSize', ln): c='size of a random secret (length not part of any property)'
    elif re.search(r'errors\.Join\(|merr = |combinedErr', ln) and op=='delete statement': c='error text only (the error is returned anyway)'
    elif op.startswith('continue -> break') or op.startswith('break -> continue'): c='loop exit on an error path (the call fails either way) / after the decision is made'
    elif re.search(r'panic\(|log\.Panicf', ln): c='unreachable defensive panic'
    elif re.search(r'http\.Error\(w, `\{"error": "internal server error"\}`', ln): c='status text on a failing-store / internal-error path'
    elif re.search(r'if err != nil|err != nil \{|; err != nil', ln) and op in ('if-condition forced false','!= -> ==','if-condition forced true'):
        c='error check on a path that needs a failing encoder / store / clock / RNG (never fails here)'
    cats[c].append((f,n,op,ln))
for c in sorted(cats, key=lambda x: str(x)):
    if c is None: continue
    print('%4d  %s' % (len(cats[c]), c))
print('%4d  UNCLASSIFIED' % len(cats[None]))
for f,n,op,ln in cats[None]:
    print('   ', f, 'L%d'%n, op, '|', ln[:95])
