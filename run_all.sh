#!/bin/sh
# run_all.sh [quick|thorough] : every registered check, sequentially; prints one line per check
tier=${1:-quick}
cd "$(dirname "$0")"
for p in $(python3 -c "import json;print(' '.join(c['property_id'] for c in json.load(open('MANIFEST.json'))['checks']))"); do
  s=$(date +%s)
  out=$(./check $p --tier $tier 2>&1 | grep -E '^(OK|VIOLATION|KNOWN)' | head -3 | tr '\n' '|')
  echo "$p $(( $(date +%s) - s ))s $out"
done
