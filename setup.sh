#!/bin/sh
# Build the framework from files on disk only (offline): Go harness, generated facts, Coq project.
set -e
cd "$(dirname "$0")"
export GOFLAGS=-mod=mod GOPROXY=off GOSUMDB=off GOTOOLCHAIN=local
mkdir -p .build/bin evidence replays
cp /repo/go.sum harness/go.sum
(cd harness && go build -tags verif -o ../.build/bin/ ./cmd/...)
.build/bin/facts > coq/Generated/Facts.v.tmp && { cmp -s coq/Generated/Facts.v.tmp coq/Generated/Facts.v || cp coq/Generated/Facts.v.tmp coq/Generated/Facts.v; }; rm -f coq/Generated/Facts.v.tmp
(cd coq && coq_makefile -f _CoqProject -o Makefile >/dev/null && timeout 3000 make -k -j16 >/dev/null 2>&1 || true)
echo setup done
