(* GENERATED from /repo/bundle by harness/cmd/lockprog on every run - do not edit *)
From Coq Require Import List String.
From Mac Require Import Model.RWLock.
Import ListNotations.
Local Open Scope string_scope.

(* every control-flow path of every Bundle operation as a lock program *)
Definition lockprogs : list (string * list prog) := [
  ("AddTokens", [[Acq W; Rd; Wr; Rel W]; []]);
  ("Any", [[Acq R; Rd; Rel R]]);
  ("Attenuate", [[Acq W; Wr; Rel W]]);
  ("Clone", [[Acq R; Rd; Rel R]]);
  ("Count", [[Acq R; Rd; Rel R]]);
  ("Discharge", [[Acq W; Wr; Rel W]]);
  ("Error", [[Acq R; Rd; Rel R]]);
  ("Filter", [[Acq W; Wr; Wr; Rel W]]);
  ("ForEach", [[Acq R; Rd; Rel R]]);
  ("Header", [[Acq R; Rd; Rel R]]);
  ("IsEmpty", [[Acq R; Rd; Rel R]]);
  ("IsMissingDischarge", [[]]);
  ("Len", [[Acq R; Rd; Rel R]]);
  ("Map", [[Acq R; Rd; Rel R]]);
  ("Reduce", [[Acq R; Rd; Rel R]]);
  ("Select", [[Acq R; Rd; Rel R]]);
  ("String", [[Acq R; Rd; Rel R]]);
  ("UndischargedThirdPartyTickets", [[Acq R; Rd; Rel R]]);
  ("UndischargedTicketsForThirdParty", [[Acq R; Rd; Rel R]]);
  ("Validate", [[Acq R; Rd; Rel R]]);
  ("Verify", [[Acq W; Wr; Rel W]]);
  ("WithDischarges", [[]])
].

(* (function, shares token objects with the receiver, shares the receiver's lock) for every Bundle literal *)
Definition bundle_literals : list (string * bool * bool) := [
  ("Clone", false, false);
  ("Select", true, true)
].

(* methods of the token list classified as writes (pointer receiver, element assignment or in-place update of tokens): Attenuate, Discharge, Verify *)
