(* GENERATED from /repo by harness/cmd/facts on every run - do not edit *)
From Coq Require Import List NArith String.
Import ListNotations.
Local Open Scope string_scope.
Local Open Scope N_scope.

Definition member_features : list (string * N) := [
  ("addon", 31);
  ("authentication", 1);
  ("billing", 1);
  ("builder", 31);
  ("checks", 31);
  ("deletion", 0);
  ("document_signing", 0);
  ("domain", 31);
  ("litefs-cloud", 31);
  ("membership", 1);
  ("site", 31);
  ("wg", 31)
].

Definition f_feature_lfsc : string := "litefs-cloud".
Definition f_role_member : N := 1.
Definition f_role_admin : N := 4294967295.
Definition f_action_read : N := 1.
Definition f_action_write : N := 2.
Definition f_action_create : N := 4.
Definition f_action_delete : N := 8.
Definition f_action_control : N := 16.
Definition f_action_all : N := 31.

(* (type number, name, is attestation, msgpack shape) *)
Definition registered : list (N * string * bool * string) := [
  (0, "Organization", false, "struct{uint64,uint16}");
  (2, "Volumes", false, "struct{custom:ResourceSet[string,github.com/superfly/macaroon/resset.Action]}");
  (3, "Apps", false, "struct{custom:ResourceSet[uint64,github.com/superfly/macaroon/resset.Action]}");
  (4, "ValidityWindow", false, "struct{int64,int64}");
  (5, "FeatureSet", false, "struct{custom:ResourceSet[string,github.com/superfly/macaroon/resset.Action]}");
  (6, "Mutations", false, "struct{[]string}");
  (7, "Machines", false, "struct{custom:ResourceSet[string,github.com/superfly/macaroon/resset.Action]}");
  (8, "ConfineUser", false, "struct{uint64}");
  (9, "ConfineOrganization", false, "struct{uint64}");
  (10, "IsUser", false, "struct{uint64}");
  (11, "3P", false, "struct{string,bytes,bytes}");
  (12, "BindToParentToken", false, "bytes");
  (13, "IfPresent", false, "struct{custom:<>,uint16}");
  (14, "MachineFeatureSet", false, "struct{custom:ResourceSet[string,github.com/superfly/macaroon/resset.Action]}");
  (15, "FromMachineSource", false, "struct{string}");
  (16, "Clusters", false, "struct{custom:ResourceSet[string,github.com/superfly/macaroon/resset.Action]}");
  (19, "ConfineGoogleHD", false, "string");
  (20, "ConfineGitHubOrg", false, "uint64");
  (21, "MaxValidity", false, "uint64");
  (22, "IsMember", false, "struct{}");
  (23, "FlyioUserID", true, "uint64");
  (24, "GitHubUserID", true, "uint64");
  (25, "GoogleUserID", true, "custom:GoogleUserID");
  (26, "Action", false, "uint16");
  (27, "Commands", false, "[]struct{[]string,bool}");
  (28, "AppFeatureSet", false, "struct{custom:ResourceSet[string,github.com/superfly/macaroon/resset.Action]}");
  (29, "StorageObjects", false, "struct{custom:ResourceSet[github.com/superfly/macaroon/resset.Prefix,github.com/superfly/macaroon/resset.Action]}");
  (30, "AllowedRoles", false, "uint32");
  (31, "FlySrc", false, "struct{string,string,string}")
].

(* (alias, type number) from the RegisterCaveatJSONAlias calls in the source *)
Definition json_aliases : list (string * N) := [
  ("DeprecatedApps", 3);
  ("DeprecatedOrganization", 0);
  ("NoAdminFeatures", 22)
].

Definition f_cav_min_user_defined : N := 281474976710656.
Definition f_cav_max_user_defined : N := 18446744073709551614.
Definition f_cav_unregistered : N := 18446744073709551615.
Definition f_scheme_flyv1 : string := "FlyV1".
Definition f_init_path : string := "/.well-known/macfly/3p".
Definition f_poll_path_prefix : string := "/.well-known/macfly/3p/poll/".
Definition f_encryption_key_size : N := 32.
Definition f_loc_permission : string := "https://api.fly.io/v1".
