(* C17 - Scope helpers never claim more than clearing would grant.
   Statements restated from Proofs/ScopeProofs.v (closed by [exact]). *)
From Coq Require Import List Bool NArith ZArith String.
From Mac Require Import Model.Err Model.Caveat Model.Access Model.Prohibits Model.Scope Proofs.ErrFacts Proofs.ScopeProofs.
Import ListNotations.

Theorem nested_denial_propagates :
    forall (c c' : cav) (a : access),
    In c' (flat c) ->
    (exists e : ecls, prohibits c' a = Some e /\ eUnspec e = false) ->
    a_action a <> None -> prohibits c a <> None.
Proof. exact (@nested_denial_propagates_l). Qed.

Theorem nested_denial_validate :
    forall (cs : list cav) (c' : cav) (a : access) (accs : list access),
    In a accs ->
    In c' (flat_all cs) ->
    is_attestation c' = false ->
    (exists e : ecls, prohibits c' a = Some e /\ eUnspec e = false) -> validate cs accs <> None.
Proof. exact (@nested_denial_validate_l). Qed.

Theorem org_scope_sound :
    forall (cs : list cav) (now : time) (id : N),
    organization_scope cs now = inl id ->
    (forall i m : N, In (COrganization i m) (orgs_of cs) -> i = 0%N \/ i = id) /\
    (id <> 0%N -> forall f : flyio_access, fa_org f <> Some id -> validate cs [AFlyio f] <> None) /\
    (id = 0%N -> forall i m : N, In (COrganization i m) (orgs_of cs) -> i = 0%N).
Proof. exact (@org_scope_sound_l). Qed.

Theorem org_scope_error :
    forall (cs : list cav) (now : time), orgs_of cs = [] -> organization_scope cs now = inr E_unauth.
Proof. exact (@org_scope_error_l). Qed.

Theorem app_scope_sound :
    forall (cs : list cav) (now : time) (l : list N),
    app_scope cs now = Some l ->
    (forall id : N,
    In id l -> validate (apps_of cs) [AFlyio (with_app (with_org (blank_access 0 now) 999) id)] = None) /\
    (forall id : N,
    ~ In id l -> forall f : flyio_access, fa_app f = Some id -> validate cs [AFlyio f] <> None).
Proof. exact (@app_scope_sound_l). Qed.

Theorem app_scope_unrestricted :
    forall (cs : list cav) (now : time),
    app_scope cs now = None ->
    forall id : N, validate (apps_of cs) [AFlyio (with_app (with_org (blank_access 0 now) 999) id)] = None.
Proof. exact (@app_scope_unrestricted_l). Qed.

Theorem cluster_scope_sound :
    forall (cs : list cav) (now : time) (l : list string),
    cluster_scope cs now = Some l ->
    (forall id : string,
    In id l ->
    validate (clusters_of cs)
    [AFlyio (with_feature_cluster (with_org (blank_access 0 now) 999) feature_lfsc id)] = None) /\
    (forall id : string,
    ~ In id l -> forall f : flyio_access, fa_cluster f = Some id -> validate cs [AFlyio f] <> None).
Proof. exact (@cluster_scope_sound_l). Qed.

Theorem cluster_scope_unrestricted :
    forall (cs : list cav) (now : time),
    cluster_scope cs now = None ->
    forall id : string,
    validate (clusters_of cs)
    [AFlyio (with_feature_cluster (with_org (blank_access 0 now) 999) feature_lfsc id)] = None.
Proof. exact (@cluster_scope_unrestricted_l). Qed.

Theorem apps_allowing_sound :
    forall (cs : list cav) (act : N) (now : time) (org : N) (l : list N),
    apps_allowing cs act now = (org, Some l, None) ->
    forall id : N,
    In id l -> validate cs [AFlyio (with_app (with_org (blank_access act now) org) id)] = None.
Proof. exact (@apps_allowing_sound_l). Qed.

Theorem apps_allowing_any :
    forall (cs : list cav) (act : N) (now : time) (org : N),
    apps_allowing cs act now = (org, None, None) ->
    organization_scope cs now = inl org /\
    app_scope cs now = None /\
    validate cs [AFlyio (with_app (with_org (blank_access act now) org) 0)] = None.
Proof. exact (@apps_allowing_any_l). Qed.

Theorem apps_allowing_error :
    forall (cs : list cav) (act : N) (now : time),
    (exists (org : N) (l : list N), l <> [] /\ apps_allowing cs act now = (org, Some l, None)) \/
    (exists org : N, apps_allowing cs act now = (org, None, None)) \/
    (exists e : ecls, apps_allowing cs act now = (0%N, Some [], Some e)).
Proof. exact (@apps_allowing_error_l). Qed.

Theorem apps_allowing_error_cases :
    forall (cs : list cav) (act : N) (now : time) (org : N) (l : option (list N)) (e : ecls),
    apps_allowing cs act now = (org, l, Some e) -> org = 0%N /\ l = Some [].
Proof. exact (@apps_allowing_error_cases_l). Qed.

Theorem expiration_is_upper_bound :
    forall (cs : list cav) (accs : list access) (a : access),
    In a accs ->
    (t_nsec (a_now a) <= 999999999)%Z ->
    (-9223372036854775808 <= t_sec (a_now a) < 9223372036854775808)%Z ->
    t_after (a_now a) (expiration cs) = true -> validate cs accs <> None.
Proof. exact (@expiration_is_upper_bound_l). Qed.

Theorem expiration_no_window :
    forall cs : list cav, windows_of cs = [] -> expiration cs = max_time.
Proof. exact (@expiration_no_window_l). Qed.

Theorem dangerous_user_id_spec :
    forall (cs : list cav) (u : N),
    dangerous_user_id cs = Some u <->
    user_ids_of cs <> [] /\ (forall x : N, In x (user_ids_of cs) -> x = u).
Proof. exact (@dangerous_user_id_spec_l). Qed.

Print Assumptions nested_denial_propagates.
Print Assumptions nested_denial_validate.
Print Assumptions org_scope_sound.
Print Assumptions org_scope_error.
Print Assumptions app_scope_sound.
Print Assumptions app_scope_unrestricted.
Print Assumptions cluster_scope_sound.
Print Assumptions cluster_scope_unrestricted.
Print Assumptions apps_allowing_sound.
Print Assumptions apps_allowing_any.
Print Assumptions apps_allowing_error.
Print Assumptions apps_allowing_error_cases.
Print Assumptions expiration_is_upper_bound.
Print Assumptions expiration_no_window.
Print Assumptions dangerous_user_id_spec.
