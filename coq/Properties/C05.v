(* C05 - Legitimately produced tokens always verify and yield their caveats.
   Statements restated from the Proofs/ files named in the imports (closed by [exact]).
   Symbolic model: HMAC, SHA-256, truncation and AEAD are free constructors; random values are fresh atoms. *)
From Coq Require Import List Bool NArith.
From Mac Require Import Model.Sym Proofs.SymBasics Proofs.Attenuation Proofs.Honest.
Import ListNotations.

Theorem mint_valid :
    forall (k kid : term) (loc : N) (proof : bool) (ver : N) (rnd : term),
    valid k (mint k kid loc proof ver rnd).
Proof. exact (@mint_valid_l). Qed.

Theorem add_valid :
    forall (k : term) (t : token) (l : list addcav) (t' : token) (ok : bool),
    valid k t -> add t l = (t', ok) -> valid k t'.
Proof. exact (@add_valid_l). Qed.

Theorem encode_valid :
    forall (k : term) (t : token), valid k t -> valid k (encode t).
Proof. exact (@encode_valid_l). Qed.

Theorem decode_valid :
    forall (k : term) (t : token),
    n_proof (t_nonce t) && t_newproof t = false -> valid k t -> valid k (decode t).
Proof. exact (@decode_valid_l). Qed.

Theorem clone_valid :
    forall (k : term) (t : token), valid k t -> valid k (fst (clone t)) /\ valid k (snd (clone t)).
Proof. exact (@clone_valid_l). Qed.

Theorem verify_complete :
    forall (k : term) (t : token) (ds : list token) (tr : trusted_map) (pl : list (term * term))
    (Ss : list (list dcav)),
    valid k t ->
    n_proof (t_nonce t) && t_newproof t = false ->
    (forall b : term, ~ In (PBind b) (t_cavs t)) ->
    tok_pend k t = Some pl ->
    Forall2
    (fun (p : term * term) (S : list dcav) =>
    try_cands (cands_for ds (fst p)) (snd p) (tok_bids k t) true tr = Some S) pl Ss ->
    verify k t ds tr = Some (returned (n_proof (t_nonce t)) true (t_cavs t) ++ concat Ss).
Proof. exact (@verify_complete_l). Qed.

Theorem valid_verify_flat :
    forall (k : term) (t : token) (pb : list term) (ta : bool),
    valid k t ->
    n_proof (t_nonce t) && t_newproof t = false ->
    (forall (l : N) (vk tk : term), ~ In (P3P l vk tk) (t_cavs t)) ->
    (forall b : term, In (PBind b) (t_cavs t) -> existsb (has_prefix_bid b) pb = true) ->
    verify_flat k t pb ta = Some (returned (n_proof (t_nonce t)) ta (t_cavs t)).
Proof. exact (@valid_verify_flat). Qed.

Theorem honest_discharge_verifies :
    forall (ka : term) (loc r : N) (dk : term) (cs : list dcav) (proof : bool) 
    (rnd : term) (cs' : list dcav) (d0 d1 : token) (ds : list dcav),
    discharge_ticket ka loc (TSeal ka r (TTicket dk cs)) proof rnd = Some (cs', d0) ->
    add d0 (map AData ds) = (d1, true) ->
    forall (bids : list term) (ta : bool),
    verify_flat dk (decode (encode d1)) bids ta = Some (returned proof ta (t_cavs (encode d1))).
Proof. exact (@honest_discharge_verifies_l). Qed.

Theorem honest_bound_discharge_verifies :
    forall (ka : term) (loc r : N) (dk : term) (cs : list dcav) (proof : bool) 
    (rnd : term) (cs' : list dcav) (d0 d1 : token) (ds : list dcav),
    discharge_ticket ka loc (TSeal ka r (TTicket dk cs)) proof rnd = Some (cs', d0) ->
    add d0 (map AData ds) = (d1, true) ->
    forall p d2 : token,
    add d1 [bind_cav p] = (d2, true) ->
    forall (bids : list term) (ta : bool),
    In (THash (t_tail p)) bids ->
    verify_flat dk (decode (encode d2)) bids ta = Some (returned proof ta (t_cavs (encode d1))).
Proof. exact (@honest_bound_discharge_verifies_l). Qed.

Theorem honest_single_3p_verifies :
    forall (k kid : term) (loc ver : N) (rnd : term) (c1 c2 : list dcav) (t1 t2 t3 : token) 
    (loc3 : N) (rn : term) (r : N) (ka : term) (r' : N) (tc : list dcav),
    add (mint k kid loc false ver rnd) (map AData c1) = (t1, true) ->
    add t1 [A3P loc3 rn r (TSeal ka r' (TTicket rn tc))] = (t2, true) ->
    add t2 (map AData c2) = (t3, true) ->
    forall (dloc : N) (proof : bool) (drnd : term) (cs' : list dcav) (d0 d1 : token) (ds : list dcav),
    discharge_ticket ka dloc (TSeal ka r' (TTicket rn tc)) proof drnd = Some (cs', d0) ->
    add d0 (map AData ds) = (d1, true) ->
    forall tr : trusted_map,
    In ka (keys_for tr dloc) ->
    verify k (decode (encode t3)) [decode (encode d1)] tr =
    Some (dedup_data [] (c1 ++ c2) ++ dedup_data [] ds).
Proof. exact (@honest_single_3p_verifies_explicit). Qed.

Theorem honest_single_3p_bound_verifies :
    forall (k kid : term) (loc ver : N) (rnd : term) (c1 c2 : list dcav) (t1 t2 t3 : token) 
    (loc3 : N) (rn : term) (r : N) (ka : term) (r' : N) (tc : list dcav),
    add (mint k kid loc false ver rnd) (map AData c1) = (t1, true) ->
    add t1 [A3P loc3 rn r (TSeal ka r' (TTicket rn tc))] = (t2, true) ->
    add t2 (map AData c2) = (t3, true) ->
    forall (dloc : N) (proof : bool) (drnd : term) (cs' : list dcav) (d0 d1 : token) (ds : list dcav),
    discharge_ticket ka dloc (TSeal ka r' (TTicket rn tc)) proof drnd = Some (cs', d0) ->
    add d0 (map AData ds) = (d1, true) ->
    forall tr : trusted_map,
    In ka (keys_for tr dloc) ->
    forall d2 : token,
    add d1 [bind_cav (encode t3)] = (d2, true) ->
    verify k (decode (encode t3)) [decode (encode d2)] tr =
    Some (dedup_data [] (c1 ++ c2) ++ returned proof true (t_cavs (encode d1))).
Proof. exact (@honest_single_3p_bound_verifies_l). Qed.

Print Assumptions mint_valid.
Print Assumptions add_valid.
Print Assumptions encode_valid.
Print Assumptions decode_valid.
Print Assumptions clone_valid.
Print Assumptions verify_complete.
Print Assumptions valid_verify_flat.
Print Assumptions honest_discharge_verifies.
Print Assumptions honest_bound_discharge_verifies.
Print Assumptions honest_single_3p_verifies.
Print Assumptions honest_single_3p_bound_verifies.
