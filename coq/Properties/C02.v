(* C02 - Attenuation can only restrict, and is never silently lost.
   Statements restated from Proofs/Attenuation.v and Proofs/Bridge.v (closed by [exact]). *)
From Coq Require Import List Bool NArith.
From Mac Require Import Model.Sym Proofs.SymBasics Proofs.Attenuation.
From Mac Require Model.Err Model.Caveat Model.Access Model.Prohibits Proofs.Bridge Proofs.ClearProofs.
Import ListNotations.

Theorem add_extends :
    forall (t : token) (l : list addcav) (t' : token) (ok : bool),
    add t l = (t', ok) ->
    t_nonce t' = t_nonce t /\
    t_loc t' = t_loc t /\
    t_newproof t' = t_newproof t /\
    (exists ext : list pcav, t_cavs t' = t_cavs t ++ ext /\ t_tail t' = chain_from (t_tail t) ext).
Proof. exact (@add_extends_l). Qed.

Theorem add_keeps_chain :
    forall (k : term) (t : token) (l : list addcav) (t' : token) (ok : bool),
    t_tail t = chain k (t_nonce t) (t_cavs t) ->
    add t l = (t', ok) -> t_tail t' = chain k (t_nonce t') (t_cavs t').
Proof. exact (@add_keeps_chain_l). Qed.

Theorem add_appended_are_new :
    forall (t : token) (ds : list dcav) (t' : token),
    add t (map AData ds) = (t', true) ->
    t_cavs t' = t_cavs t ++ map PData (dedup_data (t_cavs t) ds) /\
    t_tail t' = chain_from (t_tail t) (map PData (dedup_data (t_cavs t) ds)) /\
    (forall d : dcav, In d ds -> In (PData d) (t_cavs t')).
Proof. exact (@add_appended_are_new_l). Qed.

Theorem dedup_data_In :
    forall (seen : list pcav) (ds : list dcav) (d : dcav),
    In d (dedup_data seen ds) <-> In d ds /\ ~ In (PData d) seen.
Proof. exact (@dedup_data_In). Qed.

Theorem readd_identical_noop :
    forall (t : token) (l : list addcav),
    n_proof (t_nonce t) && negb (t_newproof t) = false ->
    (forall a : addcav, In a l -> In (addcav_pre a) (t_cavs t)) -> add t l = (t, true).
Proof. exact (@readd_identical_noop_l). Qed.

Theorem near_duplicate_kept :
    forall (t : token) (d : dcav),
    n_proof (t_nonce t) && negb (t_newproof t) = false ->
    ~ In (PData d) (t_cavs t) ->
    (d_att d = true -> n_proof (t_nonce t) = true) ->
    d_wrap d = false ->
    add t [AData d] =
    ({|
    t_nonce := t_nonce t;
    t_loc := t_loc t;
    t_cavs := t_cavs t ++ [PData d];
    t_tail := TMac (t_tail t) (MCav (PData d));
    t_newproof := t_newproof t
    |}, true).
Proof. exact (@near_duplicate_kept_l). Qed.

Theorem attenuation_monotone_verify :
    forall (k : term) (t t' : token) (ds : list token) (tr : trusted_map) (S' : list dcav),
    t_nonce t' = t_nonce t ->
    (exists ext : list pcav, t_cavs t' = t_cavs t ++ ext) ->
    n_proof (t_nonce t) && t_newproof t = false ->
    t_tail t = fin_if (n_proof (t_nonce t)) (chain k (t_nonce t) (t_cavs t)) ->
    (forall (d : token) (b : term), In d ds -> ~ In (PBind b) (t_cavs d)) ->
    verify k t' ds tr = Some S' ->
    exists S : list dcav, verify k t ds tr = Some S /\ (forall x : dcav, In x S -> In x S').
Proof. exact (@attenuation_monotone_verify_gen). Qed.

Theorem add_monotone_verify :
    forall (k : term) (t : token) (l : list addcav) (t' : token) (ok : bool) (ds : list token)
    (tr : trusted_map) (S' : list dcav),
    add t l = (t', ok) ->
    n_proof (t_nonce t) && t_newproof t = false ->
    t_tail t = fin_if (n_proof (t_nonce t)) (chain k (t_nonce t) (t_cavs t)) ->
    (forall (d : token) (b : term), In d ds -> ~ In (PBind b) (t_cavs d)) ->
    verify k t' ds tr = Some S' ->
    exists S : list dcav, verify k t ds tr = Some S /\ (forall x : dcav, In x S -> In x S').
Proof. exact (@add_monotone_verify). Qed.

Theorem added_caveats_enforced :
    forall (k : term) (t : token) (ds0 : list dcav) (t' : token) (ds : list token) 
    (tr : trusted_map) (S' : list dcav),
    add t (map AData ds0) = (t', true) ->
    verify k t' ds tr = Some S' -> forall d : dcav, In d ds0 -> In d S'.
Proof. exact (@added_caveats_enforced). Qed.

Theorem existing_caveat_enforced :
    forall (k : term) (t : token) (ds : list token) (tr : trusted_map) (S : list dcav) (d : dcav),
    verify k t ds tr = Some S -> In (PData d) (t_cavs t) -> In d S.
Proof. exact (@existing_caveat_enforced_any). Qed.

Theorem added_3p_demands_discharge :
    forall (k : term) (t : token) (ds : list token) (tr : trusted_map) (l : N) (vk tk : term),
    In (P3P l vk tk) (t_cavs t) ->
    (forall d : token, In d ds -> n_kid (t_nonce d) <> tk) -> verify k t ds tr = None.
Proof. exact (@added_3p_demands_discharge_gen). Qed.

Theorem fewer_caveats_never_deny_more :
    forall (cs cs' : list Caveat.cav) (accs : list Access.access),
    (forall c : Caveat.cav, In c cs -> In c cs') ->
    Prohibits.validate cs' accs = None -> Prohibits.validate cs accs = None.
Proof. exact (@Bridge.validate_subset_l). Qed.

Theorem prohibiting_caveat_denies :
    forall (cs : list Caveat.cav) (accs : list Access.access) (a : Access.access) (c : Caveat.cav),
    In a accs ->
    In c cs ->
    Caveat.is_attestation c = false ->
    Prohibits.prohibits c a <> None -> Prohibits.validate cs accs <> None.
Proof. exact (@ClearProofs.single_denial_suffices_l). Qed.

Print Assumptions add_extends.
Print Assumptions add_keeps_chain.
Print Assumptions add_appended_are_new.
Print Assumptions dedup_data_In.
Print Assumptions readd_identical_noop.
Print Assumptions near_duplicate_kept.
Print Assumptions attenuation_monotone_verify.
Print Assumptions add_monotone_verify.
Print Assumptions added_caveats_enforced.
Print Assumptions existing_caveat_enforced.
Print Assumptions added_3p_demands_discharge.
Print Assumptions fewer_caveats_never_deny_more.
Print Assumptions prohibiting_caveat_denies.
