(* C10 - Fly.io caveats and request well-formedness follow the documented rules.
   Statements restated from Proofs/FlyioProofs.v (closed by [exact]). *)
From Coq Require Import List Bool NArith ZArith String.
From Mac Require Import Generated.Facts Model.Err Model.Caveat Model.Access Model.Prohibits Proofs.ErrFacts Proofs.FlyioProofs.
Import ListNotations.

Theorem organization_spec :
    forall (id mask : N) (f : flyio_access),
    prohibits (COrganization id mask) (AFlyio f) = None <->
    (exists o : N, fa_org f = Some o /\ (id = 0%N \/ id = o) /\ subset (fa_action f) mask = true).
Proof. exact organization_spec_l. Qed.

Theorem resource_caveats :
    forall f : flyio_access,
    (forall rs : rset N, prohibits (CApps rs) (AFlyio f) = rs_prohibits_n rs (fa_app f) (fa_action f)) /\
    (forall rs : rset string,
    prohibits (CVolumes rs) (AFlyio f) = rs_prohibits_s rs (fa_volume f) (fa_action f)) /\
    (forall rs : rset string,
    prohibits (CMachines rs) (AFlyio f) = rs_prohibits_s rs (fa_machine f) (fa_action f)) /\
    (forall rs : rset string,
    prohibits (CMachineFeatureSet rs) (AFlyio f) = rs_prohibits_s rs (fa_machinefeature f) (fa_action f)) /\
    (forall rs : rset string,
    prohibits (CFeatureSet rs) (AFlyio f) = rs_prohibits_s rs (fa_feature f) (fa_action f)) /\
    (forall rs : rset string,
    prohibits (CClusters rs) (AFlyio f) = rs_prohibits_s rs (fa_cluster f) (fa_action f)) /\
    (forall rs : rset string,
    prohibits (CAppFeatureSet rs) (AFlyio f) = rs_prohibits_s rs (fa_appfeature f) (fa_action f)) /\
    (forall rs : rset string,
    prohibits (CStorageObjects rs) (AFlyio f) = rs_prohibits_p rs (fa_storage f) (fa_action f)).
Proof. exact resource_caveats_l. Qed.

Theorem mutations_spec :
    forall (ms : option (list string)) (f : flyio_access),
    prohibits (CMutations ms) (AFlyio f) = None <->
    (exists m : string, fa_mutation f = Some m /\ In m (opt_list ms)).
Proof. exact mutations_spec_l. Qed.

Theorem commands_spec :
    forall (cmds : option (list (option (list string) * bool))) (f : flyio_access),
    prohibits (CCommands cmds) (AFlyio f) = None <->
    (exists cmd : list string,
    fa_command f = Some cmd /\
    (exists (args : option (list string)) (exact : bool),
    In (args, exact) (opt_list cmds) /\
    (if exact then opt_list args = cmd else exists rest : list string, cmd = opt_list args ++ rest))).
Proof. exact commands_spec_l. Qed.

Theorem commands_empty_denies :
    forall (cmds : option (list (option (list string) * bool))) (f : flyio_access),
    opt_list cmds = [] -> prohibits (CCommands cmds) (AFlyio f) <> None.
Proof. exact commands_empty_denies. Qed.

Theorem commands_wildcard_allows :
    forall (cmds : option (list (option (list string) * bool))) (f : flyio_access) 
    (cmd : list string) (args : option (list string)),
    fa_command f = Some cmd ->
    opt_list args = [] -> In (args, false) (opt_list cmds) -> prohibits (CCommands cmds) (AFlyio f) = None.
Proof. exact commands_wildcard_allows. Qed.

Theorem permitted_role_spec :
    forall f : flyio_access,
    permitted_role f = role_member <->
    fa_feature f = None \/
    (exists (ft : string) (allowed : N),
    fa_feature f = Some ft /\
    assoc_s ft member_features = Some allowed /\ subset (fa_action f) allowed = true).
Proof. exact permitted_role_spec_l. Qed.

Theorem permitted_role_cases :
    forall f : flyio_access, permitted_role f = role_member \/ permitted_role f = role_admin.
Proof. exact permitted_role_cases_l. Qed.

Theorem allowed_roles_spec :
    forall (mask : N) (f : flyio_access),
    prohibits (CAllowedRoles mask) (AFlyio f) = None <-> N.land mask (permitted_role f) = permitted_role f.
Proof. exact allowed_roles_spec_l. Qed.

Theorem is_member_spec :
    forall f : flyio_access, prohibits CIsMember (AFlyio f) = None <-> permitted_role f = role_member.
Proof. exact is_member_spec_l. Qed.

Theorem member_features_pinned :
    member_features =
    [("addon"%string, 31%N); ("authentication"%string, 1%N); ("billing"%string, 1%N);
    ("builder"%string, 31%N); ("checks"%string, 31%N); ("deletion"%string, 0%N);
    ("document_signing"%string, 0%N); ("domain"%string, 31%N); ("litefs-cloud"%string, 31%N);
    ("membership"%string, 1%N); ("site"%string, 31%N); ("wg"%string, 31%N)].
Proof. exact member_features_pinned_l. Qed.

Theorem from_machine_spec :
    forall (id : string) (f : flyio_access),
    prohibits (CFromMachine id) (AFlyio f) = None <-> fa_srcmachine f = Some id.
Proof. exact from_machine_spec_l. Qed.

Theorem flysrc_spec :
    forall (org app inst : string) (f : flyio_access),
    prohibits (CFlySrc org app inst) (AFlyio f) = None <->
    (inst = ""%string \/ fa_srcmachine f = Some inst) /\
    (app = ""%string \/ fa_srcapp f = Some app) /\ (org = ""%string \/ fa_srcorg f = Some org).
Proof. exact flysrc_spec_l. Qed.

Theorem validity_window_spec :
    forall (nb na : Z) (a : access),
    prohibits (CValidityWindow nb na) a = None <->
    t_le (unixT nb 0) (a_now a) /\ t_le (a_now a) (unixT na 0).
Proof. exact validity_window_spec_l. Qed.

Theorem unixT_nowrap :
    forall s n : Z,
    (-9223372036854775808 <= s + 62135596800 < 9223372036854775808)%Z ->
    t_sec (unixT s n) = (s + 62135596800)%Z.
Proof. exact unixT_nowrap_l. Qed.

Theorem validity_window_inrange :
    forall (nb na : Z) (a : access),
    (-9223372036854775808 <= nb + 62135596800 < 9223372036854775808)%Z ->
    (-9223372036854775808 <= na + 62135596800 < 9223372036854775808)%Z ->
    prohibits (CValidityWindow nb na) a = None <->
    ((nb + 62135596800 < t_sec (a_now a))%Z \/
    (nb + 62135596800)%Z = t_sec (a_now a) /\ (0 <= t_nsec (a_now a))%Z) /\
    ((t_sec (a_now a) < na + 62135596800)%Z \/
    t_sec (a_now a) = (na + 62135596800)%Z /\ (t_nsec (a_now a) <= 0)%Z).
Proof. exact validity_window_inrange_l. Qed.

Theorem access_validate_spec :
    forall f : flyio_access, fa_validate f = None <-> fa_wf f = true.
Proof. exact access_validate_spec_l. Qed.

Theorem fa_validate_classes :
    forall f : flyio_access,
    fa_validate f = None \/
    fa_validate f = Some E_unspec \/ fa_validate f = Some E_mutex \/ fa_validate f = Some E_invalid.
Proof. exact fa_validate_classes_l. Qed.

Print Assumptions organization_spec.
Print Assumptions resource_caveats.
Print Assumptions mutations_spec.
Print Assumptions commands_spec.
Print Assumptions commands_empty_denies.
Print Assumptions commands_wildcard_allows.
Print Assumptions permitted_role_spec.
Print Assumptions permitted_role_cases.
Print Assumptions allowed_roles_spec.
Print Assumptions is_member_spec.
Print Assumptions member_features_pinned.
Print Assumptions from_machine_spec.
Print Assumptions flysrc_spec.
Print Assumptions validity_window_spec.
Print Assumptions unixT_nowrap.
Print Assumptions validity_window_inrange.
Print Assumptions access_validate_spec.
Print Assumptions fa_validate_classes.
