(* C18 - Discharge-side conditions hold the third party to the author's terms.
   Only statements, [exact <lemma>] and Print Assumptions live here. *)
From Coq Require Import List Bool NArith ZArith String.
From Mac Require Import Model.Err Model.Caveat Model.Access Model.Prohibits
  Proofs.ErrFacts Proofs.AuthProofs Proofs.AuthMono.
Import ListNotations.
Local Open Scope Z_scope.

(* identity conditions permit exactly when the presented identities include the
   required one; with no identity of that kind they deny *)
Theorem confine_user_spec : forall id d,
  prohibits (CConfineUser id) (ADischarge d) = None <->
  dr_flyio d <> [] /\ In id (map fst (dr_flyio d)).
Proof. exact confine_user_spec_l. Qed.

Theorem confine_organization_spec : forall id d,
  prohibits (CConfineOrganization id) (ADischarge d) = None <->
  dr_flyio d <> [] /\ In id (flat_map snd (dr_flyio d)).
Proof. exact confine_org_spec_l. Qed.

Theorem confine_googlehd_spec : forall hd d,
  prohibits (CConfineGoogleHD hd) (ADischarge d) = None <->
  dr_google d <> [] /\ In hd (dr_google d).
Proof. exact confine_googlehd_spec_l. Qed.

Theorem confine_githuborg_spec : forall id d,
  prohibits (CConfineGitHubOrg id) (ADischarge d) = None <->
  dr_github d <> [] /\ In id (List.concat (dr_github d)).
Proof. exact confine_githuborg_spec_l. Qed.

(* any other kind of request is denied (as an invalid access) *)
Theorem discharge_cond_other_access : forall c a,
  is_discharge_cond c = true -> (forall d, a <> ADischarge d) ->
  prohibits c a = Some E_invalid.
Proof. exact discharge_cond_other_access_l. Qed.

(* a lifetime limit never permits a lifetime beyond it, for every uint64 limit,
   including limits whose nanosecond value overflows time.Duration *)
Theorem max_validity_safe : forall c d,
  prohibits (CMaxValidity c) (ADischarge d) = None ->
  dr_delta d <= Z.of_N c * 1000000000.
Proof. exact max_validity_safe_l. Qed.

(* ... and is exact whenever the limit is representable *)
Theorem max_validity_exact : forall c d,
  Z.of_N c * 1000000000 < 9223372036854775808 ->
  (prohibits (CMaxValidity c) (ADischarge d) = None <-> dr_delta d <= Z.of_N c * 1000000000).
Proof. exact max_validity_exact_l. Qed.

(* the effective maximum is a lower bound of every (nested) limit, is one of
   them when reported, and "no limit" is reported only when there is none *)
Theorem get_max_validity_min : forall cs,
  let '(m, found) := get_max_validity cs in
  (forall s, In s (max_validities cs) -> m <= dur_of_secs s /\ m <= Z.of_N s * 1000000000) /\
  (found = true -> In m (map dur_of_secs (max_validities cs))) /\
  (found = false <-> max_validities cs = []).
Proof. exact get_max_validity_spec_l. Qed.

(* a set clears a discharge request iff every non-attestation caveat does *)
Theorem discharge_set_clears_iff : forall cs d,
  validate cs [ADischarge d] = None <->
  forall c, In c cs -> is_attestation c = false -> prohibits c (ADischarge d) = None.
Proof.
  intros cs d. rewrite validate_nil_iff. split.
  - intros H. exact (proj2 (H _ (or_introl eq_refl))).
  - intros H a [<-|[]]. split; [reflexivity|exact H].
Qed.

(* attenuating the set can only tighten the terms: the effective lifetime limit never
   grows and stays reported; a discharge request cleared after appending caveats was
   cleared before, and one denied stays denied under every extension *)
Theorem get_max_validity_attenuation_le : forall cs cs',
  fst (get_max_validity (cs ++ cs')) <= fst (get_max_validity cs).
Proof. exact get_max_validity_app_le_l. Qed.

Theorem get_max_validity_attenuation_found : forall cs cs',
  snd (get_max_validity cs) = true -> snd (get_max_validity (cs ++ cs')) = true.
Proof. exact get_max_validity_app_found_l. Qed.

Theorem discharge_set_attenuation_only_restricts : forall cs cs' d,
  validate (cs ++ cs') [ADischarge d] = None -> validate cs [ADischarge d] = None.
Proof. exact discharge_set_attenuate_l. Qed.

Theorem discharge_set_denial_is_final : forall cs cs' d,
  validate cs [ADischarge d] <> None -> validate (cs ++ cs') [ADischarge d] <> None.
Proof. exact discharge_set_denied_stays_l. Qed.

(* non-vacuity: the hypotheses are met by concrete values *)
Example ex_attenuated_limit :
  get_max_validity ([CMaxValidity 60] ++ [CIfPresent (Some [CMaxValidity 30]) 0]) = (30000000000, true) /\
  get_max_validity [CMaxValidity 60] = (60000000000, true).
Proof. vm_compute. split; reflexivity. Qed.
Example ex_user_ok :
  prohibits (CConfineUser 2) (ADischarge (mkDR [(1%N, [7%N]); (2%N, [])] [] [] (unixT 0 0) 60)) = None.
Proof. reflexivity. Qed.
Example ex_user_denied :
  prohibits (CConfineUser 3) (ADischarge (mkDR [(1%N, [7%N])] [] [] (unixT 0 0) 60)) = Some E_other.
Proof. reflexivity. Qed.
Example ex_overflowing_limit_denies_more :
  (* 2^63 seconds: the duration wraps to 0, so even one nanosecond is denied *)
  prohibits (CMaxValidity 9223372036854775808) (ADischarge (mkDR [] [] [] (unixT 0 0) 1)) = Some E_unauth.
Proof. vm_compute. reflexivity. Qed.
Example ex_nested_min :
  get_max_validity [CMaxValidity 60; CIfPresent (Some [CMaxValidity 30; CIfPresent (Some [CMaxValidity 45]) 0]) 0]
  = (30000000000, true).
Proof. vm_compute. reflexivity. Qed.

Print Assumptions confine_user_spec.
Print Assumptions confine_organization_spec.
Print Assumptions confine_googlehd_spec.
Print Assumptions confine_githuborg_spec.
Print Assumptions discharge_cond_other_access.
Print Assumptions max_validity_safe.
Print Assumptions max_validity_exact.
Print Assumptions get_max_validity_min.
Print Assumptions discharge_set_clears_iff.
Print Assumptions get_max_validity_attenuation_le.
Print Assumptions get_max_validity_attenuation_found.
Print Assumptions discharge_set_attenuation_only_restricts.
Print Assumptions discharge_set_denial_is_final.
