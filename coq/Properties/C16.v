(* C16 - The discharge service releases a discharge only after approval, once.
   Statements restated from Proofs/ServerProofs.v (closed by [exact]).  Secrets are fresh atoms;
   a flow's ticket is a reference to the root token whose third-party caveat started it. *)
From Coq Require Import List Bool NArith.
From Mac Require Import Model.TPServer Proofs.ServerProofs.
Import ListNotations.

Theorem discharge_only_after_approval :
    forall (l : list action) (n : nat) (s : sref) (status tk : N) (cavs : list N) (app : bool),
    nth_error l n = Some (APoll s) ->
    nth_error (run [] l) n = Some (OBody status (BDischarge tk cavs) app) ->
    exists (f : N) (c m : nat) (a : action) (o : obs),
    s = SPoll f /\
    c < m /\
    m < n /\
    created_at l (run [] l) c f tk /\
    nth_error l m = Some a /\
    nth_error (run [] l) m = Some o /\
    decides_with tk a f (BDischarge tk cavs) /\
    accepted o /\
    (forall (j : nat) (a' : action), m < j -> j < n -> nth_error l j = Some a' -> ~ is_decision_on a' f) /\
    status = 200%N /\ app = false.
Proof. exact (@discharge_only_after_approval_l). Qed.

Theorem discharge_matches_flow :
    forall (l : list action) (f : nat) (fl : flow) (status tk : N) (cavs : list N),
    nth_error (final [] l) f = Some fl ->
    fl_resp fl = Some (status, BDischarge tk cavs) -> tk = fl_ticket fl /\ status = 200%N.
Proof. exact (@discharge_matches_flow_l). Qed.

Theorem bad_ticket_short_circuits :
    forall (st : store) (t : tref) (m : init_mode),
    (forall i : N, t <> TValid i) -> step st (AInit t m) = (st, OServerError false).
Proof. exact (@bad_ticket_short_circuits_l). Qed.

Theorem immediate_discharge :
    forall (st : store) (i : N) (cavs : list N),
    step st (AInit (TValid i) (MImmediate cavs)) = (st, OBody 201 (BDischarge i cavs) true).
Proof. exact (@immediate_discharge_l). Qed.

Theorem poll_delivers_only_stored :
    forall (st : store) (s : sref) (status : N) (b : body) (app : bool),
    snd (step st (APoll s)) = OBody status b app ->
    exists (f : N) (fl : flow),
    s = SPoll f /\ get st f = Some fl /\ fl_resp fl = Some (status, b) /\ app = false.
Proof. exact (@poll_delivers_only_stored_l). Qed.

Theorem poll_before_decision_not_ready :
    forall (st : store) (l : list action) (c : nat) (f : N),
    nth_error (run st l) c = Some (OPollURL f) \/ nth_error (run st l) c = Some (OUserURL f) ->
    (forall (j : nat) (a : action), c < j -> nth_error l j = Some a -> ~ is_decision_on a f) ->
    exists fl : flow,
    get (final st l) f = Some fl /\
    fl_resp fl = None /\ step (final st l) (APoll (SPoll f)) = (final st l, ONotReady).
Proof. exact (@poll_before_decision_not_ready_l). Qed.

Theorem abort_delivers_error :
    forall (st : store) (f : N) (fl : flow) (msg : N),
    get st f = Some fl ->
    let st' := fst (step st (AAbortPoll (SPoll f) msg)) in
    snd (step st' (APoll (SPoll f))) = OBody 200 (BError msg) false.
Proof. exact (@abort_delivers_error_l). Qed.

Theorem abort_user_delivers_error :
    forall (st : store) (f : N) (fl : flow) (msg : N),
    get st f = Some fl ->
    let st' := fst (step st (AAbortUser (SUser f) msg)) in
    snd (step st' (APoll (SPoll f))) = OBody 200 (BError msg) false.
Proof. exact (@abort_user_delivers_error_l). Qed.

Theorem visit_abort_delivers_error :
    forall (st : store) (f : N) (fl : flow) (msg : N),
    get st f = Some fl ->
    let st' := fst (step st (AUserVisit (SUser f) (DAbort msg))) in
    snd (step st' (APoll (SPoll f))) = OBody 200 (BError msg) false.
Proof. exact (@visit_abort_delivers_error_l). Qed.

Theorem approve_delivers_discharge :
    forall (st : store) (a : action) (f : N) (cavs : list N) (fl : flow),
    decision_on a = Some (f, KApprove cavs) ->
    get st f = Some fl ->
    snd (step (fst (step st a)) (APoll (SPoll f))) = OBody 200 (BDischarge (fl_ticket fl) cavs) false.
Proof. exact (@approve_delivers_discharge_l). Qed.

Theorem collected_then_not_found :
    forall (st : store) (f status : N) (b : body),
    snd (step st (APoll (SPoll f))) = OBody status b false ->
    let st' := fst (step st (APoll (SPoll f))) in
    forall (l : list action) (a : action),
    targets a f ->
    let stl := final st' l in step stl a = (stl, ONotFound false) \/ step stl a = (stl, OCall false).
Proof. exact (@collected_then_not_found_strong). Qed.

Theorem delivered_once :
    forall (st : store) (f status : N) (b : body),
    snd (step st (APoll (SPoll f))) = OBody status b false ->
    snd (step (fst (step st (APoll (SPoll f)))) (APoll (SPoll f))) = ONotFound false.
Proof. exact (@delivered_once_l). Qed.

Theorem unknown_or_crossed_secret_not_found :
    forall st : store,
    step st (APoll SGuess) = (st, ONotFound false) /\
    (forall f : N, step st (APoll (SUser f)) = (st, ONotFound false)) /\
    (forall (f : N) (d : decision), step st (AUserVisit (SPoll f) d) = (st, ONotFound false)) /\
    (forall d : decision, step st (AUserVisit SGuess d) = (st, ONotFound false)) /\
    (forall (f : N) (cavs : list N), step st (AApprovePoll (SUser f) cavs) = (st, OCall false)) /\
    (forall cavs : list N, step st (AApprovePoll SGuess cavs) = (st, OCall false)) /\
    (forall f msg : N, step st (AAbortPoll (SUser f) msg) = (st, OCall false)) /\
    (forall msg : N, step st (AAbortPoll SGuess msg) = (st, OCall false)) /\
    (forall (f : N) (cavs : list N), step st (AApproveUser (SPoll f) cavs) = (st, OCall false)) /\
    (forall cavs : list N, step st (AApproveUser SGuess cavs) = (st, OCall false)) /\
    (forall f msg : N, step st (AAbortUser (SPoll f) msg) = (st, OCall false)) /\
    (forall msg : N, step st (AAbortUser SGuess msg) = (st, OCall false)).
Proof. exact (@unknown_or_crossed_secret_not_found_l). Qed.

Theorem unissued_secret_not_found :
    forall (st : list flow) (a : action) (f : N),
    length st <= N.to_nat f ->
    targets a f -> step st a = (st, ONotFound false) \/ step st a = (st, OCall false).
Proof. exact (@unissued_secret_not_found). Qed.

Theorem app_invoked_only_when_found :
    forall (st : store) (a : action),
    match snd (step st a) with
    | ONotFound app | OServerError app => app = false
    | _ => True
    end.
Proof. exact (@app_invoked_only_when_found_l). Qed.

Theorem ticket_stable :
    forall (st : list flow) (l : list action) (f : nat) (fl fl' : flow),
    nth_error st f = Some fl -> nth_error (final st l) f = Some fl' -> fl_ticket fl' = fl_ticket fl.
Proof. exact (@ticket_stable). Qed.

Theorem dead_stays_dead :
    forall (st : list flow) (l : list action) (f : nat) (fl : flow),
    nth_error st f = Some fl -> fl_alive fl = false -> nth_error (final st l) f = Some fl.
Proof. exact (@dead_stays_dead). Qed.

Print Assumptions discharge_only_after_approval.
Print Assumptions discharge_matches_flow.
Print Assumptions bad_ticket_short_circuits.
Print Assumptions immediate_discharge.
Print Assumptions poll_delivers_only_stored.
Print Assumptions poll_before_decision_not_ready.
Print Assumptions abort_delivers_error.
Print Assumptions abort_user_delivers_error.
Print Assumptions visit_abort_delivers_error.
Print Assumptions approve_delivers_discharge.
Print Assumptions collected_then_not_found.
Print Assumptions delivered_once.
Print Assumptions unknown_or_crossed_secret_not_found.
Print Assumptions unissued_secret_not_found.
Print Assumptions app_invoked_only_when_found.
Print Assumptions ticket_stable.
Print Assumptions dead_stays_dead.

(* The same service over the capacity-bounded MemoryStore (Model/TPStoreLRU.v), restated from
   Proofs/TPStoreLRUProofs.v.  [cap] is the number of KEYS the cache holds; every statement
   below holds for every [cap]. *)
From Mac Require Import Model.TPStoreLRU Proofs.TPStoreLRUProofs.

Theorem lru_refines_unbounded :
    forall (cap : nat) (l : list action),
    2 * n_creating l <= cap -> run_lru cap lempty l = run [] l.
Proof. exact (@run_lru_big_cap_l). Qed.

Theorem lru_run_is_unbounded_run_with_guesses :
    forall (cap : nat) (ls : lstore) (l : list action),
    wf ls -> run_lru cap ls l = run (ls_flows ls) (erase cap ls l).
Proof. exact (@run_lru_erase). Qed.

Theorem lru_discharge_only_after_approval_t :
    forall (cap : nat) (l : list action) (n : nat) (s : sref) (status tk : N) (cavs : list N) (app : bool),
    nth_error l n = Some (APoll s) ->
    nth_error (run_lru cap lempty l) n = Some (OBody status (BDischarge tk cavs) app) ->
    exists (f : N) (c m : nat) (a : action) (o : obs),
    s = SPoll f /\
    c < m /\
    m < n /\
    created_at l (run_lru cap lempty l) c f tk /\
    nth_error l m = Some a /\
    nth_error (run_lru cap lempty l) m = Some o /\
    decides_with tk a f (BDischarge tk cavs) /\
    accepted o /\
    (forall (j : nat) (a' : action) (o' : obs), m < j -> j < n -> nth_error l j = Some a' ->
       nth_error (run_lru cap lempty l) j = Some o' -> is_decision_on a' f -> ~ accepted o') /\
    status = 200%N /\ app = false.
Proof. exact (@lru_discharge_only_after_approval). Qed.

Theorem lru_delivered_at_most_once_t :
    forall (cap : nat) (l : list action) (i j : nat) (f s1 : N) (b1 : body) (app1 : bool)
           (s2 : N) (b2 : body) (app2 : bool),
    nth_error l i = Some (APoll (SPoll f)) ->
    nth_error l j = Some (APoll (SPoll f)) ->
    nth_error (run_lru cap lempty l) i = Some (OBody s1 b1 app1) ->
    nth_error (run_lru cap lempty l) j = Some (OBody s2 b2 app2) -> i = j.
Proof. exact (@lru_delivered_at_most_once). Qed.

Theorem lru_collected_then_not_found_t :
    forall (cap : nat) (l : list action) (i : nat) (s : sref) (status : N) (b : body) (app : bool),
    nth_error l i = Some (APoll s) ->
    nth_error (run_lru cap lempty l) i = Some (OBody status b app) ->
    exists f : N,
    s = SPoll f /\
    (forall (j : nat) (a : action), i < j -> nth_error l j = Some a -> presents a f ->
       nth_error (run_lru cap lempty l) j = Some (refused a)).
Proof. exact (@lru_collected_then_not_found). Qed.

Theorem lru_guess_not_found_t :
    forall (cap : nat) (ls : lstore) (a : action),
    names_no_key a -> step_lru cap ls a = (ls, refused a).
Proof. exact (@lru_guess_not_found_step). Qed.

Theorem lru_poll_before_decision_t :
    forall (cap : nat) (l : list action) (n : nat) (f : N),
    nth_error l n = Some (APoll (SPoll f)) ->
    (forall (m : nat) (a : action) (o : obs), m < n -> nth_error l m = Some a ->
       nth_error (run_lru cap lempty l) m = Some o -> is_decision_on a f -> ~ accepted o) ->
    nth_error (run_lru cap lempty l) n = Some ONotReady \/
    nth_error (run_lru cap lempty l) n = Some (ONotFound false).
Proof. exact (@lru_poll_before_decision). Qed.

Print Assumptions lru_refines_unbounded.
Print Assumptions lru_run_is_unbounded_run_with_guesses.
Print Assumptions lru_discharge_only_after_approval_t.
Print Assumptions lru_delivered_at_most_once_t.
Print Assumptions lru_collected_then_not_found_t.
Print Assumptions lru_guess_not_found_t.
Print Assumptions lru_poll_before_decision_t.
