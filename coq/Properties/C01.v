(* C01 - Caveats cannot be removed, reordered or altered without the key.
   Statements restated from the Proofs/ files named in the imports (closed by [exact]).
   Symbolic model: HMAC, SHA-256, truncation and AEAD are free constructors; random values are fresh atoms. *)
From Coq Require Import List Bool NArith.
From Mac Require Import Model.Sym Proofs.SymBasics Proofs.Attacker.
Import ListNotations.

Theorem verify_sound_chain_thm :
    forall (k : term) (t : token) (ds : list token) (tr : trusted_map) (S : list dcav),
    verify k t ds tr = Some S ->
    t_tail t = fin_if (n_proof (t_nonce t)) (chain k (t_nonce t) (t_cavs t)) /\
    (exists (pl : list (term * term)) (dret : list dcav),
    tok_pend k t = Some pl /\
    S = returned (n_proof (t_nonce t)) true (t_cavs t) ++ dret /\
    discharge_all pl ds (tok_bids k t) tr = Some dret).
Proof. exact (@verify_sound_chain). Qed.

Theorem verify_flat_sound_thm :
    forall (k : term) (t : token) (pb : list term) (tr : bool) (S : list dcav),
    verify_flat k t pb tr = Some S ->
    t_tail t = fin_if (n_proof (t_nonce t)) (chain k (t_nonce t) (t_cavs t)) /\
    S = returned (n_proof (t_nonce t)) tr (t_cavs t) /\
    data_ok (n_proof (t_nonce t)) (t_cavs t) /\
    (forall (l : N) (vk tk : term), ~ In (P3P l vk tk) (t_cavs t)) /\
    n_proof (t_nonce t) && t_newproof t = false.
Proof. exact (@verify_flat_sound). Qed.

Theorem chain_inj_thm :
    forall (k : term) (n : nonce) (cs : list pcav) (k' : term) (n' : nonce) (cs' : list pcav),
    chain k n cs = chain k' n' cs' -> k = k' /\ mnonce n = mnonce n' /\ cs = cs'.
Proof. exact (@chain_inj). Qed.

Theorem mnonce_inj_thm :
    forall n n' : nonce, mnonce n = mnonce n' -> n = n'.
Proof. exact (@mnonce_inj). Qed.

Theorem knows_I_thm :
    forall (K : term -> Prop) (k0 : N) (HeldU HeldF : nonce -> list pcav -> Prop),
    (forall t : term, K t -> I k0 HeldU HeldF t) -> forall t : term, knows K t -> I k0 HeldU HeldF t.
Proof. exact (@knows_I). Qed.

Theorem chain_secrecy_thm :
    forall (K : term -> Prop) (k0 : N) (HeldU HeldF : nonce -> list pcav -> Prop),
    (forall t : term, K t -> I k0 HeldU HeldF t) ->
    forall (n : nonce) (cs : list pcav), knows K (chain (TKey k0) n cs) -> GoodU HeldU n cs.
Proof. exact (@chain_secrecy). Qed.

Theorem fin_chain_secrecy_thm :
    forall (K : term -> Prop) (k0 : N) (HeldU HeldF : nonce -> list pcav -> Prop),
    (forall t : term, K t -> I k0 HeldU HeldF t) ->
    forall (n : nonce) (cs : list pcav),
    knows K (TFin (chain (TKey k0) n cs)) -> GoodU HeldU n cs \/ HeldF n cs.
Proof. exact (@fin_chain_secrecy). Qed.

Theorem key_secrecy_thm :
    forall (K : term -> Prop) (k0 : N) (HeldU HeldF : nonce -> list pcav -> Prop),
    (forall t : term, K t -> I k0 HeldU HeldF t) -> ~ knows K (TKey k0).
Proof. exact (@key_secrecy). Qed.

Theorem honest_token_ok_thm :
    forall (k0 : N) (HeldU HeldF : nonce -> list pcav -> Prop) (t : token) (n : nonce) (cs : list pcav),
    t_nonce t = n ->
    t_cavs t = cs ->
    I k0 HeldU HeldF (n_kid n) ->
    I k0 HeldU HeldF (n_rnd n) ->
    Forall (honest_cav k0 HeldU HeldF) cs ->
    t_tail t = chain (TKey k0) n cs /\ HeldU n cs \/ t_tail t = TFin (chain (TKey k0) n cs) /\ HeldF n cs ->
    forall x : term, In x (exposed t) -> I k0 HeldU HeldF x.
Proof. exact (@honest_token_ok). Qed.

Theorem other_token_ok_thm :
    forall (k0 : N) (HeldU HeldF : nonce -> list pcav -> Prop) (t : token) (k : term),
    k <> TKey k0 ->
    t_tail t = fin_if (n_proof (t_nonce t)) (chain k (t_nonce t) (t_cavs t)) \/
    t_tail t = chain k (t_nonce t) (t_cavs t) ->
    I k0 HeldU HeldF (n_kid (t_nonce t)) ->
    I k0 HeldU HeldF (n_rnd (t_nonce t)) ->
    Forall (honest_cav k0 HeldU HeldF) (t_cavs t) ->
    forall x : term, In x (exposed t) -> I k0 HeldU HeldF x.
Proof. exact (@other_token_ok). Qed.

Theorem no_forgery_thm :
    forall (K : term -> Prop) (k0 : N) (HeldU HeldF : nonce -> list pcav -> Prop),
    (forall t : term, K t -> I k0 HeldU HeldF t) ->
    forall (tok : token) (ds : list token) (tr : trusted_map) (S : list dcav),
    knows K (t_tail tok) ->
    verify (TKey k0) tok ds tr = Some S ->
    (n_proof (t_nonce tok) = false ->
    exists cs' e : list pcav, HeldU (t_nonce tok) cs' /\ t_cavs tok = cs' ++ e) /\
    (n_proof (t_nonce tok) = true ->
    (exists cs' e : list pcav, HeldU (t_nonce tok) cs' /\ t_cavs tok = cs' ++ e) \/
    HeldF (t_nonce tok) (t_cavs tok)).
Proof. exact (@no_forgery). Qed.

Theorem no_forgery_flat_thm :
    forall (K : term -> Prop) (k0 : N) (HeldU HeldF : nonce -> list pcav -> Prop),
    (forall t : term, K t -> I k0 HeldU HeldF t) ->
    forall (tok : token) (pb : list term) (ta : bool) (S : list dcav),
    knows K (t_tail tok) ->
    verify_flat (TKey k0) tok pb ta = Some S ->
    (n_proof (t_nonce tok) = false -> GoodU HeldU (t_nonce tok) (t_cavs tok)) /\
    (n_proof (t_nonce tok) = true ->
    GoodU HeldU (t_nonce tok) (t_cavs tok) \/ HeldF (t_nonce tok) (t_cavs tok)).
Proof. exact (@no_forgery_flat). Qed.

Theorem mint_fresh_nonce_thm :
    forall (k kid : term) (loc : N) (p : bool) (v : N) (rnd k' kid' : term) (loc' : N) 
    (p' : bool) (v' : N) (rnd' : term),
    rnd <> rnd' ->
    mnonce (t_nonce (mint k kid loc p v rnd)) <> mnonce (t_nonce (mint k' kid' loc' p' v' rnd')).
Proof. exact (@mint_fresh_nonce). Qed.

Theorem mint_fresh_chain_thm :
    forall (k kid : term) (loc : N) (p : bool) (v : N) (rnd k' kid' : term) (loc' : N) 
    (p' : bool) (v' : N) (rnd' : term) (cs cs' : list pcav),
    rnd <> rnd' ->
    chain k (t_nonce (mint k kid loc p v rnd)) cs <> chain k' (t_nonce (mint k' kid' loc' p' v' rnd')) cs'.
Proof. exact (@mint_fresh_chain). Qed.

Theorem no_forgery_hypotheses_satisfiable :
    exists cs' e : list pcav, Example.HeldU (t_nonce Example.tok) cs' /\ t_cavs Example.tok = cs' ++ e.
Proof. exact (@Example.no_forgery_instance). Qed.

Theorem example_cannot_strip :
    ~
    knows Example.K
    (chain (TKey Example.k0) (t_nonce Example.tok)
    [PData {| d_id := 5; d_att := false; d_wrap := false |}]).
Proof. exact (@Example.cannot_strip). Qed.

Print Assumptions verify_sound_chain_thm.
Print Assumptions verify_flat_sound_thm.
Print Assumptions chain_inj_thm.
Print Assumptions mnonce_inj_thm.
Print Assumptions knows_I_thm.
Print Assumptions chain_secrecy_thm.
Print Assumptions fin_chain_secrecy_thm.
Print Assumptions key_secrecy_thm.
Print Assumptions honest_token_ok_thm.
Print Assumptions other_token_ok_thm.
Print Assumptions no_forgery_thm.
Print Assumptions no_forgery_flat_thm.
Print Assumptions mint_fresh_nonce_thm.
Print Assumptions mint_fresh_chain_thm.
Print Assumptions no_forgery_hypotheses_satisfiable.
Print Assumptions example_cannot_strip.
