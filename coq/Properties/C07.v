(* C07 - Attestations surface only from trusted, finalised proofs.
   Statements restated from the Proofs/ files named in the imports (closed by [exact]).
   Symbolic model: HMAC, SHA-256, truncation and AEAD are free constructors; random values are fresh atoms. *)
From Coq Require Import List Bool NArith.
From Mac Require Import Model.Sym Proofs.SymBasics Proofs.Attest.
Import ListNotations.

Theorem attestation_provenance :
    forall (k : term) (t : token) (ds : list token) (tr : trusted_map) (S : list dcav) (a : dcav),
    verify k t ds tr = Some S ->
    In a S ->
    d_att a = true ->
    In (PData a) (t_cavs t) /\
    n_proof (t_nonce t) = true /\ t_newproof t = false /\ t_tail t = TFin (chain k (t_nonce t) (t_cavs t)) \/
    (exists (d : token) (tk dk ka : term) (r : N) (tc : list dcav),
    In d ds /\
    In (PData a) (t_cavs d) /\
    n_proof (t_nonce d) = true /\
    t_newproof d = false /\
    t_tail d = TFin (chain dk (t_nonce d) (t_cavs d)) /\
    n_kid (t_nonce d) = tk /\
    tk = TSeal ka r (TTicket dk tc) /\
    In ka (keys_for tr (t_loc d)) /\
    (exists pl : list (term * term), tok_pend k t = Some pl /\ In (tk, dk) pl)).
Proof. exact (@attestation_provenance_l). Qed.

Theorem no_wrapped_in_result :
    forall (k : term) (t : token) (ds : list token) (tr : trusted_map) (S : list dcav) (a : dcav),
    verify k t ds tr = Some S -> In a S -> d_wrap a = false.
Proof. exact (@no_wrapped_in_result_l). Qed.

Theorem attestations_of_result :
    forall (k : term) (t : token) (ds : list token) (tr : trusted_map) (S : list dcav),
    verify k t ds tr = Some S -> attestations S = filter d_att S.
Proof. exact (@attestations_of_result_l). Qed.

Theorem untrusted_discharge_no_attestation :
    forall (dk : term) (d : token) (bids : list term) (S : list dcav) (a : dcav),
    verify_flat dk d bids false = Some S -> In a S -> d_att a = false.
Proof. exact (@untrusted_discharge_no_attestation_l). Qed.

Theorem nonproof_carries_no_attestation :
    forall (k : term) (t : token) (ds : list token) (tr : trusted_map) (S : list dcav) (d : dcav),
    verify k t ds tr = Some S -> n_proof (t_nonce t) = false -> In (PData d) (t_cavs t) -> d_att d = false.
Proof. exact (@nonproof_carries_no_attestation_l). Qed.

Theorem nonproof_discharge_no_attestation :
    forall (k : term) (t : token) (pb : list term) (ta : bool) (S : list dcav) (a : dcav),
    verify_flat k t pb ta = Some S -> n_proof (t_nonce t) = false -> In a S -> d_att a = false.
Proof. exact (@nonproof_discharge_no_attestation_l). Qed.

Theorem copied_ticket_skipped :
    forall (kas : list term) (ka : term) (r : N) (dk' : term) (tc : list dcav) (dk : term),
    In ka kas -> dk' <> dk -> trust_check kas (TSeal ka r (TTicket dk' tc)) dk = TSkip.
Proof. exact (@copied_ticket_skipped_l). Qed.

Theorem copied_ticket_trusted_same_key :
    forall (kas : list term) (ka : term) (r : N) (dk' : term) (tc : list dcav) (dk : term),
    trust_check kas (TSeal ka r (TTicket dk' tc)) dk = TTrusted -> dk' = dk.
Proof. exact (@copied_ticket_trusted_same_key_l). Qed.

Theorem spoofed_location_untrusted :
    forall (kas : list term) (kid dk : term),
    (forall ka : term, In ka kas -> unseal ka kid = None) -> trust_check kas kid dk = TUntrusted.
Proof. exact (@spoofed_location_untrusted_l). Qed.

Theorem spoofed_discharge_no_attestation :
    forall (tr : trusted_map) (d : token) (dk : term) (bids : list term) (S : list dcav) (a : dcav),
    (forall ka : term, In ka (keys_for tr (t_loc d)) -> unseal ka (n_kid (t_nonce d)) = None) ->
    verify_flat dk d bids (cand_trust true tr d dk) = Some S -> In a S -> d_att a = false.
Proof. exact (@spoofed_discharge_no_attestation_l). Qed.

Theorem attestation_needs_opening_key :
    forall (ds : list token) (bids : list term) (tr : trusted_map) (tk dk : term) 
    (S : list dcav) (a : dcav),
    discharged_by ds bids tr (tk, dk) S ->
    In a S ->
    d_att a = true ->
    exists (d : token) (ka : term),
    In d ds /\ n_kid (t_nonce d) = tk /\ In ka (keys_for tr (t_loc d)) /\ unseal ka tk <> None.
Proof. exact (@attestation_needs_opening_key_l). Qed.

Print Assumptions attestation_provenance.
Print Assumptions no_wrapped_in_result.
Print Assumptions attestations_of_result.
Print Assumptions untrusted_discharge_no_attestation.
Print Assumptions nonproof_carries_no_attestation.
Print Assumptions nonproof_discharge_no_attestation.
Print Assumptions copied_ticket_skipped.
Print Assumptions copied_ticket_trusted_same_key.
Print Assumptions spoofed_location_untrusted.
Print Assumptions spoofed_discharge_no_attestation.
Print Assumptions attestation_needs_opening_key.
