(* C03 - Every caveat must clear every request; anything unclear denies.
   Statements restated from Proofs/ClearProofs.v, Proofs/ErrFacts.v (closed by [exact]). *)
From Coq Require Import List Bool NArith ZArith String Permutation.
From Mac Require Import Model.Err Model.Caveat Model.Access Model.Prohibits Proofs.ErrFacts Proofs.ClearProofs Proofs.ValidateSplit.
Import ListNotations.

Theorem validate_iff :
    forall (cs : list cav) (accs : list access),
    validate cs accs = None <->
    (forall a : access,
    In a accs ->
    access_valid a = None /\
    (forall c : cav, In c cs -> is_attestation c = false -> prohibits c a = None)).
Proof. exact validate_nil_iff. Qed.

Theorem validate_err_union :
    forall (cs : list cav) (accs : list access) (k : cls),
    has k (validate cs accs) =
    existsb
    (fun a : access =>
    match access_valid a with
    | Some e => has k (Some e)
    | None => existsb (fun c : cav => negb (is_attestation c) && has k (prohibits c a)) cs
    end) accs.
Proof. exact validate_err_union_l. Qed.

Theorem validate_nonnil_iff :
    forall (cs : list cav) (accs : list access),
    validate cs accs <> None <->
    (exists a : access,
    In a accs /\
    (access_valid a <> None \/
    (exists c : cav, In c cs /\ is_attestation c = false /\ prohibits c a <> None))).
Proof. exact validate_nonnil_iff_l. Qed.

Theorem validate_perm :
    forall (cs cs' : list cav) (accs accs' : list access),
    Permutation cs cs' -> Permutation accs accs' -> validate cs accs = validate cs' accs'.
Proof. exact validate_perm_l. Qed.

Theorem single_denial_suffices :
    forall (cs : list cav) (accs : list access) (a : access) (c : cav),
    In a accs -> In c cs -> is_attestation c = false -> prohibits c a <> None -> validate cs accs <> None.
Proof. exact single_denial_suffices_l. Qed.

Theorem malformed_request_denies :
    forall (cs : list cav) (accs : list access) (a : access),
    In a accs -> access_valid a <> None -> validate cs accs <> None.
Proof. exact malformed_request_denies_l. Qed.

Theorem unevaluable_deny :
    forall a : access,
    (forall (t : N) (b : bytes), prohibits (CUnregistered t b) a = Some E_badcav) /\
    (forall (l : string) (v t : option bytes), prohibits (C3P l v t) a = Some E_badcav) /\
    (forall b : option bytes, prohibits (CBind b) a = Some E_badcav) /\
    (forall n : N,
    prohibits (CFlyioUserID n) a = Some E_badcav /\
    prohibits (CGitHubUserID n) a = Some E_badcav /\ prohibits (CGoogleUserID n) a = Some E_badcav).
Proof. exact unevaluable_deny_l. Qed.

Theorem wrong_access_kind_denies :
    forall (c : cav) (a : access),
    needs_flyio c = true -> a_flyio a = None -> prohibits c a = Some E_invalid.
Proof. exact wrong_access_kind_denies_l. Qed.

Theorem missing_info_denies :
    forall (c : cav) (f : flyio_access),
    rs_field_missing c f = Some true -> rs_set_valid c = None -> prohibits c (AFlyio f) = Some E_unspec.
Proof. exact missing_info_denies_l. Qed.

Theorem missing_info_denies_each :
    forall f : flyio_access,
    (forall rs : rset N,
    fa_app f = None -> rs_validate N.eqb 0%N rs = None -> prohibits (CApps rs) (AFlyio f) = Some E_unspec) /\
    (forall rs : rset string,
    fa_volume f = None ->
    rs_validate eqb ""%string rs = None -> prohibits (CVolumes rs) (AFlyio f) = Some E_unspec) /\
    (forall rs : rset string,
    fa_machine f = None ->
    rs_validate eqb ""%string rs = None -> prohibits (CMachines rs) (AFlyio f) = Some E_unspec) /\
    (forall rs : rset string,
    fa_machinefeature f = None ->
    rs_validate eqb ""%string rs = None -> prohibits (CMachineFeatureSet rs) (AFlyio f) = Some E_unspec) /\
    (forall rs : rset string,
    fa_feature f = None ->
    rs_validate eqb ""%string rs = None -> prohibits (CFeatureSet rs) (AFlyio f) = Some E_unspec) /\
    (forall rs : rset string,
    fa_cluster f = None ->
    rs_validate eqb ""%string rs = None -> prohibits (CClusters rs) (AFlyio f) = Some E_unspec) /\
    (forall rs : rset string,
    fa_appfeature f = None ->
    rs_validate eqb ""%string rs = None -> prohibits (CAppFeatureSet rs) (AFlyio f) = Some E_unspec) /\
    (forall rs : rset string,
    fa_storage f = None ->
    rs_validate eqb ""%string rs = None -> prohibits (CStorageObjects rs) (AFlyio f) = Some E_unspec).
Proof. exact missing_info_denies_each_l. Qed.

Theorem missing_info_denies_other :
    forall f : flyio_access,
    (forall id mask : N, fa_org f = None -> prohibits (COrganization id mask) (AFlyio f) = Some E_unspec) /\
    (forall ms : option (list string),
    fa_mutation f = None -> prohibits (CMutations ms) (AFlyio f) = Some E_unspec) /\
    (forall cmds : option (list (option (list string) * bool)),
    fa_command f = None -> prohibits (CCommands cmds) (AFlyio f) = Some E_unspec).
Proof. exact missing_info_denies_other_l. Qed.

Theorem missing_info_validate_denies_any :
    forall (c : cav) (f : flyio_access),
    rs_field_missing c f = Some true -> validate [c] [AFlyio f] <> None.
Proof. exact missing_info_validate_denies_any_l. Qed.

(* clearing distributes over both lists (Proofs/ValidateSplit.v): no caveat is excused by its position or neighbours,
   no request by the ones asked with it; appending caveats or requests never turns a denial into a clearance *)
Theorem validate_requests_split :
    forall (cs : list cav) (accs accs' : list access),
    validate cs (accs ++ accs') = None <-> validate cs accs = None /\ validate cs accs' = None.
Proof. exact validate_accs_app_iff_l. Qed.

Theorem validate_caveats_split :
    forall (cs cs' : list cav) (accs : list access),
    validate (cs ++ cs') accs = None <-> validate cs accs = None /\ validate cs' accs = None.
Proof. exact validate_cavs_app_iff_l. Qed.

Theorem denial_survives_attenuation :
    forall (cs cs' : list cav) (accs : list access),
    validate cs accs <> None -> validate (cs ++ cs') accs <> None.
Proof. exact validate_attenuate_l. Qed.

Theorem denial_survives_more_requests :
    forall (cs : list cav) (accs accs' : list access),
    validate cs accs <> None -> validate cs (accs ++ accs') <> None.
Proof. exact validate_more_requests_l. Qed.

Print Assumptions validate_iff.
Print Assumptions validate_err_union.
Print Assumptions validate_nonnil_iff.
Print Assumptions validate_perm.
Print Assumptions single_denial_suffices.
Print Assumptions malformed_request_denies.
Print Assumptions unevaluable_deny.
Print Assumptions wrong_access_kind_denies.
Print Assumptions missing_info_denies.
Print Assumptions missing_info_denies_each.
Print Assumptions missing_info_denies_other.
Print Assumptions missing_info_validate_denies_any.
Print Assumptions validate_requests_split.
Print Assumptions validate_caveats_split.
Print Assumptions denial_survives_attenuation.
Print Assumptions denial_survives_more_requests.
