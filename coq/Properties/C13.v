(* C13 - A bundle authorises exactly what one of its own tokens authorises.
   Statements restated from Proofs/BundleProofs.v (closed by [exact]).  Tokens are abstract; signature verification
   and clearing are tables of DIRECT calls to macaroon.Verify / CaveatSet.Validate (C01-C10 are about those). *)
From Coq Require Import List Bool NArith.
From Mac Require Import Model.BundleM Model.BundleOps Proofs.BundleProofs.
Import ListNotations.
From Mac Require Import Proofs.FilterProofs.

Theorem validate_iff :
    forall (ct : ctable) (b : bundle) (rq : N),
    validate ct b rq = true <->
    (exists (m : mac) (cs : N), In (TVer m cs) (b_ts b) /\ clookup ct cs rq = true).
Proof. exact (@validate_iff_l). Qed.

Theorem bundle_decision_equiv :
    forall (vt : vtable) (ct : ctable) (b : bundle) (rq : N),
    ver_perm_only b ->
    validate ct (fst (verify vt b)) rq = true <->
    (exists (t : tok) (m : mac) (cs : N),
    In t (b_ts b) /\
    is_perm (b_loc b) t = true /\
    tok_mac t = Some m /\
    vlookup vt (m_id m) (all_dis_ids b) = VRes (Some cs) /\ clookup ct cs rq = true).
Proof. exact (@bundle_decision_equiv_l_partial). Qed.

Theorem bundle_decision_equiv_general :
    forall (vt : vtable) (ct : ctable) (b : bundle) (rq : N),
    validate ct (fst (verify vt b)) rq = true <->
    (exists (t : tok) (m : mac) (cs : N),
    In t (b_ts b) /\
    is_perm (b_loc b) t = true /\
    tok_mac t = Some m /\
    vlookup vt (m_id m) (all_dis_ids b) = VRes (Some cs) /\ clookup ct cs rq = true) \/
    (exists (m : mac) (cs : N),
    In (TVer m cs) (b_ts b) /\ is_perm (b_loc b) (TVer m cs) = false /\ clookup ct cs rq = true).
Proof. exact (@bundle_decision_equiv_gen). Qed.

Theorem ver_perm_only_parse :
    forall (loc : N) (ts : list tok),
    (forall (m : mac) (cs : N), ~ In (TVer m cs) ts) -> ver_perm_only (fst (parse_bundle loc ts)).
Proof. exact (@ver_perm_only_parse). Qed.

Theorem ver_perm_only_verify :
    forall (vt : vtable) (b : bundle), ver_perm_only b -> ver_perm_only (fst (verify vt b)).
Proof. exact (@ver_perm_only_verify). Qed.

Theorem ver_perm_only_add :
    forall (b : bundle) (ts : list tok),
    ver_perm_only b ->
    (forall (m : mac) (cs : N), In (TVer m cs) ts -> is_perm (b_loc b) (TVer m cs) = true) ->
    ver_perm_only (fst (add_tokens b ts)).
Proof. exact (@ver_perm_only_add). Qed.

Theorem ver_perm_only_select :
    forall (b : bundle) (p : tok -> bool), ver_perm_only b -> ver_perm_only (select b p).
Proof. exact (@ver_perm_only_select). Qed.

Theorem ver_perm_only_attenuate :
    forall (at_ : atable) (cst : cstable) (b : bundle) (cl : N),
    ver_perm_only b -> ver_perm_only (fst (attenuate at_ cst b cl)).
Proof. exact (@ver_perm_only_attenuate). Qed.

Theorem ver_perm_only_discharge :
    forall (b : bundle) (tp : N) (key_ok : bool) (first : N),
    ver_perm_only b -> ver_perm_only (fst (discharge b tp key_ok first)).
Proof. exact (@ver_perm_only_discharge). Qed.

Theorem ver_perm_only_clone :
    forall b : bundle, ver_perm_only (clone b).
Proof. exact (@ver_perm_only_clone). Qed.

Theorem verified_list :
    forall (vt : vtable) (b : bundle),
    snd (verify vt b) =
    flat_map (fun t : tok => match t with
    | TVer _ cs => [cs]
    | _ => []
    end) (b_ts (fst (verify vt b))).
Proof. exact (@verified_list_l). Qed.

Theorem non_tokens_never_contribute :
    forall (vt : vtable) (ct : ctable) (b : bundle) (x : tok) (pre post : list tok) (rq s : N),
    b_ts b = pre ++ post ->
    x = TNon s \/ x = TMal s ->
    validate ct (fst (verify vt {| b_loc := b_loc b; b_ts := pre ++ x :: post |})) rq =
    validate ct (fst (verify vt b)) rq.
Proof. exact (@non_tokens_never_contribute_l). Qed.

Theorem foreign_never_contributes :
    forall (vt : vtable) (ct : ctable) (b : bundle) (x : tok) (pre post : list tok) (rq : N),
    b_ts b = pre ++ post ->
    is_perm (b_loc b) x = false ->
    (forall (m : mac) (cs : N), x = TVer m cs -> clookup ct cs rq = false) ->
    (forall p : N,
    vlookup vt p (all_dis_ids {| b_loc := b_loc b; b_ts := pre ++ x :: post |}) =
    vlookup vt p (all_dis_ids b)) ->
    validate ct (fst (verify vt {| b_loc := b_loc b; b_ts := pre ++ x :: post |})) rq =
    validate ct (fst (verify vt b)) rq.
Proof. exact (@foreign_never_contributes_l_partial). Qed.

Theorem default_keep_spec :
    forall (loc : N) (ts : list tok) (t : tok),
    default_keep loc ts t = true <->
    (exists s : N, t = TNon s) \/ is_perm loc t = true \/ ticket_match loc ts t.
Proof. exact (@default_keep_spec_l). Qed.

Theorem default_keep_mal :
    forall (loc : N) (ts : list tok) (s : N), default_keep loc ts (TMal s) = false.
Proof. exact (@default_keep_mal_l). Qed.

Theorem parse_header :
    forall (loc : N) (ts : list tok),
    header (fst (parse_bundle loc ts)) = map tok_id (filter (default_keep loc ts) ts).
Proof. exact (@parse_header_l). Qed.

Theorem parse_error :
    forall (loc : N) (ts : list tok),
    snd (parse_bundle loc ts) = true <-> (forall t : tok, In t ts -> is_bad t = false).
Proof. exact (@parse_error_l). Qed.

Theorem add_tokens_atomic :
    forall (b : bundle) (ts : list tok) (b' : bundle) (ok : bool),
    add_tokens b ts = (b', ok) ->
    ((ok = false -> b' = b) /\ (ok = true -> b' = {| b_loc := b_loc b; b_ts := b_ts b ++ ts |})) /\
    (ok = false <-> (exists t : tok, In t ts /\ is_bad t = true)).
Proof. exact (@add_tokens_atomic_l). Qed.

Theorem attenuate_atomic :
    forall (at_ : atable) (cst : cstable) (b : bundle) (cl : N) (b' : bundle) (ok : bool),
    attenuate at_ cst b cl = (b', ok) ->
    (ok = false -> b' = b) /\
    (ok = true ->
    b_loc b' = b_loc b /\
    length (b_ts b') = length (b_ts b) /\
    (forall (i : nat) (t : tok),
    nth_error (b_ts b) i = Some t ->
    (is_perm (b_loc b) t = false -> nth_error (b_ts b') i = Some t) /\
    (is_perm (b_loc b) t = true ->
    exists t' : tok, nth_error (b_ts b') i = Some t' /\ att_tok at_ cst (b_loc b) cl t = Some t'))).
Proof. exact (@attenuate_atomic_l). Qed.

Theorem attenuate_verified_appends :
    forall (at_ : atable) (cst : cstable) (loc cl : N) (m : mac) (cs : N) (t' : tok),
    is_perm loc (TVer m cs) = true ->
    att_tok at_ cst loc cl (TVer m cs) = Some t' ->
    exists i : N, alookup at_ (m_id m) cl = VRes (Some i) /\ t' = TVer (retag m i) (cslookup cst cs cl).
Proof. exact (@attenuate_verified_appends_l). Qed.

Theorem discharge_atomic :
    forall (b : bundle) (tp : N) (ok_key : bool) (first : N) (b' : bundle) (ok : bool),
    discharge b tp ok_key first = (b', ok) ->
    (ok = false -> b' = b) /\
    (ok = true -> b' = b \/ b_ts b' = b_ts b ++ new_dis tp (undischarged_for b tp) first).
Proof. exact (@discharge_atomic_l). Qed.

Theorem new_dis_spec :
    forall (tp : N) (tks : list N) (first : N) (i : nat),
    nth_error (new_dis tp tks first) i =
    option_map
    (fun tk : N => TUnv {| m_id := first + N.of_nat i; m_loc := tp; m_kid := tk; m_tickets := [] |})
    (nth_error tks i).
Proof. exact (@new_dis_spec_l). Qed.

Theorem discharge_effect :
    forall (b : bundle) (tp first : N) (b' : bundle),
    tp <> b_loc b -> discharge b tp true first = (b', true) -> undischarged_for b' tp = [].
Proof. exact (@discharge_effect_l). Qed.

Theorem discharge_undischarged :
    forall (b : bundle) (tp tp' first : N) (b' : bundle),
    tp <> b_loc b ->
    discharge b tp true first = (b', true) ->
    undischarged_for b' tp' =
    filter (fun tk : N => negb (existsb (N.eqb tk) (undischarged_for b tp))) (undischarged_for b tp').
Proof. exact (@discharge_undischarged_l). Qed.

Theorem select :
    forall (b : bundle) (p : tok -> bool),
    b_ts (select b p) = filter p (b_ts b) /\ b_loc (select b p) = b_loc b.
Proof. exact (@select_l). Qed.

Theorem clone_header :
    forall b : bundle, b_ts b <> [] -> header (clone b) = header b.
Proof. exact (@clone_header_l). Qed.

Theorem clone_resets :
    forall (b : bundle) (t : tok),
    In t (b_ts (clone b)) -> match t with
    | TVer _ _ | TFail _ => False
    | _ => True
    end.
Proof. exact (@clone_resets_l). Qed.

Theorem select_f_spec :
    forall (ct : ctable) (b : bundle) (f : filt),
    b_ts (select_f ct b f) = filter (filt_fn ct (b_loc b) (b_ts b) f) (b_ts b) /\
    b_loc (select_f ct b f) = b_loc b.
Proof. exact (@select_f_spec_l). Qed.

Theorem select_f_incl :
    forall (ct : ctable) (b : bundle) (f : filt) (t : tok), In t (b_ts (select_f ct b f)) -> In t (b_ts b).
Proof. exact (@select_f_incl_l). Qed.

Theorem select_f_length :
    forall (ct : ctable) (b : bundle) (f : filt), length (b_ts (select_f ct b f)) <= length (b_ts b).
Proof. exact (@select_f_length_l). Qed.

Theorem allows_spec :
    forall (ct : ctable) (rqs : list N) (t : tok),
    allows ct rqs t = true <->
    (exists (m : mac) (cs : N), t = TVer m cs /\ (forall rq : N, In rq rqs -> clookup ct cs rq = true)).
Proof. exact (@allows_spec_l). Qed.

Theorem validate_iff_allows :
    forall (ct : ctable) (b : bundle) (rq : N),
    validate ct b rq = negb (is_nil (b_ts (select_f ct b (FAllows [rq])))).
Proof. exact (@validate_iff_allows_l). Qed.

Theorem validate_many_iff_allows :
    forall (ct : ctable) (b : bundle) (rqs : list N),
    validate_many ct b rqs = negb (is_nil (b_ts (select_f ct b (FAllows rqs)))).
Proof. exact (@validate_many_iff_allows_l). Qed.

Theorem missing_for_spec :
    forall (loc : N) (ts : list tok) (tp : N) (t : tok),
    missing_for loc ts tp t = true <->
    is_perm loc t = true /\
    (exists (m : mac) (k : N), tok_mac t = Some m /\ In (tp, k) (m_tickets m) /\ dis_for loc ts k = []).
Proof. exact (@missing_for_spec_l). Qed.

Theorem no_missing_iff_undischarged :
    forall (ct : ctable) (b : bundle) (tp : N),
    b_ts (select_f ct b (FMissing tp)) = [] <-> undischarged_for b tp = [].
Proof. exact (@no_missing_iff_undischarged_l). Qed.

Theorem withdis_spec :
    forall (ct : ctable) (loc : N) (ts : list tok) (g : filt) (t : tok),
    filt_fn ct loc ts (FWithDis g) t = true <->
    filt_fn ct loc ts g t = true \/
    (exists p : tok, In p ts /\ discharges_perm loc p t = true /\ filt_fn ct loc ts g p = true).
Proof. exact (@withdis_spec_l). Qed.

Theorem withdis_monotone :
    forall (ct : ctable) (b : bundle) (g : filt) (t : tok),
    In t (b_ts (select_f ct b g)) -> In t (b_ts (select_f ct b (FWithDis g))).
Proof. exact (@withdis_monotone_l). Qed.

Theorem discharges_perm_spec :
    forall (loc : N) (p t : tok),
    discharges_perm loc p t = true <->
    is_perm loc p = true /\
    is_dis loc t = true /\ (exists k : N, kid_of t = Some k /\ In k (tickets_of p)).
Proof. exact (@discharges_perm_spec_l). Qed.

Print Assumptions validate_iff.
Print Assumptions bundle_decision_equiv.
Print Assumptions bundle_decision_equiv_general.
Print Assumptions ver_perm_only_parse.
Print Assumptions ver_perm_only_verify.
Print Assumptions ver_perm_only_add.
Print Assumptions ver_perm_only_select.
Print Assumptions ver_perm_only_attenuate.
Print Assumptions ver_perm_only_discharge.
Print Assumptions ver_perm_only_clone.
Print Assumptions verified_list.
Print Assumptions non_tokens_never_contribute.
Print Assumptions foreign_never_contributes.
Print Assumptions default_keep_spec.
Print Assumptions default_keep_mal.
Print Assumptions parse_header.
Print Assumptions parse_error.
Print Assumptions add_tokens_atomic.
Print Assumptions attenuate_atomic.
Print Assumptions attenuate_verified_appends.
Print Assumptions discharge_atomic.
Print Assumptions new_dis_spec.
Print Assumptions discharge_effect.
Print Assumptions discharge_undischarged.
Print Assumptions select.
Print Assumptions clone_header.
Print Assumptions clone_resets.
Print Assumptions select_f_spec.
Print Assumptions select_f_incl.
Print Assumptions select_f_length.
Print Assumptions allows_spec.
Print Assumptions validate_iff_allows.
Print Assumptions validate_many_iff_allows.
Print Assumptions missing_for_spec.
Print Assumptions no_missing_iff_undischarged.
Print Assumptions withdis_spec.
Print Assumptions withdis_monotone.
Print Assumptions discharges_perm_spec.

(* ---- object sharing between a bundle and the bundles derived from it (Model/BundleHeap.v).
   Statements restated from Proofs/BundleHeapProofs.v (closed by [exact]). *)
From Mac Require Import Model.BundleHeap Proofs.BundleHeapProofs.

(* on scenarios whose accepted Attenuate calls write only objects that no other slot reaches, the heap model
   and the value model (all the theorems above) observe the same *)
Theorem heap_refines_value_model :
    forall (T : tables) (ops : list bop), alias_safe T ops = true -> hrun T ops = run_bundle T ops.
Proof. exact (@hrun_refines_l). Qed.

Theorem heap_refines_value_model_without_select :
    forall (T : tables) (ops : list bop), no_select ops = true -> hrun T ops = run_bundle T ops.
Proof. exact (@no_select_refines_l). Qed.

(* ownership (a wrapper's base object is private to it) and exactness (a wrapper's caveat set is the verified set of its
   token's ancestor extended by exactly the attenuations since), for every cache-free scenario *)
Theorem heap_exactness :
    forall (T : tables) (ops : list bop), cache_free ops = true -> hinv T (hstate_after T hinit ops).
Proof. exact (@hexact_run_l). Qed.

Theorem validate_own_refs :
    forall (ct : ctable) (h : heap) (hb : hbundle) (rq : N),
    validate ct (hview h hb) rq = true <->
    (exists (r : N) (m : mac) (cs : N), In r (hb_refs hb) /\ cell_tok h r = TVer m cs /\ clookup ct cs rq = true).
Proof. exact (@validate_own_refs_l). Qed.

Theorem bundle_decision_exact :
    forall (T : tables) (ops : list bop) (k : N) (hb : hbundle) (rq : N),
    raw_ops ops = true ->
    cache_free ops = true ->
    let σ := hstate_after T hinit ops in
    In (k, hb) (h_bs σ) ->
    validate (t_c T) (hview (h_heap σ) hb) rq = true <->
    (exists (r u cs : N) (m : mac),
    In r (hb_refs hb) /\
    blookup r (h_heap σ) = Some (CVer u cs) /\
    cell_mac (h_heap σ) u = Some m /\
    is_perm (hb_loc hb) (TVer m cs) = true /\ vexact T (m_id m) cs /\ clookup (t_c T) cs rq = true).
Proof. exact (@bundle_decision_exact_l). Qed.

Theorem attenuate_visible_through_aliases :
    forall (at_ : atable) (cst : cstable) (h : heap) (hb : hbundle) (cl : N) (h' : heap) (hb' : hbundle) (r : N),
    hattenuate at_ cst h hb cl = (h', true) ->
    In r (hb_refs hb) ->
    In r (hb_refs hb') ->
    exists t1 : tok,
    att_tok at_ cst (hb_loc hb) cl (cell_tok h r) = Some t1 /\
    cell_tok h' r = t1 /\ In t1 (b_ts (hview h' hb)) /\ In t1 (b_ts (hview h' hb')).
Proof. exact (@attenuate_visible_through_aliases_l). Qed.

(* no attenuation bypasses a verified caveat set (finding F15, repaired): token identity and caveat set move together *)
Theorem attenuate_never_bypasses :
    forall (at_ : atable) (cst : cstable) (σ : hst) (k : N) (hb : hbundle) (cl : N) (h' : heap) (w u cs : N) (m : mac),
    own σ ->
    In (k, hb) (h_bs σ) ->
    hattenuate at_ cst (h_heap σ) hb cl = (h', true) ->
    blookup w (h_heap σ) = Some (CVer u cs) ->
    cell_mac (h_heap σ) u = Some m ->
    cell_tok (h_heap σ) w = TVer m cs /\
    (cell_tok h' w = TVer m cs \/
    (exists i : N,
    alookup at_ (m_id m) cl = VRes (Some i) /\ cell_tok h' w = TVer (retag m i) (cslookup cst cs cl))).
Proof. exact (@attenuate_never_bypasses_l). Qed.

Theorem select_keeps_cells :
    forall (T : tables) (σ : hst) (dst b : N) (p : pred) (hb : hbundle),
    blookup b (h_bs σ) = Some hb ->
    let σ' := fst (hstep T σ (BSelect dst b p)) in
    h_heap σ' = h_heap σ /\
    (exists hd : hbundle,
    blookup dst (h_bs σ') = Some hd /\
    (forall r : N,
    In r (hb_refs hd) <-> In r (hb_refs hb) /\ pred_fn (hb_loc hb) p (cell_tok (h_heap σ) r) = true) /\
    hview (h_heap σ') hd = BundleM.select (hview (h_heap σ) hb) (pred_fn (hb_loc hb) p)).
Proof. exact (@select_keeps_cells_l). Qed.

Theorem clone_independent :
    forall (T : tables) (σ : hst) (dst b : N) (hb : hbundle),
    hwf σ ->
    blookup b (h_bs σ) = Some hb ->
    let σ1 := fst (hstep T σ (BClone dst b)) in
    exists hd : hbundle,
    blookup dst (h_bs σ1) = Some hd /\
    hview (h_heap σ1) hd = clone (hview (h_heap σ) hb) /\
    isolated σ1 dst = true /\
    (forall (k' : N) (hb' : hbundle) (cl : N),
    In (k', hb') (h_bs σ1) ->
    k' <> dst ->
    hview (hatt_heap (t_a T) (t_cs T) (h_heap σ1) hb' cl) hd = hview (h_heap σ1) hd /\
    hview (hatt_heap (t_a T) (t_cs T) (h_heap σ1) hd cl) hb' = hview (h_heap σ1) hb').
Proof. exact (@clone_independent_l). Qed.

Print Assumptions heap_refines_value_model.
Print Assumptions heap_refines_value_model_without_select.
Print Assumptions heap_exactness.
Print Assumptions validate_own_refs.
Print Assumptions bundle_decision_exact.
Print Assumptions attenuate_visible_through_aliases.
Print Assumptions attenuate_never_bypasses.
Print Assumptions select_keeps_cells.
Print Assumptions clone_independent.
