(* C20 - Client credentials go only to the third party they were configured for.
   Statements restated from Proofs/ClientProofs.v (closed by [exact]).  Hosts are what Go's net/url
   reports as Hostname() for the configured location and for each request URL (trusted). *)
From Coq Require Import List Bool NArith String Permutation.
From Mac Require Import Model.TPClient Proofs.ClientProofs.
Import ListNotations.

Theorem attached_spec :
    forall (opts : list copt) (h : string),
    attached (new_client opts) h =
    match last_auth h opts with
    | Some v => if (v =? "")%string then None else Some v
    | None => None
    end.
Proof. exact (@attached_spec_l). Qed.

Theorem base_spec :
    forall opts : list copt, c_base (new_client opts) = last_http opts.
Proof. exact (@base_spec_l). Qed.

Theorem ignored_spec :
    forall opts : list copt, c_ignored (new_client opts) = all_ignored opts.
Proof. exact (@ignored_spec_l). Qed.

Theorem with_http_keeps_auth :
    forall (opts : list copt) (id : N) (h : string),
    attached (new_client (opts ++ [WithHTTP id])) h = attached (new_client opts) h.
Proof. exact (@with_http_keeps_auth_l). Qed.

Theorem with_http_insert_keeps_auth :
    forall (o1 o2 : list copt) (id : N) (h : string),
    attached (new_client (o1 ++ WithHTTP id :: o2)) h = attached (new_client (o1 ++ o2)) h.
Proof. exact (@with_http_insert_keeps_auth_l). Qed.

Theorem cred_only_exact_host :
    forall (opts : list copt) (h v : string),
    attached (new_client opts) h = Some v -> In (WithAuth h v) opts /\ v <> ""%string.
Proof. exact (@cred_only_exact_host_l). Qed.

Theorem no_cred_unconfigured :
    forall (opts : list copt) (h : string),
    (forall v : string, ~ In (WithAuth h v) opts) -> attached (new_client opts) h = None.
Proof. exact (@no_cred_unconfigured_l). Qed.

Theorem options_order_irrelevant :
    forall opts opts' : list copt,
    (forall h : string, last_auth h opts = last_auth h opts') ->
    forall h : string, attached (new_client opts) h = attached (new_client opts') h.
Proof. exact (@options_order_irrelevant_l). Qed.

Theorem perm_distinct_hosts :
    forall opts opts' : list copt,
    Permutation opts opts' ->
    NoDup (auth_hosts opts) ->
    forall h : string, attached (new_client opts) h = attached (new_client opts') h.
Proof. exact (@perm_distinct_hosts_l). Qed.

Theorem requests_carry_right_cred :
    forall (opts : list copt) (tps : list tploc) (b : N) (h : string) (a : option string),
    In (b, h, a) (fetch_requests (new_client opts) tps) ->
    b = last_http opts /\ a = attached (new_client opts) h.
Proof. exact (@requests_carry_right_cred_l). Qed.

Theorem request_hosts :
    forall (opts : list copt) (tps : list tploc) (b : N) (h : string) (a : option string),
    In (b, h, a) (fetch_requests (new_client opts) tps) ->
    exists t : tploc,
    In t tps /\
    ~ In (tp_id t) (all_ignored opts) /\ 0 < tp_tickets t /\ In h (flow_hosts (tp_host t) (tp_reply t)).
Proof. exact (@request_hosts_l). Qed.

Theorem leak_free :
    forall (opts : list copt) (tps : list tploc) (b : N) (h v : string),
    In (b, h, Some v) (fetch_requests (new_client opts) tps) -> In (WithAuth h v) opts.
Proof. exact (@leak_free_l). Qed.

Print Assumptions attached_spec.
Print Assumptions base_spec.
Print Assumptions ignored_spec.
Print Assumptions with_http_keeps_auth.
Print Assumptions with_http_insert_keeps_auth.
Print Assumptions cred_only_exact_host.
Print Assumptions no_cred_unconfigured.
Print Assumptions options_order_irrelevant.
Print Assumptions perm_distinct_hosts.
Print Assumptions requests_carry_right_cred.
Print Assumptions request_hosts.
Print Assumptions leak_free.
