(* C12 - Untrusted bytes never crash or balloon the process.
   Statements restated from Proofs/CodecProofs.v and Proofs/CodecProofs2.v (closed by [exact]).
   Partial: these theorems are about the parser model (total by construction, no amplification, bounded pre-size; at the end
   of the file, from Proofs/TypedDec2Size.v: at the typed level the decoded VALUE is bounded by the bytes read -
   2 * weight <= 3 * bytes + 3, at most one caveat per two bytes nested ones included, nesting depth <= bytes read);
   panics and real allocation of the Go runtime are exhibited by the fuzz oracle of the `malformed` stream. *)
From Coq Require Import List Bool NArith ZArith.
From Mac Require Import Model.Caveat Model.Msgpack Model.Codec Proofs.CodecProofs Proofs.CodecProofs2.
Import ListNotations.
From Mac Require Import Proofs.LenientProofs.

Theorem skip_consumes_a_prefix :
    forall (f : nat) (l r : bytes), skip f l = Some r -> exists pre : list N, l = pre ++ r /\ pre <> [].
Proof. exact (@skip_suffix). Qed.

Theorem skip_strictly_shorter :
    forall (f : nat) (l r : bytes), skip f l = Some r -> length r < length l.
Proof. exact (@skip_length). Qed.

Theorem skip_fuel_input_length_suffices :
    forall (f f' : nat) (l r : bytes), skip f l = Some r -> length l <= f' -> skip f' l = Some r.
Proof. exact (@skip_fuel_enough). Qed.

Theorem skip_fuel_mono :
    forall (f f' : nat) (l r : bytes), skip f l = Some r -> f <= f' -> skip f' l = Some r.
Proof. exact (@skip_fuel_mono). Qed.

Theorem dec_frames_count :
    forall (l : bytes) (fs : list (N * bytes)), dec_frames l = Some fs -> 2 * length fs <= length l.
Proof. exact (@dec_frames_count_l). Qed.

Theorem dec_frames_bodies :
    forall (l : bytes) (fs : list (N * bytes)),
    dec_frames l = Some fs ->
    fold_right (fun (f : N * list N) (acc : nat) => length (snd f) + acc) 0 fs <= length l.
Proof. exact (@dec_frames_bodies_l). Qed.

Theorem prealloc_slots_bound :
    forall l : bytes, (prealloc_slots l <= 64)%N.
Proof. exact (@prealloc_slots_bound_l). Qed.

Theorem prealloc_slots_le_announced :
    forall (l : bytes) (n : N) (r : bytes), dec_arr_hdr l = Some (n, r) -> (prealloc_slots l <= n / 2)%N.
Proof. exact (@prealloc_slots_le_announced). Qed.

Theorem prealloc_legacy_unbounded :
    legacy_prealloc [221%N; 15%N; 255%N; 255%N; 254%N] = 134217727%N /\
    prealloc_slots [221%N; 15%N; 255%N; 255%N; 254%N] = 64%N.
Proof. exact (@prealloc_legacy_unbounded). Qed.

Theorem prealloc_slots_is_capped_legacy :
    forall l : bytes, prealloc_slots l = N.min (legacy_prealloc l) 64.
Proof. exact (@prealloc_slots_legacy). Qed.

Theorem dec_frames_len_ext :
    forall (l : bytes) (fs : list (N * bytes)), dec_frames l = Some fs -> dec_frames_len l = Some fs.
Proof. exact (@dec_frames_len_ext_l). Qed.

Theorem dec_uint_len_ext_thm :
    forall (l : bytes) (ty : N) (r : bytes), dec_uint l = Some (ty, r) -> dec_uint_len l = Some (ty, r).
Proof. exact (@dec_uint_len_ext). Qed.

Theorem dec_frames_len_nil :
    forall t : list N, dec_frames_len (192%N :: t) = Some [].
Proof. exact (@dec_frames_len_nil_l). Qed.

Theorem dec_uint_len_nil :
    forall r : list N, dec_uint_len (192%N :: r) = Some (0%N, r).
Proof. exact (@dec_uint_len_nil_l). Qed.

Theorem dec_uint_len_negfix :
    forall (c : N) (r : list N),
    (224 <= c)%N -> (c <= 255)%N -> dec_uint_len (c :: r) = Some ((2 ^ 64 - (256 - c))%N, r).
Proof. exact (@dec_uint_len_negfix_l). Qed.

Print Assumptions skip_consumes_a_prefix.
Print Assumptions skip_strictly_shorter.
Print Assumptions skip_fuel_input_length_suffices.
Print Assumptions skip_fuel_mono.
Print Assumptions dec_frames_count.
Print Assumptions dec_frames_bodies.
Print Assumptions prealloc_slots_bound.
Print Assumptions prealloc_slots_le_announced.
Print Assumptions prealloc_legacy_unbounded.
Print Assumptions prealloc_slots_is_capped_legacy.
Print Assumptions dec_frames_len_ext.
Print Assumptions dec_uint_len_ext_thm.
Print Assumptions dec_frames_len_nil.
Print Assumptions dec_uint_len_nil.
Print Assumptions dec_uint_len_negfix.

(* ---- no amplification at the TYPED level (Model.TypedDec2, measure of the decoded value: Model.CavSize; proofs:
   Proofs/TypedDec2Size.v).  For every setting of the ext-header leniency, of the *CaveatSet decoder variant and of the fuel,
   and with no side condition on the bytes. *)
From Mac Require Import Model.TypedDec Model.TypedDec2 Model.CavSize Proofs.TypedDecProofs Proofs.TypedDec2Frames
  Proofs.TypedDec2Size.

Theorem typed_caveat_weight :
    forall (ext pz : bool) (fuel : nat) (ty : N) (b : bytes) (c : cav) (r : bytes),
    dec_cav ext pz fuel ty b = Some (c, r) -> cav_weight c <= 2 * (length b - length r) + 1.
Proof. exact (@dec_cav_weight_l). Qed.

Theorem typed_caveat_weight_sharp :
    forall (ext pz : bool) (fuel : nat) (ty : N) (b : bytes) (c : cav) (r : bytes),
    dec_cav ext pz fuel ty b = Some (c, r) -> 2 * cav_weight c <= 3 * (length b - length r) + 3.
Proof. exact (@dec_cav_weight_sharp_l). Qed.

Theorem typed_caveat_reads_a_prefix :
    forall (ext pz : bool) (fuel : nat) (ty : N) (b : bytes) (c : cav) (r : bytes),
    dec_cav ext pz fuel ty b = Some (c, r) -> length r < length b.
Proof. exact (@dec_cav_consumed_l). Qed.

Theorem typed_caveat_count :
    forall (ext pz : bool) (fuel : nat) (ty : N) (b : bytes) (c : cav) (r : bytes),
    dec_cav ext pz fuel ty b = Some (c, r) -> 2 * cav_count c <= length b - length r + 1.
Proof. exact (@dec_cav_count_l). Qed.

Theorem typed_caveat_depth :
    forall (ext pz : bool) (fuel : nat) (ty : N) (b : bytes) (c : cav) (r : bytes),
    dec_cav ext pz fuel ty b = Some (c, r) -> cav_depth c <= length b - length r.
Proof. exact (@dec_cav_depth_l). Qed.

Theorem typed_caveat_depth_within_fuel :
    forall (ext pz : bool) (fuel : nat) (ty : N) (b : bytes) (c : cav) (r : bytes),
    dec_cav ext pz fuel ty b = Some (c, r) -> cav_depth c <= fuel.
Proof. exact (@dec_cav_depth_fuel_l). Qed.

Theorem typed_caveat_fuel_input_length_suffices :
    forall (ext pz : bool) (f : nat) (ty : N) (b : bytes) (x : cav * bytes),
    dec_cav ext pz f ty b = Some x -> dec_cav ext pz (S (length b)) ty b = Some x.
Proof. exact (@dec_cav_fuel_enough_l). Qed.

Theorem typed_set_weight :
    forall (ext pz : bool) (b : bytes) (cs : list cav),
    dec_set_typed_gen ext pz b = Some cs -> set_weight cs <= 2 * length b.
Proof. exact (@dec_set_typed_weight_l). Qed.

Theorem typed_set_weight_sharp :
    forall (ext pz : bool) (b : bytes) (cs : list cav),
    dec_set_typed_gen ext pz b = Some cs -> 2 * set_weight cs <= 3 * length b.
Proof. exact (@dec_set_typed_weight_sharp_l). Qed.

Theorem typed_set_count :
    forall (ext pz : bool) (b : bytes) (cs : list cav),
    dec_set_typed_gen ext pz b = Some cs -> length cs <= length b / 2.
Proof. exact (@dec_set_typed_count_l). Qed.

Theorem typed_set_count_nested :
    forall (ext pz : bool) (b : bytes) (cs : list cav),
    dec_set_typed_gen ext pz b = Some cs -> length (flat_all cs) <= length b / 2.
Proof. exact (@dec_set_typed_count_all_l). Qed.

Theorem typed_set_depth :
    forall (ext pz : bool) (b : bytes) (cs : list cav),
    dec_set_typed_gen ext pz b = Some cs -> Forall (fun c : cav => cav_depth c <= length b / 2) cs.
Proof. exact (@dec_set_typed_depth_l). Qed.

Theorem typed_google_uid_bits :
    forall (b : bytes) (n : N) (r : bytes),
    byte_list b -> dec_body_rest 25 b = Some (CGoogleUserID n, r) -> (N.log2 n < 8 * N.of_nat (length b - length r))%N.
Proof. exact (@google_uid_bits_l). Qed.

(* the constants cannot be lowered: one nil byte is an Organization of 3 units; 1000 of them in a set are 2003 bytes and 3000
   units; K1 = 1 fails for K0 <= 8 on 92 dc 00 18 (00 c0)x12 c0 (29 bytes, 38 units) *)
Theorem typed_caveat_weight_is_tight :
    dec_cav true false 2 0 [192%N] = Some (COrganization 0 0, []) /\
    cav_weight (COrganization 0 0) = 3 /\ 3 = 2 * (1 - 0) + 1 /\ 2 * 3 = 3 * (1 - 0) + 3.
Proof. exact (@dec_cav_weight_tight). Qed.

Theorem typed_set_weight_is_tight :
    exists cs : list cav,
      dec_set_typed ([220%N; 7%N; 208%N] ++ nil_orgs 1000) = Some cs /\
      length ([220%N; 7%N; 208%N] ++ nil_orgs 1000) = 2003 /\
      set_weight cs = 3000 /\ length cs = 1000 /\ 2003 / 2 = 1001.
Proof. exact (@dec_set_typed_weight_tight). Qed.

Theorem typed_caveat_weight_factor_1_refuted :
    exists c : cav,
      dec_cav true false 30 13 ([146%N; 220%N; 0%N; 24%N] ++ nil_orgs 12 ++ [192%N]) = Some (c, []) /\
      length ([146%N; 220%N; 0%N; 24%N] ++ nil_orgs 12 ++ [192%N]) = 29 /\
      cav_weight c = 38 /\ cav_weight c > 1 * (29 - 0) + 8.
Proof. exact (@dec_cav_weight_K1_is_1_refuted). Qed.

Theorem typed_repeated_ifs_key_appends :
    dec_cav true false 22 13
      [131%N; 163%N; 73%N; 102%N; 115%N; 146%N; 0%N; 192%N; 163%N; 73%N; 102%N; 115%N; 146%N; 4%N; 192%N;
       164%N; 69%N; 108%N; 115%N; 101%N; 1%N] =
    Some (CIfPresent (Some [COrganization 0 0; CValidityWindow 0 0]) 1, []) /\
    cav_weight (CIfPresent (Some [COrganization 0 0; CValidityWindow 0 0]) 1) = 8.
Proof. exact (@dec_cav_repeated_ifs). Qed.

Theorem typed_nesting_needs_fuel :
    dec_cav true false 3 13 [146%N; 146%N; 13%N; 146%N; 146%N; 13%N; 192%N; 192%N; 192%N] =
    Some (CIfPresent (Some [CIfPresent (Some [CIfPresent None 0]) 0]) 0, []) /\
    cav_depth (CIfPresent (Some [CIfPresent (Some [CIfPresent None 0]) 0]) 0) = 3 /\
    dec_cav true false 2 13 [146%N; 146%N; 13%N; 146%N; 146%N; 13%N; 192%N; 192%N; 192%N] = None.
Proof. exact (@dec_cav_nested_3). Qed.

Print Assumptions typed_caveat_weight.
Print Assumptions typed_caveat_weight_sharp.
Print Assumptions typed_caveat_reads_a_prefix.
Print Assumptions typed_caveat_count.
Print Assumptions typed_caveat_depth.
Print Assumptions typed_caveat_depth_within_fuel.
Print Assumptions typed_caveat_fuel_input_length_suffices.
Print Assumptions typed_set_weight.
Print Assumptions typed_set_weight_sharp.
Print Assumptions typed_set_count.
Print Assumptions typed_set_count_nested.
Print Assumptions typed_set_depth.
Print Assumptions typed_google_uid_bits.
Print Assumptions typed_caveat_weight_is_tight.
Print Assumptions typed_set_weight_is_tight.
Print Assumptions typed_caveat_weight_factor_1_refuted.
Print Assumptions typed_repeated_ifs_key_appends.
Print Assumptions typed_nesting_needs_fuel.
