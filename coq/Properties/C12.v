(* C12 - Untrusted bytes never crash or balloon the process.
   Statements restated from Proofs/CodecProofs.v and Proofs/CodecProofs2.v (closed by [exact]).
   Partial: these theorems are about the parser model (total by construction, no amplification, bounded pre-size);
   panics and real allocation of the Go runtime are exhibited by the fuzz oracle of the `malformed` stream. *)
From Coq Require Import List Bool NArith ZArith.
From Mac Require Import Model.Caveat Model.Msgpack Model.Codec Proofs.CodecProofs Proofs.CodecProofs2.
Import ListNotations.
From Mac Require Import Proofs.LenientProofs.

Theorem skip_consumes_a_prefix :
    forall (f : nat) (l r : bytes), skip f l = Some r -> exists pre : list N, l = pre ++ r /\ pre <> [].
Proof. exact (@skip_suffix). Qed.

Theorem skip_strictly_shorter :
    forall (f : nat) (l r : bytes), skip f l = Some r -> length r < length l.
Proof. exact (@skip_length). Qed.

Theorem skip_fuel_input_length_suffices :
    forall (f f' : nat) (l r : bytes), skip f l = Some r -> length l <= f' -> skip f' l = Some r.
Proof. exact (@skip_fuel_enough). Qed.

Theorem skip_fuel_mono :
    forall (f f' : nat) (l r : bytes), skip f l = Some r -> f <= f' -> skip f' l = Some r.
Proof. exact (@skip_fuel_mono). Qed.

Theorem dec_frames_count :
    forall (l : bytes) (fs : list (N * bytes)), dec_frames l = Some fs -> 2 * length fs <= length l.
Proof. exact (@dec_frames_count_l). Qed.

Theorem dec_frames_bodies :
    forall (l : bytes) (fs : list (N * bytes)),
    dec_frames l = Some fs ->
    fold_right (fun (f : N * list N) (acc : nat) => length (snd f) + acc) 0 fs <= length l.
Proof. exact (@dec_frames_bodies_l). Qed.

Theorem prealloc_slots_bound :
    forall l : bytes, (prealloc_slots l <= 64)%N.
Proof. exact (@prealloc_slots_bound_l). Qed.

Theorem prealloc_slots_le_announced :
    forall (l : bytes) (n : N) (r : bytes), dec_arr_hdr l = Some (n, r) -> (prealloc_slots l <= n / 2)%N.
Proof. exact (@prealloc_slots_le_announced). Qed.

Theorem prealloc_legacy_unbounded :
    legacy_prealloc [221%N; 15%N; 255%N; 255%N; 254%N] = 134217727%N /\
    prealloc_slots [221%N; 15%N; 255%N; 255%N; 254%N] = 64%N.
Proof. exact (@prealloc_legacy_unbounded). Qed.

Theorem prealloc_slots_is_capped_legacy :
    forall l : bytes, prealloc_slots l = N.min (legacy_prealloc l) 64.
Proof. exact (@prealloc_slots_legacy). Qed.

Theorem dec_frames_len_ext :
    forall (l : bytes) (fs : list (N * bytes)), dec_frames l = Some fs -> dec_frames_len l = Some fs.
Proof. exact (@dec_frames_len_ext_l). Qed.

Theorem dec_uint_len_ext_thm :
    forall (l : bytes) (ty : N) (r : bytes), dec_uint l = Some (ty, r) -> dec_uint_len l = Some (ty, r).
Proof. exact (@dec_uint_len_ext). Qed.

Theorem dec_frames_len_nil :
    forall t : list N, dec_frames_len (192%N :: t) = Some [].
Proof. exact (@dec_frames_len_nil_l). Qed.

Theorem dec_uint_len_nil :
    forall r : list N, dec_uint_len (192%N :: r) = Some (0%N, r).
Proof. exact (@dec_uint_len_nil_l). Qed.

Theorem dec_uint_len_negfix :
    forall (c : N) (r : list N),
    (224 <= c)%N -> (c <= 255)%N -> dec_uint_len (c :: r) = Some ((2 ^ 64 - (256 - c))%N, r).
Proof. exact (@dec_uint_len_negfix_l). Qed.

Print Assumptions skip_consumes_a_prefix.
Print Assumptions skip_strictly_shorter.
Print Assumptions skip_fuel_input_length_suffices.
Print Assumptions skip_fuel_mono.
Print Assumptions dec_frames_count.
Print Assumptions dec_frames_bodies.
Print Assumptions prealloc_slots_bound.
Print Assumptions prealloc_slots_le_announced.
Print Assumptions prealloc_legacy_unbounded.
Print Assumptions prealloc_slots_is_capped_legacy.
Print Assumptions dec_frames_len_ext.
Print Assumptions dec_uint_len_ext_thm.
Print Assumptions dec_frames_len_nil.
Print Assumptions dec_uint_len_nil.
Print Assumptions dec_uint_len_negfix.
