(* C19 - Authorization headers parse unambiguously and round-trip.
   Statements restated from Proofs/Base64Proofs.v and Proofs/HeaderProofs.v (closed by [exact]).
   Headers are ASCII byte lists (Go's Unicode TrimSpace/EqualFold behaviour on non-ASCII input is outside the model). *)
From Coq Require Import List Bool NArith.
From Mac Require Import Model.Base64 Model.Header Proofs.Base64Proofs Proofs.HeaderProofs.
Import ListNotations.
Local Open Scope N_scope.

Theorem b64_dec_enc :
    forall bs : list N, wfb bs -> b64_decode (b64_encode bs) = Some bs.
Proof. exact (@b64_dec_enc_l). Qed.

Theorem b64_char_alphabet :
    forall v : N,
    v < 64 ->
    let c := b64_char v in
    is_nl c = false /\ c <> pad_char /\ c <> 44 /\ c <> 95 /\ c <> 32 /\ ~ 9 <= c <= 13.
Proof. exact (@b64_char_alphabet_l). Qed.

Theorem b64_encode_chars :
    forall (bs : list N) (c : N),
    wfb bs -> In c (b64_encode bs) -> c = pad_char \/ (exists v : N, v < 64 /\ c = b64_char v).
Proof. exact (@b64_encode_chars_l). Qed.

Theorem parse_is_a_function :
    forall (hdr : str) (r1 r2 : option (list bytes)), parse hdr = r1 -> parse hdr = r2 -> r1 = r2.
Proof. exact (@parse_total_deterministic). Qed.

Theorem parse_toks_spec :
    forall (parts : list str) (l : list bytes),
    parse_toks parts = Some l <->
    (forall p : str, In p parts -> part_ok p <> None) /\ l = flat_map part_toks parts.
Proof. exact (@parse_toks_spec_l). Qed.

Theorem part_ok_no_under :
    forall p : str, cut c_under p = None -> part_ok p = None.
Proof. exact (@part_ok_no_under_l). Qed.

Theorem part_ok_mac :
    forall p pfx b64 : str,
    cut c_under p = Some (pfx, b64) ->
    is_mac_label pfx = true ->
    part_ok p = match b64_decode b64 with
    | Some ((_ :: _) as raw) => Some (Some raw)
    | _ => None
    end.
Proof. exact (@part_ok_mac_l). Qed.

Theorem part_ok_fo1 :
    forall p pfx b64 : str, cut c_under p = Some (pfx, b64) -> pfx = l_fo1 -> part_ok p = Some None.
Proof. exact (@part_ok_fo1_l). Qed.

Theorem part_ok_other :
    forall p pfx b64 : str,
    cut c_under p = Some (pfx, b64) ->
    is_mac_label pfx = false -> str_eqb pfx l_fo1 = false -> part_ok p = None.
Proof. exact (@part_ok_other_l). Qed.

Theorem parse_error_classes :
    forall hdr : str,
    parse hdr = None <->
    (exists p : str, In p (hdr_parts hdr) /\ part_ok p = None) \/
    (forall p : str, In p (hdr_parts hdr) -> part_ok p = Some None).
Proof. exact (@parse_error_classes_l). Qed.

Theorem parse_no_tokens :
    forall hdr : str, (forall p : str, In p (hdr_parts hdr) -> part_ok p = Some None) -> parse hdr = None.
Proof. exact (@parse_no_tokens_l). Qed.

Theorem parse_encode_labels :
    forall (labels : list str) (toks : list bytes),
    toks <> [] ->
    length labels = length toks ->
    Forall mac_label labels ->
    Forall tok_ok toks -> parse_toks (split c_comma (encode_labelled (combine labels toks))) = Some toks.
Proof. exact (@parse_encode_labels_l). Qed.

Theorem strip_decorated :
    forall body h : str,
    decorated body h ->
    body <> [] -> Forall (fun c : N => is_space c = false) body -> fst (strip h) = body.
Proof. exact (@strip_decorated_l). Qed.

Theorem parse_format_roundtrip :
    forall (toks : list bytes) (h : str),
    toks <> [] -> Forall tok_ok toks -> decorated (encode_tokens toks) h -> parse h = Some toks.
Proof. exact (@parse_format_roundtrip_l). Qed.

Theorem parse_to_header :
    forall toks : list bytes, toks <> [] -> Forall tok_ok toks -> parse (to_header toks) = Some toks.
Proof. exact (@parse_to_header_l). Qed.

Theorem find_perm_dis_spec :
    forall (T : Type) (decode : bytes -> option T) (loc_eqb : T -> bool) (toks : list bytes),
    find_perm_dis decode loc_eqb toks =
    (filter (fun t : bytes => match decode t with
    | Some m => loc_eqb m
    | None => false
    end) toks,
    filter (fun t : bytes => match decode t with
    | Some m => negb (loc_eqb m)
    | None => false
    end) toks).
Proof. exact (@find_perm_dis_spec_l). Qed.

Theorem bundle_tokeniser_agrees :
    forall (hdr : str) (toks : list bytes),
    parse hdr = Some toks ->
    toks =
    flat_map (fun p : ptok => match p with
    | PRaw _ raw => [raw]
    | _ => []
    end)
    (filter (fun p : ptok => match p with
    | PNonMacaroon _ => false
    | _ => true
    end) (bundle_parts hdr)).
Proof. exact (@bundle_tokeniser_agrees_l). Qed.

Theorem bundle_no_bad_base64 :
    forall (hdr : str) (toks : list bytes) (s : str),
    parse hdr = Some toks -> ~ In (PBadBase64 s) (bundle_parts hdr).
Proof. exact (@bundle_no_bad_base64_l). Qed.

Theorem perm_and_dis_spec :
    forall (T : Type) (decode : bytes -> option T) (loc_eqb : T -> bool) (toks : list bytes)
      (p : bytes) (ds : list bytes),
    perm_and_dis decode loc_eqb toks = Some (p, ds) ->
    filter (fun t : bytes => match decode t with
                             | Some m => loc_eqb m
                             | None => false
                             end) toks = [p] /\
    ds =
    filter (fun t : bytes => match decode t with
                             | Some m => negb (loc_eqb m)
                             | None => false
                             end) toks /\
    In p toks /\ (exists m : T, decode p = Some m /\ loc_eqb m = true).
Proof. exact (@perm_and_dis_spec_l). Qed.

Theorem perm_and_dis_none :
    forall (T : Type) (decode : bytes -> option T) (loc_eqb : T -> bool) (toks : list bytes),
    List.length (filter (fun t : bytes => match decode t with
                                          | Some m => loc_eqb m
                                          | None => false
                                          end) toks) <> 1%nat -> perm_and_dis decode loc_eqb toks = None.
Proof. exact (@perm_and_dis_none_l). Qed.

Print Assumptions b64_dec_enc.
Print Assumptions b64_char_alphabet.
Print Assumptions b64_encode_chars.
Print Assumptions parse_is_a_function.
Print Assumptions parse_toks_spec.
Print Assumptions part_ok_no_under.
Print Assumptions part_ok_mac.
Print Assumptions part_ok_fo1.
Print Assumptions part_ok_other.
Print Assumptions parse_error_classes.
Print Assumptions parse_no_tokens.
Print Assumptions parse_encode_labels.
Print Assumptions strip_decorated.
Print Assumptions parse_format_roundtrip.
Print Assumptions parse_to_header.
Print Assumptions find_perm_dis_spec.
Print Assumptions bundle_tokeniser_agrees.
Print Assumptions bundle_no_bad_base64.
Print Assumptions perm_and_dis_spec.
Print Assumptions perm_and_dis_none.
