(* C04 - A third-party caveat is satisfied only by its own discharge.
   Statements restated from the Proofs/ files named in the imports (closed by [exact]).
   Symbolic model: HMAC, SHA-256, truncation and AEAD are free constructors; random values are fresh atoms. *)
From Coq Require Import List Bool NArith.
From Mac Require Import Model.Sym Proofs.SymBasics Proofs.ThirdParty.
Import ListNotations.

Theorem tp_needs_own_discharge :
    forall (k : term) (t : token) (ds : list token) (tr : trusted_map) (S : list dcav) 
    (i : nat) (l : N) (vk tk : term),
    verify k t ds tr = Some S ->
    nth_error (t_cavs t) i = Some (P3P l vk tk) ->
    exists (r : N) (dk : term) (d : token) (Sd : list dcav),
    vk = TSeal (chain k (t_nonce t) (firstn i (t_cavs t))) r dk /\
    In d ds /\
    n_kid (t_nonce d) = tk /\
    trust_check (keys_for tr (t_loc d)) tk dk <> TSkip /\
    verify_flat dk d (tok_bids k t) (cand_trust true tr d dk) = Some Sd /\
    t_tail d = fin_if (n_proof (t_nonce d)) (chain dk (t_nonce d) (t_cavs d)) /\
    (forall (l' : N) (vk' tk' : term), ~ In (P3P l' vk' tk') (t_cavs d)) /\
    (forall x : dcav, In x Sd -> In x S).
Proof. exact (@tp_needs_own_discharge_strong). Qed.

Theorem discharge_key_unique :
    forall (dk dk' : term) (d : token) (b b' : list term) (ta ta' : bool) (S S' : list dcav),
    verify_flat dk d b ta = Some S -> verify_flat dk' d b' ta' = Some S' -> dk = dk'.
Proof. exact (@discharge_key_unique_l). Qed.

Theorem nested_discharge_rejected :
    forall (dk : term) (d : token) (b : list term) (ta : bool) (l : N) (vk tk : term),
    In (P3P l vk tk) (t_cavs d) -> verify_flat dk d b ta = None.
Proof. exact (@nested_discharge_rejected_l). Qed.

Theorem no_candidate_rejected :
    forall (k : term) (t : token) (ds : list token) (tr : trusted_map) (l : N) (vk tk : term),
    In (P3P l vk tk) (t_cavs t) -> cands_for ds tk = [] -> verify k t ds tr = None.
Proof. exact (@no_candidate_rejected_l). Qed.

Theorem extra_discharge_irrelevant :
    forall (k : term) (t : token) (ds1 ds2 : list token) (tr : trusted_map) (e : token),
    useless k t tr e -> verify k t (ds1 ++ e :: ds2) tr = verify k t (ds1 ++ ds2) tr.
Proof. exact (@extra_discharge_irrelevant_l). Qed.

Theorem useless_foreign :
    forall (k : term) (t : token) (tr : trusted_map) (e : token),
    ~ In (n_kid (t_nonce e)) (tickets (t_cavs t)) -> useless k t tr e.
Proof. exact (@useless_foreign). Qed.

Theorem useless_nested :
    forall (k : term) (t : token) (tr : trusted_map) (e : token) (l : N) (vk tk : term),
    In (P3P l vk tk) (t_cavs e) -> useless k t tr e.
Proof. exact (@useless_nested). Qed.

Theorem useless_bad_tail :
    forall (k : term) (t : token) (tr : trusted_map) (e : token),
    (forall (pl : list (term * term)) (tk dk : term),
    tok_pend k t = Some pl ->
    In (tk, dk) pl ->
    n_kid (t_nonce e) = tk -> t_tail e <> fin_if (n_proof (t_nonce e)) (chain dk (t_nonce e) (t_cavs e))) ->
    useless k t tr e.
Proof. exact (@useless_bad_tail). Qed.

Theorem duplicate_discharge_irrelevant :
    forall (k : term) (t : token) (ds1 ds2 ds3 : list token) (tr : trusted_map) (d : token),
    verify k t (ds1 ++ d :: ds2 ++ d :: ds3) tr = verify k t (ds1 ++ d :: ds2 ++ ds3) tr.
Proof. exact (@duplicate_discharge_irrelevant_l). Qed.

Theorem try_cands_first :
    forall (d : token) (rest : list token) (dk : term) (bids : list term) (tr : trusted_map)
    (S : list dcav),
    trust_check (keys_for tr (t_loc d)) (n_kid (t_nonce d)) dk <> TSkip ->
    verify_flat dk d bids (cand_trust true tr d dk) = Some S ->
    try_cands (d :: rest) dk bids true tr = Some S.
Proof. exact (@try_cands_first_l). Qed.

Theorem try_cands_skip :
    forall (d : token) (rest : list token) (dk : term) (bids : list term) (ta : bool) (tr : trusted_map),
    trust_check (keys_for tr (t_loc d)) (n_kid (t_nonce d)) dk = TSkip \/
    verify_flat dk d bids (cand_trust ta tr d dk) = None ->
    try_cands (d :: rest) dk bids ta tr = try_cands rest dk bids ta tr.
Proof. exact (@try_cands_skip_l). Qed.

Theorem ticket_roundtrip :
    forall (ka : term) (loc r : N) (dk : term) (cavs : list dcav) (proof : bool) (rnd : term),
    discharge_ticket ka loc (TSeal ka r (TTicket dk cavs)) proof rnd =
    Some (cavs, mint dk (TSeal ka r (TTicket dk cavs)) loc proof 1 rnd).
Proof. exact (@ticket_roundtrip_l). Qed.

Theorem ticket_wrong_key :
    forall (ka ka' : term) (loc r : N) (pt : term) (proof : bool) (rnd : term),
    ka <> ka' -> discharge_ticket ka' loc (TSeal ka r pt) proof rnd = None.
Proof. exact (@ticket_wrong_key_l). Qed.

Theorem ticket_shape :
    forall (ka : term) (loc : N) (tk : term) (proof : bool) (rnd : term) (cs : list dcav) (d : token),
    discharge_ticket ka loc tk proof rnd = Some (cs, d) ->
    exists (r : N) (dk : term), tk = TSeal ka r (TTicket dk cs) /\ d = mint dk tk loc proof 1 rnd.
Proof. exact (@ticket_shape_l). Qed.

Theorem seal_fresh :
    forall (k : term) (r r' : N) (pt : term), r <> r' -> TSeal k r pt <> TSeal k r' pt.
Proof. exact (@seal_fresh_l). Qed.

Print Assumptions tp_needs_own_discharge.
Print Assumptions discharge_key_unique.
Print Assumptions nested_discharge_rejected.
Print Assumptions no_candidate_rejected.
Print Assumptions extra_discharge_irrelevant.
Print Assumptions useless_foreign.
Print Assumptions useless_nested.
Print Assumptions useless_bad_tail.
Print Assumptions duplicate_discharge_irrelevant.
Print Assumptions try_cands_first.
Print Assumptions try_cands_skip.
Print Assumptions ticket_roundtrip.
Print Assumptions ticket_wrong_key.
Print Assumptions ticket_shape.
Print Assumptions seal_fresh.
