(* C14 - The verification cache is transparent.
   Statements restated from Proofs/CacheProofs.v (closed by [exact]).  D is the set of (bundle, permission token)
   queries a run makes; vt_key_sound D vt says the direct verifier answers equal cache keys (same token, same SET of
   matching discharges) equally - what C04 proves up to the order of two different valid discharges for one ticket
   (known finding F7b); run_transparent_check discharges it per scenario by computation. *)
From Coq Require Import List Bool NArith ZArith.
From Mac Require Import Model.BundleM Model.BundleOps Proofs.CacheProofs.
Import ListNotations.

Theorem cverify_transparent_on_thm :
    forall (D : qdom) (vt : vtable) (b : bundle) (c : cache) (ts' : list tok) (c' : cache) (lg : list N),
    vt_key_sound D vt ->
    cache_ok_on D vt c ->
    perms_in D b ->
    cverify_list vt b (b_ts b) c = (ts', c', lg) ->
    ts' = map (verify_tok vt b) (b_ts b) /\ cache_ok_on D vt c'.
Proof. exact (@cverify_transparent_on). Qed.

Theorem run_transparent_on_thm :
    forall (D : qdom) (T : tables) (ops : list bop),
    vt_key_sound D (t_v T) ->
    brun_all step_has_cache T {| bs := []; cs_ := [] |} ops ->
    brun_all (step_in D) T {| bs := []; cs_ := [] |} ops ->
    map2 proj ops (run_bundle T ops) = run_bundle T (map erase ops).
Proof. exact (@run_transparent_on). Qed.

Theorem run_transparent_queried_thm :
    forall (T : tables) (ops : list bop),
    declared [] ops = true ->
    vt_key_sound (queried T ops) (t_v T) ->
    map2 proj ops (run_bundle T ops) = run_bundle T (map erase ops).
Proof. exact (@run_transparent_queried). Qed.

Theorem run_transparent_matching_thm :
    forall (T : tables) (ops : list bop),
    declared [] ops = true ->
    id_det (queried T ops) ->
    vt_matching_only_on (queried T ops) (t_v T) ->
    map2 proj ops (run_bundle T ops) = run_bundle T (map erase ops).
Proof. exact (@run_transparent_matching). Qed.

Theorem run_transparent_check_thm :
    forall (T : tables) (ops : list bop),
    declared [] ops = true ->
    key_sound_list (t_v T) (queries T ops) = true ->
    map2 proj ops (run_bundle T ops) = run_bundle T (map erase ops).
Proof. exact (@run_transparent_check). Qed.

Theorem key_sound_of_matching_only :
    forall (D : qdom) (vt : vtable), id_det D -> vt_matching_only_on D vt -> vt_key_sound D vt.
Proof. exact (@key_sound_of_matching_only). Qed.

Theorem cache_ok_on_empty :
    forall (D : qdom) (vt : vtable) (cap : nat) (live : bool),
    cache_ok_on D vt {| c_cap := cap; c_live := live; c_entries := [] |}.
Proof. exact (@cache_ok_on_empty). Qed.

Theorem cache_get_ok_on :
    forall (D : qdom) (vt : vtable) (c : cache) (k : list N) (c' : cache) (h : option N),
    cache_ok_on D vt c ->
    cache_get c k = (c', h) ->
    cache_ok_on D vt c' /\
    (forall (b : bundle) (m : mac) (cs : N),
    D b m -> k = cache_key b m -> h = Some cs -> vlookup vt (m_id m) (all_dis_ids b) = VRes (Some cs)).
Proof. exact (@cache_get_ok_on). Qed.

Theorem cache_add_ok_on :
    forall (D : qdom) (vt : vtable) (c : cache) (b : bundle) (m : mac) (cs : N),
    vt_key_sound D vt ->
    D b m ->
    cache_ok_on D vt c ->
    vlookup vt (m_id m) (all_dis_ids b) = VRes (Some cs) ->
    cache_ok_on D vt (cache_add c (cache_key b m) cs).
Proof. exact (@cache_add_ok_on). Qed.

Theorem hit_only_identical :
    forall (c : cache) (k : list N) (c' : cache) (cs : N),
    cache_get c k = (c', Some cs) ->
    exists e : centry, In e (c_entries c) /\ ce_key e = k /\ ce_cs e = cs /\ c_live c = true.
Proof. exact (@hit_only_identical_l). Qed.

Theorem cache_key_inj :
    forall (b : bundle) (m : mac) (b' : bundle) (m' : mac),
    cache_key b m = cache_key b' m' ->
    m_id m = m_id m' /\ sort_ids (matching b m) = sort_ids (matching b' m').
Proof. exact (@cache_key_inj_l). Qed.

Theorem expired_not_used :
    forall (c : cache) (k : list N), c_live c = false -> snd (cache_get c k) = None.
Proof. exact (@expired_not_used_l). Qed.

Theorem failures_not_cached :
    forall (vt : vtable) (b : bundle) (t : tok) (hit : option N) (r : list (tok * option N)) (c : cache),
    (forall (m : mac) (cs : N), verify_tok vt b t <> TVer m cs) ->
    snd (fst (cfill vt b ((t, hit) :: r) c)) = snd (fst (cfill vt b r c)).
Proof. exact (@failures_not_cached_l). Qed.

Theorem cfill_entries :
    forall (vt : vtable) (b : bundle) (l : list (tok * option N)) (c : cache) 
    (ts' : list tok) (c' : cache) (lg : list N),
    cfill vt b l c = (ts', c', lg) ->
    forall e : centry,
    In e (c_entries c') ->
    In e (c_entries c) \/
    (exists (t : tok) (m : mac),
    In (t, None) l /\
    is_perm (b_loc b) t = true /\
    tok_mac t = Some m /\ verify_tok vt b t = TVer m (ce_cs e) /\ ce_key e = cache_key b m).
Proof. exact (@cfill_entries_l). Qed.

Theorem cap_respected :
    forall (c : cache) (k : list N) (cs : N), length (c_entries (cache_add c k cs)) <= c_cap c.
Proof. exact (@cap_respected_l). Qed.

Theorem cache_get_no_grow :
    forall (c : cache) (k : list N),
    length (c_entries (fst (cache_get c k))) <= length (c_entries c) /\
    c_cap (fst (cache_get c k)) = c_cap c.
Proof. exact (@cache_get_no_grow_l). Qed.

Theorem literal_hypothesis_is_vacuous :
    forall vt : vtable, vt_matching_only vt <-> vt = [].
Proof. exact (@vt_matching_only_iff_nil). Qed.

Theorem run_transparent_needs_declared_caches :
    let T := {| t_v := []; t_c := []; t_a := []; t_cs := [] |} in
    let ops :=
    [BParseAll 0 [TUnv {| m_id := 1; m_loc := 0; m_kid := 0; m_tickets := [] |}]; BVerifyCached 0 7] in
    vt_matching_only (t_v T) /\
    map2 proj ops (run_bundle T ops) = [[1%Z]; []] /\ run_bundle T (map erase ops) = [[1%Z]; [0%Z]].
Proof. exact (@run_transparent_l_false). Qed.

Theorem run_transparent_nonvacuous :
    let p := {| m_id := 1; m_loc := 0; m_kid := 0; m_tickets := [(1%N, 7%N)] |} in
    let d := {| m_id := 10; m_loc := 1; m_kid := 7; m_tickets := [] |} in
    let T := {| t_v := [(1%N, [10%N], Some 5%N); (1%N, [], None)]; t_c := []; t_a := []; t_cs := [] |} in
    let ops :=
    [BParseAll 0 [TUnv p; TUnv d]; BParseAll 1 [TUnv p]; CNew 0 true 4; BVerifyCached 0 0;
    BVerifyCached 1 0; BVerifyCached 0 0; BHeader 0; BHeader 1] in
    declared [] ops = true /\
    key_sound_list (t_v T) (queries T ops) = true /\
    ~ vt_matching_only (t_v T) /\
    run_bundle T ops =
    [[1%Z]; [1%Z]; []; [1%Z; 5%Z; 1%Z; 1%Z]; [0%Z; 1%Z; 1%Z]; [1%Z; 5%Z; 0%Z]; [
    2%Z; 1%Z; 10%Z]; [1%Z; 1%Z]] /\ map2 proj ops (run_bundle T ops) = run_bundle T (map erase ops).
Proof. exact (@run_transparent_nonvacuous). Qed.

Print Assumptions cverify_transparent_on_thm.
Print Assumptions run_transparent_on_thm.
Print Assumptions run_transparent_queried_thm.
Print Assumptions run_transparent_matching_thm.
Print Assumptions run_transparent_check_thm.
Print Assumptions key_sound_of_matching_only.
Print Assumptions cache_ok_on_empty.
Print Assumptions cache_get_ok_on.
Print Assumptions cache_add_ok_on.
Print Assumptions hit_only_identical.
Print Assumptions cache_key_inj.
Print Assumptions expired_not_used.
Print Assumptions failures_not_cached.
Print Assumptions cfill_entries.
Print Assumptions cap_respected.
Print Assumptions cache_get_no_grow.
Print Assumptions literal_hypothesis_is_vacuous.
Print Assumptions run_transparent_needs_declared_caches.
Print Assumptions run_transparent_nonvacuous.
