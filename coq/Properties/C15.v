(* C15 - Bundles are safe for concurrent use.
   Generic theorems about Go's writer-preferring RWMutex (Proofs/RWLockProofs.v) and their instance for the lock
   programs translated from /repo/bundle on this run (Generated/LockProgs.v, Proofs/LockProgsFlat.v). *)
From Coq Require Import List Bool String.
From Mac Require Import Model.RWLock Generated.LockProgs Proofs.RWLockProofs Proofs.LockProgsFlat.
Import ListNotations.

Theorem lockprogs_flat :
    all_flat lockprogs = true.
Proof. exact (@lockprogs_flat_l). Qed.

Theorem derived_share_lock :
    derived_share_lock bundle_literals = true.
Proof. exact (@derived_share_lock_l). Qed.

Theorem bundle_ops_safe :
    forall (threads : list (list prog)) (s : sys),
    (forall calls : list prog, In calls threads -> forall c : prog, In c calls -> In c all_paths) ->
    steps (init_sys (map thread_prog threads)) s ->
    linv s /\
    (~ final s -> exists s' : sys, step s s') /\
    (forall (pre : list thread) (t : thread) (post : list thread),
    s = pre ++ t :: post ->
    (next_access t = Some true -> forall u : thread, In u (pre ++ post) -> next_access u = None) /\
    (next_access t = Some false -> forall u : thread, In u (pre ++ post) -> next_access u <> Some true)) /\
    (exists (n : nat) (s' : sys), n <= measure s /\ nsteps n s s' /\ final s').
Proof. exact (@bundle_ops_safe_l). Qed.

Theorem flat_safe_generic :
    forall (ps : list prog) (s : sys),
    Forall (fun p : prog => flat_out p = true) ps ->
    steps (init_sys ps) s -> linv s /\ (~ final s -> exists s' : sys, step s s').
Proof. exact (@flat_safe). Qed.

Theorem writer_exclusion_generic :
    forall (ps : list prog) (s : sys),
    Forall (fun p : prog => flat_out p = true) ps ->
    steps (init_sys ps) s ->
    forall (pre : list thread) (t : thread) (post : list thread),
    s = pre ++ t :: post ->
    holdsW t = true -> forall u : thread, In u (pre ++ post) -> holdsW u = false /\ holdsR u = false.
Proof. exact (@writer_exclusion). Qed.

Theorem race_free_generic :
    forall (ps : list prog) (s : sys),
    Forall (fun p : prog => flat_out p = true) ps ->
    steps (init_sys ps) s ->
    forall (pre : list thread) (t : thread) (post : list thread),
    s = pre ++ t :: post ->
    (next_access t = Some true -> forall u : thread, In u (pre ++ post) -> next_access u = None) /\
    (next_access t = Some false -> forall u : thread, In u (pre ++ post) -> next_access u <> Some true).
Proof. exact (@race_free). Qed.

Theorem w_section_atomic_generic :
    forall (ps : list prog) (s s' : sys),
    Forall (fun p : prog => flat_out p = true) ps ->
    steps (init_sys ps) s ->
    anyW s = true ->
    step s s' ->
    exists (pre : list thread) (t t' : thread) (post : list thread),
    s = pre ++ t :: post /\
    s' = pre ++ t' :: post /\
    tstep s t t' /\ holdsW t = true /\ (forall u : thread, In u (pre ++ post) -> held u = []).
Proof. exact (@w_section_atomic). Qed.

Theorem progress_generic :
    forall s : sys, (forall t : thread, In t s -> twf t) -> ~ final s -> exists s' : sys, step s s'.
Proof. exact (@progress). Qed.

Theorem every_run_terminates_generic :
    forall (n : nat) (s s' : sys), nsteps n s s' -> n <= measure s.
Proof. exact (@every_run_terminates). Qed.

Theorem flat_completes_generic :
    forall (ps : list prog) (s : sys),
    Forall (fun p : prog => flat_out p = true) ps ->
    steps (init_sys ps) s -> exists (n : nat) (s' : sys), n <= measure s /\ nsteps n s s' /\ final s'.
Proof. exact (@flat_completes). Qed.

Theorem flat_out_app_generic :
    forall p q : prog, flat_out p = true -> flat_out q = true -> flat_out (p ++ q) = true.
Proof. exact (@flat_out_app). Qed.

Theorem nested_rlock_deadlocks_legacy :
    exists s : sys,
    steps (init_sys [legacy_nested_read; a_writer]) s /\ ~ final s /\ (forall s' : sys, ~ step s s').
Proof. exact (@nested_rlock_deadlocks). Qed.

Theorem legacy_not_flat_thm :
    flat_out legacy_nested_read = false.
Proof. exact (@legacy_not_flat). Qed.

Theorem lockprogs_single_section :
    all_single_section lockprogs = true.
Proof. exact (@lockprogs_single_section_l). Qed.

Theorem single_section_shape :
    forall p : prog,
    flat_out p = true -> count_acq p <= 1 ->
    p = [] \/
    (exists (m : mode) (body : list instr),
       p = Acq m :: body ++ [Rel m] /\ Forall (fun i : instr => i = Rd \/ i = Wr) body /\
       (m = R -> Forall (fun i : instr => i = Rd) body)).
Proof. exact (@single_section_shape_l). Qed.

Theorem bundle_ops_atomic :
    forall (name : string) (paths : list prog) (p : prog),
    In (name, paths) lockprogs -> In p paths ->
    p = [] \/
    (exists (m : mode) (body : list instr),
       p = Acq m :: body ++ [Rel m] /\ Forall (fun i : instr => i = Rd \/ i = Wr) body /\
       (m = R -> Forall (fun i : instr => i = Rd) body)).
Proof. exact (@bundle_ops_atomic_l). Qed.

Print Assumptions lockprogs_flat.
Print Assumptions derived_share_lock.
Print Assumptions bundle_ops_safe.
Print Assumptions flat_safe_generic.
Print Assumptions writer_exclusion_generic.
Print Assumptions race_free_generic.
Print Assumptions w_section_atomic_generic.
Print Assumptions progress_generic.
Print Assumptions every_run_terminates_generic.
Print Assumptions flat_completes_generic.
Print Assumptions flat_out_app_generic.
Print Assumptions nested_rlock_deadlocks_legacy.
Print Assumptions legacy_not_flat_thm.
Print Assumptions lockprogs_single_section.
Print Assumptions single_section_shape.
Print Assumptions bundle_ops_atomic.
