(* C08 - Proof tokens are final once encoded.
   Statements restated from the Proofs/ files named in the imports (closed by [exact]).
   Symbolic model: HMAC, SHA-256, truncation and AEAD are free constructors; random values are fresh atoms. *)
From Coq Require Import List Bool NArith.
From Mac Require Import Model.Sym Proofs.SymBasics Proofs.ProofFinal.
Import ListNotations.

Theorem add_refused_when_final :
    forall (t : token) (l : list addcav),
    n_proof (t_nonce t) = true -> t_newproof t = false -> add t l = (t, false).
Proof. exact (@add_refused_when_final_l). Qed.

Theorem add_refused_decoded :
    forall (t : token) (l : list addcav),
    n_proof (t_nonce t) = true -> add (decode t) l = (decode t, false).
Proof. exact (@add_refused_decoded_l). Qed.

Theorem encode_spec :
    forall t : token,
    (n_proof (t_nonce t) && t_newproof t = true ->
    encode t =
    {|
    t_nonce := t_nonce t;
    t_loc := t_loc t;
    t_cavs := t_cavs t;
    t_tail := TFin (t_tail t);
    t_newproof := false
    |}) /\ (n_proof (t_nonce t) && t_newproof t = false -> encode t = t).
Proof. exact (@encode_spec_l). Qed.

Theorem encode_idempotent :
    forall t : token, encode (encode t) = encode t.
Proof. exact (@encode_idempotent_l). Qed.

Theorem unfinalised_unverifiable :
    forall (k : term) (t : token) (ds : list token) (tr : trusted_map) (pb : list term) (ta : bool),
    n_proof (t_nonce t) = true ->
    t_newproof t = true -> verify k t ds tr = None /\ verify_flat k t pb ta = None.
Proof. exact (@unfinalised_unverifiable_l). Qed.

Theorem pending_or_finalised :
    forall (dk : term) (t0 : token) (ops : list pop),
    n_proof (t_nonce t0) = true ->
    pending dk t0 -> let t := prun t0 ops in (pending dk t \/ finalised dk t) /\ t_nonce t = t_nonce t0.
Proof. exact (@pending_or_finalised_l). Qed.

Theorem finalised_is_frozen_strong :
    forall (dk : term) (t : token) (ops : list pop),
    n_proof (t_nonce t) = true -> finalised dk t -> prun t ops = t.
Proof. exact (@finalised_is_frozen_strong_l). Qed.

Theorem finalised_fields_frozen :
    forall (dk : term) (t : token) (ops : list pop),
    n_proof (t_nonce t) = true ->
    finalised dk t ->
    t_tail (prun t ops) = t_tail t /\ t_cavs (prun t ops) = t_cavs t /\ t_nonce (prun t ops) = t_nonce t.
Proof. exact (@finalised_fields_frozen_l). Qed.

Theorem finalise_exactly_once :
    forall (dk : term) (t0 : token) (ops : list pop),
    n_proof (t_nonce t0) = true ->
    pending dk t0 ->
    let t := prun t0 ops in
    (forall x : term, t_tail t <> TFin (TFin x)) /\
    fin_depth (t_tail t) = (if t_newproof t then 0 else 1) /\
    (t_newproof t = false -> t_tail t = TFin (chain dk (t_nonce t0) (t_cavs t))) /\
    ((exists o : pop, In o ops /\ is_add o = false) ->
    finalised dk t /\ t_tail t = TFin (chain dk (t_nonce t0) (t_cavs t))).
Proof. exact (@finalise_exactly_once_l). Qed.

Theorem derived_not_chain :
    forall (dk : term) (n : nonce) (cs : list pcav) (y : term) (n' : nonce) (cs' : list pcav),
    derived (chain dk n cs) y -> y <> chain dk n' cs'.
Proof. exact (@derived_not_chain_l). Qed.

Theorem derived_tail_accepted_only_original :
    forall (dk : term) (n : nonce) (cs : list pcav) (e : token) (ds : list token) 
    (tr : trusted_map) (S : list dcav),
    derived (chain dk n cs) (t_tail e) ->
    verify dk e ds tr = Some S ->
    n_proof (t_nonce e) = true /\ t_nonce e = n /\ t_cavs e = cs /\ t_tail e = TFin (chain dk n cs).
Proof. exact (@derived_tail_accepted_only_original_l). Qed.

Theorem hand_extension_rejected :
    forall (dk : term) (p e : token) (extra : list pcav) (pb : list term) (ta : bool),
    finalised dk p ->
    n_proof (t_nonce p) = true ->
    t_nonce e = t_nonce p ->
    t_cavs e = t_cavs p ++ extra ->
    extra <> [] -> derived (chain dk (t_nonce p) (t_cavs p)) (t_tail e) -> verify_flat dk e pb ta = None.
Proof. exact (@hand_extension_rejected_l). Qed.

Theorem hand_extension_rejected_verify :
    forall (dk : term) (p e : token) (extra : list pcav) (ds : list token) (tr : trusted_map),
    t_cavs e = t_cavs p ++ extra ->
    extra <> [] -> derived (chain dk (t_nonce p) (t_cavs p)) (t_tail e) -> verify dk e ds tr = None.
Proof. exact (@hand_extension_rejected_verify_l). Qed.

Theorem hand_mac_on_final_rejected :
    forall (dk : term) (n : nonce) (cs : list pcav) (c : pcav) (e : token) (pb : list term) 
    (ta : bool) (ds : list token) (tr : trusted_map),
    t_tail e = TMac (TFin (chain dk n cs)) (MCav c) ->
    verify_flat dk e pb ta = None /\ verify dk e ds tr = None.
Proof. exact (@hand_mac_on_final_rejected_l). Qed.

Theorem hand_refinalised_mac_rejected :
    forall (dk : term) (n : nonce) (cs : list pcav) (c : pcav) (e : token) (pb : list term) 
    (ta : bool) (ds : list token) (tr : trusted_map),
    t_tail e = TFin (TMac (TFin (chain dk n cs)) (MCav c)) ->
    verify_flat dk e pb ta = None /\ verify dk e ds tr = None.
Proof. exact (@hand_refinalised_mac_rejected_l). Qed.

Print Assumptions add_refused_when_final.
Print Assumptions add_refused_decoded.
Print Assumptions encode_spec.
Print Assumptions encode_idempotent.
Print Assumptions unfinalised_unverifiable.
Print Assumptions pending_or_finalised.
Print Assumptions finalised_is_frozen_strong.
Print Assumptions finalised_fields_frozen.
Print Assumptions finalise_exactly_once.
Print Assumptions derived_not_chain.
Print Assumptions derived_tail_accepted_only_original.
Print Assumptions hand_extension_rejected.
Print Assumptions hand_extension_rejected_verify.
Print Assumptions hand_mac_on_final_rejected.
Print Assumptions hand_refinalised_mac_rejected.
