(* C11 - Wire encoding is canonical, stable, and what is signed is what is cleared.
   Statements restated from Proofs/CodecProofs.v and Proofs/CodecProofs2.v (closed by [exact]).
   Statements about the typed lenient decoder restated from Proofs/TypedDecProofs.v.
   The typed lenient decoding is modelled for the scalar-bodied caveat types in Model.TypedDec and for all other types,
   unregistered caveats and whole sets in Model.TypedDec2 (statements restated from Proofs/TypedDec2*.v); see DESIGN.md
   section 0 for what the model's caveat type cannot represent (nil vs empty resource-set maps).  The token-level decoder
   (Macaroon struct and Nonce, array and map forms) is Model.TokenDec, statements restated from Proofs/TokenDecProofs.v at the end. *)
From Coq Require Import List Bool NArith ZArith String Permutation Sorted Decimal DecimalString.
From Mac Require Import Model.Err Model.Caveat Model.Access Model.Prohibits Model.Msgpack Model.Codec Proofs.CodecProofs Proofs.CodecProofs2 Proofs.JsonTypeProofs Generated.Facts.
Import ListNotations.
From Mac Require Import Model.TypedDec Proofs.TypedDecProofs.
From Mac Require Import Model.TypedDec2 Proofs.TypedDec2Proofs Proofs.TypedDec2Accept Proofs.TypedDec2Frames.

Theorem enc_rs_n_perm_invariant :
    forall l l' : list (N * N), Permutation l l' -> NoDup (map fst l) -> enc_rs_n l = enc_rs_n l'.
Proof. exact (@enc_rs_n_perm_invariant_l). Qed.

Theorem enc_rs_s_perm_invariant :
    forall l l' : list (string * N), Permutation l l' -> NoDup (map fst l) -> enc_rs_s l = enc_rs_s l'.
Proof. exact (@enc_rs_s_perm_invariant_l). Qed.

Theorem enc_body_rs_perm :
    (forall rs rs' : list (N * N),
    Permutation rs rs' -> NoDup (map fst rs) -> enc_body (CApps rs) = enc_body (CApps rs')) /\
    (forall rs rs' : list (string * N),
    Permutation rs rs' -> NoDup (map fst rs) -> enc_body (CVolumes rs) = enc_body (CVolumes rs')) /\
    (forall rs rs' : list (string * N),
    Permutation rs rs' -> NoDup (map fst rs) -> enc_body (CFeatureSet rs) = enc_body (CFeatureSet rs')) /\
    (forall rs rs' : list (string * N),
    Permutation rs rs' -> NoDup (map fst rs) -> enc_body (CMachines rs) = enc_body (CMachines rs')) /\
    (forall rs rs' : list (string * N),
    Permutation rs rs' ->
    NoDup (map fst rs) -> enc_body (CMachineFeatureSet rs) = enc_body (CMachineFeatureSet rs')) /\
    (forall rs rs' : list (string * N),
    Permutation rs rs' -> NoDup (map fst rs) -> enc_body (CClusters rs) = enc_body (CClusters rs')) /\
    (forall rs rs' : list (string * N),
    Permutation rs rs' ->
    NoDup (map fst rs) -> enc_body (CAppFeatureSet rs) = enc_body (CAppFeatureSet rs')) /\
    (forall rs rs' : list (string * N),
    Permutation rs rs' ->
    NoDup (map fst rs) -> enc_body (CStorageObjects rs) = enc_body (CStorageObjects rs')).
Proof. exact (@enc_body_rs_perm_l). Qed.

Theorem keys_written_ascending_n :
    forall l : list (N * N), NoDup (map fst l) -> StronglySorted N.lt (map fst (sort_rs_n l)).
Proof. exact (@sort_rs_n_sorted_strict). Qed.

Theorem keys_written_ascending_s :
    forall l : list (string * N), NoDup (map fst l) -> StronglySorted str_lt (map fst (sort_rs_s l)).
Proof. exact (@sort_rs_s_sorted_strict). Qed.

Theorem skip_enc_body :
    forall (c : cav) (b : bytes) (rest : list N),
    wf_cav c ->
    enc_body c = Some b ->
    forall f : nat, Datatypes.length (b ++ rest) <= f -> skip (S f) (b ++ rest) = Some rest.
Proof. exact (@skip_enc_body_l). Qed.

Theorem dec_frames_enc_set :
    forall (cs : list cav) (b : bytes),
    Forall wf_cav cs ->
    (N.of_nat (Datatypes.length cs) < 2 ^ 31)%N ->
    enc_set cs = Some b ->
    exists bodies : list bytes,
    Forall2 (fun (c : cav) (bd : bytes) => enc_body c = Some bd) cs bodies /\
    dec_frames b = Some (combine (map cav_type cs) bodies).
Proof. exact (@dec_frames_enc_set_l). Qed.

Theorem enc_one_frames :
    forall (c : cav) (b : bytes),
    wf_cav c ->
    enc_one c = Some b ->
    exists bd : bytes, enc_body c = Some bd /\ dec_frames b = Some [(cav_type c, bd)].
Proof. exact (@enc_one_frames_l). Qed.

Theorem unregistered_passthrough :
    forall (cs : list cav) (b : bytes) (i : nat) (ty : N) (body : Caveat.bytes),
    Forall wf_cav cs ->
    (N.of_nat (Datatypes.length cs) < 2 ^ 31)%N ->
    enc_set cs = Some b ->
    nth_error cs i = Some (CUnregistered ty body) ->
    exists fs : list (N * bytes), dec_frames b = Some fs /\ nth_error fs i = Some (ty, body).
Proof. exact (@unregistered_passthrough_l). Qed.

Theorem dec_uint_enc_uint :
    forall (n : N) (rest : list N), (n < 2 ^ 64)%N -> dec_uint (enc_uint n ++ rest) = Some (n, rest).
Proof. exact (@dec_uint_enc_uint). Qed.

Theorem skip_enc_uint :
    forall (f : nat) (n : N) (rest : list N),
    (n < 2 ^ 64)%N -> skip (S f) (enc_uint n ++ rest) = Some rest.
Proof. exact (@skip_enc_uint). Qed.

Theorem skip_enc_int :
    forall (f : nat) (z : Z) (rest : list N),
    (- 2 ^ 63 <= z < 2 ^ 63)%Z -> skip (S f) (enc_int z ++ rest) = Some rest.
Proof. exact (@skip_enc_int). Qed.

Theorem skip_enc_str :
    forall (f : nat) (s rest : list N),
    (N.of_nat (Datatypes.length s) < 2 ^ 32)%N -> skip (S f) (enc_str s ++ rest) = Some rest.
Proof. exact (@skip_enc_str). Qed.

Theorem skip_enc_bin :
    forall (f : nat) (s rest : list N),
    (N.of_nat (Datatypes.length s) < 2 ^ 32)%N -> skip (S f) (enc_bin s ++ rest) = Some rest.
Proof. exact (@skip_enc_bin). Qed.

Theorem json_rt_prohibits :
    forall (c c' : cav) (a : access),
    json_rt c = Some c' -> small_action a -> prohibits c' a = prohibits c a.
Proof. exact (@json_rt_prohibits_l). Qed.

Theorem json_rt_type :
    forall c c' : cav,
    json_rt c = Some c' -> cav_type c' = cav_type c /\ is_attestation c' = is_attestation c.
Proof. exact (@json_rt_type_l). Qed.

Theorem json_rt_validate :
    forall (cs cs' : list cav) (accs : list access),
    json_set_rt cs = Some cs' -> Forall small_action accs -> validate cs' accs = validate cs accs.
Proof. exact (@json_rt_validate_l). Qed.

Theorem json_rt_errors :
    forall c : cav, json_rt c = None <-> json_refuses c = true.
Proof. exact (@json_rt_errors_l). Qed.

Theorem json_rt_errors_depth :
    forall c : cav, json_rt c = None <-> (exists d : cav, In d (flat c) /\ leaf_refuses d = true).
Proof. exact (@json_rt_errors_depth_l). Qed.

Theorem leaf_refuses_spec :
    forall d : cav,
    leaf_refuses d = true <->
    (exists (ty : N) (body : Caveat.bytes), d = CUnregistered ty body) \/
    d = CBind None \/ d = CCommands None.
Proof. exact (@leaf_refuses_spec). Qed.

Theorem type_json_roundtrip :
    forall (reg : list (N * string)) (min_user unreg t : N),
    reg_ok reg = true -> (t < 2 ^ 64)%N ->
    type_from_json reg unreg (type_to_json reg min_user t) = t.
Proof. exact (@type_json_roundtrip_l). Qed.

Theorem facts_reg_ok : reg_ok all_reg = true.
Proof. exact (@facts_reg_ok_l). Qed.

Theorem type_json_roundtrip_facts :
    forall t : N, (t < 2 ^ 64)%N ->
    type_from_json all_reg f_cav_unregistered (type_to_json all_reg f_cav_min_user_defined t) = t.
Proof. exact (@type_json_roundtrip_facts_l). Qed.

Theorem type_from_json_numeric :
    forall (reg : list (N * string)) (unreg : N) (s : string) (t : N),
    find (fun e : N * string => String.eqb (snd e) s) reg = None ->
    type_from_json reg unreg s = t -> t <> unreg ->
    exists d : Decimal.uint, NilZero.uint_of_string s = Some d /\ N.of_uint d = t /\ (t < 2 ^ 64)%N.
Proof. exact (@type_from_json_numeric_l). Qed.

Theorem type_json_roundtrip_al :
    forall (reg : list (N * string)) (al : list (string * N)) (min_user unreg t : N),
    reg_ok reg = true ->
    aliases_ok reg al = true ->
    (t < 2 ^ 64)%N -> type_from_json_al reg al unreg (type_to_json reg min_user t) = t.
Proof. exact (@type_json_roundtrip_al_l). Qed.

Theorem aliases_ok_facts :
    aliases_ok all_reg json_aliases = true.
Proof. exact (@aliases_ok_facts_l). Qed.

Theorem type_json_roundtrip_al_facts :
    forall t : N,
    (t < 2 ^ 64)%N ->
    type_from_json_al all_reg json_aliases f_cav_unregistered
    (type_to_json all_reg f_cav_min_user_defined t) = t.
Proof. exact (@type_json_roundtrip_al_facts_l). Qed.

Theorem dec_body_enc_body :
    forall c : cav,
    scalar_cav c = true ->
    fits_cav c = true ->
    wf_cav c -> forall b : bytes, enc_body c = Some b -> dec_body (cav_type c) b = Some c.
Proof. exact (@dec_body_enc_body_l). Qed.

Theorem dec_body_enc_body_trunc :
    forall c : cav,
    scalar_cav c = true ->
    wf_cav c -> forall b : bytes, enc_body c = Some b -> dec_body (cav_type c) b = Some (trunc_cav c).
Proof. exact (@dec_body_enc_body_trunc_l). Qed.

Theorem dec_body_rest_enc_body :
    forall c : cav,
    scalar_cav c = true ->
    wf_cav c ->
    forall (b : bytes) (rest : list N),
    enc_body c = Some b -> dec_body_rest (cav_type c) (b ++ rest) = Some (trunc_cav c, rest).
Proof. exact (@dec_body_rest_enc_body_l). Qed.

Theorem dec_body_trailing :
    forall (ty : N) (b : bytes) (c : cav) (t : list N),
    dec_body ty b = Some c -> dec_body ty (b ++ t) = Some c.
Proof. exact (@dec_body_trailing_l). Qed.

Theorem dec_body_reenc :
    forall (ty : N) (b : bytes) (c : cav),
    byte_list b ->
    (N.of_nat (Datatypes.length b) < 2 ^ 29)%N ->
    dec_body ty b = Some c -> exists b' : bytes, enc_body c = Some b' /\ dec_body ty b' = Some c.
Proof. exact (@dec_body_reenc_l). Qed.

Theorem dec_body_rest_consumes :
    forall ty : N, consumes (dec_body_rest ty).
Proof. exact (@dec_body_rest_consumes_l). Qed.

Theorem dec_body_rest_wf :
    forall (ty : N) (b : bytes) (c : cav) (r : bytes),
    byte_list b ->
    (N.of_nat (Datatypes.length b) < 2 ^ 29)%N ->
    dec_body_rest ty b = Some (c, r) ->
    cav_type c = ty /\ scalar_cav c = true /\ fits_cav c = true /\ wf_cav c.
Proof. exact (@dec_body_rest_wf_l). Qed.

Theorem dec_uint_len_any_width :
    forall (n : N) (r : list N),
    (n < 2 ^ 64)%N ->
    dec_uint_len (enc_uint n ++ r) = Some (n, r) /\
    (forall k : nat,
    In k widths -> (n < 256 ^ N.of_nat k)%N -> dec_uint_len (ucode k :: be k n ++ r) = Some (n, r)).
Proof. exact (@dec_uint_len_any_width_l). Qed.

Theorem dec_int64_len_any_width :
    forall (z : Z) (r : list N),
    wf_i64 z ->
    dec_int64_len (enc_int z ++ r) = Some (z, r) /\
    (forall k : nat,
    In k widths ->
    (- 2 ^ sbits k <= z < 2 ^ sbits k)%Z ->
    dec_int64_len (icode k :: be k (Z.to_N (z mod 2 ^ (sbits k + 1))) ++ r) = Some (z, r)) /\
    (forall k : nat,
    In k widths ->
    (0 <= z)%Z ->
    (Z.to_N z < 256 ^ N.of_nat k)%N -> dec_int64_len (ucode k :: be k (Z.to_N z) ++ r) = Some (z, r)).
Proof. exact (@dec_int64_len_any_width_l). Qed.

Theorem dec_body_nil :
    forall r : list N,
    dec_body_rest 0 (192%N :: r) = Some (COrganization 0 0, r) /\
    dec_body_rest 4 (192%N :: r) = Some (CValidityWindow 0 0, r) /\
    dec_body_rest 8 (192%N :: r) = Some (CConfineUser 0, r) /\
    dec_body_rest 9 (192%N :: r) = Some (CConfineOrganization 0, r) /\
    dec_body_rest 10 (192%N :: r) = Some (CIsUser 0, r) /\
    dec_body_rest 12 (192%N :: r) = Some (CBind None, r) /\
    dec_body_rest 15 (192%N :: r) = Some (CFromMachine "", r) /\
    dec_body_rest 19 (192%N :: r) = Some (CConfineGoogleHD "", r) /\
    dec_body_rest 20 (192%N :: r) = Some (CConfineGitHubOrg 0, r) /\
    dec_body_rest 21 (192%N :: r) = Some (CMaxValidity 0, r) /\
    dec_body_rest 22 (192%N :: r) = Some (CIsMember, r) /\
    dec_body_rest 23 (192%N :: r) = Some (CFlyioUserID 0, r) /\
    dec_body_rest 24 (192%N :: r) = Some (CGitHubUserID 0, r) /\
    dec_body_rest 25 (192%N :: r) = Some (CGoogleUserID 0, r) /\
    dec_body_rest 26 (192%N :: r) = Some (CAction 0, r) /\
    dec_body_rest 30 (192%N :: r) = Some (CAllowedRoles 0, r) /\
    dec_body_rest 31 (192%N :: r) = Some (CFlySrc "" "" "", r).
Proof. exact (@dec_body_nil_l). Qed.

Theorem dec_body_google_hd_bin :
    forall s : string, wf_str s -> dec_body 19 (enc_bin (str_bytes s)) = Some (CConfineGoogleHD s).
Proof. exact (@dec_body_google_hd_bin_l). Qed.

Theorem dec_body_bind_str :
    forall p : list N,
    (N.of_nat (Datatypes.length p) < 2 ^ 32)%N -> dec_body 12 (enc_str p) = Some (CBind (Some p)).
Proof. exact (@dec_body_bind_str_l). Qed.

Theorem dec_cav_enc_body :
    forall (ext pz : bool) (c : cav),
    wf_cav c ->
    canon_cav c ->
    forall b : bytes,
    enc_body c = Some b ->
    forall (fuel : nat) (rest : list N),
    Datatypes.length (b ++ rest) < fuel -> dec_cav ext pz fuel (cav_type c) (b ++ rest) = Some (c, rest).
Proof. exact (@dec_cav_enc_body_l). Qed.

Theorem dec_body2_enc_body :
    forall c : cav,
    wf_cav c ->
    fits_cav c = true ->
    canon_cav c -> forall b : bytes, enc_body c = Some b -> dec_body2 (cav_type c) b = Some c.
Proof. exact (@dec_body2_enc_body_l). Qed.

Theorem dec_body2_enc_body_norm :
    forall c : cav,
    wf_cav c ->
    rs_nodup c ->
    forall b : bytes,
    enc_body c = Some b -> dec_body2 (cav_type c) b = Some (norm_cav c) /\ enc_body (norm_cav c) = Some b.
Proof. exact (@dec_body2_enc_body_norm_l). Qed.

Theorem dec_set_typed_enc_set :
    forall cs : list cav,
    Forall wf_cav cs ->
    Forall canon_cav cs ->
    (N.of_nat (Datatypes.length cs) < 2 ^ 31)%N ->
    forall b : bytes, enc_set cs = Some b -> dec_set_typed b = Some cs.
Proof. exact (@dec_set_typed_enc_set_l). Qed.

Theorem dec_cav_good :
    forall (ext pz : bool) (fuel : nat) (ty : N) (b : bytes) (c : cav) (r : bytes),
    (ty < 2 ^ 64)%N ->
    byte_list b ->
    (N.of_nat (Datatypes.length b) < 2 ^ 29)%N ->
    dec_cav ext pz fuel ty b = Some (c, r) ->
    cav_type c = ty /\ wf_cav c /\ canon_cav c /\ (exists pre : list N, b = pre ++ r /\ pre <> []).
Proof. exact (@dec_cav_good_l). Qed.

Theorem dec_set_typed_good :
    forall (ext pz : bool) (b : bytes) (cs : list cav),
    byte_list b ->
    (N.of_nat (Datatypes.length b) < 2 ^ 29)%N ->
    dec_set_typed_gen ext pz b = Some cs ->
    Forall wf_cav cs /\ Forall canon_cav cs /\ 2 * Datatypes.length cs <= Datatypes.length b.
Proof. exact (@dec_set_typed_good_l). Qed.

Theorem dec_body2_reenc :
    forall (ty : N) (b : bytes) (c : cav),
    (ty < 2 ^ 64)%N ->
    byte_list b ->
    (N.of_nat (Datatypes.length b) < 2 ^ 29)%N ->
    dec_body2 ty b = Some c -> exists b' : bytes, enc_body c = Some b' /\ dec_body2 ty b' = Some c.
Proof. exact (@dec_body2_reenc_l). Qed.

Theorem dec_set_typed_reenc :
    forall (b : bytes) (cs : list cav),
    byte_list b ->
    (N.of_nat (Datatypes.length b) < 2 ^ 29)%N ->
    dec_set_typed b = Some cs -> exists b' : bytes, enc_set cs = Some b' /\ dec_set_typed b' = Some cs.
Proof. exact (@dec_set_typed_reenc_l). Qed.

Theorem dec_set_typed_frames :
    forall (pz : bool) (b : bytes) (cs : list cav),
    byte_list b ->
    (N.of_nat (Datatypes.length b) < 2 ^ 29)%N ->
    dec_set_typed_gen false pz b = Some cs ->
    exists fs : list (N * bytes), dec_frames_len b = Some fs /\ map fst fs = map cav_type cs.
Proof. exact (@dec_set_typed_frames_l). Qed.

Theorem dec_cav_vspan :
    forall (pz : bool) (fuel : nat) (ty : N), vspan (dec_cav false pz fuel ty).
Proof. exact (@dec_cav_vspan_l). Qed.

Theorem dec_set_typed_ext_mono :
    forall (pz : bool) (b : bytes) (cs : list cav),
    dec_set_typed_gen false pz b = Some cs -> dec_set_typed_gen true pz b = Some cs.
Proof. exact (@dec_set_typed_ext_mono_l). Qed.

Theorem dec_cav_fuel_enough :
    forall (ext pz : bool) (f : nat) (ty : N) (b : bytes) (x : cav * bytes),
    dec_cav ext pz f ty b = Some x -> dec_cav ext pz (S (Datatypes.length b)) ty b = Some x.
Proof. exact (@dec_cav_fuel_enough_l). Qed.

Print Assumptions enc_rs_n_perm_invariant.
Print Assumptions enc_rs_s_perm_invariant.
Print Assumptions enc_body_rs_perm.
Print Assumptions keys_written_ascending_n.
Print Assumptions keys_written_ascending_s.
Print Assumptions skip_enc_body.
Print Assumptions dec_frames_enc_set.
Print Assumptions enc_one_frames.
Print Assumptions unregistered_passthrough.
Print Assumptions dec_uint_enc_uint.
Print Assumptions skip_enc_uint.
Print Assumptions skip_enc_int.
Print Assumptions skip_enc_str.
Print Assumptions skip_enc_bin.
Print Assumptions json_rt_prohibits.
Print Assumptions json_rt_type.
Print Assumptions json_rt_validate.
Print Assumptions json_rt_errors.
Print Assumptions json_rt_errors_depth.
Print Assumptions leaf_refuses_spec.
Print Assumptions type_json_roundtrip.
Print Assumptions facts_reg_ok.
Print Assumptions type_json_roundtrip_facts.
Print Assumptions type_from_json_numeric.
Print Assumptions type_json_roundtrip_al.
Print Assumptions aliases_ok_facts.
Print Assumptions type_json_roundtrip_al_facts.
Print Assumptions dec_body_enc_body.
Print Assumptions dec_body_enc_body_trunc.
Print Assumptions dec_body_rest_enc_body.
Print Assumptions dec_body_trailing.
Print Assumptions dec_body_reenc.
Print Assumptions dec_body_rest_consumes.
Print Assumptions dec_body_rest_wf.
Print Assumptions dec_uint_len_any_width.
Print Assumptions dec_int64_len_any_width.
Print Assumptions dec_body_nil.
Print Assumptions dec_body_google_hd_bin.
Print Assumptions dec_body_bind_str.
Print Assumptions dec_cav_enc_body.
Print Assumptions dec_body2_enc_body.
Print Assumptions dec_body2_enc_body_norm.
Print Assumptions dec_set_typed_enc_set.
Print Assumptions dec_cav_good.
Print Assumptions dec_set_typed_good.
Print Assumptions dec_body2_reenc.
Print Assumptions dec_set_typed_reenc.
Print Assumptions dec_set_typed_frames.
Print Assumptions dec_cav_vspan.
Print Assumptions dec_set_typed_ext_mono.
Print Assumptions dec_cav_fuel_enough.

(* ---- the token-level lenient decoder (Model.TokenDec, Proofs.TokenDecProofs) *)
From Mac Require Import Model.TokenDec Proofs.TokenDecProofs.

(* the repaired decoder never yields an old-format nonce with the proof flag set, whatever the wire form *)
Theorem dec_token_v0_not_proof :
    forall (ext pz : bool) (b : bytes) (t : token),
    dec_token_gen false ext pz b = Some t -> tk_ver t = 0%N -> tk_proof t = false.
Proof. exact (@TokenDecProofs.dec_token_v0_not_proof). Qed.

(* the decoder as it was before 2de874e does (F16) *)
Theorem legacy_nonce_keeps_proof_refuted :
    exists t : token,
      dec_token_gen true true false f16_bytes = Some t /\
      tk_ver t = 0%N /\
      tk_proof t = true /\
      enc_nonce (tk_kid t) (tk_rnd t) (tk_proof t) (tk_ver t) =
      [146; 196; 1; 107; 196; 16; 0; 1; 2; 3; 4; 5; 6; 7; 8; 9; 10; 11; 12; 13; 14; 15]%N.
Proof. exact (@TokenDecProofs.legacy_nonce_keeps_proof_refuted). Qed.

Theorem repaired_nonce_on_f16 :
    exists t : token,
      dec_token_gen false true false f16_bytes = Some t /\
      tk_ver t = 0%N /\
      tk_proof t = false /\
      dec_token_gen true true false f16_bytes =
      Some (mk_token (tk_kid t) (tk_rnd t) true 0%N (tk_loc t) (tk_cavs t) (tk_tail t)).
Proof. exact (@TokenDecProofs.repaired_nonce_on_f16). Qed.

(* round trip of the canonical token encoding, both nonce versions *)
Theorem dec_token_enc_token :
    forall (ext pz : bool) (kid rnd : option bytes) (p : bool) (v : N) (loc : string) (cs : list cav)
      (tl : option bytes) (b : bytes),
    wf_obin kid -> wf_obin rnd -> wf_obin tl ->
    v = 0%N \/ v = 1%N -> (v = 0%N -> p = false) ->
    (N.of_nat (String.length loc) < 2 ^ 32)%N ->
    Forall wf_cav cs -> Forall canon_cav cs -> (N.of_nat (Datatypes.length cs) < 2 ^ 31)%N ->
    enc_token kid rnd p v loc cs tl = Some b ->
    dec_token_gen false ext pz b = Some (mk_token kid rnd p v loc cs tl).
Proof. exact (@dec_token_enc_token_l). Qed.

(* whatever is accepted is a well-formed token in canonical form *)
Theorem dec_token_good :
    forall (ext pz : bool) (b : bytes) (t : token),
    byte_list b ->
    (N.of_nat (Datatypes.length b) < 2 ^ 29)%N ->
    dec_token_gen false ext pz b = Some t -> tok_good t.
Proof. exact (@dec_token_good_l). Qed.

(* ... and its canonical encoding (what is signed) decodes to exactly that token, the proof flag included *)
Theorem dec_token_reenc :
    forall (ext pz : bool) (b : bytes) (t : token),
    byte_list b ->
    (N.of_nat (Datatypes.length b) < 2 ^ 29)%N ->
    dec_token_gen false ext pz b = Some t ->
    exists b' : bytes, enc_tok t = Some b' /\ dec_token_gen false ext pz b' = Some t.
Proof. exact (@dec_token_reenc_l). Qed.

Theorem dec_token_reenc_inj :
    forall (ext pz : bool) (b1 b2 : bytes) (t1 t2 : token),
    byte_list b1 -> (N.of_nat (Datatypes.length b1) < 2 ^ 29)%N ->
    byte_list b2 -> (N.of_nat (Datatypes.length b2) < 2 ^ 29)%N ->
    dec_token_gen false ext pz b1 = Some t1 ->
    dec_token_gen false ext pz b2 = Some t2 -> enc_tok t1 = enc_tok t2 -> t1 = t2.
Proof. exact (@TokenDecProofs.dec_token_reenc_inj). Qed.

Print Assumptions dec_token_v0_not_proof.
Print Assumptions legacy_nonce_keeps_proof_refuted.
Print Assumptions repaired_nonce_on_f16.
Print Assumptions dec_token_enc_token.
Print Assumptions dec_token_good.
Print Assumptions dec_token_reenc.
Print Assumptions dec_token_reenc_inj.
