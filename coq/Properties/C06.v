(* C06 - A bound discharge works only with the token it was bound to.
   Statements restated from the Proofs/ files named in the imports (closed by [exact]).
   Symbolic model: HMAC, SHA-256, truncation and AEAD are free constructors; random values are fresh atoms. *)
From Coq Require Import List Bool NArith.
From Mac Require Import Model.Sym Proofs.SymBasics Proofs.ThirdParty Proofs.Binding.
Import ListNotations.

Theorem bind_requires_prefix :
    forall (k : term) (t : token) (ds : list token) (tr : trusted_map) (S : list dcav) 
    (d : token) (dk : term) (Sd : list dcav) (p : token),
    verify k t ds tr = Some S ->
    verify_flat dk d (tok_bids k t) (cand_trust true tr d dk) = Some Sd ->
    bound_to d p ->
    exists i : nat, i <= length (t_cavs t) /\ t_tail p = chain k (t_nonce t) (firstn i (t_cavs t)).
Proof. exact (@bind_requires_prefix_l). Qed.

Theorem bound_parent_is_ancestor :
    forall (k : term) (t : token) (ds : list token) (tr : trusted_map) (S : list dcav) 
    (d : token) (dk : term) (Sd : list dcav) (p : token),
    t_tail p = chain k (t_nonce p) (t_cavs p) ->
    verify k t ds tr = Some S ->
    verify_flat dk d (tok_bids k t) (cand_trust true tr d dk) = Some Sd ->
    bound_to d p -> t_nonce p = t_nonce t /\ (exists ext : list pcav, t_cavs t = t_cavs p ++ ext).
Proof. exact (@bound_parent_is_ancestor_l). Qed.

Theorem bound_to_finalised_proof_never :
    forall (k : term) (t : token) (dk : term) (d : token) (ta : bool) (p : token) (x : term),
    t_tail p = TFin x -> bound_to d p -> verify_flat dk d (tok_bids k t) ta = None.
Proof. exact (@bound_to_finalised_proof_never_l). Qed.

Theorem sibling_rejected :
    forall (k : term) (t : token) (dk : term) (d : token) (ta : bool) (p : token),
    t_tail p = chain k (t_nonce p) (t_cavs p) ->
    ~ (t_nonce p = t_nonce t /\ (exists ext : list pcav, t_cavs t = t_cavs p ++ ext)) ->
    bound_to d p -> verify_flat dk d (tok_bids k t) ta = None.
Proof. exact (@sibling_rejected_l). Qed.

Theorem bind_check_complete :
    forall (k : term) (t : token) (i : nat),
    i <= length (t_cavs t) ->
    existsb (has_prefix_bid (TPre16 (THash (chain k (t_nonce t) (firstn i (t_cavs t)))))) (tok_bids k t) =
    true.
Proof. exact (@bind_check_complete_l). Qed.

Theorem bound_discharge_accepted :
    forall (k : term) (t : token) (dk : term) (d : token) (ta : bool),
    n_proof (t_nonce d) && t_newproof d = false ->
    t_tail d = fin_if (n_proof (t_nonce d)) (chain dk (t_nonce d) (t_cavs d)) ->
    data_ok (n_proof (t_nonce d)) (t_cavs d) ->
    (forall (l : N) (vk tk : term), ~ In (P3P l vk tk) (t_cavs d)) ->
    (forall b : term,
    In (PBind b) (t_cavs d) ->
    exists (p : token) (ext : list pcav),
    b = TPre16 (THash (t_tail p)) /\
    t_tail p = chain k (t_nonce p) (t_cavs p) /\ t_nonce p = t_nonce t /\ t_cavs t = t_cavs p ++ ext) ->
    verify_flat dk d (tok_bids k t) ta = Some (returned (n_proof (t_nonce d)) ta (t_cavs d)).
Proof. exact (@bound_discharge_accepted). Qed.

Theorem all_bindings_checked :
    forall (k : term) (t : token) (pb : list term) (ta : bool) (S : list dcav),
    verify_flat k t pb ta = Some S ->
    forall b : term, In (PBind b) (t_cavs t) -> existsb (has_prefix_bid b) pb = true.
Proof. exact (@verify_flat_binds). Qed.

Theorem binding_on_permission_rejects :
    forall (k : term) (t : token) (ds : list token) (tr : trusted_map) (b : term),
    In (PBind b) (t_cavs t) -> verify k t ds tr = None.
Proof. exact (@binding_on_permission_rejects_l). Qed.

Theorem empty_literal_binding :
    forall bid : term, has_prefix_bid (TLit []) bid = true.
Proof. exact (@empty_literal_binding_l). Qed.

Print Assumptions bind_requires_prefix.
Print Assumptions bound_parent_is_ancestor.
Print Assumptions bound_to_finalised_proof_never.
Print Assumptions sibling_rejected.
Print Assumptions bind_check_complete.
Print Assumptions bound_discharge_accepted.
Print Assumptions all_bindings_checked.
Print Assumptions binding_on_permission_rejects.
Print Assumptions empty_literal_binding.
