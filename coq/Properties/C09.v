(* C09 - Resource-set, conditional and action caveats mean what they say.
   Statements restated from Proofs/RessetProofs.v (closed by [exact]).
   rel e id := (fst e is the zero/wildcard id) \/ (fst e matches id: equal, or a prefix for prefix-typed ids). *)
From Coq Require Import List Bool NArith ZArith String Permutation.
From Mac Require Import Model.Err Model.Caveat Model.Access Model.Prohibits Proofs.ErrFacts Proofs.RessetProofs.
Import ListNotations.

Theorem subset_trans :
    forall a b c : N, subset a b = true -> subset b c = true -> subset a c = true.
Proof. exact (@subset_trans_l). Qed.

Theorem subset_land :
    forall a b c : N, subset a (N.land b c) = subset a b && subset a c.
Proof. exact (@subset_land_l). Qed.

Theorem rs_prohibits_spec :
    forall (I : Type) (ieqb : I -> I -> bool) (zero : I) (mtch : I -> I -> bool) 
    (rs : rset I) (id : I) (act : N),
    rs_prohibits ieqb zero mtch rs (Some id) act = None <->
    rs_validate ieqb zero rs = None /\
    (exists e : I * N, In e rs /\ rel ieqb zero mtch e id) /\
    subset act 65535 = true /\
    (forall e : I * N, In e rs -> rel ieqb zero mtch e id -> subset act (snd e) = true).
Proof. exact (@rs_prohibits_spec_l). Qed.

Theorem rs_forres :
    forall (I : Type) (ieqb : I -> I -> bool) (zero : I) (mtch : I -> I -> bool) 
    (rs : rset I) (id : I) (act : N),
    rs_prohibits ieqb zero mtch rs (Some id) act = Some E_forres <->
    rs_validate ieqb zero rs = None /\ ~ (exists e : I * N, In e rs /\ rel ieqb zero mtch e id).
Proof. exact (@rs_forres_l). Qed.

Theorem rs_foract :
    forall (I : Type) (ieqb : I -> I -> bool) (zero : I) (mtch : I -> I -> bool) 
    (rs : rset I) (id : I) (act : N),
    rs_prohibits ieqb zero mtch rs (Some id) act = Some E_foract <->
    rs_validate ieqb zero rs = None /\
    (exists e : I * N, In e rs /\ rel ieqb zero mtch e id) /\
    ~
    (subset act 65535 = true /\
    (forall e : I * N, In e rs -> rel ieqb zero mtch e id -> subset act (snd e) = true)).
Proof. exact (@rs_foract_l). Qed.

Theorem rs_unspecified :
    forall (I : Type) (ieqb : I -> I -> bool) (zero : I) (mtch : I -> I -> bool) (rs : rset I) (act : N),
    rs_validate ieqb zero rs = None -> rs_prohibits ieqb zero mtch rs None act = Some E_unspec.
Proof. exact (@rs_unspecified_l). Qed.

Theorem rs_zero_mixed :
    forall (I : Type) (ieqb : I -> I -> bool) (zero : I) (mtch : I -> I -> bool) 
    (rs : rset I) (id : option I) (act : N),
    rs_has_zero ieqb zero rs = true ->
    Datatypes.length rs <> 1 -> rs_prohibits ieqb zero mtch rs id act = Some E_badcav.
Proof. exact (@rs_zero_mixed_l). Qed.

Theorem rs_validate_spec :
    forall (I : Type) (ieqb : I -> I -> bool) (zero : I) (rs : rset I),
    rs_validate ieqb zero rs = None <-> rs_has_zero ieqb zero rs = false \/ Datatypes.length rs = 1.
Proof. exact (@rs_validate_spec_l). Qed.

Theorem rs_lone_wildcard :
    forall (I : Type) (ieqb : I -> I -> bool) (zero : I) (mtch : I -> I -> bool),
    (forall a b : I, ieqb a b = true <-> a = b) ->
    forall (m : N) (id : I) (act : N),
    rs_prohibits ieqb zero mtch [(zero, m)] (Some id) act = None <->
    subset act 65535 = true /\ subset act m = true.
Proof. exact (@rs_lone_wildcard_l). Qed.

Theorem rs_perm_invariant :
    forall (I : Type) (ieqb : I -> I -> bool) (zero : I) (mtch : I -> I -> bool) 
    (rs rs' : list (I * N)) (id : option I) (act : N),
    Permutation rs rs' -> rs_prohibits ieqb zero mtch rs id act = rs_prohibits ieqb zero mtch rs' id act.
Proof. exact (@rs_perm_invariant_l). Qed.

Theorem rs_action_monotone :
    forall (I : Type) (ieqb : I -> I -> bool) (zero : I) (mtch : I -> I -> bool) 
    (rs : rset I) (id : option I) (act act' : N),
    subset act' act = true ->
    rs_prohibits ieqb zero mtch rs id act = None -> rs_prohibits ieqb zero mtch rs id act' = None.
Proof. exact (@rs_action_monotone_l). Qed.

Theorem prefix_match_spec :
    forall a b : string, match_p a b = true <-> a = b \/ prefix a b = true.
Proof. exact (@match_p_spec). Qed.

Theorem rs_prohibits_n_spec :
    forall (rs : rset N) (id act : N),
    rs_prohibits_n rs (Some id) act = None <->
    rs_validate N.eqb 0%N rs = None /\
    (exists e : N * N, In e rs /\ (fst e = 0%N \/ fst e = id)) /\
    subset act 65535 = true /\
    (forall e : N * N, In e rs -> fst e = 0%N \/ fst e = id -> subset act (snd e) = true).
Proof. exact (@rs_prohibits_n_spec_l). Qed.

Theorem rs_prohibits_s_spec :
    forall (rs : rset string) (id : string) (act : N),
    rs_prohibits_s rs (Some id) act = None <->
    rs_validate eqb ""%string rs = None /\
    (exists e : string * N, In e rs /\ (fst e = ""%string \/ fst e = id)) /\
    subset act 65535 = true /\
    (forall e : string * N, In e rs -> fst e = ""%string \/ fst e = id -> subset act (snd e) = true).
Proof. exact (@rs_prohibits_s_spec_l). Qed.

Theorem rs_prohibits_p_spec :
    forall (rs : rset string) (id : string) (act : N),
    rs_prohibits_p rs (Some id) act = None <->
    rs_validate eqb ""%string rs = None /\
    (exists e : string * N, In e rs /\ (fst e = ""%string \/ fst e = id \/ prefix (fst e) id = true)) /\
    subset act 65535 = true /\
    (forall e : string * N,
    In e rs -> fst e = ""%string \/ fst e = id \/ prefix (fst e) id = true -> subset act (snd e) = true).
Proof. exact (@rs_prohibits_p_spec_l). Qed.

Theorem ifpresent_spec :
    forall (ifs : option (list cav)) (els : N) (a : access) (act : N),
    a_action a = Some act ->
    prohibits (CIfPresent ifs els) a = None <->
    applicable (ifs_list ifs) a <> [] /\
    (forall c : cav, In c (applicable (ifs_list ifs) a) -> prohibits c a = None) \/
    applicable (ifs_list ifs) a = [] /\ subset act els = true.
Proof. exact (@ifpresent_spec_l). Qed.

Theorem ifpresent_err :
    forall (ifs : option (list cav)) (els : N) (a : access) (act : N),
    a_action a = Some act ->
    applicable (ifs_list ifs) a <> [] ->
    prohibits (CIfPresent ifs els) a =
    fold_left eappend (map (fun c : cav => prohibits c a) (applicable (ifs_list ifs) a)) None.
Proof. exact (@ifpresent_err_l). Qed.

Theorem ifpresent_else :
    forall (ifs : option (list cav)) (els : N) (a : access) (act : N),
    a_action a = Some act ->
    applicable (ifs_list ifs) a = [] ->
    prohibits (CIfPresent ifs els) a = (if subset act els then None else Some E_foract).
Proof. exact (@ifpresent_else_l). Qed.

Theorem ifpresent_no_action :
    forall (ifs : option (list cav)) (els : N) (a : access),
    a_action a = None -> prohibits (CIfPresent ifs els) a = Some E_invalid.
Proof. exact (@ifpresent_no_action_l). Qed.

Theorem ifpresent_never_unspec :
    forall (ifs : option (list cav)) (els : N) (a : access),
    is_unspec (prohibits (CIfPresent ifs els) a) = false.
Proof. exact (@ifpresent_never_unspec_l). Qed.

Theorem action_caveat_spec :
    forall (m : N) (a : access),
    prohibits (CAction m) a = None <-> (exists act : N, a_action a = Some act /\ subset act m = true).
Proof. exact (@action_caveat_spec_l). Qed.

Theorem prohibits_action_monotone :
    forall (c : cav) (f : flyio_access) (act' : N),
    subset act' (fa_action f) = true ->
    prohibits c (AFlyio f) = None -> prohibits c (AFlyio (set_action f act')) = None.
Proof. exact (@prohibits_action_monotone_l). Qed.

Theorem action_monotone :
    forall (cs : list cav) (f : flyio_access) (act' : N),
    subset act' (fa_action f) = true ->
    validate cs [AFlyio f] = None -> validate cs [AFlyio (set_action f act')] = None.
Proof. exact (@action_monotone_l). Qed.

Print Assumptions subset_trans.
Print Assumptions subset_land.
Print Assumptions rs_prohibits_spec.
Print Assumptions rs_forres.
Print Assumptions rs_foract.
Print Assumptions rs_unspecified.
Print Assumptions rs_zero_mixed.
Print Assumptions rs_validate_spec.
Print Assumptions rs_lone_wildcard.
Print Assumptions rs_perm_invariant.
Print Assumptions rs_action_monotone.
Print Assumptions prefix_match_spec.
Print Assumptions rs_prohibits_n_spec.
Print Assumptions rs_prohibits_s_spec.
Print Assumptions rs_prohibits_p_spec.
Print Assumptions ifpresent_spec.
Print Assumptions ifpresent_err.
Print Assumptions ifpresent_else.
Print Assumptions ifpresent_no_action.
Print Assumptions ifpresent_never_unspec.
Print Assumptions action_caveat_spec.
Print Assumptions prohibits_action_monotone.
Print Assumptions action_monotone.
