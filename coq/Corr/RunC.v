(* Correspondence runner for the discharge client (C20). *)
From Coq Require Export List NArith ZArith Bool String Ascii.
From Mac Require Export Model.TPClient Corr.Transport.
Export ListNotations.

(* observed: every captured request (transport, host, Authorization or none), sorted by the harness;
   the model's multiset is sorted the same way by the harness-independent key below *)
Inductive ccase :=
| KFetch (opts : list copt) (tps : list tploc) (reqs : list (N * string * option string)) (ndis : nat)
| KAttach (opts : list copt) (host : string) (cred : option string) (base : N).

Definition zs_of_string (s : string) : list Z :=
  Z.of_nat (String.length s) :: map (fun c => Z.of_N (N_of_ascii c)) (list_ascii_of_string s).
Definition zreq (r : N * string * option string) : list Z :=
  let '(b, h, a) := r in
  Z.of_N b :: zs_of_string h ++ match a with None => [0%Z] | Some v => 1%Z :: zs_of_string v end.

(* insertion sort on the encoded requests (lexicographic on Z lists) *)
Fixpoint zl_leb (a b : list Z) : bool :=
  match a, b with
  | [], _ => true
  | _ :: _, [] => false
  | x :: r, y :: s => if Z.ltb x y then true else if Z.ltb y x then false else zl_leb r s
  end.
Fixpoint zinsert (x : list Z) (l : list (list Z)) : list (list Z) :=
  match l with [] => [x] | y :: r => if zl_leb x y then x :: l else y :: zinsert x r end.
Definition zsort (l : list (list Z)) : list (list Z) := fold_right zinsert [] l.

Definition enc_reqs (l : list (N * string * option string)) : list Z :=
  Z.of_nat (List.length l) :: List.concat (zsort (map zreq l)).

Definition model_out (k : ccase) : list Z :=
  match k with
  | KFetch opts tps _ _ => let c := new_client opts in
      Z.of_nat (fetched_count c tps) :: enc_reqs (fetch_requests c tps)
  | KAttach opts h _ _ => let c := new_client opts in
      Z.of_N (c_base c) :: match attached c h with None => [0%Z] | Some v => 1%Z :: zs_of_string v end
  end.
Definition obs_out (k : ccase) : list Z :=
  match k with
  | KFetch _ _ reqs n => Z.of_nat n :: enc_reqs reqs
  | KAttach _ _ cred b => Z.of_N b :: match cred with None => [0%Z] | Some v => 1%Z :: zs_of_string v end
  end.
Definition run (l : list ccase) := mismatches model_out obs_out l.
