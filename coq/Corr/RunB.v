(* Correspondence runner for bundles and the verification cache (C13, C14). *)
From Coq Require Export List NArith ZArith Bool.
From Mac Require Export Model.BundleM Model.BundleOps Corr.Transport.
Export ListNotations.

Inductive bcase := KBun (T : tables) (ops : list bop) (obs : list (list Z)).
Definition flat (l : list (list Z)) : list Z := flat_map (fun o => Z.of_nat (List.length o) :: o) l.
Definition model_out (k : bcase) : list Z := match k with KBun T ops _ => flat (run_bundle T ops) end.
Definition obs_out (k : bcase) : list Z := match k with KBun _ _ o => flat o end.
Definition run (l : list bcase) := mismatches model_out obs_out l.
