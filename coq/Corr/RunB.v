(* Correspondence runner for bundles and the verification cache (C13, C14). *)
From Coq Require Export List NArith ZArith Bool.
From Mac Require Export Model.BundleM Model.BundleOps Model.BundleHeap Corr.Transport.
From Mac Require Import Proofs.CacheProofs.
Export ListNotations.

Inductive bcase :=
| KBun (T : tables) (ops : list bop) (obs : list (list Z))
| KBunH (T : tables) (ops : list bop) (obs : list (list Z)).   (* evaluated on the heap model (object sharing): Model/BundleHeap.v *)
Definition flat (l : list (list Z)) : list Z := flat_map (fun o => Z.of_nat (List.length o) :: o) l.
(* besides the observations: the recorded direct-verification table must be key-sound on the queries the scenario
   makes through a cache (the hypothesis of run_transparent_check, discharged per scenario by computation) *)
Definition model_out (k : bcase) : list Z :=
  match k with
  | KBun T ops _ => flat (run_bundle T ops) ++ [if key_sound_list (t_v T) (queries T ops) then 1%Z else 0%Z]
  | KBunH T ops _ => flat (hrun T ops) ++ [1%Z]
  end.
Definition obs_out (k : bcase) : list Z := match k with KBun _ _ o => flat o ++ [1%Z] | KBunH _ _ o => flat o ++ [1%Z] end.
Definition run (l : list bcase) := mismatches model_out obs_out l.
