(* Correspondence runner for the discharge service (C16). *)
From Coq Require Export List NArith ZArith Bool.
From Mac Require Export Model.TPServer Model.TPStoreLRU Corr.Transport.
Export ListNotations.

Inductive tcase :=
| KTP (acts : list action) (obs : list (list Z))
| KTPLRU (cap : nat) (acts : list action) (obs : list (list Z)).   (* MemoryStore of capacity cap (keys) *)

Definition b2z (b : bool) : Z := if b then 1%Z else 0%Z.
Definition zbody (b : body) : list Z :=
  match b with
  | BDischarge t cavs => 1%Z :: Z.of_N t :: Z.of_nat (List.length cavs) :: map Z.of_N cavs
  | BError m => [2%Z; Z.of_N m]
  end.
Definition zobs (o : obs) : list Z :=
  match o with
  | ONotFound app => [404%Z; b2z app]
  | OServerError app => [500%Z; b2z app]
  | ONotReady => [202%Z]
  | OBody st b app => Z.of_N st :: b2z app :: zbody b
  | OPollURL f => [201%Z; 10%Z; Z.of_N f]
  | OUserURL f => [201%Z; 11%Z; Z.of_N f]
  | OCall ok => [1000%Z; b2z ok]
  | OVisited app ok => [1001%Z; b2z app; b2z ok]
  end.
Definition flat (l : list (list Z)) : list Z := flat_map (fun o => Z.of_nat (List.length o) :: o) l.
Definition model_out (k : tcase) : list Z :=
  match k with
  | KTP a _ => flat (map zobs (run [] a))
  | KTPLRU cap a _ => flat (map zobs (run_lru cap lempty a))
  end.
Definition obs_out (k : tcase) : list Z := match k with KTP _ o => flat o | KTPLRU _ _ o => flat o end.
Definition run_cases (l : list tcase) := mismatches model_out obs_out l.
