(* Correspondence runner for the symbolic protocol layer (C01 C02 C04 C05 C06 C07 C08). *)
From Coq Require Export List NArith ZArith Bool.
From Mac Require Export Model.Sym Model.Ops Corr.Transport.
Export ListNotations.

Inductive scase := KScen (ops : list op) (obs : list (list Z)).

Definition flat_obs (l : list (list Z)) : list Z :=
  flat_map (fun o => Z.of_nat (List.length o) :: o) l.

Definition model_out (k : scase) : list Z := match k with KScen ops _ => flat_obs (run_scenario ops) end.
Definition obs_out (k : scase) : list Z := match k with KScen _ o => flat_obs o end.
Definition run (l : list scase) := mismatches model_out obs_out l.
