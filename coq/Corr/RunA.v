(* Correspondence runner for the decision-logic layer (C03 C09 C10 C17 C18). *)
From Coq Require Export List NArith ZArith String Ascii Bool.
From Mac Require Export Model.Err Model.Caveat Model.Access Model.Prohibits Model.Scope Corr.Transport.
Export ListNotations.

Inductive acase :=
| KProhibits (c : cav) (a : access) (obs : N)
| KValidate (cs : list cav) (accs : list access) (obs : N)
| KMaxValidity (cs : list cav) (d : Z) (found : bool)
| KAccessValid (a : access) (obs : N)
| KOrgScope (cs : list cav) (now : time) (ok : bool) (v : N)          (* v = id or error code *)
| KAppScope (cs : list cav) (now : time) (unrestricted : bool) (ids : list N)
| KClusterScope (cs : list cav) (now : time) (unrestricted : bool) (ids : list string)
| KAppsAllowing (cs : list cav) (act : N) (now : time) (org : N) (unrestricted : bool) (ids : list N) (e : N)
| KExpiration (cs : list cav) (unix nsec : Z)
| KUserID (cs : list cav) (ok : bool) (id : N).

Definition b2z (b : bool) : Z := if b then 1%Z else 0%Z.

Definition zs_of_string (s : string) : list Z :=
  Z.of_nat (String.length s) :: map (fun c => Z.of_N (N_of_ascii c)) (list_ascii_of_string s).
Definition zs_of_optlist {A} (f : A -> list Z) (o : option (list A)) : list Z :=
  match o with None => [1%Z] | Some l => 0%Z :: Z.of_nat (List.length l) :: flat_map f l end.
Definition zn (n : N) : list Z := [Z.of_N n].

Definition model_out (k : acase) : list Z :=
  match k with
  | KAccessValid a _ => [Z.of_N (err_code (access_valid a))]
  | KOrgScope cs now _ _ =>
      match organization_scope cs now with
      | inl id => [1%Z; Z.of_N id] | inr e => [0%Z; Z.of_N (err_code (Some e))] end
  | KAppScope cs now _ _ => zs_of_optlist zn (app_scope cs now)
  | KClusterScope cs now _ _ => zs_of_optlist zs_of_string (cluster_scope cs now)
  | KAppsAllowing cs act now _ _ _ _ =>
      let '(org, l, e) := apps_allowing cs act now in
      Z.of_N org :: Z.of_N (err_code e) :: zs_of_optlist zn l
  | KExpiration cs _ _ => let t := expiration cs in [t_unix t; t_nsec t]
  | KUserID cs _ _ => match dangerous_user_id cs with Some u => [1%Z; Z.of_N u] | None => [0%Z; 0%Z] end
  | KProhibits c a _ => [Z.of_N (err_code (prohibits c a))]
  | KValidate cs accs _ => [Z.of_N (err_code (validate cs accs))]
  | KMaxValidity cs _ _ => let '(d, f) := get_max_validity cs in [d; b2z f]
  end.

Definition obs_out (k : acase) : list Z :=
  match k with
  | KAccessValid _ o => [Z.of_N o]
  | KOrgScope _ _ ok v => [b2z ok; Z.of_N v]
  | KAppScope _ _ u ids => zs_of_optlist zn (if u then None else Some ids)
  | KClusterScope _ _ u ids => zs_of_optlist zs_of_string (if u then None else Some ids)
  | KAppsAllowing _ _ _ org u ids e => Z.of_N org :: Z.of_N e :: zs_of_optlist zn (if u then None else Some ids)
  | KExpiration _ u n => [u; n]
  | KUserID _ ok id => [b2z ok; Z.of_N id]
  | KProhibits _ _ o => [Z.of_N o]
  | KValidate _ _ o => [Z.of_N o]
  | KMaxValidity _ d f => [d; b2z f]
  end.

Definition run (l : list acase) := mismatches model_out obs_out l.
