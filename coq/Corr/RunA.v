(* Correspondence runner for the decision-logic layer (C03 C09 C10 C17 C18). *)
From Coq Require Export List NArith ZArith String Bool.
From Mac Require Export Model.Err Model.Caveat Model.Access Model.Prohibits Corr.Transport.
Export ListNotations.

Inductive acase :=
| KProhibits (c : cav) (a : access) (obs : N)
| KValidate (cs : list cav) (accs : list access) (obs : N)
| KMaxValidity (cs : list cav) (d : Z) (found : bool).

Definition b2z (b : bool) : Z := if b then 1%Z else 0%Z.

Definition model_out (k : acase) : list Z :=
  match k with
  | KProhibits c a _ => [Z.of_N (err_code (prohibits c a))]
  | KValidate cs accs _ => [Z.of_N (err_code (validate cs accs))]
  | KMaxValidity cs _ _ => let '(d, f) := get_max_validity cs in [d; b2z f]
  end.

Definition obs_out (k : acase) : list Z :=
  match k with
  | KProhibits _ _ o => [Z.of_N o]
  | KValidate _ _ o => [Z.of_N o]
  | KMaxValidity _ d f => [d; b2z f]
  end.

Definition run (l : list acase) := mismatches model_out obs_out l.
