(* Transport-only helpers for the harness-written case files.  Primitive
   integers are used here and nowhere in the model or the theorems. *)
From Coq Require Import List NArith ZArith String Ascii Uint63.
Import ListNotations.

Definition str_of_codes (l : list N) : string :=
  fold_right (fun c s => String (ascii_of_N c) s) EmptyString l.

Definition unpack7 (w : int) : list N :=
  let n := Z.to_N (Uint63.to_Z w) in
  [ (n / 281474976710656) mod 256; (n / 1099511627776) mod 256; (n / 4294967296) mod 256;
    (n / 16777216) mod 256; (n / 65536) mod 256; (n / 256) mod 256; n mod 256 ]%N.

Definition unpack (len : nat) (ws : list int) : list N := firstn len (flat_map unpack7 ws).

(* index the failing cases: result is a list of (index, model output) *)
Section Mismatch.
  Context {C : Type} (model_out obs_out : C -> list Z).
  Fixpoint list_Z_eqb (a b : list Z) : bool :=
    match a, b with
    | [], [] => true
    | x :: r, y :: s => Z.eqb x y && list_Z_eqb r s
    | _, _ => false
    end.
  Fixpoint mism (i : N) (l : list C) : list (N * list Z) :=
    match l with
    | [] => []
    | c :: r =>
      let m := model_out c in
      if list_Z_eqb m (obs_out c) then mism (i + 1) r else (i, m) :: mism (i + 1) r
    end.
  Definition mismatches (l : list C) := mism 0%N l.
End Mismatch.
