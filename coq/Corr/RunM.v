(* Correspondence runner for the wire codec (C11, C12, byte half of C05). *)
From Coq Require Export List NArith ZArith Bool String Uint63.
From Mac Require Export Model.Caveat Model.Msgpack Model.Codec Model.TypedDec Model.TypedDec2 Model.TokenDec Generated.Facts Corr.Transport.
Export ListNotations.

Inductive mcase :=
| KEnc (c : cav) (ok : bool) (out : bytes)                 (* NewCaveatSet(c).MarshalMsgpack() *)
| KEncSet (cs : list cav) (ok : bool) (out : bytes)
| KEncTok (kid rnd : option bytes) (proof : bool) (ver : N) (loc : string) (cs : list cav) (tail : option bytes) (ok : bool) (out : bytes)
| KFrames (input : bytes) (ok : bool) (frames : list (N * bytes))
| KSkip (input : bytes) (ok : bool) (consumed : N)
| KJson (c : cav) (ok : bool) (out : bytes)                 (* msgpack of the caveat after a JSON round trip *)
| KFramesHostile (input : bytes) (ok : bool) (frames : list (N * bytes))   (* DecodeCaveats on a damaged input: the library may refuse more
                                                                              than the frame level can see (typed bodies), never less *)
| KJTypeRead (s : string) (t : N)                           (* caveat type obtained from the JSON "type" field s *)
| KJTypePrint (t : N) (out : string)                        (* the "type" field written for a caveat of type t *)
| KDecBody (ty : N) (body : bytes) (ok : bool) (reenc : bytes)    (* DecodeCaveats on 92 <ty> <body>: the one-caveat set re-encoded (typed lenient decoding, Model.TypedDec) *)
| KDecBody2 (pz : bool) (ty : N) (body : bytes) (ok : bool) (nilrs : bool) (reenc : bytes)   (* the same for every type (Model.TypedDec2); pz: which
                                                                      decoder this process built for *CaveatSet; nilrs: the caveat holds a nil resource set *)
| KDecSet (pz : bool) (input : bytes) (ok : bool) (reenc : bytes) (* DecodeCaveats on a whole set, re-encoded *)
| KDecTok (pz : bool) (input : bytes) (ok : bool) (reenc : bytes). (* macaroon.Decode on a whole token (Model.TokenDec), re-encoded *)

Definition b2z (b : bool) : Z := if b then 1%Z else 0%Z.
Definition zs (l : list N) : list Z := Z.of_nat (List.length l) :: map Z.of_N l.
Definition zo (o : option bytes) : list Z := match o with Some b => 1%Z :: zs b | None => [0%Z] end.

Definition model_out (k : mcase) : list Z :=
  match k with
  | KEnc c _ _ => zo (enc_one c)
  | KEncSet cs _ _ => zo (enc_set cs)
  | KEncTok kid rnd p v loc cs tl _ _ => zo (enc_token kid rnd p v loc cs tl)
  | KFrames i _ _ => match dec_frames i with
                     | Some fs => 1%Z :: Z.of_nat (List.length fs) :: flat_map (fun f => Z.of_N (fst f) :: zs (snd f)) fs
                     | None => [0%Z] end
  | KSkip i _ _ => match skip (S (List.length i)) i with
                   | Some rest => [1%Z; Z.of_nat (List.length i - List.length rest)]
                   | None => [0%Z] end
  | KJson c _ _ => match json_rt c with Some c' => zo (enc_one c') | None => [0%Z] end
  | KFramesHostile i ok _ =>
    (* the typed lenient decoder of whole sets (Model.TypedDec2; either variant of the *CaveatSet decoder); the frame-level
       dec_frames_len is kept as a second opinion wherever no ext header precedes a map (TypedDec2Frames) *)
    let ans := match dec_set_typed_gen true true i with Some cs => Some cs | None => dec_set_typed_gen true false i end in
    match ans with
    | Some cs => if ok then 1%Z :: Z.of_nat (List.length cs) :: map (fun c => Z.of_N (cav_type c)) cs else [0%Z]
    | None => match dec_frames_len i with
              | Some fs => if ok then 1%Z :: Z.of_nat (List.length fs) :: map (fun f => Z.of_N (fst f)) fs else [0%Z]
              | None => [0%Z] end
    end
  | KJTypeRead s _ => [Z.of_N (type_from_json_al all_reg json_aliases f_cav_unregistered s)]
  | KJTypePrint t _ => zs (str_bytes (type_to_json all_reg f_cav_min_user_defined t))
  | KDecBody ty body _ _ => match dec_body ty body with Some c => zo (enc_one c) | None => [0%Z] end
  | KDecBody2 pz ty body _ _ _ => match dec_body2_gen true pz ty body with Some c => b2z (dec_nilrs ty body) :: zo (enc_one c) | None => [0%Z] end
  | KDecSet pz i _ _ => match dec_set_typed_gen true pz i with Some cs => zo (enc_set cs) | None => [0%Z] end
  | KDecTok pz i _ _ => match dec_token_gen false true pz i with Some t => zo (enc_tok t) | None => [0%Z] end
  end.

Definition obs_out (k : mcase) : list Z :=
  match k with
  | KEnc _ ok o | KEncSet _ ok o | KEncTok _ _ _ _ _ _ _ ok o | KJson _ ok o => if ok then 1%Z :: zs o else [0%Z]
  | KFrames _ ok fs => if ok then 1%Z :: Z.of_nat (List.length fs) :: flat_map (fun f => Z.of_N (fst f) :: zs (snd f)) fs else [0%Z]
  | KFramesHostile _ ok fs => if ok then 1%Z :: Z.of_nat (List.length fs) :: map (fun f => Z.of_N (fst f)) fs else [0%Z]   (* types only: a lenient body re-encodes differently *)
  | KSkip _ ok n => if ok then [1%Z; Z.of_N n] else [0%Z]
  | KJTypeRead _ t => [Z.of_N t]
  | KJTypePrint _ o => zs (str_bytes o)
  | KDecBody _ _ ok o | KDecSet _ _ ok o | KDecTok _ _ ok o => if ok then 1%Z :: zs o else [0%Z]
  | KDecBody2 _ _ _ ok nilrs o => if ok then b2z nilrs :: 1%Z :: zs o else [0%Z]
  end.
Definition run (l : list mcase) := mismatches model_out obs_out l.
