(* Correspondence runner for the header grammar (C19). *)
From Coq Require Export List NArith ZArith Bool Uint63.
From Mac Require Export Model.Base64 Model.Header Corr.Transport.
Export ListNotations.

Inductive hcase :=
| KParse (hdr : str) (ok : bool) (toks : list bytes)
| KStrip (hdr : str) (out : str) (stripped : bool)
| KToHeader (toks : list bytes) (out : str)
| KParts (hdr : str) (parts : list (N * str))     (* 0 non-macaroon, 1 bad base64, 2 base64 ok *)
| KB64 (s : str) (ok : bool) (out : bytes)
| KFind (toks : list (N * option bool)) (perm dis : list N)
| KFindOne (toks : list (N * option bool)) (ok : bool) (perm : N) (dis : list N).  (* ParsePermissionAndDischargeTokens *)

Definition b2z (b : bool) : Z := if b then 1%Z else 0%Z.
Definition zs (l : list N) : list Z := Z.of_nat (List.length l) :: map Z.of_N l.
Definition zss (l : list (list N)) : list Z := Z.of_nat (List.length l) :: flat_map zs l.

Definition ptok_code (p : ptok) : N * str :=
  match p with
  | PNonMacaroon s => (0%N, s) | PBadBase64 s => (1%N, s) | PRaw s _ => (2%N, s)
  end.

Definition find_ids (toks : list (N * option bool)) : list N * list N :=
  let ids := map (fun t => [fst t]) toks in
  let dec := fun (b : bytes) => match b with
             | [i] => match find (fun t => N.eqb (fst t) i) toks with
                      | Some (_, Some l) => Some l | _ => None end
             | _ => None end in
  let '(p, d) := find_perm_dis dec (fun l => l) ids in
  (flat_map (fun x => x) p, flat_map (fun x => x) d).

Definition find_one (toks : list (N * option bool)) : option (list N * list N) :=
  let ids := map (fun t => [fst t]) toks in
  let dec := fun (b : bytes) => match b with
             | [i] => match find (fun t => N.eqb (fst t) i) toks with
                      | Some (_, Some l) => Some l | _ => None end
             | _ => None end in
  match perm_and_dis dec (fun l => l) ids with
  | Some (p, d) => Some (p, flat_map (fun x => x) d)
  | None => None
  end.

Definition model_out (k : hcase) : list Z :=
  match k with
  | KParse h _ _ => match parse h with Some l => 1%Z :: zss l | None => [0%Z; 0%Z] end
  | KStrip h _ _ => let '(o, b) := strip h in b2z b :: zs o
  | KToHeader t _ => zs (to_header t)
  | KParts h _ => flat_map (fun p => let '(c, s) := ptok_code p in Z.of_N c :: zs s) (bundle_parts h)
  | KB64 s _ _ => match b64_decode s with Some l => 1%Z :: zs l | None => [0%Z; 0%Z] end
  | KFind t _ _ => let '(p, d) := find_ids t in zs p ++ zs d
  | KFindOne t _ _ _ => match find_one t with Some (p, d) => 1%Z :: zs p ++ zs d | None => [0%Z] end
  end.

Definition obs_out (k : hcase) : list Z :=
  match k with
  | KParse _ ok l => if ok then 1%Z :: zss l else [0%Z; 0%Z]
  | KStrip _ o b => b2z b :: zs o
  | KToHeader _ o => zs o
  | KParts _ ps => flat_map (fun p => Z.of_N (fst p) :: zs (snd p)) ps
  | KB64 _ ok l => if ok then 1%Z :: zs l else [0%Z; 0%Z]
  | KFind _ p d => zs p ++ zs d
  | KFindOne _ ok p d => if ok then 1%Z :: zs [p] ++ zs d else [0%Z]
  end.

Definition run (l : list hcase) := mismatches model_out obs_out l.
