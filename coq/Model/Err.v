(* Error model: Go errors are observed only through [errors.Is] against the
   library's sentinel values, so an error is a set of sentinel classes, closed
   under the wrapping lattice of the sentinels, or nil.  No proofs in this file. *)
From Coq Require Import List Bool NArith.
Import ListNotations.

Record ecls := mkE {
  eUnauth  : bool;   (* macaroon.ErrUnauthorized *)
  eInvalid : bool;   (* macaroon.ErrInvalidAccess *)
  eBadCav  : bool;   (* macaroon.ErrBadCaveat *)
  eUnspec  : bool;   (* resset.ErrResourceUnspecified *)
  eMutex   : bool;   (* resset.ErrResourcesMutuallyExclusive *)
  eForRes  : bool;   (* resset.ErrUnauthorizedForResource *)
  eForAct  : bool;   (* resset.ErrUnauthorizedForAction *)
  eForRole : bool    (* flyio.ErrUnauthorizedForRole *)
}.

(* nil = None *)
Definition err := option ecls.

Definition E_other   := mkE false false false false false false false false.
Definition E_unauth  := mkE true  false false false false false false false.
Definition E_invalid := mkE true  true  false false false false false false.
Definition E_badcav  := mkE true  false true  false false false false false.
Definition E_unspec  := mkE true  true  false true  false false false false.
Definition E_mutex   := mkE true  true  false false true  false false false.
Definition E_forres  := mkE true  false false false false true  false false.
Definition E_foract  := mkE true  false false false false false true  false.
Definition E_forrole := mkE true  false false false false false false true.

Definition eunion (a b : ecls) : ecls :=
  mkE (eUnauth a || eUnauth b) (eInvalid a || eInvalid b) (eBadCav a || eBadCav b)
      (eUnspec a || eUnspec b) (eMutex a || eMutex b) (eForRes a || eForRes b)
      (eForAct a || eForAct b) (eForRole a || eForRole b).

(* merr.Append(base, other) *)
Definition eappend (a b : err) : err :=
  match a, b with
  | None, x => x
  | x, None => x
  | Some x, Some y => Some (eunion x y)
  end.

Definition is_nil (e : err) : bool := match e with None => true | Some _ => false end.

(* errors.Is(e, resset.ErrResourceUnspecified) *)
Definition is_unspec (e : err) : bool :=
  match e with None => false | Some c => eUnspec c end.

(* the observable the harness records for an error: 0 = nil, else 1 + bitset *)
Definition ecls_code (c : ecls) : N :=
  ((if eUnauth c then 1 else 0) + (if eInvalid c then 2 else 0) + (if eBadCav c then 4 else 0) +
   (if eUnspec c then 8 else 0) + (if eMutex c then 16 else 0) + (if eForRes c then 32 else 0) +
   (if eForAct c then 64 else 0) + (if eForRole c then 128 else 0))%N.

Definition err_code (e : err) : N :=
  match e with None => 0%N | Some c => (1 + 2 * ecls_code c)%N end.
