(* Authorization header grammar: macaroon.StripAuthorizationScheme, Parse,
   ToAuthorizationHeader, bundle.parseToks (up to macaroon.Decode),
   FindPermissionAndDischargeTokens.  Headers are ASCII byte lists.  No proofs here. *)
From Coq Require Import List Bool NArith.
From Mac Require Import Model.Base64.
Import ListNotations.
Local Open Scope N_scope.

Definition str := list N.

(* unicode.IsSpace restricted to ASCII: \t \n \v \f \r and ' ' *)
Definition is_space (c : N) : bool := ((9 <=? c) && (c <=? 13)) || (c =? 32).

Fixpoint trim_left (s : str) : str :=
  match s with
  | c :: r => if is_space c then trim_left r else s
  | [] => []
  end.
Definition trim_right (s : str) : str := rev (trim_left (rev s)).
Definition trim_space (s : str) : str := trim_right (trim_left s).

(* strings.Cut(s, sep) for a one-byte separator *)
Fixpoint cut (sep : N) (s : str) : option (str * str) :=
  match s with
  | [] => None
  | c :: r => if c =? sep then Some ([], r)
              else match cut sep r with
                   | Some (a, b) => Some (c :: a, b)
                   | None => None
                   end
  end.

(* strings.Split(s, sep) for a one-byte separator: always at least one element *)
Fixpoint split (sep : N) (s : str) : list str :=
  match s with
  | [] => [[]]
  | c :: r => if c =? sep then [] :: split sep r
              else match split sep r with
                   | x :: xs => (c :: x) :: xs
                   | [] => [[c]]
                   end
  end.

Definition lower (c : N) : N := if (65 <=? c) && (c <=? 90) then c + 32 else c.
Fixpoint str_eqb (a b : str) : bool :=
  match a, b with
  | [], [] => true
  | x :: r, y :: s => (x =? y) && str_eqb r s
  | _, _ => false
  end.
(* strings.EqualFold on ASCII *)
Definition eq_fold (a b : str) : bool := str_eqb (map lower a) (map lower b).

Definition s_bearer : str := [98; 101; 97; 114; 101; 114].       (* "bearer" *)
Definition s_flyv1 : str := [102; 108; 121; 118; 49].            (* "flyv1" *)
Definition s_FlyV1 : str := [70; 108; 121; 86; 49].              (* "FlyV1" *)
Definition l_fm1r : str := [102; 109; 49; 114].
Definition l_fm1a : str := [102; 109; 49; 97].
Definition l_fm2 : str := [102; 109; 50].
Definition l_fo1 : str := [102; 111; 49].
Definition c_space : N := 32.
Definition c_comma : N := 44.
Definition c_under : N := 95.

(* StripAuthorizationScheme; fuel = length of the header suffices *)
Fixpoint strip_scheme (fuel : nat) (hdr : str) : str * bool :=
  let h := trim_space hdr in
  match fuel with
  | O => (h, false)
  | S f =>
    match cut c_space h with
    | None => (h, false)
    | Some (pfx, rest) =>
      let p := trim_space pfx in
      if eq_fold p s_bearer || eq_fold p s_flyv1 then (fst (strip_scheme f rest), true)
      else (h, false)
    end
  end.
Definition strip (hdr : str) : str * bool := strip_scheme (S (List.length hdr)) hdr.

Definition is_mac_label (p : str) : bool := str_eqb p l_fm1r || str_eqb p l_fm1a || str_eqb p l_fm2.

(* macaroon.Parse: None = ErrUnrecognizedToken *)
Fixpoint parse_toks (parts : list str) : option (list bytes) :=
  match parts with
  | [] => Some []
  | p :: r =>
    match cut c_under p with
    | None => None
    | Some (pfx, b64) =>
      if is_mac_label pfx then
        match b64_decode b64 with
        | None => None
        | Some [] => None
        | Some raw => match parse_toks r with Some l => Some (raw :: l) | None => None end
        end
      else if str_eqb pfx l_fo1 then parse_toks r
      else None
    end
  end.

Definition parse (hdr : str) : option (list bytes) :=
  match parse_toks (split c_comma (fst (strip hdr))) with
  | Some [] => None
  | r => r
  end.

Fixpoint join_comma (l : list str) : str :=
  match l with
  | [] => []
  | [x] => x
  | x :: r => x ++ c_comma :: join_comma r
  end.

Definition encode_tokens (toks : list bytes) : str :=
  join_comma (map (fun t => l_fm2 ++ c_under :: b64_encode t) toks).

Definition to_header (toks : list bytes) : str := s_FlyV1 ++ c_space :: encode_tokens toks.

(* bundle.parseToks up to (not including) macaroon.Decode *)
Inductive ptok :=
| PNonMacaroon (s : str)
| PBadBase64 (s : str)
| PRaw (s : str) (raw : bytes).

Definition parse_part (part0 : str) : ptok :=
  let part := trim_space part0 in
  match cut c_under part with
  | None => PNonMacaroon part
  | Some (pfx, b64) =>
    if is_mac_label pfx then
      match b64_decode b64 with
      | None => PBadBase64 part
      | Some raw => PRaw part raw
      end
    else PNonMacaroon part
  end.

Definition bundle_parts (hdr : str) : list ptok := map parse_part (split c_comma (fst (strip hdr))).

(* FindPermissionAndDischargeTokens, parametric in the decoder *)
Section Find.
  Context {T : Type} (decode : bytes -> option T) (loc_eqb : T -> bool).
  Fixpoint find_perm_dis (toks : list bytes) : list bytes * list bytes :=
    match toks with
    | [] => ([], [])
    | t :: r =>
      let '(ps, ds) := find_perm_dis r in
      match decode t with
      | None => (ps, ds)
      | Some m => if loc_eqb m then (t :: ps, ds) else (ps, t :: ds)
      end
    end.
  (* ParsePermissionAndDischargeTokens once the header is tokenised: exactly one permission token, whatever the
     number of tokens *)
  Definition perm_and_dis (toks : list bytes) : option (bytes * list bytes) :=
    match find_perm_dis toks with
    | ([p], ds) => Some (p, ds)
    | _ => None
    end.
End Find.
