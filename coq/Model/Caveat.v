(* Caveat values, one constructor per registered caveat type plus Unregistered.
   No proofs in this file. *)
From Coq Require Import List Bool NArith ZArith String.
Import ListNotations.

Definition bytes := list N.      (* each element < 256 *)

(* A resource set is a Go map; it is modelled as an association list without
   duplicate keys (the harness emits keys in ascending order). *)
Definition rset (I : Type) := list (I * N).

Inductive cav :=
| COrganization (id mask : N)                         (* 0 *)
| CVolumes (rs : rset string)                         (* 2 *)
| CApps (rs : rset N)                                 (* 3 *)
| CValidityWindow (nb na : Z)                         (* 4, int64 *)
| CFeatureSet (rs : rset string)                      (* 5 *)
| CMutations (ms : option (list string))              (* 6, nil vs empty slice *)
| CMachines (rs : rset string)                        (* 7 *)
| CConfineUser (id : N)                               (* 8 *)
| CConfineOrganization (id : N)                       (* 9 *)
| CIsUser (id : N)                                    (* 10 *)
| C3P (loc : string) (vk tk : option bytes)           (* 11 *)
| CBind (b : option bytes)                            (* 12 *)
| CIfPresent (ifs : option (list cav)) (els : N)      (* 13 *)
| CMachineFeatureSet (rs : rset string)               (* 14 *)
| CFromMachine (id : string)                          (* 15 *)
| CClusters (rs : rset string)                        (* 16 *)
| CConfineGoogleHD (hd : string)                      (* 19 *)
| CConfineGitHubOrg (id : N)                          (* 20 *)
| CMaxValidity (secs : N)                             (* 21 *)
| CIsMember                                           (* 22 *)
| CFlyioUserID (id : N)                               (* 23 attestation *)
| CGitHubUserID (id : N)                              (* 24 attestation *)
| CGoogleUserID (id : N)                              (* 25 attestation *)
| CAction (mask : N)                                  (* 26 *)
| CCommands (cmds : option (list (option (list string) * bool)))  (* 27 *)
| CAppFeatureSet (rs : rset string)                   (* 28 *)
| CStorageObjects (rs : rset string)                  (* 29, prefix ids *)
| CAllowedRoles (mask : N)                            (* 30 *)
| CFlySrc (org app inst : string)                     (* 31 *)
| CUnregistered (ty : N) (body : bytes).

Definition cav_type (c : cav) : N :=
  match c with
  | COrganization _ _ => 0 | CVolumes _ => 2 | CApps _ => 3 | CValidityWindow _ _ => 4
  | CFeatureSet _ => 5 | CMutations _ => 6 | CMachines _ => 7 | CConfineUser _ => 8
  | CConfineOrganization _ => 9 | CIsUser _ => 10 | C3P _ _ _ => 11 | CBind _ => 12
  | CIfPresent _ _ => 13 | CMachineFeatureSet _ => 14 | CFromMachine _ => 15
  | CClusters _ => 16 | CConfineGoogleHD _ => 19 | CConfineGitHubOrg _ => 20
  | CMaxValidity _ => 21 | CIsMember => 22 | CFlyioUserID _ => 23 | CGitHubUserID _ => 24
  | CGoogleUserID _ => 25 | CAction _ => 26 | CCommands _ => 27 | CAppFeatureSet _ => 28
  | CStorageObjects _ => 29 | CAllowedRoles _ => 30 | CFlySrc _ _ _ => 31
  | CUnregistered ty _ => ty
  end%N.

Definition is_attestation (c : cav) : bool :=
  match c with
  | CFlyioUserID _ | CGitHubUserID _ | CGoogleUserID _ => true
  | _ => false
  end.

Definition ifs_list (o : option (list cav)) : list cav :=
  match o with Some l => l | None => [] end.

(* GetCaveats' traversal: a caveat, then (for wrappers) everything nested in it *)
Fixpoint flat (c : cav) : list cav :=
  c :: match c with
       | CIfPresent (Some l) _ => flat_map flat l
       | _ => []
       end.

Definition flat_all (cs : list cav) : list cav := flat_map flat cs.
