(* Go's encoding/base64 StdEncoding (padded, non-strict) on byte lists.  No proofs here. *)
From Coq Require Import List Bool NArith.
Import ListNotations.
Local Open Scope N_scope.

Definition bytes := list N.

(* alphabet: A-Z a-z 0-9 + / *)
Definition b64_char (v : N) : N :=
  if v <? 26 then 65 + v
  else if v <? 52 then 97 + (v - 26)
  else if v <? 62 then 48 + (v - 52)
  else if v =? 62 then 43 else 47.

Definition b64_sextet (c : N) : option N :=
  if (65 <=? c) && (c <=? 90) then Some (c - 65)
  else if (97 <=? c) && (c <=? 122) then Some (c - 97 + 26)
  else if (48 <=? c) && (c <=? 57) then Some (c - 48 + 52)
  else if c =? 43 then Some 62
  else if c =? 47 then Some 63
  else None.

Definition pad_char : N := 61.   (* '=' *)

Fixpoint b64_encode (bs : bytes) : list N :=
  match bs with
  | a :: b :: c :: r =>
      b64_char (a / 4) :: b64_char ((a mod 4) * 16 + b / 16) ::
      b64_char ((b mod 16) * 4 + c / 64) :: b64_char (c mod 64) :: b64_encode r
  | [a; b] => [b64_char (a / 4); b64_char ((a mod 4) * 16 + b / 16); b64_char ((b mod 16) * 4); pad_char]
  | [a] => [b64_char (a / 4); b64_char ((a mod 4) * 16); pad_char; pad_char]
  | [] => []
  end.

Definition is_nl (c : N) : bool := (c =? 10) || (c =? 13).

Fixpoint skip_nl (s : list N) : list N :=
  match s with
  | c :: r => if is_nl c then skip_nl r else s
  | [] => []
  end.

(* what follows the first '=' of a quantum that already holds [buf] sextets *)
Definition b64_finish (rest : list N) (buf : list N) : option bytes :=
  match buf with
  | [s0; s1] =>
      match skip_nl rest with
      | c :: rest' =>
          if c =? pad_char then
            match skip_nl rest' with
            | [] => Some [s0 * 4 + s1 / 16]
            | _ => None                      (* trailing garbage *)
            end
          else None                          (* incorrect padding *)
      | [] => None                           (* not enough padding *)
      end
  | [s0; s1; s2] =>
      match skip_nl rest with
      | [] => Some [s0 * 4 + s1 / 16; (s1 mod 16) * 16 + s2 / 4]
      | _ => None
      end
  | _ => None
  end.

(* [buf] = sextets of the current quantum, oldest first; [out] = decoded bytes so far *)
Fixpoint b64_dec (s : list N) (buf : list N) (out : bytes) : option bytes :=
  match s with
  | [] => match buf with [] => Some out | _ => None end
  | c :: r =>
      match b64_sextet c with
      | Some v =>
          match buf with
          | [s0; s1; s2] =>
              b64_dec r [] (out ++ [s0 * 4 + s1 / 16; (s1 mod 16) * 16 + s2 / 4; (s2 mod 4) * 64 + v])
          | _ => b64_dec r (buf ++ [v]) out
          end
      | None =>
          if is_nl c then b64_dec r buf out
          else if c =? pad_char then
            match b64_finish r buf with
            | Some tl => Some (out ++ tl)
            | None => None
            end
          else None
      end
  end.

Definition b64_decode (s : list N) : option bytes := b64_dec s [] [].
