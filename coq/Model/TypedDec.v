(* Typed, lenient decoding of the caveat bodies that are made of scalars only, as vmihailenco/msgpack v5.3.5 does it for
   the Go types of superfly/macaroon (Decoder.Decode -> DecodeValue -> getDecoder(kind)).  No proofs in this file.

   What the library accepts where the encoders would have written something else, and what is modelled here:
     - an unsigned integer field (decodeUint64Value): nil (-> 0), positive and negative fixint, uint8/16/32/64, int8/16/32/64.
       Signed codes are sign-extended to 64 bits and reinterpreted (uint64(int8(c))): -1 becomes 2^64-1.  The 64-bit result is
       then stored with reflect.Value.SetUint, which TRUNCATES to the width of the destination kind without an overflow check
       (resset.Action is a uint16, flyio.AllowedRoles a uint32): 0x10001 stored into an Action is 1.
     - an int64 field (decodeInt64Value): the same codes; unsigned codes are cast (int64(uint64)): cf ff..ff is -1.
     - a string field (DecodeString): nil (-> ""), fixstr, str8/16/32 AND bin8/16/32.
     - a []byte (decodeBytesValue) / DecodeBytes: nil (-> nil slice), fixstr, str8/16/32, bin8/16/32 (length 0 -> empty, non-nil).
     - a struct (decodeStructValue): nil (-> zero value); a MAP (fixmap/map16/map32) whose keys are the Go field names: known
       fields are decoded (the last occurrence wins), unknown keys are skipped with Skip, missing fields stay zero;
       an ARRAY: length 0 -> zero value, length = number of fields -> the fields in order, ANY OTHER LENGTH IS REFUSED
       (errArrayStruct "number of fields in array-encoded struct has changed").  (Later versions of the library fill short
       arrays and skip the surplus of long ones; v5.3.5, which /repo pins, does not.)
     - auth.GoogleUserID has a custom decoder behind nilAwareDecoder: nil -> 0 (reflect.Zero), otherwise DecodeBytes and
       big.Int.SetBytes (big-endian magnitude; str codes are accepted like bin codes, leading zero bytes are harmless).
   Nothing is required of the bytes after the one value that is decoded. *)
From Coq Require Import List Bool NArith ZArith String Ascii.
From Mac Require Import Model.Caveat Model.Msgpack Model.Codec.
Import ListNotations.
Local Open Scope N_scope.

(* bytes -> Coq string (inverse of Codec.str_bytes) *)
Definition bytes_str (l : bytes) : string := fold_right (fun c s => String (ascii_of_N c) s) EmptyString l.

Fixpoint bytes_eqb (a b : bytes) : bool :=
  match a, b with
  | [], [] => true
  | x :: a', y :: b' => (x =? y) && bytes_eqb a' b'
  | _, _ => false
  end.

(* k bytes of big-endian payload, mapped through f *)
Definition rd_be {A} (k : N) (f : N -> A) (r : bytes) : option (A * bytes) :=
  option_map (fun p => (f (be_val (fst p) 0), snd p)) (take k r).

(* ---- integers *)
(* DecodeUint64: Codec.dec_uint_len already is the lenient reader (nil, fixints, cc..cf, d0..d3 sign-extended) *)
Definition dec_uint64_len : bytes -> option (N * bytes) := dec_uint_len.

(* two's complement reading of a [bits]-wide pattern *)
Definition wrap (bits : N) (v : N) : Z :=
  if v <? 2 ^ (bits - 1) then Z.of_N v else (Z.of_N v - Z.of_N (2 ^ bits))%Z.

(* DecodeInt64 *)
Definition dec_int64_len (l : bytes) : option (Z * bytes) :=
  match l with
  | [] => None
  | c :: r =>
    if c <=? 127 then Some (Z.of_N c, r)
    else if c =? 192 then Some (0%Z, r)
    else if 224 <=? c then Some ((Z.of_N c - 256)%Z, r)
    else if c =? 204 then rd_be 1 Z.of_N r
    else if c =? 205 then rd_be 2 Z.of_N r
    else if c =? 206 then rd_be 4 Z.of_N r
    else if c =? 207 then rd_be 8 (wrap 64) r          (* int64(uint64) *)
    else if c =? 208 then rd_be 1 (wrap 8) r
    else if c =? 209 then rd_be 2 (wrap 16) r
    else if c =? 210 then rd_be 4 (wrap 32) r
    else if c =? 211 then rd_be 8 (wrap 64) r
    else None
  end.

(* ---- strings and byte strings *)
(* Decoder.bytesLen: None = nil (-1) *)
Definition dec_blen (l : bytes) : option (option N * bytes) :=
  match l with
  | [] => None
  | c :: r =>
    if c =? 192 then Some (None, r)
    else if (160 <=? c) && (c <=? 191) then Some (Some (c - 160), r)
    else if (c =? 217) || (c =? 196) then rd_be 1 Some r
    else if (c =? 218) || (c =? 197) then rd_be 2 Some r
    else if (c =? 219) || (c =? 198) then rd_be 4 Some r
    else None
  end.

(* decodeBytesValue / DecodeBytes: nil -> nil slice (None), length 0 -> empty slice (Some []) *)
Definition dec_bytes_len (l : bytes) : option (option bytes * bytes) :=
  match dec_blen l with
  | None => None
  | Some (None, r) => Some (None, r)
  | Some (Some n, r) => match take n r with Some (p, r') => Some (Some p, r') | None => None end
  end.

(* DecodeString (and decodeStringTemp for map keys): nil -> "" *)
Definition dec_str_len (l : bytes) : option (bytes * bytes) :=
  match dec_bytes_len l with
  | None => None
  | Some (None, r) => Some ([], r)
  | Some (Some p, r) => Some (p, r)
  end.

(* ---- struct fields *)
Inductive fkind := FU (bits : N) | FI | FS.            (* uintN (stored with SetUint: truncation to N bits), int64, string *)
Inductive fval := VU (n : N) | VI (z : Z) | VS (s : bytes).

Definition fzero (k : fkind) : fval := match k with FU _ => VU 0 | FI => VI 0%Z | FS => VS [] end.

Definition dec_field (k : fkind) (l : bytes) : option (fval * bytes) :=
  match k with
  | FU bits => option_map (fun p => (VU (fst p mod 2 ^ bits), snd p)) (dec_uint64_len l)
  | FI => option_map (fun p => (VI (fst p), snd p)) (dec_int64_len l)
  | FS => option_map (fun p => (VS (fst p), snd p)) (dec_str_len l)
  end.

(* array form: the fields in declaration order *)
Fixpoint dec_fields (ks : list fkind) (l : bytes) : option (list fval * bytes) :=
  match ks with
  | [] => Some ([], l)
  | k :: ks' =>
    match dec_field k l with
    | None => None
    | Some (v, r) => match dec_fields ks' r with Some (vs, r') => Some (v :: vs, r') | None => None end
    end
  end.

(* map form: n times a key (decodeStringTemp) and, for a known key, the field's value; an unknown key's value is skipped *)
Definition schema := list (bytes * fkind).

Fixpoint find_field (sch : schema) (name : bytes) (i : nat) : option (nat * fkind) :=
  match sch with
  | [] => None
  | (nm, k) :: sch' => if bytes_eqb nm name then Some (i, k) else find_field sch' name (S i)
  end.

Fixpoint set_nth (i : nat) (v : fval) (vs : list fval) : list fval :=
  match vs, i with
  | [], _ => []
  | _ :: r, O => v :: r
  | x :: r, S i' => x :: set_nth i' v r
  end.

Fixpoint dec_map_entries (sch : schema) (n : nat) (vs : list fval) (l : bytes) : option (list fval * bytes) :=
  match n with
  | O => Some (vs, l)
  | S n' =>
    match dec_str_len l with
    | None => None
    | Some (name, r) =>
      match find_field sch name O with
      | Some (i, k) =>
        match dec_field k r with
        | Some (v, r') => dec_map_entries sch n' (set_nth i v vs) r'
        | None => None
        end
      | None =>
        match skip (S (List.length r)) r with
        | Some r' => dec_map_entries sch n' vs r'
        | None => None
        end
      end
    end
  end.

Definition fzeros (sch : schema) : list fval := map (fun e => fzero (snd e)) sch.

(* every entry takes at least two bytes, so a count above half the remaining length fails at once (as the library does, at EOF) *)
Definition dec_map (sch : schema) (n : N) (r : bytes) : option (list fval * bytes) :=
  if N.of_nat (List.length r) <? 2 * n then None else dec_map_entries sch (N.to_nat n) (fzeros sch) r.

(* decodeStructValue *)
Definition dec_struct (sch : schema) (l : bytes) : option (list fval * bytes) :=
  match l with
  | [] => None
  | c :: r =>
    if c =? 192 then Some (fzeros sch, r)
    else if (128 <=? c) && (c <=? 143) then dec_map sch (c - 128) r
    else if c =? 222 then match take 2 r with Some (lb, r1) => dec_map sch (be_val lb 0) r1 | None => None end
    else if c =? 223 then match take 4 r with Some (lb, r1) => dec_map sch (be_val lb 0) r1 | None => None end
    else
      match dec_arr_hdr l with
      | None => None
      | Some (n, r1) =>
        if n =? 0 then Some (fzeros sch, r1)
        else if n =? N.of_nat (List.length sch) then dec_fields (map snd sch) r1
        else None                                   (* errArrayStruct *)
      end
  end.

(* ---- the Go types of the scalar-bodied caveats; field names are the Go field names (no msgpack tags in /repo) *)
Definition nm (s : string) : bytes := str_bytes s.

Definition sch_org : schema := [(nm "ID", FU 64); (nm "Mask", FU 16)].          (* flyio.Organization{ID uint64; Mask resset.Action} *)
Definition sch_vw : schema := [(nm "NotBefore", FI); (nm "NotAfter", FI)].      (* macaroon.ValidityWindow *)
Definition sch_id : schema := [(nm "ID", FU 64)].                               (* auth.ConfineUser, auth.ConfineOrganization, flyio.IsUser *)
Definition sch_sid : schema := [(nm "ID", FS)].                                 (* flyio.FromMachine{ID string} *)
Definition sch_none : schema := [].                                             (* flyio.IsMember struct{} *)
Definition sch_src : schema := [(nm "Organization", FS); (nm "App", FS); (nm "Instance", FS)].   (* flyio.FlySrc *)

Definition bare_uint (bits : N) (K : N -> cav) (b : bytes) : option (cav * bytes) :=
  option_map (fun p => (K (fst p mod 2 ^ bits), snd p)) (dec_uint64_len b).

Definition dec_body_rest (ty : N) (b : bytes) : option (cav * bytes) :=
  if ty =? 0 then
    match dec_struct sch_org b with Some ([VU id; VU m], r) => Some (COrganization id m, r) | _ => None end
  else if ty =? 4 then
    match dec_struct sch_vw b with Some ([VI nb; VI na], r) => Some (CValidityWindow nb na, r) | _ => None end
  else if ty =? 8 then
    match dec_struct sch_id b with Some ([VU id], r) => Some (CConfineUser id, r) | _ => None end
  else if ty =? 9 then
    match dec_struct sch_id b with Some ([VU id], r) => Some (CConfineOrganization id, r) | _ => None end
  else if ty =? 10 then
    match dec_struct sch_id b with Some ([VU id], r) => Some (CIsUser id, r) | _ => None end
  else if ty =? 12 then
    option_map (fun p => (CBind (fst p), snd p)) (dec_bytes_len b)
  else if ty =? 15 then
    match dec_struct sch_sid b with Some ([VS s], r) => Some (CFromMachine (bytes_str s), r) | _ => None end
  else if ty =? 19 then
    option_map (fun p => (CConfineGoogleHD (bytes_str (fst p)), snd p)) (dec_str_len b)
  else if ty =? 20 then bare_uint 64 CConfineGitHubOrg b
  else if ty =? 21 then bare_uint 64 CMaxValidity b
  else if ty =? 22 then
    match dec_struct sch_none b with Some ([], r) => Some (CIsMember, r) | _ => None end
  else if ty =? 23 then bare_uint 64 CFlyioUserID b
  else if ty =? 24 then bare_uint 64 CGitHubUserID b
  else if ty =? 25 then
    match dec_bytes_len b with
    | Some (None, r) => Some (CGoogleUserID 0, r)                         (* nilAwareDecoder: reflect.Zero *)
    | Some (Some p, r) => Some (CGoogleUserID (be_val p 0), r)            (* big.Int.SetBytes *)
    | None => None
    end
  else if ty =? 26 then bare_uint 16 CAction b                            (* resset.Action = uint16 *)
  else if ty =? 30 then bare_uint 32 CAllowedRoles b                      (* flyio.AllowedRoles = Role = uint32 *)
  else if ty =? 31 then
    match dec_struct sch_src b with
    | Some ([VS o; VS a; VS i], r) => Some (CFlySrc (bytes_str o) (bytes_str a) (bytes_str i), r)
    | _ => None
    end
  else None.

Definition dec_body (ty : N) (b : bytes) : option cav := option_map fst (dec_body_rest ty b).

(* the constructors covered *)
Definition scalar_cav (c : cav) : bool :=
  match c with
  | COrganization _ _ | CValidityWindow _ _ | CConfineUser _ | CConfineOrganization _ | CIsUser _ | CBind _
  | CFromMachine _ | CConfineGoogleHD _ | CConfineGitHubOrg _ | CMaxValidity _ | CIsMember | CFlyioUserID _
  | CGitHubUserID _ | CGoogleUserID _ | CAction _ | CAllowedRoles _ | CFlySrc _ _ _ => true
  | _ => false
  end.

(* the Go value behind a model caveat: action masks are 16 bits wide, role masks 32 (Proofs.CodecProofs.wf_cav only asks
   for 64).  [trunc_cav c] is what reflect's SetUint leaves of c; [fits_cav c] says that nothing is lost. *)
Definition trunc_cav (c : cav) : cav :=
  match c with
  | COrganization id m => COrganization id (m mod 2 ^ 16)
  | CAction m => CAction (m mod 2 ^ 16)
  | CAllowedRoles m => CAllowedRoles (m mod 2 ^ 32)
  | other => other
  end.
Definition fits_cav (c : cav) : bool :=
  match c with
  | COrganization _ m | CAction m => m <? 2 ^ 16
  | CAllowedRoles m => m <? 2 ^ 32
  | _ => true
  end.
