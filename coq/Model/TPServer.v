(* The third-party discharge service (tp.TP with its MemoryStore): flows, secrets, the
   init / poll / user-visit handlers and the application's approve / abort calls.
   Secrets are fresh atoms (their index); a guessed secret is one the store never issued.
   Tickets are references to the root tokens of the scenario.  No proofs in this file. *)
From Coq Require Import List Bool NArith ZArith.
Import ListNotations.
Local Open Scope N_scope.

Inductive tref :=
| TValid (i : N)        (* the ticket of the third-party caveat of root token i (opens under the service key) *)
| TTampered (i : N)     (* that ticket with a byte flipped *)
| TForeign              (* a ticket sealed under another third party's key *)
| TEmpty.

Inductive sref :=
| SPoll (f : N)         (* poll secret of the f-th flow the store created *)
| SUser (f : N)         (* user secret of the f-th flow *)
| SGuess.               (* a secret the store never issued *)

Inductive body :=
| BDischarge (ticket : N) (cavs : list N)   (* a discharge minted from that ticket carrying those caveats *)
| BError (msg : N).

(* what the application's init handler decides *)
Inductive init_mode :=
| MImmediate (cavs : list N)
| MPoll
| MUser
| MError (status msg : N).

(* what the application's user-page handler does *)
Inductive decision :=
| DApprove (cavs : list N)
| DAbort (msg : N)
| DNone.

Inductive action :=
| AInit (t : tref) (m : init_mode)
| APoll (s : sref)
| AUserVisit (s : sref) (d : decision)
| AApprovePoll (s : sref) (cavs : list N)
| AAbortPoll (s : sref) (msg : N)
| AApproveUser (s : sref) (cavs : list N)
| AAbortUser (s : sref) (msg : N).

Record flow := mkFlow { fl_ticket : N; fl_resp : option (N * body); fl_alive : bool }.
Definition store := list flow.     (* index = order of creation *)

(* observations *)
Inductive obs :=
| ONotFound (app : bool)                  (* 404 {"error":"not found"}; did the application run? *)
| OServerError (app : bool)               (* 500 *)
| ONotReady                               (* 202 *)
| OBody (status : N) (b : body) (app : bool)
| OPollURL (f : N)                        (* 201 with a poll URL for new flow f *)
| OUserURL (f : N)                        (* 201 with poll and user URLs for new flow f *)
| OCall (ok : bool)                       (* result of a direct application call (DischargePoll, AbortPoll, ...) *)
| OVisited (app : bool) (ok : bool).      (* user page: middleware passed to the application, its call succeeded *)

Definition get (st : store) (f : N) : option flow :=
  match nth_error st (N.to_nat f) with
  | Some fl => if fl_alive fl then Some fl else None
  | None => None
  end.

Fixpoint set_nth (n : nat) (st : store) (fl : flow) : store :=
  match n, st with
  | O, _ :: r => fl :: r
  | S m, x :: r => x :: set_nth m r fl
  | _, [] => []
  end.
Definition put (st : store) (f : N) (fl : flow) : store := set_nth (N.to_nat f) st fl.

Definition by_poll (st : store) (s : sref) : option (N * flow) :=
  match s with SPoll f => option_map (fun fl => (f, fl)) (get st f) | _ => None end.
Definition by_user (st : store) (s : sref) : option (N * flow) :=
  match s with SUser f => option_map (fun fl => (f, fl)) (get st f) | _ => None end.

Definition set_resp (st : store) (f : N) (fl : flow) (r : N * body) : store :=
  put st f (mkFlow (fl_ticket fl) (Some r) true).

Definition step (st : store) (a : action) : store * obs :=
  match a with
  | AInit t m =>
    match t with
    | TValid i =>
      match m with
      | MImmediate cavs => (st, OBody 201 (BDischarge i cavs) true)
      | MPoll => (st ++ [mkFlow i None true], OPollURL (N.of_nat (List.length st)))
      | MUser => (st ++ [mkFlow i None true], OUserURL (N.of_nat (List.length st)))
      | MError status msg => (st, OBody status (BError msg) true)
      end
    | _ => (st, OServerError false)         (* the ticket does not open: the application is never invoked *)
    end
  | APoll s =>
    match by_poll st s with
    | None => (st, ONotFound false)
    | Some (f, fl) =>
      match fl_resp fl with
      | None => (st, ONotReady)
      | Some (status, b) => (put st f (mkFlow (fl_ticket fl) (fl_resp fl) false), OBody status b false)
      end
    end
  | AUserVisit s d =>
    match by_user st s with
    | None => (st, ONotFound false)
    | Some (f, fl) =>
      match d with
      | DApprove cavs => (set_resp st f fl (200, BDischarge (fl_ticket fl) cavs), OVisited true true)
      | DAbort msg => (set_resp st f fl (200, BError msg), OVisited true true)
      | DNone => (st, OVisited true true)
      end
    end
  | AApprovePoll s cavs =>
    match by_poll st s with
    | None => (st, OCall false)
    | Some (f, fl) => (set_resp st f fl (200, BDischarge (fl_ticket fl) cavs), OCall true)
    end
  | AAbortPoll s msg =>
    match by_poll st s with
    | None => (st, OCall false)
    | Some (f, fl) => (set_resp st f fl (200, BError msg), OCall true)
    end
  | AApproveUser s cavs =>
    match by_user st s with
    | None => (st, OCall false)
    | Some (f, fl) => (set_resp st f fl (200, BDischarge (fl_ticket fl) cavs), OCall true)
    end
  | AAbortUser s msg =>
    match by_user st s with
    | None => (st, OCall false)
    | Some (f, fl) => (set_resp st f fl (200, BError msg), OCall true)
    end
  end.

Fixpoint run (st : store) (l : list action) : list obs :=
  match l with
  | [] => []
  | a :: r => let '(st', o) := step st a in o :: run st' r
  end.

Fixpoint final (st : store) (l : list action) : store :=
  match l with
  | [] => st
  | a :: r => final (fst (step st a)) r
  end.
