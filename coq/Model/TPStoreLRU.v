(* The capacity-bounded flow store of the discharge service: tp.MemoryStore on top of ONE
   hashicorp/golang-lru/v2 cache (lru.Cache -> simplelru.LRU), and the handlers of tp/server.go
   written as the sequence of store calls they make.  Same [action] / [obs] / [flow] types as
   Model/TPServer.v (whose store is unbounded).  Definitions only; proofs are in
   Proofs/TPStoreLRUProofs.v.

   What is mirrored, with the Go source it mirrors:

   golang-lru (simplelru/lru.go), capacity = number of KEYS:
     Get(k)     hit: MoveToFront(k), value;  miss: nothing changes            [c_get]
     Add(k,v)   k present: MoveToFront, overwrite;  else PushFront(k) and, when the list is now
                longer than the capacity, removeOldest() (the BACK of the list)  [c_add]
     Remove(k)  removes k if present, otherwise nothing                        [c_rm]
   The key list below is the evictList, most recently used first.

   tp/store.go: every flow owns TWO keys, "u"+digest(userSecret) [KUser f] and
   "p"+digest(pollSecret) [KPoll f], both mapped to the same *lockedStoreData (here: index f of
   the flow list, so an update through one key is seen through the other).
     Insert             Add(userKey) then Add(pollKey)                          [s_insert]
     GetBy*/UpdateBy*   ONE Cache.Get each (so each call refreshes the key it uses)  [s_lookup / s_update]
     DeleteBy*          Cache.Get(key); hit: Remove(pollKey) then Remove(userKey);
                        miss: errNotFound                                       [s_delete]
   A secret presented at the wrong endpoint ("p"+digest(userSecret), ...) or a guessed one
   names a key the cache never held: [pkey] / [ukey] answer None.

   tp/server.go:
     HandlePollRequest       GetByPollSecret; 404 on a miss; 202 when no response is stored;
                             else DeleteByPollSecret (500 on a miss) and the stored response
     UserRequestMiddleware   GetByUserSecret; 404 on a miss; else the application runs
     dischargePoller/abortPoller   GetBy<X>Secret; error on a miss; UpdateBy<X>Secret with the copy
                             obtained by the Get (ticket kept, response filled in); error on a miss
     RespondPoll/RespondUserInteractive   Insert
   The branches "the second store call of one handler misses" (500 from the poll handler,
   an error from Discharge*/Abort* after a successful Get) are written out below exactly as in the
   Go code.  Sequentially they cannot be taken: the first call moved the key to the front and no
   other store call intervenes ([lookup_again] in the proof file); they need a concurrent Insert
   and capacity pressure.

   [fl_alive] is ghost state here: no lookup reads it.  DeleteBy* clears it so that the flow
   list evolves exactly as in Model/TPServer.v and the two models can be compared. *)
From Coq Require Import List Bool NArith ZArith.
From Mac Require Import Model.TPServer.
Import ListNotations.
Local Open Scope N_scope.

Inductive key :=
| KPoll (f : N)      (* "p" + digest(poll secret of flow f) *)
| KUser (f : N).     (* "u" + digest(user secret of flow f) *)

Definition key_flow (k : key) : N := match k with KPoll f => f | KUser f => f end.

Definition key_eqb (a b : key) : bool :=
  match a, b with
  | KPoll x, KPoll y => N.eqb x y
  | KUser x, KUser y => N.eqb x y
  | _, _ => false
  end.

(* ---- golang-lru: the recency list, most recently used first ---- *)

Definition c_has (k : key) (ks : list key) : bool := existsb (key_eqb k) ks.

(* Remove(k) *)
Definition c_rm (k : key) (ks : list key) : list key := filter (fun x => negb (key_eqb k x)) ks.

(* Get(k): Some (list after MoveToFront) on a hit *)
Definition c_get (k : key) (ks : list key) : option (list key) :=
  if c_has k ks then Some (k :: c_rm k ks) else None.

Fixpoint drop_last (ks : list key) : list key :=
  match ks with
  | [] => []
  | [_] => []
  | x :: r => x :: drop_last r
  end.

(* Add(k, _) *)
Definition c_add (cap : nat) (k : key) (ks : list key) : list key :=
  if c_has k ks then k :: c_rm k ks
  else if Nat.ltb cap (S (List.length ks)) then drop_last (k :: ks) else k :: ks.

(* ---- tp/store.go ---- *)

Record lstore := mkL { ls_flows : store; ls_keys : list key }.
Definition lempty : lstore := mkL [] [].

(* the cache key a secret names at the poll endpoint / at the user endpoint *)
Definition pkey (s : sref) : option key := match s with SPoll f => Some (KPoll f) | _ => None end.
Definition ukey (s : sref) : option key := match s with SUser f => Some (KUser f) | _ => None end.

(* Cache.Get(key) followed by reading the record: (flow index, copy of the data, store with the
   key refreshed) *)
Definition s_lookup (ls : lstore) (ok : option key) : option (N * flow * lstore) :=
  match ok with
  | None => None
  | Some k =>
    match c_get k (ls_keys ls) with
    | None => None
    | Some ks' =>
      match nth_error (ls_flows ls) (N.to_nat (key_flow k)) with
      | Some fl => Some (key_flow k, fl, mkL (ls_flows ls) ks')
      | None => None       (* a key without a record: Insert creates both together *)
      end
    end
  end.

(* UpdateBy*Secret(secret, sd) *)
Definition s_update (ls : lstore) (ok : option key) (sd : flow) : option lstore :=
  match s_lookup ls ok with
  | None => None
  | Some (f, _, ls1) => Some (mkL (put (ls_flows ls1) f sd) (ls_keys ls1))
  end.

(* DeleteBy*Secret(secret) *)
Definition s_delete (ls : lstore) (ok : option key) : option lstore :=
  match s_lookup ls ok with
  | None => None
  | Some (f, fl, ls1) =>
    Some (mkL (put (ls_flows ls1) f (mkFlow (fl_ticket fl) (fl_resp fl) false))
              (c_rm (KUser f) (c_rm (KPoll f) (ls_keys ls1))))
  end.

(* Insert(&StoreData{Ticket: tk}): the new flow's index and the store *)
Definition s_insert (cap : nat) (ls : lstore) (tk : N) : N * lstore :=
  let f := N.of_nat (List.length (ls_flows ls)) in
  (f, mkL (ls_flows ls ++ [mkFlow tk None true])
          (c_add cap (KPoll f) (c_add cap (KUser f) (ls_keys ls)))).

(* ---- tp/server.go ---- *)

(* dischargePoller / abortPoller through the key [ok]; [mk] builds the stored body from the
   ticket of the record that the first Get returned *)
Definition h_decide (ls : lstore) (ok : option key) (mk : N -> body) : lstore * bool :=
  match s_lookup ls ok with
  | None => (ls, false)
  | Some (_, sd, ls1) =>
    match s_update ls1 ok (mkFlow (fl_ticket sd) (Some (200, mk (fl_ticket sd))) true) with
    | None => (ls1, false)           (* key gone between Get and Update: not sequentially *)
    | Some ls2 => (ls2, true)
    end
  end.

(* HandlePollRequest *)
Definition h_poll (ls : lstore) (s : sref) : lstore * obs :=
  match s_lookup ls (pkey s) with
  | None => (ls, ONotFound false)
  | Some (_, sd, ls1) =>
    match fl_resp sd with
    | None => (ls1, ONotReady)
    | Some (status, b) =>
      match s_delete ls1 (pkey s) with
      | None => (ls1, OServerError false)   (* key gone between Get and Delete: not sequentially *)
      | Some ls2 => (ls2, OBody status b false)
      end
    end
  end.

(* UserRequestMiddleware + the application's page handler deciding [d] with the secret of the
   request (DischargeUserInteractive / AbortUserInteractive / nothing) *)
Definition h_visit (ls : lstore) (s : sref) (d : decision) : lstore * obs :=
  match s_lookup ls (ukey s) with
  | None => (ls, ONotFound false)
  | Some (_, _, ls1) =>
    match d with
    | DApprove cavs =>
      let '(ls2, ok) := h_decide ls1 (ukey s) (fun tk => BDischarge tk cavs) in (ls2, OVisited true ok)
    | DAbort msg =>
      let '(ls2, ok) := h_decide ls1 (ukey s) (fun _ => BError msg) in (ls2, OVisited true ok)
    | DNone => (ls1, OVisited true true)
    end
  end.

Definition step_lru (cap : nat) (ls : lstore) (a : action) : lstore * obs :=
  match a with
  | AInit t m =>
    match t with
    | TValid i =>
      match m with
      | MImmediate cavs => (ls, OBody 201 (BDischarge i cavs) true)
      | MPoll => let '(f, ls') := s_insert cap ls i in (ls', OPollURL f)
      | MUser => let '(f, ls') := s_insert cap ls i in (ls', OUserURL f)
      | MError status msg => (ls, OBody status (BError msg) true)
      end
    | _ => (ls, OServerError false)
    end
  | APoll s => h_poll ls s
  | AUserVisit s d => h_visit ls s d
  | AApprovePoll s cavs =>
    let '(ls', ok) := h_decide ls (pkey s) (fun tk => BDischarge tk cavs) in (ls', OCall ok)
  | AAbortPoll s msg =>
    let '(ls', ok) := h_decide ls (pkey s) (fun _ => BError msg) in (ls', OCall ok)
  | AApproveUser s cavs =>
    let '(ls', ok) := h_decide ls (ukey s) (fun tk => BDischarge tk cavs) in (ls', OCall ok)
  | AAbortUser s msg =>
    let '(ls', ok) := h_decide ls (ukey s) (fun _ => BError msg) in (ls', OCall ok)
  end.

Fixpoint run_lru (cap : nat) (ls : lstore) (l : list action) : list obs :=
  match l with
  | [] => []
  | a :: r => let '(ls', o) := step_lru cap ls a in o :: run_lru cap ls' r
  end.

Fixpoint final_lru (cap : nat) (ls : lstore) (l : list action) : lstore :=
  match l with
  | [] => ls
  | a :: r => final_lru cap (fst (step_lru cap ls a)) r
  end.
