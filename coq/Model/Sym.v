(* Symbolic (Dolev-Yao) model of tokens: term algebra, token operations, verification.
   HMAC-SHA256, SHA-256, 16-byte truncation and ChaCha20-Poly1305 are free constructors;
   random values are fresh atoms.  Data caveats are abstract (identity + the two flags the
   protocol reads).  No proofs in this file. *)
From Coq Require Import List Bool NArith.
Import ListNotations.
Local Open Scope N_scope.

(* a first-party caveat as the protocol sees it: identity (= canonical encoding),
   is it an attestation, does it wrap an attestation at some depth *)
Record dcav := mkD { d_id : N; d_att : bool; d_wrap : bool }.

Inductive term :=
| TLit (b : list N)                     (* attacker-chosen / public bytes *)
| TKey (i : N)                          (* long-term secret key *)
| TFresh (i : N)                        (* fresh random value *)
| TMac (k : term) (m : msg)             (* HMAC-SHA256(k, enc m) *)
| TFin (t : term)                       (* finalizeSignature *)
| THash (t : term)                      (* SHA-256 *)
| TPre16 (t : term)                     (* first 16 bytes *)
| TSeal (k : term) (r : N) (pt : term)  (* AEAD seal under k with random nonce r *)
| TTicket (dk : term) (cavs : list dcav)(* encode(wireTicket{dk, cavs}) *)
with msg :=
| MNonce (kid rnd : term) (proof : bool) (ver : N)
| MCav (c : pcav)
with pcav :=
| PData (d : dcav)
| P3P (loc : N) (vk tk : term)
| PBind (t : term).

Definition dcav_eqb (a b : dcav) : bool :=
  (d_id a =? d_id b) && Bool.eqb (d_att a) (d_att b) && Bool.eqb (d_wrap a) (d_wrap b).

Fixpoint list_eqb {A} (e : A -> A -> bool) (a b : list A) : bool :=
  match a, b with
  | [], [] => true
  | x :: r, y :: s => e x y && list_eqb e r s
  | _, _ => false
  end.

Fixpoint term_eqb (a b : term) {struct a} : bool :=
  match a, b with
  | TLit x, TLit y => list_eqb N.eqb x y
  | TKey i, TKey j => i =? j
  | TFresh i, TFresh j => i =? j
  | TMac k m, TMac k' m' => term_eqb k k' && msg_eqb m m'
  | TFin t, TFin t' => term_eqb t t'
  | THash t, THash t' => term_eqb t t'
  | TPre16 t, TPre16 t' => term_eqb t t'
  | TSeal k r p, TSeal k' r' p' => term_eqb k k' && (r =? r') && term_eqb p p'
  | TTicket d c, TTicket d' c' => term_eqb d d' && list_eqb dcav_eqb c c'
  | _, _ => false
  end
with msg_eqb (a b : msg) {struct a} : bool :=
  match a, b with
  | MNonce k r p v, MNonce k' r' p' v' => term_eqb k k' && term_eqb r r' && Bool.eqb p p' && (v =? v')
  | MCav c, MCav c' => pcav_eqb c c'
  | _, _ => false
  end
with pcav_eqb (a b : pcav) {struct a} : bool :=
  match a, b with
  | PData d, PData d' => dcav_eqb d d'
  | P3P l v t, P3P l' v' t' => (l =? l') && term_eqb v v' && term_eqb t t'
  | PBind t, PBind t' => term_eqb t t'
  | _, _ => false
  end.

Record nonce := mkNonce { n_kid : term; n_rnd : term; n_proof : bool; n_ver : N }.
Definition mnonce (n : nonce) : msg := MNonce (n_kid n) (n_rnd n) (n_proof n) (n_ver n).

Record token := mkTok {
  t_nonce : nonce;
  t_loc : N;
  t_cavs : list pcav;       (* in the order they were added *)
  t_tail : term;
  t_newproof : bool         (* proof minted but not yet finalised by Encode *)
}.

(* the MAC chain: HMAC(...HMAC(HMAC(k, nonce), c1)..., cn) *)
Definition chain_from (start : term) (cs : list pcav) : term :=
  fold_left (fun acc c => TMac acc (MCav c)) cs start.
Definition chain (k : term) (n : nonce) (cs : list pcav) : term := chain_from (TMac k (mnonce n)) cs.

Definition fin_if (b : bool) (t : term) : term := if b then TFin t else t.

(* ---- minting and attenuation *)
Definition mint (k kid : term) (loc : N) (proof : bool) (ver : N) (rnd : term) : token :=
  let n := mkNonce kid rnd proof ver in
  mkTok n loc [] (TMac k (mnonce n)) proof.

Definition in_pcavs (c : pcav) (l : list pcav) : bool := existsb (pcav_eqb c) l.

(* Macaroon.dedup *)
Fixpoint dedup (seen : list pcav) (cs : list pcav) : list pcav :=
  match cs with
  | [] => []
  | c :: r => if in_pcavs c seen then dedup seen r else c :: dedup (c :: seen) r
  end.

Definition locs3p (cs : list pcav) : list N :=
  flat_map (fun c => match c with P3P l _ _ => [l] | _ => [] end) cs.

(* the loop of Macaroon.Add after dedup; not atomic: on error the caveats added so far stay.
   A 3P caveat arrives with its fresh discharge key [rn] in place of the verifier key and is
   sealed under the current tail with seal nonce [r] *)
Inductive addcav :=
| AData (d : dcav)
| A3P (loc : N) (rn : term) (r : N) (tk : term)
| ABind (t : term).

Definition addcav_pre (a : addcav) : pcav :=   (* what dedup compares: VerifierKey still empty *)
  match a with
  | AData d => PData d
  | A3P l _ _ tk => P3P l (TLit []) tk
  | ABind t => PBind t
  end.

Fixpoint add_loop (proof : bool) (seen3p : list N) (cavs : list pcav) (tail : term) (l : list addcav)
  : list pcav * term * bool :=
  match l with
  | [] => (cavs, tail, true)
  | a :: r =>
    match a with
    | AData d =>
      if (d_att d && negb proof) || d_wrap d then (cavs, tail, false)
      else add_loop proof seen3p (cavs ++ [PData d]) (TMac tail (MCav (PData d))) r
    | A3P loc rn rs tk =>
      if existsb (N.eqb loc) seen3p then (cavs, tail, false)
      else let c := P3P loc (TSeal tail rs rn) tk in
           add_loop proof (loc :: seen3p) (cavs ++ [c]) (TMac tail (MCav c)) r
    | ABind t =>
      add_loop proof seen3p (cavs ++ [PBind t]) (TMac tail (MCav (PBind t))) r
    end
  end.

Fixpoint dedup_add (seen : list pcav) (l : list addcav) : list addcav :=
  match l with
  | [] => []
  | a :: r => if in_pcavs (addcav_pre a) seen then dedup_add seen r
              else a :: dedup_add (addcav_pre a :: seen) r
  end.

(* Macaroon.Add: (token', ok) *)
Definition add (t : token) (l : list addcav) : token * bool :=
  if n_proof (t_nonce t) && negb (t_newproof t) then (t, false)
  else
    let '(cavs, tail, ok) :=
      add_loop (n_proof (t_nonce t)) (locs3p (t_cavs t)) (t_cavs t) (t_tail t) (dedup_add (t_cavs t) l) in
    (mkTok (t_nonce t) (t_loc t) cavs tail (t_newproof t), ok).

(* Macaroon.Encode: finalises a new proof once; the wire value is the token itself *)
Definition encode (t : token) : token :=
  if n_proof (t_nonce t) && t_newproof t
  then mkTok (t_nonce t) (t_loc t) (t_cavs t) (TFin (t_tail t)) false
  else t.

(* Decode of the wire form (no finalisation): newProof is not on the wire *)
Definition decode (t : token) : token := mkTok (t_nonce t) (t_loc t) (t_cavs t) (t_tail t) false.

Definition clone (t : token) : token * token := let e := encode t in (e, decode e).

(* macaroon.DischargeTicket *)
Definition discharge_ticket (ka : term) (loc : N) (ticket : term) (proof : bool) (rnd : term)
  : option (list dcav * token) :=
  match ticket with
  | TSeal k _ (TTicket dk cavs) =>
    if term_eqb k ka then Some (cavs, mint dk ticket loc proof 1 rnd) else None
  | _ => None
  end.

(* BindToParentMacaroon *)
Definition bind_cav (parent : token) : addcav := ABind (TPre16 (THash (t_tail parent))).

(* ---- verification *)
(* bytes.HasPrefix(bid, b) for a binding id bid = SHA256(..) *)
Definition has_prefix_bid (b bid : term) : bool :=
  match b with
  | TLit [] => true
  | TPre16 h => term_eqb h bid
  | THash _ => term_eqb b bid
  | _ => false
  end.

Definition unseal (k ct : term) : option term :=
  match ct with
  | TSeal k' _ pt => if term_eqb k' k then Some pt else None
  | _ => None
  end.

Record walked := mkW {
  w_mac : term;                      (* chain value after the last caveat *)
  w_ret : list dcav;                 (* caveats to return *)
  w_pend : list (term * term);       (* (ticket, discharge key) per third-party caveat, in order *)
  w_bids : list term                 (* this token's binding ids *)
}.

(* the caveat loop of Macaroon.verify; [hascand tk] = a discharge with that key-id was presented *)
Fixpoint walk (proof trust_att : bool) (pbids : list term) (hascand : term -> bool)
              (cs : list pcav) (w : walked) : option walked :=
  match cs with
  | [] => Some w
  | c :: r =>
    let next := TMac (w_mac w) (MCav c) in
    let step (ret : list dcav) (pend : list (term * term)) :=
      walk proof trust_att pbids hascand r (mkW next ret pend (w_bids w ++ [THash next])) in
    match c with
    | P3P _ vk tk =>
      if hascand tk then
        match unseal (w_mac w) vk with
        | Some dk => step (w_ret w) (w_pend w ++ [(tk, dk)])
        | None => None
        end
      else None
    | PBind b =>
      if existsb (has_prefix_bid b) pbids then step (w_ret w) (w_pend w) else None
    | PData d =>
      if d_att d && negb proof then None
      else if d_wrap d then None
      else if negb (d_att d) || trust_att then step (w_ret w ++ [d]) (w_pend w)
      else step (w_ret w) (w_pend w)
    end
  end.

Definition start_walk (k : term) (t : token) : walked :=
  let m := TMac k (mnonce (t_nonce t)) in mkW m [] [] [THash m].

(* verification of a discharge (no nested discharges: dms = nil) *)
Definition verify_flat (k : term) (t : token) (pbids : list term) (trust_att : bool) : option (list dcav) :=
  if n_proof (t_nonce t) && t_newproof t then None else
  match walk (n_proof (t_nonce t)) trust_att pbids (fun _ => false) (t_cavs t) (start_walk k t) with
  | None => None
  | Some w =>
    if term_eqb (fin_if (n_proof (t_nonce t)) (w_mac w)) (t_tail t) then Some (w_ret w) else None
  end.

Inductive trust_res := TSkip | TTrusted | TUntrusted.

(* the trustLoop: which of the keys listed for the discharge's own location opens its key-id *)
Fixpoint trust_check (kas : list term) (kid dk : term) : trust_res :=
  match kas with
  | [] => TUntrusted
  | ka :: r =>
    match unseal ka kid with
    | None => trust_check r kid dk
    | Some (TTicket dk' _) => if term_eqb dk' dk then TTrusted else TSkip
    | Some _ => TSkip
    end
  end.

Definition trusted_map := list (N * list term).
Definition keys_for (tr : trusted_map) (loc : N) : list term :=
  flat_map (fun e => if fst e =? loc then snd e else []) tr.

(* first candidate (in presentation order) that is not skipped and verifies *)
Fixpoint try_cands (cands : list token) (dk : term) (bids : list term) (trust_att : bool) (tr : trusted_map)
  : option (list dcav) :=
  match cands with
  | [] => None
  | d :: r =>
    match trust_check (keys_for tr (t_loc d)) (n_kid (t_nonce d)) dk with
    | TSkip => try_cands r dk bids trust_att tr
    | res =>
      match verify_flat dk d bids (trust_att && match res with TTrusted => true | _ => false end) with
      | Some s => Some s
      | None => try_cands r dk bids trust_att tr
      end
    end
  end.

Definition cands_for (ds : list token) (tk : term) : list token :=
  filter (fun d => term_eqb (n_kid (t_nonce d)) tk) ds.

Fixpoint discharge_all (pend : list (term * term)) (ds : list token) (bids : list term) (tr : trusted_map)
  : option (list dcav) :=
  match pend with
  | [] => Some []
  | (tk, dk) :: r =>
    match try_cands (cands_for ds tk) dk bids true tr with
    | None => None
    | Some s => match discharge_all r ds bids tr with
                | Some s' => Some (s ++ s')
                | None => None
                end
    end
  end.

(* Macaroon.Verify / VerifyParsed *)
Definition verify (k : term) (t : token) (ds : list token) (tr : trusted_map) : option (list dcav) :=
  if n_proof (t_nonce t) && t_newproof t then None else
  match walk (n_proof (t_nonce t)) true [] (fun tk => negb (match cands_for ds tk with [] => true | _ => false end))
             (t_cavs t) (start_walk k t) with
  | None => None
  | Some w =>
    match discharge_all (w_pend w) ds (w_bids w) tr with
    | None => None
    | Some dret =>
      if term_eqb (fin_if (n_proof (t_nonce t)) (w_mac w)) (t_tail t) then Some (w_ret w ++ dret) else None
    end
  end.

(* attestations obtainable from a verification result through GetCaveats (which looks
   inside wrappers): the attestations themselves and the wrappers that contain some *)
Definition attestations (s : list dcav) : list dcav := filter (fun d => d_att d || d_wrap d) s.
