(* Go's sync.RWMutex (writer-preferring) for N threads running lock programs, and the
   flatness discipline the Bundle methods are checked against.  The lock state (reader
   count, active and pending writer) is derived from the per-thread states.  No proofs here. *)
From Coq Require Import List Bool Arith.
Import ListNotations.

Inductive mode := R | W.
Inductive instr :=
| Acq (m : mode)      (* b.m.RLock() / b.m.Lock() *)
| Rel (m : mode)      (* b.m.RUnlock() / b.m.Unlock() *)
| Rd                  (* read of the token list b.ts *)
| Wr.                 (* write of b.ts or in-place update of the tokens it holds *)
Definition prog := list instr.

(* a thread: lock modes it holds (innermost first), whether it has announced a pending
   Lock() (a writer that is waiting for the readers to drain), and its remaining program *)
Record thread := mkThread { held : list mode; pend : bool; rest : prog }.
Definition sys := list thread.

Definition is_W (m : mode) : bool := match m with W => true | R => false end.
Definition is_R (m : mode) : bool := match m with R => true | W => false end.
Definition holdsW (t : thread) : bool := existsb is_W (held t).
Definition holdsR (t : thread) : bool := existsb is_R (held t).
Definition nreaders (s : sys) : nat := length (filter holdsR s).
Definition anyW (s : sys) : bool := existsb holdsW s.
Definition anyPend (s : sys) : bool := existsb pend s.

(* one step of one thread in system s.  RLock blocks while a writer is active OR pending
   (writer preference: this is what makes a nested RLock deadlock); Lock first announces
   itself, then acquires once no reader and no writer is active *)
Inductive tstep (s : sys) : thread -> thread -> Prop :=
| s_rlock t p : rest t = Acq R :: p -> pend t = false -> anyW s = false -> anyPend s = false ->
    tstep s t (mkThread (R :: held t) false p)
| s_wbegin t p : rest t = Acq W :: p -> pend t = false -> anyPend s = false -> anyW s = false ->
    tstep s t (mkThread (held t) true (Acq W :: p))
| s_wacq t p : rest t = Acq W :: p -> pend t = true -> nreaders s = 0 -> anyW s = false ->
    tstep s t (mkThread (W :: held t) false p)
| s_rel t m h p : rest t = Rel m :: p -> held t = m :: h -> pend t = false ->
    tstep s t (mkThread h false p)
| s_rd t p : rest t = Rd :: p -> pend t = false -> tstep s t (mkThread (held t) false p)
| s_wr t p : rest t = Wr :: p -> pend t = false -> tstep s t (mkThread (held t) false p).

Inductive step : sys -> sys -> Prop :=
| st pre t t' post : tstep (pre ++ t :: post) t t' -> step (pre ++ t :: post) (pre ++ t' :: post).

Inductive steps : sys -> sys -> Prop :=
| steps_refl s : steps s s
| steps_cons s s' s'' : step s s' -> steps s' s'' -> steps s s''.

(* flat programs: a sequence of sections  Acq m ; accesses allowed under m ; Rel m
   (no acquisition while holding, every access under a lock, writes only under W) *)
Fixpoint flat_in (m : mode) (p : prog) : bool :=
  match p with
  | Rd :: p' => flat_in m p'
  | Wr :: p' => match m with W => flat_in m p' | R => false end
  | Rel m' :: p' => match m, m' with R, R | W, W => flat_out p' | _, _ => false end
  | _ => false
  end
with flat_out (p : prog) : bool :=
  match p with
  | [] => true
  | Acq m :: p' => flat_in m p'
  | _ => false
  end.

Definition init_thread (p : prog) : thread := mkThread [] false p.
Definition init_sys (ps : list prog) : sys := map init_thread ps.
Definition final (s : sys) : Prop := forall t, In t s -> rest t = [].

(* next instruction is an access to the shared token list *)
Definition next_access (t : thread) : option bool :=   (* Some true = write *)
  match rest t with Rd :: _ => Some false | Wr :: _ => Some true | _ => None end.

(* measure: every step strictly decreases it *)
Definition tmeasure (t : thread) : nat := 2 * length (rest t) - (if pend t then 1 else 0).
Definition measure (s : sys) : nat := fold_right (fun t acc => tmeasure t + acc) 0 s.

(* the pre-fix shape of Bundle.Any / Clone / UndischargedTicketsForThirdParty: RLock held, RLock again *)
Definition legacy_nested_read : prog := [Acq R; Acq R; Rd; Rel R; Rel R].
Definition a_writer : prog := [Acq W; Wr; Rel W].
