(* How much memory a decoded caveat needs: a measure of the Go VALUE that msgpack's typed decoder leaves behind, counted in
   abstract units (one unit = one heap object, one slice / map slot, or one byte of a backing array).  The real figure is
   this measure times a constant of the Go runtime (a string header is 16 bytes, a map bucket slot for a string key and a
   uint16 value is about 20, a Command is 32, an interface value 16, ...).  Definitions only; the bounds are in
   Proofs/TypedDec2Size.v.

   What each term stands for:
     1 per caveat            the caveat struct on the heap and its slot (an interface value) in CaveatSet.Caveats
     integers (1 each)       a uint64 / int64 / uint16 / uint32 field inside that struct, or the bare integer of a caveat that
                             is one (Action, MaxValidity, the user ids; GoogleUserID's *big.Int holds at most one word per 8
                             bytes read) - present whether or not the wire said anything about it (nil-for-zero)
     strings                 String.length s: the bytes of the string's backing array (msgpack copies them out of the input)
     byte strings            the bytes of the []byte's backing array (VerifierKey, Ticket, BindToParentToken); nil costs 0
     resource set            per map entry: 1 (the bucket slot: key header and the uint16 mask) + for string keys the key's
                             bytes; uint64 keys (Apps) live in the slot
     []string                per element 1 (the string header in the slice's backing array) + the string's bytes
     Commands                per element 1 (the Command struct in the slice's backing array: Args header and Exact) + Args
     IfPresent               the struct (1) + Else (1) + everything in the *CaveatSet Ifs points to
     unregistered            the struct (1) + the raw msgpack body kept in UnregisteredCaveat.RawMsgpack.
                             (The library also keeps the generically decoded Body (an `any`); it has one Go value per msgpack
                             value of the raw body, and every msgpack value takes at least one byte, so it is linear in the raw
                             body too - with the runtime's constant per value; the model does not represent Body.) *)
From Coq Require Import List Bool NArith ZArith String.
From Mac Require Import Model.Caveat.
Import ListNotations.

Definition obytes_w (o : option bytes) : nat := match o with Some p => List.length p | None => 0 end.

(* a resource set with string keys / with integer keys *)
Definition rs_s_w (rs : rset string) : nat := list_sum (map (fun e => S (String.length (fst e))) rs).
Definition rs_n_w (rs : rset N) : nat := List.length rs.

(* []string; nil costs nothing *)
Definition strs_w (l : list string) : nat := list_sum (map (fun s => S (String.length s)) l).
Definition ostrs_w (o : option (list string)) : nat := match o with Some l => strs_w l | None => 0 end.

(* []Command *)
Definition cmds_w (l : list (option (list string) * bool)) : nat := list_sum (map (fun e => S (ostrs_w (fst e))) l).
Definition ocmds_w (o : option (list (option (list string) * bool))) : nat := match o with Some l => cmds_w l | None => 0 end.

Fixpoint cav_weight (c : cav) : nat :=
  match c with
  | COrganization _ _ => 3                                   (* struct + ID + Mask *)
  | CVolumes rs | CFeatureSet rs | CMachines rs | CMachineFeatureSet rs | CClusters rs | CAppFeatureSet rs
  | CStorageObjects rs => 1 + rs_s_w rs
  | CApps rs => 1 + rs_n_w rs
  | CValidityWindow _ _ => 3                                 (* struct + NotBefore + NotAfter *)
  | CMutations ms => 1 + ostrs_w ms
  | CConfineUser _ | CConfineOrganization _ | CIsUser _ | CConfineGitHubOrg _ | CMaxValidity _ | CFlyioUserID _
  | CGitHubUserID _ | CGoogleUserID _ | CAction _ | CAllowedRoles _ => 2
  | C3P loc vk tk => 1 + String.length loc + obytes_w vk + obytes_w tk
  | CBind b => 1 + obytes_w b
  | CIfPresent ifs _ => 2 + match ifs with Some l => list_sum (map cav_weight l) | None => 0 end
  | CFromMachine s | CConfineGoogleHD s => 1 + String.length s
  | CIsMember => 1
  | CCommands cmds => 1 + ocmds_w cmds
  | CFlySrc o a i => 1 + String.length o + String.length a + String.length i
  | CUnregistered _ body => 1 + List.length body
  end.

Definition set_weight (cs : list cav) : nat := list_sum (map cav_weight cs).

(* the number of caveats in a value, nested ones included: what GetCaveats / Validate / the clearing loop walk over *)
Definition cav_count (c : cav) : nat := List.length (flat c).
Definition set_count (cs : list cav) : nat := List.length (flat_all cs).

(* nesting depth: 1 for a caveat that wraps nothing; the depth of the decoder's (and of every later traversal's) recursion *)
Fixpoint cav_depth (c : cav) : nat :=
  match c with
  | CIfPresent (Some l) _ => S (list_max (map cav_depth l))
  | _ => 1
  end.
Definition set_depth (cs : list cav) : nat := list_max (map cav_depth cs).
