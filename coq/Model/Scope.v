(* flyio scope helpers, Macaroon.Expiration, DangerousUserID.  No proofs here. *)
From Coq Require Import List Bool NArith ZArith String.
From Mac Require Import Model.Err Model.Caveat Model.Access Model.Prohibits.
Import ListNotations.

Definition blank_access (act : N) (now : time) : flyio_access :=
  mkFA act None None None None None None None None None None None None None None now.

Definition with_org (f : flyio_access) (o : N) : flyio_access :=
  mkFA (fa_action f) (Some o) (fa_app f) (fa_appfeature f) (fa_feature f) (fa_volume f) (fa_machine f)
       (fa_machinefeature f) (fa_mutation f) (fa_srcmachine f) (fa_srcapp f) (fa_srcorg f) (fa_cluster f)
       (fa_command f) (fa_storage f) (fa_now f).
Definition with_app (f : flyio_access) (a : N) : flyio_access :=
  mkFA (fa_action f) (fa_org f) (Some a) (fa_appfeature f) (fa_feature f) (fa_volume f) (fa_machine f)
       (fa_machinefeature f) (fa_mutation f) (fa_srcmachine f) (fa_srcapp f) (fa_srcorg f) (fa_cluster f)
       (fa_command f) (fa_storage f) (fa_now f).
Definition with_feature_cluster (f : flyio_access) (ft cl : string) : flyio_access :=
  mkFA (fa_action f) (fa_org f) (fa_app f) (fa_appfeature f) (Some ft) (fa_volume f) (fa_machine f)
       (fa_machinefeature f) (fa_mutation f) (fa_srcmachine f) (fa_srcapp f) (fa_srcorg f) (Some cl)
       (fa_command f) (fa_storage f) (fa_now f).

(* GetCaveats[*Organization] etc. *)
Definition orgs_of (cs : list cav) : list cav :=
  filter (fun c => match c with COrganization _ _ => true | _ => false end) (flat_all cs).
Definition apps_of (cs : list cav) : list cav :=
  filter (fun c => match c with CApps _ => true | _ => false end) (flat_all cs).
Definition clusters_of (cs : list cav) : list cav :=
  filter (fun c => match c with CClusters _ => true | _ => false end) (flat_all cs).

(* flyio.OrganizationScope: result id or error *)
Definition organization_scope (cs : list cav) (now : time) : N + ecls :=
  match orgs_of cs with
  | [] => inr E_unauth
  | COrganization id0 _ :: _ =>
    match validate (orgs_of cs) [AFlyio (with_org (blank_access 0 now) id0)] with
    | None => inl id0
    | Some e => inr e
    end
  | _ :: _ => inr E_unauth (* unreachable: orgs_of only yields COrganization *)
  end.

Fixpoint insert_n (x : N) (l : list N) : list N :=
  match l with
  | [] => [x]
  | y :: r => if N.ltb x y then x :: l else if N.eqb x y then l else y :: insert_n x r
  end.
Definition sort_dedup_n (l : list N) : list N := fold_right insert_n [] l.

Definition str_ltb (a b : string) : bool :=
  match String.compare a b with Lt => true | _ => false end.
Fixpoint insert_s (x : string) (l : list string) : list string :=
  match l with
  | [] => [x]
  | y :: r => if str_ltb x y then x :: l else if String.eqb x y then l else y :: insert_s x r
  end.
Definition sort_dedup_s (l : list string) : list string := fold_right insert_s [] l.

Definition app_ids (apps : list cav) : list N :=
  flat_map (fun c => match c with CApps rs => map fst rs | _ => [] end) apps.
Definition cluster_ids (cls : list cav) : list string :=
  flat_map (fun c => match c with CClusters rs => map fst rs | _ => [] end) cls.

(* flyio.AppScope: None = nil slice = unrestricted *)
Definition app_scope (cs : list cav) (now : time) : option (list N) :=
  match apps_of cs with
  | [] => None
  | apps =>
    let kept := filter (fun id => is_nil (validate apps
                    [AFlyio (with_app (with_org (blank_access 0 now) 999) id)]))
                  (sort_dedup_n (app_ids apps)) in
    if mem_n 0 kept then None else Some kept
  end.

(* flyio.ClusterScope *)
Definition cluster_scope (cs : list cav) (now : time) : option (list string) :=
  match clusters_of cs with
  | [] => None
  | cls =>
    let kept := filter (fun id => is_nil (validate cls
                    [AFlyio (with_feature_cluster (with_org (blank_access 0 now) 999) feature_lfsc id)]))
                  (sort_dedup_s (cluster_ids cls)) in
    if mem_s EmptyString kept then None else Some kept
  end.

(* flyio.AppsAllowing: (org, apps (None = any), error) *)
Definition apps_allowing (cs : list cav) (action : N) (now : time) : N * option (list N) * err :=
  match organization_scope cs now with
  | inr e => (0%N, Some [], Some e)
  | inl org =>
    match app_scope cs now with
    | None =>
      match validate cs [AFlyio (with_app (with_org (blank_access action now) org) 0)] with
      | Some e => (0%N, Some [], Some e)
      | None => (org, None, None)
      end
    | Some [] => (0%N, Some [], Some E_forres)
    | Some scope =>
      let ret := filter (fun id => is_nil (validate cs
                     [AFlyio (with_app (with_org (blank_access action now) org) id)])) scope in
      match ret with
      | [] => (0%N, Some [], Some E_foract)
      | _ => (org, Some ret, None)
      end
    end
  end.

(* Macaroon.Expiration / VerifiedMacaroon.Expiration *)
Definition windows_of (cs : list cav) : list Z :=
  flat_map (fun c => match c with CValidityWindow _ na => [na] | _ => [] end) (flat_all cs).
Definition expiration (cs : list cav) : time :=
  fold_left (fun ret na => if t_before (unixT na 0) ret then unixT na 0 else ret) (windows_of cs) max_time.

(* flyio.DangerousUserID: Some id or None (error) *)
Definition user_ids_of (cs : list cav) : list N :=
  flat_map (fun c => match c with CIsUser id => [id] | _ => [] end) (flat_all cs) ++
  flat_map (fun c => match c with CFlyioUserID id => [id] | _ => [] end) (flat_all cs).
Definition dangerous_user_id (cs : list cav) : option N :=
  match user_ids_of cs with
  | [] => None
  | u :: r => if forallb (N.eqb u) r then Some u else None
  end.
