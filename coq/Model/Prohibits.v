(* Caveat.Prohibits for every caveat type, CaveatSet.Validate, GetCaveats-based
   helpers of package auth.  No proofs in this file. *)
From Coq Require Import List Bool NArith ZArith String.
From Mac Require Import Model.Err Model.Caveat Model.Access Generated.Facts.
Import ListNotations.

(* resset.IsSubsetOf(a, b) *)
Definition subset (a b : N) : bool := N.eqb (N.land a b) a.

Arguments subset : simpl never.

Definition isnil {A} (l : list A) : bool := match l with [] => true | _ => false end.

(* ---- resset.ResourceSet.Prohibits, generic in the id type *)
Section ResourceSet.
  Context {I : Type} (ieqb : I -> I -> bool) (zero : I) (mtch : I -> I -> bool).
  (* mtch e id  =  resset.match(e, id) *)

  Definition rs_has_zero (rs : rset I) : bool := existsb (fun e => ieqb (fst e) zero) rs.

  Definition rs_validate (rs : rset I) : err :=
    if rs_has_zero rs && negb (Nat.eqb (List.length rs) 1) then Some E_badcav else None.

  Definition rs_relevant (rs : rset I) (id : I) : list (I * N) :=
    filter (fun e => ieqb (fst e) zero || mtch (fst e) id) rs.

  Definition rs_perm (rs : rset I) (id : I) : N :=
    fold_left N.land (map snd (rs_relevant rs id)) 65535%N.

  Definition rs_prohibits (rs : rset I) (id : option I) (act : N) : err :=
    match rs_validate rs with
    | Some e => Some e
    | None =>
      match id with
      | None => Some E_unspec
      | Some i =>
        if isnil (rs_relevant rs i) then Some E_forres
        else if subset act (rs_perm rs i) then None else Some E_foract
      end
    end.
End ResourceSet.

Definition match_n (a b : N) : bool := N.eqb a b.
Definition match_s (a b : string) : bool := String.eqb a b.
Definition match_p (a b : string) : bool := String.eqb a b || String.prefix a b.

Definition rs_prohibits_n := rs_prohibits N.eqb 0%N match_n.
Definition rs_prohibits_s := rs_prohibits String.eqb EmptyString match_s.
Definition rs_prohibits_p := rs_prohibits String.eqb EmptyString match_p.

(* ---- flyio helpers *)
Definition role_member : N := 1.
Definition role_admin : N := 4294967295.

Fixpoint assoc_s (k : string) (l : list (string * N)) : option N :=
  match l with
  | [] => None
  | (k', v) :: r => if String.eqb k k' then Some v else assoc_s k r
  end.

(* flyio.Access.GetPermittedRoles (always a one-element list) *)
Definition permitted_role (f : flyio_access) : N :=
  match fa_feature f with
  | None => role_member
  | Some ft =>
    match assoc_s ft member_features with
    | Some allowed => if subset (fa_action f) allowed then role_member else role_admin
    | None => role_admin
    end
  end.

Definition allowed_roles_prohibits (mask : N) (a : access) : err :=
  match a with
  | AFlyio f => if N.eqb (N.land mask (permitted_role f)) (permitted_role f) then None
                else Some E_forrole
  | _ => Some E_invalid
  end.

Fixpoint list_eqb {A} (eqb : A -> A -> bool) (l1 l2 : list A) : bool :=
  match l1, l2 with
  | [], [] => true
  | x :: r1, y :: r2 => eqb x y && list_eqb eqb r1 r2
  | _, _ => false
  end.

Definition opt_list {A} (o : option (list A)) : list A := match o with Some l => l | None => [] end.

(* one allowed command against the executed command *)
Definition command_allows (ac : option (list string) * bool) (cmd : list string) : bool :=
  let args := opt_list (fst ac) in
  if Nat.ltb (List.length cmd) (List.length args) then false
  else if snd ac && negb (Nat.eqb (List.length args) (List.length cmd)) then false
  else list_eqb String.eqb args (firstn (List.length args) cmd).

Definition src_check (want : string) (have : option string) : err :=
  match have with
  | None => Some E_invalid
  | Some h => if String.eqb want h then None else Some E_unauth
  end.

Definition flysrc_prohibits (org app inst : string) (a : access) : err :=
  let step (want : string) (get : flyio_access -> option string) : err :=
    if String.eqb want EmptyString then None else
    match a with AFlyio f => src_check want (get f) | _ => Some E_invalid end in
  match step inst fa_srcmachine with
  | Some e => Some e
  | None => match step app fa_srcapp with
            | Some e => Some e
            | None => step org fa_srcorg
            end
  end.

Definition with_flyio (a : access) (k : flyio_access -> err) : err :=
  match a with AFlyio f => k f | _ => Some E_invalid end.

Definition with_dr (a : access) (k : discharge_req -> err) : err :=
  match a with ADischarge d => k d | _ => Some E_invalid end.

Definition mem_n (x : N) (l : list N) : bool := existsb (N.eqb x) l.
Definition mem_s (x : string) (l : list string) : bool := existsb (String.eqb x) l.

(* ---- Caveat.Prohibits *)
Fixpoint prohibits (c : cav) (a : access) {struct c} : err :=
  match c with
  | COrganization id mask =>
      with_flyio a (fun f =>
        match fa_org f with
        | None => Some E_unspec
        | Some o =>
          if negb (N.eqb id 0) && negb (N.eqb id o) then Some E_forres
          else if subset (fa_action f) mask then None else Some E_foract
        end)
  | CApps rs => with_flyio a (fun f => rs_prohibits_n rs (fa_app f) (fa_action f))
  | CVolumes rs => with_flyio a (fun f => rs_prohibits_s rs (fa_volume f) (fa_action f))
  | CMachines rs => with_flyio a (fun f => rs_prohibits_s rs (fa_machine f) (fa_action f))
  | CMachineFeatureSet rs => with_flyio a (fun f => rs_prohibits_s rs (fa_machinefeature f) (fa_action f))
  | CFeatureSet rs => with_flyio a (fun f => rs_prohibits_s rs (fa_feature f) (fa_action f))
  | CClusters rs => with_flyio a (fun f => rs_prohibits_s rs (fa_cluster f) (fa_action f))
  | CAppFeatureSet rs => with_flyio a (fun f => rs_prohibits_s rs (fa_appfeature f) (fa_action f))
  | CStorageObjects rs => with_flyio a (fun f => rs_prohibits_p rs (fa_storage f) (fa_action f))
  | CMutations ms =>
      with_flyio a (fun f =>
        match fa_mutation f with
        | None => Some E_unspec
        | Some m => if mem_s m (opt_list ms) then None else Some E_forres
        end)
  | CIsUser _ => None
  | CAllowedRoles mask => allowed_roles_prohibits mask a
  | CIsMember => allowed_roles_prohibits role_member a
  | CCommands cmds =>
      with_flyio a (fun f =>
        match fa_command f with
        | None => Some E_unspec
        | Some cmd => if existsb (fun ac => command_allows ac cmd) (opt_list cmds) then None
                      else Some E_forres
        end)
  | CFromMachine id =>
      with_flyio a (fun f =>
        match fa_srcmachine f with
        | None => Some E_invalid
        | Some m => if String.eqb id m then None else Some E_unauth
        end)
  | CFlySrc org app inst => flysrc_prohibits org app inst a
  | CValidityWindow nb na =>
      if t_after (a_now a) (unixT na 0) then Some E_unauth
      else if t_before (a_now a) (unixT nb 0) then Some E_unauth
      else None
  | C3P _ _ _ => Some E_badcav
  | CBind _ => Some E_badcav
  | CUnregistered _ _ => Some E_badcav
  | CFlyioUserID _ | CGitHubUserID _ | CGoogleUserID _ => Some E_badcav
  | CAction mask =>
      match a_action a with
      | None => Some E_invalid
      | Some act => if subset act mask then None else Some E_foract
      end
  | CIfPresent ifs els =>
      match a_action a with
      | None => Some E_invalid
      | Some act =>
        let fix go (l : list cav) (acc : err) (br : bool) : err * bool :=
          match l with
          | [] => (acc, br)
          | c' :: r =>
            let e := prohibits c' a in
            if is_unspec e then go r acc br else go r (eappend acc e) true
          end in
        let '(e, br) := match ifs with Some l => go l None false | None => (None, false) end in
        if negb br && negb (subset act els) then Some E_foract else e
      end
  | CConfineUser id =>
      with_dr a (fun d =>
        if isnil (dr_flyio d) then Some E_other
        else if mem_n id (map fst (dr_flyio d)) then None else Some E_other)
  | CConfineOrganization id =>
      with_dr a (fun d =>
        if isnil (dr_flyio d) then Some E_other
        else if mem_n id (flat_map snd (dr_flyio d)) then None else Some E_other)
  | CConfineGoogleHD hd =>
      with_dr a (fun d =>
        if isnil (dr_google d) then Some E_other
        else if mem_s hd (dr_google d) then None else Some E_other)
  | CConfineGitHubOrg id =>
      with_dr a (fun d =>
        if isnil (dr_github d) then Some E_other
        else if mem_n id (List.concat (dr_github d)) then None else Some E_other)
  | CMaxValidity secs =>
      with_dr a (fun d =>
        if Z.ltb (dur_of_secs secs) (sat64 (dr_delta d)) then Some E_unauth else None)
  end.

(* CaveatSet.validateAccess *)
Fixpoint validate_access (cs : list cav) (a : access) : err :=
  match cs with
  | [] => None
  | c :: r =>
    eappend (if is_attestation c then None else prohibits c a) (validate_access r a)
  end.

(* macaroon.Validate(cs, accesses...) *)
Fixpoint validate (cs : list cav) (accs : list access) : err :=
  match accs with
  | [] => None
  | a :: r =>
    eappend (match access_valid a with
             | Some e => Some e
             | None => validate_access cs a
             end) (validate cs r)
  end.

(* auth.GetMaxValidity *)
Definition max_validities (cs : list cav) : list N :=
  flat_map (fun c => match c with CMaxValidity s => [s] | _ => [] end) (flat_all cs).

Definition get_max_validity (cs : list cav) : Z * bool :=
  let m := fold_left (fun mx s => if Z.ltb (dur_of_secs s) mx then dur_of_secs s else mx)
                     (max_validities cs) max_dur in
  (m, negb (Z.eqb m max_dur)).
