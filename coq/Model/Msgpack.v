(* msgpack as vmihailenco/msgpack v5 writes it for this library (array-encoded structs, compact
   ints) and the generic value parser that Decoder.Skip implements.  No proofs in this file. *)
From Coq Require Import List Bool NArith ZArith.
Import ListNotations.
Local Open Scope N_scope.

Definition bytes := list N.

(* big-endian, k bytes *)
Fixpoint be (k : nat) (n : N) : bytes :=
  match k with O => [] | S k' => be k' (n / 256) ++ [n mod 256] end.
Fixpoint be_val (l : bytes) (acc : N) : N :=
  match l with [] => acc | b :: r => be_val r (acc * 256 + b) end.

Definition enc_uint (n : N) : bytes :=
  if n <=? 127 then [n]
  else if n <=? 255 then 204 :: be 1 n
  else if n <=? 65535 then 205 :: be 2 n
  else if n <=? 4294967295 then 206 :: be 4 n
  else 207 :: be 8 n.

(* EncodeInt with compact ints: non-negative values use the unsigned forms *)
Definition enc_int (z : Z) : bytes :=
  if (0 <=? z)%Z then enc_uint (Z.to_N z)
  else if (-32 <=? z)%Z then [Z.to_N (256 + z)]
  else if (-128 <=? z)%Z then 208 :: be 1 (Z.to_N (256 + z))
  else if (-32768 <=? z)%Z then 209 :: be 2 (Z.to_N (65536 + z))
  else if (-2147483648 <=? z)%Z then 210 :: be 4 (Z.to_N (4294967296 + z))
  else 211 :: be 8 (Z.to_N (18446744073709551616 + z)).

Definition enc_nil : bytes := [192].
Definition enc_bool (b : bool) : bytes := [if b then 195 else 194].

Definition enc_str (s : bytes) : bytes :=
  let l := N.of_nat (List.length s) in
  (if l <? 32 then [160 + l]
   else if l <? 256 then [217; l]
   else if l <=? 65535 then 218 :: be 2 l
   else 219 :: be 4 l) ++ s.

Definition enc_bin (b : bytes) : bytes :=
  let l := N.of_nat (List.length b) in
  (if l <? 256 then [196; l]
   else if l <=? 65535 then 197 :: be 2 l
   else 198 :: be 4 l) ++ b.
Definition enc_obin (o : option bytes) : bytes := match o with None => enc_nil | Some b => enc_bin b end.

Definition enc_arr_hdr (n : N) : bytes :=
  if n <? 16 then [144 + n] else if n <=? 65535 then 220 :: be 2 n else 221 :: be 4 n.
Definition enc_map_hdr (n : N) : bytes :=
  if n <? 16 then [128 + n] else if n <=? 65535 then 222 :: be 2 n else 223 :: be 4 n.

(* ---- Decoder.Skip: the span of one msgpack value.  Fuel = length of the input suffices. *)
Definition take (k : N) (l : bytes) : option (bytes * bytes) :=
  if N.of_nat (List.length l) <? k then None else Some (firstn (N.to_nat k) l, skipn (N.to_nat k) l).

(* length-prefixed payload: lenbytes bytes of big-endian length, then that many bytes *)
Definition skip_lp (lenbytes : N) (extra : N) (r : bytes) : option bytes :=
  match take lenbytes r with
  | None => None
  | Some (lb, r1) => match take (be_val lb 0 + extra) r1 with
                     | None => None
                     | Some (_, r2) => Some r2
                     end
  end.

(* returns the rest after one value *)
Fixpoint skip (fuel : nat) (l : bytes) {struct fuel} : option bytes :=
  match fuel with
  | O => None
  | S f =>
    match l with
    | [] => None
    | c :: r =>
      (* n further values; each takes at least one byte, so a count above the remaining length fails at once *)
      let skip_many := fun (n : N) (x0 : bytes) =>
        if N.of_nat (List.length x0) <? n then None else
        (fix go (k : nat) (x : bytes) : option bytes :=
           match k with
           | O => Some x
           | S k' => match skip f x with Some x' => go k' x' | None => None end
           end) (N.to_nat n) x0 in
      if c <=? 127 then Some r                                     (* positive fixint *)
      else if c <=? 143 then skip_many (2 * (c - 128)) r     (* fixmap *)
      else if c <=? 159 then skip_many (c - 144) r           (* fixarray *)
      else if c <=? 191 then option_map snd (take (c - 160) r)                 (* fixstr *)
      else if c =? 192 then Some r                                             (* nil *)
      else if c =? 193 then None                                               (* never used *)
      else if c <=? 195 then Some r                                            (* false / true *)
      else if c =? 196 then skip_lp 1 0 r else if c =? 197 then skip_lp 2 0 r else if c =? 198 then skip_lp 4 0 r  (* bin *)
      else if c =? 199 then skip_lp 1 1 r else if c =? 200 then skip_lp 2 1 r else if c =? 201 then skip_lp 4 1 r  (* ext *)
      else if c =? 202 then option_map snd (take 4 r) else if c =? 203 then option_map snd (take 8 r)            (* floats *)
      else if c =? 204 then option_map snd (take 1 r) else if c =? 205 then option_map snd (take 2 r)
      else if c =? 206 then option_map snd (take 4 r) else if c =? 207 then option_map snd (take 8 r)            (* uints *)
      else if c =? 208 then option_map snd (take 1 r) else if c =? 209 then option_map snd (take 2 r)
      else if c =? 210 then option_map snd (take 4 r) else if c =? 211 then option_map snd (take 8 r)            (* ints *)
      else if c =? 212 then option_map snd (take 2 r) else if c =? 213 then option_map snd (take 3 r)
      else if c =? 214 then option_map snd (take 5 r) else if c =? 215 then option_map snd (take 9 r)
      else if c =? 216 then option_map snd (take 17 r)                                                           (* fixext *)
      else if c =? 217 then skip_lp 1 0 r else if c =? 218 then skip_lp 2 0 r else if c =? 219 then skip_lp 4 0 r  (* str *)
      else if c =? 220 then match take 2 r with Some (lb, r1) => skip_many (be_val lb 0) r1 | None => None end
      else if c =? 221 then match take 4 r with Some (lb, r1) => skip_many (be_val lb 0) r1 | None => None end
      else if c =? 222 then match take 2 r with Some (lb, r1) => skip_many (2 * be_val lb 0) r1 | None => None end
      else if c =? 223 then match take 4 r with Some (lb, r1) => skip_many (2 * be_val lb 0) r1 | None => None end
      else Some r                                                  (* negative fixint 224..255 *)
    end
  end.
