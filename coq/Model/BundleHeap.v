(* Bundles over a HEAP of token objects: the object graph of package bundle.

   The value model (BundleM.v / BundleOps.v) treats a bundle as a list of token VALUES, which is exact as long as no
   two bundles hold the same token object.  Bundle.Select hands out a new Bundle (new slice, same lock) whose slice
   holds the SAME token objects; this file models that.

   Objects of the library and their cells here:
     NonMacaroon (a string value), *MalformedMacaroon, *UnverifiedMacaroon{Str, UnsafeMac}   -> [CBase t]
     *VerifiedMacaroon{*UnverifiedMacaroon, Caveats}                                          -> [CVer u cs]
     *FailedMacaroon{*UnverifiedMacaroon, Err}                                                -> [CFail u]
   A verification result EMBEDS A POINTER to the unverified object it was made from ([u] is the cell of that object):
   its string, its parsed macaroon, its location and tickets are read THROUGH the pointer; only the verified caveat
   set (resp. the error) lives in the wrapper itself.

   What each operation of the library does to the graph (bundle/bundle.go, tokens.go, verifier.go):
     ParseBundle / AddTokens / Discharge / Clone : fresh objects only (Clone re-parses the strings: fresh UNVERIFIED
                                     objects with the current strings; verification state is lost)
     Select                        : new slice, same objects (new bundle, same lock)
     Filter                        : the bundle's own slice is replaced; objects untouched
     Verify                        : every permission entry of the bundle's OWN slice is replaced by a FRESH wrapper
                                     around a FRESH COPY of perm.Unverified() (tokens.Verify re-wraps every result
                                     around UnverifiedMacaroon.copy(), repair of finding F15); no existing object is
                                     written, and a wrapper's base object is reachable through that wrapper only
     Attenuate                     : staged, then IN PLACE: for every permission entry of the bundle's slice the
                                     base object gets the new string / macaroon; if the entry is a *VerifiedMacaroon,
                                     THAT wrapper's Caveats gets the added caveats.  (Other wrappers around the same
                                     base object would not be touched - since the repair there are none.)
   No proofs in this file. *)
From Coq Require Import List Bool NArith ZArith.
From Mac Require Import Model.BundleM Model.BundleOps.
Import ListNotations.
Local Open Scope N_scope.

Inductive hcell :=
| CBase (t : tok)
| CVer (u : N) (cs : N)
| CFail (u : N).

Definition heap := list (N * hcell).          (* cell id -> object state; the first entry for an id counts *)

(* the macaroon of the unverified object in cell u *)
Definition cell_mac (h : heap) (u : N) : option mac :=
  match blookup u h with Some (CBase t) => tok_mac t | _ => None end.

(* what a slice entry pointing at cell r IS, as a token value (999998: wrapper around something that is not a
   macaroon, 999997: dangling reference; neither arises in a run) *)
Definition cell_tok (h : heap) (r : N) : tok :=
  match blookup r h with
  | Some (CBase t) => t
  | Some (CVer u cs) => match cell_mac h u with Some m => TVer m cs | None => TMal 999998 end
  | Some (CFail u) => match cell_mac h u with Some m => TFail m | None => TMal 999998 end
  | None => TMal 999997
  end.

(* Macaroon.Unverified(): the base object of an entry *)
Definition base_of (h : heap) (r : N) : N :=
  match blookup r h with Some (CVer u _) => u | Some (CFail u) => u | _ => r end.

Record hbundle := mkHB { hb_loc : N; hb_refs : list N }.

(* the bundle as the value model sees it *)
Definition hview (h : heap) (hb : hbundle) : bundle := mkB (hb_loc hb) (map (cell_tok h) (hb_refs hb)).

Record hst := mkHst { h_heap : heap; h_next : N; h_bs : list (N * hbundle); h_cs : list (N * cache) }.

(* fresh objects *)
Fixpoint halloc (h : heap) (n : N) (cs : list hcell) : heap * N * list N :=
  match cs with
  | [] => (h, n, [])
  | c :: r => let '(h', n', rs) := halloc ((n, c) :: h) (n + 1) r in (h', n', n :: rs)
  end.

(* ---- Select / Filter: the entries whose token passes *)
Definition hselect (h : heap) (hb : hbundle) (p : tok -> bool) : hbundle :=
  mkHB (hb_loc hb) (filter (fun r => p (cell_tok h r)) (hb_refs hb)).

(* ---- Verify: results [ts'] (one per entry, computed by the value model on the view) become fresh wrappers, each around
   its own fresh copy of the unverified token object (cell n: the copy, cell n+1: the wrapper); anything else a
   verifier answers becomes a fresh object of its own.  Entries are classified on the heap [h0] before the call. *)
Definition wrap_alloc (h : heap) (n : N) (t' : tok) : heap * N * N :=   (* new heap, next free id, the new entry *)
  match t' with
  | TVer m cs => ((n + 1, CVer n cs) :: (n, CBase (TUnv m)) :: h, n + 2, n + 1)
  | TFail m => ((n + 1, CFail n) :: (n, CBase (TUnv m)) :: h, n + 2, n + 1)
  | _ => ((n, CBase t') :: h, n + 1, n)
  end.
Fixpoint hrewrap (loc : N) (h0 h : heap) (n : N) (rs : list N) (ts' : list tok) : heap * N * list N :=
  match rs, ts' with
  | r :: rr, t' :: tr =>
      if is_perm loc (cell_tok h0 r)
      then let '(h1, n1, r1) := wrap_alloc h n t' in
           let '(h', n', rs') := hrewrap loc h0 h1 n1 rr tr in (h', n', r1 :: rs')
      else let '(h', n', rs') := hrewrap loc h0 h n rr tr in (h', n', r :: rs')
  | _, _ => (h, n, [])
  end.

(* ---- Attenuate: in place.  TW: the permission entries of the bundle (their own cells: a wrapper among them gets its
   caveat set extended); TB: their base objects (get the new string).  Staging (all or nothing) is decided on the view,
   exactly as in the value model. *)
Definition touched (h : heap) (hb : hbundle) : list N :=
  filter (fun r => is_perm (hb_loc hb) (cell_tok h r)) (hb_refs hb).
Definition att_cell (at_ : atable) (cst : cstable) (loc cl : N) (TW TB : list N) (k : N) (c : hcell) : hcell :=
  match c with
  | CBase t => if existsb (N.eqb k) TB
               then match att_tok at_ cst loc cl t with Some t' => CBase t' | None => c end
               else c
  | CVer u cs => if existsb (N.eqb k) TW then CVer u (cslookup cst cs cl) else c
  | CFail u => c
  end.
Definition hatt_heap (at_ : atable) (cst : cstable) (h : heap) (hb : hbundle) (cl : N) : heap :=
  let TW := touched h hb in
  let TB := map (base_of h) TW in
  map (fun kc => (fst kc, att_cell at_ cst (hb_loc hb) cl TW TB (fst kc) (snd kc))) h.
Definition hattenuate (at_ : atable) (cst : cstable) (h : heap) (hb : hbundle) (cl : N) : heap * bool :=
  match all_some (map (att_tok at_ cst (hb_loc hb) cl) (b_ts (hview h hb))) with
  | Some _ => (hatt_heap at_ cst h hb cl, true)
  | None => (h, false)
  end.

(* everything a bundle can reach: its entries and their base objects *)
Definition reach (h : heap) (hb : hbundle) : list N := hb_refs hb ++ map (base_of h) (hb_refs hb).
Definition disjointb (a b : list N) : bool := negb (existsb (fun x => existsb (N.eqb x) b) a).
(* no other slot reaches an object that slot k reaches *)
Definition isolated (σ : hst) (k : N) : bool :=
  match blookup k (h_bs σ) with
  | Some hb => forallb (fun e => (fst e =? k) || disjointb (reach (h_heap σ) hb) (reach (h_heap σ) (snd e))) (h_bs σ)
  | None => true
  end.

(* no other slot reaches an object that an Attenuate through slot k writes (its permission entries and their bases) *)
Definition att_isolated (σ : hst) (k : N) : bool :=
  match blookup k (h_bs σ) with
  | Some hb => let W := touched (h_heap σ) hb ++ map (base_of (h_heap σ)) (touched (h_heap σ) hb) in
               forallb (fun e => (fst e =? k) || disjointb W (reach (h_heap σ) (snd e))) (h_bs σ)
  | None => true
  end.

Definition hstep (T : tables) (σ : hst) (o : bop) : hst * list Z :=
  let h := h_heap σ in
  let setb k v := mkHst h (h_next σ) (bput k v (h_bs σ)) (h_cs σ) in
  let seth h' n' k v := mkHst h' n' (bput k v (h_bs σ)) (h_cs σ) in
  match o with
  | BParse b ts =>
      let '(vb, ok) := parse_bundle 0 ts in
      let '(h', n', rs) := halloc h (h_next σ) (map CBase (b_ts vb)) in
      (seth h' n' b (mkHB 0 rs), [b2z ok])
  | BParseAll b ts =>
      let '(h', n', rs) := halloc h (h_next σ) (map CBase ts) in
      (seth h' n' b (mkHB 0 rs), [b2z (negb (existsb is_bad ts))])
  | BAdd b ts =>
      match blookup b (h_bs σ) with
      | Some hb =>
          if existsb is_bad ts then (setb b hb, [b2z false])
          else let '(h', n', rs) := halloc h (h_next σ) (map CBase ts) in
               (seth h' n' b (mkHB (hb_loc hb) (hb_refs hb ++ rs)), [b2z true])
      | None => (σ, []) end
  | BSelect dst b p =>
      match blookup b (h_bs σ) with
      | Some hb => (setb dst (hselect h hb (pred_fn (hb_loc hb) p)), [])
      | None => (σ, []) end
  | BFilter b p =>
      match blookup b (h_bs σ) with
      | Some hb => (setb b (hselect h hb (pred_fn (hb_loc hb) p)), [])
      | None => (σ, []) end
  | BVerify b =>
      match blookup b (h_bs σ) with
      | Some hb =>
          let '(vb', vs) := verify (t_v T) (hview h hb) in
          let '(h', n', rs) := hrewrap (hb_loc hb) h h (h_next σ) (hb_refs hb) (b_ts vb') in
          (seth h' n' b (mkHB (hb_loc hb) rs), zl vs)
      | None => (σ, []) end
  | BVerifyCached b f =>
      match blookup b (h_bs σ), blookup f (h_cs σ) with
      | Some hb, Some c =>
          let vb := hview h hb in
          let '(ts, c', lg) := cverify_list (t_v T) vb (b_ts vb) c in
          let vs := flat_map (fun t => match t with TVer _ cs => [cs] | _ => [] end) ts in
          let '(h', n', rs) := hrewrap (hb_loc hb) h h (h_next σ) (hb_refs hb) ts in
          (mkHst h' n' (bput b (mkHB (hb_loc hb) rs) (h_bs σ)) (bput f c' (h_cs σ)), zl vs ++ zl (sort_ids lg))
      | _, _ => (σ, [])
      end
  | BValidate b rq =>
      match blookup b (h_bs σ) with
      | Some hb => (σ, [b2z (validate (t_c T) (hview h hb) rq)])
      | None => (σ, []) end
  | BValidateMany b rqs =>
      match blookup b (h_bs σ) with
      | Some hb => (σ, [b2z (validate_many (t_c T) (hview h hb) rqs)])
      | None => (σ, []) end
  | BHeader b => match blookup b (h_bs σ) with Some hb => (σ, zl (header (hview h hb))) | None => (σ, []) end
  | BLen b => match blookup b (h_bs σ) with Some hb => (σ, [Z.of_nat (List.length (hb_refs hb))]) | None => (σ, []) end
  | BCount b p =>
      match blookup b (h_bs σ) with
      | Some hb => (σ, [Z.of_nat (List.length (hb_refs (hselect h hb (pred_fn (hb_loc hb) p))))])
      | None => (σ, []) end
  | BAttenuate b cl =>
      match blookup b (h_bs σ) with
      | Some hb => let '(h', ok) := hattenuate (t_a T) (t_cs T) h hb cl in
                   (mkHst h' (h_next σ) (bput b hb (h_bs σ)) (h_cs σ), [b2z ok])
      | None => (σ, []) end
  | BDischarge b tp key_ok first =>
      match blookup b (h_bs σ) with
      | Some hb =>
          match undischarged_for (hview h hb) tp with
          | [] => (setb b hb, [b2z true])
          | tks => if key_ok
                   then let '(h', n', rs) := halloc h (h_next σ) (map CBase (new_dis tp tks first)) in
                        (seth h' n' b (mkHB (hb_loc hb) (hb_refs hb ++ rs)), [b2z true])
                   else (setb b hb, [b2z false])
          end
      | None => (σ, []) end
  | BClone dst b =>
      match blookup b (h_bs σ) with
      | Some hb =>
          let '(h', n', rs) := halloc h (h_next σ) (map CBase (b_ts (clone (hview h hb)))) in
          (seth h' n' dst (mkHB (hb_loc hb) rs), [])
      | None => (σ, []) end
  | BUndischarged b =>
      match blookup b (h_bs σ) with
      | Some hb => (σ, zl (undischarged_for (hview h hb) 1) ++ zl (undischarged_for (hview h hb) 2))
      | None => (σ, []) end
  | BSelectF dst b f =>
      match blookup b (h_bs σ) with
      | Some hb => (setb dst (hselect h hb (filt_fn (t_c T) (hb_loc hb) (b_ts (hview h hb)) f)), [])
      | None => (σ, []) end
  | BFilterF b f =>
      match blookup b (h_bs σ) with
      | Some hb => (setb b (hselect h hb (filt_fn (t_c T) (hb_loc hb) (b_ts (hview h hb)) f)), [])
      | None => (σ, []) end
  | BCountF b f =>
      match blookup b (h_bs σ) with
      | Some hb => let n := List.length (hb_refs (hselect h hb (filt_fn (t_c T) (hb_loc hb) (b_ts (hview h hb)) f))) in
                   (σ, [Z.of_nat n; b2z (negb (Nat.eqb n 0))])
      | None => (σ, []) end
  | BIsEmpty b =>
      match blookup b (h_bs σ) with
      | Some hb => (σ, [b2z (match hb_refs hb with [] => true | _ => false end)])
      | None => (σ, []) end
  | BError b =>
      match blookup b (h_bs σ) with
      | Some hb => (σ, [b2z (existsb is_bad (b_ts (hview h hb)))])
      | None => (σ, []) end
  | CPurge f =>
      match blookup f (h_cs σ) with
      | Some c => (mkHst h (h_next σ) (h_bs σ) (bput f (mkCache (c_cap c) (c_live c) []) (h_cs σ)), [])
      | None => (σ, []) end
  | CNew f live cap => (mkHst h (h_next σ) (h_bs σ) (bput f (mkCache cap live []) (h_cs σ)), [])
  end.

Fixpoint hrun_from (T : tables) (σ : hst) (ops : list bop) : list (list Z) :=
  match ops with
  | [] => []
  | o :: r => let '(σ', ob) := hstep T σ o in ob :: hrun_from T σ' r
  end.
Definition hinit : hst := mkHst [] 0 [] [].
Definition hrun (T : tables) (ops : list bop) : list (list Z) := hrun_from T hinit ops.

(* the states of a run (for statements about every reachable state) *)
Fixpoint hstate_after (T : tables) (σ : hst) (ops : list bop) : hst :=
  match ops with
  | [] => σ
  | o :: r => hstate_after T (fst (hstep T σ o)) r
  end.

(* ---- the condition under which the value model is exact: every in-place write (Attenuate) goes to objects that no
   other slot reaches.  (Since Verify gives a bundle private wrappers and base objects, a freshly verified bundle may be
   attenuated even when its discharges and other entries are shared.) *)
Definition alias_safe_step (σ : hst) (o : bop) : bool :=
  match o with
  | BAttenuate b _ => att_isolated σ b
  | _ => true
  end.
Fixpoint alias_safe_from (T : tables) (σ : hst) (ops : list bop) : bool :=
  match ops with
  | [] => true
  | o :: r => alias_safe_step σ o && alias_safe_from T (fst (hstep T σ o)) r
  end.
Definition alias_safe (T : tables) (ops : list bop) : bool := alias_safe_from T hinit ops.

(* a syntactic sufficient condition: the scenario never derives a bundle by selection *)
Definition is_select (o : bop) : bool :=
  match o with BSelect _ _ _ | BSelectF _ _ _ => true | _ => false end.
Definition no_select (ops : list bop) : bool := negb (existsb is_select ops).

(* ---- side conditions of the statements about all scenarios *)
(* what the tokeniser produces: entries that are not verification results *)
Definition raw_tok (t : tok) : bool := match t with TVer _ _ | TFail _ => false | _ => true end.
Definition raw_op (o : bop) : bool :=
  match o with
  | BParse _ ts | BParseAll _ ts | BAdd _ ts => forallb raw_tok ts
  | _ => true
  end.
Definition raw_ops (ops : list bop) : bool := forallb raw_op ops.
(* verification with a KeyResolver only (the cache's own invariant is C14's business) *)
Definition is_verify_cached (o : bop) : bool := match o with BVerifyCached _ _ => true | _ => false end.
Definition cache_free (ops : list bop) : bool := negb (existsb is_verify_cached ops).
