(* Typed, lenient decoding of a whole TOKEN: macaroon.Decode = msgpack.Unmarshal(buf, m) for m a pointer to Macaroon, on the Go struct
     type Macaroon struct { Nonce Nonce; Location string; UnsafeCaveats CaveatSet; Tail []byte; newProof bool }
   as vmihailenco/msgpack v5.3.5 does it (decodeStructValue), with the custom decoder of the nonce (Nonce.DecodeMsgpack in
   /repo/nonce.go) in the two states of the code: after the repair 2de874e ([legacy] = false) and before it ([legacy] = true).
   Model.Codec has the canonical encoder (enc_nonce, enc_token); Model.TypedDec / TypedDec2 the scalars and the caveat sets.
   No proofs in this file.

   What the library does, and what is modelled here:
     - the struct: nil (c0) in place of the whole token is THE ZERO TOKEN, without an error (mapLen(nil) = -1, decodeStruct
       sets reflect.Zero);  a MAP (fixmap / map16 / map32; no ext header is skipped at this level: Decoder.mapLen, not
       DecodeMapLen) whose keys are the Go field names "Nonce", "Location", "UnsafeCaveats", "Tail" (there are no msgpack
       tags; the json tags are not looked at): any order, a key may be a str, a bin or nil (= ""), unknown keys have their
       value skipped (Decoder.Skip), missing fields stay zero, and A KEY THAT OCCURS AGAIN IS DECODED INTO THE VALUE THE
       EARLIER OCCURRENCE LEFT;  an ARRAY (fixarray / array16 / array32): length 0 is the zero token, length 4 the four fields
       in order, EVERY OTHER LENGTH IS REFUSED (errArrayStruct).  The unexported newProof is not a field.
     - Nonce (addrDecoder (nilAwareDecoder (decodeCustomValue))): nil is the zero nonce (version 0, nil kid, nil rnd, no
       proof) WITHOUT calling DecodeMsgpack; otherwise DecodeMsgpack: DecodeArrayLen (fixarray / array16 / array32), 2 fields
       = version 0 [kid, rnd], 3 fields = version 1 [kid, rnd, proof], any other count is an error.  kid and rnd are read
       with Decoder.Decode on a pointer to []byte = decodeBytesPtr: nil -> nil slice, fixstr / str8/16/32 / bin8/16/32 -> the payload
       (length 0: empty, non-nil); proof with Decode on a pointer to bool = DecodeBool: nil and c2 are false, c3 is true, anything else
       is an error.  kid, rnd and the version are overwritten by every decode.  The repaired code starts from the zero
       nonce, so a 2-field nonce has proof = false.  THE CODE BEFORE THE REPAIR LEFT Proof AS IT WAS when 2 fields were read:
       a 3-field nonce with proof = c3 followed (same key, in a map) by a 2-field nonce gave version 0 WITH proof = true.
     - Location (decodeStringValue -> DecodeString): nil -> "", str or bin codes; the last occurrence wins.
     - Tail (decodeBytesValue): nil -> nil slice, str or bin codes, length 0 -> empty non-nil; the last occurrence wins.
     - UnsafeCaveats (CaveatSet, addrDecoder (nilAwareDecoder (decodeCustomValue))): nil RESETS the set to the zero value
       (no caveats); an array is decoded by CaveatSet.DecodeMsgpack, which APPENDS to the caveats already there: a map that
       names UnsafeCaveats twice carries the concatenation.  (The canonical writer emits 90 for a nil and for an empty list.)
     - nothing is required of the bytes after the one value (msgpack.Unmarshal does not look at them).
   Any error anywhere refuses the whole token (macaroon.Decode returns nil). *)
From Coq Require Import List Bool NArith ZArith String Ascii.
From Mac Require Import Model.Caveat Model.Msgpack Model.Codec Model.TypedDec Model.TypedDec2.
Import ListNotations.
Local Open Scope N_scope.

(* ---- the nonce *)
Record nonce_state := mk_nonce { n_kid : option bytes; n_rnd : option bytes; n_proof : bool; n_ver : N }.
Definition nonce_zero : nonce_state := mk_nonce None None false 0.

(* the field decoder of a Nonce (nil-aware wrapper + Nonce.DecodeMsgpack) into a nonce that holds [cur] *)
Definition dec_nonce_into (legacy : bool) (cur : nonce_state) (b : bytes) : option (nonce_state * bytes) :=
  match b with
  | [] => None
  | c :: r0 =>
    if c =? 192 then Some (nonce_zero, r0)                                   (* nilAwareDecoder: decodeNilValue *)
    else
      match dec_arr_hdr b with
      | None => None
      | Some (n, r) =>
        if (n =? 2) || (n =? 3) then
          match dec_bytes_len r with
          | None => None
          | Some (kid, r1) =>
            match dec_bytes_len r1 with
            | None => None
            | Some (rnd, r2) =>
              if n =? 2 then Some (mk_nonce kid rnd (if legacy then n_proof cur else false) 0, r2)
              else match dec_bool_len r2 with
                   | Some (p, r3) => Some (mk_nonce kid rnd p 1, r3)
                   | None => None
                   end
            end
          end
        else None                                                            (* "unknown nonce format" *)
      end
  end.

(* ---- the token *)
Record token := mk_token {
  tk_kid : option bytes; tk_rnd : option bytes; tk_proof : bool; tk_ver : N;
  tk_loc : string; tk_cavs : list cav; tk_tail : option bytes }.
Definition tok_zero : token := mk_token None None false 0 EmptyString [] None.

Definition tok_nonce (t : token) : nonce_state := mk_nonce (tk_kid t) (tk_rnd t) (tk_proof t) (tk_ver t).
Definition set_nonce (t : token) (n : nonce_state) : token :=
  mk_token (n_kid n) (n_rnd n) (n_proof n) (n_ver n) (tk_loc t) (tk_cavs t) (tk_tail t).
Definition set_loc (t : token) (s : string) : token :=
  mk_token (tk_kid t) (tk_rnd t) (tk_proof t) (tk_ver t) s (tk_cavs t) (tk_tail t).
Definition set_cavs (t : token) (cs : list cav) : token :=
  mk_token (tk_kid t) (tk_rnd t) (tk_proof t) (tk_ver t) (tk_loc t) cs (tk_tail t).
Definition set_tail (t : token) (o : option bytes) : token :=
  mk_token (tk_kid t) (tk_rnd t) (tk_proof t) (tk_ver t) (tk_loc t) (tk_cavs t) o.

(* the canonical encoding of a decoded token: Macaroon.Encode / encode(m) *)
Definition enc_tok (t : token) : option bytes :=
  enc_token (tk_kid t) (tk_rnd t) (tk_proof t) (tk_ver t) (tk_loc t) (tk_cavs t) (tk_tail t).

Inductive tfield := TNonce | TLoc | TCavs | TTail.
Definition tok_fields : list tfield := [TNonce; TLoc; TCavs; TTail].
Definition tok_field (name : bytes) : option tfield :=
  if bytes_eqb name (nm "Nonce") then Some TNonce
  else if bytes_eqb name (nm "Location") then Some TLoc
  else if bytes_eqb name (nm "UnsafeCaveats") then Some TCavs
  else if bytes_eqb name (nm "Tail") then Some TTail
  else None.

Section Tok.
  Variables (legacy : bool).
  (* one caveat of a given type (Model.TypedDec2.dec_cav at the fuel of the whole input) *)
  Variable dc : N -> bytes -> option (cav * bytes).

  (* one field, decoded into the token as it stands *)
  Definition dec_tfield (f : tfield) (t : token) (l : bytes) : option (token * bytes) :=
    match f with
    | TNonce => option_map (fun p => (set_nonce t (fst p), snd p)) (dec_nonce_into legacy (tok_nonce t) l)
    | TLoc => option_map (fun p => (set_loc t (bytes_str (fst p)), snd p)) (dec_str_len l)
    | TCavs => match l with
               | [] => None
               | c :: r => if c =? 192 then Some (set_cavs t [], r)
                           else option_map (fun p => (set_cavs t (tk_cavs t ++ fst p), snd p)) (dec_set_rest dc l)
               end
    | TTail => option_map (fun p => (set_tail t (fst p), snd p)) (dec_bytes_len l)
    end.

  (* array form *)
  Fixpoint dec_tfields (fs : list tfield) (t : token) (l : bytes) : option (token * bytes) :=
    match fs with
    | [] => Some (t, l)
    | f :: fs' => match dec_tfield f t l with Some (t', r) => dec_tfields fs' t' r | None => None end
    end.

  (* map form *)
  Fixpoint dec_tok_entries (n : nat) (t : token) (l : bytes) : option (token * bytes) :=
    match n with
    | O => Some (t, l)
    | S n' =>
      match dec_str_len l with
      | None => None
      | Some (name, r) =>
        match tok_field name with
        | Some f => match dec_tfield f t r with Some (t', r') => dec_tok_entries n' t' r' | None => None end
        | None => match skip (S (List.length r)) r with Some r' => dec_tok_entries n' t r' | None => None end
        end
      end
    end.

  (* every entry takes at least two bytes, so a count above half the remaining length fails at once (the library: at EOF) *)
  Definition dec_tok_map (n : N) (r : bytes) : option (token * bytes) :=
    if N.of_nat (List.length r) <? 2 * n then None else dec_tok_entries (N.to_nat n) tok_zero r.

  (* decodeStructValue on Macaroon *)
  Definition dec_token_rest (l : bytes) : option (token * bytes) :=
    match l with
    | [] => None
    | c :: r =>
      if c =? 192 then Some (tok_zero, r)
      else if (128 <=? c) && (c <=? 143) then dec_tok_map (c - 128) r
      else if c =? 222 then match take 2 r with Some (lb, r1) => dec_tok_map (be_val lb 0) r1 | None => None end
      else if c =? 223 then match take 4 r with Some (lb, r1) => dec_tok_map (be_val lb 0) r1 | None => None end
      else
        match dec_arr_hdr l with
        | None => None
        | Some (n, r1) =>
          if n =? 0 then Some (tok_zero, r1)
          else if n =? 4 then dec_tfields tok_fields tok_zero r1
          else None                                   (* errArrayStruct *)
        end
    end.
End Tok.

(* macaroon.Decode.  [ext], [pz]: see Model.TypedDec2 (they only matter inside resource sets and IfPresent) *)
Definition dec_token_gen (legacy ext pz : bool) (b : bytes) : option token :=
  option_map fst (dec_token_rest legacy (dec_cav ext pz (S (List.length b))) b).

(* the repaired library, as a process that verifies tokens sees it *)
Definition dec_token : bytes -> option token := dec_token_gen false true false.

(* the explicit input of the defect F16: a map that names Nonce twice - first a 3-field decoy with proof = true, then the
   genuine 2-field (old format) nonce [kid "k", rnd 00..0f] - and then Location "l", no caveats, a 32-byte tail *)
Definition f16_bytes : bytes :=
  [133] ++
  enc_str (nm "Nonce") ++ [147; 196; 1; 120; 196; 1; 121; 195] ++
  enc_str (nm "Nonce") ++ [146; 196; 1; 107; 196; 16; 0; 1; 2; 3; 4; 5; 6; 7; 8; 9; 10; 11; 12; 13; 14; 15] ++
  enc_str (nm "Location") ++ [161; 108] ++
  enc_str (nm "UnsafeCaveats") ++ [144] ++
  enc_str (nm "Tail") ++ [196; 32] ++ repeat 170 32.
