(* Canonical wire encoding of caveats, caveat sets, nonces and tokens; the frame-level decoder of
   caveat sets (type + body span, as CaveatSet.DecodeMsgpack + Skip see them); the JSON round trip
   at the value level; the decoder's wire-driven pre-allocation.  No proofs in this file. *)
From Coq Require Import List Bool NArith ZArith String Ascii Decimal DecimalString.
From Mac Require Import Model.Caveat Model.Msgpack Generated.Facts.
Import ListNotations.
Local Open Scope N_scope.

Definition str_bytes (s : string) : bytes := map N_of_ascii (list_ascii_of_string s).

(* resource sets are written with their keys in ascending order *)
Fixpoint ins_n (e : N * N) (l : list (N * N)) : list (N * N) :=
  match l with [] => [e] | x :: r => if fst e <=? fst x then e :: l else x :: ins_n e r end.
Definition sort_rs_n (l : list (N * N)) : list (N * N) := fold_right ins_n [] l.
Definition str_leb (a b : string) : bool := match String.compare a b with Gt => false | _ => true end.
Fixpoint ins_s (e : string * N) (l : list (string * N)) : list (string * N) :=
  match l with [] => [e] | x :: r => if str_leb (fst e) (fst x) then e :: l else x :: ins_s e r end.
Definition sort_rs_s (l : list (string * N)) : list (string * N) := fold_right ins_s [] l.

Definition enc_rs_n (rs : list (N * N)) : bytes :=
  enc_map_hdr (N.of_nat (List.length rs)) ++ flat_map (fun e => enc_uint (fst e) ++ enc_uint (snd e)) (sort_rs_n rs).
Definition enc_rs_s (rs : list (string * N)) : bytes :=
  enc_map_hdr (N.of_nat (List.length rs)) ++ flat_map (fun e => enc_str (str_bytes (fst e)) ++ enc_uint (snd e)) (sort_rs_s rs).

Definition enc_strs (l : list string) : bytes :=
  enc_arr_hdr (N.of_nat (List.length l)) ++ flat_map (fun s => enc_str (str_bytes s)) l.
Definition enc_ostrs (o : option (list string)) : bytes := match o with None => enc_nil | Some l => enc_strs l end.

(* big.Int.Bytes(): minimal big-endian magnitude, empty for 0 *)
Fixpoint be_min_fuel (fuel : nat) (n : N) : bytes :=
  match fuel with
  | O => []
  | S f => if n =? 0 then [] else be_min_fuel f (n / 256) ++ [n mod 256]
  end.
Definition be_min (n : N) : bytes := be_min_fuel (S (N.to_nat (N.log2 n))) n.

Definition arr1 : bytes := [145].
Definition arr2 : bytes := [146].
Definition arr3 : bytes := [147].

(* body of a caveat, i.e. enc.Encode(cav); None = encoding error *)
Fixpoint enc_body (c : cav) : option bytes :=
  match c with
  | COrganization id mask => Some (arr2 ++ enc_uint id ++ enc_uint mask)
  | CVolumes rs | CFeatureSet rs | CMachines rs | CMachineFeatureSet rs | CClusters rs
  | CAppFeatureSet rs | CStorageObjects rs => Some (arr1 ++ enc_rs_s rs)
  | CApps rs => Some (arr1 ++ enc_rs_n rs)
  | CValidityWindow nb na => Some (arr2 ++ enc_int nb ++ enc_int na)
  | CMutations ms => Some (arr1 ++ enc_ostrs ms)
  | CConfineUser id | CConfineOrganization id | CIsUser id => Some (arr1 ++ enc_uint id)
  | C3P loc vk tk => Some (arr3 ++ enc_str (str_bytes loc) ++ enc_obin vk ++ enc_obin tk)
  | CBind b => Some (enc_obin b)
  | CIfPresent ifs els =>
      match ifs with
      | None => Some (arr2 ++ enc_nil ++ enc_uint els)
      | Some l =>
        let fix go (l : list cav) : option bytes :=
          match l with
          | [] => Some []
          | c' :: r => match enc_body c', go r with
                       | Some b, Some rest => Some (enc_uint (cav_type c') ++ b ++ rest)
                       | _, _ => None
                       end
          end in
        match go l with
        | Some inner => Some (arr2 ++ enc_arr_hdr (2 * N.of_nat (List.length l)) ++ inner ++ enc_uint els)
        | None => None
        end
      end
  | CFromMachine id => Some (arr1 ++ enc_str (str_bytes id))
  | CConfineGoogleHD hd => Some (enc_str (str_bytes hd))
  | CConfineGitHubOrg n | CMaxValidity n | CFlyioUserID n | CGitHubUserID n | CAction n | CAllowedRoles n => Some (enc_uint n)
  | CIsMember => Some [144]
  | CGoogleUserID n => Some (enc_bin (be_min n))
  | CCommands cmds =>
      match cmds with
      | None => Some enc_nil
      | Some l => Some (enc_arr_hdr (N.of_nat (List.length l)) ++
                        flat_map (fun ce => arr2 ++ enc_ostrs (fst ce) ++ enc_bool (snd ce)) l)
      end
  | CFlySrc o a i => Some (arr3 ++ enc_str (str_bytes o) ++ enc_str (str_bytes a) ++ enc_str (str_bytes i))
  | CUnregistered _ body => match body with [] => None | _ => Some body end
  end.

(* CaveatSet.EncodeMsgpack *)
Fixpoint enc_frames (cs : list cav) : option bytes :=
  match cs with
  | [] => Some []
  | c :: r => match enc_body c, enc_frames r with
              | Some b, Some rest => Some (enc_uint (cav_type c) ++ b ++ rest)
              | _, _ => None
              end
  end.
Definition enc_set (cs : list cav) : option bytes :=
  option_map (fun f => enc_arr_hdr (2 * N.of_nat (List.length cs)) ++ f) (enc_frames cs).

(* the message that is MACed for one caveat: NewCaveatSet(c).MarshalMsgpack() *)
Definition enc_one (c : cav) : option bytes := enc_set [c].

(* nonce and token *)
Definition enc_nonce (kid rnd : option bytes) (proof : bool) (ver : N) : bytes :=
  if ver =? 0 then [146] ++ enc_obin kid ++ enc_obin rnd
  else [147] ++ enc_obin kid ++ enc_obin rnd ++ enc_bool proof.
Definition enc_token (kid rnd : option bytes) (proof : bool) (ver : N) (loc : string) (cs : list cav) (tail : option bytes) : option bytes :=
  option_map (fun s => [148] ++ enc_nonce kid rnd proof ver ++ enc_str (str_bytes loc) ++ s ++ enc_obin tail) (enc_set cs).

(* ---- frame-level decoding of a caveat set: DecodeArrayLen, then per caveat DecodeUint + the span Skip finds *)
Definition dec_uint (l : bytes) : option (N * bytes) :=
  match l with
  | [] => None
  | c :: r =>
    if c <=? 127 then Some (c, r)
    else if c =? 204 then option_map (fun p => (be_val (fst p) 0, snd p)) (take 1 r)
    else if c =? 205 then option_map (fun p => (be_val (fst p) 0, snd p)) (take 2 r)
    else if c =? 206 then option_map (fun p => (be_val (fst p) 0, snd p)) (take 4 r)
    else if c =? 207 then option_map (fun p => (be_val (fst p) 0, snd p)) (take 8 r)
    else None     (* signed and nil codes are accepted by the library too; the frame model covers what encoders emit *)
  end.
Definition dec_arr_hdr (l : bytes) : option (N * bytes) :=
  match l with
  | [] => None
  | c :: r =>
    if (144 <=? c) && (c <=? 159) then Some (c - 144, r)
    else if c =? 220 then option_map (fun p => (be_val (fst p) 0, snd p)) (take 2 r)
    else if c =? 221 then option_map (fun p => (be_val (fst p) 0, snd p)) (take 4 r)
    else None
  end.

Fixpoint dec_frames_n (n : nat) (l : bytes) : option (list (N * bytes) * bytes) :=
  match n with
  | O => Some ([], l)
  | S n' =>
    match dec_uint l with
    | None => None
    | Some (ty, r) =>
      match skip (S (List.length r)) r with
      | None => None
      | Some rest =>
        let body := firstn (List.length r - List.length rest) r in
        match dec_frames_n n' rest with
        | Some (fs, tl) => Some ((ty, body) :: fs, tl)
        | None => None
        end
      end
    end
  end.

Definition dec_frames (l : bytes) : option (list (N * bytes)) :=
  match dec_arr_hdr l with
  | None => None
  | Some (n, r) =>
    if N.odd n then None
    else if N.of_nat (List.length r) <? n then None       (* every element takes at least one byte *)
    else option_map fst (dec_frames_n (N.to_nat (n / 2)) r)
  end.

(* ---- the same decoder with the leniencies of the library on input it did not produce itself (msgpack's DecodeUint64
   takes nil as 0 and every signed code as its two's complement; a nil in place of the whole set is the empty set).
   Bodies are still only delimited (Skip): typed decoding of a body may refuse more, never less. *)
Definition twos (bits : N) (v : N) : N := if v <? 2 ^ (bits - 1) then v else 2 ^ 64 - (2 ^ bits - v).
Definition dec_uint_len (l : bytes) : option (N * bytes) :=
  match l with
  | [] => None
  | c :: r =>
    if c <=? 127 then Some (c, r)
    else if c =? 192 then Some (0, r)
    else if 224 <=? c then Some (2 ^ 64 - (256 - c), r)
    else if c =? 204 then option_map (fun p => (be_val (fst p) 0, snd p)) (take 1 r)
    else if c =? 205 then option_map (fun p => (be_val (fst p) 0, snd p)) (take 2 r)
    else if c =? 206 then option_map (fun p => (be_val (fst p) 0, snd p)) (take 4 r)
    else if c =? 207 then option_map (fun p => (be_val (fst p) 0, snd p)) (take 8 r)
    else if c =? 208 then option_map (fun p => (twos 8 (be_val (fst p) 0), snd p)) (take 1 r)
    else if c =? 209 then option_map (fun p => (twos 16 (be_val (fst p) 0), snd p)) (take 2 r)
    else if c =? 210 then option_map (fun p => (twos 32 (be_val (fst p) 0), snd p)) (take 4 r)
    else if c =? 211 then option_map (fun p => (twos 64 (be_val (fst p) 0), snd p)) (take 8 r)
    else None
  end.
Fixpoint dec_frames_n_len (n : nat) (l : bytes) : option (list (N * bytes) * bytes) :=
  match n with
  | O => Some ([], l)
  | S n' =>
    match dec_uint_len l with
    | None => None
    | Some (ty, r) =>
      match skip (S (List.length r)) r with
      | None => None
      | Some rest =>
        let body := firstn (List.length r - List.length rest) r in
        match dec_frames_n_len n' rest with
        | Some (fs, tl) => Some ((ty, body) :: fs, tl)
        | None => None
        end
      end
    end
  end.
Definition dec_frames_len (l : bytes) : option (list (N * bytes)) :=
  match l with
  | 192 :: _ => Some []
  | _ =>
    match dec_arr_hdr l with
    | None => None
    | Some (n, r) =>
      if N.odd n then None
      else if N.of_nat (List.length r) <? n then None
      else option_map fst (dec_frames_n_len (N.to_nat (n / 2)) r)
    end
  end.

(* the decoder's wire-driven pre-size of the caveat slice (after the repair of F4): min(n/2, 64) slots *)
Definition prealloc_slots (l : bytes) : N :=
  match dec_arr_hdr l with
  | Some (n, _) => if N.odd n then 0 else N.min (n / 2) 64
  | None => 0
  end.

(* ---- JSON round trip at the value level: what json.Marshal followed by json.Unmarshal yields.
   Action masks are rendered as strings over "rwcdC": only the five defined bits survive. *)
Definition jmask (m : N) : N := N.land m 31.
Definition jrs {K} (rs : list (K * N)) : list (K * N) := map (fun e => (fst e, jmask (snd e))) rs.

Fixpoint json_rt (c : cav) : option cav :=
  match c with
  | COrganization id m => Some (COrganization id (jmask m))
  | CVolumes rs => Some (CVolumes (jrs rs)) | CApps rs => Some (CApps (jrs rs))
  | CFeatureSet rs => Some (CFeatureSet (jrs rs)) | CMachines rs => Some (CMachines (jrs rs))
  | CMachineFeatureSet rs => Some (CMachineFeatureSet (jrs rs)) | CClusters rs => Some (CClusters (jrs rs))
  | CAppFeatureSet rs => Some (CAppFeatureSet (jrs rs)) | CStorageObjects rs => Some (CStorageObjects (jrs rs))
  | CAction m => Some (CAction (jmask m))
  | CIfPresent ifs els =>
      match ifs with
      | None => Some (CIfPresent None (jmask els))
      | Some l =>
        let fix go (l : list cav) : option (list cav) :=
          match l with
          | [] => Some []
          | c' :: r => match json_rt c', go r with Some x, Some xs => Some (x :: xs) | _, _ => None end
          end in
        option_map (fun l' => CIfPresent (Some l') (jmask els)) (go l)
      end
  | CUnregistered _ _ => None                   (* msgpack-only unregistered caveats refuse JSON *)
  | CBind None => None                          (* renders as JSON null, which the set decoder refuses (explicit error) *)
  | CCommands None => None                      (* likewise *)
  | other => Some other
  end.

(* ---- the "type" field of a JSON caveat (caveatTypeToString / caveatTypeFromString).
   [reg] lists (type number, name) of the registered caveat types (Generated/Facts.v plus whatever the application
   registered).  A registered built-in type prints as its name, every other type (user-defined, unknown) in decimal;
   reading looks the name up and falls back to strconv.ParseUint(s, 10, 64), then to CavUnregistered.
   JSON aliases (RegisterCaveatJSONAlias) are further names on the reading side only and are not modelled. *)
Definition dec_string (t : N) : string := NilZero.string_of_uint (N.to_uint t).
Definition parse_uint64 (s : string) : option N :=
  match NilZero.uint_of_string s with
  | Some d => let n := N.of_uint d in if n <? 2 ^ 64 then Some n else None
  | None => None
  end.
Definition type_to_json (reg : list (N * string)) (min_user : N) (t : N) : string :=
  match find (fun e => fst e =? t) reg with
  | Some (_, s) => if t <? min_user then s else dec_string t
  | None => dec_string t
  end.
Definition type_from_json (reg : list (N * string)) (unregistered : N) (s : string) : N :=
  match find (fun e => String.eqb (snd e) s) reg with
  | Some (t, _) => t
  | None => match parse_uint64 s with Some t => t | None => unregistered end
  end.
(* reading with the JSON aliases of the tree (RegisterCaveatJSONAlias): further names, looked up after the registered ones *)
Definition type_from_json_al (reg : list (N * string)) (aliases : list (string * N)) (unregistered : N) (s : string) : N :=
  match find (fun e => String.eqb (snd e) s) reg with
  | Some (t, _) => t
  | None => match find (fun e => String.eqb (fst e) s) aliases with
            | Some (_, t) => t
            | None => match parse_uint64 s with Some t => t | None => unregistered end
            end
  end.
(* what a registry must satisfy for the round trip: looking an entry's name up gives its type back, and no name is a
   decimal numeral (it would shadow a user-defined type's number) *)
Definition is_decimal (s : string) : bool := match NilZero.uint_of_string s with Some _ => true | None => false end.
Definition reg_ok (reg : list (N * string)) : bool :=
  forallb (fun e => match find (fun e' => String.eqb (snd e') (snd e)) reg with
                    | Some (t', _) => t' =? fst e | None => false end) reg &&
  forallb (fun e => negb (is_decimal (snd e))) reg.

(* the registry of this tree (Generated/Facts.v, regenerated from /repo on every run) together with the three user-defined
   types the harness registers at the bottom, the middle and the top of the user range *)
Definition facts_reg : list (N * string) := map (fun e => (fst (fst (fst e)), snd (fst (fst e)))) registered.
Definition harness_reg : list (N * string) :=
  [(f_cav_min_user_defined, "HarnessLow"%string); (2 ^ 63 + 7, "HarnessMid"%string); (f_cav_max_user_defined, "HarnessMax"%string)].
Definition all_reg := facts_reg ++ harness_reg.
