(* Access requests and the time model.  No proofs in this file. *)
From Coq Require Import List Bool NArith ZArith String.
From Mac Require Import Model.Err.
Import ListNotations.
Local Open Scope Z_scope.

(* ---- Go time.Time restricted to what the library uses: values built by
   time.Unix(sec, nsec) with 0 <= nsec < 1e9.  Internally Go stores
   sec + 62135596800 in an int64 (wrapping); Before/After compare that. *)
Definition two63 : Z := 9223372036854775808.
Definition two64 : Z := 18446744073709551616.
Definition wrap64 (z : Z) : Z := (z + two63) mod two64 - two63.   (* to int64 *)
Definition unix_to_internal : Z := 62135596800.

Record time := mkT { t_sec : Z ; t_nsec : Z }.   (* internal seconds, nanoseconds *)
Definition unixT (sec nsec : Z) : time := mkT (wrap64 (sec + unix_to_internal)) nsec.
Definition t_after (t u : time) : bool :=
  (t_sec u <? t_sec t) || ((t_sec t =? t_sec u) && (t_nsec u <? t_nsec t)).
Definition t_before (t u : time) : bool := t_after u t.
(* Time.Unix() *)
Definition t_unix (t : time) : Z := wrap64 (t_sec t - unix_to_internal).
(* macaroon.maxTime = time.Unix(1<<63-62135596801, 999999999) *)
Definition max_time : time := unixT (two63 - 62135596801) 999999999.

(* time.Duration arithmetic used by auth.MaxValidity *)
Definition max_dur : Z := two63 - 1.
Definition min_dur : Z := - two63.
Definition sat64 (z : Z) : Z := if z <? min_dur then min_dur else if max_dur <? z then max_dur else z.
(* time.Duration(c) * time.Second for a uint64 c *)
Definition dur_of_secs (c : N) : Z := wrap64 (Z.of_N c * 1000000000).

Arguments wrap64 : simpl never.
Arguments sat64 : simpl never.
Arguments dur_of_secs : simpl never.
Arguments unixT : simpl never.
Arguments t_after : simpl never.
Arguments t_before : simpl never.
Arguments t_unix : simpl never.

(* ---- flyio.Access (with the clock as an input) *)
Record flyio_access := mkFA {
  fa_action : N;
  fa_org : option N;
  fa_app : option N;
  fa_appfeature : option string;
  fa_feature : option string;
  fa_volume : option string;
  fa_machine : option string;
  fa_machinefeature : option string;
  fa_mutation : option string;
  fa_srcmachine : option string;
  fa_srcapp : option string;
  fa_srcorg : option string;
  fa_cluster : option string;
  fa_command : option (list string);
  fa_storage : option string;
  fa_now : time
}.

(* ---- auth.DischargeRequest.  dr_delta is the true value of Expiry - Now() in
   nanoseconds (unbounded); Time.Sub saturates it to an int64. *)
Record discharge_req := mkDR {
  dr_flyio : list (N * list N);        (* (UserID, OrganizationIDs) *)
  dr_google : list string;             (* HD *)
  dr_github : list (list N);           (* OrgIDs *)
  dr_now : time;
  dr_delta : Z
}.

Inductive access :=
| AFlyio (a : flyio_access)
| ADischarge (d : discharge_req)
| ABare (valid : bool) (now : time)          (* implements only macaroon.Access *)
| AActionOnly (act : N) (now : time).        (* implements only resset.Access *)

Definition a_now (a : access) : time :=
  match a with
  | AFlyio f => fa_now f | ADischarge d => dr_now d | ABare _ t => t | AActionOnly _ t => t
  end.

(* a.(resset.Access).GetAction() *)
Definition a_action (a : access) : option N :=
  match a with
  | AFlyio f => Some (fa_action f) | AActionOnly m _ => Some m | _ => None
  end.

Definition a_flyio (a : access) : option flyio_access :=
  match a with AFlyio f => Some f | _ => None end.

Definition isSome {A} (o : option A) : bool := match o with Some _ => true | None => false end.
Definition count_true (l : list bool) : nat := List.length (filter (fun b => b) l).

Definition feature_lfsc : string := "litefs-cloud".

(* flyio.Access.Validate *)
Definition fa_validate (f : flyio_access) : err :=
  if negb (isSome (fa_org f)) then Some E_unspec else
  let orgres := count_true [isSome (fa_app f); isSome (fa_feature f); isSome (fa_storage f)] in
  if Nat.ltb 1 orgres then Some E_mutex else
  let appres := count_true [isSome (fa_machine f); isSome (fa_volume f); isSome (fa_appfeature f)] in
  if negb (Nat.eqb appres 0) && negb (isSome (fa_app f)) then Some E_unspec else
  if Nat.ltb 1 appres then Some E_mutex else
  let cl := match fa_cluster f, fa_feature f with
            | Some _, None => Some E_unspec
            | Some _, Some ft => if negb (String.eqb ft feature_lfsc) then Some E_invalid else None
            | None, _ => None
            end in
  match cl with
  | Some e => Some e
  | None =>
      let mres := count_true [isSome (fa_command f); isSome (fa_machinefeature f)] in
      if negb (Nat.eqb mres 0) && negb (isSome (fa_machine f)) then Some E_unspec else
      if Nat.ltb 1 mres then Some E_mutex else None
  end.

(* Access.Validate() *)
Definition access_valid (a : access) : err :=
  match a with
  | AFlyio f => fa_validate f
  | ADischarge _ => None
  | ABare v _ => if v then None else Some E_invalid
  | AActionOnly _ _ => None
  end.
