(* Scenario language over the symbolic model: honest operations through the public API
   and attacker surgery on held tokens.  The Go harness interprets the same scenarios
   on the real library with real cryptography.  No proofs in this file. *)
From Coq Require Import List Bool NArith ZArith.
From Mac Require Import Model.Sym.
Import ListNotations.
Local Open Scope N_scope.

Inductive tailx :=
| XTail (s : N)                       (* current tail of slot s *)
| XMacCav (x : tailx) (s i : N)       (* HMAC(x, enc [caveat i of slot s]) *)
| XMacNonce (x : tailx) (s : N)       (* HMAC(x, enc nonce of slot s) *)
| XFin (x : tailx)
| XDigest (x : tailx)
| XPre16 (x : tailx)
| XLit (b : list N)
| XKey (k : N).

Inductive acav :=
| CD (d : dcav)
| C3 (enckey loc : N) (tcavs : list dcav).

Inductive op :=
| OMint (s k : N) (kid : list N) (loc : N) (proof : bool) (ver : N)
| OAdd (s : N) (l : list acav)
| OEncode (s : N)
| OClone (dst src : N)
| ODecodeRaw (dst src : N)
| ODischarge (dst src i enckey loc : N) (proof : bool) (l : list dcav)
| OBind (d parent : N)
| OVerify (s k : N) (ds : list N) (tr : list (N * list N)) (direct : bool)
| OVerifyObjs (s k : N) (ds : list N) (tr : list (N * list N))   (* VerifyParsed on the live objects (token and discharges), no wire round trip *)
| OSameWire (a b : N)
| OSetTail (s : N) (x : tailx)
| ODropCav (s i : N)
| OSwapCav (s i j : N)
| OCopyCav (dst pos src i : N)
| OAppendData (s : N) (d : dcav)
| OSetKid (s : N) (kid : list N)
| OCopyKid (s src : N)
| OCopyRnd (s src : N)
| OFlipProof (s : N)
| OSetVer (s v : N)
| OSetNewProof (s : N) (b : bool)
| OSetLoc (s loc : N)
| OCopyVK (dst i src j : N)
| OCopyTicket (dst i src j : N)
| OAdd3PWithTicket (s loc dkkey src j : N)   (* proper MAC extension; ticket copied from (src, j); VK seals TKey dkkey *)
| OMintForTicket (dst src j key loc : N) (proof : bool) (* token whose key-id is the ticket of (src, j), signed with TKey key *)
| OCopyVal (dst src : N).                    (* a by-value copy of the token OBJECT (cp := *m): same fields, its own "not yet encoded" flag *)

Record st := mkSt { slots : list (N * token); fresh : N }.
Definition st0 : st := mkSt [] 0.

Fixpoint lookup (s : N) (l : list (N * token)) : option token :=
  match l with
  | [] => None
  | (k, t) :: r => if k =? s then Some t else lookup s r
  end.
Definition put (s : N) (t : token) (l : list (N * token)) : list (N * token) :=
  (s, t) :: filter (fun e => negb (fst e =? s)) l.

Definition nth_cav (t : token) (i : N) : option pcav := nth_error (t_cavs t) (N.to_nat i).

Definition set_cavs (t : token) (cs : list pcav) : token := mkTok (t_nonce t) (t_loc t) cs (t_tail t) (t_newproof t).
Definition set_tail (t : token) (x : term) : token := mkTok (t_nonce t) (t_loc t) (t_cavs t) x (t_newproof t).
Definition set_nonce (t : token) (n : nonce) : token := mkTok n (t_loc t) (t_cavs t) (t_tail t) (t_newproof t).

Fixpoint eval_tailx (sl : list (N * token)) (x : tailx) : option term :=
  match x with
  | XTail s => option_map t_tail (lookup s sl)
  | XMacCav y s i =>
    match eval_tailx sl y, lookup s sl with
    | Some v, Some t => match nth_cav t i with Some c => Some (TMac v (MCav c)) | None => None end
    | _, _ => None
    end
  | XMacNonce y s =>
    match eval_tailx sl y, lookup s sl with
    | Some v, Some t => Some (TMac v (mnonce (t_nonce t)))
    | _, _ => None
    end
  | XFin y => option_map TFin (eval_tailx sl y)
  | XDigest y => option_map THash (eval_tailx sl y)
  | XPre16 y => option_map TPre16 (eval_tailx sl y)
  | XLit b => Some (TLit b)
  | XKey k => Some (TKey k)
  end.

Fixpoint replace_nth {A} (n : nat) (l : list A) (x : A) : list A :=
  match n, l with
  | O, _ :: r => x :: r
  | S m, y :: r => y :: replace_nth m r x
  | _, [] => []
  end.
Fixpoint remove_nth {A} (n : nat) (l : list A) : list A :=
  match n, l with
  | O, _ :: r => r
  | S m, y :: r => y :: remove_nth m r
  | _, [] => []
  end.
Fixpoint insert_nth {A} (n : nat) (l : list A) (x : A) : list A :=
  match n, l with
  | O, _ => x :: l
  | S m, y :: r => y :: insert_nth m r x
  | S _, [] => [x]
  end.

Definition token_eqb (a b : token) : bool :=
  msg_eqb (mnonce (t_nonce a)) (mnonce (t_nonce b)) && (t_loc a =? t_loc b) &&
  list_eqb pcav_eqb (t_cavs a) (t_cavs b) && term_eqb (t_tail a) (t_tail b).

(* translate the caveats handed to Add: every 3P caveat draws a fresh discharge key and two seal nonces *)
Fixpoint mk_addcavs (f : N) (l : list acav) : list addcav * N :=
  match l with
  | [] => ([], f)
  | CD d :: r => let '(o, f') := mk_addcavs f r in (AData d :: o, f')
  | C3 ek loc tc :: r =>
    let rn := TFresh f in
    let tk := TSeal (TKey ek) (f + 1) (TTicket rn tc) in
    let '(o, f') := mk_addcavs (f + 3) r in (A3P loc rn (f + 2) tk :: o, f')
  end.

Definition b2z (b : bool) : Z := if b then 1%Z else 0%Z.
Definition obs := list Z.

Definition obs_verify (r : option (list dcav)) : obs :=
  match r with
  | None => [0%Z]
  | Some s => 1%Z :: Z.of_nat (List.length s) :: map (fun d => Z.of_N (d_id d)) s ++
              Z.of_nat (List.length (attestations s)) :: map (fun d => Z.of_N (d_id d)) (attestations s)
  end.

(* one step: new state and the observation (empty = nothing observed) *)
Definition step (σ : st) (o : op) : st * obs :=
  let sl := slots σ in
  let upd s t := mkSt (put s t sl) (fresh σ) in
  match o with
  | OMint s k kid loc proof ver =>
    (mkSt (put s (mint (TKey k) (TLit kid) loc proof ver (TFresh (fresh σ))) sl) (fresh σ + 1), [])
  | OAdd s l =>
    match lookup s sl with
    | None => (σ, [])
    | Some t =>
      let '(al, f') := mk_addcavs (fresh σ) l in
      let '(t', ok) := add t al in
      (mkSt (put s t' sl) f', [b2z ok])
    end
  | OEncode s =>
    match lookup s sl with
    | None => (σ, [])
    | Some t => (upd s (encode t), [b2z (n_proof (t_nonce t) && t_newproof t)])
    end
  | OClone dst src =>
    match lookup src sl with
    | None => (σ, [])
    | Some t => let '(e, c) := clone t in (mkSt (put dst c (put src e sl)) (fresh σ), [])
    end
  | ODecodeRaw dst src =>
    match lookup src sl with
    | None => (σ, [])
    | Some t => (upd dst (decode t), [])
    end
  | ODischarge dst src i ek loc proof l =>
    match lookup src sl with
    | None => (σ, [])
    | Some t =>
      match nth_cav t i with
      | Some (P3P _ _ tk) =>
        match discharge_ticket (TKey ek) loc tk proof (TFresh (fresh σ)) with
        | None => (σ, [0%Z])
        | Some (_, d) =>
          let '(d', ok) := add d (map AData l) in
          (mkSt (put dst d' sl) (fresh σ + 1), [1%Z; b2z ok])
        end
      | _ => (σ, [])
      end
    end
  | OBind d parent =>
    match lookup d sl, lookup parent sl with
    | Some td, Some tp => let '(t', ok) := add td [bind_cav tp] in (upd d t', [b2z ok])
    | _, _ => (σ, [])
    end
  | OVerify s k ds tr direct =>
    match lookup s sl with
    | None => (σ, [])
    | Some t =>
      let dts := flat_map (fun d => match lookup d sl with Some x => [decode x] | None => [] end) ds in
      let trm := map (fun e => (fst e, map TKey (snd e))) tr in
      (σ, obs_verify (verify (TKey k) (if direct then t else decode t) dts trm))
    end
  | OVerifyObjs s k ds tr =>
    match lookup s sl with
    | None => (σ, [])
    | Some t =>
      let dts := flat_map (fun d => match lookup d sl with Some x => [x] | None => [] end) ds in
      let trm := map (fun e => (fst e, map TKey (snd e))) tr in
      (σ, obs_verify (verify (TKey k) t dts trm))
    end
  | OSameWire a b =>
    match lookup a sl, lookup b sl with
    | Some ta, Some tb => (σ, [b2z (token_eqb ta tb)])
    | _, _ => (σ, [])
    end
  | OSetTail s x =>
    match lookup s sl, eval_tailx sl x with
    | Some t, Some v => (upd s (set_tail t v), [])
    | _, _ => (σ, [])
    end
  | ODropCav s i =>
    match lookup s sl with
    | Some t => (upd s (set_cavs t (remove_nth (N.to_nat i) (t_cavs t))), [])
    | None => (σ, [])
    end
  | OSwapCav s i j =>
    match lookup s sl with
    | Some t =>
      match nth_cav t i, nth_cav t j with
      | Some ci, Some cj =>
        (upd s (set_cavs t (replace_nth (N.to_nat j) (replace_nth (N.to_nat i) (t_cavs t) cj) ci)), [])
      | _, _ => (σ, [])
      end
    | None => (σ, [])
    end
  | OCopyCav dst pos src i =>
    match lookup dst sl, lookup src sl with
    | Some td, Some ts =>
      match nth_cav ts i with
      | Some c => (upd dst (set_cavs td (insert_nth (N.to_nat pos) (t_cavs td) c)), [])
      | None => (σ, [])
      end
    | _, _ => (σ, [])
    end
  | OAppendData s d =>
    match lookup s sl with
    | Some t => (upd s (set_cavs t (t_cavs t ++ [PData d])), [])
    | None => (σ, [])
    end
  | OSetKid s kid =>
    match lookup s sl with
    | Some t => let n := t_nonce t in (upd s (set_nonce t (mkNonce (TLit kid) (n_rnd n) (n_proof n) (n_ver n))), [])
    | None => (σ, [])
    end
  | OCopyKid s src =>
    match lookup s sl, lookup src sl with
    | Some t, Some u => let n := t_nonce t in
      (upd s (set_nonce t (mkNonce (n_kid (t_nonce u)) (n_rnd n) (n_proof n) (n_ver n))), [])
    | _, _ => (σ, [])
    end
  | OCopyRnd s src =>
    match lookup s sl, lookup src sl with
    | Some t, Some u => let n := t_nonce t in
      (upd s (set_nonce t (mkNonce (n_kid n) (n_rnd (t_nonce u)) (n_proof n) (n_ver n))), [])
    | _, _ => (σ, [])
    end
  | OFlipProof s =>
    match lookup s sl with
    | Some t => let n := t_nonce t in (upd s (set_nonce t (mkNonce (n_kid n) (n_rnd n) (negb (n_proof n)) (n_ver n))), [])
    | None => (σ, [])
    end
  | OSetVer s v =>
    match lookup s sl with
    | Some t => let n := t_nonce t in
      (* a version-0 nonce has no proof field on the wire *)
      (upd s (set_nonce t (mkNonce (n_kid n) (n_rnd n) (if v =? 0 then false else n_proof n) v)), [])
    | None => (σ, [])
    end
  | OSetNewProof s b =>
    match lookup s sl with
    | Some t => (upd s (mkTok (t_nonce t) (t_loc t) (t_cavs t) (t_tail t) b), [])
    | None => (σ, [])
    end
  | OSetLoc s loc =>
    match lookup s sl with
    | Some t => (upd s (mkTok (t_nonce t) loc (t_cavs t) (t_tail t) (t_newproof t)), [])
    | None => (σ, [])
    end
  | OCopyVK dst i src j =>
    match lookup dst sl, lookup src sl with
    | Some td, Some ts =>
      match nth_cav td i, nth_cav ts j with
      | Some (P3P l _ tk), Some (P3P _ vk' _) =>
        (upd dst (set_cavs td (replace_nth (N.to_nat i) (t_cavs td) (P3P l vk' tk))), [])
      | _, _ => (σ, [])
      end
    | _, _ => (σ, [])
    end
  | OCopyTicket dst i src j =>
    match lookup dst sl, lookup src sl with
    | Some td, Some ts =>
      match nth_cav td i, nth_cav ts j with
      | Some (P3P l vk _), Some (P3P _ _ tk') =>
        (upd dst (set_cavs td (replace_nth (N.to_nat i) (t_cavs td) (P3P l vk tk'))), [])
      | _, _ => (σ, [])
      end
    | _, _ => (σ, [])
    end
  | OAdd3PWithTicket s loc dkkey src j =>
    match lookup s sl, lookup src sl with
    | Some t, Some ts =>
      match nth_cav ts j with
      | Some (P3P _ _ tk) =>
        let c := P3P loc (TSeal (t_tail t) (fresh σ) (TKey dkkey)) tk in
        (mkSt (put s (mkTok (t_nonce t) (t_loc t) (t_cavs t ++ [c]) (TMac (t_tail t) (MCav c)) (t_newproof t)) sl)
              (fresh σ + 1), [])
      | _ => (σ, [])
      end
    | _, _ => (σ, [])
    end
  | OCopyVal dst src =>
    match lookup src sl with
    | Some t => (upd dst t, [])
    | None => (σ, [])
    end
  | OMintForTicket dst src j key loc proof =>
    match lookup src sl with
    | Some ts =>
      match nth_cav ts j with
      | Some (P3P _ _ tk) =>
        (mkSt (put dst (mint (TKey key) tk loc proof 1 (TFresh (fresh σ))) sl) (fresh σ + 1), [])
      | _ => (σ, [])
      end
    | None => (σ, [])
    end
  end.

Fixpoint run_ops (σ : st) (ops : list op) : list obs :=
  match ops with
  | [] => []
  | o :: r => let '(σ', ob) := step σ o in ob :: run_ops σ' r
  end.

Definition run_scenario (ops : list op) : list obs := run_ops st0 ops.
