(* Scenario language for bundles and the verification cache.  No proofs in this file. *)
From Coq Require Import List Bool NArith ZArith.
From Mac Require Import Model.BundleM.
Import ListNotations.
Local Open Scope N_scope.

(* predicates a scenario can select / filter with *)
Inductive pred := PAll | PNone | PPerm | PNotPerm | PWellFormed | PVerified | PNonMac | PLoc (l : N)
                | PHas3P.   (* bundle.HasCaveat[*macaroon.Caveat3P]: macaroons carrying a third-party caveat *)
Definition pred_fn (loc : N) (p : pred) (t : tok) : bool :=
  match p with
  | PAll => true | PNone => false
  | PPerm => is_perm loc t | PNotPerm => negb (is_perm loc t)
  | PWellFormed => match tok_mac t with Some _ => true | None => false end
  | PVerified => match t with TVer _ _ => true | _ => false end
  | PNonMac => match t with TNon _ => true | _ => false end
  | PLoc l => match tok_mac t with Some m => m_loc m =? l | None => false end
  | PHas3P => match tok_mac t with Some m => match m_tickets m with [] => false | _ => true end | None => false end
  end.

(* filters (not predicates: they look at the whole token list): Bundle.IsMissingDischarge, AllowsAccess,
   Bundle.WithDischarges(f) = the tokens f selects and the discharges of the permission tokens it selects *)
Inductive filt := FPred (p : pred) | FMissing (tp : N) | FAllows (rqs : list N) | FWithDis (f : filt).
Fixpoint filt_fn (ct : ctable) (loc : N) (ts : list tok) (f : filt) (t : tok) : bool :=
  match f with
  | FPred p => pred_fn loc p t
  | FMissing tp => missing_for loc ts tp t
  | FAllows rqs => allows ct rqs t
  | FWithDis g => filt_fn ct loc ts g t ||
                  existsb (fun p => discharges_perm loc p t && filt_fn ct loc ts g p) ts
  end.
Definition select_f (ct : ctable) (b : bundle) (f : filt) : bundle :=
  mkB (b_loc b) (filter (filt_fn ct (b_loc b) (b_ts b) f) (b_ts b)).

(* ---- VerificationCache: LRU (most recent first) of successful results *)
Record centry := mkCE { ce_key : list N; ce_cs : N }.
Record cache := mkCache { c_cap : nat; c_live : bool (* ttl > 0: entries never expire within a scenario; else always expired *);
                          c_entries : list centry }.

Fixpoint insert_sorted (x : N) (l : list N) : list N :=
  match l with [] => [x] | y :: r => if x <=? y then x :: l else y :: insert_sorted x r end.
Definition sort_ids (l : list N) : list N := fold_right insert_sorted [] l.

(* dissByPerm[perm]: discharges matching the tickets of the permission token, ticket by ticket, bundle order *)
Definition matching (b : bundle) (m : mac) : list N :=
  flat_map (fun lt => map tok_id (dis_for (b_loc b) (b_ts b) (snd lt))) (m_tickets m).
Definition cache_key (b : bundle) (m : mac) : list N := sort_ids (matching b m) ++ [m_id m].

Fixpoint cfind (k : list N) (l : list centry) : option centry :=
  match l with [] => None | e :: r => if list_N_eqb (ce_key e) k then Some e else cfind k r end.
Definition cremove (k : list N) (l : list centry) : list centry :=
  filter (fun e => negb (list_N_eqb (ce_key e) k)) l.
(* lru.Get: refreshes recency *)
Definition cache_get (c : cache) (k : list N) : cache * option N :=
  match cfind k (c_entries c) with
  | Some e => (mkCache (c_cap c) (c_live c) (e :: cremove k (c_entries c)), if c_live c then Some (ce_cs e) else None)
  | None => (c, None)
  end.
Definition cache_add (c : cache) (k : list N) (cs : N) : cache :=
  mkCache (c_cap c) (c_live c) (firstn (c_cap c) (mkCE k cs :: cremove k (c_entries c))).

(* VerificationCache.Verify over one bundle: first every permission token is looked up (hits refresh recency);
   then the misses go to the inner verifier (the table) in one batch and the accepted ones are cached.
   Returns the tokens, the cache and the inner-verifier log *)
Fixpoint clookup_all (b : bundle) (ts : list tok) (c : cache) : list (tok * option N) * cache :=
  match ts with
  | [] => ([], c)
  | t :: r =>
    if is_perm (b_loc b) t then
      match tok_mac t with
      | Some m => let '(c1, hit) := cache_get c (cache_key b m) in
                  let '(rest, c2) := clookup_all b r c1 in ((t, hit) :: rest, c2)
      | None => let '(rest, c2) := clookup_all b r c in ((t, None) :: rest, c2)
      end
    else let '(rest, c2) := clookup_all b r c in ((t, None) :: rest, c2)
  end.

Fixpoint cfill (vt : vtable) (b : bundle) (l : list (tok * option N)) (c : cache) : list tok * cache * list N :=
  match l with
  | [] => ([], c, [])
  | (t, hit) :: r =>
    if is_perm (b_loc b) t then
      match tok_mac t, hit with
      | Some m, Some cs => let '(ts', c2, lg) := cfill vt b r c in (TVer m cs :: ts', c2, lg)
      | Some m, None =>
        let t' := verify_tok vt b t in
        let c1 := match t' with TVer _ cs => cache_add c (cache_key b m) cs | _ => c end in
        let '(ts', c2, lg) := cfill vt b r c1 in (t' :: ts', c2, m_id m :: lg)
      | None, _ => let '(ts', c2, lg) := cfill vt b r c in (t :: ts', c2, lg)
      end
    else let '(ts', c2, lg) := cfill vt b r c in (t :: ts', c2, lg)
  end.

Definition cverify_list (vt : vtable) (b : bundle) (ts : list tok) (c : cache) : list tok * cache * list N :=
  let '(l, c1) := clookup_all b ts c in cfill vt b l c1.

Inductive bop :=
| BParse (b : N) (ts : list tok)            (* ParseBundle: default filter *)
| BParseAll (b : N) (ts : list tok)         (* ParseBundleWithFilter(KeepAll) *)
| BAdd (b : N) (ts : list tok)
| BSelect (dst b : N) (p : pred)
| BFilter (b : N) (p : pred)
| BVerify (b : N)
| BVerifyCached (b f : N)
| BValidate (b rq : N)
| BValidateMany (b : N) (rqs : list N)
| BHeader (b : N)
| BLen (b : N)
| BCount (b : N) (p : pred)
| BAttenuate (b cl : N)
| BDischarge (b tp : N) (key_ok : bool) (first : N)
| BClone (dst b : N)
| BUndischarged (b : N)
| BSelectF (dst b : N) (f : filt)           (* Select with a Filter that is not a Predicate *)
| BFilterF (b : N) (f : filt)
| BCountF (b : N) (f : filt)                (* Count and Any *)
| BIsEmpty (b : N)
| BError (b : N)                            (* Error() != nil *)
| CPurge (f : N)
| CNew (f : N) (live : bool) (cap : nat).

Record tables := mkTab { t_v : vtable; t_c : ctable; t_a : atable; t_cs : cstable }.
Record bst := mkBst { bs : list (N * bundle); cs_ : list (N * cache) }.

Fixpoint blookup {A} (k : N) (l : list (N * A)) : option A :=
  match l with [] => None | (k', v) :: r => if k' =? k then Some v else blookup k r end.
Definition bput {A} (k : N) (v : A) (l : list (N * A)) : list (N * A) := (k, v) :: filter (fun e => negb (fst e =? k)) l.

Definition b2z (b : bool) : Z := if b then 1%Z else 0%Z.
Definition zl (l : list N) : list Z := Z.of_nat (List.length l) :: map Z.of_N l.

Definition bstep (T : tables) (σ : bst) (o : bop) : bst * list Z :=
  let setb k v := mkBst (bput k v (bs σ)) (cs_ σ) in
  match o with
  | BParse b ts => let '(bb, ok) := parse_bundle 0 ts in (setb b bb, [b2z ok])
  | BParseAll b ts => (setb b (mkB 0 ts), [b2z (negb (existsb is_bad ts))])
  | BAdd b ts => match blookup b (bs σ) with
                 | Some bb => let '(bb', ok) := add_tokens bb ts in (setb b bb', [b2z ok])
                 | None => (σ, []) end
  | BSelect dst b p => match blookup b (bs σ) with
                       | Some bb => (setb dst (select bb (pred_fn (b_loc bb) p)), [])
                       | None => (σ, []) end
  | BFilter b p => match blookup b (bs σ) with
                   | Some bb => (setb b (select bb (pred_fn (b_loc bb) p)), [])
                   | None => (σ, []) end
  | BVerify b => match blookup b (bs σ) with
                 | Some bb => let '(bb', vs) := verify (t_v T) bb in (setb b bb', zl vs)
                 | None => (σ, []) end
  | BVerifyCached b f =>
      match blookup b (bs σ), blookup f (cs_ σ) with
      | Some bb, Some c =>
        let '(ts, c', lg) := cverify_list (t_v T) bb (b_ts bb) c in
        let vs := flat_map (fun t => match t with TVer _ cs => [cs] | _ => [] end) ts in
        (mkBst (bput b (mkB (b_loc bb) ts) (bs σ)) (bput f c' (cs_ σ)), zl vs ++ zl (sort_ids lg))
      | _, _ => (σ, [])
      end
  | BValidate b rq => match blookup b (bs σ) with
                      | Some bb => (σ, [b2z (validate (t_c T) bb rq)])
                      | None => (σ, []) end
  | BValidateMany b rqs => match blookup b (bs σ) with
                           | Some bb => (σ, [b2z (validate_many (t_c T) bb rqs)])
                           | None => (σ, []) end
  | BHeader b => match blookup b (bs σ) with Some bb => (σ, zl (header bb)) | None => (σ, []) end
  | BLen b => match blookup b (bs σ) with Some bb => (σ, [Z.of_nat (List.length (b_ts bb))]) | None => (σ, []) end
  | BCount b p => match blookup b (bs σ) with
                  | Some bb => (σ, [Z.of_nat (List.length (filter (pred_fn (b_loc bb) p) (b_ts bb)))])
                  | None => (σ, []) end
  | BAttenuate b cl => match blookup b (bs σ) with
                       | Some bb => let '(bb', ok) := attenuate (t_a T) (t_cs T) bb cl in (setb b bb', [b2z ok])
                       | None => (σ, []) end
  | BDischarge b tp key_ok first =>
      match blookup b (bs σ) with
      | Some bb => let '(bb', ok) := discharge bb tp key_ok first in (setb b bb', [b2z ok])
      | None => (σ, []) end
  | BClone dst b => match blookup b (bs σ) with Some bb => (setb dst (clone bb), []) | None => (σ, []) end
  | BUndischarged b => match blookup b (bs σ) with
                       | Some bb => (σ, zl (undischarged_for bb 1) ++ zl (undischarged_for bb 2))
                       | None => (σ, []) end
  | BSelectF dst b f => match blookup b (bs σ) with
                        | Some bb => (setb dst (select_f (t_c T) bb f), [])
                        | None => (σ, []) end
  | BFilterF b f => match blookup b (bs σ) with
                    | Some bb => (setb b (select_f (t_c T) bb f), [])
                    | None => (σ, []) end
  | BCountF b f => match blookup b (bs σ) with
                   | Some bb => let n := List.length (b_ts (select_f (t_c T) bb f)) in
                                (σ, [Z.of_nat n; b2z (negb (Nat.eqb n 0))])
                   | None => (σ, []) end
  | BIsEmpty b => match blookup b (bs σ) with
                  | Some bb => (σ, [b2z (match b_ts bb with [] => true | _ => false end)])
                  | None => (σ, []) end
  | BError b => match blookup b (bs σ) with
                | Some bb => (σ, [b2z (existsb is_bad (b_ts bb))])
                | None => (σ, []) end
  | CPurge f => match blookup f (cs_ σ) with
                | Some c => (mkBst (bs σ) (bput f (mkCache (c_cap c) (c_live c) []) (cs_ σ)), [])
                | None => (σ, []) end
  | CNew f live cap => (mkBst (bs σ) (bput f (mkCache cap live []) (cs_ σ)), [])
  end.

Fixpoint brun (T : tables) (σ : bst) (ops : list bop) : list (list Z) :=
  match ops with
  | [] => []
  | o :: r => let '(σ', ob) := bstep T σ o in ob :: brun T σ' r
  end.
Definition run_bundle (T : tables) (ops : list bop) : list (list Z) := brun T (mkBst [] []) ops.
