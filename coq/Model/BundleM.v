(* Bundles (package bundle) over abstract tokens.  A well-formed macaroon is known to this
   layer by its identity (its string), location, key-id and third-party tickets; signature
   verification and clearing are the black boxes of the protocol and clearing layers, given
   here as tables computed by DIRECT calls to macaroon.Verify / CaveatSet.Validate outside
   any bundle.  No proofs in this file. *)
From Coq Require Import List Bool NArith.
Import ListNotations.
Local Open Scope N_scope.

Record mac := mkMac {
  m_id : N;                       (* identity of the token string *)
  m_loc : N;
  m_kid : N;                      (* key-id; for a discharge: the ticket it was minted from *)
  m_tickets : list (N * N)        (* (third-party location, ticket) of its third-party caveats, in caveat order *)
}.

Inductive tok :=
| TNon (s : N)                    (* NonMacaroon *)
| TMal (s : N)                    (* MalformedMacaroon *)
| TUnv (m : mac)                  (* UnverifiedMacaroon *)
| TVer (m : mac) (cs : N)         (* VerifiedMacaroon with verified caveat set cs *)
| TFail (m : mac).                (* FailedMacaroon *)

Definition tok_id (t : tok) : N :=
  match t with TNon s => s | TMal s => s | TUnv m => m_id m | TVer m _ => m_id m | TFail m => m_id m end.
Definition tok_mac (t : tok) : option mac :=
  match t with TUnv m => Some m | TVer m _ => Some m | TFail m => Some m | _ => None end.
Definition is_bad (t : tok) : bool := match t with TMal _ | TFail _ => true | _ => false end.

Record bundle := mkB { b_loc : N; b_ts : list tok }.

Definition is_perm (loc : N) (t : tok) : bool :=
  match tok_mac t with Some m => m_loc m =? loc | None => false end.
Definition is_dis (loc : N) (t : tok) : bool :=
  match tok_mac t with Some m => negb (m_loc m =? loc) | None => false end.

Definition tickets_of (t : tok) : list N :=
  match tok_mac t with Some m => map snd (m_tickets m) | None => [] end.
Definition kid_of (t : tok) : option N := option_map m_kid (tok_mac t).

(* discharges (non-permission well-formed macaroons) whose key-id is the ticket *)
Definition dis_for (loc : N) (ts : list tok) (ticket : N) : list tok :=
  filter (fun t => is_dis loc t && match kid_of t with Some k => k =? ticket | None => false end) ts.

(* DefaultFilter: non-macaroons, permission tokens, discharges matching a ticket of some permission token *)
Definition all_perm_tickets (loc : N) (ts : list tok) : list N :=
  flat_map (fun t => if is_perm loc t then tickets_of t else []) ts.
Definition default_keep (loc : N) (ts : list tok) (t : tok) : bool :=
  match t with
  | TNon _ => true
  | TMal _ => false
  | _ => is_perm loc t ||
         match kid_of t with Some k => existsb (N.eqb k) (all_perm_tickets loc ts) | None => false end
  end.
Definition default_filter (loc : N) (ts : list tok) : list tok := filter (default_keep loc ts) ts.

(* ParseBundle: the tokeniser's output (C19) filtered; the error reports bad entries before filtering *)
Definition parse_bundle (loc : N) (ts : list tok) : bundle * bool :=
  (mkB loc (default_filter loc ts), negb (existsb is_bad ts)).

(* AddTokens: all or nothing *)
Definition add_tokens (b : bundle) (ts : list tok) : bundle * bool :=
  if existsb is_bad ts then (b, false) else (mkB (b_loc b) (b_ts b ++ ts), true).

Definition select (b : bundle) (p : tok -> bool) : bundle := mkB (b_loc b) (filter p (b_ts b)).
Definition header (b : bundle) : list N := map tok_id (b_ts b).

(* ---- verification: tables from direct calls *)
(* vfy perm_id [ids of all discharges presented] = Some cs (accepted, verified caveat set id) / None *)
Definition vtable := list (N * list N * option N).
Fixpoint list_N_eqb (a b : list N) : bool :=
  match a, b with [], [] => true | x :: r, y :: s => (x =? y) && list_N_eqb r s | _, _ => false end.
Inductive vres := VMissing | VRes (r : option N).
Fixpoint vlookup (vt : vtable) (p : N) (ds : list N) : vres :=
  match vt with
  | [] => VMissing
  | (p', ds', r) :: rest => if (p' =? p) && list_N_eqb ds' ds then VRes r else vlookup rest p ds
  end.

Definition all_dis_ids (b : bundle) : list N :=
  map tok_id (filter (is_dis (b_loc b)) (b_ts b)).

(* Bundle.Verify with a KeyResolver: every permission token (whatever its current state) is
   re-verified with the bundle's discharges *)
Definition verify_tok (vt : vtable) (b : bundle) (t : tok) : tok :=
  if is_perm (b_loc b) t then
    match tok_mac t with
    | Some m => match vlookup vt (m_id m) (all_dis_ids b) with
                | VRes (Some cs) => TVer m cs
                | VRes None => TFail m
                | VMissing => TMal 999999      (* table has no entry: flagged by the correspondence *)
                end
    | None => t
    end
  else t.
Definition verify (vt : vtable) (b : bundle) : bundle * list N :=
  let ts := map (verify_tok vt b) (b_ts b) in
  (mkB (b_loc b) ts, flat_map (fun t => match t with TVer _ cs => [cs] | _ => [] end) ts).

(* clears cs request: table from direct CaveatSet.Validate calls *)
Definition ctable := list (N * N * bool).
Fixpoint clookup (ct : ctable) (cs rq : N) : bool :=
  match ct with
  | [] => false
  | (c, r, v) :: rest => if (c =? cs) && (r =? rq) then v else clookup rest cs rq
  end.
(* Bundle.Validate: some verified token's caveats clear the request *)
Definition validate (ct : ctable) (b : bundle) (rq : N) : bool :=
  existsb (fun t => match t with TVer _ cs => clookup ct cs rq | _ => false end) (b_ts b).

(* Bundle.Validate(a1, ..., an): ONE verified token must clear all the accesses *)
Definition validate_many (ct : ctable) (b : bundle) (rqs : list N) : bool :=
  existsb (fun t => match t with TVer _ cs => forallb (clookup ct cs) rqs | _ => false end) (b_ts b).

(* ---- filters that look at the whole token list *)
(* Bundle.IsMissingDischarge(tp): permission tokens with a ticket for tp that no discharge in the list answers *)
Definition missing_for (loc : N) (ts : list tok) (tp : N) (t : tok) : bool :=
  is_perm loc t &&
  match tok_mac t with
  | Some m => existsb (fun lt => (fst lt =? tp) && match dis_for loc ts (snd lt) with [] => true | _ => false end) (m_tickets m)
  | None => false
  end.
(* AllowsAccess(a1, ..., an): verified tokens whose verified caveats clear all the accesses *)
Definition allows (ct : ctable) (rqs : list N) (t : tok) : bool :=
  match t with TVer _ cs => forallb (clookup ct cs) rqs | _ => false end.
(* the discharges of a permission token: non-permission macaroons whose key-id is one of its tickets *)
Definition discharges_perm (loc : N) (p t : tok) : bool :=
  is_perm loc p && is_dis loc t &&
  match kid_of t with Some k => existsb (N.eqb k) (tickets_of p) | None => false end.

(* ---- attenuation: tables from direct clone+Add+String calls *)
(* atable: (token id, caveat-list id) -> Some new id / None (Add refused) ; cs_att: (cs, caveat-list id) -> new cs *)
Definition atable := list (N * N * option N).
Fixpoint alookup (at_ : atable) (id cl : N) : vres :=
  match at_ with
  | [] => VMissing
  | (i, c, r) :: rest => if (i =? id) && (c =? cl) then VRes r else alookup rest id cl
  end.
Definition cstable := list (N * N * N).
Fixpoint cslookup (t : cstable) (cs cl : N) : N :=
  match t with [] => 999999 | (c, l, r) :: rest => if (c =? cs) && (l =? cl) then r else cslookup rest cs cl end.

Definition retag (m : mac) (id : N) : mac := mkMac id (m_loc m) (m_kid m) (m_tickets m).
Definition att_tok (at_ : atable) (cst : cstable) (loc cl : N) (t : tok) : option tok :=
  if is_perm loc t then
    match t with
    | TUnv m => match alookup at_ (m_id m) cl with VRes (Some i) => Some (TUnv (retag m i)) | _ => None end
    | TFail m => match alookup at_ (m_id m) cl with VRes (Some i) => Some (TFail (retag m i)) | _ => None end
    | TVer m cs => match alookup at_ (m_id m) cl with VRes (Some i) => Some (TVer (retag m i) (cslookup cst cs cl)) | _ => None end
    | _ => Some t
    end
  else Some t.
Fixpoint all_some {A} (l : list (option A)) : option (list A) :=
  match l with
  | [] => Some []
  | Some x :: r => option_map (cons x) (all_some r)
  | None :: _ => None
  end.
(* Bundle.Attenuate: all permission tokens or nothing *)
Definition attenuate (at_ : atable) (cst : cstable) (b : bundle) (cl : N) : bundle * bool :=
  match all_some (map (att_tok at_ cst (b_loc b) cl) (b_ts b)) with
  | Some ts => (mkB (b_loc b) ts, true)
  | None => (b, false)
  end.

(* ---- discharging for one third-party location *)
Definition undischarged (b : bundle) : list (N * N) :=   (* (tp location, ticket) without a discharge in the bundle *)
  flat_map (fun t => if is_perm (b_loc b) t
                     then match tok_mac t with
                          | Some m => filter (fun lt => match dis_for (b_loc b) (b_ts b) (snd lt) with [] => true | _ => false end) (m_tickets m)
                          | None => [] end
                     else []) (b_ts b).
Definition undischarged_for (b : bundle) (tp : N) : list N :=
  map snd (filter (fun lt => fst lt =? tp) (undischarged b)).
(* Bundle.Discharge(tp, key, cb): [key_ok] = the key opens this location's tickets and the callback agrees;
   new discharges get fresh identities first, first+1, ... *)
Fixpoint new_dis (tp : N) (tickets : list N) (first : N) : list tok :=
  match tickets with
  | [] => []
  | tk :: r => TUnv (mkMac first tp tk []) :: new_dis tp r (first + 1)
  end.
Definition discharge (b : bundle) (tp : N) (key_ok : bool) (first : N) : bundle * bool :=
  match undischarged_for b tp with
  | [] => (b, true)
  | tks => if key_ok then (mkB (b_loc b) (b_ts b ++ new_dis tp tks first), true) else (b, false)
  end.

(* Clone: re-parse of the header: verification state is lost, failed tokens become unverified *)
Definition clone_tok (t : tok) : tok :=
  match t with TVer m _ => TUnv m | TFail m => TUnv m | _ => t end.
(* an empty header re-parses to one empty non-macaroon entry (strings.Split("", ",") = [""]); identity 0 is the empty string *)
Definition clone (b : bundle) : bundle :=
  match b_ts b with
  | [] => mkB (b_loc b) [TNon 0]
  | ts => mkB (b_loc b) (map clone_tok ts)
  end.
