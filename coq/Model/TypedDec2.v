(* Typed, lenient decoding of EVERY caveat body and of whole caveat sets, as vmihailenco/msgpack v5.3.5 does it for the Go
   types of superfly/macaroon: the non-scalar caveat types (resource sets, Mutations, 3P, IfPresent, Commands), the
   unregistered ones, and CaveatSet.DecodeMsgpack on top of them.  Model.TypedDec covers the scalar-bodied types and is
   called for them.  No proofs in this file.

   What the library does and what is modelled here, beyond the leniencies listed in Model.TypedDec:
     - a struct field is decoded INTO THE CURRENT VALUE of the field.  In the array form and for the first occurrence of a
       key in the map form the current value is the zero value; a key that occurs again meets what the earlier occurrence
       left.  Scalars, strings, []byte are overwritten (nil: zero / nil).  For the other kinds:
         []string (decodeStringSlicePtr): nil LEAVES THE DESTINATION AS IT IS, an array replaces it (length 0: empty, non-nil);
         a Go map (decodeMapValue): nil resets it to nil, a map of n entries is MERGED into it (the later entry wins);
         *CaveatSet (then CaveatSet.DecodeMsgpack): an array is APPENDED to the caveats already there; nil resets the pointer
         to nil (ptrValueDecoder) - OR, DEPENDING ON THE HISTORY OF THE PROCESS, keeps a non-nil pointer and empties the set
         it points to (nilAwareDecoder + decodeNilValue).  msgpack caches one decoder per Go type; which of the two it
         builds for *CaveatSet depends on whether a decoder for CaveatSet is already cached when the fields of resset.IfPresent
         are first looked at: it is when the process decoded a token or a caveat set before (first variant, [pz] = false), it
         is not when the process ENCODED an IfPresent before it decoded anything (second variant, [pz] = true).  The two
         differ on a map-encoded IfPresent in which a nil "Ifs" follows a non-nil one: Ifs = nil (written c0) against
         Ifs = the empty set (written 90).
     - resset.ResourceSet has a custom encoder only: it is decoded as a plain Go map.  Keys come in any order, a key that
       occurs twice keeps the later mask, a nil key is "" / 0, string keys may be str or bin, integer keys and masks may have
       any width or sign (masks are cut to 16 bits by reflect's SetUint).  DecodeMapLen first SKIPS AN EXT HEADER if there is
       one in front of the map header (fixext: code + type; ext8/16/32: code + length + type), whatever type it announces.
       The value is a Go map: [rset] lists it in ascending key order, which is the order the encoder writes.
       The Go value distinguishes a nil map (written as c0) from an empty one (written as 80); [rset] does not: both are [].
       [dec_nilrs] says which of the two the library holds for the resource set of a top-level caveat.
     - flyio.Commands is a slice of structs: nil, or an array whose elements are decoded like any struct (nil / map / array).
     - bool (Command.Exact): nil and c2 are false, c3 is true.
     - an unregistered type: the body is the span that Decoder.Skip finds; UnregisteredCaveat.UnmarshalMsgpack then decodes it
       generically (DecodeInterface with DecodeUntypedMap for maps) and refuses what that refuses: an ext value other than a
       timestamp (type -1) of 4, 8 or 12 bytes, a map key that is an array, a map or a bin (Go cannot hash it: the panic is
       turned into an error), the reserved code c1.  The raw bytes of the body are kept as they are (a nil body too).
     - CaveatSet.DecodeMsgpack: array header of even length, then type (lenient DecodeUint) and body per caveat.  A nil in
       place of the whole TOP-LEVEL set is the empty set (nilAwareDecoder); in place of IfPresent.Ifs it is a nil pointer.
   Nothing is required of the bytes after the one value that is decoded. *)
From Coq Require Import List Bool NArith ZArith String Ascii.
From Mac Require Import Model.Caveat Model.Msgpack Model.Codec Model.TypedDec.
Import ListNotations.
Local Open Scope N_scope.

(* ---- a Go map as an association list in ascending key order: m[k] = v *)
Section KeyMap.
  Context {K : Type} (leb : K -> K -> bool).
  Fixpoint set_k (k : K) (v : N) (l : list (K * N)) : list (K * N) :=
    match l with
    | [] => [(k, v)]
    | x :: r =>
      if leb k (fst x) then (if leb (fst x) k then (k, v) :: r else (k, v) :: l)
      else x :: set_k k v r
    end.
End KeyMap.
Definition set_s : string -> N -> rset string -> rset string := set_k str_leb.
Definition set_n : N -> N -> rset N -> rset N := set_k N.leb.

Definition rs_list {K} (o : option (list (K * N))) : list (K * N) := match o with Some l => l | None => [] end.

(* ---- what DecodeInterface (with DecodeUntypedMap) accepts: Some (hashable, rest) *)
Definition ext_time_len (n : N) : bool := (n =? 4) || (n =? 8) || (n =? 12).
Definition gfix (k : N) (r : bytes) : option (bool * bytes) := option_map (fun p => (true, snd p)) (take k r).
Definition glp (k : N) (h : bool) (r : bytes) : option (bool * bytes) :=
  match take k r with
  | None => None
  | Some (lb, r1) => option_map (fun p => (h, snd p)) (take (be_val lb 0) r1)
  end.
(* after the length: the type byte, then n bytes; only the timestamp extension is registered *)
Definition gext (n : N) (r : bytes) : option (bool * bytes) :=
  match r with
  | [] => None
  | t :: r1 => if (t =? 255) && ext_time_len n then gfix n r1 else None
  end.
Definition gextlp (k : N) (r : bytes) : option (bool * bytes) :=
  match take k r with None => None | Some (lb, r1) => gext (be_val lb 0) r1 end.

Fixpoint gval (fuel : nat) (l : bytes) {struct fuel} : option (bool * bytes) :=
  match fuel with
  | O => None
  | S f =>
    match l with
    | [] => None
    | c :: r =>
      let garr := fun (n : N) (x0 : bytes) =>
        if N.of_nat (List.length x0) <? n then None else
        (fix go (k : nat) (x : bytes) : option (bool * bytes) :=
           match k with
           | O => Some (false, x)
           | S k' => match gval f x with Some (_, x') => go k' x' | None => None end
           end) (N.to_nat n) x0 in
      let gmap := fun (n : N) (x0 : bytes) =>
        if N.of_nat (List.length x0) <? 2 * n then None else
        (fix go (k : nat) (x : bytes) : option (bool * bytes) :=
           match k with
           | O => Some (false, x)
           | S k' => match gval f x with
                     | Some (true, x1) => match gval f x1 with Some (_, x2) => go k' x2 | None => None end
                     | _ => None                                 (* a key Go cannot hash *)
                     end
           end) (N.to_nat n) x0 in
      if c <=? 127 then Some (true, r)
      else if c <=? 143 then gmap (c - 128) r
      else if c <=? 159 then garr (c - 144) r
      else if c <=? 191 then gfix (c - 160) r
      else if c =? 192 then Some (true, r)
      else if c =? 193 then None
      else if c <=? 195 then Some (true, r)
      else if c =? 196 then glp 1 false r else if c =? 197 then glp 2 false r else if c =? 198 then glp 4 false r
      else if c =? 199 then gextlp 1 r else if c =? 200 then gextlp 2 r else if c =? 201 then gextlp 4 r
      else if c =? 202 then gfix 4 r else if c =? 203 then gfix 8 r
      else if c =? 204 then gfix 1 r else if c =? 205 then gfix 2 r else if c =? 206 then gfix 4 r else if c =? 207 then gfix 8 r
      else if c =? 208 then gfix 1 r else if c =? 209 then gfix 2 r else if c =? 210 then gfix 4 r else if c =? 211 then gfix 8 r
      else if c =? 212 then gext 1 r else if c =? 213 then gext 2 r else if c =? 214 then gext 4 r
      else if c =? 215 then gext 8 r else if c =? 216 then gext 16 r
      else if c =? 217 then glp 1 true r else if c =? 218 then glp 2 true r else if c =? 219 then glp 4 true r
      else if c =? 220 then match take 2 r with Some (lb, r1) => garr (be_val lb 0) r1 | None => None end
      else if c =? 221 then match take 4 r with Some (lb, r1) => garr (be_val lb 0) r1 | None => None end
      else if c =? 222 then match take 2 r with Some (lb, r1) => gmap (be_val lb 0) r1 | None => None end
      else if c =? 223 then match take 4 r with Some (lb, r1) => gmap (be_val lb 0) r1 | None => None end
      else Some (true, r)
    end
  end.

Definition gen_ok (body : bytes) : bool :=
  match gval (S (List.length body)) body with Some _ => true | None => false end.

(* ---- DecodeMapLen: nil (None), fixmap, map16, map32, after an optional ext header *)
Definition maplen_code (c : N) (r : bytes) : option (option N * bytes) :=
  if c =? 192 then Some (None, r)
  else if (128 <=? c) && (c <=? 143) then Some (Some (c - 128), r)
  else if c =? 222 then rd_be 2 Some r
  else if c =? 223 then rd_be 4 Some r
  else None.
Definition is_ext (c : N) : bool := ((199 <=? c) && (c <=? 201)) || ((212 <=? c) && (c <=? 216)).
Definition ext_skip (c : N) : N := if c =? 199 then 2 else if c =? 200 then 3 else if c =? 201 then 5 else 1.
(* [ext] = false is the decoder without the ext-header leniency (used to state what that leniency costs) *)
Definition dec_maplen (ext : bool) (l : bytes) : option (option N * bytes) :=
  match l with
  | [] => None
  | c :: r =>
    if ext && is_ext c then
      match take (ext_skip c) r with
      | Some (_, c1 :: r1) => maplen_code c1 r1
      | _ => None
      end
    else maplen_code c r
  end.

(* ---- a resource set (decodeMapValue + decodeTypedMapValue) *)
Section RS.
  Context {K : Type} (dk : bytes -> option (K * bytes)) (setk : K -> N -> list (K * N) -> list (K * N)).
  Fixpoint dec_rs_entries (n : nat) (acc : list (K * N)) (l : bytes) : option (list (K * N) * bytes) :=
    match n with
    | O => Some (acc, l)
    | S n' =>
      match dk l with
      | None => None
      | Some (k, r) =>
        match dec_uint_len r with
        | None => None
        | Some (v, r') => dec_rs_entries n' (setk k (v mod 2 ^ 16) acc) r'      (* resset.Action = uint16 *)
        end
      end
    end.
  (* every entry takes at least two bytes *)
  Definition dec_rs (ext : bool) (cur : option (list (K * N))) (l : bytes) : option (option (list (K * N)) * bytes) :=
    match dec_maplen ext l with
    | None => None
    | Some (None, r) => Some (None, r)
    | Some (Some n, r) =>
      if N.of_nat (List.length r) <? 2 * n then None else
      match dec_rs_entries (N.to_nat n) (rs_list cur) r with
      | Some (m, r') => Some (Some m, r')
      | None => None
      end
    end.
End RS.
Definition dk_s (l : bytes) : option (string * bytes) := option_map (fun p => (bytes_str (fst p), snd p)) (dec_str_len l).
Definition dk_n : bytes -> option (N * bytes) := dec_uint_len.

(* ---- []string *)
Fixpoint dec_strs_n (n : nat) (l : bytes) : option (list string * bytes) :=
  match n with
  | O => Some ([], l)
  | S n' =>
    match dec_str_len l with
    | None => None
    | Some (s, r) => match dec_strs_n n' r with Some (ss, r') => Some (bytes_str s :: ss, r') | None => None end
    end
  end.
(* None = nil *)
Definition dec_strs_len (l : bytes) : option (option (list string) * bytes) :=
  match l with
  | [] => None
  | c :: r0 =>
    if c =? 192 then Some (None, r0) else
    match dec_arr_hdr l with
    | None => None
    | Some (n, r) =>
      if N.of_nat (List.length r) <? n then None else
      match dec_strs_n (N.to_nat n) r with Some (ss, r') => Some (Some ss, r') | None => None end
    end
  end.

Definition dec_bool_len (l : bytes) : option (bool * bytes) :=
  match l with
  | [] => None
  | c :: r => if (c =? 192) || (c =? 194) then Some (false, r) else if c =? 195 then Some (true, r) else None
  end.

(* ---- struct fields *)
Inductive fkind2 := KS | KB | KU (bits : N) | KL | KBool | KRS | KRN | KSet.
Inductive fval2 :=
| WS (s : string) | WB (o : option bytes) | WU (n : N) | WL (o : option (list string)) | WBool (b : bool)
| WRS (o : option (rset string)) | WRN (o : option (rset N)) | WSet (o : option (list cav)).

Definition fzero2 (k : fkind2) : fval2 :=
  match k with
  | KS => WS EmptyString | KB => WB None | KU _ => WU 0 | KL => WL None | KBool => WBool false
  | KRS => WRS None | KRN => WRN None | KSet => WSet None
  end.

Definition cur_rs (v : fval2) : option (rset string) := match v with WRS o => o | _ => None end.
Definition cur_rn (v : fval2) : option (rset N) := match v with WRN o => o | _ => None end.
Definition cur_set (v : fval2) : list cav := match v with WSet o => ifs_list o | _ => [] end.

Section Struct.
  Variable ext : bool.
  (* which decoder msgpack built for *CaveatSet: see the head of the file *)
  Variable pz : bool.
  (* the decoder of a nested caveat set (array header onwards) *)
  Variable ds : bytes -> option (list cav * bytes).

  Definition dec_field2 (k : fkind2) (cur : fval2) (l : bytes) : option (fval2 * bytes) :=
    match k with
    | KS => option_map (fun p => (WS (bytes_str (fst p)), snd p)) (dec_str_len l)
    | KB => option_map (fun p => (WB (fst p), snd p)) (dec_bytes_len l)
    | KU bits => option_map (fun p => (WU (fst p mod 2 ^ bits), snd p)) (dec_uint_len l)
    | KL => match dec_strs_len l with
            | Some (Some ss, r) => Some (WL (Some ss), r)
            | Some (None, r) => Some (cur, r)
            | None => None
            end
    | KBool => option_map (fun p => (WBool (fst p), snd p)) (dec_bool_len l)
    | KRS => option_map (fun p => (WRS (fst p), snd p)) (dec_rs dk_s set_s ext (cur_rs cur) l)
    | KRN => option_map (fun p => (WRN (fst p), snd p)) (dec_rs dk_n set_n ext (cur_rn cur) l)
    | KSet => match l with
              | [] => None
              | c :: r => if c =? 192
                          then Some (WSet (match cur with WSet (Some _) => if pz then Some [] else None | _ => None end), r)
                          else option_map (fun p => (WSet (Some (cur_set cur ++ fst p)), snd p)) (ds l)
              end
    end.

  Definition schema2 := list (bytes * fkind2).
  Definition fzeros2 (sch : schema2) : list fval2 := map (fun e => fzero2 (snd e)) sch.

  (* array form: the fields in declaration order, each into its zero value *)
  Fixpoint dec_fields2 (ks : list fkind2) (l : bytes) : option (list fval2 * bytes) :=
    match ks with
    | [] => Some ([], l)
    | k :: ks' =>
      match dec_field2 k (fzero2 k) l with
      | None => None
      | Some (v, r) => match dec_fields2 ks' r with Some (vs, r') => Some (v :: vs, r') | None => None end
      end
    end.

  Fixpoint find_field2 (sch : schema2) (name : bytes) (i : nat) : option (nat * fkind2) :=
    match sch with
    | [] => None
    | (nm0, k) :: sch' => if bytes_eqb nm0 name then Some (i, k) else find_field2 sch' name (S i)
    end.
  Fixpoint set_nth2 (i : nat) (v : fval2) (vs : list fval2) : list fval2 :=
    match vs, i with
    | [], _ => []
    | _ :: r, O => v :: r
    | x :: r, S i' => x :: set_nth2 i' v r
    end.

  Fixpoint dec_map_entries2 (sch : schema2) (n : nat) (vs : list fval2) (l : bytes) : option (list fval2 * bytes) :=
    match n with
    | O => Some (vs, l)
    | S n' =>
      match dec_str_len l with
      | None => None
      | Some (name, r) =>
        match find_field2 sch name O with
        | Some (i, k) =>
          match dec_field2 k (nth i vs (fzero2 k)) r with
          | Some (v, r') => dec_map_entries2 sch n' (set_nth2 i v vs) r'
          | None => None
          end
        | None =>
          match skip (S (List.length r)) r with
          | Some r' => dec_map_entries2 sch n' vs r'
          | None => None
          end
        end
      end
    end.

  Definition dec_map2 (sch : schema2) (n : N) (r : bytes) : option (list fval2 * bytes) :=
    if N.of_nat (List.length r) <? 2 * n then None else dec_map_entries2 sch (N.to_nat n) (fzeros2 sch) r.

  (* decodeStructValue *)
  Definition dec_struct2 (sch : schema2) (l : bytes) : option (list fval2 * bytes) :=
    match l with
    | [] => None
    | c :: r =>
      if c =? 192 then Some (fzeros2 sch, r)
      else if (128 <=? c) && (c <=? 143) then dec_map2 sch (c - 128) r
      else if c =? 222 then match take 2 r with Some (lb, r1) => dec_map2 sch (be_val lb 0) r1 | None => None end
      else if c =? 223 then match take 4 r with Some (lb, r1) => dec_map2 sch (be_val lb 0) r1 | None => None end
      else
        match dec_arr_hdr l with
        | None => None
        | Some (n, r1) =>
          if n =? 0 then Some (fzeros2 sch, r1)
          else if n =? N.of_nat (List.length sch) then dec_fields2 (map snd sch) r1
          else None                                   (* errArrayStruct *)
        end
    end.

  (* ---- the Go types; field names are the Go field names (there are no msgpack tags in /repo but "-" on Caveat3P.rn,
     which is unexported anyway) *)
  Definition sch_rs (name : string) : schema2 := [(nm name, KRS)].
  Definition sch_apps : schema2 := [(nm "Apps", KRN)].
  Definition sch_mut : schema2 := [(nm "Mutations", KL)].
  Definition sch_3p : schema2 := [(nm "Location", KS); (nm "VerifierKey", KB); (nm "Ticket", KB)].
  Definition sch_ifp : schema2 := [(nm "Ifs", KSet); (nm "Else", KU 16)].
  Definition sch_cmd : schema2 := [(nm "Args", KL); (nm "Exact", KBool)].

  Definition dec_rs_cav (name : string) (Kc : rset string -> cav) (b : bytes) : option (cav * bytes) :=
    match dec_struct2 (sch_rs name) b with Some ([WRS o], r) => Some (Kc (rs_list o), r) | _ => None end.

  (* flyio.Commands = []Command: decodeSliceValue, every element a struct of its own *)
  Fixpoint dec_cmds_n (n : nat) (l : bytes) : option (list (option (list string) * bool) * bytes) :=
    match n with
    | O => Some ([], l)
    | S n' =>
      match dec_struct2 sch_cmd l with
      | Some ([WL a; WBool e], r) =>
        match dec_cmds_n n' r with Some (cs, r') => Some ((a, e) :: cs, r') | None => None end
      | _ => None
      end
    end.
  Definition dec_commands (l : bytes) : option (cav * bytes) :=
    match l with
    | [] => None
    | c :: r0 =>
      if c =? 192 then Some (CCommands None, r0) else
      match dec_arr_hdr l with
      | None => None
      | Some (n, r) =>
        if N.of_nat (List.length r) <? n then None else
        match dec_cmds_n (N.to_nat n) r with Some (cs, r') => Some (CCommands (Some cs), r') | None => None end
      end
    end.

  (* the non-scalar registered types *)
  Definition dec_leaf2 (ty : N) (b : bytes) : option (cav * bytes) :=
    if ty =? 2 then dec_rs_cav "Volumes" CVolumes b
    else if ty =? 3 then
      match dec_struct2 sch_apps b with Some ([WRN o], r) => Some (CApps (rs_list o), r) | _ => None end
    else if ty =? 5 then dec_rs_cav "Features" CFeatureSet b
    else if ty =? 6 then
      match dec_struct2 sch_mut b with Some ([WL o], r) => Some (CMutations o, r) | _ => None end
    else if ty =? 7 then dec_rs_cav "Machines" CMachines b
    else if ty =? 11 then
      match dec_struct2 sch_3p b with Some ([WS loc; WB vk; WB tk], r) => Some (C3P loc vk tk, r) | _ => None end
    else if ty =? 13 then
      match dec_struct2 sch_ifp b with Some ([WSet ifs; WU els], r) => Some (CIfPresent ifs els, r) | _ => None end
    else if ty =? 14 then dec_rs_cav "Features" CMachineFeatureSet b
    else if ty =? 16 then dec_rs_cav "Clusters" CClusters b
    else if ty =? 27 then dec_commands b
    else if ty =? 28 then dec_rs_cav "Features" CAppFeatureSet b
    else if ty =? 29 then dec_rs_cav "Prefixes" CStorageObjects b
    else None.
End Struct.

Definition scalar_ty (ty : N) : bool :=
  existsb (N.eqb ty) [0; 4; 8; 9; 10; 12; 15; 19; 20; 21; 22; 23; 24; 25; 26; 30; 31].
Definition nonscalar_ty (ty : N) : bool := existsb (N.eqb ty) [2; 3; 5; 6; 7; 11; 13; 14; 16; 27; 28; 29].
Definition reg_ty (ty : N) : bool := scalar_ty ty || nonscalar_ty ty.      (* = the types of Generated.Facts.registered *)

(* an unregistered type: the span Skip finds, if the generic decoder takes it *)
Definition dec_unreg (ty : N) (b : bytes) : option (cav * bytes) :=
  match skip (S (List.length b)) b with
  | None => None
  | Some rest =>
    let body := firstn (List.length b - List.length rest) b in
    if gen_ok body then Some (CUnregistered ty body, rest) else None
  end.

(* ---- CaveatSet.DecodeMsgpack from the array header on; [dc] decodes one caveat of a given type *)
Section SetDec.
  Variable dc : N -> bytes -> option (cav * bytes).
  Fixpoint dec_items (n : nat) (l : bytes) : option (list cav * bytes) :=
    match n with
    | O => Some ([], l)
    | S n' =>
      match dec_uint_len l with
      | None => None
      | Some (ty, r) =>
        match dc ty r with
        | None => None
        | Some (c, r') => match dec_items n' r' with Some (cs, tl) => Some (c :: cs, tl) | None => None end
        end
      end
    end.
  (* every caveat takes at least two bytes *)
  Definition dec_set_rest (l : bytes) : option (list cav * bytes) :=
    match dec_arr_hdr l with
    | None => None
    | Some (n, r) =>
      if N.odd n then None
      else if N.of_nat (List.length r) <? n then None
      else dec_items (N.to_nat (n / 2)) r
    end.
End SetDec.

(* one caveat of type [ty]; the fuel bounds the nesting depth of IfPresent, and every level takes at least one byte *)
Fixpoint dec_cav (ext pz : bool) (fuel : nat) (ty : N) (b : bytes) {struct fuel} : option (cav * bytes) :=
  match fuel with
  | O => None
  | S f =>
    if scalar_ty ty then dec_body_rest ty b
    else if nonscalar_ty ty then dec_leaf2 ext pz (dec_set_rest (dec_cav ext pz f)) ty b
    else dec_unreg ty b
  end.

Definition dec_body2_rest_gen (ext pz : bool) (ty : N) (b : bytes) : option (cav * bytes) :=
  dec_cav ext pz (S (List.length b)) ty b.
Definition dec_body2_gen (ext pz : bool) (ty : N) (b : bytes) : option cav := option_map fst (dec_body2_rest_gen ext pz ty b).

(* msgpack.Unmarshal(buf, *CaveatSet) *)
Definition dec_set_typed_gen (ext pz : bool) (l : bytes) : option (list cav) :=
  match l with
  | [] => None
  | c :: _ =>
    if c =? 192 then Some []
    else option_map fst (dec_set_rest (dec_cav ext pz (S (List.length l))) l)
  end.

(* the library as a process that verifies tokens sees it: the ext-header leniency, and the pointer decoder *)
Definition dec_body2_rest : N -> bytes -> option (cav * bytes) := dec_body2_rest_gen true false.
Definition dec_body2 : N -> bytes -> option cav := dec_body2_gen true false.
Definition dec_set_typed : bytes -> option (list cav) := dec_set_typed_gen true false.

(* does the library hold a NIL map for the resource set of this (top-level) caveat?  ([rset] cannot tell: see above) *)
Definition dec_nilrs (ty : N) (b : bytes) : bool :=
  let dsn := fun _ : bytes => @None (list cav * bytes) in
  let name := if ty =? 2 then "Volumes"%string else if ty =? 7 then "Machines"%string
              else if ty =? 16 then "Clusters"%string else if ty =? 29 then "Prefixes"%string else "Features"%string in
  if ty =? 3 then match dec_struct2 true false dsn sch_apps b with Some ([WRN None], _) => true | _ => false end
  else if existsb (N.eqb ty) [2; 5; 7; 14; 16; 28; 29]
  then match dec_struct2 true false dsn (sch_rs name) b with Some ([WRS None], _) => true | _ => false end
  else false.
