(* tp.Client: option folding, which credential goes to which host, which requests the
   discharge protocol makes, and the shape of the returned header.  URLs are reduced to
   their hostname by Go's net/url (trusted); the model works on hostnames.  No proofs here. *)
From Coq Require Import List Bool NArith String.
Import ListNotations.

Inductive copt :=
| WithHTTP (id : N)                          (* an *http.Client whose Transport is transport #id *)
| WithAuth (host : string) (cred : string)   (* WithAuthentication / WithBearerAuthentication, location already reduced to its hostname *)
| WithIgnored (locs : list N)
| WithOther.                                 (* options that touch neither http nor ignored: callbacks, backoff *)

Record cstate := mkC {
  c_hashttp : bool;                 (* c.http != nil *)
  c_base : N;                       (* the transport requests finally go to; 0 = library default *)
  c_authed : bool;                  (* c.http.Transport is the authenticating wrapper *)
  c_auth : list (string * string);  (* wrapper's map; later entries for a host shadow earlier ones *)
  c_ignored : list N
}.

Definition c0 : cstate := mkC false 0 false [] [].

Definition apply_opt (c : cstate) (o : copt) : cstate :=
  match o with
  | WithHTTP id => mkC true id (c_authed c) (c_auth c) (c_ignored c)
  | WithAuth h cred =>
      if c_authed c then mkC true (c_base c) true ((h, cred) :: c_auth c) (c_ignored c)
      else mkC true (c_base c) true [(h, cred)] (c_ignored c)
  | WithIgnored l => mkC (c_hashttp c) (c_base c) (c_authed c) (c_auth c) (c_ignored c ++ l)
  | WithOther => c
  end.

Definition new_client (opts : list copt) : cstate := fold_left apply_opt opts c0.

Fixpoint lookup_cred (h : string) (m : list (string * string)) : option string :=
  match m with
  | [] => None
  | (k, v) :: r => if String.eqb k h then Some v else lookup_cred h r
  end.

(* authenticatedHTTP.RoundTrip: the Authorization value attached to a request for host h *)
Definition attached (c : cstate) (h : string) : option string :=
  if c_authed c then
    match lookup_cred h (c_auth c) with
    | Some v => if String.eqb v EmptyString then None else Some v
    | None => None
    end
  else None.

(* ---- the requests of one discharge flow, as decided by the third party's replies *)
Inductive reply :=
| RDischarge                        (* init answers with the discharge *)
| RPoll (pollhost : string) (n : nat) (next : reply) (* init answers with a poll URL on pollhost; n "not ready" answers there, then that URL answers with next *)
| RRedirect (target : string) (next : reply) (* 30x to a URL on target, whose answer is next *)
| RError.

(* hosts contacted for one ticket at a third party whose init URL is on inithost *)
Fixpoint flow_hosts (cur : string) (r : reply) : list string :=
  match r with
  | RDischarge => [cur]
  | RError => [cur]
  | RPoll ph n nx => cur :: repeat ph n ++ flow_hosts ph nx
  | RRedirect t nx => cur :: flow_hosts t nx
  end.

(* one third-party location of the caller's header: location id, init host, reply script, number of undischarged tickets *)
Record tploc := mkTP { tp_id : N; tp_host : string; tp_reply : reply; tp_tickets : nat }.

Definition contacted (c : cstate) (tps : list tploc) : list tploc :=
  filter (fun t => negb (existsb (N.eqb (tp_id t)) (c_ignored c))) tps.

(* every request of FetchDischargeTokens: (transport, host, Authorization) — as a multiset (goroutines) *)
Definition fetch_requests (c : cstate) (tps : list tploc) : list (N * string * option string) :=
  flat_map (fun t =>
     flat_map (fun _ => map (fun h => (c_base c, h, attached c h)) (flow_hosts (tp_host t) (tp_reply t)))
              (repeat tt (tp_tickets t)))
    (contacted c tps).

Fixpoint reply_ok (r : reply) : bool :=
  match r with RDischarge => true | RPoll _ _ n => reply_ok n | RRedirect _ n => reply_ok n | RError => false end.

(* number of discharges appended to the caller's tokens *)
Definition fetched_count (c : cstate) (tps : list tploc) : nat :=
  fold_right (fun t acc => (if reply_ok (tp_reply t) then tp_tickets t else 0) + acc) 0 (contacted c tps).
