(* C19, part 1: base64 (Go StdEncoding) decode . encode = id, alphabet facts, and
   the decoder facts needed by the header proofs. *)
From Coq Require Import List Bool NArith ZArith Lia ZifyN ZifyNat ZifyBool.
From Mac Require Import Model.Base64.
Import ListNotations.
Local Open Scope N_scope.

Ltac Zify.zify_post_hook ::= Z.div_mod_to_equations.

Definition wfb (bs : list N) : Prop := Forall (fun b => b < 256) bs.

(* ---------- finite checks over the 64 sextet values ---------- *)

Definition sextets : list N := map N.of_nat (seq 0 64).

Lemma sextets_In v : v < 64 -> In v sextets.
Proof.
  intros Hv. unfold sextets. rewrite <- (N2Nat.id v).
  apply in_map. apply in_seq. lia.
Qed.

Lemma sextet_check (f : N -> bool) :
  forallb f sextets = true -> forall v, v < 64 -> f v = true.
Proof.
  intros Hall v Hv. rewrite forallb_forall in Hall. apply Hall. now apply sextets_In.
Qed.

Definition sextet_char_okb (w : N) : bool :=
  match b64_sextet (b64_char w) with Some u => u =? w | None => false end.

Lemma b64_sextet_char_l v : v < 64 -> b64_sextet (b64_char v) = Some v.
Proof.
  intros Hv.
  assert (Hc : sextet_char_okb v = true).
  { apply sextet_check; [vm_compute; reflexivity | exact Hv]. }
  unfold sextet_char_okb in Hc. destruct (b64_sextet (b64_char v)) as [u|]; [|discriminate].
  apply N.eqb_eq in Hc. now subst.
Qed.

Definition alphabet_okb (c : N) : bool :=
  negb (is_nl c) && negb (c =? pad_char) && negb (c =? 44) && negb (c =? 95) && negb (c =? 32)
  && negb ((9 <=? c) && (c <=? 13)).

Lemma b64_char_alphabet_b v : v < 64 -> alphabet_okb (b64_char v) = true.
Proof.
  intros Hv. apply (sextet_check (fun w => alphabet_okb (b64_char w))); [vm_compute; reflexivity | exact Hv].
Qed.

(* no base64 character is CR, LF, '=', ',', '_', ' ' or any other ASCII space (9..13) *)
Lemma b64_char_alphabet_l v : v < 64 ->
  let c := b64_char v in
  is_nl c = false /\ c <> pad_char /\ c <> 44 /\ c <> 95 /\ c <> 32 /\ ~ (9 <= c <= 13).
Proof.
  intros Hv c. pose proof (b64_char_alphabet_b v Hv) as Hb. fold c in Hb.
  unfold alphabet_okb in Hb.
  repeat (apply andb_true_iff in Hb; destruct Hb as [Hb ?]).
  repeat match goal with
         | H : negb _ = true |- _ => apply negb_true_iff in H
         end.
  repeat split; try (apply N.eqb_neq; assumption); try assumption.
  intros [Hlo Hhi].
  match goal with
  | H : (9 <=? c) && (c <=? 13) = false |- _ => apply andb_false_iff in H; destruct H as [H|H]; apply N.leb_gt in H; lia
  end.
Qed.

(* ---------- unfolding lemmas for the decoder ---------- *)

Lemma b64_dec_nil buf out :
  b64_dec [] buf out = match buf with [] => Some out | _ => None end.
Proof. reflexivity. Qed.

Lemma b64_dec_cons c r buf out :
  b64_dec (c :: r) buf out =
    match b64_sextet c with
    | Some v =>
        match buf with
        | [s0; s1; s2] =>
            b64_dec r [] (out ++ [s0 * 4 + s1 / 16; (s1 mod 16) * 16 + s2 / 4; (s2 mod 4) * 64 + v])
        | _ => b64_dec r (buf ++ [v]) out
        end
    | None =>
        if is_nl c then b64_dec r buf out
        else if c =? pad_char then
          match b64_finish r buf with
          | Some tl => Some (out ++ tl)
          | None => None
          end
        else None
    end.
Proof. reflexivity. Qed.

Lemma b64_encode_3 a b c r :
  b64_encode (a :: b :: c :: r) =
    b64_char (a / 4) :: b64_char ((a mod 4) * 16 + b / 16) ::
    b64_char ((b mod 16) * 4 + c / 64) :: b64_char (c mod 64) :: b64_encode r.
Proof. reflexivity. Qed.

Lemma b64_encode_2 a b :
  b64_encode [a; b] =
    [b64_char (a / 4); b64_char ((a mod 4) * 16 + b / 16); b64_char ((b mod 16) * 4); pad_char].
Proof. reflexivity. Qed.

Lemma b64_encode_1 a :
  b64_encode [a] = [b64_char (a / 4); b64_char ((a mod 4) * 16); pad_char; pad_char].
Proof. reflexivity. Qed.

Lemma pad_sextet : b64_sextet pad_char = None.
Proof. reflexivity. Qed.
Lemma pad_not_nl : is_nl pad_char = false.
Proof. reflexivity. Qed.

(* one sextet character pushed on a buffer with fewer than three entries *)
Lemma b64_dec_char0 v r out : v < 64 ->
  b64_dec (b64_char v :: r) [] out = b64_dec r [v] out.
Proof. intros Hv. rewrite b64_dec_cons, b64_sextet_char_l by exact Hv. reflexivity. Qed.
Lemma b64_dec_char1 v r s0 out : v < 64 ->
  b64_dec (b64_char v :: r) [s0] out = b64_dec r [s0; v] out.
Proof. intros Hv. rewrite b64_dec_cons, b64_sextet_char_l by exact Hv. reflexivity. Qed.
Lemma b64_dec_char2 v r s0 s1 out : v < 64 ->
  b64_dec (b64_char v :: r) [s0; s1] out = b64_dec r [s0; s1; v] out.
Proof. intros Hv. rewrite b64_dec_cons, b64_sextet_char_l by exact Hv. reflexivity. Qed.
Lemma b64_dec_char3 v r s0 s1 s2 out : v < 64 ->
  b64_dec (b64_char v :: r) [s0; s1; s2] out =
  b64_dec r [] (out ++ [s0 * 4 + s1 / 16; (s1 mod 16) * 16 + s2 / 4; (s2 mod 4) * 64 + v]).
Proof. intros Hv. rewrite b64_dec_cons, b64_sextet_char_l by exact Hv. reflexivity. Qed.

Lemma b64_dec_pad r buf out :
  b64_dec (pad_char :: r) buf out =
    match b64_finish r buf with Some tl => Some (out ++ tl) | None => None end.
Proof. reflexivity. Qed.

Lemma b64_finish_2 s0 s1 : b64_finish [pad_char] [s0; s1] = Some [s0 * 4 + s1 / 16].
Proof. reflexivity. Qed.
Lemma b64_finish_3 s0 s1 s2 :
  b64_finish [] [s0; s1; s2] = Some [s0 * 4 + s1 / 16; (s1 mod 16) * 16 + s2 / 4].
Proof. reflexivity. Qed.

(* ---------- arithmetic of the 3-byte <-> 4-sextet regrouping ---------- *)

Lemma sext_bounds a b c : a < 256 -> b < 256 -> c < 256 ->
  a / 4 < 64 /\ (a mod 4) * 16 + b / 16 < 64 /\ (b mod 16) * 4 + c / 64 < 64 /\ c mod 64 < 64
  /\ (a mod 4) * 16 < 64 /\ (b mod 16) * 4 < 64.
Proof. intros Ha Hb Hc. lia. Qed.

Lemma regroup_0 a b : a < 256 -> b < 256 ->
  (a / 4) * 4 + ((a mod 4) * 16 + b / 16) / 16 = a.
Proof. intros Ha Hb. lia. Qed.
Lemma regroup_1 a b c : a < 256 -> b < 256 -> c < 256 ->
  (((a mod 4) * 16 + b / 16) mod 16) * 16 + ((b mod 16) * 4 + c / 64) / 4 = b.
Proof. intros Ha Hb Hc. lia. Qed.
Lemma regroup_2 b c : b < 256 -> c < 256 ->
  (((b mod 16) * 4 + c / 64) mod 4) * 64 + c mod 64 = c.
Proof. intros Hb Hc. lia. Qed.
Lemma regroup_0' a : a < 256 -> (a / 4) * 4 + ((a mod 4) * 16) / 16 = a.
Proof. intros Ha. lia. Qed.
Lemma regroup_1' a b : a < 256 -> b < 256 ->
  (((a mod 4) * 16 + b / 16) mod 16) * 16 + ((b mod 16) * 4) / 4 = b.
Proof. intros Ha Hb. lia. Qed.

(* ---------- induction three elements at a time ---------- *)

Lemma list_ind3 {A} (P : list A -> Prop) :
  P [] -> (forall a, P [a]) -> (forall a b, P [a; b]) ->
  (forall a b c r, P r -> P (a :: b :: c :: r)) ->
  forall l, P l.
Proof.
  intros H0 H1 H2 H3.
  assert (Hall : forall l, P l /\ (forall a, P (a :: l)) /\ (forall a b, P (a :: b :: l))).
  { induction l as [|x l [IH0 [IH1 IH2]]].
    - repeat split; auto.
    - repeat split; auto. }
  intros l. apply Hall.
Qed.

(* ---------- decode . encode ---------- *)

Lemma b64_dec_enc_gen bs : wfb bs ->
  forall out, b64_dec (b64_encode bs) [] out = Some (out ++ bs).
Proof.
  unfold wfb. induction bs as [|a|a b|a b c r IH] using list_ind3; intros Hwf out.
  - cbn [b64_encode]. rewrite b64_dec_nil, app_nil_r. reflexivity.
  - inversion Hwf as [|? ? Ha _]; subst.
    destruct (sext_bounds a a a Ha Ha Ha) as [B0 [_ [_ [_ [B1 _]]]]].
    rewrite b64_encode_1, b64_dec_char0, b64_dec_char1, b64_dec_pad, b64_finish_2 by assumption.
    rewrite regroup_0' by assumption. reflexivity.
  - inversion Hwf as [|? ? Ha Hwf1]; subst. inversion Hwf1 as [|? ? Hb _]; subst.
    destruct (sext_bounds a b b Ha Hb Hb) as [B0 [B1 [_ [_ [_ B2]]]]].
    rewrite b64_encode_2, b64_dec_char0, b64_dec_char1, b64_dec_char2, b64_dec_pad, b64_finish_3
      by assumption.
    rewrite regroup_0, regroup_1' by assumption. reflexivity.
  - inversion Hwf as [|? ? Ha Hwf1]; subst. inversion Hwf1 as [|? ? Hb Hwf2]; subst.
    inversion Hwf2 as [|? ? Hc Hwf3]; subst.
    destruct (sext_bounds a b c Ha Hb Hc) as [B0 [B1 [B2 [B3 _]]]].
    rewrite b64_encode_3, b64_dec_char0, b64_dec_char1, b64_dec_char2, b64_dec_char3 by assumption.
    rewrite regroup_0, regroup_1, regroup_2 by assumption.
    rewrite IH by assumption. rewrite <- app_assoc. reflexivity.
Qed.

Lemma b64_dec_enc_l bs : wfb bs -> b64_decode (b64_encode bs) = Some bs.
Proof. intros Hwf. unfold b64_decode. now rewrite b64_dec_enc_gen. Qed.

(* ---------- characters produced by the encoder ---------- *)

Lemma b64_encode_chars_l bs c : wfb bs -> In c (b64_encode bs) ->
  c = pad_char \/ exists v, v < 64 /\ c = b64_char v.
Proof.
  unfold wfb. induction bs as [|a|a b|a b d r IH] using list_ind3; intros Hwf Hin.
  - destruct Hin.
  - inversion Hwf as [|? ? Ha _]; subst.
    destruct (sext_bounds a a a Ha Ha Ha) as [B0 [_ [_ [_ [B1 _]]]]].
    rewrite b64_encode_1 in Hin. cbn [In] in Hin.
    destruct Hin as [E|[E|[E|[E|[]]]]]; subst c; eauto.
  - inversion Hwf as [|? ? Ha Hwf1]; subst. inversion Hwf1 as [|? ? Hb _]; subst.
    destruct (sext_bounds a b b Ha Hb Hb) as [B0 [B1 [_ [_ [_ B2]]]]].
    rewrite b64_encode_2 in Hin. cbn [In] in Hin.
    destruct Hin as [E|[E|[E|[E|[]]]]]; subst c; eauto.
  - inversion Hwf as [|? ? Ha Hwf1]; subst. inversion Hwf1 as [|? ? Hb Hwf2]; subst.
    inversion Hwf2 as [|? ? Hd Hwf3]; subst.
    destruct (sext_bounds a b d Ha Hb Hd) as [B0 [B1 [B2 [B3 _]]]].
    rewrite b64_encode_3 in Hin. cbn [In] in Hin.
    destruct Hin as [E|[E|[E|[E|Hin]]]]; try (subst c; eauto; fail).
    now apply IH.
Qed.

Lemma b64_encode_nonempty_l bs : bs <> [] -> b64_encode bs <> [].
Proof.
  destruct bs as [|a [|b [|c r]]]; intros Hne.
  - now elim Hne.
  - rewrite b64_encode_1. discriminate.
  - rewrite b64_encode_2. discriminate.
  - rewrite b64_encode_3. discriminate.
Qed.

(* ---------- which characters a successful decode can have consumed ---------- *)

Definition b64_inputc (c : N) : Prop := b64_sextet c <> None \/ is_nl c = true \/ c = pad_char.

Lemma skip_nl_nil s : skip_nl s = [] -> Forall (fun c => is_nl c = true) s.
Proof.
  induction s as [|c r IH]; intros Hs; [constructor|].
  cbn [skip_nl] in Hs. destruct (is_nl c) eqn:Hc; [|discriminate].
  constructor; auto.
Qed.

Lemma skip_nl_cons s c r : skip_nl s = c :: r ->
  exists nls, s = nls ++ c :: r /\ Forall (fun x => is_nl x = true) nls /\ is_nl c = false.
Proof.
  induction s as [|x s IH]; intros Hs; [discriminate|].
  cbn [skip_nl] in Hs. destruct (is_nl x) eqn:Hx.
  - destruct (IH Hs) as [nls [E [Hn Hc]]]. exists (x :: nls). subst s. repeat split; auto.
  - inversion Hs; subst. exists []. repeat split; auto.
Qed.

Lemma nl_inputc s : Forall (fun c => is_nl c = true) s -> Forall b64_inputc s.
Proof. apply Forall_impl. intros c Hc. right; left; exact Hc. Qed.

Lemma b64_finish_chars r buf tl : b64_finish r buf = Some tl -> Forall b64_inputc r.
Proof.
  unfold b64_finish. intros Hf.
  destruct buf as [|s0 [|s1 [|s2 [|s3 buf]]]]; try discriminate.
  - destruct (skip_nl r) as [|c r'] eqn:Hr; [discriminate|].
    destruct (c =? pad_char) eqn:Hc; [|discriminate].
    destruct (skip_nl r') eqn:Hr'; [|discriminate].
    apply skip_nl_cons in Hr. destruct Hr as [nls [E [Hn _]]]. subst r.
    apply Forall_app. split; [now apply nl_inputc|].
    constructor; [right; right; now apply N.eqb_eq|].
    apply nl_inputc. now apply skip_nl_nil.
  - destruct (skip_nl r) eqn:Hr; [|discriminate].
    apply nl_inputc. now apply skip_nl_nil.
Qed.

Lemma b64_dec_chars s : forall buf out r, b64_dec s buf out = Some r -> Forall b64_inputc s.
Proof.
  induction s as [|c s IH]; intros buf out r Hd; [constructor|].
  rewrite b64_dec_cons in Hd.
  destruct (b64_sextet c) as [v|] eqn:Hs.
  - constructor; [left; congruence|].
    destruct buf as [|s0 [|s1 [|s2 [|s3 buf]]]]; eapply IH; exact Hd.
  - destruct (is_nl c) eqn:Hn.
    + constructor; [right; left; exact Hn|]. eapply IH; exact Hd.
    + destruct (c =? pad_char) eqn:Hp; [|discriminate].
      constructor; [right; right; now apply N.eqb_eq|].
      destruct (b64_finish s buf) as [tl|] eqn:Hf; [|discriminate].
      eapply b64_finish_chars; exact Hf.
Qed.

(* ---------- trailing CR/LF are ignored by the decoder ---------- *)

Lemma nl_not_sextet c : is_nl c = true -> b64_sextet c = None.
Proof.
  unfold is_nl. intros Hc. apply orb_true_iff in Hc.
  destruct Hc as [Hc|Hc]; apply N.eqb_eq in Hc; subst; reflexivity.
Qed.

Lemma skip_nl_all s : Forall (fun c => is_nl c = true) s -> skip_nl s = [].
Proof.
  induction 1 as [|c s Hc _ IH]; [reflexivity|]. cbn [skip_nl]. now rewrite Hc.
Qed.

Lemma skip_nl_app_nl s nls : Forall (fun c => is_nl c = true) nls ->
  skip_nl (s ++ nls) = match skip_nl s with [] => [] | c :: r => c :: r ++ nls end.
Proof.
  intros Hn. induction s as [|x s IH].
  - cbn [app skip_nl]. now apply skip_nl_all.
  - cbn [app skip_nl]. destruct (is_nl x); [exact IH | reflexivity].
Qed.

Lemma b64_finish_app_nl r nls buf : Forall (fun c => is_nl c = true) nls ->
  b64_finish (r ++ nls) buf = b64_finish r buf.
Proof.
  intros Hn. unfold b64_finish.
  destruct buf as [|s0 [|s1 [|s2 [|s3 buf]]]]; try reflexivity.
  - rewrite skip_nl_app_nl by exact Hn.
    destruct (skip_nl r) as [|c r']; [reflexivity|].
    destruct (c =? pad_char); [|reflexivity].
    rewrite skip_nl_app_nl by exact Hn.
    destruct (skip_nl r'); reflexivity.
  - rewrite skip_nl_app_nl by exact Hn.
    destruct (skip_nl r); reflexivity.
Qed.

Lemma b64_dec_only_nl nls buf out : Forall (fun c => is_nl c = true) nls ->
  b64_dec nls buf out = b64_dec [] buf out.
Proof.
  induction 1 as [|c s Hc _ IH]; [reflexivity|].
  rewrite b64_dec_cons, (nl_not_sextet c Hc), Hc. exact IH.
Qed.

Lemma b64_dec_app_nl s nls : Forall (fun c => is_nl c = true) nls ->
  forall buf out, b64_dec (s ++ nls) buf out = b64_dec s buf out.
Proof.
  intros Hn. induction s as [|c s IH]; intros buf out.
  - cbn [app]. now apply b64_dec_only_nl.
  - cbn [app]. rewrite !b64_dec_cons.
    destruct (b64_sextet c) as [v|].
    + destruct buf as [|s0 [|s1 [|s2 [|s3 buf]]]]; apply IH.
    + destruct (is_nl c); [apply IH|].
      destruct (c =? pad_char); [|reflexivity].
      now rewrite b64_finish_app_nl.
Qed.

Lemma b64_decode_app_nl s nls : Forall (fun c => is_nl c = true) nls ->
  b64_decode (s ++ nls) = b64_decode s.
Proof. intros Hn. unfold b64_decode. now apply b64_dec_app_nl. Qed.
