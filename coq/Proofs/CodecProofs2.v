(* M2: the canonical encoding does not depend on map order; the JSON round trip (value level)
   clears requests identically or fails explicitly; the decoder's pre-allocation is bounded. *)
From Coq Require Import List Bool NArith ZArith String Ascii Lia Permutation Sorted.
From Mac Require Import Model.Err Model.Caveat Model.Access Model.Msgpack Model.Prohibits Model.Codec
  Generated.Facts Proofs.ErrFacts Proofs.CavInd Proofs.RessetProofs.
Import ListNotations.
Local Open Scope N_scope.

(* ================================================================== *)
(* 1. Map order                                                        *)
(* ================================================================== *)

(* Insertion sort on the key of a pair, for any total order given as a boolean test. *)
Section KeySort.
  Context {K V : Type} (leb : K -> K -> bool).
  Hypothesis leb_total : forall a b, leb a b = true \/ leb b a = true.
  Hypothesis leb_antisym : forall a b, leb a b = true -> leb b a = true -> a = b.
  Hypothesis leb_trans : forall a b c, leb a b = true -> leb b c = true -> leb a c = true.

  Fixpoint ins_k (e : K * V) (l : list (K * V)) : list (K * V) :=
    match l with
    | [] => [e]
    | x :: r => if leb (fst e) (fst x) then e :: l else x :: ins_k e r
    end.
  Definition sort_k (l : list (K * V)) : list (K * V) := fold_right ins_k [] l.

  Definition kle (x y : K * V) : Prop := leb (fst x) (fst y) = true.

  Lemma ins_k_perm e l : Permutation (ins_k e l) (e :: l).
  Proof.
    induction l as [|x r IH]; cbn [ins_k].
    - apply Permutation_refl.
    - destruct (leb (fst e) (fst x)).
      + apply Permutation_refl.
      + eapply perm_trans; [apply perm_skip; exact IH|apply perm_swap].
  Qed.

  Lemma sort_k_perm l : Permutation (sort_k l) l.
  Proof.
    induction l as [|e l IH]; cbn [sort_k fold_right].
    - apply perm_nil.
    - eapply perm_trans; [apply ins_k_perm|]. apply perm_skip. exact IH.
  Qed.

  Lemma ins_k_sorted e l : StronglySorted kle l -> StronglySorted kle (ins_k e l).
  Proof.
    induction l as [|x r IH]; intros Hs; cbn [ins_k].
    - constructor; constructor.
    - apply StronglySorted_inv in Hs. destruct Hs as [Hr Hx].
      destruct (leb (fst e) (fst x)) eqn:E.
      + constructor; [constructor; assumption|].
        constructor; [exact E|].
        eapply Forall_impl; [|exact Hx]. intros y Hy. unfold kle in *.
        eapply leb_trans; eassumption.
      + constructor; [apply IH; exact Hr|].
        apply (Permutation_Forall (Permutation_sym (ins_k_perm e r))).
        constructor; [|exact Hx]. unfold kle.
        destruct (leb_total (fst x) (fst e)) as [H|H]; [exact H|congruence].
  Qed.

  Lemma sort_k_sorted l : StronglySorted kle (sort_k l).
  Proof.
    induction l as [|e l IH]; cbn [sort_k fold_right].
    - constructor.
    - apply ins_k_sorted. exact IH.
  Qed.

  (* a sorted list with distinct keys is determined by its set of elements *)
  Lemma sorted_perm_unique l : forall l',
    StronglySorted kle l -> StronglySorted kle l' -> Permutation l l' ->
    NoDup (map fst l) -> l = l'.
  Proof.
    induction l as [|x r IH]; intros l' Hs Hs' HP Hnd.
    - apply Permutation_nil in HP. symmetry. exact HP.
    - destruct l' as [|y r'].
      + apply Permutation_sym, Permutation_nil in HP. discriminate.
      + apply StronglySorted_inv in Hs. destruct Hs as [Hr Hx].
        apply StronglySorted_inv in Hs'. destruct Hs' as [Hr' Hy].
        cbn [map] in Hnd. apply NoDup_cons_iff in Hnd. destruct Hnd as [Hnin Hnd].
        assert (Hxy : x = y).
        { assert (Hin : In x (y :: r')) by (eapply Permutation_in; [exact HP|left; reflexivity]).
          destruct Hin as [Heq|Hin]; [symmetry; exact Heq|].
          assert (Hin' : In y (x :: r))
            by (eapply Permutation_in; [apply Permutation_sym; exact HP|left; reflexivity]).
          destruct Hin' as [Heq|Hin']; [exact Heq|].
          exfalso. apply Hnin.
          rewrite Forall_forall in Hx, Hy.
          assert (Hk : fst x = fst y) by (apply leb_antisym; [apply Hx; exact Hin'|apply Hy; exact Hin]).
          rewrite Hk. apply in_map. exact Hin'. }
        subst y. f_equal. apply IH; try assumption.
        eapply Permutation_cons_inv. exact HP.
  Qed.

  Lemma sort_k_canonical l l' :
    Permutation l l' -> NoDup (map fst l) -> sort_k l = sort_k l'.
  Proof.
    intros HP Hnd. apply sorted_perm_unique.
    - apply sort_k_sorted.
    - apply sort_k_sorted.
    - eapply perm_trans; [apply sort_k_perm|].
      eapply perm_trans; [exact HP|]. apply Permutation_sym, sort_k_perm.
    - eapply Permutation_NoDup; [|exact Hnd].
      apply Permutation_map, Permutation_sym, sort_k_perm.
  Qed.

  (* the key sequence that is written *)
  Lemma sort_k_keys_sorted l :
    StronglySorted (fun a b => leb a b = true) (map fst (sort_k l)).
  Proof.
    generalize (sort_k_sorted l). generalize (sort_k l). intros s Hs.
    induction Hs as [|x r Hr IH Hx]; cbn [map]; constructor.
    - exact IH.
    - apply Forall_map. exact Hx.
  Qed.

  (* with distinct keys the written sequence is strictly ascending *)
  Lemma sort_k_keys_strict l :
    NoDup (map fst l) ->
    StronglySorted (fun a b => leb a b = true /\ a <> b) (map fst (sort_k l)).
  Proof.
    intros Hnd.
    assert (Hnd' : NoDup (map fst (sort_k l))).
    { eapply Permutation_NoDup; [|exact Hnd].
      apply Permutation_map, Permutation_sym, sort_k_perm. }
    generalize (sort_k_keys_sorted l) Hnd'. generalize (map fst (sort_k l)). intros s Hs.
    induction Hs as [|x r Hr IH Hx]; intros Hn; constructor.
    - apply IH. apply NoDup_cons_iff in Hn. tauto.
    - apply NoDup_cons_iff in Hn. destruct Hn as [Hnin _].
      rewrite Forall_forall in *. intros y Hy. split; [apply Hx; exact Hy|].
      intros ->. contradiction.
  Qed.
End KeySort.

(* ---- N keys *)
Lemma ins_n_eq : ins_n = ins_k N.leb.
Proof. reflexivity. Qed.
Lemma sort_rs_n_eq l : sort_rs_n l = sort_k N.leb l.
Proof. reflexivity. Qed.

Lemma nleb_total a b : (a <=? b) = true \/ (b <=? a) = true.
Proof. rewrite !N.leb_le. lia. Qed.
Lemma nleb_antisym a b : (a <=? b) = true -> (b <=? a) = true -> a = b.
Proof. rewrite !N.leb_le. lia. Qed.
Lemma nleb_trans a b c : (a <=? b) = true -> (b <=? c) = true -> (a <=? c) = true.
Proof. rewrite !N.leb_le. lia. Qed.

(* ---- string keys: str_leb is a total order *)
Lemma ascii_compare_refl c : Ascii.compare c c = Eq.
Proof. unfold Ascii.compare. apply N.compare_refl. Qed.

Lemma str_compare_refl s : String.compare s s = Eq.
Proof.
  induction s as [|c s IH]; cbn [String.compare]; [reflexivity|].
  rewrite ascii_compare_refl. exact IH.
Qed.

Lemma str_leb_total a b : str_leb a b = true \/ str_leb b a = true.
Proof.
  unfold str_leb. rewrite (String.compare_antisym b a).
  destruct (String.compare a b); cbn [CompOpp]; auto.
Qed.

Lemma str_leb_antisym a b : str_leb a b = true -> str_leb b a = true -> a = b.
Proof.
  unfold str_leb. rewrite (String.compare_antisym b a).
  destruct (String.compare a b) eqn:E; cbn [CompOpp]; intros H1 H2; try discriminate.
  apply String.compare_eq_iff. exact E.
Qed.

Lemma str_compare_trans_le a : forall b c,
  String.compare a b <> Gt -> String.compare b c <> Gt -> String.compare a c <> Gt.
Proof.
  induction a as [|x a IH]; intros b c Hab Hbc.
  - destruct c; cbn [String.compare]; discriminate.
  - destruct b as [|y b]; [cbn [String.compare] in Hab; congruence|].
    destruct c as [|z c]; [cbn [String.compare] in Hbc; congruence|].
    cbn [String.compare] in *. unfold Ascii.compare in *.
    destruct (N.compare_spec (N_of_ascii x) (N_of_ascii y)) as [Exy|Exy|Exy];
      [|clear Hab|congruence].
    + rewrite Exy.
      destruct (N_of_ascii y ?= N_of_ascii z); [|discriminate|congruence].
      apply IH with b; assumption.
    + destruct (N.compare_spec (N_of_ascii y) (N_of_ascii z)) as [Eyz|Eyz|Eyz];
        [|clear Hbc|congruence].
      * rewrite <- Eyz. apply N.compare_lt_iff in Exy. rewrite Exy. discriminate.
      * assert (Hxz : N_of_ascii x < N_of_ascii z) by lia.
        apply N.compare_lt_iff in Hxz. rewrite Hxz. discriminate.
Qed.

Lemma str_leb_true_iff a b : str_leb a b = true <-> String.compare a b <> Gt.
Proof. unfold str_leb. destruct (String.compare a b); split; congruence. Qed.

Lemma str_leb_trans a b c : str_leb a b = true -> str_leb b c = true -> str_leb a c = true.
Proof. rewrite !str_leb_true_iff. apply str_compare_trans_le. Qed.

Lemma ins_s_eq : ins_s = ins_k str_leb.
Proof. reflexivity. Qed.
Lemma sort_rs_s_eq l : sort_rs_s l = sort_k str_leb l.
Proof. reflexivity. Qed.

(* ---- the requested statements *)
Lemma sort_rs_n_perm l l' :
  Permutation l l' -> NoDup (map fst l) -> sort_rs_n l = sort_rs_n l'.
Proof.
  rewrite !sort_rs_n_eq. apply sort_k_canonical.
  - exact nleb_total. - exact nleb_antisym. - exact nleb_trans.
Qed.

Lemma sort_rs_s_perm l l' :
  Permutation l l' -> NoDup (map fst l) -> sort_rs_s l = sort_rs_s l'.
Proof.
  rewrite !sort_rs_s_eq. apply sort_k_canonical.
  - exact str_leb_total. - exact str_leb_antisym. - exact str_leb_trans.
Qed.

(* the sort only reorders: nothing is dropped or duplicated *)
Lemma sort_rs_n_permutation l : Permutation (sort_rs_n l) l.
Proof. rewrite sort_rs_n_eq. apply sort_k_perm. Qed.
Lemma sort_rs_s_permutation l : Permutation (sort_rs_s l) l.
Proof. rewrite sort_rs_s_eq. apply sort_k_perm. Qed.

Lemma StronglySorted_impl {A} (R R' : A -> A -> Prop) l :
  (forall a b, R a b -> R' a b) -> StronglySorted R l -> StronglySorted R' l.
Proof.
  intros Himp Hs. induction Hs as [|x r Hr IH Hx]; constructor.
  - exact IH.
  - eapply Forall_impl; [|exact Hx]. intros y. apply Himp.
Qed.

(* the written key sequence is ascending (strictly so when the keys are distinct, as in a Go map) *)
Lemma sort_rs_n_sorted l : StronglySorted N.le (map fst (sort_rs_n l)).
Proof.
  rewrite sort_rs_n_eq.
  eapply StronglySorted_impl; [|apply (sort_k_keys_sorted N.leb nleb_total nleb_trans)].
  intros a b. apply N.leb_le.
Qed.

Lemma sort_rs_n_sorted_strict l :
  NoDup (map fst l) -> StronglySorted N.lt (map fst (sort_rs_n l)).
Proof.
  intros Hnd. rewrite sort_rs_n_eq.
  eapply StronglySorted_impl; [|apply (sort_k_keys_strict N.leb nleb_total nleb_trans); exact Hnd].
  intros a b [Hle Hne]. apply N.leb_le in Hle. lia.
Qed.

Definition str_le (a b : string) : Prop := String.compare a b <> Gt.
Definition str_lt (a b : string) : Prop := String.compare a b = Lt.

Lemma sort_rs_s_sorted l : StronglySorted str_le (map fst (sort_rs_s l)).
Proof.
  rewrite sort_rs_s_eq.
  eapply StronglySorted_impl; [|apply (sort_k_keys_sorted str_leb str_leb_total str_leb_trans)].
  intros a b. apply str_leb_true_iff.
Qed.

Lemma sort_rs_s_sorted_strict l :
  NoDup (map fst l) -> StronglySorted str_lt (map fst (sort_rs_s l)).
Proof.
  intros Hnd. rewrite sort_rs_s_eq.
  eapply StronglySorted_impl;
    [|apply (sort_k_keys_strict str_leb str_leb_total str_leb_trans); exact Hnd].
  intros a b [Hle Hne]. apply str_leb_true_iff in Hle. unfold str_lt.
  destruct (String.compare a b) eqn:E; [|reflexivity|congruence].
  apply String.compare_eq_iff in E. contradiction.
Qed.

(* ---- the bytes do not depend on the order in which the map entries are presented *)
Lemma enc_rs_n_perm_invariant_l l l' :
  Permutation l l' -> NoDup (map fst l) -> enc_rs_n l = enc_rs_n l'.
Proof.
  intros HP Hnd. unfold enc_rs_n.
  rewrite (sort_rs_n_perm l l' HP Hnd), (Permutation_length HP). reflexivity.
Qed.

Lemma enc_rs_s_perm_invariant_l l l' :
  Permutation l l' -> NoDup (map fst l) -> enc_rs_s l = enc_rs_s l'.
Proof.
  intros HP Hnd. unfold enc_rs_s.
  rewrite (sort_rs_s_perm l l' HP Hnd), (Permutation_length HP). reflexivity.
Qed.

Lemma enc_body_rs_s_unfold (Kc : rset string -> cav) rs :
  In Kc [CVolumes; CFeatureSet; CMachines; CMachineFeatureSet; CClusters; CAppFeatureSet;
         CStorageObjects] ->
  enc_body (Kc rs) = Some (arr1 ++ enc_rs_s rs).
Proof.
  intros Hin. cbn [In] in Hin.
  repeat (destruct Hin as [<-|Hin]; [reflexivity|]). contradiction.
Qed.

Lemma enc_body_apps_unfold rs : enc_body (CApps rs) = Some (arr1 ++ enc_rs_n rs).
Proof. reflexivity. Qed.

(* the string-keyed resource-set caveats *)
Lemma enc_body_rs_s_perm_l (Kc : rset string -> cav) rs rs' :
  In Kc [CVolumes; CFeatureSet; CMachines; CMachineFeatureSet; CClusters; CAppFeatureSet;
         CStorageObjects] ->
  Permutation rs rs' -> NoDup (map fst rs) -> enc_body (Kc rs) = enc_body (Kc rs').
Proof.
  intros Hin HP Hnd. rewrite !(enc_body_rs_s_unfold Kc _ Hin).
  rewrite (enc_rs_s_perm_invariant_l rs rs' HP Hnd). reflexivity.
Qed.

(* the numeric-keyed one *)
Lemma enc_body_apps_perm_l rs rs' :
  Permutation rs rs' -> NoDup (map fst rs) -> enc_body (CApps rs) = enc_body (CApps rs').
Proof.
  intros HP Hnd. rewrite !enc_body_apps_unfold.
  rewrite (enc_rs_n_perm_invariant_l rs rs' HP Hnd). reflexivity.
Qed.

(* all resource-set caveat constructors at once (the model has eight: seven keyed by strings, Apps by uint64) *)
Lemma enc_body_rs_perm_l :
  (forall rs rs', Permutation rs rs' -> NoDup (map fst rs) -> enc_body (CApps rs) = enc_body (CApps rs')) /\
  (forall rs rs', Permutation rs rs' -> NoDup (map fst rs) -> enc_body (CVolumes rs) = enc_body (CVolumes rs')) /\
  (forall rs rs', Permutation rs rs' -> NoDup (map fst rs) -> enc_body (CFeatureSet rs) = enc_body (CFeatureSet rs')) /\
  (forall rs rs', Permutation rs rs' -> NoDup (map fst rs) -> enc_body (CMachines rs) = enc_body (CMachines rs')) /\
  (forall rs rs', Permutation rs rs' -> NoDup (map fst rs) ->
     enc_body (CMachineFeatureSet rs) = enc_body (CMachineFeatureSet rs')) /\
  (forall rs rs', Permutation rs rs' -> NoDup (map fst rs) -> enc_body (CClusters rs) = enc_body (CClusters rs')) /\
  (forall rs rs', Permutation rs rs' -> NoDup (map fst rs) ->
     enc_body (CAppFeatureSet rs) = enc_body (CAppFeatureSet rs')) /\
  (forall rs rs', Permutation rs rs' -> NoDup (map fst rs) ->
     enc_body (CStorageObjects rs) = enc_body (CStorageObjects rs')).
Proof.
  split; [exact enc_body_apps_perm_l|].
  repeat split; intros rs rs';
    refine (enc_body_rs_s_perm_l _ rs rs' _); cbn [In]; tauto.
Qed.

(* ================================================================== *)
(* 2. Pre-allocation                                                   *)
(* ================================================================== *)

Lemma prealloc_slots_bound_l l : prealloc_slots l <= 64.
Proof.
  unfold prealloc_slots.
  destruct (dec_arr_hdr l) as [[n r]|]; [|apply N.le_0_l].
  destruct (N.odd n); [apply N.le_0_l|apply N.le_min_r].
Qed.

(* it is also never more than the announced number of caveats *)
Lemma prealloc_slots_le_announced l n r :
  dec_arr_hdr l = Some (n, r) -> prealloc_slots l <= n / 2.
Proof.
  intros H. unfold prealloc_slots. rewrite H.
  destruct (N.odd n); [apply N.le_0_l|apply N.le_min_l].
Qed.

(* the behaviour before the repair: the slice was sized by the announced length *)
Definition legacy_prealloc (l : bytes) : N :=
  match dec_arr_hdr l with Some (n, _) => if N.odd n then 0 else n / 2 | None => 0 end.

Lemma prealloc_legacy_unbounded :
  legacy_prealloc [221; 15; 255; 255; 254] = 134217727 /\
  prealloc_slots [221; 15; 255; 255; 254] = 64.
Proof. split; vm_compute; reflexivity. Qed.

(* the repaired pre-size is the legacy one capped at 64 *)
Lemma prealloc_slots_legacy l : prealloc_slots l = N.min (legacy_prealloc l) 64.
Proof.
  unfold prealloc_slots, legacy_prealloc.
  destruct (dec_arr_hdr l) as [[n r]|]; [|reflexivity].
  destruct (N.odd n); reflexivity.
Qed.

(* ================================================================== *)
(* 3. JSON round trip at the value level                               *)
(* ================================================================== *)

(* the request only uses the five defined action bits *)
Definition small_action (a : access) : Prop :=
  match a_action a with Some act => subset act 31 = true | None => True end.

Lemma subset_jmask act m : subset act 31 = true -> subset act (jmask m) = subset act m.
Proof. intros H. unfold jmask. rewrite subset_land_l, H. apply andb_true_r. Qed.

Lemma subset_fold_b act l : forall init,
  subset act (fold_left N.land l init) = subset act init && forallb (subset act) l.
Proof.
  induction l as [|x l IH]; intros init; cbn [fold_left forallb].
  - rewrite andb_true_r. reflexivity.
  - rewrite IH, subset_land_l, andb_assoc. reflexivity.
Qed.

Section JRS.
  Context {I : Type} (ieqb : I -> I -> bool) (zero : I) (mtch : I -> I -> bool).

  Lemma jrs_cons (e : I * N) rs : jrs (e :: rs) = (fst e, jmask (snd e)) :: jrs rs.
  Proof. reflexivity. Qed.

  Lemma jrs_keys (rs : rset I) : map fst (jrs rs) = map fst rs.
  Proof.
    induction rs as [|e rs IH]; [reflexivity|].
    rewrite jrs_cons. cbn [map fst]. rewrite IH. reflexivity.
  Qed.

  Lemma jrs_length (rs : rset I) : List.length (jrs rs) = List.length rs.
  Proof. unfold jrs. apply map_length. Qed.

  Lemma rs_has_zero_jrs rs : rs_has_zero ieqb zero (jrs rs) = rs_has_zero ieqb zero rs.
  Proof.
    unfold rs_has_zero. induction rs as [|e rs IH]; [reflexivity|].
    rewrite jrs_cons. cbn [existsb fst]. rewrite IH. reflexivity.
  Qed.

  Lemma rs_validate_jrs rs : rs_validate ieqb zero (jrs rs) = rs_validate ieqb zero rs.
  Proof. unfold rs_validate. rewrite rs_has_zero_jrs, jrs_length. reflexivity. Qed.

  Lemma rs_relevant_jrs rs id :
    rs_relevant ieqb zero mtch (jrs rs) id = jrs (rs_relevant ieqb zero mtch rs id).
  Proof.
    unfold rs_relevant. induction rs as [|e rs IH]; [reflexivity|].
    rewrite jrs_cons. cbn [filter fst].
    destruct (ieqb (fst e) zero || mtch (fst e) id); rewrite IH; reflexivity.
  Qed.

  Lemma isnil_jrs (rs : rset I) : isnil (jrs rs) = isnil rs.
  Proof. destruct rs; reflexivity. Qed.

  Lemma forallb_subset_jrs act (l : rset I) :
    subset act 31 = true ->
    forallb (subset act) (map snd (jrs l)) = forallb (subset act) (map snd l).
  Proof.
    intros Hs. induction l as [|e l IH]; [reflexivity|].
    rewrite jrs_cons. cbn [map forallb snd]. rewrite IH, (subset_jmask _ _ Hs). reflexivity.
  Qed.

  Lemma rs_perm_jrs rs id act :
    subset act 31 = true ->
    subset act (rs_perm ieqb zero mtch (jrs rs) id) = subset act (rs_perm ieqb zero mtch rs id).
  Proof.
    intros Hs. unfold rs_perm. rewrite rs_relevant_jrs, !subset_fold_b.
    rewrite (forallb_subset_jrs _ _ Hs). reflexivity.
  Qed.

  (* keys unchanged, masks intersected with 31: same verdict for every request over the defined bits *)
  Lemma rs_prohibits_jrs rs id act :
    subset act 31 = true ->
    rs_prohibits ieqb zero mtch (jrs rs) id act = rs_prohibits ieqb zero mtch rs id act.
  Proof.
    intros Hs. unfold rs_prohibits. rewrite rs_validate_jrs.
    destruct (rs_validate ieqb zero rs); [reflexivity|].
    destruct id as [i|]; [|reflexivity].
    rewrite rs_relevant_jrs, isnil_jrs, (rs_perm_jrs _ _ _ Hs). reflexivity.
  Qed.
End JRS.

(* the whole set: every caveat converted, or an explicit failure *)
Fixpoint json_set_rt (cs : list cav) : option (list cav) :=
  match cs with
  | [] => Some []
  | c :: r => match json_rt c, json_set_rt r with
              | Some x, Some xs => Some (x :: xs)
              | _, _ => None
              end
  end.

Lemma json_rt_if_some l els :
  json_rt (CIfPresent (Some l) els) =
  option_map (fun l' => CIfPresent (Some l') (jmask els)) (json_set_rt l).
Proof. reflexivity. Qed.

Lemma json_rt_if_none els : json_rt (CIfPresent None els) = Some (CIfPresent None (jmask els)).
Proof. reflexivity. Qed.

Lemma json_set_rt_cons c r :
  json_set_rt (c :: r) =
  match json_rt c, json_set_rt r with Some x, Some xs => Some (x :: xs) | _, _ => None end.
Proof. reflexivity. Qed.

Lemma json_set_rt_cons_inv c r l' :
  json_set_rt (c :: r) = Some l' ->
  exists x xs, json_rt c = Some x /\ json_set_rt r = Some xs /\ l' = x :: xs.
Proof.
  rewrite json_set_rt_cons. intros H.
  destruct (json_rt c) as [x|]; [|discriminate].
  destruct (json_set_rt r) as [xs|]; [|discriminate].
  injection H as <-. exists x, xs. auto.
Qed.

Lemma with_flyio_small a k k' :
  small_action a ->
  (forall f, subset (fa_action f) 31 = true -> k f = k' f) ->
  with_flyio a k = with_flyio a k'.
Proof.
  intros Hs Hk. destruct a as [f|d|v t|m t]; try reflexivity.
  cbn [with_flyio]. apply Hk. exact Hs.
Qed.

Lemma json_rt_prohibits_leaf c c' a :
  (forall ifs els, c <> CIfPresent ifs els) ->
  json_rt c = Some c' -> small_action a -> prohibits c' a = prohibits c a.
Proof.
  intros Hleaf H Hs.
  destruct c; cbn [json_rt] in H;
    try match goal with b : option _ |- _ => destruct b end;
    try discriminate;
    try (exfalso; eapply Hleaf; reflexivity);
    injection H as <-;
    first
    [ (* resource sets *)
      cbn [prohibits]; apply with_flyio_small; [exact Hs|]; intros f Hf;
      first [ exact (rs_prohibits_jrs N.eqb 0 match_n _ _ _ Hf)
            | exact (rs_prohibits_jrs String.eqb EmptyString match_s _ _ _ Hf)
            | exact (rs_prohibits_jrs String.eqb EmptyString match_p _ _ _ Hf) ]
    | (* Organization *)
      cbn [prohibits]; apply with_flyio_small; [exact Hs|]; intros f Hf;
      rewrite (subset_jmask _ _ Hf); reflexivity
    | (* Action *)
      cbn [prohibits]; unfold small_action in Hs;
      destruct (a_action a) as [act|]; [rewrite (subset_jmask _ _ Hs)|]; reflexivity
    | reflexivity ].
Qed.

Lemma ifgo_json a l : forall l' acc br,
  json_set_rt l = Some l' ->
  Forall (fun c => forall c', json_rt c = Some c' -> prohibits c' a = prohibits c a) l ->
  ifgo a l' acc br = ifgo a l acc br.
Proof.
  induction l as [|c l IH]; intros l' acc br H HF.
  - injection H as <-. reflexivity.
  - apply json_set_rt_cons_inv in H. destruct H as [x [xs [Hx [Hxs ->]]]].
    apply Forall_cons_iff in HF. destruct HF as [Hc HF].
    cbn [ifgo]. rewrite (Hc x Hx).
    destruct (is_unspec (prohibits c a)); apply IH; assumption.
Qed.

Lemma json_rt_prohibits_l c : forall c' a,
  json_rt c = Some c' -> small_action a -> prohibits c' a = prohibits c a.
Proof.
  induction c as [c Hleaf|els|l els IH] using cav_ind'; intros c' a H Hs.
  - apply json_rt_prohibits_leaf; assumption.
  - rewrite json_rt_if_none in H. injection H as <-.
    rewrite !prohibits_if_unfold. unfold small_action in Hs.
    destruct (a_action a) as [act|]; [|reflexivity].
    rewrite (subset_jmask _ _ Hs). reflexivity.
  - rewrite json_rt_if_some in H.
    destruct (json_set_rt l) as [l'|] eqn:El; [|discriminate].
    cbn [option_map] in H. injection H as <-.
    rewrite !prohibits_if_unfold.
    assert (Hact := Hs). unfold small_action in Hact.
    destruct (a_action a) as [act|]; [|reflexivity].
    rewrite (ifgo_json a l l' None false El).
    + destruct (ifgo a l None false) as [e br].
      rewrite (subset_jmask _ _ Hact). reflexivity.
    + eapply Forall_impl; [|exact IH]. intros c Hc c' Hc'. apply Hc; [exact Hc'|exact Hs].
Qed.

(* the caveat type and the attestation flag survive *)
Lemma json_rt_type_l c c' :
  json_rt c = Some c' -> cav_type c' = cav_type c /\ is_attestation c' = is_attestation c.
Proof.
  intros H.
  destruct c; cbn [json_rt] in H;
    try match goal with b : option _ |- _ => destruct b end;
    try discriminate;
    try (injection H as <-; split; reflexivity).
  (* IfPresent (Some l) *)
  fold (json_set_rt l) in H.
  change (option_map (fun l' => CIfPresent (Some l') (jmask els)) (json_set_rt l) = Some c') in H.
  destruct (json_set_rt l) as [l'|]; [|discriminate].
  cbn [option_map] in H. injection H as <-. split; reflexivity.
Qed.

Lemma json_rt_validate_access cs : forall cs' a,
  json_set_rt cs = Some cs' -> small_action a -> validate_access cs' a = validate_access cs a.
Proof.
  induction cs as [|c cs IH]; intros cs' a H Hs.
  - injection H as <-. reflexivity.
  - apply json_set_rt_cons_inv in H. destruct H as [x [xs [Hx [Hxs ->]]]].
    cbn [validate_access].
    destruct (json_rt_type_l c x Hx) as [_ Hatt]. rewrite Hatt.
    rewrite (json_rt_prohibits_l c x a Hx Hs), (IH xs a Hxs Hs). reflexivity.
Qed.

(* rendering to JSON and back yields a set that clears every request over the defined action
   bits identically -- or an explicit error (json_set_rt = None), never a silently different set *)
Lemma json_rt_validate_l cs cs' accs :
  json_set_rt cs = Some cs' -> Forall small_action accs -> validate cs' accs = validate cs accs.
Proof.
  intros H HF. induction HF as [|a accs Ha HF IH]; [reflexivity|].
  cbn [validate]. rewrite IH, (json_rt_validate_access cs cs' a H Ha). reflexivity.
Qed.

(* the round trip keeps the number of caveats *)
Lemma json_set_rt_length cs : forall cs', json_set_rt cs = Some cs' -> List.length cs' = List.length cs.
Proof.
  induction cs as [|c cs IH]; intros cs' H.
  - injection H as <-. reflexivity.
  - apply json_set_rt_cons_inv in H. destruct H as [x [xs [Hx [Hxs ->]]]].
    cbn [List.length]. rewrite (IH xs Hxs). reflexivity.
Qed.

(* ---- which caveats refuse the round trip *)
Definition leaf_refuses (c : cav) : bool :=
  match c with
  | CUnregistered _ _ => true
  | CBind None => true
  | CCommands None => true
  | _ => false
  end.

Fixpoint json_refuses (c : cav) : bool :=
  match c with
  | CIfPresent (Some l) _ => existsb json_refuses l
  | _ => leaf_refuses c
  end.

Lemma json_refuses_if_some l els : json_refuses (CIfPresent (Some l) els) = existsb json_refuses l.
Proof. reflexivity. Qed.

Lemma json_set_rt_none_iff l :
  Forall (fun c => json_rt c = None <-> json_refuses c = true) l ->
  (json_set_rt l = None <-> existsb json_refuses l = true).
Proof.
  intros HF. induction HF as [|c l Hc HF IH]; cbn [existsb].
  - split; discriminate.
  - rewrite json_set_rt_cons, orb_true_iff, <- Hc, <- IH.
    destruct (json_rt c) as [x|]; [|split; auto].
    destruct (json_set_rt l) as [xs|]; [|split; auto].
    split; [discriminate|]. intros [H|H]; discriminate.
Qed.

Lemma json_rt_errors_l c : json_rt c = None <-> json_refuses c = true.
Proof.
  induction c as [c Hleaf|els|l els IH] using cav_ind'.
  - destruct c; cbn [json_rt json_refuses leaf_refuses];
      try match goal with b : option _ |- _ => destruct b end;
      try (split; [discriminate|discriminate]);
      try (split; reflexivity).
    exfalso. eapply Hleaf. reflexivity.
  - rewrite json_rt_if_none. cbn [json_refuses leaf_refuses]. split; discriminate.
  - rewrite json_rt_if_some, json_refuses_if_some, <- (json_set_rt_none_iff l IH).
    destruct (json_set_rt l); cbn [option_map]; split; congruence.
Qed.

Lemma json_set_rt_errors_l cs : json_set_rt cs = None <-> existsb json_refuses cs = true.
Proof.
  apply json_set_rt_none_iff. apply Forall_forall. intros c _. apply json_rt_errors_l.
Qed.

(* "at some depth": a caveat refuses exactly when its traversal (the caveat and everything nested in
   it) contains an unregistered caveat, a BindToParentToken with a nil field or a Commands with nil *)
Lemma existsb_flat_map {A B} (f : B -> bool) (g : A -> list B) l :
  existsb f (flat_map g l) = existsb (fun x => existsb f (g x)) l.
Proof.
  induction l as [|x l IH]; [reflexivity|].
  cbn [flat_map existsb]. rewrite existsb_app, IH. reflexivity.
Qed.

Lemma existsb_ext_in {A} (f g : A -> bool) l :
  Forall (fun x => f x = g x) l -> existsb f l = existsb g l.
Proof.
  intros HF. induction HF as [|x l Hx HF IH]; [reflexivity|].
  cbn [existsb]. rewrite Hx, IH. reflexivity.
Qed.

Lemma json_refuses_flat c : json_refuses c = existsb leaf_refuses (flat c).
Proof.
  induction c as [c Hleaf|els|l els IH] using cav_ind'.
  - destruct c; try match goal with b : option _ |- _ => destruct b end; try reflexivity.
    exfalso. eapply Hleaf. reflexivity.
  - reflexivity.
  - rewrite json_refuses_if_some.
    change (flat (CIfPresent (Some l) els)) with (CIfPresent (Some l) els :: flat_map flat l).
    cbn [existsb leaf_refuses orb]. rewrite existsb_flat_map.
    apply existsb_ext_in. exact IH.
Qed.

Lemma json_rt_errors_depth_l c :
  json_rt c = None <-> exists d, In d (flat c) /\ leaf_refuses d = true.
Proof. rewrite json_rt_errors_l, json_refuses_flat. apply existsb_exists. Qed.

Lemma leaf_refuses_spec d :
  leaf_refuses d = true <->
  (exists ty body, d = CUnregistered ty body) \/ d = CBind None \/ d = CCommands None.
Proof.
  split.
  - destruct d; cbn [leaf_refuses];
      try match goal with b : option _ |- _ => destruct b end;
      try discriminate; intros _; eauto.
  - intros [[ty [body ->]]|[->| ->]]; reflexivity.
Qed.

(* the distinct-keys hypothesis of the order lemmas is needed (a Go map guarantees it): with a
   repeated key the insertion sort keeps the presentation order of the equal keys *)
Lemma sort_rs_n_dup_keys_order_matters :
  Permutation [(1, 2); (1, 3)] [(1, 3); (1, 2)] /\
  sort_rs_n [(1, 2); (1, 3)] <> sort_rs_n [(1, 3); (1, 2)].
Proof. split; [apply perm_swap|vm_compute; discriminate]. Qed.

(* ================================================================== *)
Print Assumptions sort_rs_n_perm.
Print Assumptions sort_rs_s_perm.
Print Assumptions sort_rs_n_sorted.
Print Assumptions sort_rs_n_sorted_strict.
Print Assumptions sort_rs_s_sorted.
Print Assumptions sort_rs_s_sorted_strict.
Print Assumptions enc_rs_n_perm_invariant_l.
Print Assumptions enc_rs_s_perm_invariant_l.
Print Assumptions enc_body_rs_perm_l.
Print Assumptions enc_body_rs_s_perm_l.
Print Assumptions prealloc_slots_bound_l.
Print Assumptions prealloc_legacy_unbounded.
Print Assumptions subset_jmask.
Print Assumptions rs_prohibits_jrs.
Print Assumptions json_rt_prohibits_l.
Print Assumptions json_rt_type_l.
Print Assumptions json_rt_validate_l.
Print Assumptions json_rt_errors_l.
Print Assumptions json_set_rt_errors_l.
Print Assumptions json_rt_errors_depth_l.
Print Assumptions leaf_refuses_spec.
