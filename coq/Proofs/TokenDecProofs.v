(* The token-level lenient decoder (Model.TokenDec):
   - dec_token_v0_not_proof: the repaired decoder never yields an old-format (version 0) nonce with the proof flag set,
     whatever wire form the token came in (array, map, repeated Nonce keys, decoys, ...);
   - legacy_nonce_keeps_proof_refuted: the decoder as it was before the repair does, on an explicit input (F16);
   - dec_token_enc_token_l: the canonical encoding of a well-formed token decodes to that token (both nonce versions);
   - dec_token_good_l / dec_token_reenc_l: whatever is accepted has a canonical encoding, and that encoding decodes to
     exactly the same token: what the verifier signs (the re-encoded nonce and caveats) determines every field it acts on. *)
From Coq Require Import List Bool NArith ZArith String Ascii Lia ZifyN ZifyNat ZifyBool.
From Mac Require Import Model.Caveat Model.Msgpack Model.Codec Model.TypedDec Model.TypedDec2 Model.TokenDec
  Proofs.CavInd Proofs.CodecProofs Proofs.CodecProofs2 Proofs.LenientProofs Proofs.TypedDecProofs Proofs.TypedDec2Proofs
  Proofs.TypedDec2Accept Proofs.TypedDec2Size.
Import ListNotations.
Local Open Scope N_scope.

(* ------------------------------------------------------------------------------------------ *)
(* an old-format nonce is never a proof                                                        *)

Definition v0_plain (t : token) : Prop := tk_ver t = 0 -> tk_proof t = false.

Lemma dec_nonce_into_v0 cur b n r : dec_nonce_into false cur b = Some (n, r) -> n_ver n = 0 -> n_proof n = false.
Proof.
  unfold dec_nonce_into. destruct b as [|c r0]; [discriminate|].
  destruct (c =? 192). { intros H. injection H as <- _. reflexivity. }
  destruct (dec_arr_hdr (c :: r0)) as [[k r1]|]; [|discriminate].
  destruct ((k =? 2) || (k =? 3)); [|discriminate].
  destruct (dec_bytes_len r1) as [[kid r2]|]; [|discriminate].
  destruct (dec_bytes_len r2) as [[rnd r3]|]; [|discriminate].
  destruct (k =? 2). { intros H. injection H as <- _. reflexivity. }
  destruct (dec_bool_len r3) as [[p r4]|]; [|discriminate].
  intros H. injection H as <- _. cbn [n_ver]. discriminate.
Qed.

Lemma dec_tfield_v0 dc f t l t' r : dec_tfield false dc f t l = Some (t', r) -> v0_plain t -> v0_plain t'.
Proof.
  unfold v0_plain. destruct f; cbn [dec_tfield].
  - destruct (dec_nonce_into false (tok_nonce t) l) as [[n r1]|] eqn:E; [|discriminate].
    cbn [option_map fst snd]. intros H _. injection H as <- _. cbn [set_nonce tk_ver tk_proof].
    apply (dec_nonce_into_v0 _ _ _ _ E).
  - destruct (dec_str_len l) as [[p r1]|]; [|discriminate]. cbn [option_map fst snd].
    intros H. injection H as <- _. exact (fun H => H).
  - destruct l as [|c l0]; [discriminate|]. destruct (c =? 192).
    + intros H. injection H as <- _. exact (fun H => H).
    + destruct (dec_set_rest dc (c :: l0)) as [[cs r1]|]; [|discriminate]. cbn [option_map fst snd].
      intros H. injection H as <- _. exact (fun H => H).
  - destruct (dec_bytes_len l) as [[p r1]|]; [|discriminate]. cbn [option_map fst snd].
    intros H. injection H as <- _. exact (fun H => H).
Qed.

Lemma dec_tfields_v0 dc fs : forall t l t' r, dec_tfields false dc fs t l = Some (t', r) -> v0_plain t -> v0_plain t'.
Proof.
  induction fs as [|f fs IH]; intros t l t' r; cbn [dec_tfields].
  - intros H. injection H as <- _. exact (fun H => H).
  - destruct (dec_tfield false dc f t l) as [[t1 r1]|] eqn:E; [|discriminate].
    intros H Hv. apply (IH _ _ _ _ H). apply (dec_tfield_v0 _ _ _ _ _ _ E Hv).
Qed.

Lemma dec_tok_entries_v0 dc n : forall t l t' r, dec_tok_entries false dc n t l = Some (t', r) -> v0_plain t -> v0_plain t'.
Proof.
  induction n as [|n IH]; intros t l t' r; cbn [dec_tok_entries].
  - intros H. injection H as <- _. exact (fun H => H).
  - destruct (dec_str_len l) as [[name r1]|]; [|discriminate].
    destruct (tok_field name) as [f|].
    + destruct (dec_tfield false dc f t r1) as [[t1 r2]|] eqn:E; [|discriminate].
      intros H Hv. apply (IH _ _ _ _ H). apply (dec_tfield_v0 _ _ _ _ _ _ E Hv).
    + destruct (skip (S (List.length r1)) r1) as [r2|]; [|discriminate]. apply IH.
Qed.

Lemma tok_zero_v0 : v0_plain tok_zero.
Proof. intros _. reflexivity. Qed.

Lemma dec_tok_map_v0 dc n l t r : dec_tok_map false dc n l = Some (t, r) -> v0_plain t.
Proof.
  unfold dec_tok_map. destruct (N.of_nat (List.length l) <? 2 * n); [discriminate|].
  intros H. apply (dec_tok_entries_v0 _ _ _ _ _ _ H tok_zero_v0).
Qed.

Lemma dec_token_rest_v0 dc l t r : dec_token_rest false dc l = Some (t, r) -> v0_plain t.
Proof.
  unfold dec_token_rest. destruct l as [|c l0]; [discriminate|].
  destruct (c =? 192). { intros H. injection H as <- _. apply tok_zero_v0. }
  destruct ((128 <=? c) && (c <=? 143)). { apply dec_tok_map_v0. }
  destruct (c =? 222). { destruct (take 2 l0) as [[lb r1]|]; [apply dec_tok_map_v0|discriminate]. }
  destruct (c =? 223). { destruct (take 4 l0) as [[lb r1]|]; [apply dec_tok_map_v0|discriminate]. }
  destruct (dec_arr_hdr (c :: l0)) as [[n r1]|]; [|discriminate].
  destruct (n =? 0). { intros H. injection H as <- _. apply tok_zero_v0. }
  destruct (n =? 4); [|discriminate].
  intros H. apply (dec_tfields_v0 _ _ _ _ _ _ H tok_zero_v0).
Qed.

(* THE SAFETY THEOREM for the repaired decoder *)
Theorem dec_token_v0_not_proof ext pz b t : dec_token_gen false ext pz b = Some t -> tk_ver t = 0 -> tk_proof t = false.
Proof.
  unfold dec_token_gen.
  destruct (dec_token_rest false (dec_cav ext pz (S (List.length b))) b) as [[t' r]|] eqn:E; [|discriminate].
  cbn [option_map fst]. intros H. injection H as <-. apply (dec_token_rest_v0 _ _ _ _ E).
Qed.

(* the version is 0 or 1, whichever decoder *)
Lemma dec_nonce_into_ver legacy cur b n r : dec_nonce_into legacy cur b = Some (n, r) -> n_ver n = 0 \/ n_ver n = 1.
Proof.
  unfold dec_nonce_into. destruct b as [|c r0]; [discriminate|].
  destruct (c =? 192). { intros H. injection H as <- _. left. reflexivity. }
  destruct (dec_arr_hdr (c :: r0)) as [[k r1]|]; [|discriminate].
  destruct ((k =? 2) || (k =? 3)); [|discriminate].
  destruct (dec_bytes_len r1) as [[kid r2]|]; [|discriminate].
  destruct (dec_bytes_len r2) as [[rnd r3]|]; [|discriminate].
  destruct (k =? 2). { intros H. injection H as <- _. left. reflexivity. }
  destruct (dec_bool_len r3) as [[p r4]|]; [|discriminate].
  intros H. injection H as <- _. right. reflexivity.
Qed.

(* ------------------------------------------------------------------------------------------ *)
(* the decoder before the repair, refuted on an explicit input (F16)                           *)

Theorem legacy_nonce_keeps_proof_refuted :
  exists t, dec_token_gen true true false f16_bytes = Some t /\ tk_ver t = 0 /\ tk_proof t = true /\
            (* what such a token is signed as: the 2-field nonce, which carries no proof flag *)
            enc_nonce (tk_kid t) (tk_rnd t) (tk_proof t) (tk_ver t) =
            [146; 196; 1; 107; 196; 16; 0; 1; 2; 3; 4; 5; 6; 7; 8; 9; 10; 11; 12; 13; 14; 15].
Proof. eexists. split; [vm_compute; reflexivity|]. split; [reflexivity|]. split; reflexivity. Qed.

Theorem repaired_nonce_on_f16 :
  exists t, dec_token_gen false true false f16_bytes = Some t /\ tk_ver t = 0 /\ tk_proof t = false /\
            dec_token_gen true true false f16_bytes = Some (mk_token (tk_kid t) (tk_rnd t) true 0 (tk_loc t) (tk_cavs t) (tk_tail t)).
Proof. eexists. split; [vm_compute; reflexivity|]. split; [reflexivity|]. split; reflexivity. Qed.

(* the bytes, spelled out *)
Lemma f16_bytes_eq : f16_bytes =
  [133; 165; 78; 111; 110; 99; 101; 147; 196; 1; 120; 196; 1; 121; 195;
        165; 78; 111; 110; 99; 101; 146; 196; 1; 107; 196; 16; 0; 1; 2; 3; 4; 5; 6; 7; 8; 9; 10; 11; 12; 13; 14; 15;
        168; 76; 111; 99; 97; 116; 105; 111; 110; 161; 108;
        173; 85; 110; 115; 97; 102; 101; 67; 97; 118; 101; 97; 116; 115; 144;
        164; 84; 97; 105; 108; 196; 32] ++ repeat 170 32%nat.
Proof. vm_compute. reflexivity. Qed.

(* ------------------------------------------------------------------------------------------ *)
(* round trip: the canonical encoding of a well-formed token decodes to that token             *)

Definition tok_good (t : token) : Prop :=
  wf_obin (tk_kid t) /\ wf_obin (tk_rnd t) /\ wf_obin (tk_tail t) /\ (tk_ver t = 0 \/ tk_ver t = 1) /\
  (tk_ver t = 0 -> tk_proof t = false) /\ N.of_nat (String.length (tk_loc t)) < 2 ^ 32 /\
  Forall wf_cav (tk_cavs t) /\ Forall canon_cav (tk_cavs t) /\ N.of_nat (List.length (tk_cavs t)) < 2 ^ 31.

Lemma dec_nonce_into_enc cur kid rnd p v rest : wf_obin kid -> wf_obin rnd -> v = 0 \/ v = 1 -> (v = 0 -> p = false) ->
  dec_nonce_into false cur (enc_nonce kid rnd p v ++ rest) = Some (mk_nonce kid rnd p v, rest).
Proof.
  intros Hk Hr [->| ->] Hp.
  - rewrite (Hp eq_refl). unfold enc_nonce. change (0 =? 0) with true. cbv iota.
    rewrite <- !app_assoc.
    change ([146] ++ enc_obin kid ++ enc_obin rnd ++ rest) with (146 :: enc_obin kid ++ enc_obin rnd ++ rest).
    unfold dec_nonce_into. change (146 =? 192) with false. cbv iota.
    rewrite dec_arr_hdr_fix by lia. change (146 - 144) with 2. change ((2 =? 2) || (2 =? 3)) with true. cbv iota.
    rewrite dec_bytes_len_enc_obin by exact Hk. rewrite dec_bytes_len_enc_obin by exact Hr.
    change (2 =? 2) with true. reflexivity.
  - unfold enc_nonce. change (1 =? 0) with false. cbv iota.
    rewrite <- !app_assoc.
    change ([147] ++ enc_obin kid ++ enc_obin rnd ++ enc_bool p ++ rest) with (147 :: enc_obin kid ++ enc_obin rnd ++ enc_bool p ++ rest).
    unfold dec_nonce_into. change (147 =? 192) with false. cbv iota.
    rewrite dec_arr_hdr_fix by lia. change (147 - 144) with 3. change ((3 =? 2) || (3 =? 3)) with true. cbv iota.
    rewrite dec_bytes_len_enc_obin by exact Hk. rewrite dec_bytes_len_enc_obin by exact Hr.
    change (3 =? 2) with false. cbv iota. rewrite dec_bool_len_enc. reflexivity.
Qed.

Lemma dec_token_rest_arr4 legacy dc r : dec_token_rest legacy dc (148 :: r) = dec_tfields legacy dc tok_fields tok_zero r.
Proof. reflexivity. Qed.

Theorem dec_token_enc_tok_l ext pz t b : tok_good t -> enc_tok t = Some b -> dec_token_gen false ext pz b = Some t.
Proof.
  intros (Hk & Hr & Htl & Hv & Hp & Hloc & Hwf & Hcan & Hn) Henc.
  destruct t as [kid rnd p v loc cs tl]. cbn [tk_kid tk_rnd tk_proof tk_ver tk_loc tk_cavs tk_tail] in *.
  unfold enc_tok, enc_token in Henc. cbn [tk_kid tk_rnd tk_proof tk_ver tk_loc tk_cavs tk_tail] in Henc.
  destruct (enc_set cs) as [s|] eqn:Es; [|discriminate]. cbn [option_map] in Henc. injection Henc as <-.
  destruct (enc_set_Some cs s Es) as (fr & Ef & ->).
  unfold dec_token_gen.
  match goal with |- option_map fst (dec_token_rest false (dec_cav ext pz ?f) _) = _ => set (fuel := f) end.
  rewrite dec_token_rest_arr4. cbn [dec_tfields tok_fields dec_tfield].
  rewrite dec_nonce_into_enc by assumption. cbn [option_map fst snd].
  rewrite dec_str_len_enc_str by (rewrite str_bytes_length; exact Hloc). cbn [option_map fst snd].
  rewrite bytes_str_str_bytes. rewrite <- app_assoc.
  destruct (enc_arr_hdr_nonnil (2 * N.of_nat (List.length cs)) (fr ++ enc_obin tl)) as (c0 & r0 & Heq & Hc0).
  rewrite Heq. destruct (N.eqb_spec c0 192) as [->|_]; [contradiction|]. rewrite <- Heq.
  rewrite (dec_set_rest_enc _ cs fr (enc_obin tl) Hwf Hn Ef).
  - cbn [option_map fst snd set_nonce set_loc set_cavs tk_cavs tok_zero app].
    rewrite <- (app_nil_r (enc_obin tl)). rewrite dec_bytes_len_enc_obin by exact Htl. reflexivity.
  - apply (dec_items_enc _ fuel); [|exact Hwf|exact Ef|].
    + rewrite Forall_forall in *. intros c Hin b rest Hb Hl.
      apply dec_cav_enc_body_l; [apply Hwf, Hin|apply Hcan, Hin|exact Hb|exact Hl].
    + subst fuel. cbn [List.length]. rewrite !app_length. lia.
Qed.

(* in the terms of Model.Codec.enc_token, both nonce versions *)
Corollary dec_token_enc_token_l ext pz kid rnd p v loc cs tl b :
  wf_obin kid -> wf_obin rnd -> wf_obin tl -> v = 0 \/ v = 1 -> (v = 0 -> p = false) ->
  N.of_nat (String.length loc) < 2 ^ 32 -> Forall wf_cav cs -> Forall canon_cav cs -> N.of_nat (List.length cs) < 2 ^ 31 ->
  enc_token kid rnd p v loc cs tl = Some b ->
  dec_token_gen false ext pz b = Some (mk_token kid rnd p v loc cs tl).
Proof.
  intros. apply dec_token_enc_tok_l; [|assumption]. repeat split; assumption.
Qed.

(* ------------------------------------------------------------------------------------------ *)
(* whatever is accepted is a well-formed token in canonical form                               *)

Lemma dec_bytes_len_wf l o r : byte_list l -> dec_bytes_len l = Some (o, r) -> wf_obin o.
Proof. destruct o; [intros Hl H; apply (dec_bytes_len_bound _ _ _ Hl H)|intros; exact I]. Qed.

Lemma suffix_le (l pre r : bytes) : l = pre ++ r -> (List.length r <= List.length l)%nat.
Proof. intros ->. rewrite app_length. lia. Qed.

Lemma dec_nonce_into_good legacy cur b n r : byte_list b -> dec_nonce_into legacy cur b = Some (n, r) ->
  wf_obin (n_kid n) /\ wf_obin (n_rnd n) /\ exists pre, b = pre ++ r.
Proof.
  intros Hb. unfold dec_nonce_into. destruct b as [|c r0]; [discriminate|].
  destruct (c =? 192). { intros H. injection H as <- <-. split; [exact I|]. split; [exact I|]. exists [c]. reflexivity. }
  destruct (dec_arr_hdr (c :: r0)) as [[k r1]|] eqn:Eh; [|discriminate].
  destruct ((k =? 2) || (k =? 3)); [|discriminate].
  destruct (dec_bytes_len r1) as [[kid r2]|] eqn:E1; [|discriminate].
  destruct (dec_bytes_len r2) as [[rnd r3]|] eqn:E2; [|discriminate].
  destruct (dec_arr_hdr_consumes _ _ _ Eh) as (p1 & Hp1 & _).
  destruct (dec_bytes_len_consumes _ _ _ E1) as (p2 & Hp2 & _).
  destruct (dec_bytes_len_consumes _ _ _ E2) as (p3 & Hp3 & _).
  pose proof (suffix_byte_list _ _ _ Hb Hp1) as Hr1. pose proof (suffix_byte_list _ _ _ Hr1 Hp2) as Hr2.
  pose proof (dec_bytes_len_wf _ _ _ Hr1 E1) as Hk. pose proof (dec_bytes_len_wf _ _ _ Hr2 E2) as Hr.
  destruct (k =? 2).
  { intros H. injection H as <- <-. cbn [n_kid n_rnd]. split; [exact Hk|]. split; [exact Hr|].
    exists (p1 ++ p2 ++ p3). rewrite Hp1, Hp2, Hp3, <- !app_assoc. reflexivity. }
  destruct (dec_bool_len r3) as [[p r4]|] eqn:E3; [|discriminate].
  destruct (dec_bool_len_consumes _ _ _ E3) as (p4 & Hp4 & _).
  intros H. injection H as <- <-. cbn [n_kid n_rnd]. split; [exact Hk|]. split; [exact Hr|].
  exists (p1 ++ p2 ++ p3 ++ p4). rewrite Hp1, Hp2, Hp3, Hp4, <- !app_assoc. reflexivity.
Qed.

Definition tinv (M : nat) (t : token) (l : bytes) : Prop :=
  wf_obin (tk_kid t) /\ wf_obin (tk_rnd t) /\ wf_obin (tk_tail t) /\ (tk_ver t = 0 \/ tk_ver t = 1) /\
  N.of_nat (String.length (tk_loc t)) < 2 ^ 32 /\ Forall cgood (tk_cavs t) /\
  (List.length (tk_cavs t) + List.length l <= M)%nat /\ byte_list l.

Lemma dec_tfield_inv legacy dc M f t l t' r : dc_good dc -> N.of_nat M < 2 ^ 29 ->
  dec_tfield legacy dc f t l = Some (t', r) -> tinv M t l -> tinv M t' r.
Proof.
  intros Hdc HM H (Hk & Hr & Htl & Hv & Hloc & Hcs & Hsz & Hl). unfold tinv.
  destruct f; cbn [dec_tfield] in H.
  - destruct (dec_nonce_into legacy (tok_nonce t) l) as [[n r1]|] eqn:E; [|discriminate].
    cbn [option_map fst snd] in H. injection H as <- <-.
    destruct (dec_nonce_into_good _ _ _ _ _ Hl E) as (Hk' & Hr' & (pre & Hpre)).
    pose proof (suffix_le _ _ _ Hpre). pose proof (dec_nonce_into_ver _ _ _ _ _ E).
    cbn [set_nonce tk_kid tk_rnd tk_tail tk_ver tk_loc tk_cavs].
    repeat split; try assumption; [lia|apply (suffix_byte_list _ _ _ Hl Hpre)].
  - destruct (dec_str_len l) as [[p r1]|] eqn:E; [|discriminate].
    cbn [option_map fst snd] in H. injection H as <- <-.
    destruct (dec_str_len_consumes _ _ _ E) as (pre & Hpre & _). pose proof (suffix_le _ _ _ Hpre).
    pose proof (dec_str_len_sz _ _ _ E) as Hlen.
    cbn [set_loc tk_kid tk_rnd tk_tail tk_ver tk_loc tk_cavs]. rewrite bytes_str_length.
    repeat split; try assumption; [|lia|apply (suffix_byte_list _ _ _ Hl Hpre)].
    change (2 ^ 29) with 536870912 in HM. rewrite pow_2_32. lia.
  - destruct l as [|c l0]; [discriminate|]. destruct (c =? 192).
    + injection H as <- <-. cbn [set_cavs tk_kid tk_rnd tk_tail tk_ver tk_loc tk_cavs].
      repeat split; try assumption; [constructor|cbn [List.length] in *; lia|].
      apply (suffix_byte_list _ [c] _ Hl eq_refl).
    + destruct (dec_set_rest dc (c :: l0)) as [[cs r1]|] eqn:E; [|discriminate].
      cbn [option_map fst snd] in H. injection H as <- <-.
      destruct (dec_set_rest_good dc Hdc _ _ _ Hl ltac:(lia) E) as (Hg & Hsz' & (pre & Hpre & _)).
      cbn [set_cavs tk_kid tk_rnd tk_tail tk_ver tk_loc tk_cavs]. rewrite app_length.
      repeat split; try assumption; [apply Forall_app; split; assumption|lia|apply (suffix_byte_list _ _ _ Hl Hpre)].
  - destruct (dec_bytes_len l) as [[o r1]|] eqn:E; [|discriminate].
    cbn [option_map fst snd] in H. injection H as <- <-.
    destruct (dec_bytes_len_consumes _ _ _ E) as (pre & Hpre & _). pose proof (suffix_le _ _ _ Hpre).
    cbn [set_tail tk_kid tk_rnd tk_tail tk_ver tk_loc tk_cavs].
    repeat split; try assumption; [apply (dec_bytes_len_wf _ _ _ Hl E)|lia|apply (suffix_byte_list _ _ _ Hl Hpre)].
Qed.

Lemma dec_tfields_inv legacy dc M fs : dc_good dc -> N.of_nat M < 2 ^ 29 ->
  forall t l t' r, dec_tfields legacy dc fs t l = Some (t', r) -> tinv M t l -> tinv M t' r.
Proof.
  intros Hdc HM. induction fs as [|f fs IH]; intros t l t' r; cbn [dec_tfields].
  - intros H. injection H as <- <-. exact (fun H => H).
  - destruct (dec_tfield legacy dc f t l) as [[t1 r1]|] eqn:E; [|discriminate].
    intros H Hi. apply (IH _ _ _ _ H). apply (dec_tfield_inv _ _ _ _ _ _ _ _ Hdc HM E Hi).
Qed.

Lemma dec_tok_entries_inv legacy dc M n : dc_good dc -> N.of_nat M < 2 ^ 29 ->
  forall t l t' r, dec_tok_entries legacy dc n t l = Some (t', r) -> tinv M t l -> tinv M t' r.
Proof.
  intros Hdc HM. induction n as [|n IH]; intros t l t' r; cbn [dec_tok_entries].
  - intros H. injection H as <- <-. exact (fun H => H).
  - destruct (dec_str_len l) as [[name r1]|] eqn:En; [|discriminate].
    destruct (dec_str_len_consumes _ _ _ En) as (pre & Hpre & _). pose proof (suffix_le _ _ _ Hpre) as Hle.
    assert (Hstep : tinv M t l -> tinv M t r1).
    { intros (Hk & Hr & Htl & Hv & Hloc & Hcs & Hsz & Hl). repeat split; try assumption; [lia|apply (suffix_byte_list _ _ _ Hl Hpre)]. }
    destruct (tok_field name) as [f|].
    + destruct (dec_tfield legacy dc f t r1) as [[t1 r2]|] eqn:E; [|discriminate].
      intros H Hi. apply (IH _ _ _ _ H). apply (dec_tfield_inv _ _ _ _ _ _ _ _ Hdc HM E (Hstep Hi)).
    + destruct (skip (S (List.length r1)) r1) as [r2|] eqn:Es; [|discriminate].
      intros H Hi. apply (IH _ _ _ _ H). destruct (skip_suffix _ _ _ Es) as (p2 & Hp2 & _).
      pose proof (suffix_le _ _ _ Hp2). destruct (Hstep Hi) as (Hk & Hr & Htl & Hv & Hloc & Hcs & Hsz & Hl).
      repeat split; try assumption; [lia|apply (suffix_byte_list _ _ _ Hl Hp2)].
Qed.

Lemma tok_zero_inv M l : (List.length l <= M)%nat -> byte_list l -> tinv M tok_zero l.
Proof. intros H Hl. repeat split; try exact I; cbn; auto; try lia. Qed.

Lemma dec_token_rest_inv legacy dc l t r : dc_good dc -> byte_list l -> N.of_nat (List.length l) < 2 ^ 29 ->
  dec_token_rest legacy dc l = Some (t, r) -> tinv (List.length l) t r.
Proof.
  intros Hdc Hl Hlen. unfold dec_token_rest. destruct l as [|c l0]; [discriminate|].
  assert (Hl0 : byte_list l0) by apply (suffix_byte_list _ [c] _ Hl eq_refl).
  assert (Hmap : forall n l1, (List.length l1 <= List.length (c :: l0))%nat -> byte_list l1 ->
                 dec_tok_map legacy dc n l1 = Some (t, r) -> tinv (List.length (c :: l0)) t r).
  { intros n l1 Hle Hl1. unfold dec_tok_map. destruct (N.of_nat (List.length l1) <? 2 * n); [discriminate|].
    intros H. apply (dec_tok_entries_inv _ _ _ _ Hdc Hlen _ _ _ _ H). apply tok_zero_inv; assumption. }
  destruct (c =? 192). { intros H. injection H as <- <-. apply tok_zero_inv; [cbn [List.length]; lia|exact Hl0]. }
  destruct ((128 <=? c) && (c <=? 143)). { apply Hmap; [cbn [List.length]; lia|exact Hl0]. }
  destruct (c =? 222).
  { destruct (take 2 l0) as [[lb r1]|] eqn:Et; [|discriminate]. apply take_Some in Et. destruct Et as [Ht _].
    apply Hmap; [apply suffix_le in Ht; cbn [List.length]; lia|apply (suffix_byte_list _ _ _ Hl0 Ht)]. }
  destruct (c =? 223).
  { destruct (take 4 l0) as [[lb r1]|] eqn:Et; [|discriminate]. apply take_Some in Et. destruct Et as [Ht _].
    apply Hmap; [apply suffix_le in Ht; cbn [List.length]; lia|apply (suffix_byte_list _ _ _ Hl0 Ht)]. }
  destruct (dec_arr_hdr (c :: l0)) as [[n r1]|] eqn:Eh; [|discriminate].
  destruct (dec_arr_hdr_consumes _ _ _ Eh) as (p1 & Hp1 & _). pose proof (suffix_le _ _ _ Hp1) as Hle.
  pose proof (suffix_byte_list _ _ _ Hl Hp1) as Hr1.
  destruct (n =? 0). { intros H. injection H as <- <-. apply tok_zero_inv; assumption. }
  destruct (n =? 4); [|discriminate].
  intros H. apply (dec_tfields_inv _ _ _ _ Hdc Hlen _ _ _ _ H). apply tok_zero_inv; assumption.
Qed.

Theorem dec_token_good_l ext pz b t : byte_list b -> N.of_nat (List.length b) < 2 ^ 29 ->
  dec_token_gen false ext pz b = Some t -> tok_good t.
Proof.
  intros Hb Hlen H. pose proof (dec_token_v0_not_proof _ _ _ _ H) as Hv0. unfold dec_token_gen in H.
  destruct (dec_token_rest false (dec_cav ext pz (S (List.length b))) b) as [[t' r]|] eqn:E; [|discriminate].
  cbn [option_map fst] in H. injection H as ->.
  destruct (dec_token_rest_inv _ _ _ _ _ (dec_cav_dc_good ext pz _) Hb Hlen E) as (Hk & Hr & Htl & Hv & Hloc & Hcs & Hsz & _).
  repeat split; try assumption.
  - revert Hcs. apply Forall_impl. intros c [Hw _]. exact Hw.
  - revert Hcs. apply Forall_impl. intros c [_ Hc]. exact Hc.
  - apply (len29_31 _ _ Hlen). lia.
Qed.

(* THE statement: whatever bytes are accepted, the token the verifier then acts on has a canonical encoding (the one whose
   nonce and caveats are signed), and that encoding decodes to exactly this token - the proof flag, the nonce version, the
   key id, the location, every caveat and the tail included *)
Theorem dec_token_reenc_l ext pz b t : byte_list b -> N.of_nat (List.length b) < 2 ^ 29 ->
  dec_token_gen false ext pz b = Some t ->
  exists b', enc_tok t = Some b' /\ dec_token_gen false ext pz b' = Some t.
Proof.
  intros Hb Hlen H. pose proof (dec_token_good_l _ _ _ _ Hb Hlen H) as Hg.
  destruct Hg as (Hk & Hr & Htl & Hv & Hp & Hloc & Hwf & Hcan & Hn).
  destruct (wf_enc_set _ Hwf) as (s & Hs).
  assert (He : exists b', enc_tok t = Some b').
  { unfold enc_tok, enc_token. rewrite Hs. cbn [option_map]. eauto. }
  destruct He as (b' & Hb'). exists b'. split; [exact Hb'|].
  apply dec_token_enc_tok_l; [|exact Hb']. repeat split; assumption.
Qed.

(* two accepted inputs whose canonical re-encodings agree were decoded to the same token *)
Corollary dec_token_reenc_inj ext pz b1 b2 t1 t2 :
  byte_list b1 -> N.of_nat (List.length b1) < 2 ^ 29 -> byte_list b2 -> N.of_nat (List.length b2) < 2 ^ 29 ->
  dec_token_gen false ext pz b1 = Some t1 -> dec_token_gen false ext pz b2 = Some t2 -> enc_tok t1 = enc_tok t2 -> t1 = t2.
Proof.
  intros H1 L1 H2 L2 D1 D2 He.
  destruct (dec_token_reenc_l _ _ _ _ H1 L1 D1) as (c1 & E1 & R1).
  destruct (dec_token_reenc_l _ _ _ _ H2 L2 D2) as (c2 & E2 & R2).
  rewrite He, E2 in E1. injection E1 as ->. rewrite R1 in R2. injection R2 as ->. reflexivity.
Qed.

Print Assumptions dec_token_v0_not_proof.
Print Assumptions dec_token_good_l.
Print Assumptions dec_token_reenc_l.
Print Assumptions dec_token_reenc_inj.
Print Assumptions dec_token_enc_tok_l.
Print Assumptions legacy_nonce_keeps_proof_refuted.
Print Assumptions repaired_nonce_on_f16.
