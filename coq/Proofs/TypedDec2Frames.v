(* The typed decoder and the frame-level decoder (Codec.dec_frames_len: type, then the span Decoder.Skip finds):
   - without the ext-header leniency of DecodeMapLen ([ext] = false) every typed decoder reads exactly ONE msgpack value, the
     one Skip would skip (vspan); hence whatever the typed set decoder accepts, the frame decoder accepts with the same types
     (dec_set_typed_frames_l);
   - the ext-header leniency only accepts more (dec_set_typed_ext_mono_l), and what it accepts in addition is NOT always
     delimited the way Skip delimits it: a resource set behind an ext header is read as ONE value by the typed decoder and
     as TWO by Skip (frames_disagree_with_ext_header);
   - fuel: if any fuel lets the decoder of one caveat succeed, the length of the input does (dec_cav_fuel_enough_l). *)
From Coq Require Import List Bool NArith ZArith String Ascii Lia ZifyN ZifyNat ZifyBool Sorted.
From Mac Require Import Model.Caveat Model.Msgpack Model.Codec Model.TypedDec Model.TypedDec2
  Proofs.CavInd Proofs.CodecProofs Proofs.CodecProofs2 Proofs.LenientProofs Proofs.TypedDecProofs Proofs.TypedDec2Proofs
  Proofs.TypedDec2Accept.
Import ListNotations.
Ltac Zify.zify_post_hook ::= Z.div_mod_to_equations.
Local Open Scope N_scope.

(* the decoder reads one value (as Skip delimits values) *)
Definition vspan {A} (dec : bytes -> option (A * bytes)) : Prop :=
  forall l a r, dec l = Some (a, r) -> exists pre, l = pre ++ r /\ isval pre.
(* [l] is n values followed by [r] *)
Definition vseq (n : nat) (l r : bytes) : Prop :=
  exists vs, l = List.concat vs ++ r /\ List.length vs = n /\ Forall isval vs.

Lemma vseq_nil r : vseq 0 r r.
Proof. exists []. split; [reflexivity|]. split; [reflexivity|constructor]. Qed.
Lemma vseq_cons n pre l r : isval pre -> vseq n l r -> vseq (S n) (pre ++ l) r.
Proof.
  intros Hp (vs & -> & Hn & Hvs). exists (pre :: vs). split; [cbn [List.concat]; rewrite app_assoc; reflexivity|].
  split; [cbn [List.length]; lia|constructor; assumption].
Qed.
Lemma vseq_cons2 n p1 p2 l r : isval p1 -> isval p2 -> vseq n l r -> vseq (S (S n)) (p1 ++ p2 ++ l) r.
Proof. intros H1 H2 H. apply vseq_cons; [exact H1|]. apply vseq_cons; assumption. Qed.

(* ------------------------------------------------------------------------------------------ *)
(* single codes                                                                                *)

Lemma isval_rest c : classify c = ShRest -> isval [c].
Proof. intros Hc. exists 1%nat. apply skip_rest, Hc. Qed.

Lemma vspan_rest c r : classify c = ShRest -> exists pre, c :: r = pre ++ r /\ isval pre.
Proof. intros Hc. exists [c]. split; [reflexivity|apply isval_rest, Hc]. Qed.

Lemma vspan_take {A} c k (f : N -> A) l a r : classify c = ShTake k -> rd_be k f l = Some (a, r) ->
  exists pre, c :: l = pre ++ r /\ isval pre.
Proof.
  intros Hc H. apply rd_be_Some in H. destruct H as (p & -> & Hk & _).
  exists (c :: p). split; [reflexivity|]. exists 1%nat. rewrite <- (app_nil_r p). apply (skip_take 0 c k); assumption.
Qed.

Lemma isval_lp c k (lb p : bytes) : classify c = ShLp k 0 -> N.of_nat (List.length lb) = k ->
  N.of_nat (List.length p) = be_val lb 0 -> isval (c :: lb ++ p).
Proof.
  intros Hc Hk Hp. exists 1%nat. rewrite skip_S, Hc. cbn [run]. unfold skip_lp.
  rewrite take_app by exact Hk. rewrite <- (app_nil_r p). rewrite take_app by lia. reflexivity.
Qed.

Ltac code_eq c k := let Hne := fresh "Hne" in destruct (N.eqb_spec c k) as [->|Hne].

Lemma dec_uint_len_vspan : vspan dec_uint_len.
Proof.
  intros l n r. rewrite dec_uint_len_eq. destruct l as [|c l0]; [discriminate|].
  destruct (N.leb_spec c 127) as [Hb1|Hb1]. { intros H. injection H as _ <-. apply vspan_rest, classify_posfix. lia. }
  code_eq c 192. { intros H. injection H as _ <-. apply vspan_rest. reflexivity. }
  destruct (N.leb_spec 224 c) as [Hb2|Hb2]. { intros H. assert (r = l0) by congruence. subst r. apply vspan_rest, classify_negfix. lia. }
  code_eq c 204. { apply (vspan_take 204 1). reflexivity. }
  code_eq c 205. { apply (vspan_take 205 2). reflexivity. }
  code_eq c 206. { apply (vspan_take 206 4). reflexivity. }
  code_eq c 207. { apply (vspan_take 207 8). reflexivity. }
  code_eq c 208. { apply (vspan_take 208 1). reflexivity. }
  code_eq c 209. { apply (vspan_take 209 2). reflexivity. }
  code_eq c 210. { apply (vspan_take 210 4). reflexivity. }
  code_eq c 211. { apply (vspan_take 211 8). reflexivity. }
  discriminate.
Qed.

Lemma dec_int64_len_vspan : vspan dec_int64_len.
Proof.
  intros l n r. destruct l as [|c l0]; [discriminate|]. cbn [dec_int64_len].
  destruct (N.leb_spec c 127) as [Hb3|Hb3]. { intros H. injection H as _ <-. apply vspan_rest, classify_posfix. lia. }
  code_eq c 192. { intros H. injection H as _ <-. apply vspan_rest. reflexivity. }
  destruct (N.leb_spec 224 c) as [Hb4|Hb4]. { intros H. injection H as _ <-. apply vspan_rest, classify_negfix. lia. }
  code_eq c 204. { apply (vspan_take 204 1). reflexivity. }
  code_eq c 205. { apply (vspan_take 205 2). reflexivity. }
  code_eq c 206. { apply (vspan_take 206 4). reflexivity. }
  code_eq c 207. { apply (vspan_take 207 8). reflexivity. }
  code_eq c 208. { apply (vspan_take 208 1). reflexivity. }
  code_eq c 209. { apply (vspan_take 209 2). reflexivity. }
  code_eq c 210. { apply (vspan_take 210 4). reflexivity. }
  code_eq c 211. { apply (vspan_take 211 8). reflexivity. }
  discriminate.
Qed.

Definition blen_tail (x : option (option N * bytes)) : option (option bytes * bytes) :=
  match x with
  | None => None
  | Some (None, r) => Some (None, r)
  | Some (Some n, r) => match take n r with Some (p, r') => Some (Some p, r') | None => None end
  end.
Lemma dec_bytes_len_tail l : dec_bytes_len l = blen_tail (dec_blen l).
Proof. reflexivity. Qed.

Lemma blen_tail_lp c k l0 o r : classify c = ShLp k 0 -> blen_tail (rd_be k Some l0) = Some (o, r) ->
  exists pre, c :: l0 = pre ++ r /\ isval pre.
Proof.
  intros Hc. unfold blen_tail. destruct (rd_be k Some l0) as [[[n|] r1]|] eqn:E; [| |discriminate].
  - destruct (take n r1) as [[p r2]|] eqn:E2; [|discriminate]. intros H. injection H as _ <-.
    apply rd_be_Some in E. destruct E as (lb & -> & Hk & Hn). injection Hn as ->.
    apply take_Some in E2. destruct E2 as [-> Hp]. exists (c :: lb ++ p).
    split; [cbn [app]; rewrite <- app_assoc; reflexivity|]. apply (isval_lp c k); assumption.
  - apply rd_be_Some in E. destruct E as (lb & _ & _ & Hn). discriminate.
Qed.

Lemma dec_bytes_len_vspan : vspan dec_bytes_len.
Proof.
  intros l o r. rewrite dec_bytes_len_tail. destruct l as [|c l0]; [discriminate|]. cbn [dec_blen].
  code_eq c 192. { cbn [blen_tail]. intros H. injection H as _ <-. apply vspan_rest. reflexivity. }
  destruct (N.leb_spec 160 c) as [Hf1|Hf1]; destruct (N.leb_spec c 191) as [Hf2|Hf2]; cbn [andb].
  { (* fixstr *)
    cbn [blen_tail]. destruct (take (c - 160) l0) as [[p r1]|] eqn:E; [|discriminate]. intros H. injection H as _ <-.
    apply take_Some in E. destruct E as [-> Hk]. exists (c :: p). split; [reflexivity|].
    exists 1%nat. rewrite <- (app_nil_r p). apply (skip_take 0 c (c - 160)); [apply classify_fixstr; lia|exact Hk]. }
  all: code_eq c 217; [apply (blen_tail_lp 217 1); reflexivity|].
  all: code_eq c 196; [apply (blen_tail_lp 196 1); reflexivity|]; cbn [orb].
  all: code_eq c 218; [apply (blen_tail_lp 218 2); reflexivity|].
  all: code_eq c 197; [apply (blen_tail_lp 197 2); reflexivity|]; cbn [orb].
  all: code_eq c 219; [apply (blen_tail_lp 219 4); reflexivity|].
  all: code_eq c 198; [apply (blen_tail_lp 198 4); reflexivity|]; cbn [orb blen_tail]; discriminate.
Qed.

Lemma dec_str_len_vspan : vspan dec_str_len.
Proof.
  intros l p r. unfold dec_str_len. destruct (dec_bytes_len l) as [[[q|] r1]|] eqn:E; [| |discriminate];
    intros H; injection H as _ <-; apply (dec_bytes_len_vspan _ _ _ E).
Qed.

Lemma dec_bool_len_vspan : vspan dec_bool_len.
Proof.
  intros l b r. destruct l as [|c l0]; [discriminate|]. cbn [dec_bool_len].
  destruct (N.eqb_spec c 192) as [->|Hn1]. { intros H. injection H as _ <-. apply vspan_rest. reflexivity. }
  destruct (N.eqb_spec c 194) as [->|Hn2]. { intros H. injection H as _ <-. apply vspan_rest. reflexivity. }
  cbn [orb]. destruct (N.eqb_spec c 195) as [->|Hn3]; [|discriminate]. intros H. injection H as _ <-. apply vspan_rest. reflexivity.
Qed.

(* ------------------------------------------------------------------------------------------ *)
(* containers: any array / map header the decoders take, followed by the announced number of values *)

Lemma skip_many_seq n l r : vseq n l r -> forall f, (List.length l <= f)%nat -> skip_many (skip f) (N.of_nat n) l = Some r.
Proof.
  intros (vs & -> & Hn & Hvs) f Hf. apply skip_many_vals; [f_equal; exact Hn|exact Hvs|exact Hf].
Qed.

Lemma vseq_suffix n l r : vseq n l r -> exists p, l = p ++ r.
Proof. intros (vs & -> & _). eauto. Qed.

Lemma isval_arr_any l n r0 r : dec_arr_hdr l = Some (n, r0) -> vseq (N.to_nat n) r0 r ->
  exists pre, l = pre ++ r /\ isval pre.
Proof.
  intros Hh Hs. destruct (vseq_suffix _ _ _ Hs) as (p & Hp).
  assert (Hm : forall f, (List.length r0 <= f)%nat -> skip_many (skip f) n r0 = Some r).
  { intros f Hf. rewrite <- (N2Nat.id n). apply skip_many_seq; assumption. }
  rewrite dec_arr_hdr_eq in Hh. destruct l as [|c l0]; [discriminate|].
  assert (Hcut : forall pre0 : bytes, skip (S (List.length r0)) (pre0 ++ r0) = Some r -> pre0 ++ r0 = (pre0 ++ p) ++ r /\
            isval (pre0 ++ p)).
  { intros pre0 Hsk. split; [rewrite Hp, app_assoc; reflexivity|].
    rewrite Hp, app_assoc in Hsk. destruct (skip_cuts _ _ _ _ Hsk (Nat.le_refl _)) as (r1 & Hr1 & Hsk1).
    assert (r1 = []).
    { assert (Hl : List.length r = List.length (r1 ++ r)) by (rewrite <- Hr1; reflexivity).
      rewrite app_length in Hl. destruct r1; [reflexivity|cbn [List.length] in Hl; lia]. }
    subst r1. eexists. exact Hsk1. }
  destruct (N.leb_spec 144 c) as [Hb7|Hb7]; destruct (N.leb_spec c 159) as [Hb8|Hb8]; cbn [andb] in Hh.
  { injection Hh as <- <-. exists ([c] ++ p). apply (Hcut [c]). cbn [app].
    rewrite skip_S, classify_fixarr by lia. cbn [run]. apply Hm. lia. }
  all: revert Hh; code_eq c 220;
    [intros Hh; apply rd_be_Some in Hh; destruct Hh as (lb & -> & Hk & ->);
     exists ((220 :: lb) ++ p); rewrite app_comm_cons; apply (Hcut (220 :: lb)); cbn [app];
     rewrite skip_S; change (classify 220) with (ShArr 2 (fun x => x)); cbn [run]; unfold skip_arrlen;
     rewrite take_app by exact Hk; apply Hm; lia|].
  all: code_eq c 221;
    [intros Hh; apply rd_be_Some in Hh; destruct Hh as (lb & -> & Hk & ->);
     exists ((221 :: lb) ++ p); rewrite app_comm_cons; apply (Hcut (221 :: lb)); cbn [app];
     rewrite skip_S; change (classify 221) with (ShArr 4 (fun x => x)); cbn [run]; unfold skip_arrlen;
     rewrite take_app by exact Hk; apply Hm; lia|discriminate].
Qed.

Lemma isval_map_any c t n r0 r : maplen_code c t = Some (Some n, r0) -> vseq (2 * N.to_nat n) r0 r ->
  exists pre, c :: t = pre ++ r /\ isval pre.
Proof.
  intros Hh Hs. destruct (vseq_suffix _ _ _ Hs) as (p & Hp).
  assert (Hm : forall f, (List.length r0 <= f)%nat -> skip_many (skip f) (2 * n) r0 = Some r).
  { intros f Hf. replace (2 * n) with (N.of_nat (2 * N.to_nat n)) by lia. apply skip_many_seq; assumption. }
  assert (Hcut : forall pre0 : bytes, skip (S (List.length r0)) (pre0 ++ r0) = Some r -> pre0 ++ r0 = (pre0 ++ p) ++ r /\
            isval (pre0 ++ p)).
  { intros pre0 Hsk. split; [rewrite Hp, app_assoc; reflexivity|].
    rewrite Hp, app_assoc in Hsk. destruct (skip_cuts _ _ _ _ Hsk (Nat.le_refl _)) as (r1 & Hr1 & Hsk1).
    assert (r1 = []).
    { assert (Hl : List.length r = List.length (r1 ++ r)) by (rewrite <- Hr1; reflexivity).
      rewrite app_length in Hl. destruct r1; [reflexivity|cbn [List.length] in Hl; lia]. }
    subst r1. eexists. exact Hsk1. }
  unfold maplen_code in Hh. revert Hh. code_eq c 192; [discriminate|].
  destruct (N.leb_spec 128 c) as [Hb9|Hb9]; destruct (N.leb_spec c 143) as [Hb10|Hb10]; cbn [andb].
  { intros Hh. injection Hh as <- <-. exists ([c] ++ p). apply (Hcut [c]). cbn [app].
    rewrite skip_S, classify_fixmap by lia. cbn [run]. apply Hm. lia. }
  all: code_eq c 222;
    [intros Hh; apply rd_be_Some in Hh; destruct Hh as (lb & -> & Hk & Hn); injection Hn as ->;
     exists ((222 :: lb) ++ p); rewrite app_comm_cons; apply (Hcut (222 :: lb)); cbn [app];
     rewrite skip_S; change (classify 222) with (ShArr 2 (fun x => 2 * x)); cbn [run]; unfold skip_arrlen;
     rewrite take_app by exact Hk; apply Hm; lia|].
  all: code_eq c 223;
    [intros Hh; apply rd_be_Some in Hh; destruct Hh as (lb & -> & Hk & Hn); injection Hn as ->;
     exists ((223 :: lb) ++ p); rewrite app_comm_cons; apply (Hcut (223 :: lb)); cbn [app];
     rewrite skip_S; change (classify 223) with (ShArr 4 (fun x => 2 * x)); cbn [run]; unfold skip_arrlen;
     rewrite take_app by exact Hk; apply Hm; lia|discriminate].
Qed.

(* the skip the map form of a struct uses for unknown keys *)
Lemma skip_len_vspan r r' : skip (S (List.length r)) r = Some r' -> exists pre, r = pre ++ r' /\ isval pre.
Proof.
  intros H. destruct (skip_suffix _ _ _ H) as (pre & Hp & _). exists pre. split; [exact Hp|].
  pose proof (skip_span_isval _ _ _ H) as Hv. rewrite Hp, firstn_app_exact in Hv. exact Hv.
Qed.

(* ------------------------------------------------------------------------------------------ *)
(* the scalar-bodied types (Model.TypedDec)                                                    *)

Lemma dec_field_vspan k : vspan (dec_field k).
Proof.
  intros l v r. destruct k as [bits| |]; cbn [dec_field]; unfold dec_uint64_len.
  - destruct (dec_uint_len l) as [[n r1]|] eqn:E; [|discriminate]. cbn [option_map fst snd]. intros H. injection H as _ <-.
    apply (dec_uint_len_vspan _ _ _ E).
  - destruct (dec_int64_len l) as [[n r1]|] eqn:E; [|discriminate]. cbn [option_map fst snd]. intros H. injection H as _ <-.
    apply (dec_int64_len_vspan _ _ _ E).
  - destruct (dec_str_len l) as [[n r1]|] eqn:E; [|discriminate]. cbn [option_map fst snd]. intros H. injection H as _ <-.
    apply (dec_str_len_vspan _ _ _ E).
Qed.

Lemma dec_fields_vseq ks : forall l vs r, dec_fields ks l = Some (vs, r) -> vseq (List.length ks) l r.
Proof.
  induction ks as [|k ks IH]; intros l vs r; cbn [dec_fields].
  - intros H. injection H as _ <-. apply vseq_nil.
  - destruct (dec_field k l) as [[v r1]|] eqn:E; [|discriminate].
    destruct (dec_fields ks r1) as [[vs' r2]|] eqn:E2; [|discriminate]. intros H. injection H as _ <-.
    destruct (dec_field_vspan _ _ _ _ E) as (p1 & -> & Hv). cbn [List.length]. apply vseq_cons; [exact Hv|]. apply (IH _ _ _ E2).
Qed.

Lemma dec_map_entries_vseq sch n : forall vs l vs' r, dec_map_entries sch n vs l = Some (vs', r) -> vseq (2 * n) l r.
Proof.
  induction n as [|n IH]; intros vs l vs' r; cbn [dec_map_entries].
  - intros H. injection H as _ <-. apply vseq_nil.
  - destruct (dec_str_len l) as [[name r1]|] eqn:E; [|discriminate].
    destruct (dec_str_len_vspan _ _ _ E) as (p1 & -> & Hv1).
    replace (2 * S n)%nat with (S (S (2 * n))) by lia.
    destruct (find_field sch name 0) as [[i k]|].
    + destruct (dec_field k r1) as [[v r2]|] eqn:E2; [|discriminate].
      destruct (dec_field_vspan _ _ _ _ E2) as (p2 & -> & Hv2). intros H. apply vseq_cons2; [exact Hv1|exact Hv2|apply (IH _ _ _ _ H)].
    + destruct (skip (S (List.length r1)) r1) as [r2|] eqn:E2; [|discriminate].
      destruct (skip_len_vspan _ _ E2) as (p2 & -> & Hv2). intros H. apply vseq_cons2; [exact Hv1|exact Hv2|apply (IH _ _ _ _ H)].
Qed.

Lemma dec_struct_vspan sch : vspan (dec_struct sch).
Proof.
  intros l vs r. destruct l as [|c l0]; [discriminate|]. unfold dec_struct.
  assert (Hmap : forall n t r0, maplen_code c t = Some (Some n, r0) -> c :: l0 = c :: t -> dec_map sch n r0 = Some (vs, r) ->
            exists pre, c :: l0 = pre ++ r /\ isval pre).
  { intros n t r0 Hc Heq H. rewrite Heq. apply (isval_map_any _ _ _ _ _ Hc).
    unfold dec_map in H. destruct (N.of_nat (List.length r0) <? 2 * n); [discriminate|].
    apply (dec_map_entries_vseq _ _ _ _ _ _ H). }
  code_eq c 192. { intros H. injection H as _ <-. apply vspan_rest. reflexivity. }
  destruct ((128 <=? c) && (c <=? 143)) eqn:Efix.
  { apply (Hmap _ l0); [|reflexivity]. unfold maplen_code. destruct (N.eqb_spec c 192); [contradiction|]. rewrite Efix. reflexivity. }
  code_eq c 222.
  { destruct (take 2 l0) as [[lb r1]|] eqn:E; [|discriminate]. apply (Hmap _ l0); [|reflexivity].
    rewrite maplen_code_222. unfold rd_be. change (N.of_nat 2) with 2. rewrite E. reflexivity. }
  code_eq c 223.
  { destruct (take 4 l0) as [[lb r1]|] eqn:E; [|discriminate]. apply (Hmap _ l0); [|reflexivity].
    rewrite maplen_code_223. unfold rd_be. change (N.of_nat 4) with 4. rewrite E. reflexivity. }
  destruct (dec_arr_hdr (c :: l0)) as [[n r1]|] eqn:E; [|discriminate].
  destruct (N.eqb_spec n 0) as [->|Hn0].
  { intros H. injection H as _ <-. apply (isval_arr_any _ _ _ _ E). apply vseq_nil. }
  destruct (N.eqb_spec n (N.of_nat (List.length sch))) as [->|Hn1]; [|discriminate].
  intros H. apply (isval_arr_any _ _ _ _ E). rewrite Nat2N.id. apply dec_fields_vseq in H. rewrite map_length in H. exact H.
Qed.

Lemma bare_uint_vspan bits K : vspan (bare_uint bits K).
Proof.
  intros l c r. unfold bare_uint, dec_uint64_len. destruct (dec_uint_len l) as [[n r1]|] eqn:E; [|discriminate].
  cbn [option_map fst snd]. intros H. injection H as _ <-. apply (dec_uint_len_vspan _ _ _ E).
Qed.

Ltac struct_vspan sch b :=
  let E := fresh "E" in let vs := fresh "vs" in let r1 := fresh "r1" in
  destruct (dec_struct sch b) as [[vs r1]|] eqn:E; [|discriminate];
  apply dec_struct_vspan in E;
  repeat match goal with |- match ?v with _ => _ end = _ -> _ => is_var v; destruct v end;
  try discriminate;
  let H := fresh "H" in intros H; injection H as _ <-; exact E.

Lemma dec_body_rest_vspan ty : vspan (dec_body_rest ty).
Proof.
  intros b c r. unfold dec_body_rest.
  destruct (ty =? 0). { struct_vspan sch_org b. }
  destruct (ty =? 4). { struct_vspan sch_vw b. }
  destruct (ty =? 8). { struct_vspan sch_id b. }
  destruct (ty =? 9). { struct_vspan sch_id b. }
  destruct (ty =? 10). { struct_vspan sch_id b. }
  destruct (ty =? 12).
  { destruct (dec_bytes_len b) as [[o r1]|] eqn:E; [|discriminate]. apply dec_bytes_len_vspan in E.
    cbn [option_map fst snd]. intros H. injection H as _ <-. exact E. }
  destruct (ty =? 15). { struct_vspan sch_sid b. }
  destruct (ty =? 19).
  { destruct (dec_str_len b) as [[p r1]|] eqn:E; [|discriminate]. apply dec_str_len_vspan in E.
    cbn [option_map fst snd]. intros H. injection H as _ <-. exact E. }
  destruct (ty =? 20). { apply bare_uint_vspan. }
  destruct (ty =? 21). { apply bare_uint_vspan. }
  destruct (ty =? 22). { struct_vspan sch_none b. }
  destruct (ty =? 23). { apply bare_uint_vspan. }
  destruct (ty =? 24). { apply bare_uint_vspan. }
  destruct (ty =? 25).
  { destruct (dec_bytes_len b) as [[[p|] r1]|] eqn:E; [| |discriminate]; apply dec_bytes_len_vspan in E;
      intros H; injection H as _ <-; exact E. }
  destruct (ty =? 26). { apply bare_uint_vspan. }
  destruct (ty =? 30). { apply bare_uint_vspan. }
  destruct (ty =? 31). { struct_vspan sch_src b. }
  discriminate.
Qed.

(* ------------------------------------------------------------------------------------------ *)
(* the non-scalar types, without the ext-header leniency                                       *)

Lemma dec_maplen_noext l : dec_maplen false l = match l with [] => None | c :: r => maplen_code c r end.
Proof. destruct l; reflexivity. Qed.

Section RSSpan.
  Context {K : Type} (dk : bytes -> option (K * bytes)) (setk : K -> N -> list (K * N) -> list (K * N)).
  Hypothesis dk_vspan : vspan dk.

  Lemma dec_rs_entries_vseq n : forall acc l m r, dec_rs_entries dk setk n acc l = Some (m, r) -> vseq (2 * n) l r.
  Proof.
    induction n as [|n IH]; intros acc l m r; cbn [dec_rs_entries].
    - intros H. injection H as _ <-. apply vseq_nil.
    - destruct (dk l) as [[k r1]|] eqn:Ek; [|discriminate]. destruct (dec_uint_len r1) as [[v r2]|] eqn:Ev; [|discriminate].
      destruct (dk_vspan _ _ _ Ek) as (p1 & -> & Hv1). destruct (dec_uint_len_vspan _ _ _ Ev) as (p2 & -> & Hv2).
      replace (2 * S n)%nat with (S (S (2 * n))) by lia.
      intros H. apply vseq_cons2; [exact Hv1|exact Hv2|apply (IH _ _ _ _ H)].
  Qed.

  Lemma dec_rs_vspan cur : vspan (dec_rs dk setk false cur).
  Proof.
    intros l o r. unfold dec_rs. rewrite dec_maplen_noext. destruct l as [|c t]; [discriminate|].
    destruct (maplen_code c t) as [[[n|] r1]|] eqn:Em; [| |discriminate].
    - destruct (N.of_nat (List.length r1) <? 2 * n); [discriminate|].
      destruct (dec_rs_entries dk setk (N.to_nat n) (rs_list cur) r1) as [[m r2]|] eqn:Ee; [|discriminate].
      intros H. injection H as _ <-. apply (isval_map_any _ _ _ _ _ Em). apply (dec_rs_entries_vseq _ _ _ _ _ Ee).
    - intros H. injection H as _ <-. unfold maplen_code in Em. revert Em.
      destruct (N.eqb_spec c 192) as [->|Hne]. { intros Em. injection Em as <-. apply vspan_rest. reflexivity. }
      destruct ((128 <=? c) && (c <=? 143)); [discriminate|].
      destruct (c =? 222). { intros Em. apply rd_be_Some in Em. destruct Em as (? & _ & _ & ?). discriminate. }
      destruct (c =? 223). { intros Em. apply rd_be_Some in Em. destruct Em as (? & _ & _ & ?). discriminate. }
      discriminate.
  Qed.
End RSSpan.

Lemma dk_s_vspan : vspan dk_s.
Proof.
  intros l k r. unfold dk_s. destruct (dec_str_len l) as [[p r1]|] eqn:E; [|discriminate].
  cbn [option_map fst snd]. intros H. injection H as _ <-. apply (dec_str_len_vspan _ _ _ E).
Qed.

Lemma dec_strs_n_vseq n : forall l ss r, dec_strs_n n l = Some (ss, r) -> vseq n l r.
Proof.
  induction n as [|n IH]; intros l ss r; cbn [dec_strs_n].
  - intros H. injection H as _ <-. apply vseq_nil.
  - destruct (dec_str_len l) as [[s r1]|] eqn:E; [|discriminate].
    destruct (dec_strs_n n r1) as [[ss' r2]|] eqn:E2; [|discriminate]. intros H. injection H as _ <-.
    destruct (dec_str_len_vspan _ _ _ E) as (p1 & -> & Hv). apply vseq_cons; [exact Hv|apply (IH _ _ _ E2)].
Qed.

Lemma dec_strs_len_vspan : vspan dec_strs_len.
Proof.
  intros l o r. unfold dec_strs_len. destruct l as [|c l0]; [discriminate|].
  destruct (N.eqb_spec c 192) as [->|Hne]. { intros H. injection H as _ <-. apply vspan_rest. reflexivity. }
  destruct (dec_arr_hdr (c :: l0)) as [[n r1]|] eqn:Eh; [|discriminate].
  destruct (N.of_nat (List.length r1) <? n); [discriminate|].
  destruct (dec_strs_n (N.to_nat n) r1) as [[ss r2]|] eqn:E; [|discriminate]. intros H. injection H as _ <-.
  apply (isval_arr_any _ _ _ _ Eh). apply (dec_strs_n_vseq _ _ _ _ E).
Qed.

Section StructSpan.
  Variables (pz : bool) (ds : bytes -> option (list cav * bytes)).
  Hypothesis ds_vspan : vspan ds.

  Lemma dec_field2_vspan k cur : vspan (dec_field2 false pz ds k cur).
  Proof.
    intros l v r. destruct k as [| |bits| | | | |]; cbn [dec_field2].
    - destruct (dec_str_len l) as [[p r1]|] eqn:E; [|discriminate]. cbn [option_map fst snd]. intros H. injection H as _ <-.
      apply (dec_str_len_vspan _ _ _ E).
    - destruct (dec_bytes_len l) as [[p r1]|] eqn:E; [|discriminate]. cbn [option_map fst snd]. intros H. injection H as _ <-.
      apply (dec_bytes_len_vspan _ _ _ E).
    - destruct (dec_uint_len l) as [[p r1]|] eqn:E; [|discriminate]. cbn [option_map fst snd]. intros H. injection H as _ <-.
      apply (dec_uint_len_vspan _ _ _ E).
    - destruct (dec_strs_len l) as [[[ss|] r1]|] eqn:E; [| |discriminate]; intros H; injection H as _ <-;
        apply (dec_strs_len_vspan _ _ _ E).
    - destruct (dec_bool_len l) as [[p r1]|] eqn:E; [|discriminate]. cbn [option_map fst snd]. intros H. injection H as _ <-.
      apply (dec_bool_len_vspan _ _ _ E).
    - destruct (dec_rs dk_s set_s false (cur_rs cur) l) as [[o r1]|] eqn:E; [|discriminate].
      cbn [option_map fst snd]. intros H. injection H as _ <-. apply (dec_rs_vspan dk_s set_s dk_s_vspan _ _ _ _ E).
    - destruct (dec_rs dk_n set_n false (cur_rn cur) l) as [[o r1]|] eqn:E; [|discriminate].
      cbn [option_map fst snd]. intros H. injection H as _ <-. apply (dec_rs_vspan dk_n set_n dec_uint_len_vspan _ _ _ _ E).
    - destruct l as [|c l0]; [discriminate|]. destruct (N.eqb_spec c 192) as [->|Hne].
      { intros H. injection H as _ <-. apply vspan_rest. reflexivity. }
      destruct (ds (c :: l0)) as [[cs r1]|] eqn:E; [|discriminate]. cbn [option_map fst snd]. intros H. injection H as _ <-.
      apply (ds_vspan _ _ _ E).
  Qed.

  Lemma dec_fields2_vseq ks : forall l vs r, dec_fields2 false pz ds ks l = Some (vs, r) -> vseq (List.length ks) l r.
  Proof.
    induction ks as [|k ks IH]; intros l vs r; cbn [dec_fields2].
    - intros H. injection H as _ <-. apply vseq_nil.
    - destruct (dec_field2 false pz ds k (fzero2 k) l) as [[v r1]|] eqn:E; [|discriminate].
      destruct (dec_fields2 false pz ds ks r1) as [[vs' r2]|] eqn:E2; [|discriminate]. intros H. injection H as _ <-.
      destruct (dec_field2_vspan _ _ _ _ _ E) as (p1 & -> & Hv). cbn [List.length]. apply vseq_cons; [exact Hv|apply (IH _ _ _ E2)].
  Qed.

  Lemma dec_map_entries2_vseq sch n : forall vs l vs' r,
    dec_map_entries2 false pz ds sch n vs l = Some (vs', r) -> vseq (2 * n) l r.
  Proof.
    induction n as [|n IH]; intros vs l vs' r; cbn [dec_map_entries2].
    - intros H. injection H as _ <-. apply vseq_nil.
    - destruct (dec_str_len l) as [[name r1]|] eqn:E; [|discriminate].
      destruct (dec_str_len_vspan _ _ _ E) as (p1 & -> & Hv1).
      replace (2 * S n)%nat with (S (S (2 * n))) by lia.
      destruct (find_field2 sch name 0) as [[i k]|].
      + destruct (dec_field2 false pz ds k (nth i vs (fzero2 k)) r1) as [[v r2]|] eqn:E2; [|discriminate].
        destruct (dec_field2_vspan _ _ _ _ _ E2) as (p2 & -> & Hv2). intros H.
        apply vseq_cons2; [exact Hv1|exact Hv2|apply (IH _ _ _ _ H)].
      + destruct (skip (S (List.length r1)) r1) as [r2|] eqn:E2; [|discriminate].
        destruct (skip_len_vspan _ _ E2) as (p2 & -> & Hv2). intros H.
        apply vseq_cons2; [exact Hv1|exact Hv2|apply (IH _ _ _ _ H)].
  Qed.

  Lemma dec_struct2_vspan sch : vspan (dec_struct2 false pz ds sch).
  Proof.
    intros l vs r. destruct l as [|c l0]; [discriminate|]. unfold dec_struct2.
    assert (Hmap : forall n t r0, maplen_code c t = Some (Some n, r0) -> c :: l0 = c :: t ->
              dec_map2 false pz ds sch n r0 = Some (vs, r) -> exists pre, c :: l0 = pre ++ r /\ isval pre).
    { intros n t r0 Hc Heq H. rewrite Heq. apply (isval_map_any _ _ _ _ _ Hc).
      unfold dec_map2 in H. destruct (N.of_nat (List.length r0) <? 2 * n); [discriminate|].
      apply (dec_map_entries2_vseq _ _ _ _ _ _ H). }
    code_eq c 192. { intros H. injection H as _ <-. apply vspan_rest. reflexivity. }
    destruct ((128 <=? c) && (c <=? 143)) eqn:Efix.
    { apply (Hmap _ l0); [|reflexivity]. unfold maplen_code. destruct (N.eqb_spec c 192); [contradiction|]. rewrite Efix. reflexivity. }
    code_eq c 222.
    { destruct (take 2 l0) as [[lb r1]|] eqn:E; [|discriminate]. apply (Hmap _ l0); [|reflexivity].
      rewrite maplen_code_222. unfold rd_be. change (N.of_nat 2) with 2. rewrite E. reflexivity. }
    code_eq c 223.
    { destruct (take 4 l0) as [[lb r1]|] eqn:E; [|discriminate]. apply (Hmap _ l0); [|reflexivity].
      rewrite maplen_code_223. unfold rd_be. change (N.of_nat 4) with 4. rewrite E. reflexivity. }
    destruct (dec_arr_hdr (c :: l0)) as [[n r1]|] eqn:E; [|discriminate].
    destruct (N.eqb_spec n 0) as [->|Hn0].
    { intros H. injection H as _ <-. apply (isval_arr_any _ _ _ _ E). apply vseq_nil. }
    destruct (N.eqb_spec n (N.of_nat (List.length sch))) as [->|Hn1]; [|discriminate].
    intros H. apply (isval_arr_any _ _ _ _ E). rewrite Nat2N.id. apply dec_fields2_vseq in H. rewrite map_length in H. exact H.
  Qed.

  Lemma dec_cmds_n_vseq n : forall l cs r, dec_cmds_n false pz ds n l = Some (cs, r) -> vseq n l r.
  Proof.
    induction n as [|n IH]; intros l cs r; cbn [dec_cmds_n].
    - intros H. injection H as _ <-. apply vseq_nil.
    - destruct (dec_struct2 false pz ds sch_cmd l) as [[vs r1]|] eqn:E; [|discriminate].
      destruct (dec_struct2_vspan _ _ _ _ E) as (p1 & -> & Hv).
      destruct vs as [|[| | |a| | | |] [|[| | | |e| | |] [|? ?]]]; try discriminate.
      destruct (dec_cmds_n false pz ds n r1) as [[cs' r2]|] eqn:E2; [|discriminate]. intros H. injection H as _ <-.
      apply vseq_cons; [exact Hv|apply (IH _ _ _ E2)].
  Qed.

  Lemma dec_commands_vspan : vspan (dec_commands false pz ds).
  Proof.
    intros l c r. unfold dec_commands. destruct l as [|x l0]; [discriminate|].
    destruct (N.eqb_spec x 192) as [->|Hne]. { intros H. injection H as _ <-. apply vspan_rest. reflexivity. }
    destruct (dec_arr_hdr (x :: l0)) as [[n r1]|] eqn:Eh; [|discriminate].
    destruct (N.of_nat (List.length r1) <? n); [discriminate|].
    destruct (dec_cmds_n false pz ds (N.to_nat n) r1) as [[cs r2]|] eqn:E; [|discriminate]. intros H. injection H as _ <-.
    apply (isval_arr_any _ _ _ _ Eh). apply (dec_cmds_n_vseq _ _ _ _ E).
  Qed.

  Ltac struct2_vspan sch b :=
    let E := fresh "E" in let vs := fresh "vs" in let r1 := fresh "r1" in
    destruct (dec_struct2 false pz ds sch b) as [[vs r1]|] eqn:E; [|discriminate];
    apply dec_struct2_vspan in E;
    repeat match goal with |- match ?v with _ => _ end = _ -> _ => is_var v; destruct v end;
    try discriminate;
    let H := fresh "H" in intros H; injection H as _ <-; exact E.

  Lemma dec_leaf2_vspan ty : vspan (dec_leaf2 false pz ds ty).
  Proof.
    intros b c r. unfold dec_leaf2, dec_rs_cav.
    destruct (ty =? 2). { struct2_vspan (sch_rs "Volumes") b. }
    destruct (ty =? 3). { struct2_vspan sch_apps b. }
    destruct (ty =? 5). { struct2_vspan (sch_rs "Features") b. }
    destruct (ty =? 6). { struct2_vspan sch_mut b. }
    destruct (ty =? 7). { struct2_vspan (sch_rs "Machines") b. }
    destruct (ty =? 11). { struct2_vspan sch_3p b. }
    destruct (ty =? 13). { struct2_vspan sch_ifp b. }
    destruct (ty =? 14). { struct2_vspan (sch_rs "Features") b. }
    destruct (ty =? 16). { struct2_vspan (sch_rs "Clusters") b. }
    destruct (ty =? 27). { apply dec_commands_vspan. }
    destruct (ty =? 28). { struct2_vspan (sch_rs "Features") b. }
    destruct (ty =? 29). { struct2_vspan (sch_rs "Prefixes") b. }
    discriminate.
  Qed.
End StructSpan.

Lemma dec_unreg_vspan ty : vspan (dec_unreg ty).
Proof.
  intros b c r. unfold dec_unreg. destruct (skip (S (List.length b)) b) as [rest|] eqn:Es; [|discriminate].
  destruct (gen_ok _); [|discriminate]. intros H. injection H as _ <-. apply (skip_len_vspan _ _ Es).
Qed.

Lemma dec_items_vseq dc n : (forall ty, vspan (dc ty)) -> forall l cs r, dec_items dc n l = Some (cs, r) -> vseq (2 * n) l r.
Proof.
  intros Hdc. induction n as [|n IH]; intros l cs r; cbn [dec_items].
  - intros H. injection H as _ <-. apply vseq_nil.
  - destruct (dec_uint_len l) as [[ty r1]|] eqn:Et; [|discriminate].
    destruct (dc ty r1) as [[c r2]|] eqn:Ec; [|discriminate].
    destruct (dec_items dc n r2) as [[cs' r3]|] eqn:Ei; [|discriminate]. intros H. injection H as _ <-.
    destruct (dec_uint_len_vspan _ _ _ Et) as (p1 & -> & Hv1). destruct (Hdc _ _ _ _ Ec) as (p2 & -> & Hv2).
    replace (2 * S n)%nat with (S (S (2 * n))) by lia. apply vseq_cons2; [exact Hv1|exact Hv2|apply (IH _ _ _ Ei)].
Qed.

Lemma dec_set_rest_vspan dc : (forall ty, vspan (dc ty)) -> vspan (dec_set_rest dc).
Proof.
  intros Hdc l cs r. unfold dec_set_rest. destruct (dec_arr_hdr l) as [[n r1]|] eqn:Eh; [|discriminate].
  destruct (N.odd n) eqn:Eo; [discriminate|]. destruct (N.of_nat (List.length r1) <? n); [discriminate|].
  intros H. apply (isval_arr_any _ _ _ _ Eh). apply (dec_items_vseq _ _ Hdc) in H.
  replace (N.to_nat n) with (2 * N.to_nat (n / 2))%nat; [exact H|].
  pose proof (N.div_mod n 2 ltac:(discriminate)) as Hdm. rewrite <- N.bit0_mod, N.bit0_odd, Eo in Hdm. cbn [N.b2n] in Hdm. lia.
Qed.

(* without the ext-header leniency the typed decoder of one caveat reads exactly the value Skip would skip *)
Theorem dec_cav_vspan_l pz fuel : forall ty, vspan (dec_cav false pz fuel ty).
Proof.
  induction fuel as [|f IH]; intros ty b c r; cbn [dec_cav]; [discriminate|].
  destruct (scalar_ty ty). { apply dec_body_rest_vspan. }
  destruct (nonscalar_ty ty). { apply dec_leaf2_vspan. apply dec_set_rest_vspan, IH. }
  apply dec_unreg_vspan.
Qed.

(* ------------------------------------------------------------------------------------------ *)
(* agreement with the frame-level decoder                                                      *)

Lemma dec_frames_len_not_nil c t : c <> 192 ->
  dec_frames_len (c :: t) =
  match dec_arr_hdr (c :: t) with
  | None => None
  | Some (n, r) => if N.odd n then None else if N.of_nat (List.length r) <? n then None
                   else option_map fst (dec_frames_n_len (N.to_nat (n / 2)) r)
  end.
Proof.
  intros Hc. unfold dec_frames_len. destruct c as [|p]; [reflexivity|].
  do 8 (destruct p as [p|p|]; try reflexivity). all: try (exfalso; apply Hc; reflexivity).
Qed.

Lemma dec_items_frames dc n : dc_good dc -> (forall ty, vspan (dc ty)) ->
  forall l cs r, byte_list l -> N.of_nat (List.length l) < 2 ^ 29 -> dec_items dc n l = Some (cs, r) ->
  exists fs, dec_frames_n_len n l = Some (fs, r) /\ map fst fs = map cav_type cs.
Proof.
  intros Hg Hv. induction n as [|n IH]; intros l cs r Hl Hlen; cbn [dec_items dec_frames_n_len].
  - intros H. injection H as <- <-. exists []. auto.
  - destruct (dec_uint_len l) as [[ty r1]|] eqn:Et; [|discriminate].
    destruct (dc ty r1) as [[c r2]|] eqn:Ec; [|discriminate].
    destruct (dec_items dc n r2) as [[cs' r3]|] eqn:Ei; [|discriminate]. intros H. injection H as <- <-.
    destruct (dec_uint_len_consumes _ _ _ Et) as (p1 & Hp1 & _).
    pose proof (consumes_length _ _ _ _ dec_uint_len_consumes Et) as Hlen1.
    pose proof (suffix_byte_list _ _ _ Hl Hp1) as Hr1.
    destruct (Hg _ _ _ _ (dec_uint_len_bound _ _ _ Hl Et) Hr1 ltac:(lia) Ec) as (Hty & _ & _).
    destruct (Hv _ _ _ _ Ec) as (p2 & Hp2 & Hval).
    assert (Hsk : skip (S (List.length r1)) r1 = Some r2).
    { rewrite Hp2 at 2. apply isval_skip; [exact Hval|]. rewrite <- Hp2. lia. }
    rewrite Hsk.
    assert (Hlen2 : (List.length r2 <= List.length r1)%nat) by (rewrite Hp2, app_length; lia).
    destruct (IH _ _ _ (suffix_byte_list _ _ _ Hr1 Hp2) ltac:(lia) Ei) as (fs & Hfs & Hmap).
    rewrite Hfs. eexists. split; [reflexivity|]. cbn [map fst]. rewrite Hty, Hmap. reflexivity.
Qed.

(* whatever the typed set decoder accepts without the ext-header leniency, the frame decoder accepts, with the same types *)
Theorem dec_set_typed_frames_l pz b cs : byte_list b -> N.of_nat (List.length b) < 2 ^ 29 ->
  dec_set_typed_gen false pz b = Some cs ->
  exists fs, dec_frames_len b = Some fs /\ map fst fs = map cav_type cs.
Proof.
  intros Hb Hlen. unfold dec_set_typed_gen. destruct b as [|x b0]; [discriminate|].
  destruct (N.eqb_spec x 192) as [->|Hne]. { intros H. injection H as <-. exists []. split; reflexivity. }
  rewrite dec_frames_len_not_nil by exact Hne.
  destruct (dec_set_rest (dec_cav false pz (S (List.length (x :: b0)))) (x :: b0)) as [[cs' r]|] eqn:E; [|discriminate].
  cbn [option_map fst]. intros H. injection H as ->.
  unfold dec_set_rest in E. destruct (dec_arr_hdr (x :: b0)) as [[n r1]|] eqn:Eh; [|discriminate].
  destruct (N.odd n); [discriminate|]. destruct (N.of_nat (List.length r1) <? n); [discriminate|].
  destruct (dec_arr_hdr_consumes _ _ _ Eh) as (p1 & Hp1 & _).
  pose proof (consumes_length _ _ _ _ dec_arr_hdr_consumes Eh) as Hlen1.
  destruct (dec_items_frames _ _ (dec_cav_dc_good false pz _) (dec_cav_vspan_l pz _) _ _ _
              (suffix_byte_list _ _ _ Hb Hp1) ltac:(lia) E) as (fs & Hfs & Hmap).
  rewrite Hfs. exists fs. split; [reflexivity|exact Hmap].
Qed.

(* with the leniency the two decoders delimit differently: the typed decoder takes the ext header and the map as ONE value,
   Skip takes the ext header with one byte of "payload" (here the map header) as a value of its own.  The library accepts
   94 02 91 d4 00 81 a1 61 01 08 91 05 as [Volumes{a:r}; ConfineUser 5]; the frame decoder refuses it. *)
Example frames_disagree_with_ext_header :
  let b := [148; 2; 145; 212; 0; 129; 161; 97; 1; 8; 145; 5] in
  dec_set_typed b = Some [CVolumes [("a"%string, 1)]; CConfineUser 5] /\ dec_frames_len b = None /\
  dec_set_typed_gen false false b = None.
Proof. vm_compute. repeat split. Qed.

(* ------------------------------------------------------------------------------------------ *)
(* more fuel, or the ext-header leniency switched on, never turns an accepted input into a refused one, nor changes the
   result                                                                                      *)

Definition shrinks {A} (dec : bytes -> option (A * bytes)) : Prop :=
  forall l a r, dec l = Some (a, r) -> (List.length r <= List.length l)%nat.

Lemma consumes_shrinks {A} (dec : bytes -> option (A * bytes)) : consumes dec -> shrinks dec.
Proof. intros Hc l a r H. apply (consumes_length _ _ _ _ Hc) in H. lia. Qed.

Lemma dec_rs_entries_shrinks {K} (dk : bytes -> option (K * bytes)) setk n : consumes dk ->
  forall acc, shrinks (dec_rs_entries dk setk n acc).
Proof.
  intros Hdk. induction n as [|n IH]; intros acc l m r; cbn [dec_rs_entries].
  - intros H. injection H as _ <-. lia.
  - destruct (dk l) as [[k r1]|] eqn:Ek; [|discriminate]. destruct (dec_uint_len r1) as [[v r2]|] eqn:Ev; [|discriminate].
    apply (consumes_length _ _ _ _ Hdk) in Ek. apply (consumes_length _ _ _ _ dec_uint_len_consumes) in Ev.
    intros H. apply IH in H. lia.
Qed.

Lemma dec_rs_shrinks {K} (dk : bytes -> option (K * bytes)) setk ext cur : consumes dk -> shrinks (dec_rs dk setk ext cur).
Proof.
  intros Hdk l o r. unfold dec_rs. destruct (dec_maplen ext l) as [[[n|] r1]|] eqn:Em; [| |discriminate];
    apply (consumes_length _ _ _ _ (dec_maplen_consumes ext)) in Em.
  - destruct (N.of_nat (List.length r1) <? 2 * n); [discriminate|].
    destruct (dec_rs_entries dk setk (N.to_nat n) (rs_list cur) r1) as [[m r2]|] eqn:Ee; [|discriminate].
    apply (dec_rs_entries_shrinks _ _ _ Hdk) in Ee. intros H. injection H as _ <-. lia.
  - intros H. injection H as _ <-. lia.
Qed.

Lemma dec_strs_n_shrinks n : shrinks (dec_strs_n n).
Proof.
  induction n as [|n IH]; intros l ss r; cbn [dec_strs_n].
  - intros H. injection H as _ <-. lia.
  - destruct (dec_str_len l) as [[s r1]|] eqn:E; [|discriminate]. destruct (dec_strs_n n r1) as [[ss' r2]|] eqn:E2; [|discriminate].
    apply (consumes_length _ _ _ _ dec_str_len_consumes) in E. apply IH in E2. intros H. injection H as _ <-. lia.
Qed.

Lemma dec_strs_len_shrinks : shrinks dec_strs_len.
Proof.
  intros l o r. unfold dec_strs_len. destruct l as [|c l0]; [discriminate|].
  destruct (c =? 192). { intros H. injection H as _ <-. cbn [List.length]. lia. }
  destruct (dec_arr_hdr (c :: l0)) as [[n r1]|] eqn:Eh; [|discriminate].
  destruct (N.of_nat (List.length r1) <? n); [discriminate|].
  destruct (dec_strs_n (N.to_nat n) r1) as [[ss r2]|] eqn:E; [|discriminate]. intros H. injection H as _ <-.
  apply (consumes_length _ _ _ _ dec_arr_hdr_consumes) in Eh. apply dec_strs_n_shrinks in E. lia.
Qed.

Section StructShrinks.
  Variables (ext pz : bool) (ds : bytes -> option (list cav * bytes)).
  Hypothesis ds_shrinks : shrinks ds.

  Lemma dec_field2_shrinks k cur : shrinks (dec_field2 ext pz ds k cur).
  Proof.
    intros l v r. destruct k as [| |bits| | | | |]; cbn [dec_field2].
    - destruct (dec_str_len l) as [[p r1]|] eqn:E; [|discriminate]. cbn [option_map fst snd]. intros H. injection H as _ <-.
      apply (consumes_shrinks _ dec_str_len_consumes _ _ _ E).
    - destruct (dec_bytes_len l) as [[p r1]|] eqn:E; [|discriminate]. cbn [option_map fst snd]. intros H. injection H as _ <-.
      apply (consumes_shrinks _ dec_bytes_len_consumes _ _ _ E).
    - destruct (dec_uint_len l) as [[p r1]|] eqn:E; [|discriminate]. cbn [option_map fst snd]. intros H. injection H as _ <-.
      apply (consumes_shrinks _ dec_uint_len_consumes _ _ _ E).
    - destruct (dec_strs_len l) as [[[ss|] r1]|] eqn:E; [| |discriminate]; intros H; injection H as _ <-;
        apply (dec_strs_len_shrinks _ _ _ E).
    - destruct (dec_bool_len l) as [[p r1]|] eqn:E; [|discriminate]. cbn [option_map fst snd]. intros H. injection H as _ <-.
      apply (consumes_shrinks _ dec_bool_len_consumes _ _ _ E).
    - destruct (dec_rs dk_s set_s ext (cur_rs cur) l) as [[o r1]|] eqn:E; [|discriminate].
      cbn [option_map fst snd]. intros H. injection H as _ <-. apply (dec_rs_shrinks _ _ _ _ dk_s_consumes _ _ _ E).
    - destruct (dec_rs dk_n set_n ext (cur_rn cur) l) as [[o r1]|] eqn:E; [|discriminate].
      cbn [option_map fst snd]. intros H. injection H as _ <-. apply (dec_rs_shrinks _ _ _ _ dec_uint_len_consumes _ _ _ E).
    - destruct l as [|c l0]; [discriminate|]. destruct (c =? 192). { intros H. injection H as _ <-. cbn [List.length]. lia. }
      destruct (ds (c :: l0)) as [[cs r1]|] eqn:E; [|discriminate]. cbn [option_map fst snd]. intros H. injection H as _ <-.
      apply (ds_shrinks _ _ _ E).
  Qed.

  Lemma dec_fields2_shrinks ks : shrinks (dec_fields2 ext pz ds ks).
  Proof.
    induction ks as [|k ks IH]; intros l vs r; cbn [dec_fields2].
    - intros H. injection H as _ <-. lia.
    - destruct (dec_field2 ext pz ds k (fzero2 k) l) as [[v r1]|] eqn:E; [|discriminate].
      destruct (dec_fields2 ext pz ds ks r1) as [[vs' r2]|] eqn:E2; [|discriminate]. intros H. injection H as _ <-.
      apply dec_field2_shrinks in E. apply IH in E2. lia.
  Qed.

  Lemma dec_map_entries2_shrinks sch n : forall vs, shrinks (dec_map_entries2 ext pz ds sch n vs).
  Proof.
    induction n as [|n IH]; intros vs l vs' r; cbn [dec_map_entries2].
    - intros H. injection H as _ <-. lia.
    - destruct (dec_str_len l) as [[name r1]|] eqn:E; [|discriminate].
      apply (consumes_length _ _ _ _ dec_str_len_consumes) in E.
      destruct (find_field2 sch name 0) as [[i k]|].
      + destruct (dec_field2 ext pz ds k (nth i vs (fzero2 k)) r1) as [[v r2]|] eqn:E2; [|discriminate].
        apply dec_field2_shrinks in E2. intros H. apply IH in H. lia.
      + destruct (skip (S (List.length r1)) r1) as [r2|] eqn:E2; [|discriminate].
        apply skip_length in E2. intros H. apply IH in H. lia.
  Qed.

  Lemma dec_struct2_shrinks sch : shrinks (dec_struct2 ext pz ds sch).
  Proof.
    intros l vs r. destruct l as [|c l0]; [discriminate|]. unfold dec_struct2.
    assert (Hmap : forall n (l1 : bytes), (List.length l1 <= List.length l0)%nat -> dec_map2 ext pz ds sch n l1 = Some (vs, r) ->
              (List.length r <= List.length (c :: l0))%nat).
    { intros n l1 Hl1 H. unfold dec_map2 in H. destruct (N.of_nat (List.length l1) <? 2 * n); [discriminate|].
      apply dec_map_entries2_shrinks in H. cbn [List.length]. lia. }
    destruct (c =? 192). { intros H. injection H as _ <-. cbn [List.length]. lia. }
    destruct ((128 <=? c) && (c <=? 143)). { apply Hmap. lia. }
    destruct (c =? 222).
    { destruct (take 2 l0) as [[lb r1]|] eqn:E; [|discriminate]. apply take_Some in E. destruct E as [-> _]. apply Hmap.
      rewrite app_length. lia. }
    destruct (c =? 223).
    { destruct (take 4 l0) as [[lb r1]|] eqn:E; [|discriminate]. apply take_Some in E. destruct E as [-> _]. apply Hmap.
      rewrite app_length. lia. }
    destruct (dec_arr_hdr (c :: l0)) as [[n r1]|] eqn:E; [|discriminate].
    apply (consumes_length _ _ _ _ dec_arr_hdr_consumes) in E.
    destruct (n =? 0). { intros H. injection H as _ <-. lia. }
    destruct (n =? N.of_nat (List.length sch)); [|discriminate]. intros H. apply dec_fields2_shrinks in H. lia.
  Qed.

  Lemma dec_cmds_n_shrinks n : shrinks (dec_cmds_n ext pz ds n).
  Proof.
    induction n as [|n IH]; intros l cs r; cbn [dec_cmds_n].
    - intros H. injection H as _ <-. lia.
    - destruct (dec_struct2 ext pz ds sch_cmd l) as [[vs r1]|] eqn:E; [|discriminate]. apply dec_struct2_shrinks in E.
      destruct vs as [|[| | |a| | | |] [|[| | | |e| | |] [|? ?]]]; try discriminate.
      destruct (dec_cmds_n ext pz ds n r1) as [[cs' r2]|] eqn:E2; [|discriminate]. apply IH in E2.
      intros H. injection H as _ <-. lia.
  Qed.

  Lemma dec_commands_shrinks : shrinks (dec_commands ext pz ds).
  Proof.
    intros l c r. unfold dec_commands. destruct l as [|x l0]; [discriminate|].
    destruct (x =? 192). { intros H. injection H as _ <-. cbn [List.length]. lia. }
    destruct (dec_arr_hdr (x :: l0)) as [[n r1]|] eqn:Eh; [|discriminate].
    destruct (N.of_nat (List.length r1) <? n); [discriminate|].
    destruct (dec_cmds_n ext pz ds (N.to_nat n) r1) as [[cs r2]|] eqn:E; [|discriminate]. intros H. injection H as _ <-.
    apply (consumes_length _ _ _ _ dec_arr_hdr_consumes) in Eh. apply dec_cmds_n_shrinks in E. lia.
  Qed.

  Ltac struct2_shrinks sch b :=
    let E := fresh "E" in let vs := fresh "vs" in let r1 := fresh "r1" in
    destruct (dec_struct2 ext pz ds sch b) as [[vs r1]|] eqn:E; [|discriminate];
    apply dec_struct2_shrinks in E;
    repeat match goal with |- match ?v with _ => _ end = _ -> _ => is_var v; destruct v end;
    try discriminate;
    let H := fresh "H" in intros H; injection H as _ <-; exact E.

  Lemma dec_leaf2_shrinks ty : shrinks (dec_leaf2 ext pz ds ty).
  Proof.
    intros b c r. unfold dec_leaf2, dec_rs_cav.
    destruct (ty =? 2). { struct2_shrinks (sch_rs "Volumes") b. }
    destruct (ty =? 3). { struct2_shrinks sch_apps b. }
    destruct (ty =? 5). { struct2_shrinks (sch_rs "Features") b. }
    destruct (ty =? 6). { struct2_shrinks sch_mut b. }
    destruct (ty =? 7). { struct2_shrinks (sch_rs "Machines") b. }
    destruct (ty =? 11). { struct2_shrinks sch_3p b. }
    destruct (ty =? 13). { struct2_shrinks sch_ifp b. }
    destruct (ty =? 14). { struct2_shrinks (sch_rs "Features") b. }
    destruct (ty =? 16). { struct2_shrinks (sch_rs "Clusters") b. }
    destruct (ty =? 27). { apply dec_commands_shrinks. }
    destruct (ty =? 28). { struct2_shrinks (sch_rs "Features") b. }
    destruct (ty =? 29). { struct2_shrinks (sch_rs "Prefixes") b. }
    discriminate.
  Qed.
End StructShrinks.

Lemma dec_items_shrinks dc n : (forall ty, shrinks (dc ty)) -> shrinks (dec_items dc n).
Proof.
  intros Hdc. induction n as [|n IH]; intros l cs r; cbn [dec_items].
  - intros H. injection H as _ <-. lia.
  - destruct (dec_uint_len l) as [[ty r1]|] eqn:Et; [|discriminate]. destruct (dc ty r1) as [[c r2]|] eqn:Ec; [|discriminate].
    destruct (dec_items dc n r2) as [[cs' r3]|] eqn:Ei; [|discriminate]. intros H. injection H as _ <-.
    apply (consumes_length _ _ _ _ dec_uint_len_consumes) in Et. apply Hdc in Ec. apply IH in Ei. lia.
Qed.

Lemma dec_set_rest_shrinks dc : (forall ty, shrinks (dc ty)) -> shrinks (dec_set_rest dc).
Proof.
  intros Hdc l cs r. unfold dec_set_rest. destruct (dec_arr_hdr l) as [[n r1]|] eqn:Eh; [|discriminate].
  destruct (N.odd n); [discriminate|]. destruct (N.of_nat (List.length r1) <? n); [discriminate|].
  intros H. apply (consumes_length _ _ _ _ dec_arr_hdr_consumes) in Eh. apply (dec_items_shrinks _ _ Hdc) in H. lia.
Qed.

Lemma dec_cav_shrinks ext pz fuel : forall ty, shrinks (dec_cav ext pz fuel ty).
Proof.
  induction fuel as [|f IH]; intros ty b c r; cbn [dec_cav]; [discriminate|].
  destruct (scalar_ty ty). { apply (consumes_shrinks _ (dec_body_rest_consumes_l ty)). }
  destruct (nonscalar_ty ty). { apply dec_leaf2_shrinks. apply dec_set_rest_shrinks, IH. }
  unfold dec_unreg. destruct (skip (S (List.length b)) b) as [rest|] eqn:Es; [|discriminate].
  destruct (gen_ok _); [|discriminate]. intros H. injection H as _ <-. apply skip_length in Es. lia.
Qed.

(* ---- transfer *)
Lemma dec_maplen_tr ext ext' l x : (ext = true -> ext' = true) -> dec_maplen ext l = Some x -> dec_maplen ext' l = Some x.
Proof.
  intros Hext. destruct ext; [rewrite (Hext eq_refl); exact (fun H => H)|]. destruct ext'; [|exact (fun H => H)].
  destruct l as [|c r]; [discriminate|]. cbn [dec_maplen andb]. destruct (is_ext c) eqn:Ee; [|exact (fun H => H)].
  unfold maplen_code, is_ext in *.
  destruct (N.eqb_spec c 192) as [->|Hne]; [discriminate Ee|].
  destruct (N.leb_spec 128 c) as [H1|H1]; destruct (N.leb_spec c 143) as [H2|H2]; cbn [andb].
  { destruct (N.leb_spec 199 c); [lia|]. destruct (N.leb_spec 212 c); [lia|]. discriminate Ee. }
  all: destruct (N.eqb_spec c 222) as [->|Hn2]; [discriminate Ee|]; destruct (N.eqb_spec c 223) as [->|Hn3]; [discriminate Ee|];
       discriminate.
Qed.

Lemma dec_rs_tr {K} (dk : bytes -> option (K * bytes)) setk ext ext' cur l x : (ext = true -> ext' = true) ->
  dec_rs dk setk ext cur l = Some x -> dec_rs dk setk ext' cur l = Some x.
Proof.
  intros Hext. unfold dec_rs. destruct (dec_maplen ext l) as [y|] eqn:Em; [|discriminate].
  rewrite (dec_maplen_tr _ _ _ _ Hext Em). exact (fun H => H).
Qed.

Section StructTransfer.
  Variables (ext ext' pz : bool) (ds ds' : bytes -> option (list cav * bytes)) (m : nat).
  Hypothesis Hext : ext = true -> ext' = true.
  Hypothesis ds_shrinks : shrinks ds.
  Hypothesis Hds : forall l x, (List.length l <= m)%nat -> ds l = Some x -> ds' l = Some x.

  Lemma dec_field2_tr k cur l x : (List.length l <= m)%nat ->
    dec_field2 ext pz ds k cur l = Some x -> dec_field2 ext' pz ds' k cur l = Some x.
  Proof.
    intros Hl. destruct k as [| |bits| | | | |]; cbn [dec_field2]; try exact (fun H => H).
    - destruct (dec_rs dk_s set_s ext (cur_rs cur) l) as [y|] eqn:E; [|discriminate].
      rewrite (dec_rs_tr _ _ _ _ _ _ _ Hext E). exact (fun H => H).
    - destruct (dec_rs dk_n set_n ext (cur_rn cur) l) as [y|] eqn:E; [|discriminate].
      rewrite (dec_rs_tr _ _ _ _ _ _ _ Hext E). exact (fun H => H).
    - destruct l as [|c l0]; [discriminate|]. destruct (c =? 192); [exact (fun H => H)|].
      destruct (ds (c :: l0)) as [y|] eqn:E; [|discriminate]. rewrite (Hds _ _ Hl E). exact (fun H => H).
  Qed.

  Lemma dec_fields2_tr ks : forall l x, (List.length l <= m)%nat ->
    dec_fields2 ext pz ds ks l = Some x -> dec_fields2 ext' pz ds' ks l = Some x.
  Proof.
    induction ks as [|k ks IH]; intros l x Hl; cbn [dec_fields2]; [exact (fun H => H)|].
    destruct (dec_field2 ext pz ds k (fzero2 k) l) as [[v r1]|] eqn:E; [|discriminate].
    rewrite (dec_field2_tr _ _ _ _ Hl E). apply (dec_field2_shrinks _ _ _ ds_shrinks) in E.
    destruct (dec_fields2 ext pz ds ks r1) as [y|] eqn:E2; [|discriminate].
    rewrite (IH r1 _ ltac:(lia) E2). exact (fun H => H).
  Qed.

  Lemma dec_map_entries2_tr sch n : forall vs l x, (List.length l <= m)%nat ->
    dec_map_entries2 ext pz ds sch n vs l = Some x -> dec_map_entries2 ext' pz ds' sch n vs l = Some x.
  Proof.
    induction n as [|n IH]; intros vs l x Hl; cbn [dec_map_entries2]; [exact (fun H => H)|].
    destruct (dec_str_len l) as [[name r1]|] eqn:E; [|discriminate].
    apply (consumes_length _ _ _ _ dec_str_len_consumes) in E.
    destruct (find_field2 sch name 0) as [[i k]|].
    - destruct (dec_field2 ext pz ds k (nth i vs (fzero2 k)) r1) as [[v r2]|] eqn:E2; [|discriminate].
      rewrite (dec_field2_tr _ _ r1 _ ltac:(lia) E2). apply (dec_field2_shrinks _ _ _ ds_shrinks) in E2.
      apply IH. lia.
    - destruct (skip (S (List.length r1)) r1) as [r2|] eqn:E2; [|discriminate]. apply skip_length in E2. apply IH. lia.
  Qed.

  Lemma dec_struct2_tr sch l x : (List.length l <= S m)%nat ->
    dec_struct2 ext pz ds sch l = Some x -> dec_struct2 ext' pz ds' sch l = Some x.
  Proof.
    intros Hl. destruct l as [|c l0]; [discriminate|]. unfold dec_struct2. cbn [List.length] in Hl.
    assert (Hmap : forall n (l1 : bytes), (List.length l1 <= List.length l0)%nat -> dec_map2 ext pz ds sch n l1 = Some x ->
              dec_map2 ext' pz ds' sch n l1 = Some x).
    { intros n l1 Hl1. unfold dec_map2. destruct (N.of_nat (List.length l1) <? 2 * n); [discriminate|].
      apply dec_map_entries2_tr. lia. }
    destruct (c =? 192); [exact (fun H => H)|].
    destruct ((128 <=? c) && (c <=? 143)). { apply Hmap. lia. }
    destruct (c =? 222).
    { destruct (take 2 l0) as [[lb r1]|] eqn:E; [|discriminate]. apply take_Some in E. destruct E as [-> _]. apply Hmap.
      rewrite app_length. lia. }
    destruct (c =? 223).
    { destruct (take 4 l0) as [[lb r1]|] eqn:E; [|discriminate]. apply take_Some in E. destruct E as [-> _]. apply Hmap.
      rewrite app_length. lia. }
    destruct (dec_arr_hdr (c :: l0)) as [[n r1]|] eqn:E; [|discriminate].
    apply (consumes_length _ _ _ _ dec_arr_hdr_consumes) in E. cbn [List.length] in E.
    destruct (n =? 0); [exact (fun H => H)|].
    destruct (n =? N.of_nat (List.length sch)); [|discriminate]. apply dec_fields2_tr. lia.
  Qed.

  Lemma dec_cmds_n_tr n : forall l x, (List.length l <= S m)%nat ->
    dec_cmds_n ext pz ds n l = Some x -> dec_cmds_n ext' pz ds' n l = Some x.
  Proof.
    induction n as [|n IH]; intros l x Hl; cbn [dec_cmds_n]; [exact (fun H => H)|].
    destruct (dec_struct2 ext pz ds sch_cmd l) as [[vs r1]|] eqn:E; [|discriminate].
    rewrite (dec_struct2_tr _ _ _ Hl E). apply (dec_struct2_shrinks _ _ _ ds_shrinks) in E.
    destruct vs as [|[| | |a| | | |] [|[| | | |e| | |] [|? ?]]]; try discriminate.
    destruct (dec_cmds_n ext pz ds n r1) as [y|] eqn:E2; [|discriminate]. rewrite (IH r1 _ ltac:(lia) E2). exact (fun H => H).
  Qed.

  Lemma dec_leaf2_tr ty l x : (List.length l <= S m)%nat ->
    dec_leaf2 ext pz ds ty l = Some x -> dec_leaf2 ext' pz ds' ty l = Some x.
  Proof.
    intros Hl. unfold dec_leaf2, dec_rs_cav, dec_commands.
    assert (Hst : forall sch, match dec_struct2 ext pz ds sch l with Some y => dec_struct2 ext' pz ds' sch l = Some y | None => True end).
    { intros sch. destruct (dec_struct2 ext pz ds sch l) as [y|] eqn:E; [|exact I]. apply (dec_struct2_tr _ _ _ Hl E). }
    Ltac use_st Hst sch :=
      let E := fresh "E" in
      specialize (Hst sch); destruct (dec_struct2 _ _ _ sch _) as [?y|] eqn:E in Hst |- *; [rewrite Hst; exact (fun H => H)|discriminate].
    destruct (ty =? 2). { use_st Hst (sch_rs "Volumes"). }
    destruct (ty =? 3). { use_st Hst sch_apps. }
    destruct (ty =? 5). { use_st Hst (sch_rs "Features"). }
    destruct (ty =? 6). { use_st Hst sch_mut. }
    destruct (ty =? 7). { use_st Hst (sch_rs "Machines"). }
    destruct (ty =? 11). { use_st Hst sch_3p. }
    destruct (ty =? 13). { use_st Hst sch_ifp. }
    destruct (ty =? 14). { use_st Hst (sch_rs "Features"). }
    destruct (ty =? 16). { use_st Hst (sch_rs "Clusters"). }
    destruct (ty =? 27).
    { destruct l as [|c l0]; [discriminate|]. destruct (c =? 192); [exact (fun H => H)|].
      destruct (dec_arr_hdr (c :: l0)) as [[n r1]|] eqn:Eh; [|discriminate].
      apply (consumes_length _ _ _ _ dec_arr_hdr_consumes) in Eh.
      destruct (N.of_nat (List.length r1) <? n); [discriminate|].
      destruct (dec_cmds_n ext pz ds (N.to_nat n) r1) as [y|] eqn:E; [|discriminate].
      rewrite (dec_cmds_n_tr _ r1 _ ltac:(lia) E). exact (fun H => H). }
    destruct (ty =? 28). { use_st Hst (sch_rs "Features"). }
    destruct (ty =? 29). { use_st Hst (sch_rs "Prefixes"). }
    discriminate.
  Qed.
End StructTransfer.

Section SetTransfer.
  Variables (dc dc' : N -> bytes -> option (cav * bytes)) (m : nat).
  Hypothesis dc_shrinks : forall ty, shrinks (dc ty).
  Hypothesis Hdc : forall ty l x, (List.length l <= m)%nat -> dc ty l = Some x -> dc' ty l = Some x.

  Lemma dec_items_tr n : forall l x, (List.length l <= m)%nat -> dec_items dc n l = Some x -> dec_items dc' n l = Some x.
  Proof.
    induction n as [|n IH]; intros l x Hl; cbn [dec_items]; [exact (fun H => H)|].
    destruct (dec_uint_len l) as [[ty r1]|] eqn:Et; [|discriminate].
    apply (consumes_length _ _ _ _ dec_uint_len_consumes) in Et.
    destruct (dc ty r1) as [[c r2]|] eqn:Ec; [|discriminate]. rewrite (Hdc _ r1 _ ltac:(lia) Ec). apply dc_shrinks in Ec.
    destruct (dec_items dc n r2) as [y|] eqn:Ei; [|discriminate]. rewrite (IH r2 _ ltac:(lia) Ei). exact (fun H => H).
  Qed.

  Lemma dec_set_rest_tr l x : (List.length l <= S m)%nat -> dec_set_rest dc l = Some x -> dec_set_rest dc' l = Some x.
  Proof.
    intros Hl. unfold dec_set_rest. destruct (dec_arr_hdr l) as [[n r1]|] eqn:Eh; [|discriminate].
    apply (consumes_length _ _ _ _ dec_arr_hdr_consumes) in Eh.
    destruct (N.odd n); [discriminate|]. destruct (N.of_nat (List.length r1) <? n); [discriminate|].
    apply dec_items_tr. lia.
  Qed.
End SetTransfer.

Lemma dec_leaf2_nil ext pz ds ty : dec_leaf2 ext pz ds ty [] = None.
Proof. unfold dec_leaf2, dec_rs_cav. repeat match goal with |- (if ?b then _ else _) = _ => destruct b end; reflexivity. Qed.

(* if a caveat decodes with some fuel and without the ext-header leniency, it decodes to the same value with more fuel, with
   fuel above the length of the input, and with the leniency *)
Theorem dec_cav_transfer_l ext ext' pz : (ext = true -> ext' = true) -> forall f f' ty b x,
  dec_cav ext pz f ty b = Some x -> (f <= f' \/ List.length b < f')%nat -> dec_cav ext' pz f' ty b = Some x.
Proof.
  intros Hext. induction f as [|f IH]; intros f' ty b x; cbn [dec_cav]; [discriminate|].
  intros H Hf. destruct f' as [|f']; [lia|]. cbn [dec_cav].
  destruct (scalar_ty ty); [exact H|]. destruct (nonscalar_ty ty); [|exact H].
  destruct b as [|c b0]; [rewrite dec_leaf2_nil in H; discriminate|].
  revert H. apply (dec_leaf2_tr ext ext' pz _ _ (List.length b0) Hext (dec_set_rest_shrinks _ (dec_cav_shrinks ext pz f)));
    [|cbn [List.length]; lia].
  intros l y Hl. apply (dec_set_rest_tr _ _ (List.length b0) (dec_cav_shrinks ext pz f)); [|lia].
  intros ty' l' y' Hl'. intros H'. apply (IH _ _ _ _ H'). cbn [List.length] in Hf. lia.
Qed.

(* the fuel of dec_body2 / dec_set_typed (one more than the length of the input) is never the reason for a refusal *)
Theorem dec_cav_fuel_enough_l ext pz f ty b x : dec_cav ext pz f ty b = Some x ->
  dec_cav ext pz (S (List.length b)) ty b = Some x.
Proof. intros H. apply (dec_cav_transfer_l ext ext pz (fun e => e) f); [exact H|lia]. Qed.

Theorem dec_body2_ext_mono_l pz ty b c : dec_body2_gen false pz ty b = Some c -> dec_body2_gen true pz ty b = Some c.
Proof.
  unfold dec_body2_gen, dec_body2_rest_gen. destruct (dec_cav false pz (S (List.length b)) ty b) as [y|] eqn:E; [|discriminate].
  rewrite (dec_cav_transfer_l false true pz (fun _ => eq_refl) _ _ _ _ _ E (or_introl (Nat.le_refl _))). exact (fun H => H).
Qed.

(* the ext-header leniency only accepts more *)
Theorem dec_set_typed_ext_mono_l pz b cs : dec_set_typed_gen false pz b = Some cs -> dec_set_typed_gen true pz b = Some cs.
Proof.
  unfold dec_set_typed_gen. destruct b as [|c b0]; [discriminate|]. destruct (c =? 192); [exact (fun H => H)|].
  destruct (dec_set_rest (dec_cav false pz (S (List.length (c :: b0)))) (c :: b0)) as [y|] eqn:E; [|discriminate].
  rewrite (dec_set_rest_tr _ (dec_cav true pz (S (List.length (c :: b0)))) (List.length (c :: b0)) (dec_cav_shrinks false pz _)
             (fun ty l x _ H => dec_cav_transfer_l false true pz (fun _ => eq_refl) _ _ ty l x H (or_introl (Nat.le_refl _)))
             (c :: b0) y ltac:(lia) E).
  exact (fun H => H).
Qed.

(* hence: on every input that the decoder accepts without that leniency, the library (with it) and the frame decoder agree *)
Theorem dec_set_typed_frames_noext_l b cs : byte_list b -> N.of_nat (List.length b) < 2 ^ 29 ->
  dec_set_typed_gen false false b = Some cs ->
  dec_set_typed b = Some cs /\ exists fs, dec_frames_len b = Some fs /\ map fst fs = map cav_type cs.
Proof.
  intros Hb Hlen H. split; [apply dec_set_typed_ext_mono_l, H|apply (dec_set_typed_frames_l false); assumption].
Qed.

Print Assumptions dec_cav_vspan_l.
Print Assumptions dec_set_typed_frames_l.
Print Assumptions dec_cav_transfer_l.
Print Assumptions dec_cav_fuel_enough_l.
Print Assumptions dec_set_typed_ext_mono_l.
Print Assumptions dec_set_typed_frames_noext_l.
