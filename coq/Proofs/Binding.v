(* Task S2, part 2 (C06): a bound discharge works only with the token it was bound to.
   Symbolic model: Model/Sym.v, basics: Proofs/SymBasics.v, third-party lemmas: Proofs/ThirdParty.v. *)
From Coq Require Import List Bool PeanoNat NArith Lia.
From Mac Require Import Model.Sym Proofs.SymBasics Proofs.ThirdParty.
Import ListNotations.
Local Open Scope N_scope.

(* what [bind_cav p] adds to a discharge *)
Definition bound_to (d p : token) : Prop := In (PBind (TPre16 (THash (t_tail p)))) (t_cavs d).

Lemma bind_cav_bound_to p : bind_cav p = ABind (TPre16 (THash (t_tail p))).
Proof. reflexivity. Qed.

(* ------------------------------------------------------------------ *)
(** * Helpers *)

(* every binding caveat of a discharge that verifies was checked against the binding ids *)
Lemma verify_flat_binds k t pb ta S :
  verify_flat k t pb ta = Some S ->
  forall b, In (PBind b) (t_cavs t) -> existsb (has_prefix_bid b) pb = true.
Proof.
  unfold verify_flat. destruct (n_proof (t_nonce t) && t_newproof t); [discriminate|].
  destruct (walk _ _ _ _ _ _) as [w|] eqn:Ew; [|discriminate].
  intros _. apply (walk_binds _ _ _ _ _ _ _ Ew).
Qed.

(* a 16-byte-prefix binding to [x] is satisfied by the ids of [t] iff [x] is one of t's chain values *)
Lemma pre16_hash_in_bids k t x :
  existsb (has_prefix_bid (TPre16 (THash x))) (tok_bids k t) = true <->
  exists i, (i <= List.length (t_cavs t))%nat /\ x = chain k (t_nonce t) (firstn i (t_cavs t)).
Proof.
  rewrite existsb_exists. split.
  - intros [bid [Hin Hp]]. cbn [has_prefix_bid] in Hp. apply term_eqb_spec in Hp. subst bid.
    apply In_tok_bids in Hin. destruct Hin as [i [Hi E]]. exists i. split; [exact Hi|].
    injection E. auto.
  - intros [i [Hi E]]. exists (THash x). split.
    + apply In_tok_bids. exists i. split; [exact Hi|]. rewrite E. reflexivity.
    + cbn [has_prefix_bid]. apply term_eqb_refl.
Qed.

(* ------------------------------------------------------------------ *)
(** * A bound discharge is accepted only under a token whose chain passes through the parent's tail *)

(* the hypothesis that [t] itself verifies is not needed *)
Lemma bind_requires_prefix_flat k t d dk ta Sd p :
  verify_flat dk d (tok_bids k t) ta = Some Sd -> bound_to d p ->
  exists i, (i <= List.length (t_cavs t))%nat /\ t_tail p = chain k (t_nonce t) (firstn i (t_cavs t)).
Proof.
  intros Hv Hb. apply pre16_hash_in_bids. apply (verify_flat_binds _ _ _ _ _ Hv). exact Hb.
Qed.

Lemma bind_requires_prefix_l k t ds tr S d dk Sd p :
  verify k t ds tr = Some S ->
  verify_flat dk d (tok_bids k t) (cand_trust true tr d dk) = Some Sd -> bound_to d p ->
  exists i, (i <= List.length (t_cavs t))%nat /\ t_tail p = chain k (t_nonce t) (firstn i (t_cavs t)).
Proof. intros _. apply bind_requires_prefix_flat. Qed.

(* parent is itself an (unfinalised) token under some key [kp]: it is [t] or an ancestor of [t],
   and its key is [t]'s key *)
Lemma bound_parent_is_ancestor_gen k kp t d dk ta Sd p :
  t_tail p = chain kp (t_nonce p) (t_cavs p) ->
  verify_flat dk d (tok_bids k t) ta = Some Sd -> bound_to d p ->
  kp = k /\ t_nonce p = t_nonce t /\ exists ext, t_cavs t = t_cavs p ++ ext.
Proof.
  intros Hp Hv Hb. destruct (bind_requires_prefix_flat _ _ _ _ _ _ _ Hv Hb) as [i [_ E]].
  rewrite Hp in E. destruct (chain_inj' _ _ _ _ _ _ E) as [Hk [Hn Hc]].
  split; [exact Hk|]. split; [exact Hn|]. exists (skipn i (t_cavs t)).
  rewrite Hc. symmetry. apply firstn_skipn.
Qed.

Lemma bound_parent_is_ancestor_l k t ds tr S d dk Sd p :
  t_tail p = chain k (t_nonce p) (t_cavs p) ->
  verify k t ds tr = Some S ->
  verify_flat dk d (tok_bids k t) (cand_trust true tr d dk) = Some Sd -> bound_to d p ->
  t_nonce p = t_nonce t /\ exists ext, t_cavs t = t_cavs p ++ ext.
Proof.
  intros Hp _ Hv Hb. destruct (bound_parent_is_ancestor_gen _ _ _ _ _ _ _ _ Hp Hv Hb) as [_ H]. exact H.
Qed.

(* ------------------------------------------------------------------ *)
(** * Rejections *)

(* bound to a finalised proof: no token accepts it (a finalised tail is never a chain value) *)
Lemma bound_to_finalised_proof_never_l k t dk d ta p x :
  t_tail p = TFin x -> bound_to d p -> verify_flat dk d (tok_bids k t) ta = None.
Proof.
  intros Hp Hb. destruct (verify_flat dk d (tok_bids k t) ta) as [Sd|] eqn:E; [|reflexivity].
  destruct (bind_requires_prefix_flat _ _ _ _ _ _ _ E Hb) as [i [_ Hi]].
  rewrite Hp in Hi. destruct (chain_is_mac k (t_nonce t) (firstn i (t_cavs t))) as [y [m Hm]].
  rewrite Hm in Hi. discriminate Hi.
Qed.

(* verify-level reading: if every presented discharge for the ticket of some third-party caveat of [t]
   is bound to a finalised proof, [t] does not verify *)
Lemma bound_to_finalised_proof_verify_l k t ds tr i l vk tk :
  nth_error (t_cavs t) i = Some (P3P l vk tk) ->
  (forall d, In d ds -> n_kid (t_nonce d) = tk -> exists p x, t_tail p = TFin x /\ bound_to d p) ->
  verify k t ds tr = None.
Proof.
  intros Hn Hall. destruct (verify k t ds tr) as [S|] eqn:E; [|reflexivity].
  destruct (tp_needs_own_discharge_l _ _ _ _ _ _ _ _ _ E Hn)
    as [r [dk [d [Sd [_ [Hin [Hk [Hv _]]]]]]]].
  destruct (Hall d Hin Hk) as [p [x [Hp Hb]]].
  rewrite (bound_to_finalised_proof_never_l _ _ _ _ _ _ _ Hp Hb) in Hv. discriminate Hv.
Qed.

(* bound to a token that is neither [t] nor an ancestor of [t] (a sibling, a descendant of [t],
   a token with another nonce, a token of another issuer key): rejected *)
Lemma sibling_rejected_gen k kp t dk d ta p :
  t_tail p = chain kp (t_nonce p) (t_cavs p) ->
  ~ (kp = k /\ t_nonce p = t_nonce t /\ exists ext, t_cavs t = t_cavs p ++ ext) ->
  bound_to d p -> verify_flat dk d (tok_bids k t) ta = None.
Proof.
  intros Hp Hnot Hb. destruct (verify_flat dk d (tok_bids k t) ta) as [Sd|] eqn:E; [|reflexivity].
  destruct (Hnot (bound_parent_is_ancestor_gen _ _ _ _ _ _ _ _ Hp E Hb)).
Qed.

Lemma sibling_rejected_l k t dk d ta p :
  t_tail p = chain k (t_nonce p) (t_cavs p) ->
  ~ (t_nonce p = t_nonce t /\ exists ext, t_cavs t = t_cavs p ++ ext) ->
  bound_to d p -> verify_flat dk d (tok_bids k t) ta = None.
Proof.
  intros Hp Hnot. apply (sibling_rejected_gen k k); [exact Hp|]. intros [_ H]. exact (Hnot H).
Qed.

(* ------------------------------------------------------------------ *)
(** * Completeness of the binding check *)

Lemma bind_check_complete_l k t i :
  (i <= List.length (t_cavs t))%nat ->
  existsb (has_prefix_bid (TPre16 (THash (chain k (t_nonce t) (firstn i (t_cavs t)))))) (tok_bids k t) = true.
Proof. intros Hi. apply pre16_hash_in_bids. exists i. split; [exact Hi|reflexivity]. Qed.

(* reading: a discharge bound to an unfinalised ancestor [p] of [t] (or to [t] itself) passes the check *)
Lemma bind_check_ancestor k t p ext :
  t_tail p = chain k (t_nonce p) (t_cavs p) -> t_nonce p = t_nonce t -> t_cavs t = t_cavs p ++ ext ->
  existsb (has_prefix_bid (TPre16 (THash (t_tail p)))) (tok_bids k t) = true.
Proof.
  intros Hp Hn Hc. apply pre16_hash_in_bids. exists (List.length (t_cavs p)). split.
  - rewrite Hc, app_length. lia.
  - rewrite Hp, Hn, Hc, firstn_app, Nat.sub_diag, firstn_all. cbn [firstn]. rewrite app_nil_r. reflexivity.
Qed.

(* a well-formed discharge whose only bindings are to ancestors of [t] is accepted *)
Lemma bound_discharge_accepted k t dk d ta :
  n_proof (t_nonce d) && t_newproof d = false ->
  t_tail d = fin_if (n_proof (t_nonce d)) (chain dk (t_nonce d) (t_cavs d)) ->
  data_ok (n_proof (t_nonce d)) (t_cavs d) ->
  (forall l vk tk, ~ In (P3P l vk tk) (t_cavs d)) ->
  (forall b, In (PBind b) (t_cavs d) ->
     exists p ext, b = TPre16 (THash (t_tail p)) /\ t_tail p = chain k (t_nonce p) (t_cavs p) /\
                   t_nonce p = t_nonce t /\ t_cavs t = t_cavs p ++ ext) ->
  verify_flat dk d (tok_bids k t) ta = Some (returned (n_proof (t_nonce d)) ta (t_cavs d)).
Proof.
  intros Hnp Ht Hd H3 Hb. apply verify_flat_complete; try assumption.
  intros b Hin. destruct (Hb b Hin) as [p [ext [Eb [Hp [Hn Hc]]]]]. subst b.
  eapply bind_check_ancestor; eassumption.
Qed.

(* ------------------------------------------------------------------ *)
(** * Bindings on a permission token, and the empty payload *)

Lemma binding_on_permission_rejects_l k t ds tr b :
  In (PBind b) (t_cavs t) -> verify k t ds tr = None.
Proof.
  intros Hin. destruct (verify k t ds tr) as [S|] eqn:E; [|reflexivity].
  destruct (verify_no_bind_top _ _ _ _ _ E b Hin).
Qed.

(* an empty binding payload binds nothing: it is a prefix of every binding id *)
Lemma empty_literal_binding_l bid : has_prefix_bid (TLit []) bid = true.
Proof. reflexivity. Qed.

(* consequently a discharge "bound" with the empty payload is accepted under every token:
   the binding check never rejects it *)
Lemma empty_literal_binding_any pb : pb <> [] -> existsb (has_prefix_bid (TLit [])) pb = true.
Proof. destruct pb as [|x r]; [congruence|reflexivity]. Qed.

Lemma empty_literal_binding_tok k t : existsb (has_prefix_bid (TLit [])) (tok_bids k t) = true.
Proof. reflexivity. Qed.

(* ------------------------------------------------------------------ *)
Print Assumptions bind_requires_prefix_flat.
Print Assumptions bind_requires_prefix_l.
Print Assumptions bound_parent_is_ancestor_gen.
Print Assumptions bound_parent_is_ancestor_l.
Print Assumptions bound_to_finalised_proof_never_l.
Print Assumptions bound_to_finalised_proof_verify_l.
Print Assumptions sibling_rejected_gen.
Print Assumptions sibling_rejected_l.
Print Assumptions bind_check_complete_l.
Print Assumptions bind_check_ancestor.
Print Assumptions bound_discharge_accepted.
Print Assumptions binding_on_permission_rejects_l.
Print Assumptions empty_literal_binding_l.
Print Assumptions empty_literal_binding_tok.
