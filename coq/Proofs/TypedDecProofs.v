(* Typed lenient decoding of the scalar-bodied caveats (Model.TypedDec):
   - the typed decoder inverts the canonical encoder (dec_body_enc_body_l), up to the truncation that reflect's SetUint
     applies to 16- and 32-bit masks (dec_body_rest_enc_body_l);
   - width independence of integers, nil as the zero value, str/bin interchange;
   - array-encoded structs: the empty array is the zero value, every other wrong length is refused;
   - the decoder reads one value: bytes after it are irrelevant, it consumes a non-empty prefix, its result is in range. *)
From Coq Require Import List Bool NArith ZArith String Ascii Lia ZifyN ZifyNat ZifyBool.
From Mac Require Import Model.Caveat Model.Msgpack Model.Codec Model.TypedDec Proofs.CavInd Proofs.CodecProofs Proofs.LenientProofs.
Import ListNotations.
Ltac Zify.zify_post_hook ::= Z.div_mod_to_equations.
Local Open Scope N_scope.

(* ------------------------------------------------------------------------------------------ *)
(* reading k big-endian bytes                                                                  *)

Lemma rd_be_be {A} k (f : N -> A) n r : n < 256 ^ N.of_nat k ->
  rd_be (N.of_nat k) f (be k n ++ r) = Some (f n, r).
Proof.
  intros Hn. unfold rd_be. rewrite take_be. cbn [option_map fst snd].
  rewrite be_val_be by exact Hn. reflexivity.
Qed.

Lemma rd_be_Some {A} k (f : N -> A) l a r : rd_be k f l = Some (a, r) ->
  exists p, l = p ++ r /\ N.of_nat (List.length p) = k /\ a = f (be_val p 0).
Proof.
  unfold rd_be. destruct (take k l) as [[p r']|] eqn:E; cbn [option_map fst snd]; [|discriminate].
  intros Heq. injection Heq as <- <-. apply take_Some in E. destruct E as [-> Hk].
  exists p. auto.
Qed.

Lemma rd_be_app_tail {A} k (f : N -> A) l a r t : rd_be k f l = Some (a, r) ->
  rd_be k f (l ++ t) = Some (a, r ++ t).
Proof.
  unfold rd_be. destruct (take k l) as [[p r']|] eqn:E; cbn [option_map fst snd]; [|discriminate].
  intros Heq. injection Heq as <- <-. rewrite (take_app_tail _ _ _ _ t E). reflexivity.
Qed.

Lemma pow_256_1' : 256 ^ N.of_nat 1 = 256. Proof. reflexivity. Qed.

(* ------------------------------------------------------------------------------------------ *)
(* unsigned integers                                                                           *)

Lemma dec_uint_len_enc_uint n rest : n < 2 ^ 64 -> dec_uint_len (enc_uint n ++ rest) = Some (n, rest).
Proof. intros Hn. apply dec_uint_len_ext, dec_uint_enc_uint, Hn. Qed.

Definition ucode (k : nat) : N := match k with 1%nat => 204 | 2%nat => 205 | 4%nat => 206 | _ => 207 end.
Definition icode (k : nat) : N := match k with 1%nat => 208 | 2%nat => 209 | 4%nat => 210 | _ => 211 end.
Definition widths : list nat := [1; 2; 4; 8]%nat.

Lemma dec_uint_len_u1 r : dec_uint_len (204 :: r) = rd_be (N.of_nat 1) (fun v => v) r. Proof. reflexivity. Qed.
Lemma dec_uint_len_u2 r : dec_uint_len (205 :: r) = rd_be (N.of_nat 2) (fun v => v) r. Proof. reflexivity. Qed.
Lemma dec_uint_len_u4 r : dec_uint_len (206 :: r) = rd_be (N.of_nat 4) (fun v => v) r. Proof. reflexivity. Qed.
Lemma dec_uint_len_u8 r : dec_uint_len (207 :: r) = rd_be (N.of_nat 8) (fun v => v) r. Proof. reflexivity. Qed.
Lemma dec_uint_len_i1 r : dec_uint_len (208 :: r) = rd_be (N.of_nat 1) (twos 8) r. Proof. reflexivity. Qed.
Lemma dec_uint_len_i2 r : dec_uint_len (209 :: r) = rd_be (N.of_nat 2) (twos 16) r. Proof. reflexivity. Qed.
Lemma dec_uint_len_i4 r : dec_uint_len (210 :: r) = rd_be (N.of_nat 4) (twos 32) r. Proof. reflexivity. Qed.
Lemma dec_uint_len_i8 r : dec_uint_len (211 :: r) = rd_be (N.of_nat 8) (twos 64) r. Proof. reflexivity. Qed.

(* every unsigned width that can hold n reads as n (leading zero bytes are harmless) *)
Lemma dec_uint_len_width_l k n r : In k widths -> n < 256 ^ N.of_nat k ->
  dec_uint_len (ucode k :: be k n ++ r) = Some (n, r).
Proof.
  intros Hk Hn. unfold widths in Hk. cbn [In] in Hk.
  destruct Hk as [<-|[<-|[<-|[<-|[]]]]]; cbn [ucode].
  - rewrite dec_uint_len_u1. apply (rd_be_be 1 (fun v => v)), Hn.
  - rewrite dec_uint_len_u2. apply (rd_be_be 2 (fun v => v)), Hn.
  - rewrite dec_uint_len_u4. apply (rd_be_be 4 (fun v => v)), Hn.
  - rewrite dec_uint_len_u8. apply (rd_be_be 8 (fun v => v)), Hn.
Qed.

Theorem dec_uint_len_any_width_l n r : n < 2 ^ 64 ->
  dec_uint_len (enc_uint n ++ r) = Some (n, r) /\
  forall k, In k widths -> n < 256 ^ N.of_nat k -> dec_uint_len (ucode k :: be k n ++ r) = Some (n, r).
Proof.
  intros Hn. split; [apply dec_uint_len_enc_uint, Hn|].
  intros k Hk Hlt. apply dec_uint_len_width_l; assumption.
Qed.

Lemma twos8 v : twos 8 v = if v <? 128 then v else 18446744073709551616 - (256 - v). Proof. reflexivity. Qed.
Lemma twos16 v : twos 16 v = if v <? 32768 then v else 18446744073709551616 - (65536 - v). Proof. reflexivity. Qed.
Lemma twos32 v : twos 32 v = if v <? 2147483648 then v else 18446744073709551616 - (4294967296 - v). Proof. reflexivity. Qed.
Lemma twos64 v : twos 64 v = if v <? 9223372036854775808 then v else 18446744073709551616 - (18446744073709551616 - v).
Proof. reflexivity. Qed.

(* the signed codes in an UNSIGNED field: the value is sign-extended to 64 bits and reinterpreted, so a negative z arrives
   as 2^64 + z (the library does not refuse it) *)
Definition sbits (k : nat) : Z := (8 * Z.of_nat k - 1)%Z.

Lemma dec_uint_len_signed_l k z r : In k widths -> (- 2 ^ sbits k <= z < 2 ^ sbits k)%Z ->
  dec_uint_len (icode k :: be k (Z.to_N (z mod 2 ^ (sbits k + 1))) ++ r) = Some (Z.to_N (z mod 2 ^ 64), r).
Proof.
  intros Hk. unfold widths in Hk. cbn [In] in Hk.
  destruct Hk as [<-|[<-|[<-|[<-|[]]]]]; cbn [icode]; unfold sbits.
  - change (2 ^ (8 * Z.of_nat 1 - 1))%Z with 128%Z. change (2 ^ (8 * Z.of_nat 1 - 1 + 1))%Z with 256%Z.
    change (2 ^ 64)%Z with 18446744073709551616%Z. intros Hz.
    rewrite dec_uint_len_i1, (rd_be_be 1) by (rewrite pow_256_1; lia).
    rewrite twos8. f_equal. f_equal.
    destruct (N.ltb_spec (Z.to_N (z mod 256)) 128); lia.
  - change (2 ^ (8 * Z.of_nat 2 - 1))%Z with 32768%Z. change (2 ^ (8 * Z.of_nat 2 - 1 + 1))%Z with 65536%Z.
    change (2 ^ 64)%Z with 18446744073709551616%Z. intros Hz.
    rewrite dec_uint_len_i2, (rd_be_be 2) by (rewrite pow_256_2; lia).
    rewrite twos16. f_equal. f_equal.
    destruct (N.ltb_spec (Z.to_N (z mod 65536)) 32768); lia.
  - change (2 ^ (8 * Z.of_nat 4 - 1))%Z with 2147483648%Z. change (2 ^ (8 * Z.of_nat 4 - 1 + 1))%Z with 4294967296%Z.
    change (2 ^ 64)%Z with 18446744073709551616%Z. intros Hz.
    rewrite dec_uint_len_i4, (rd_be_be 4) by (rewrite pow_256_4; lia).
    rewrite twos32. f_equal. f_equal.
    destruct (N.ltb_spec (Z.to_N (z mod 4294967296)) 2147483648); lia.
  - change (2 ^ (8 * Z.of_nat 8 - 1))%Z with 9223372036854775808%Z.
    change (2 ^ (8 * Z.of_nat 8 - 1 + 1))%Z with 18446744073709551616%Z.
    change (2 ^ 64)%Z with 18446744073709551616%Z. intros Hz.
    rewrite dec_uint_len_i8, (rd_be_be 8) by (rewrite pow_256_8; lia).
    rewrite twos64. f_equal. f_equal.
    destruct (N.ltb_spec (Z.to_N (z mod 18446744073709551616)) 9223372036854775808); lia.
Qed.

(* fixints: 0..127 are themselves, 224..255 are -32..-1 *)
Lemma dec_uint_len_posfix_l c r : c <= 127 -> dec_uint_len (c :: r) = Some (c, r).
Proof. intros Hc. cbn [dec_uint_len]. destruct (N.leb_spec c 127); [reflexivity|lia]. Qed.

(* ------------------------------------------------------------------------------------------ *)
(* int64                                                                                       *)

Lemma dec_int64_len_u1 r : dec_int64_len (204 :: r) = rd_be (N.of_nat 1) Z.of_N r. Proof. reflexivity. Qed.
Lemma dec_int64_len_u2 r : dec_int64_len (205 :: r) = rd_be (N.of_nat 2) Z.of_N r. Proof. reflexivity. Qed.
Lemma dec_int64_len_u4 r : dec_int64_len (206 :: r) = rd_be (N.of_nat 4) Z.of_N r. Proof. reflexivity. Qed.
Lemma dec_int64_len_u8 r : dec_int64_len (207 :: r) = rd_be (N.of_nat 8) (wrap 64) r. Proof. reflexivity. Qed.
Lemma dec_int64_len_i1 r : dec_int64_len (208 :: r) = rd_be (N.of_nat 1) (wrap 8) r. Proof. reflexivity. Qed.
Lemma dec_int64_len_i2 r : dec_int64_len (209 :: r) = rd_be (N.of_nat 2) (wrap 16) r. Proof. reflexivity. Qed.
Lemma dec_int64_len_i4 r : dec_int64_len (210 :: r) = rd_be (N.of_nat 4) (wrap 32) r. Proof. reflexivity. Qed.
Lemma dec_int64_len_i8 r : dec_int64_len (211 :: r) = rd_be (N.of_nat 8) (wrap 64) r. Proof. reflexivity. Qed.

Lemma wrap8 v : wrap 8 v = if v <? 128 then Z.of_N v else (Z.of_N v - 256)%Z. Proof. reflexivity. Qed.
Lemma wrap16 v : wrap 16 v = if v <? 32768 then Z.of_N v else (Z.of_N v - 65536)%Z. Proof. reflexivity. Qed.
Lemma wrap32 v : wrap 32 v = if v <? 2147483648 then Z.of_N v else (Z.of_N v - 4294967296)%Z. Proof. reflexivity. Qed.
Lemma wrap64 v : wrap 64 v = if v <? 9223372036854775808 then Z.of_N v else (Z.of_N v - 18446744073709551616)%Z.
Proof. reflexivity. Qed.

Lemma dec_int64_len_posfix_l c r : c <= 127 -> dec_int64_len (c :: r) = Some (Z.of_N c, r).
Proof. intros Hc. cbn [dec_int64_len]. destruct (N.leb_spec c 127); [reflexivity|lia]. Qed.
Lemma dec_int64_len_negfix_l c r : 224 <= c -> dec_int64_len (c :: r) = Some ((Z.of_N c - 256)%Z, r).
Proof.
  intros Hc. cbn [dec_int64_len].
  destruct (N.leb_spec c 127); [lia|]. destruct (N.eqb_spec c 192); [lia|].
  destruct (N.leb_spec 224 c); [reflexivity|lia].
Qed.

(* every signed width that can hold z reads as z *)
Lemma dec_int64_len_signed_l k z r : In k widths -> (- 2 ^ sbits k <= z < 2 ^ sbits k)%Z ->
  dec_int64_len (icode k :: be k (Z.to_N (z mod 2 ^ (sbits k + 1))) ++ r) = Some (z, r).
Proof.
  intros Hk. unfold widths in Hk. cbn [In] in Hk.
  destruct Hk as [<-|[<-|[<-|[<-|[]]]]]; cbn [icode]; unfold sbits.
  - change (2 ^ (8 * Z.of_nat 1 - 1))%Z with 128%Z. change (2 ^ (8 * Z.of_nat 1 - 1 + 1))%Z with 256%Z. intros Hz.
    rewrite dec_int64_len_i1, (rd_be_be 1) by (rewrite pow_256_1; lia).
    rewrite wrap8. f_equal. f_equal.
    destruct (N.ltb_spec (Z.to_N (z mod 256)) 128); lia.
  - change (2 ^ (8 * Z.of_nat 2 - 1))%Z with 32768%Z. change (2 ^ (8 * Z.of_nat 2 - 1 + 1))%Z with 65536%Z. intros Hz.
    rewrite dec_int64_len_i2, (rd_be_be 2) by (rewrite pow_256_2; lia).
    rewrite wrap16. f_equal. f_equal.
    destruct (N.ltb_spec (Z.to_N (z mod 65536)) 32768); lia.
  - change (2 ^ (8 * Z.of_nat 4 - 1))%Z with 2147483648%Z. change (2 ^ (8 * Z.of_nat 4 - 1 + 1))%Z with 4294967296%Z. intros Hz.
    rewrite dec_int64_len_i4, (rd_be_be 4) by (rewrite pow_256_4; lia).
    rewrite wrap32. f_equal. f_equal.
    destruct (N.ltb_spec (Z.to_N (z mod 4294967296)) 2147483648); lia.
  - change (2 ^ (8 * Z.of_nat 8 - 1))%Z with 9223372036854775808%Z.
    change (2 ^ (8 * Z.of_nat 8 - 1 + 1))%Z with 18446744073709551616%Z. intros Hz.
    rewrite dec_int64_len_i8, (rd_be_be 8) by (rewrite pow_256_8; lia).
    rewrite wrap64. f_equal. f_equal.
    destruct (N.ltb_spec (Z.to_N (z mod 18446744073709551616)) 9223372036854775808); lia.
Qed.

(* the unsigned codes in an int64 field: uint8/16/32 are never negative; uint64 is CAST (int64(uint64)), so values from 2^63
   on arrive negative: cf ff ff ff ff ff ff ff ff is -1 *)
Lemma dec_int64_len_unsigned_l k n r : In k widths -> n < 256 ^ N.of_nat k ->
  dec_int64_len (ucode k :: be k n ++ r) =
  Some (if n <? 2 ^ 63 then Z.of_N n else (Z.of_N n - 2 ^ 64)%Z, r).
Proof.
  intros Hk. unfold widths in Hk. cbn [In] in Hk.
  change (2 ^ 63) with 9223372036854775808. change (2 ^ 64)%Z with 18446744073709551616%Z.
  destruct Hk as [<-|[<-|[<-|[<-|[]]]]]; cbn [ucode]; intros Hn.
  - rewrite dec_int64_len_u1, (rd_be_be 1) by exact Hn. rewrite pow_256_1 in Hn.
    destruct (N.ltb_spec n 9223372036854775808); [reflexivity|lia].
  - rewrite dec_int64_len_u2, (rd_be_be 2) by exact Hn. rewrite pow_256_2 in Hn.
    destruct (N.ltb_spec n 9223372036854775808); [reflexivity|lia].
  - rewrite dec_int64_len_u4, (rd_be_be 4) by exact Hn. rewrite pow_256_4 in Hn.
    destruct (N.ltb_spec n 9223372036854775808); [reflexivity|lia].
  - rewrite dec_int64_len_u8, (rd_be_be 8) by exact Hn. rewrite wrap64. reflexivity.
Qed.

Lemma dec_int64_len_enc_int z rest : wf_i64 z -> dec_int64_len (enc_int z ++ rest) = Some (z, rest).
Proof.
  unfold wf_i64. change (2 ^ 63)%Z with 9223372036854775808%Z. intros Hz. unfold enc_int.
  destruct (Z.leb_spec 0 z) as [H0|H0].
  { (* non-negative: the unsigned forms *)
    remember (Z.to_N z) as n eqn:Hn. assert (Hzn : z = Z.of_N n) by lia. unfold enc_uint.
    destruct (N.leb_spec n 127) as [H1|H1].
    { cbn [app]. rewrite dec_int64_len_posfix_l by exact H1. rewrite Hzn. reflexivity. }
    destruct (N.leb_spec n 255) as [H2|H2].
    { rewrite <- app_comm_cons, dec_int64_len_u1, (rd_be_be 1) by (rewrite pow_256_1; lia). rewrite Hzn. reflexivity. }
    destruct (N.leb_spec n 65535) as [H3|H3].
    { rewrite <- app_comm_cons, dec_int64_len_u2, (rd_be_be 2) by (rewrite pow_256_2; lia). rewrite Hzn. reflexivity. }
    destruct (N.leb_spec n 4294967295) as [H4|H4].
    { rewrite <- app_comm_cons, dec_int64_len_u4, (rd_be_be 4) by (rewrite pow_256_4; lia). rewrite Hzn. reflexivity. }
    rewrite <- app_comm_cons, dec_int64_len_u8, (rd_be_be 8) by (rewrite pow_256_8; lia).
    rewrite wrap64. destruct (N.ltb_spec n 9223372036854775808); [rewrite Hzn; reflexivity|lia]. }
  destruct (Z.leb_spec (-32) z) as [H1|H1].
  { cbn [app]. rewrite dec_int64_len_negfix_l by lia. f_equal. f_equal. lia. }
  destruct (Z.leb_spec (-128) z) as [H2|H2].
  { rewrite <- app_comm_cons, dec_int64_len_i1, (rd_be_be 1) by (rewrite pow_256_1; lia).
    rewrite wrap8. destruct (N.ltb_spec (Z.to_N (256 + z)) 128); [lia|]. f_equal. f_equal. lia. }
  destruct (Z.leb_spec (-32768) z) as [H3|H3].
  { rewrite <- app_comm_cons, dec_int64_len_i2, (rd_be_be 2) by (rewrite pow_256_2; lia).
    rewrite wrap16. destruct (N.ltb_spec (Z.to_N (65536 + z)) 32768); [lia|]. f_equal. f_equal. lia. }
  destruct (Z.leb_spec (-2147483648) z) as [H4|H4].
  { rewrite <- app_comm_cons, dec_int64_len_i4, (rd_be_be 4) by (rewrite pow_256_4; lia).
    rewrite wrap32. destruct (N.ltb_spec (Z.to_N (4294967296 + z)) 2147483648); [lia|]. f_equal. f_equal. lia. }
  rewrite <- app_comm_cons, dec_int64_len_i8, (rd_be_be 8) by (rewrite pow_256_8; lia).
  rewrite wrap64. destruct (N.ltb_spec (Z.to_N (18446744073709551616 + z)) 9223372036854775808); [lia|]. f_equal. f_equal. lia.
Qed.

Theorem dec_int64_len_any_width_l z r : wf_i64 z ->
  dec_int64_len (enc_int z ++ r) = Some (z, r) /\
  (forall k, In k widths -> (- 2 ^ sbits k <= z < 2 ^ sbits k)%Z ->
     dec_int64_len (icode k :: be k (Z.to_N (z mod 2 ^ (sbits k + 1))) ++ r) = Some (z, r)) /\
  (forall k, In k widths -> (0 <= z)%Z -> Z.to_N z < 256 ^ N.of_nat k ->
     dec_int64_len (ucode k :: be k (Z.to_N z) ++ r) = Some (z, r)).
Proof.
  intros Hz. split; [apply dec_int64_len_enc_int, Hz|]. split.
  - intros k Hk Hr. apply dec_int64_len_signed_l; assumption.
  - intros k Hk H0 Hlt. rewrite dec_int64_len_unsigned_l by assumption.
    unfold wf_i64 in Hz. change (2 ^ 63)%Z with 9223372036854775808%Z in Hz.
    change (2 ^ 63) with 9223372036854775808.
    destruct (N.ltb_spec (Z.to_N z) 9223372036854775808); [|lia]. f_equal. f_equal. lia.
Qed.

(* ------------------------------------------------------------------------------------------ *)
(* strings and byte strings                                                                    *)

Lemma dec_blen_fixstr c r : 160 <= c <= 191 -> dec_blen (c :: r) = Some (Some (c - 160), r).
Proof.
  intros Hc. cbn [dec_blen]. destruct (N.eqb_spec c 192); [lia|].
  destruct (N.leb_spec 160 c); [|lia]. destruct (N.leb_spec c 191); [reflexivity|lia].
Qed.
Lemma dec_blen_s8 r : dec_blen (217 :: r) = rd_be (N.of_nat 1) Some r. Proof. reflexivity. Qed.
Lemma dec_blen_s16 r : dec_blen (218 :: r) = rd_be (N.of_nat 2) Some r. Proof. reflexivity. Qed.
Lemma dec_blen_s32 r : dec_blen (219 :: r) = rd_be (N.of_nat 4) Some r. Proof. reflexivity. Qed.
Lemma dec_blen_b8 r : dec_blen (196 :: r) = rd_be (N.of_nat 1) Some r. Proof. reflexivity. Qed.
Lemma dec_blen_b16 r : dec_blen (197 :: r) = rd_be (N.of_nat 2) Some r. Proof. reflexivity. Qed.
Lemma dec_blen_b32 r : dec_blen (198 :: r) = rd_be (N.of_nat 4) Some r. Proof. reflexivity. Qed.

Lemma dec_bytes_len_intro l n r p r' : dec_blen l = Some (Some n, r) -> take n r = Some (p, r') ->
  dec_bytes_len l = Some (Some p, r').
Proof. intros H1 H2. unfold dec_bytes_len. rewrite H1, H2. reflexivity. Qed.

(* a byte string under any of the six length-prefixed headers, or a fixstr *)
Lemma dec_bytes_len_payload c k p rest :
  (c = 217 \/ c = 196) /\ k = 1%nat \/ (c = 218 \/ c = 197) /\ k = 2%nat \/ (c = 219 \/ c = 198) /\ k = 4%nat ->
  N.of_nat (List.length p) < 256 ^ N.of_nat k ->
  dec_bytes_len (c :: be k (N.of_nat (List.length p)) ++ p ++ rest) = Some (Some p, rest).
Proof.
  intros Hc Hlen. apply dec_bytes_len_intro with (n := N.of_nat (List.length p)) (r := p ++ rest).
  - destruct Hc as [[[-> | ->] ->]|[[[-> | ->] ->]|[[-> | ->] ->]]].
    + rewrite dec_blen_s8. apply (rd_be_be 1 Some), Hlen.
    + rewrite dec_blen_b8. apply (rd_be_be 1 Some), Hlen.
    + rewrite dec_blen_s16. apply (rd_be_be 2 Some), Hlen.
    + rewrite dec_blen_b16. apply (rd_be_be 2 Some), Hlen.
    + rewrite dec_blen_s32. apply (rd_be_be 4 Some), Hlen.
    + rewrite dec_blen_b32. apply (rd_be_be 4 Some), Hlen.
  - apply take_app. reflexivity.
Qed.

Lemma dec_bytes_len_fixstr p rest : N.of_nat (List.length p) < 32 ->
  dec_bytes_len ((160 + N.of_nat (List.length p)) :: p ++ rest) = Some (Some p, rest).
Proof.
  intros Hlen. apply dec_bytes_len_intro with (n := N.of_nat (List.length p)) (r := p ++ rest).
  - rewrite dec_blen_fixstr by lia. f_equal. f_equal. f_equal. lia.
  - apply take_app. reflexivity.
Qed.

(* str and bin headers are interchangeable, for strings as for byte strings *)
Lemma dec_bytes_len_enc_bin p rest : N.of_nat (List.length p) < 2 ^ 32 ->
  dec_bytes_len (enc_bin p ++ rest) = Some (Some p, rest).
Proof.
  rewrite pow_2_32. intros Hlen. unfold enc_bin. rewrite <- app_assoc.
  destruct (N.ltb_spec (N.of_nat (List.length p)) 256) as [H1|H1].
  { rewrite <- (be_1 _ H1). rewrite <- app_comm_cons.
    apply (dec_bytes_len_payload 196 1); [auto|rewrite pow_256_1; exact H1]. }
  destruct (N.leb_spec (N.of_nat (List.length p)) 65535) as [H2|H2].
  { rewrite <- app_comm_cons. apply (dec_bytes_len_payload 197 2); [auto 6|rewrite pow_256_2; lia]. }
  rewrite <- app_comm_cons. apply (dec_bytes_len_payload 198 4); [auto 6|rewrite pow_256_4; lia].
Qed.

Lemma dec_bytes_len_enc_str p rest : N.of_nat (List.length p) < 2 ^ 32 ->
  dec_bytes_len (enc_str p ++ rest) = Some (Some p, rest).
Proof.
  rewrite pow_2_32. intros Hlen. unfold enc_str. rewrite <- app_assoc.
  destruct (N.ltb_spec (N.of_nat (List.length p)) 32) as [H0|H0].
  { cbn [app]. apply dec_bytes_len_fixstr, H0. }
  destruct (N.ltb_spec (N.of_nat (List.length p)) 256) as [H1|H1].
  { rewrite <- (be_1 _ H1). rewrite <- app_comm_cons.
    apply (dec_bytes_len_payload 217 1); [auto|rewrite pow_256_1; exact H1]. }
  destruct (N.leb_spec (N.of_nat (List.length p)) 65535) as [H2|H2].
  { rewrite <- app_comm_cons. apply (dec_bytes_len_payload 218 2); [auto 6|rewrite pow_256_2; lia]. }
  rewrite <- app_comm_cons. apply (dec_bytes_len_payload 219 4); [auto 6|rewrite pow_256_4; lia].
Qed.

Lemma dec_bytes_len_enc_obin o rest : wf_obin o -> dec_bytes_len (enc_obin o ++ rest) = Some (o, rest).
Proof.
  destruct o as [p|]; cbn [wf_obin enc_obin]; [apply dec_bytes_len_enc_bin|].
  intros _. reflexivity.
Qed.

Lemma dec_str_len_of_bytes l p r : dec_bytes_len l = Some (Some p, r) -> dec_str_len l = Some (p, r).
Proof. intros H. unfold dec_str_len. rewrite H. reflexivity. Qed.

Lemma dec_str_len_enc_str p rest : N.of_nat (List.length p) < 2 ^ 32 -> dec_str_len (enc_str p ++ rest) = Some (p, rest).
Proof. intros H. apply dec_str_len_of_bytes, dec_bytes_len_enc_str, H. Qed.
Lemma dec_str_len_enc_bin p rest : N.of_nat (List.length p) < 2 ^ 32 -> dec_str_len (enc_bin p ++ rest) = Some (p, rest).
Proof. intros H. apply dec_str_len_of_bytes, dec_bytes_len_enc_bin, H. Qed.

(* Coq strings <-> bytes *)
Lemma bytes_str_str_bytes s : bytes_str (str_bytes s) = s.
Proof.
  unfold str_bytes. induction s as [|a s IH]; [reflexivity|].
  cbn [list_ascii_of_string map bytes_str fold_right]. fold (bytes_str (map N_of_ascii (list_ascii_of_string s))).
  rewrite IH, ascii_N_embedding. reflexivity.
Qed.

(* ------------------------------------------------------------------------------------------ *)
(* nil is the zero value of every scalar                                                       *)

Lemma dec_int64_len_nil_l r : dec_int64_len (192 :: r) = Some (0%Z, r). Proof. reflexivity. Qed.
Lemma dec_str_len_nil_l r : dec_str_len (192 :: r) = Some ([], r). Proof. reflexivity. Qed.
Lemma dec_bytes_len_nil_l r : dec_bytes_len (192 :: r) = Some (None, r). Proof. reflexivity. Qed.
Lemma dec_field_nil_l k r : dec_field k (192 :: r) = Some (fzero k, r).
Proof. destruct k as [bits| |]; [|reflexivity|reflexivity]. cbn [dec_field fzero]. unfold dec_uint64_len.
  rewrite dec_uint_len_nil_l. cbn [option_map fst snd]. rewrite N.mod_0_l; [reflexivity|]. apply N.pow_nonzero. discriminate. Qed.
Lemma dec_struct_nil_l sch r : dec_struct sch (192 :: r) = Some (fzeros sch, r). Proof. reflexivity. Qed.

(* ------------------------------------------------------------------------------------------ *)
(* big.Int.Bytes() / SetBytes                                                                  *)

Lemma be_val_be_min_fuel fuel : forall n, n < 2 ^ N.of_nat fuel -> be_val (be_min_fuel fuel n) 0 = n.
Proof.
  induction fuel as [|fuel IH]; intros n Hn.
  - change (2 ^ N.of_nat 0) with 1 in Hn. cbn [be_min_fuel be_val]. lia.
  - cbn [be_min_fuel]. destruct (N.eqb_spec n 0) as [->|Hnz]; [reflexivity|].
    rewrite be_val_app, IH.
    + cbn [be_val]. lia.
    + rewrite Nat2N.inj_succ, N.pow_succ_r' in Hn.
      generalize dependent (2 ^ N.of_nat fuel). intros p Hp. lia.
Qed.

Lemma be_val_be_min n : be_val (be_min n) 0 = n.
Proof.
  unfold be_min. apply be_val_be_min_fuel.
  destruct (N.eqb_spec n 0) as [->|Hnz]; [reflexivity|].
  rewrite Nat2N.inj_succ, N2Nat.id. apply N.log2_spec. lia.
Qed.

(* ------------------------------------------------------------------------------------------ *)
(* struct fields and array-encoded structs                                                     *)

Lemma dec_field_uint bits n rest : n < 2 ^ 64 -> dec_field (FU bits) (enc_uint n ++ rest) = Some (VU (n mod 2 ^ bits), rest).
Proof.
  intros Hn. cbn [dec_field]. unfold dec_uint64_len. rewrite dec_uint_len_enc_uint by exact Hn. reflexivity.
Qed.
Lemma dec_field_uint64 n rest : n < 2 ^ 64 -> dec_field (FU 64) (enc_uint n ++ rest) = Some (VU n, rest).
Proof. intros Hn. rewrite dec_field_uint by exact Hn. rewrite N.mod_small by exact Hn. reflexivity. Qed.
Lemma dec_field_int z rest : wf_i64 z -> dec_field FI (enc_int z ++ rest) = Some (VI z, rest).
Proof. intros Hz. cbn [dec_field]. rewrite dec_int64_len_enc_int by exact Hz. reflexivity. Qed.
Lemma dec_field_str s rest : wf_str s -> dec_field FS (enc_str (str_bytes s) ++ rest) = Some (VS (str_bytes s), rest).
Proof.
  unfold wf_str. intros Hs. cbn [dec_field]. rewrite dec_str_len_enc_str; [reflexivity|].
  rewrite str_bytes_length. exact Hs.
Qed.

(* an array whose length is the number of fields: the fields in order *)
Lemma dec_struct_arr sch c r : 144 < c -> c <= 159 -> c - 144 = N.of_nat (List.length sch) ->
  dec_struct sch (c :: r) = dec_fields (map snd sch) r.
Proof.
  intros H1 H2 Hlen. unfold dec_struct.
  destruct (N.eqb_spec c 192); [lia|].
  destruct (N.leb_spec 128 c); [|lia]. destruct (N.leb_spec c 143); [lia|]. cbn [andb].
  destruct (N.eqb_spec c 222); [lia|]. destruct (N.eqb_spec c 223); [lia|].
  rewrite dec_arr_hdr_fix by lia.
  destruct (N.eqb_spec (c - 144) 0); [lia|].
  destruct (N.eqb_spec (c - 144) (N.of_nat (List.length sch))); [reflexivity|lia].
Qed.

Lemma dec_struct_arr1 sch x : List.length sch = 1%nat -> dec_struct sch (arr1 ++ x) = dec_fields (map snd sch) x.
Proof. intros Hl. unfold arr1. cbn [app]. apply dec_struct_arr; [lia|lia|rewrite Hl; reflexivity]. Qed.
Lemma dec_struct_arr2 sch x : List.length sch = 2%nat -> dec_struct sch (arr2 ++ x) = dec_fields (map snd sch) x.
Proof. intros Hl. unfold arr2. cbn [app]. apply dec_struct_arr; [lia|lia|rewrite Hl; reflexivity]. Qed.
Lemma dec_struct_arr3 sch x : List.length sch = 3%nat -> dec_struct sch (arr3 ++ x) = dec_fields (map snd sch) x.
Proof. intros Hl. unfold arr3. cbn [app]. apply dec_struct_arr; [lia|lia|rewrite Hl; reflexivity]. Qed.

(* the empty array is the zero value, whatever the struct *)
Lemma dec_struct_arr0_l sch r : dec_struct sch (144 :: r) = Some (fzeros sch, r).
Proof. reflexivity. Qed.

(* any other length is refused: v5.3.5 neither fills a short array nor skips the surplus of a long one *)
Lemma dec_struct_arr_len_l sch l n r : dec_arr_hdr l = Some (n, r) -> n <> 0 -> n <> N.of_nat (List.length sch) ->
  dec_struct sch l = None.
Proof.
  intros Hh Hn0 Hnl. destruct l as [|c r0]; [discriminate|].
  assert (Hc : 144 <= c <= 159 \/ c = 220 \/ c = 221).
  { cbn [dec_arr_hdr] in Hh.
    destruct (N.leb_spec 144 c); destruct (N.leb_spec c 159); cbn [andb] in Hh; try lia;
      destruct (N.eqb_spec c 220); try lia; destruct (N.eqb_spec c 221); try lia; discriminate. }
  unfold dec_struct.
  destruct (N.eqb_spec c 192); [lia|].
  destruct (N.leb_spec 128 c); destruct (N.leb_spec c 143); cbn [andb]; try lia;
    (destruct (N.eqb_spec c 222); [lia|]); (destruct (N.eqb_spec c 223); [lia|]);
    rewrite Hh; (destruct (N.eqb_spec n 0); [lia|]);
    (destruct (N.eqb_spec n (N.of_nat (List.length sch))); [lia|reflexivity]).
Qed.

(* ------------------------------------------------------------------------------------------ *)
(* the typed decoder on the canonical encoding, type by type                                   *)

Ltac body_ty := unfold dec_body_rest; cbn [N.eqb Pos.eqb].

Lemma dec_body_rest_org id m rest : id < 2 ^ 64 -> m < 2 ^ 64 ->
  dec_body_rest 0 (arr2 ++ enc_uint id ++ enc_uint m ++ rest) = Some (COrganization id (m mod 2 ^ 16), rest).
Proof.
  intros Hid Hm. body_ty. rewrite dec_struct_arr2 by reflexivity.
  unfold sch_org. cbn [map snd dec_fields].
  rewrite dec_field_uint64 by exact Hid. rewrite dec_field_uint by exact Hm. reflexivity.
Qed.

Lemma dec_body_rest_vw nb na rest : wf_i64 nb -> wf_i64 na ->
  dec_body_rest 4 (arr2 ++ enc_int nb ++ enc_int na ++ rest) = Some (CValidityWindow nb na, rest).
Proof.
  intros Hnb Hna. body_ty. rewrite dec_struct_arr2 by reflexivity.
  unfold sch_vw. cbn [map snd dec_fields].
  rewrite dec_field_int by exact Hnb. rewrite dec_field_int by exact Hna. reflexivity.
Qed.

Lemma dec_struct_id id rest : id < 2 ^ 64 -> dec_struct sch_id (arr1 ++ enc_uint id ++ rest) = Some ([VU id], rest).
Proof.
  intros Hid. rewrite dec_struct_arr1 by reflexivity. unfold sch_id. cbn [map snd dec_fields].
  rewrite dec_field_uint64 by exact Hid. reflexivity.
Qed.

Lemma dec_body_rest_confine_user id rest : id < 2 ^ 64 ->
  dec_body_rest 8 (arr1 ++ enc_uint id ++ rest) = Some (CConfineUser id, rest).
Proof. intros Hid. body_ty. rewrite dec_struct_id by exact Hid. reflexivity. Qed.
Lemma dec_body_rest_confine_org id rest : id < 2 ^ 64 ->
  dec_body_rest 9 (arr1 ++ enc_uint id ++ rest) = Some (CConfineOrganization id, rest).
Proof. intros Hid. body_ty. rewrite dec_struct_id by exact Hid. reflexivity. Qed.
Lemma dec_body_rest_is_user id rest : id < 2 ^ 64 ->
  dec_body_rest 10 (arr1 ++ enc_uint id ++ rest) = Some (CIsUser id, rest).
Proof. intros Hid. body_ty. rewrite dec_struct_id by exact Hid. reflexivity. Qed.

Lemma dec_body_rest_bind o rest : wf_obin o -> dec_body_rest 12 (enc_obin o ++ rest) = Some (CBind o, rest).
Proof. intros Ho. body_ty. rewrite dec_bytes_len_enc_obin by exact Ho. reflexivity. Qed.

Lemma dec_body_rest_from_machine s rest : wf_str s ->
  dec_body_rest 15 (arr1 ++ enc_str (str_bytes s) ++ rest) = Some (CFromMachine s, rest).
Proof.
  intros Hs. body_ty. rewrite dec_struct_arr1 by reflexivity. unfold sch_sid. cbn [map snd dec_fields].
  rewrite dec_field_str by exact Hs. rewrite bytes_str_str_bytes. reflexivity.
Qed.

Lemma dec_body_rest_google_hd s rest : wf_str s ->
  dec_body_rest 19 (enc_str (str_bytes s) ++ rest) = Some (CConfineGoogleHD s, rest).
Proof.
  unfold wf_str. intros Hs. body_ty. rewrite dec_str_len_enc_str by (rewrite str_bytes_length; exact Hs).
  cbn [option_map fst snd]. rewrite bytes_str_str_bytes. reflexivity.
Qed.

Lemma bare_uint_enc bits K n rest : n < 2 ^ 64 -> bare_uint bits K (enc_uint n ++ rest) = Some (K (n mod 2 ^ bits), rest).
Proof. intros Hn. unfold bare_uint, dec_uint64_len. rewrite dec_uint_len_enc_uint by exact Hn. reflexivity. Qed.
Lemma bare_uint64_enc K n rest : n < 2 ^ 64 -> bare_uint 64 K (enc_uint n ++ rest) = Some (K n, rest).
Proof. intros Hn. rewrite bare_uint_enc by exact Hn. rewrite N.mod_small by exact Hn. reflexivity. Qed.

Lemma dec_body_rest_github_org n rest : n < 2 ^ 64 -> dec_body_rest 20 (enc_uint n ++ rest) = Some (CConfineGitHubOrg n, rest).
Proof. intros Hn. body_ty. apply bare_uint64_enc, Hn. Qed.
Lemma dec_body_rest_max_validity n rest : n < 2 ^ 64 -> dec_body_rest 21 (enc_uint n ++ rest) = Some (CMaxValidity n, rest).
Proof. intros Hn. body_ty. apply bare_uint64_enc, Hn. Qed.
Lemma dec_body_rest_is_member rest : dec_body_rest 22 ([144] ++ rest) = Some (CIsMember, rest).
Proof. reflexivity. Qed.
Lemma dec_body_rest_flyio_uid n rest : n < 2 ^ 64 -> dec_body_rest 23 (enc_uint n ++ rest) = Some (CFlyioUserID n, rest).
Proof. intros Hn. body_ty. apply bare_uint64_enc, Hn. Qed.
Lemma dec_body_rest_github_uid n rest : n < 2 ^ 64 -> dec_body_rest 24 (enc_uint n ++ rest) = Some (CGitHubUserID n, rest).
Proof. intros Hn. body_ty. apply bare_uint64_enc, Hn. Qed.

Lemma dec_body_rest_google_uid n rest : N.log2 n + 1 < 2 ^ 32 ->
  dec_body_rest 25 (enc_bin (be_min n) ++ rest) = Some (CGoogleUserID n, rest).
Proof.
  intros Hn. body_ty. rewrite dec_bytes_len_enc_bin by (pose proof (be_min_length n); lia).
  rewrite be_val_be_min. reflexivity.
Qed.

Lemma dec_body_rest_action m rest : m < 2 ^ 64 -> dec_body_rest 26 (enc_uint m ++ rest) = Some (CAction (m mod 2 ^ 16), rest).
Proof. intros Hm. body_ty. apply bare_uint_enc, Hm. Qed.
Lemma dec_body_rest_roles m rest : m < 2 ^ 64 -> dec_body_rest 30 (enc_uint m ++ rest) = Some (CAllowedRoles (m mod 2 ^ 32), rest).
Proof. intros Hm. body_ty. apply bare_uint_enc, Hm. Qed.

Lemma dec_body_rest_fly_src o a i rest : wf_str o -> wf_str a -> wf_str i ->
  dec_body_rest 31 (arr3 ++ enc_str (str_bytes o) ++ enc_str (str_bytes a) ++ enc_str (str_bytes i) ++ rest) =
  Some (CFlySrc o a i, rest).
Proof.
  intros Ho Ha Hi. body_ty. rewrite dec_struct_arr3 by reflexivity. unfold sch_src. cbn [map snd dec_fields].
  rewrite dec_field_str by exact Ho. rewrite dec_field_str by exact Ha. rewrite dec_field_str by exact Hi.
  rewrite !bytes_str_str_bytes. reflexivity.
Qed.

(* ------------------------------------------------------------------------------------------ *)
(* the round trip                                                                              *)

Lemma trunc_cav_fits c : fits_cav c = true -> trunc_cav c = c.
Proof.
  destruct c; cbn [fits_cav trunc_cav]; try reflexivity; intros Hf;
    rewrite N.mod_small by (apply N.ltb_lt, Hf); reflexivity.
Qed.

Ltac fold_arr :=
  match goal with
  | |- context [145 :: ?x] => change (145 :: x) with (arr1 ++ x)
  | |- context [146 :: ?x] => change (146 :: x) with (arr2 ++ x)
  | |- context [147 :: ?x] => change (147 :: x) with (arr3 ++ x)
  | _ => idtac
  end.

(* decoding the canonical body, followed by anything: the caveat (masks cut to the width of their Go type), and exactly the
   bytes that followed *)
Theorem dec_body_rest_enc_body_l c : scalar_cav c = true -> wf_cav c -> forall b rest, enc_body c = Some b ->
  dec_body_rest (cav_type c) (b ++ rest) = Some (trunc_cav c, rest).
Proof.
  intros Hs Hwf b rest Hb.
  destruct c; try discriminate Hs; cbn [enc_body] in Hb; injection Hb as <-;
    cbn [cav_type trunc_cav]; cbn [wf_cav] in Hwf; cbn [List.app]; rewrite <- ?app_assoc; fold_arr.
  - destruct Hwf as [Hid Hm]. apply dec_body_rest_org; assumption.
  - destruct Hwf as [Hnb Hna]. apply dec_body_rest_vw; assumption.
  - apply dec_body_rest_confine_user, Hwf.
  - apply dec_body_rest_confine_org, Hwf.
  - apply dec_body_rest_is_user, Hwf.
  - apply dec_body_rest_bind, Hwf.
  - apply dec_body_rest_from_machine, Hwf.
  - apply dec_body_rest_google_hd, Hwf.
  - apply dec_body_rest_github_org, Hwf.
  - apply dec_body_rest_max_validity, Hwf.
  - apply dec_body_rest_is_member.
  - apply dec_body_rest_flyio_uid, Hwf.
  - apply dec_body_rest_github_uid, Hwf.
  - apply dec_body_rest_google_uid, Hwf.
  - apply dec_body_rest_action, Hwf.
  - apply dec_body_rest_roles, Hwf.
  - destruct Hwf as (Ho & Ha & Hi). apply dec_body_rest_fly_src; assumption.
Qed.

Theorem dec_body_enc_body_trunc_l c : scalar_cav c = true -> wf_cav c -> forall b, enc_body c = Some b ->
  dec_body (cav_type c) b = Some (trunc_cav c).
Proof.
  intros Hs Hwf b Hb. unfold dec_body. rewrite <- (app_nil_r b).
  rewrite (dec_body_rest_enc_body_l c Hs Hwf b [] Hb). reflexivity.
Qed.

(* the requested statement; [fits_cav] is needed because wf_cav lets masks range over 64 bits where Go has 16 / 32 *)
Theorem dec_body_enc_body_l c : scalar_cav c = true -> fits_cav c = true -> wf_cav c -> forall b, enc_body c = Some b ->
  dec_body (cav_type c) b = Some c.
Proof.
  intros Hs Hf Hwf b Hb. rewrite (dec_body_enc_body_trunc_l c Hs Hwf b Hb), trunc_cav_fits by exact Hf. reflexivity.
Qed.

(* without [fits_cav] the statement is false: the encoder writes all of a 17-bit mask, the decoder keeps 16 bits *)
Example dec_body_enc_body_needs_fits :
  option_map (dec_body 26) (enc_body (CAction 65537)) = Some (Some (CAction 1)).
Proof. vm_compute. reflexivity. Qed.

(* ------------------------------------------------------------------------------------------ *)
(* nil in place of the whole body: the zero value of the type                                  *)

Theorem dec_body_nil_l r :
  dec_body_rest 0 (192 :: r) = Some (COrganization 0 0, r) /\
  dec_body_rest 4 (192 :: r) = Some (CValidityWindow 0 0, r) /\
  dec_body_rest 8 (192 :: r) = Some (CConfineUser 0, r) /\
  dec_body_rest 9 (192 :: r) = Some (CConfineOrganization 0, r) /\
  dec_body_rest 10 (192 :: r) = Some (CIsUser 0, r) /\
  dec_body_rest 12 (192 :: r) = Some (CBind None, r) /\
  dec_body_rest 15 (192 :: r) = Some (CFromMachine "", r) /\
  dec_body_rest 19 (192 :: r) = Some (CConfineGoogleHD "", r) /\
  dec_body_rest 20 (192 :: r) = Some (CConfineGitHubOrg 0, r) /\
  dec_body_rest 21 (192 :: r) = Some (CMaxValidity 0, r) /\
  dec_body_rest 22 (192 :: r) = Some (CIsMember, r) /\
  dec_body_rest 23 (192 :: r) = Some (CFlyioUserID 0, r) /\
  dec_body_rest 24 (192 :: r) = Some (CGitHubUserID 0, r) /\
  dec_body_rest 25 (192 :: r) = Some (CGoogleUserID 0, r) /\
  dec_body_rest 26 (192 :: r) = Some (CAction 0, r) /\
  dec_body_rest 30 (192 :: r) = Some (CAllowedRoles 0, r) /\
  dec_body_rest 31 (192 :: r) = Some (CFlySrc "" "" "", r).
Proof. repeat split. Qed.

(* nil in place of one field: that field is zero, the others are read as usual *)
Example dec_body_nil_field :
  dec_body 0 [146; 192; 5] = Some (COrganization 0 5) /\ dec_body 0 [146; 7; 192] = Some (COrganization 7 0) /\
  dec_body 4 [146; 192; 192] = Some (CValidityWindow 0 0) /\ dec_body 31 [147; 192; 161; 97; 192] = Some (CFlySrc "" "a" "").
Proof. repeat split. Qed.

(* ------------------------------------------------------------------------------------------ *)
(* one value is read: what follows it is irrelevant                                            *)

Lemma dec_uint_len_eq l : dec_uint_len l =
  match l with
  | [] => None
  | c :: r =>
    if c <=? 127 then Some (c, r)
    else if c =? 192 then Some (0, r)
    else if 224 <=? c then Some (2 ^ 64 - (256 - c), r)
    else if c =? 204 then rd_be 1 (fun v => v) r
    else if c =? 205 then rd_be 2 (fun v => v) r
    else if c =? 206 then rd_be 4 (fun v => v) r
    else if c =? 207 then rd_be 8 (fun v => v) r
    else if c =? 208 then rd_be 1 (twos 8) r
    else if c =? 209 then rd_be 2 (twos 16) r
    else if c =? 210 then rd_be 4 (twos 32) r
    else if c =? 211 then rd_be 8 (twos 64) r
    else None
  end.
Proof. destruct l; reflexivity. Qed.

Lemma dec_arr_hdr_eq l : dec_arr_hdr l =
  match l with
  | [] => None
  | c :: r =>
    if (144 <=? c) && (c <=? 159) then Some (c - 144, r)
    else if c =? 220 then rd_be 2 (fun v => v) r
    else if c =? 221 then rd_be 4 (fun v => v) r
    else None
  end.
Proof. destruct l; reflexivity. Qed.

Ltac tail_ifs :=
  repeat match goal with |- (if ?b then _ else _) = _ -> (if ?b then _ else _) = _ => destruct b end;
  try discriminate;
  try (let H := fresh "H" in intros H; injection H as <- <-; reflexivity);
  try (apply rd_be_app_tail).

Lemma dec_uint_len_app_tail l n r t : dec_uint_len l = Some (n, r) -> dec_uint_len (l ++ t) = Some (n, r ++ t).
Proof.
  rewrite !dec_uint_len_eq. destruct l as [|c l0]; [discriminate|]. rewrite <- app_comm_cons. tail_ifs.
Qed.

Lemma dec_arr_hdr_app_tail l n r t : dec_arr_hdr l = Some (n, r) -> dec_arr_hdr (l ++ t) = Some (n, r ++ t).
Proof.
  rewrite !dec_arr_hdr_eq. destruct l as [|c l0]; [discriminate|]. rewrite <- app_comm_cons. tail_ifs.
Qed.

Lemma dec_int64_len_app_tail l z r t : dec_int64_len l = Some (z, r) -> dec_int64_len (l ++ t) = Some (z, r ++ t).
Proof.
  destruct l as [|c l0]; [discriminate|]. rewrite <- app_comm_cons. cbn [dec_int64_len]. tail_ifs.
Qed.

Lemma dec_blen_app_tail l o r t : dec_blen l = Some (o, r) -> dec_blen (l ++ t) = Some (o, r ++ t).
Proof.
  destruct l as [|c l0]; [discriminate|]. rewrite <- app_comm_cons. cbn [dec_blen]. tail_ifs.
Qed.

Lemma dec_bytes_len_app_tail l o r t : dec_bytes_len l = Some (o, r) -> dec_bytes_len (l ++ t) = Some (o, r ++ t).
Proof.
  unfold dec_bytes_len. destruct (dec_blen l) as [[[n|] r1]|] eqn:E; [| |discriminate];
    rewrite (dec_blen_app_tail _ _ _ t E).
  - destruct (take n r1) as [[p r2]|] eqn:E2; [|discriminate].
    rewrite (take_app_tail _ _ _ _ t E2). intros H. injection H as <- <-. reflexivity.
  - intros H. injection H as <- <-. reflexivity.
Qed.

Lemma dec_str_len_app_tail l p r t : dec_str_len l = Some (p, r) -> dec_str_len (l ++ t) = Some (p, r ++ t).
Proof.
  unfold dec_str_len. destruct (dec_bytes_len l) as [[[q|] r1]|] eqn:E; [| |discriminate];
    rewrite (dec_bytes_len_app_tail _ _ _ t E); intros H; injection H as <- <-; reflexivity.
Qed.

Lemma dec_field_app_tail k l v r t : dec_field k l = Some (v, r) -> dec_field k (l ++ t) = Some (v, r ++ t).
Proof.
  destruct k as [bits| |]; cbn [dec_field].
  - unfold dec_uint64_len. destruct (dec_uint_len l) as [[n r1]|] eqn:E; [|discriminate].
    rewrite (dec_uint_len_app_tail _ _ _ t E). cbn [option_map fst snd]. intros H. injection H as <- <-. reflexivity.
  - destruct (dec_int64_len l) as [[z r1]|] eqn:E; [|discriminate].
    rewrite (dec_int64_len_app_tail _ _ _ t E). cbn [option_map fst snd]. intros H. injection H as <- <-. reflexivity.
  - destruct (dec_str_len l) as [[p r1]|] eqn:E; [|discriminate].
    rewrite (dec_str_len_app_tail _ _ _ t E). cbn [option_map fst snd]. intros H. injection H as <- <-. reflexivity.
Qed.

Lemma dec_fields_app_tail ks t : forall l vs r, dec_fields ks l = Some (vs, r) -> dec_fields ks (l ++ t) = Some (vs, r ++ t).
Proof.
  induction ks as [|k ks IH]; intros l vs r; cbn [dec_fields].
  - intros H. injection H as <- <-. reflexivity.
  - destruct (dec_field k l) as [[v r1]|] eqn:E; [|discriminate]. rewrite (dec_field_app_tail _ _ _ _ t E).
    destruct (dec_fields ks r1) as [[vs' r2]|] eqn:E2; [|discriminate]. rewrite (IH _ _ _ E2).
    intros H. injection H as <- <-. reflexivity.
Qed.

(* Skip with the fuel the map form uses *)
Lemma skip_len_app_tail r r' t : skip (S (List.length r)) r = Some r' ->
  skip (S (List.length (r ++ t))) (r ++ t) = Some (r' ++ t).
Proof.
  intros H. apply (skip_app_tail _ t) in H. apply (skip_fuel_mono _ _ _ _ H). rewrite app_length. lia.
Qed.

Lemma dec_map_entries_app_tail sch t n : forall vs l vs' r,
  dec_map_entries sch n vs l = Some (vs', r) -> dec_map_entries sch n vs (l ++ t) = Some (vs', r ++ t).
Proof.
  induction n as [|n IH]; intros vs l vs' r; cbn [dec_map_entries].
  - intros H. injection H as <- <-. reflexivity.
  - destruct (dec_str_len l) as [[name r1]|] eqn:E; [|discriminate]. rewrite (dec_str_len_app_tail _ _ _ t E).
    destruct (find_field sch name 0) as [[i k]|].
    + destruct (dec_field k r1) as [[v r2]|] eqn:E2; [|discriminate]. rewrite (dec_field_app_tail _ _ _ _ t E2). apply IH.
    + destruct (skip (S (List.length r1)) r1) as [r2|] eqn:E2; [|discriminate]. rewrite (skip_len_app_tail _ _ t E2). apply IH.
Qed.

Lemma dec_map_app_tail sch n l vs r t : dec_map sch n l = Some (vs, r) -> dec_map sch n (l ++ t) = Some (vs, r ++ t).
Proof.
  unfold dec_map. rewrite app_length.
  destruct (N.ltb_spec (N.of_nat (List.length l)) (2 * n)) as [H1|H1]; [discriminate|].
  destruct (N.ltb_spec (N.of_nat (List.length l + List.length t)) (2 * n)) as [H2|H2]; [lia|].
  apply dec_map_entries_app_tail.
Qed.

Lemma dec_struct_app_tail sch l vs r t : dec_struct sch l = Some (vs, r) -> dec_struct sch (l ++ t) = Some (vs, r ++ t).
Proof.
  destruct l as [|c l0]; [discriminate|]. unfold dec_struct. rewrite <- app_comm_cons.
  destruct (c =? 192). { intros H. injection H as <- <-. reflexivity. }
  destruct ((128 <=? c) && (c <=? 143)). { apply dec_map_app_tail. }
  destruct (c =? 222).
  { destruct (take 2 l0) as [[lb r1]|] eqn:E; [|discriminate]. rewrite (take_app_tail _ _ _ _ t E). apply dec_map_app_tail. }
  destruct (c =? 223).
  { destruct (take 4 l0) as [[lb r1]|] eqn:E; [|discriminate]. rewrite (take_app_tail _ _ _ _ t E). apply dec_map_app_tail. }
  destruct (dec_arr_hdr (c :: l0)) as [[n r1]|] eqn:E; [|discriminate].
  rewrite app_comm_cons, (dec_arr_hdr_app_tail _ _ _ t E).
  destruct (n =? 0). { intros H. injection H as <- <-. reflexivity. }
  destruct (n =? N.of_nat (List.length sch)); [|discriminate]. apply dec_fields_app_tail.
Qed.

Lemma bare_uint_app_tail bits K l c r t : bare_uint bits K l = Some (c, r) -> bare_uint bits K (l ++ t) = Some (c, r ++ t).
Proof.
  unfold bare_uint, dec_uint64_len. destruct (dec_uint_len l) as [[n r1]|] eqn:E; [|discriminate].
  rewrite (dec_uint_len_app_tail _ _ _ t E). cbn [option_map fst snd]. intros H. injection H as <- <-. reflexivity.
Qed.

Ltac struct_tail sch b t :=
  let E := fresh "E" in let vs := fresh "vs" in let r1 := fresh "r1" in
  destruct (dec_struct sch b) as [[vs r1]|] eqn:E; [|discriminate];
  rewrite (dec_struct_app_tail _ _ _ _ t E);
  repeat match goal with |- match ?v with _ => _ end = _ -> _ => is_var v; destruct v end;
  try discriminate;
  let H := fresh "H" in intros H; injection H as <- <-; reflexivity.

Theorem dec_body_rest_app_tail_l ty b c r t : dec_body_rest ty b = Some (c, r) ->
  dec_body_rest ty (b ++ t) = Some (c, r ++ t).
Proof.
  unfold dec_body_rest.
  destruct (ty =? 0). { struct_tail sch_org b t. }
  destruct (ty =? 4). { struct_tail sch_vw b t. }
  destruct (ty =? 8). { struct_tail sch_id b t. }
  destruct (ty =? 9). { struct_tail sch_id b t. }
  destruct (ty =? 10). { struct_tail sch_id b t. }
  destruct (ty =? 12).
  { destruct (dec_bytes_len b) as [[o r1]|] eqn:E; [|discriminate]. rewrite (dec_bytes_len_app_tail _ _ _ t E).
    cbn [option_map fst snd]. intros H. injection H as <- <-. reflexivity. }
  destruct (ty =? 15). { struct_tail sch_sid b t. }
  destruct (ty =? 19).
  { destruct (dec_str_len b) as [[p r1]|] eqn:E; [|discriminate]. rewrite (dec_str_len_app_tail _ _ _ t E).
    cbn [option_map fst snd]. intros H. injection H as <- <-. reflexivity. }
  destruct (ty =? 20). { apply bare_uint_app_tail. }
  destruct (ty =? 21). { apply bare_uint_app_tail. }
  destruct (ty =? 22). { struct_tail sch_none b t. }
  destruct (ty =? 23). { apply bare_uint_app_tail. }
  destruct (ty =? 24). { apply bare_uint_app_tail. }
  destruct (ty =? 25).
  { destruct (dec_bytes_len b) as [[[p|] r1]|] eqn:E; [| |discriminate]; rewrite (dec_bytes_len_app_tail _ _ _ t E);
      intros H; injection H as <- <-; reflexivity. }
  destruct (ty =? 26). { apply bare_uint_app_tail. }
  destruct (ty =? 30). { apply bare_uint_app_tail. }
  destruct (ty =? 31). { struct_tail sch_src b t. }
  discriminate.
Qed.

(* what the decoder makes of a body does not depend on the bytes after the value *)
Theorem dec_body_trailing_l ty b c t : dec_body ty b = Some c -> dec_body ty (b ++ t) = Some c.
Proof.
  unfold dec_body. destruct (dec_body_rest ty b) as [[c' r]|] eqn:E; [|discriminate].
  rewrite (dec_body_rest_app_tail_l _ _ _ _ t E). exact (fun H => H).
Qed.

(* ------------------------------------------------------------------------------------------ *)
(* the decoder consumes a non-empty prefix of its input                                        *)

Definition consumes {A} (dec : bytes -> option (A * bytes)) : Prop :=
  forall l a r, dec l = Some (a, r) -> exists pre, l = pre ++ r /\ pre <> [].

Ltac suffix_ifs c :=
  repeat match goal with |- (if ?b then _ else _) = _ -> _ => destruct b end;
  try discriminate;
  try (let H := fresh "H" in intros H; injection H as _ <-; exists [c]; split; [reflexivity|discriminate]);
  try (let H := fresh "H" in let p := fresh "p" in
       intros H; apply rd_be_Some in H; destruct H as (p & -> & _); exists (c :: p); split; [reflexivity|discriminate]).

Lemma dec_uint_len_consumes : consumes dec_uint_len.
Proof. intros l n r. rewrite dec_uint_len_eq. destruct l as [|c l0]; [discriminate|]. suffix_ifs c. Qed.
Lemma dec_arr_hdr_consumes : consumes dec_arr_hdr.
Proof. intros l n r. rewrite dec_arr_hdr_eq. destruct l as [|c l0]; [discriminate|]. suffix_ifs c. Qed.
Lemma dec_int64_len_consumes : consumes dec_int64_len.
Proof. intros l n r. destruct l as [|c l0]; [discriminate|]. cbn [dec_int64_len]. suffix_ifs c. Qed.
Lemma dec_blen_consumes : consumes dec_blen.
Proof. intros l n r. destruct l as [|c l0]; [discriminate|]. cbn [dec_blen]. suffix_ifs c. Qed.

Lemma dec_bytes_len_consumes : consumes dec_bytes_len.
Proof.
  intros l o r. unfold dec_bytes_len. destruct (dec_blen l) as [[[n|] r1]|] eqn:E; [| |discriminate];
    apply dec_blen_consumes in E; destruct E as (pre & -> & Hne).
  - destruct (take n r1) as [[p r2]|] eqn:E2; [|discriminate]. intros H. injection H as _ <-.
    apply take_Some in E2. destruct E2 as [-> _]. exists (pre ++ p). split; [apply app_assoc|].
    destruct pre; [congruence|discriminate].
  - intros H. injection H as _ <-. exists pre. auto.
Qed.

Lemma dec_str_len_consumes : consumes dec_str_len.
Proof.
  intros l p r. unfold dec_str_len. destruct (dec_bytes_len l) as [[[q|] r1]|] eqn:E; [| |discriminate];
    apply dec_bytes_len_consumes in E; intros H; injection H as _ <-; exact E.
Qed.

Lemma dec_field_consumes k : consumes (dec_field k).
Proof.
  intros l v r. destruct k as [bits| |]; cbn [dec_field].
  - unfold dec_uint64_len. destruct (dec_uint_len l) as [[n r1]|] eqn:E; [|discriminate].
    cbn [option_map fst snd]. intros H. injection H as _ <-. apply dec_uint_len_consumes in E. exact E.
  - destruct (dec_int64_len l) as [[z r1]|] eqn:E; [|discriminate].
    cbn [option_map fst snd]. intros H. injection H as _ <-. apply dec_int64_len_consumes in E. exact E.
  - destruct (dec_str_len l) as [[p r1]|] eqn:E; [|discriminate].
    cbn [option_map fst snd]. intros H. injection H as _ <-. apply dec_str_len_consumes in E. exact E.
Qed.

Lemma dec_fields_suffix ks : forall l vs r, dec_fields ks l = Some (vs, r) -> exists pre, l = pre ++ r.
Proof.
  induction ks as [|k ks IH]; intros l vs r; cbn [dec_fields].
  - intros H. injection H as _ <-. exists []. reflexivity.
  - destruct (dec_field k l) as [[v r1]|] eqn:E; [|discriminate].
    destruct (dec_fields ks r1) as [[vs' r2]|] eqn:E2; [|discriminate]. intros H. injection H as _ <-.
    apply dec_field_consumes in E. destruct E as (p1 & -> & _). apply IH in E2. destruct E2 as (p2 & ->).
    exists (p1 ++ p2). apply app_assoc.
Qed.

Lemma dec_map_entries_suffix sch n : forall vs l vs' r, dec_map_entries sch n vs l = Some (vs', r) -> exists pre, l = pre ++ r.
Proof.
  induction n as [|n IH]; intros vs l vs' r; cbn [dec_map_entries].
  - intros H. injection H as _ <-. exists []. reflexivity.
  - destruct (dec_str_len l) as [[name r1]|] eqn:E; [|discriminate].
    apply dec_str_len_consumes in E. destruct E as (p1 & -> & _).
    destruct (find_field sch name 0) as [[i k]|].
    + destruct (dec_field k r1) as [[v r2]|] eqn:E2; [|discriminate].
      apply dec_field_consumes in E2. destruct E2 as (p2 & -> & _).
      intros H. apply IH in H. destruct H as (p3 & ->). exists (p1 ++ p2 ++ p3). rewrite <- !app_assoc. reflexivity.
    + destruct (skip (S (List.length r1)) r1) as [r2|] eqn:E2; [|discriminate].
      apply skip_suffix in E2. destruct E2 as (p2 & -> & _).
      intros H. apply IH in H. destruct H as (p3 & ->). exists (p1 ++ p2 ++ p3). rewrite <- !app_assoc. reflexivity.
Qed.

Lemma dec_struct_consumes sch : consumes (dec_struct sch).
Proof.
  intros l vs r. destruct l as [|c l0]; [discriminate|]. unfold dec_struct.
  assert (Hmap : forall n l1 p, l0 = p ++ l1 -> dec_map sch n l1 = Some (vs, r) -> exists pre, c :: l0 = pre ++ r /\ pre <> []).
  { intros n l1 p -> H. unfold dec_map in H. destruct (N.of_nat (List.length l1) <? 2 * n); [discriminate|].
    apply dec_map_entries_suffix in H. destruct H as (p2 & ->). exists (c :: p ++ p2).
    split; [cbn [app]; rewrite <- app_assoc; reflexivity|discriminate]. }
  destruct (c =? 192). { intros H. injection H as _ <-. exists [c]. split; [reflexivity|discriminate]. }
  destruct ((128 <=? c) && (c <=? 143)). { apply (Hmap _ l0 []). reflexivity. }
  destruct (c =? 222).
  { destruct (take 2 l0) as [[lb r1]|] eqn:E; [|discriminate]. apply take_Some in E. destruct E as [E _]. apply (Hmap _ r1 lb E). }
  destruct (c =? 223).
  { destruct (take 4 l0) as [[lb r1]|] eqn:E; [|discriminate]. apply take_Some in E. destruct E as [E _]. apply (Hmap _ r1 lb E). }
  destruct (dec_arr_hdr (c :: l0)) as [[n r1]|] eqn:E; [|discriminate].
  apply dec_arr_hdr_consumes in E. destruct E as (p1 & E & Hne).
  destruct (n =? 0). { intros H. injection H as _ <-. exists p1. auto. }
  destruct (n =? N.of_nat (List.length sch)); [|discriminate].
  intros H. apply dec_fields_suffix in H. destruct H as (p2 & ->). exists (p1 ++ p2). split; [rewrite E; apply app_assoc|].
  destruct p1; [congruence|discriminate].
Qed.

Lemma bare_uint_consumes bits K : consumes (bare_uint bits K).
Proof.
  intros l c r. unfold bare_uint, dec_uint64_len. destruct (dec_uint_len l) as [[n r1]|] eqn:E; [|discriminate].
  cbn [option_map fst snd]. intros H. injection H as _ <-. apply dec_uint_len_consumes in E. exact E.
Qed.

Ltac struct_consumes sch b :=
  let E := fresh "E" in let vs := fresh "vs" in let r1 := fresh "r1" in
  destruct (dec_struct sch b) as [[vs r1]|] eqn:E; [|discriminate];
  apply dec_struct_consumes in E;
  repeat match goal with |- match ?v with _ => _ end = _ -> _ => is_var v; destruct v end;
  try discriminate;
  let H := fresh "H" in intros H; injection H as _ <-; exact E.

Theorem dec_body_rest_consumes_l ty : consumes (dec_body_rest ty).
Proof.
  intros b c r. unfold dec_body_rest.
  destruct (ty =? 0). { struct_consumes sch_org b. }
  destruct (ty =? 4). { struct_consumes sch_vw b. }
  destruct (ty =? 8). { struct_consumes sch_id b. }
  destruct (ty =? 9). { struct_consumes sch_id b. }
  destruct (ty =? 10). { struct_consumes sch_id b. }
  destruct (ty =? 12).
  { destruct (dec_bytes_len b) as [[o r1]|] eqn:E; [|discriminate]. apply dec_bytes_len_consumes in E.
    cbn [option_map fst snd]. intros H. injection H as _ <-. exact E. }
  destruct (ty =? 15). { struct_consumes sch_sid b. }
  destruct (ty =? 19).
  { destruct (dec_str_len b) as [[p r1]|] eqn:E; [|discriminate]. apply dec_str_len_consumes in E.
    cbn [option_map fst snd]. intros H. injection H as _ <-. exact E. }
  destruct (ty =? 20). { apply bare_uint_consumes. }
  destruct (ty =? 21). { apply bare_uint_consumes. }
  destruct (ty =? 22). { struct_consumes sch_none b. }
  destruct (ty =? 23). { apply bare_uint_consumes. }
  destruct (ty =? 24). { apply bare_uint_consumes. }
  destruct (ty =? 25).
  { destruct (dec_bytes_len b) as [[[p|] r1]|] eqn:E; [| |discriminate]; apply dec_bytes_len_consumes in E;
      intros H; injection H as _ <-; exact E. }
  destruct (ty =? 26). { apply bare_uint_consumes. }
  destruct (ty =? 30). { apply bare_uint_consumes. }
  destruct (ty =? 31). { struct_consumes sch_src b. }
  discriminate.
Qed.

(* dec_body is a structural function; the only fuel in it is the one handed to Skip for the value of an unknown map key,
   and that fuel (one more than the remaining input) is enough whenever any fuel is *)
Lemma dec_body_total_l f r r' : skip f r = Some r' -> skip (S (List.length r)) r = Some r'.
Proof. intros H. apply (skip_fuel_enough f); [exact H|lia]. Qed.

(* ------------------------------------------------------------------------------------------ *)
(* whatever is accepted is a value of the Go type: in range, well-formed, of the announced type *)

Definition byte_list (l : bytes) : Prop := Forall (fun x => x < 256) l.

Lemma byte_list_app a b : byte_list (a ++ b) <-> byte_list a /\ byte_list b.
Proof. apply Forall_app. Qed.

Lemma be_val_lt p : byte_list p -> be_val p 0 < 256 ^ N.of_nat (List.length p).
Proof.
  induction p as [|x q IH] using rev_ind; intros Hp.
  - cbn [be_val List.length]. change (256 ^ N.of_nat 0) with 1. lia.
  - apply byte_list_app in Hp. destruct Hp as [Hq Hx]. inversion Hx as [|x0 l0 Hx256 _]; subst.
    specialize (IH Hq). rewrite be_val_app. cbn [be_val]. rewrite app_length. cbn [List.length].
    rewrite Nat2N.inj_add, N.pow_add_r. rewrite pow_256_1.
    generalize dependent (256 ^ N.of_nat (List.length q)). intros P HP. lia.
Qed.

Lemma rd_be_bound {A} k (f : N -> A) l a r : byte_list l -> rd_be k f l = Some (a, r) ->
  exists v, a = f v /\ v < 256 ^ k.
Proof.
  intros Hl H. apply rd_be_Some in H. destruct H as (p & -> & Hk & ->).
  apply byte_list_app in Hl. destruct Hl as [Hp _]. exists (be_val p 0). split; [reflexivity|].
  rewrite <- Hk. apply be_val_lt, Hp.
Qed.

Lemma p256_1 : 256 ^ 1 = 256. Proof. reflexivity. Qed.
Lemma p256_2 : 256 ^ 2 = 65536. Proof. reflexivity. Qed.
Lemma p256_4 : 256 ^ 4 = 4294967296. Proof. reflexivity. Qed.
Lemma p256_8 : 256 ^ 8 = 18446744073709551616. Proof. reflexivity. Qed.

Lemma dec_int64_len_wf l z r : byte_list l -> dec_int64_len l = Some (z, r) -> wf_i64 z.
Proof.
  unfold wf_i64. change (2 ^ 63)%Z with 9223372036854775808%Z.
  intros Hl. destruct l as [|c l0]; [discriminate|]. inversion Hl as [|c0 l1 Hc Hl0]; subst.
  cbn [dec_int64_len].
  destruct (N.leb_spec c 127) as [H1|H1]. { intros H. injection H as <- _. lia. }
  destruct (N.eqb_spec c 192) as [H2|H2]. { intros H. injection H as <- _. lia. }
  destruct (N.leb_spec 224 c) as [H3|H3]. { intros H. injection H as <- _. lia. }
  repeat match goal with |- (if ?b then _ else _) = _ -> _ => destruct b end; try discriminate;
    intros H; apply (rd_be_bound _ _ _ _ _ Hl0) in H; destruct H as (v & -> & Hv);
    rewrite ?p256_1, ?p256_2, ?p256_4, ?p256_8 in Hv; rewrite ?wrap8, ?wrap16, ?wrap32, ?wrap64;
    repeat match goal with |- context [if ?a <? ?b then _ else _] => destruct (N.ltb_spec a b) end; lia.
Qed.

Lemma dec_blen_bound l n r : byte_list l -> dec_blen l = Some (Some n, r) -> n < 2 ^ 32.
Proof.
  rewrite pow_2_32. intros Hl. destruct l as [|c l0]; [discriminate|]. inversion Hl as [|c0 l1 Hc Hl0]; subst.
  cbn [dec_blen].
  destruct (c =? 192); [discriminate|].
  destruct (N.leb_spec 160 c) as [H1|H1]; destruct (N.leb_spec c 191) as [H2|H2]; cbn [andb];
    try (intros H; injection H as <- _; lia);
    repeat match goal with |- (if ?b then _ else _) = _ -> _ => destruct b end; try discriminate;
    intros H; apply (rd_be_bound _ _ _ _ _ Hl0) in H; destruct H as (v & Hn & Hv); injection Hn as ->;
    rewrite ?p256_1, ?p256_2, ?p256_4 in Hv; lia.
Qed.

Lemma dec_bytes_len_bound l p r : byte_list l -> dec_bytes_len l = Some (Some p, r) ->
  N.of_nat (List.length p) < 2 ^ 32 /\ byte_list p /\ (List.length p <= List.length l)%nat.
Proof.
  intros Hl. unfold dec_bytes_len. destruct (dec_blen l) as [[[n|] r1]|] eqn:E; [| |discriminate]; [|discriminate].
  destruct (take n r1) as [[q r2]|] eqn:E2; [|discriminate]. intros H. injection H as <- <-.
  pose proof (dec_blen_bound _ _ _ Hl E) as Hn. apply dec_blen_consumes in E. destruct E as (pre & -> & _).
  apply take_Some in E2. destruct E2 as [-> Hq]. apply byte_list_app in Hl. destruct Hl as [_ Hl].
  apply byte_list_app in Hl. destruct Hl as [Hq' _]. rewrite !app_length. repeat split; [lia|exact Hq'|lia].
Qed.

Lemma dec_str_len_bound l p r : byte_list l -> dec_str_len l = Some (p, r) -> N.of_nat (List.length p) < 2 ^ 32.
Proof.
  intros Hl. unfold dec_str_len. destruct (dec_bytes_len l) as [[[q|] r1]|] eqn:E; [| |discriminate].
  - intros H. injection H as <- _. apply (dec_bytes_len_bound _ _ _ Hl E).
  - intros H. injection H as <- _. rewrite pow_2_32. cbn [List.length]. lia.
Qed.

(* a field value of the right kind and in range *)
Definition fval_ok (k : fkind) (v : fval) : Prop :=
  match k, v with
  | FU bits, VU n => n < 2 ^ bits
  | FI, VI z => wf_i64 z
  | FS, VS s => N.of_nat (List.length s) < 2 ^ 32
  | _, _ => False
  end.

Lemma fzero_ok k : fval_ok k (fzero k).
Proof.
  destruct k as [bits| |]; cbn [fval_ok fzero].
  - assert (2 ^ bits <> 0) by (apply N.pow_nonzero; discriminate). lia.
  - unfold wf_i64. change (2 ^ 63)%Z with 9223372036854775808%Z. lia.
  - rewrite pow_2_32. cbn [List.length]. lia.
Qed.

Lemma fzeros_ok sch : Forall2 fval_ok (map snd sch) (fzeros sch).
Proof. unfold fzeros. induction sch as [|e sch IH]; cbn [map]; constructor; [apply fzero_ok|exact IH]. Qed.

Lemma dec_field_ok k l v r : byte_list l -> dec_field k l = Some (v, r) -> fval_ok k v.
Proof.
  intros Hl. destruct k as [bits| |]; cbn [dec_field].
  - destruct (dec_uint64_len l) as [[n r1]|]; [|discriminate]. cbn [option_map fst snd]. intros H. injection H as <- _.
    cbn [fval_ok]. apply N.mod_upper_bound, N.pow_nonzero. discriminate.
  - destruct (dec_int64_len l) as [[z r1]|] eqn:E; [|discriminate]. cbn [option_map fst snd]. intros H. injection H as <- _.
    cbn [fval_ok]. apply (dec_int64_len_wf _ _ _ Hl E).
  - destruct (dec_str_len l) as [[p r1]|] eqn:E; [|discriminate]. cbn [option_map fst snd]. intros H. injection H as <- _.
    cbn [fval_ok]. apply (dec_str_len_bound _ _ _ Hl E).
Qed.

Lemma consumes_byte_list {A} (dec : bytes -> option (A * bytes)) l a r :
  consumes dec -> byte_list l -> dec l = Some (a, r) -> byte_list r.
Proof. intros Hc Hl H. apply Hc in H. destruct H as (pre & -> & _). apply byte_list_app in Hl. apply Hl. Qed.

Lemma dec_fields_ok ks : forall l vs r, byte_list l -> dec_fields ks l = Some (vs, r) -> Forall2 fval_ok ks vs.
Proof.
  induction ks as [|k ks IH]; intros l vs r Hl; cbn [dec_fields].
  - intros H. injection H as <- _. constructor.
  - destruct (dec_field k l) as [[v r1]|] eqn:E; [|discriminate].
    destruct (dec_fields ks r1) as [[vs' r2]|] eqn:E2; [|discriminate]. intros H. injection H as <- _.
    constructor; [apply (dec_field_ok _ _ _ _ Hl E)|].
    apply (IH _ _ _ (consumes_byte_list _ _ _ _ (dec_field_consumes k) Hl E) E2).
Qed.

Lemma find_field_nth sch name : forall i0 i k, find_field sch name i0 = Some (i, k) ->
  exists j, i = (i0 + j)%nat /\ nth_error (map snd sch) j = Some k.
Proof.
  induction sch as [|[nm0 k0] sch IH]; intros i0 i k; cbn [find_field]; [discriminate|].
  destruct (bytes_eqb nm0 name).
  - intros H. injection H as <- <-. exists 0%nat. split; [lia|reflexivity].
  - intros H. apply IH in H. destruct H as (j & -> & Hj). exists (S j). split; [lia|exact Hj].
Qed.

Lemma set_nth_ok ks : forall vs i k v, Forall2 fval_ok ks vs -> nth_error ks i = Some k -> fval_ok k v ->
  Forall2 fval_ok ks (set_nth i v vs).
Proof.
  induction ks as [|k0 ks IH]; intros vs i k v HF Hn Hv.
  - destruct i; discriminate.
  - inversion HF as [|k1 v1 ks1 vs1 H1 H2]; subst. destruct i as [|i]; cbn [nth_error set_nth] in *.
    + injection Hn as ->. constructor; assumption.
    + constructor; [exact H1|]. apply (IH _ _ _ _ H2 Hn Hv).
Qed.

Lemma dec_map_entries_ok sch n : forall vs l vs' r, byte_list l -> Forall2 fval_ok (map snd sch) vs ->
  dec_map_entries sch n vs l = Some (vs', r) -> Forall2 fval_ok (map snd sch) vs'.
Proof.
  induction n as [|n IH]; intros vs l vs' r Hl Hvs; cbn [dec_map_entries].
  - intros H. injection H as <- _. exact Hvs.
  - destruct (dec_str_len l) as [[name r1]|] eqn:E; [|discriminate].
    pose proof (consumes_byte_list _ _ _ _ dec_str_len_consumes Hl E) as Hr1.
    destruct (find_field sch name 0) as [[i k]|] eqn:Ef.
    + destruct (dec_field k r1) as [[v r2]|] eqn:E2; [|discriminate].
      apply find_field_nth in Ef. destruct Ef as (j & -> & Hj). cbn [Nat.add].
      apply IH; [apply (consumes_byte_list _ _ _ _ (dec_field_consumes k) Hr1 E2)|].
      apply (set_nth_ok _ _ _ k); [exact Hvs|exact Hj|apply (dec_field_ok _ _ _ _ Hr1 E2)].
    + destruct (skip (S (List.length r1)) r1) as [r2|] eqn:E2; [|discriminate].
      apply IH; [|exact Hvs]. apply skip_suffix in E2. destruct E2 as (p & -> & _).
      apply byte_list_app in Hr1. apply Hr1.
Qed.

Lemma dec_struct_ok sch l vs r : byte_list l -> dec_struct sch l = Some (vs, r) -> Forall2 fval_ok (map snd sch) vs.
Proof.
  intros Hl. destruct l as [|c l0]; [discriminate|]. unfold dec_struct.
  assert (Hl0 : byte_list l0) by (inversion Hl; assumption).
  assert (Hmap : forall n l1, byte_list l1 -> dec_map sch n l1 = Some (vs, r) -> Forall2 fval_ok (map snd sch) vs).
  { intros n l1 Hl1 H. unfold dec_map in H. destruct (N.of_nat (List.length l1) <? 2 * n); [discriminate|].
    apply (dec_map_entries_ok _ _ _ _ _ _ Hl1 (fzeros_ok sch) H). }
  destruct (c =? 192). { intros H. injection H as <- _. apply fzeros_ok. }
  destruct ((128 <=? c) && (c <=? 143)). { apply Hmap, Hl0. }
  destruct (c =? 222).
  { destruct (take 2 l0) as [[lb r1]|] eqn:E; [|discriminate]. apply take_Some in E. destruct E as [-> _].
    apply byte_list_app in Hl0. apply Hmap, Hl0. }
  destruct (c =? 223).
  { destruct (take 4 l0) as [[lb r1]|] eqn:E; [|discriminate]. apply take_Some in E. destruct E as [-> _].
    apply byte_list_app in Hl0. apply Hmap, Hl0. }
  destruct (dec_arr_hdr (c :: l0)) as [[n r1]|] eqn:E; [|discriminate].
  pose proof (consumes_byte_list _ _ _ _ dec_arr_hdr_consumes Hl E) as Hr1.
  destruct (n =? 0). { intros H. injection H as <- _. apply fzeros_ok. }
  destruct (n =? N.of_nat (List.length sch)); [|discriminate].
  apply dec_fields_ok, Hr1.
Qed.

Lemma bytes_str_length s : String.length (bytes_str s) = List.length s.
Proof. induction s as [|x s IH]; [reflexivity|]. cbn [bytes_str fold_right String.length List.length]. f_equal. exact IH. Qed.

Lemma wf_str_bytes_str s : N.of_nat (List.length s) < 2 ^ 32 -> wf_str (bytes_str s).
Proof. unfold wf_str. rewrite bytes_str_length. exact (fun H => H). Qed.

Lemma log2_be_val p : byte_list p -> N.log2 (be_val p 0) < 8 * N.of_nat (List.length p) + 1.
Proof.
  intros Hp. pose proof (be_val_lt p Hp) as Hlt.
  destruct (N.eqb_spec (be_val p 0) 0) as [->|Hnz]; [change (N.log2 0) with 0; lia|].
  assert (Hl : N.log2 (be_val p 0) < 8 * N.of_nat (List.length p)); [|lia].
  apply N.log2_lt_pow2; [lia|]. rewrite N.pow_mul_r. change (2 ^ 8) with 256. exact Hlt.
Qed.

Lemma bare_uint_range bits K l c r : bare_uint bits K l = Some (c, r) -> exists n, c = K n /\ n < 2 ^ bits.
Proof.
  unfold bare_uint. destruct (dec_uint64_len l) as [[n r1]|]; [|discriminate]. cbn [option_map fst snd].
  intros H. injection H as <- _. exists (n mod 2 ^ bits). split; [reflexivity|].
  apply N.mod_upper_bound, N.pow_nonzero. discriminate.
Qed.

Ltac struct_wf sch b Hb :=
  let E := fresh "E" in let vs := fresh "vs" in let r1 := fresh "r1" in
  destruct (dec_struct sch b) as [[vs r1]|] eqn:E; [|discriminate];
  apply (dec_struct_ok _ _ _ _ Hb) in E;
  repeat match goal with |- match ?v with _ => _ end = _ -> _ => is_var v; destruct v end;
  try discriminate;
  let H := fresh "H" in intros H; injection H as <- _;
  unfold sch in E; cbn [map snd] in E;
  repeat match goal with HF : Forall2 fval_ok (_ :: _) (_ :: _) |- _ => inversion HF; subst; clear HF end;
  cbn [fval_ok] in *; cbn [cav_type scalar_cav fits_cav wf_cav];
  repeat split; try assumption; try (apply wf_str_bytes_str; assumption); try (apply N.ltb_lt; assumption);
  try (eapply N.lt_trans; [eassumption|reflexivity]);
  try (unfold wf_i64 in *; lia).

Theorem dec_body_rest_wf_l ty b c r : byte_list b -> N.of_nat (List.length b) < 2 ^ 29 ->
  dec_body_rest ty b = Some (c, r) ->
  cav_type c = ty /\ scalar_cav c = true /\ fits_cav c = true /\ wf_cav c.
Proof.
  intros Hb Hlen. unfold dec_body_rest.
  destruct (N.eqb_spec ty 0) as [->|_]. { struct_wf sch_org b Hb. }
  destruct (N.eqb_spec ty 4) as [->|_]. { struct_wf sch_vw b Hb. }
  destruct (N.eqb_spec ty 8) as [->|_]. { struct_wf sch_id b Hb. }
  destruct (N.eqb_spec ty 9) as [->|_]. { struct_wf sch_id b Hb. }
  destruct (N.eqb_spec ty 10) as [->|_]. { struct_wf sch_id b Hb. }
  destruct (N.eqb_spec ty 12) as [->|_].
  { destruct (dec_bytes_len b) as [[[p|] r1]|] eqn:E; [| |discriminate]; cbn [option_map fst snd];
      intros H; injection H as <- _; cbn [cav_type scalar_cav fits_cav wf_cav wf_obin]; repeat split.
    apply (dec_bytes_len_bound _ _ _ Hb E). }
  destruct (N.eqb_spec ty 15) as [->|_]. { struct_wf sch_sid b Hb. }
  destruct (N.eqb_spec ty 19) as [->|_].
  { destruct (dec_str_len b) as [[p r1]|] eqn:E; [|discriminate]. cbn [option_map fst snd].
    intros H. injection H as <- _. cbn [cav_type scalar_cav fits_cav wf_cav]. repeat split.
    apply wf_str_bytes_str, (dec_str_len_bound _ _ _ Hb E). }
  destruct (N.eqb_spec ty 20) as [->|_].
  { intros H. apply bare_uint_range in H. destruct H as (n & -> & Hn). cbn [cav_type scalar_cav fits_cav wf_cav].
    (split; [reflexivity|]); (split; [reflexivity|]); (split; [reflexivity|]). exact Hn. }
  destruct (N.eqb_spec ty 21) as [->|_].
  { intros H. apply bare_uint_range in H. destruct H as (n & -> & Hn). cbn [cav_type scalar_cav fits_cav wf_cav].
    (split; [reflexivity|]); (split; [reflexivity|]); (split; [reflexivity|]). exact Hn. }
  destruct (N.eqb_spec ty 22) as [->|_]. { struct_wf sch_none b Hb. }
  destruct (N.eqb_spec ty 23) as [->|_].
  { intros H. apply bare_uint_range in H. destruct H as (n & -> & Hn). cbn [cav_type scalar_cav fits_cav wf_cav].
    (split; [reflexivity|]); (split; [reflexivity|]); (split; [reflexivity|]). exact Hn. }
  destruct (N.eqb_spec ty 24) as [->|_].
  { intros H. apply bare_uint_range in H. destruct H as (n & -> & Hn). cbn [cav_type scalar_cav fits_cav wf_cav].
    (split; [reflexivity|]); (split; [reflexivity|]); (split; [reflexivity|]). exact Hn. }
  destruct (N.eqb_spec ty 25) as [->|_].
  { destruct (dec_bytes_len b) as [[[p|] r1]|] eqn:E; [| |discriminate];
      intros H; injection H as <- _; cbn [cav_type scalar_cav fits_cav wf_cav];
      (split; [reflexivity|]); (split; [reflexivity|]); (split; [reflexivity|]); [|reflexivity].
    destruct (dec_bytes_len_bound _ _ _ Hb E) as (_ & Hp & Hle). pose proof (log2_be_val p Hp) as Hlog.
    rewrite pow_2_32. change (2 ^ 29) with 536870912 in Hlen. lia. }
  destruct (N.eqb_spec ty 26) as [->|_].
  { intros H. apply bare_uint_range in H. destruct H as (n & -> & Hn). cbn [cav_type scalar_cav fits_cav wf_cav].
    (split; [reflexivity|]); (split; [reflexivity|]); (split; [apply N.ltb_lt, Hn|]).
    eapply N.lt_trans; [exact Hn|reflexivity]. }
  destruct (N.eqb_spec ty 30) as [->|_].
  { intros H. apply bare_uint_range in H. destruct H as (n & -> & Hn). cbn [cav_type scalar_cav fits_cav wf_cav].
    (split; [reflexivity|]); (split; [reflexivity|]); (split; [apply N.ltb_lt, Hn|]).
    eapply N.lt_trans; [exact Hn|reflexivity]. }
  destruct (N.eqb_spec ty 31) as [->|_]. { struct_wf sch_src b Hb. }
  discriminate.
Qed.

(* hence: whatever body is accepted, what was decoded has a canonical encoding, and that encoding decodes to the same value
   (the canonical form is a fixed point; the accepted bytes themselves need not be canonical) *)
Theorem dec_body_reenc_l ty b c : byte_list b -> N.of_nat (List.length b) < 2 ^ 29 -> dec_body ty b = Some c ->
  exists b', enc_body c = Some b' /\ dec_body ty b' = Some c.
Proof.
  intros Hb Hlen. unfold dec_body at 1. destruct (dec_body_rest ty b) as [[c' r]|] eqn:E; [|discriminate].
  cbn [option_map fst]. intros H. injection H as ->.
  destruct (dec_body_rest_wf_l _ _ _ _ Hb Hlen E) as (Hty & Hs & Hf & Hwf).
  assert (Henc : exists b', enc_body c = Some b') by (destruct c; try discriminate Hs; cbn [enc_body]; eauto).
  destruct Henc as (b' & Hb'). exists b'. split; [exact Hb'|].
  rewrite <- Hty. apply dec_body_enc_body_l; assumption.
Qed.

(* ------------------------------------------------------------------------------------------ *)
(* str / bin interchange and leading zeros at the level of bodies                              *)

Lemma dec_body_google_hd_bin_l s : wf_str s -> dec_body 19 (enc_bin (str_bytes s)) = Some (CConfineGoogleHD s).
Proof.
  unfold wf_str. intros Hs. unfold dec_body, dec_body_rest. cbn [N.eqb Pos.eqb].
  rewrite <- (app_nil_r (enc_bin (str_bytes s))), dec_str_len_enc_bin by (rewrite str_bytes_length; exact Hs).
  cbn [option_map fst snd]. rewrite bytes_str_str_bytes. reflexivity.
Qed.

Lemma dec_body_bind_str_l p : N.of_nat (List.length p) < 2 ^ 32 -> dec_body 12 (enc_str p) = Some (CBind (Some p)).
Proof.
  intros Hp. unfold dec_body, dec_body_rest. cbn [N.eqb Pos.eqb].
  rewrite <- (app_nil_r (enc_str p)), dec_bytes_len_enc_str by exact Hp. reflexivity.
Qed.

Lemma be_val_zeros k p : be_val (repeat 0 k ++ p) 0 = be_val p 0.
Proof. induction k as [|k IH]; [reflexivity|]. cbn [repeat app be_val]. exact IH. Qed.

(* a GoogleUserID magnitude may carry leading zero bytes, under a bin or a str header *)
Lemma dec_body_google_uid_zeros_l k n : N.of_nat (k + List.length (be_min n)) < 2 ^ 32 ->
  dec_body 25 (enc_bin (repeat 0 k ++ be_min n)) = Some (CGoogleUserID n) /\
  dec_body 25 (enc_str (repeat 0 k ++ be_min n)) = Some (CGoogleUserID n).
Proof.
  intros Hl. assert (Hlen : N.of_nat (List.length (repeat 0 k ++ be_min n)) < 2 ^ 32).
  { rewrite app_length, repeat_length. exact Hl. }
  unfold dec_body, dec_body_rest. cbn [N.eqb Pos.eqb]. split.
  - rewrite <- (app_nil_r (enc_bin _)), dec_bytes_len_enc_bin by exact Hlen.
    cbn [option_map fst]. rewrite be_val_zeros, be_val_be_min. reflexivity.
  - rewrite <- (app_nil_r (enc_str _)), dec_bytes_len_enc_str by exact Hlen.
    cbn [option_map fst]. rewrite be_val_zeros, be_val_be_min. reflexivity.
Qed.

(* ------------------------------------------------------------------------------------------ *)
(* the surprises, with their bytes (each of these bodies is also a case of the correspondence run: tdDocumented in
   harness/cmd/corr/c11_typed.go) *)

Example surprise_truncated_action :          (* ce 00 01 00 01 = 65537 is accepted as Action 1 *)
  dec_body 26 [206; 0; 1; 0; 1] = Some (CAction 1).
Proof. vm_compute. reflexivity. Qed.
Example surprise_truncated_org_mask :        (* Organization{1, 0x1001f} is accepted as Organization{1, 0x1f} *)
  dec_body 0 [146; 1; 206; 0; 1; 0; 31] = Some (COrganization 1 31).
Proof. vm_compute. reflexivity. Qed.
Example surprise_truncated_roles :           (* cf 00 00 00 01 00 00 00 05 = 2^32+5 is accepted as AllowedRoles 5 *)
  dec_body 30 [207; 0; 0; 0; 1; 0; 0; 0; 5] = Some (CAllowedRoles 5).
Proof. vm_compute. reflexivity. Qed.
Example surprise_negative_action :           (* ff = -1 is accepted as Action 0xffff (all bits) *)
  dec_body 26 [255] = Some (CAction 65535).
Proof. vm_compute. reflexivity. Qed.
Example surprise_negative_uint64 :           (* ff = -1 is accepted as the org number 2^64-1; d0 80 = -128 as 2^64-128 *)
  dec_body 20 [255] = Some (CConfineGitHubOrg 18446744073709551615) /\
  dec_body 8 [145; 208; 128] = Some (CConfineUser 18446744073709551488).
Proof. vm_compute. split; reflexivity. Qed.
Example surprise_uint64_as_int64 :           (* cf ff..ff is accepted as NotBefore = -1 *)
  dec_body 4 [146; 207; 255; 255; 255; 255; 255; 255; 255; 255; 0] = Some (CValidityWindow (-1) 0).
Proof. vm_compute. reflexivity. Qed.
Example surprise_str_bin :                   (* a str where bytes are expected and a bin where a string is *)
  dec_body 12 [161; 65] = Some (CBind (Some [65])) /\ dec_body 19 [196; 1; 65] = Some (CConfineGoogleHD "A") /\
  dec_body 25 [163; 0; 0; 7] = Some (CGoogleUserID 7).
Proof. vm_compute. repeat split; reflexivity. Qed.
Example surprise_empty_array_struct :        (* 90 is the zero value of every struct; one or three elements are refused *)
  dec_body 0 [144] = Some (COrganization 0 0) /\ dec_body 0 [145; 1] = None /\ dec_body 0 [147; 1; 2; 3] = None /\
  dec_body 22 [145; 1] = None.
Proof. vm_compute. repeat split; reflexivity. Qed.
Example surprise_map_struct :                (* {"Mask":3,"ID":9}; a duplicate key: the last one wins; an unknown key is skipped;
                                                a missing field stays zero; keys are case-sensitive Go field names *)
  dec_body 0 [130; 164; 77; 97; 115; 107; 3; 162; 73; 68; 9] = Some (COrganization 9 3) /\
  dec_body 8 [130; 162; 73; 68; 1; 162; 73; 68; 2] = Some (CConfineUser 2) /\
  dec_body 8 [130; 161; 120; 146; 1; 2; 162; 73; 68; 5] = Some (CConfineUser 5) /\
  dec_body 0 [129; 162; 73; 68; 9] = Some (COrganization 9 0) /\
  dec_body 8 [129; 162; 105; 100; 9] = Some (CConfineUser 0).
Proof. vm_compute. repeat split; reflexivity. Qed.

Print Assumptions dec_body_enc_body_l.
Print Assumptions dec_body_rest_enc_body_l.
Print Assumptions dec_uint_len_any_width_l.
Print Assumptions dec_uint_len_signed_l.
Print Assumptions dec_int64_len_any_width_l.
Print Assumptions dec_int64_len_unsigned_l.
Print Assumptions dec_body_nil_l.
Print Assumptions dec_struct_arr_len_l.
Print Assumptions dec_body_trailing_l.
Print Assumptions dec_body_rest_consumes_l.
Print Assumptions dec_body_rest_wf_l.
Print Assumptions dec_body_reenc_l.
Print Assumptions dec_body_total_l.
Print Assumptions dec_body_google_uid_zeros_l.
Print Assumptions dec_body_google_hd_bin_l.
Print Assumptions dec_body_bind_str_l.
