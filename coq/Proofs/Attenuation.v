(* C02 (task S4): attenuation only restricts and is never silently lost.
   Facts about [add] (Macaroon.Add) and their consequences for [verify]. *)
From Coq Require Import List Bool NArith Lia.
From Mac Require Import Model.Sym Proofs.SymBasics.
Import ListNotations.
Local Open Scope N_scope.

(* ------------------------------------------------------------------ *)
(** * in_pcavs, dedup, dedup_add *)

Lemma in_pcavs_In c l : in_pcavs c l = true <-> In c l.
Proof.
  unfold in_pcavs. rewrite existsb_exists. split.
  - intros [x [Hin E]]. apply pcav_eqb_spec in E. subst. exact Hin.
  - intros Hin. exists c. split; [exact Hin|apply pcav_eqb_refl].
Qed.

Lemma in_pcavs_not_In c l : in_pcavs c l = false <-> ~ In c l.
Proof.
  rewrite <- in_pcavs_In. destruct (in_pcavs c l); split; congruence.
Qed.

(* the data caveats that Add keeps: not yet on the token ([seen]), not repeated earlier in the input *)
Fixpoint dedup_data (seen : list pcav) (ds : list dcav) : list dcav :=
  match ds with
  | [] => []
  | d :: r => if in_pcavs (PData d) seen then dedup_data seen r else d :: dedup_data (PData d :: seen) r
  end.

(* it is Macaroon.dedup restricted to data caveats ... *)
Lemma dedup_data_dedup seen ds : map PData (dedup_data seen ds) = dedup seen (map PData ds).
Proof.
  revert seen. induction ds as [|d r IH]; intros seen; [reflexivity|].
  cbn [map dedup dedup_data]. destruct (in_pcavs (PData d) seen); [apply IH|].
  cbn [map]. rewrite IH. reflexivity.
Qed.

(* ... and what dedup_add does on an input of data caveats *)
Lemma dedup_add_data seen ds : dedup_add seen (map AData ds) = map AData (dedup_data seen ds).
Proof.
  revert seen. induction ds as [|d r IH]; intros seen; [reflexivity|].
  cbn [map dedup_add dedup_data addcav_pre]. destruct (in_pcavs (PData d) seen); [apply IH|].
  cbn [map]. rewrite IH. reflexivity.
Qed.

Lemma dedup_data_In seen ds d : In d (dedup_data seen ds) <-> In d ds /\ ~ In (PData d) seen.
Proof.
  revert seen. induction ds as [|x r IH]; intros seen; cbn [dedup_data In]; [tauto|].
  destruct (in_pcavs (PData x) seen) eqn:E.
  - apply in_pcavs_In in E. rewrite IH. split.
    + tauto.
    + intros [[Hx|Hr] Hn]; [subst; contradiction|tauto].
  - apply in_pcavs_not_In in E. cbn [In]. rewrite IH. cbn [In]. split.
    + intros [Hx|[Hr Hn]]; [subst; tauto|]. split; [tauto|]. intros Hs. apply Hn. right. exact Hs.
    + intros [[Hx|Hr] Hn]; [left; exact Hx|].
      destruct (dcav_eqb x d) eqn:Exd.
      * apply dcav_eqb_spec in Exd. left. exact Exd.
      * apply dcav_eqb_false in Exd. right. split; [exact Hr|]. intros [Hs|Hs]; [|contradiction].
        injection Hs. exact Exd.
Qed.

Lemma dedup_data_NoDup seen ds : NoDup (dedup_data seen ds).
Proof.
  revert seen. induction ds as [|x r IH]; intros seen; cbn [dedup_data]; [constructor|].
  destruct (in_pcavs (PData x) seen); [apply IH|]. constructor; [|apply IH].
  rewrite dedup_data_In. intros [_ Hn]. apply Hn. left. reflexivity.
Qed.

(* only membership of data caveats in [seen] matters *)
Lemma dedup_data_ext seen seen' ds :
  (forall d, In (PData d) seen <-> In (PData d) seen') -> dedup_data seen ds = dedup_data seen' ds.
Proof.
  revert seen seen'. induction ds as [|x r IH]; intros seen seen' Hs; [reflexivity|].
  cbn [dedup_data].
  assert (E : in_pcavs (PData x) seen = in_pcavs (PData x) seen').
  { destruct (in_pcavs (PData x) seen') eqn:E'.
    - apply in_pcavs_In. apply Hs. apply in_pcavs_In. exact E'.
    - apply in_pcavs_not_In. rewrite Hs. apply in_pcavs_not_In. exact E'. }
  rewrite E. destruct (in_pcavs (PData x) seen'); [apply IH; exact Hs|].
  f_equal. apply IH. intros d. cbn [In]. rewrite Hs. reflexivity.
Qed.

(* positional description: the occurrence of [d] after the prefix [pre] is kept iff [d] is neither
   on the token already nor in [pre]; order is that of the input *)
Lemma dedup_data_app seen a b :
  dedup_data seen (a ++ b) = dedup_data seen a ++ dedup_data (map PData a ++ seen) b.
Proof.
  revert seen. induction a as [|x r IH]; intros seen; [reflexivity|].
  cbn [app map dedup_data]. destruct (in_pcavs (PData x) seen) eqn:E.
  - rewrite IH. f_equal. apply dedup_data_ext. intros d. cbn [In]. rewrite !in_app_iff.
    apply in_pcavs_In in E. split; [tauto|]. intros [Hx|[Hr|Hs]]; [rewrite <- Hx; tauto|tauto|tauto].
  - rewrite IH. cbn [app]. f_equal. f_equal. apply dedup_data_ext. intros d. cbn [In].
    rewrite !in_app_iff. cbn [In]. tauto.
Qed.

Lemma existsb_map_PData d l : existsb (pcav_eqb (PData d)) (map PData l) = existsb (dcav_eqb d) l.
Proof.
  induction l as [|x r IH]; [reflexivity|]. cbn [map existsb]. rewrite IH. reflexivity.
Qed.

Lemma dedup_data_occurrence seen pre d post :
  dedup_data seen (pre ++ d :: post) =
  dedup_data seen pre ++
  (if in_pcavs (PData d) seen || existsb (dcav_eqb d) pre then [] else [d]) ++
  dedup_data (PData d :: map PData pre ++ seen) post.
Proof.
  rewrite dedup_data_app. f_equal. cbn [dedup_data].
  assert (E : in_pcavs (PData d) (map PData pre ++ seen) = in_pcavs (PData d) seen || existsb (dcav_eqb d) pre).
  { unfold in_pcavs. rewrite existsb_app, existsb_map_PData. apply orb_comm. }
  rewrite <- E. destruct (in_pcavs (PData d) (map PData pre ++ seen)) eqn:E'; [|reflexivity].
  cbn [app]. apply dedup_data_ext. intros d'. cbn [In]. apply in_pcavs_In in E'. split; [tauto|].
  intros [Hc|Hc]; [rewrite <- Hc; exact E'|exact Hc].
Qed.

Lemma dedup_add_all_seen seen l :
  (forall a, In a l -> In (addcav_pre a) seen) -> dedup_add seen l = [].
Proof.
  induction l as [|a r IH]; intros H; [reflexivity|].
  cbn [dedup_add]. assert (E : in_pcavs (addcav_pre a) seen = true).
  { apply in_pcavs_In. apply H. left. reflexivity. }
  rewrite E. apply IH. intros a' Ha'. apply H. right. exact Ha'.
Qed.

(* ------------------------------------------------------------------ *)
(** * add_loop *)

Lemma add_loop_nil proof seen cavs tail : add_loop proof seen cavs tail [] = (cavs, tail, true).
Proof. reflexivity. Qed.

Lemma add_loop_data_cons proof seen cavs tail d r :
  add_loop proof seen cavs tail (AData d :: r) =
  if (d_att d && negb proof) || d_wrap d then (cavs, tail, false)
  else add_loop proof seen (cavs ++ [PData d]) (TMac tail (MCav (PData d))) r.
Proof. reflexivity. Qed.

Lemma add_loop_3p_cons proof seen cavs tail loc rn rs tk r :
  add_loop proof seen cavs tail (A3P loc rn rs tk :: r) =
  if existsb (N.eqb loc) seen then (cavs, tail, false)
  else add_loop proof (loc :: seen) (cavs ++ [P3P loc (TSeal tail rs rn) tk])
                (TMac tail (MCav (P3P loc (TSeal tail rs rn) tk))) r.
Proof. reflexivity. Qed.

Lemma add_loop_bind_cons proof seen cavs tail b r :
  add_loop proof seen cavs tail (ABind b :: r) =
  add_loop proof seen (cavs ++ [PBind b]) (TMac tail (MCav (PBind b))) r.
Proof. reflexivity. Qed.

(* Add only appends and the tail is the chain extension, also when it stops with an error *)
Lemma add_loop_ext proof l : forall seen cavs tail cavs' tail' ok,
  add_loop proof seen cavs tail l = (cavs', tail', ok) ->
  exists ext, cavs' = cavs ++ ext /\ tail' = chain_from tail ext.
Proof.
  induction l as [|a r IH]; intros seen cavs tail cavs' tail' ok H.
  - rewrite add_loop_nil in H. injection H. intros. subst. exists []. rewrite app_nil_r. auto.
  - assert (Hstop : (cavs, tail, false) = (cavs', tail', ok) ->
                    exists ext, cavs' = cavs ++ ext /\ tail' = chain_from tail ext).
    { intros E. injection E. intros. subst. exists []. rewrite app_nil_r. auto. }
    assert (Hgo : forall c seen0, add_loop proof seen0 (cavs ++ [c]) (TMac tail (MCav c)) r = (cavs', tail', ok) ->
                    exists ext, cavs' = cavs ++ ext /\ tail' = chain_from tail ext).
    { intros c seen0 E. destruct (IH _ _ _ _ _ _ E) as [ext [Hc Ht]]. exists (c :: ext).
      rewrite <- app_assoc in Hc. split; [exact Hc|]. rewrite chain_from_cons. exact Ht. }
    destruct a as [d|loc rn rs tk|b].
    + rewrite add_loop_data_cons in H. destruct ((d_att d && negb proof) || d_wrap d); eauto.
    + rewrite add_loop_3p_cons in H. destruct (existsb (N.eqb loc) seen); eauto.
    + rewrite add_loop_bind_cons in H. eauto.
Qed.

(* on an input of data caveats, success means everything was appended, and every one was admissible *)
Lemma add_loop_data proof seen ds : forall cavs tail cavs' tail',
  add_loop proof seen cavs tail (map AData ds) = (cavs', tail', true) ->
  cavs' = cavs ++ map PData ds /\
  (forall d, In d ds -> (d_att d = true -> proof = true) /\ d_wrap d = false).
Proof.
  induction ds as [|d r IH]; intros cavs tail cavs' tail' H; cbn [map] in H.
  - rewrite add_loop_nil in H. injection H. intros. subst. rewrite app_nil_r. split; [reflexivity|]. intros d [].
  - rewrite add_loop_data_cons in H.
    destruct ((d_att d && negb proof) || d_wrap d) eqn:E; [discriminate H|].
    apply orb_false_iff in E. destruct E as [Ea Ew].
    destruct (IH _ _ _ _ H) as [Hc Hall]. rewrite <- app_assoc in Hc. split; [exact Hc|].
    intros d' [Hd|Hd]; [subst d'|apply Hall; exact Hd].
    split; [apply data_cond_false_inv; exact Ea|exact Ew].
Qed.

(* conversely *)
Lemma add_loop_data_ok proof seen ds : forall cavs tail,
  (forall d, In d ds -> (d_att d = true -> proof = true) /\ d_wrap d = false) ->
  add_loop proof seen cavs tail (map AData ds) = (cavs ++ map PData ds, chain_from tail (map PData ds), true).
Proof.
  induction ds as [|d r IH]; intros cavs tail Hall; cbn [map].
  - rewrite add_loop_nil, app_nil_r. reflexivity.
  - rewrite add_loop_data_cons. destruct (Hall d (or_introl eq_refl)) as [Ha Hw].
    rewrite (data_cond_false _ _ Ha), Hw. cbn [orb]. rewrite IH.
    + rewrite <- app_assoc, chain_from_cons. reflexivity.
    + intros d' Hd'. apply Hall. right. exact Hd'.
Qed.

(* ------------------------------------------------------------------ *)
(** * add *)

Definition frozen (t : token) : bool := n_proof (t_nonce t) && negb (t_newproof t).

Lemma add_frozen t l : frozen t = true -> add t l = (t, false).
Proof. unfold frozen, add. intros E. rewrite E. reflexivity. Qed.

Lemma add_unfrozen t l : frozen t = false ->
  add t l =
  let '(cavs, tail, ok) :=
      add_loop (n_proof (t_nonce t)) (locs3p (t_cavs t)) (t_cavs t) (t_tail t) (dedup_add (t_cavs t) l) in
  (mkTok (t_nonce t) (t_loc t) cavs tail (t_newproof t), ok).
Proof. unfold frozen, add. intros E. rewrite E. reflexivity. Qed.

(* inversion of a call of add *)
Lemma add_inv t l t' ok : add t l = (t', ok) ->
  (frozen t = true /\ t' = t /\ ok = false) \/
  (frozen t = false /\ exists cavs tail,
     add_loop (n_proof (t_nonce t)) (locs3p (t_cavs t)) (t_cavs t) (t_tail t) (dedup_add (t_cavs t) l) = (cavs, tail, ok) /\
     t' = mkTok (t_nonce t) (t_loc t) cavs tail (t_newproof t)).
Proof.
  destruct (frozen t) eqn:E; intros H.
  - rewrite (add_frozen _ _ E) in H. injection H. intros. subst. left. auto.
  - rewrite (add_unfrozen _ _ E) in H.
    destruct (add_loop _ _ _ _ _) as [[cavs tail] ok0] eqn:El. injection H. intros. subst.
    right. split; [reflexivity|]. exists cavs, tail. auto.
Qed.

Lemma add_extends_l t l t' ok : add t l = (t', ok) ->
  t_nonce t' = t_nonce t /\ t_loc t' = t_loc t /\ t_newproof t' = t_newproof t /\
  exists ext, t_cavs t' = t_cavs t ++ ext /\ t_tail t' = chain_from (t_tail t) ext.
Proof.
  intros H. destruct (add_inv _ _ _ _ H) as [[_ [Et _]]|[_ [cavs [tail [El Et]]]]]; subst t'.
  - repeat (split; [reflexivity|]). exists []. rewrite app_nil_r. auto.
  - cbn [t_nonce t_loc t_newproof t_cavs t_tail]. repeat (split; [reflexivity|]).
    apply (add_loop_ext _ _ _ _ _ _ _ _ El).
Qed.

Lemma add_keeps_chain_l k t l t' ok :
  t_tail t = chain k (t_nonce t) (t_cavs t) -> add t l = (t', ok) ->
  t_tail t' = chain k (t_nonce t') (t_cavs t').
Proof.
  intros Ht H. destruct (add_extends_l _ _ _ _ H) as [En [_ [_ [ext [Ec Etl]]]]].
  rewrite Etl, Ec, En, Ht, chain_app. reflexivity.
Qed.

(* the appended caveats are exactly the dedup-filtered input, in order *)
Lemma add_appended_are_new_l t ds t' :
  add t (map AData ds) = (t', true) ->
  t_cavs t' = t_cavs t ++ map PData (dedup_data (t_cavs t) ds) /\
  t_tail t' = chain_from (t_tail t) (map PData (dedup_data (t_cavs t) ds)) /\
  (forall d, In d ds -> In (PData d) (t_cavs t')).
Proof.
  intros H. destruct (add_extends_l _ _ _ _ H) as [_ [_ [_ [ext [Ec Etl]]]]].
  destruct (add_inv _ _ _ _ H) as [[_ [_ Habs]]|[_ [cavs [tail [El Et]]]]]; [discriminate Habs|].
  rewrite dedup_add_data in El. destruct (add_loop_data _ _ _ _ _ _ _ El) as [Hc _].
  assert (Ecav : t_cavs t' = t_cavs t ++ map PData (dedup_data (t_cavs t) ds)).
  { subst t'. exact Hc. }
  split; [exact Ecav|]. split.
  - rewrite Ecav in Ec. apply app_inv_head in Ec. rewrite Ec. exact Etl.
  - intros d Hd. rewrite Ecav. apply in_or_app.
    destruct (in_pcavs (PData d) (t_cavs t)) eqn:E.
    + left. apply in_pcavs_In. exact E.
    + right. apply in_map. apply dedup_data_In. split; [exact Hd|]. apply in_pcavs_not_In. exact E.
Qed.

(* the same, phrased with Macaroon.dedup *)
Lemma add_appended_dedup t ds t' :
  add t (map AData ds) = (t', true) -> t_cavs t' = t_cavs t ++ dedup (t_cavs t) (map PData ds).
Proof.
  intros H. rewrite <- dedup_data_dedup. apply (add_appended_are_new_l _ _ _ H).
Qed.

(* every appended data caveat is admissible for the token's kind *)
Lemma add_data_admissible t ds t' :
  add t (map AData ds) = (t', true) ->
  forall d, In d ds -> ~ In (PData d) (t_cavs t) -> (d_att d = true -> n_proof (t_nonce t) = true) /\ d_wrap d = false.
Proof.
  intros H d Hd Hn.
  destruct (add_inv _ _ _ _ H) as [[_ [_ Habs]]|[_ [cavs [tail [El Et]]]]]; [discriminate Habs|].
  rewrite dedup_add_data in El. destruct (add_loop_data _ _ _ _ _ _ _ El) as [_ Hall].
  apply Hall. apply dedup_data_In. auto.
Qed.

Lemma readd_identical_noop_l t l :
  (n_proof (t_nonce t) && negb (t_newproof t)) = false ->
  (forall a, In a l -> In (addcav_pre a) (t_cavs t)) -> add t l = (t, true).
Proof.
  intros Ef Hall. rewrite (add_unfrozen _ _ Ef), (dedup_add_all_seen _ _ Hall), add_loop_nil.
  destruct t; reflexivity.
Qed.

Lemma near_duplicate_kept_l t d :
  (n_proof (t_nonce t) && negb (t_newproof t)) = false -> ~ In (PData d) (t_cavs t) ->
  (d_att d = true -> n_proof (t_nonce t) = true) -> d_wrap d = false ->
  add t [AData d] =
  (mkTok (t_nonce t) (t_loc t) (t_cavs t ++ [PData d]) (TMac (t_tail t) (MCav (PData d))) (t_newproof t), true).
Proof.
  intros Ef Hn Ha Hw. rewrite (add_unfrozen _ _ Ef). cbn [dedup_add addcav_pre].
  apply in_pcavs_not_In in Hn. rewrite Hn, add_loop_data_cons, (data_cond_false _ _ Ha), Hw. reflexivity.
Qed.

(* adding one third-party caveat (not collapsed by dedup: the key-id [tk] is new for this location) *)
Lemma add_single_3p t loc rn r tk t' :
  add t [A3P loc rn r tk] = (t', true) -> ~ In (P3P loc (TLit []) tk) (t_cavs t) ->
  t_cavs t' = t_cavs t ++ [P3P loc (TSeal (t_tail t) r rn) tk] /\
  t_tail t' = TMac (t_tail t) (MCav (P3P loc (TSeal (t_tail t) r rn) tk)).
Proof.
  intros Ha Hn. destruct (add_inv _ _ _ _ Ha) as [[_ [_ Habs]]|[_ [cavs [tail [El Et]]]]]; [discriminate Habs|].
  cbn [dedup_add addcav_pre] in El. apply in_pcavs_not_In in Hn. rewrite Hn in El.
  rewrite add_loop_3p_cons in El. destruct (existsb (N.eqb loc) (locs3p (t_cavs t))); [discriminate El|].
  rewrite add_loop_nil in El. injection El. intros. subst. auto.
Qed.

(* adding one binding caveat *)
Lemma add_single_bind t b t' :
  add t [ABind b] = (t', true) ->
  (t_cavs t' = t_cavs t /\ t_tail t' = t_tail t /\ In (PBind b) (t_cavs t)) \/
  (t_cavs t' = t_cavs t ++ [PBind b] /\ t_tail t' = TMac (t_tail t) (MCav (PBind b))).
Proof.
  intros Ha. destruct (add_inv _ _ _ _ Ha) as [[_ [_ Habs]]|[_ [cavs [tail [El Et]]]]]; [discriminate Habs|].
  cbn [dedup_add addcav_pre] in El. destruct (in_pcavs (PBind b) (t_cavs t)) eqn:E.
  - rewrite add_loop_nil in El. injection El. intros. subst. left. apply in_pcavs_In in E. auto.
  - rewrite add_loop_bind_cons, add_loop_nil in El. injection El. intros. subst. right. auto.
Qed.

(* ------------------------------------------------------------------ *)
(** * verify: completeness in terms of the chain (converse of [verify_sound_chain]) *)

Definition hascand (ds : list token) (tk : term) : bool :=
  negb (match cands_for ds tk with [] => true | _ => false end).

Lemma hascand_true ds tk : hascand ds tk = true <-> cands_for ds tk <> [].
Proof.
  unfold hascand. destruct (cands_for ds tk); cbn [negb]; split; congruence.
Qed.

Lemma fin_if_frozen_verify t x :
  n_proof (t_nonce t) && t_newproof t = false ->
  fin_if (n_proof (t_nonce t) && negb (t_newproof t)) x = fin_if (n_proof (t_nonce t)) x.
Proof. destruct (n_proof (t_nonce t)), (t_newproof t); intros E; try reflexivity. discriminate E. Qed.

Lemma verify_complete_gen k t ds tr pl dret :
  n_proof (t_nonce t) && t_newproof t = false ->
  data_ok (n_proof (t_nonce t)) (t_cavs t) ->
  (forall b, ~ In (PBind b) (t_cavs t)) ->
  (forall l vk tk, In (P3P l vk tk) (t_cavs t) -> cands_for ds tk <> []) ->
  tok_pend k t = Some pl ->
  discharge_all pl ds (tok_bids k t) tr = Some dret ->
  t_tail t = fin_if (n_proof (t_nonce t)) (chain k (t_nonce t) (t_cavs t)) ->
  verify k t ds tr = Some (returned (n_proof (t_nonce t)) true (t_cavs t) ++ dret).
Proof.
  intros Enp Hdo Hnb H3 Hpl Hd Et. unfold verify. rewrite Enp.
  fold (hascand ds).
  rewrite (walk_complete (n_proof (t_nonce t)) true [] (hascand ds) (t_cavs t) (start_walk k t) pl).
  - unfold walk_result. cbn [start_walk w_mac w_ret w_pend w_bids app].
    unfold tok_bids, tok_start in Hd. rewrite Hd, Et.
    fold (chain k (t_nonce t) (t_cavs t)). rewrite term_eqb_refl. reflexivity.
  - exact Hdo.
  - intros b Hb. destruct (Hnb b Hb).
  - intros l vk tk Hin. apply hascand_true. apply (H3 l vk tk Hin).
  - exact Hpl.
Qed.

(* both directions together *)
Lemma verify_iff k t ds tr S :
  verify k t ds tr = Some S <->
  n_proof (t_nonce t) && t_newproof t = false /\
  data_ok (n_proof (t_nonce t)) (t_cavs t) /\
  (forall b, ~ In (PBind b) (t_cavs t)) /\
  (forall l vk tk, In (P3P l vk tk) (t_cavs t) -> cands_for ds tk <> []) /\
  t_tail t = fin_if (n_proof (t_nonce t)) (chain k (t_nonce t) (t_cavs t)) /\
  exists pl dret, tok_pend k t = Some pl /\ discharge_all pl ds (tok_bids k t) tr = Some dret /\
    S = returned (n_proof (t_nonce t)) true (t_cavs t) ++ dret.
Proof.
  split.
  - intros H. destruct (verify_sound_more _ _ _ _ _ H) as [Enp [Hdo H3]].
    destruct (verify_sound_chain _ _ _ _ _ H) as [Et [pl [dret [Hpl [HS Hd]]]]].
    split; [exact Enp|]. split; [exact Hdo|]. split; [apply (verify_no_bind_top _ _ _ _ _ H)|].
    split; [exact H3|]. split; [exact Et|]. exists pl, dret. auto.
  - intros [Enp [Hdo [Hnb [H3 [Et [pl [dret [Hpl [Hd HS]]]]]]]]]. subst S.
    apply (verify_complete_gen _ _ _ _ pl); assumption.
Qed.

(* ------------------------------------------------------------------ *)
(** * discharges without a binding caveat do not depend on the parent's binding ids *)

Lemma walk_pbids_irrel p t pb pb' hc cs :
  (forall b, ~ In (PBind b) cs) -> forall w, walk p t pb hc cs w = walk p t pb' hc cs w.
Proof.
  induction cs as [|c r IH]; intros Hnb w; [reflexivity|].
  assert (Hr : forall b, ~ In (PBind b) r).
  { intros b Hb. apply (Hnb b). right. exact Hb. }
  rewrite !walk_cons. destruct c as [d|l vk tk|b].
  - destruct (d_att d && negb p); [reflexivity|]. destruct (d_wrap d); [reflexivity|]. apply (IH Hr).
  - destruct (hc tk); [|reflexivity]. destruct (unseal (w_mac w) vk); [|reflexivity]. apply (IH Hr).
  - exfalso. apply (Hnb b). left. reflexivity.
Qed.

Lemma verify_flat_bids_irrel k t pb pb' ta :
  (forall b, ~ In (PBind b) (t_cavs t)) -> verify_flat k t pb ta = verify_flat k t pb' ta.
Proof.
  intros Hnb. unfold verify_flat. rewrite (walk_pbids_irrel _ _ pb pb' _ _ Hnb). reflexivity.
Qed.

Lemma try_cands_bids_irrel cands dk pb pb' ta tr :
  (forall d b, In d cands -> ~ In (PBind b) (t_cavs d)) ->
  try_cands cands dk pb ta tr = try_cands cands dk pb' ta tr.
Proof.
  induction cands as [|d r IH]; intros Hnb; [reflexivity|].
  assert (Hr : try_cands r dk pb ta tr = try_cands r dk pb' ta tr).
  { apply IH. intros d' b Hd'. apply Hnb. right. exact Hd'. }
  assert (Hd : forall b, ~ In (PBind b) (t_cavs d)).
  { intros b. apply Hnb. left. reflexivity. }
  cbn [try_cands]. rewrite Hr.
  destruct (trust_check _ _ _); [reflexivity| |]; rewrite (verify_flat_bids_irrel _ _ pb pb' _ Hd); reflexivity.
Qed.

Lemma discharge_all_bids_irrel pend ds pb pb' tr :
  (forall d b, In d ds -> ~ In (PBind b) (t_cavs d)) ->
  discharge_all pend ds pb tr = discharge_all pend ds pb' tr.
Proof.
  intros Hnb. induction pend as [|[tk dk] r IH]; [reflexivity|].
  cbn [discharge_all]. rewrite IH. rewrite (try_cands_bids_irrel _ _ pb pb').
  - reflexivity.
  - intros d b Hd. apply Hnb. apply In_cands_for in Hd. tauto.
Qed.

Lemma discharge_all_app p1 p2 ds bids tr :
  discharge_all (p1 ++ p2) ds bids tr =
  match discharge_all p1 ds bids tr, discharge_all p2 ds bids tr with
  | Some a, Some b => Some (a ++ b)
  | _, _ => None
  end.
Proof.
  induction p1 as [|[tk dk] r IH].
  - cbn [app discharge_all]. destruct (discharge_all p2 ds bids tr); reflexivity.
  - rewrite <- app_comm_cons. cbn [discharge_all]. rewrite IH.
    destruct (try_cands _ _ _ _ _) as [s|]; [|reflexivity].
    destruct (discharge_all r ds bids tr) as [a|]; [|reflexivity].
    destruct (discharge_all p2 ds bids tr) as [b|]; [|reflexivity].
    rewrite app_assoc. reflexivity.
Qed.

(* ------------------------------------------------------------------ *)
(** * attenuation is monotone for verification *)

(* general form: also for proofs (the parent's tail is then the finalised chain) and without
   any assumption on [t_newproof t'] *)
Lemma attenuation_monotone_verify_gen k t t' ds tr S' :
  t_nonce t' = t_nonce t -> (exists ext, t_cavs t' = t_cavs t ++ ext) ->
  n_proof (t_nonce t) && t_newproof t = false ->
  t_tail t = fin_if (n_proof (t_nonce t)) (chain k (t_nonce t) (t_cavs t)) ->
  (forall d b, In d ds -> ~ In (PBind b) (t_cavs d)) ->
  verify k t' ds tr = Some S' ->
  exists S, verify k t ds tr = Some S /\ (forall x, In x S -> In x S').
Proof.
  intros En [ext Ec] Enp Et Hnb H.
  apply verify_iff in H. destruct H as [_ [Hdo' [Hnb' [H3' [_ [pl' [dret' [Hpl' [Hd' HS']]]]]]]]].
  rewrite En, Ec in Hdo'. apply data_ok_app in Hdo'. destruct Hdo' as [Hdo _].
  unfold tok_pend, tok_start in Hpl'. rewrite En, Ec, pend_of_app in Hpl'.
  destruct (pend_of (TMac k (mnonce (t_nonce t))) (t_cavs t)) as [pa|] eqn:Epa; [|discriminate Hpl'].
  destruct (pend_of _ ext) as [pb|]; [|discriminate Hpl'].
  injection Hpl'. intros Epl'. subst pl'.
  rewrite discharge_all_app in Hd'.
  destruct (discharge_all pa ds (tok_bids k t') tr) as [da|] eqn:Eda; [|discriminate Hd'].
  destruct (discharge_all pb ds (tok_bids k t') tr) as [db|]; [|discriminate Hd'].
  injection Hd'. intros Edret. subst dret'.
  exists (returned (n_proof (t_nonce t)) true (t_cavs t) ++ da). split.
  - apply (verify_complete_gen _ _ _ _ pa).
    + exact Enp.
    + exact Hdo.
    + intros b Hb. apply (Hnb' b). rewrite Ec. apply in_or_app. left. exact Hb.
    + intros l vk tk Hin. apply (H3' l vk tk). rewrite Ec. apply in_or_app. left. exact Hin.
    + exact Epa.
    + rewrite (discharge_all_bids_irrel _ _ _ (tok_bids k t') _ Hnb). exact Eda.
    + exact Et.
  - intros x Hx. subst S'. rewrite En, Ec, returned_app.
    apply in_app_or in Hx. rewrite !in_app_iff. tauto.
Qed.

Lemma attenuation_monotone_verify_l k t t' ds tr S' :
  t_nonce t' = t_nonce t -> (exists ext, t_cavs t' = t_cavs t ++ ext) ->
  t_newproof t = false -> t_newproof t' = false -> n_proof (t_nonce t) = false ->
  t_tail t = chain k (t_nonce t) (t_cavs t) ->
  (forall d b, In d ds -> ~ In (PBind b) (t_cavs d)) ->
  verify k t' ds tr = Some S' ->
  exists S, verify k t ds tr = Some S /\ (forall x, In x S -> In x S').
Proof.
  intros En Hext Enp _ Ep Et Hnb H.
  apply (attenuation_monotone_verify_gen k t t' ds tr S' En Hext); try assumption.
  - rewrite Enp. apply andb_false_r.
  - rewrite Ep. exact Et.
Qed.

(* the case the property is about: [t'] obtained from [t] by [add] *)
Lemma add_monotone_verify k t l t' ok ds tr S' :
  add t l = (t', ok) ->
  n_proof (t_nonce t) && t_newproof t = false ->
  t_tail t = fin_if (n_proof (t_nonce t)) (chain k (t_nonce t) (t_cavs t)) ->
  (forall d b, In d ds -> ~ In (PBind b) (t_cavs d)) ->
  verify k t' ds tr = Some S' ->
  exists S, verify k t ds tr = Some S /\ (forall x, In x S -> In x S').
Proof.
  intros Ha. destruct (add_extends_l _ _ _ _ Ha) as [En [_ [_ [ext [Ec _]]]]].
  apply attenuation_monotone_verify_gen; [exact En|exists ext; exact Ec].
Qed.

(* ------------------------------------------------------------------ *)
(** * attenuation is never silently lost *)

Lemma existing_caveat_enforced_l k t ds tr S d :
  verify k t ds tr = Some S -> In (PData d) (t_cavs t) -> d_att d = false -> In d S.
Proof.
  intros H Hin _. destruct (verify_sound_chain _ _ _ _ _ H) as [_ [pl [dret [_ [HS _]]]]].
  subst S. apply in_or_app. left. apply In_returned. split; [exact Hin|apply orb_true_r].
Qed.

(* at top level attestations are returned, too (trust_att = true), so [d_att d = false] is not needed *)
Lemma existing_caveat_enforced_any k t ds tr S d :
  verify k t ds tr = Some S -> In (PData d) (t_cavs t) -> In d S.
Proof.
  intros H Hin. destruct (verify_sound_chain _ _ _ _ _ H) as [_ [pl [dret [_ [HS _]]]]].
  subst S. apply in_or_app. left. apply In_returned. split; [exact Hin|apply orb_true_r].
Qed.

Lemma added_caveat_enforced_l k t d t' ds tr S' :
  add t [AData d] = (t', true) -> ~ In (PData d) (t_cavs t) -> d_att d = false ->
  verify k t' ds tr = Some S' -> In d S'.
Proof.
  intros Ha _ _ H. apply (existing_caveat_enforced_any _ _ _ _ _ _ H).
  apply (add_appended_are_new_l t [d] t' Ha). left. reflexivity.
Qed.

(* whatever list was added successfully, each of its data caveats is enforced *)
Lemma added_caveats_enforced k t ds0 t' ds tr S' :
  add t (map AData ds0) = (t', true) -> verify k t' ds tr = Some S' -> forall d, In d ds0 -> In d S'.
Proof.
  intros Ha H d Hd. apply (existing_caveat_enforced_any _ _ _ _ _ _ H).
  apply (add_appended_are_new_l t ds0 t' Ha). exact Hd.
Qed.

Lemma added_3p_demands_discharge_l k t tr l vk tk :
  In (P3P l vk tk) (t_cavs t) -> verify k t [] tr = None.
Proof.
  intros Hin. destruct (verify k t [] tr) as [S|] eqn:H; [|reflexivity].
  destruct (verify_sound_more _ _ _ _ _ H) as [_ [_ H3]]. destruct (H3 l vk tk Hin). reflexivity.
Qed.

(* more generally: without a presented discharge whose key-id is the ticket *)
Lemma added_3p_demands_discharge_gen k t ds tr l vk tk :
  In (P3P l vk tk) (t_cavs t) -> (forall d, In d ds -> n_kid (t_nonce d) <> tk) -> verify k t ds tr = None.
Proof.
  intros Hin Hno. destruct (verify k t ds tr) as [S|] eqn:H; [|reflexivity].
  destruct (verify_sound_more _ _ _ _ _ H) as [_ [_ H3]]. exfalso. apply (H3 l vk tk Hin).
  destruct (cands_for ds tk) as [|d r] eqn:E; [reflexivity|]. exfalso.
  assert (Hd : In d (cands_for ds tk)) by (rewrite E; left; reflexivity).
  apply In_cands_for in Hd. destruct Hd as [Hd Hk]. apply (Hno d Hd Hk).
Qed.

(* a third-party caveat added by [add] is on the token afterwards (so the above applies) *)
Lemma add_3p_present t loc rn r tk t' :
  add t [A3P loc rn r tk] = (t', true) -> exists l vk, In (P3P l vk tk) (t_cavs t').
Proof.
  intros Ha. destruct (add_inv _ _ _ _ Ha) as [[_ [_ Habs]]|[_ [cavs [tail [El Et]]]]]; [discriminate Habs|].
  cbn [dedup_add addcav_pre] in El.
  destruct (in_pcavs (P3P loc (TLit []) tk) (t_cavs t)) eqn:E.
  - rewrite add_loop_nil in El. injection El. intros. subst. cbn [t_cavs].
    exists loc, (TLit []). apply in_pcavs_In. exact E.
  - rewrite add_loop_3p_cons in El. destruct (existsb (N.eqb loc) (locs3p (t_cavs t))); [discriminate El|].
    rewrite add_loop_nil in El. injection El. intros. subst. cbn [t_cavs].
    exists loc, (TSeal (t_tail t) r rn). apply in_or_app. right. left. reflexivity.
Qed.

(* ------------------------------------------------------------------ *)
Print Assumptions add_extends_l.
Print Assumptions add_keeps_chain_l.
Print Assumptions add_appended_are_new_l.
Print Assumptions add_appended_dedup.
Print Assumptions dedup_data_occurrence.
Print Assumptions dedup_data_NoDup.
Print Assumptions readd_identical_noop_l.
Print Assumptions near_duplicate_kept_l.
Print Assumptions verify_iff.
Print Assumptions verify_flat_bids_irrel.
Print Assumptions attenuation_monotone_verify_gen.
Print Assumptions attenuation_monotone_verify_l.
Print Assumptions add_monotone_verify.
Print Assumptions added_caveat_enforced_l.
Print Assumptions existing_caveat_enforced_l.
Print Assumptions added_caveats_enforced.
Print Assumptions added_3p_demands_discharge_l.
Print Assumptions added_3p_demands_discharge_gen.
Print Assumptions add_3p_present.
Print Assumptions add_single_3p.
Print Assumptions add_single_bind.
