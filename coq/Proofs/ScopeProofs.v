(* C17: the scope helpers (OrganizationScope, AppScope, ClusterScope, AppsAllowing,
   Expiration, DangerousUserID) never claim more than clearing would grant. *)
From Coq Require Import List Bool NArith ZArith String Lia.
From Mac Require Import Model.Err Model.Caveat Model.Access Model.Prohibits Model.Scope
  Proofs.ErrFacts Proofs.CavInd.
Import ListNotations.

(* ------------------------------------------------------------------ *)
(* small general facts                                                 *)

Lemma is_nil_true (e : err) : is_nil e = true <-> e = None.
Proof. destruct e; simpl; split; intros H; try discriminate; reflexivity. Qed.

Lemma filter_nonempty {A} (p : A -> bool) (l : list A) :
  filter p l <> [] <-> exists x, In x l /\ p x = true.
Proof.
  split.
  - intros Hne. destruct (filter p l) as [|x r] eqn:E; [contradiction|].
    exists x. apply filter_In. rewrite E. left; reflexivity.
  - intros [x Hx] Hn. apply filter_In in Hx. rewrite Hn in Hx. contradiction.
Qed.

Lemma subset_0 m : subset 0 m = true.
Proof. unfold subset. rewrite N.land_0_l. reflexivity. Qed.

(* ---- sorting helpers *)
Lemma insert_n_In x y l : In x (insert_n y l) <-> x = y \/ In x l.
Proof.
  induction l as [|z l IH]; simpl.
  - intuition.
  - destruct (N.ltb y z).
    + simpl. intuition.
    + destruct (N.eqb_spec y z) as [->|Hne].
      * simpl. intuition.
      * simpl. rewrite IH. intuition.
Qed.

Lemma sort_dedup_n_In x l : In x (sort_dedup_n l) <-> In x l.
Proof.
  unfold sort_dedup_n. induction l as [|y l IH]; simpl.
  - reflexivity.
  - rewrite insert_n_In, IH. intuition.
Qed.

Lemma insert_s_In x y l : In x (insert_s y l) <-> x = y \/ In x l.
Proof.
  induction l as [|z l IH]; simpl.
  - intuition.
  - destruct (str_ltb y z).
    + simpl. intuition.
    + destruct (String.eqb_spec y z) as [->|Hne].
      * simpl. intuition.
      * simpl. rewrite IH. intuition.
Qed.

Lemma sort_dedup_s_In x l : In x (sort_dedup_s l) <-> In x l.
Proof.
  unfold sort_dedup_s. induction l as [|y l IH]; simpl.
  - reflexivity.
  - rewrite insert_s_In, IH. intuition.
Qed.

(* ------------------------------------------------------------------ *)
(* denials (errors that are not ErrResourceUnspecified) propagate      *)
(* through IfPresent wrappers                                          *)

(* a "hard" denial: an error that does not match ErrResourceUnspecified *)
Definition den (e : err) : Prop := exists c, e = Some c /\ eUnspec c = false.
(* nil or a hard denial *)
Definition nu (e : err) : Prop := is_unspec e = false.

Lemma den_nu e : den e -> is_unspec e = false.
Proof. intros [c [-> H]]. exact H. Qed.

Lemma den_not_nil e : den e -> e <> None.
Proof. intros [c [-> _]]. discriminate. Qed.

Lemma nu_eappend a b : nu a -> nu b -> nu (eappend a b).
Proof.
  unfold nu. destruct a as [x|], b as [y|]; simpl; intros Ha Hb; auto.
  rewrite Ha, Hb. reflexivity.
Qed.

Lemma den_eappend_l a b : den a -> nu b -> den (eappend a b).
Proof.
  intros [x [-> Hx]] Hb. destruct b as [y|]; simpl.
  - exists (eunion x y). split; [reflexivity|]. unfold nu in Hb. simpl in *.
    rewrite Hx, Hb. reflexivity.
  - exists x. split; [reflexivity|exact Hx].
Qed.

Lemma den_eappend_r a b : nu a -> den b -> den (eappend a b).
Proof. intros Ha Hb. rewrite eappend_comm. apply den_eappend_l; assumption. Qed.

(* the loop of IfPresent.Prohibits, named *)
Definition ifp_go (a : access) : list cav -> err -> bool -> err * bool :=
  fix go (l : list cav) (acc : err) (br : bool) : err * bool :=
    match l with
    | [] => (acc, br)
    | c' :: r =>
      let e := prohibits c' a in
      if is_unspec e then go r acc br else go r (eappend acc e) true
    end.

Lemma prohibits_ifpresent ifs els a :
  prohibits (CIfPresent ifs els) a =
  match a_action a with
  | None => Some E_invalid
  | Some act =>
    let '(e, br) := match ifs with Some l => ifp_go a l None false | None => (None, false) end in
    if negb br && negb (subset act els) then Some E_foract else e
  end.
Proof. reflexivity. Qed.

Lemma ifp_go_cons a c r acc br :
  ifp_go a (c :: r) acc br =
  if is_unspec (prohibits c a) then ifp_go a r acc br
  else ifp_go a r (eappend acc (prohibits c a)) true.
Proof. reflexivity. Qed.

Lemma ifp_go_keep a l : forall acc,
  den acc -> den (fst (ifp_go a l acc true)) /\ snd (ifp_go a l acc true) = true.
Proof.
  induction l as [|c r IH]; intros acc Hacc.
  - split; [exact Hacc|reflexivity].
  - rewrite ifp_go_cons. destruct (is_unspec (prohibits c a)) eqn:U.
    + apply IH; exact Hacc.
    + apply IH. apply den_eappend_l; assumption.
Qed.

Lemma ifp_go_hit a x l : In x l -> den (prohibits x a) -> forall acc br,
  nu acc -> den (fst (ifp_go a l acc br)) /\ snd (ifp_go a l acc br) = true.
Proof.
  induction l as [|c r IH]; intros Hin Hden acc br Hacc; [contradiction|].
  rewrite ifp_go_cons. destruct Hin as [->|Hin].
  - rewrite (den_nu _ Hden). apply ifp_go_keep. apply den_eappend_r; assumption.
  - destruct (is_unspec (prohibits c a)) eqn:U.
    + apply IH; assumption.
    + apply IH; try assumption. apply nu_eappend; assumption.
Qed.

Lemma flat_leaf c : (forall ifs els, c <> CIfPresent ifs els) -> flat c = [c].
Proof. intros H. destruct c; try reflexivity. exfalso. eapply H. reflexivity. Qed.

Lemma flat_attestation c : is_attestation c = true -> flat c = [c].
Proof. destruct c; try discriminate; reflexivity. Qed.

(* Strong form: no condition on the access.  For an access without an action the
   wrapper itself answers ErrInvalidAccess, which is also a hard denial. *)
Lemma nested_denial_strong c : forall c' a,
  In c' (flat c) -> den (prohibits c' a) -> den (prohibits c a).
Proof.
  induction c as [c Hleaf|els|l els IH] using cav_ind'; intros c' a Hin Hden.
  - rewrite (flat_leaf c Hleaf) in Hin. destruct Hin as [<-|[]]. exact Hden.
  - destruct Hin as [<-|[]]. exact Hden.
  - destruct Hin as [<-|Hin]; [exact Hden|].
    apply in_flat_map in Hin. destruct Hin as [x [Hx Hc']].
    rewrite Forall_forall in IH. pose proof (IH x Hx c' a Hc' Hden) as Hdx.
    rewrite prohibits_ifpresent. destruct (a_action a) as [act|].
    + destruct (ifp_go_hit a x l Hx Hdx None false eq_refl) as [H1 H2].
      destruct (ifp_go a l None false) as [e br]. simpl in H1, H2. subst br.
      simpl. exact H1.
    + exists E_invalid. split; reflexivity.
Qed.

Lemma nested_denial_propagates_l c c' a :
  In c' (flat c) -> (exists e, prohibits c' a = Some e /\ eUnspec e = false) ->
  a_action a <> None -> prohibits c a <> None.
Proof.
  intros Hin Hden _. apply den_not_nil. exact (nested_denial_strong c c' a Hin Hden).
Qed.

(* Set level.  A top-level attestation is skipped by validateAccess, so the inner
   caveat must not be an attestation (nested attestations do deny, with ErrBadCaveat).
   Without that side condition the set-level statement is false:
     validate [CFlyioUserID 1] [AFlyio (with_org (blank_access 0 (mkT 0 0)) 5)] = None
   although prohibits (CFlyioUserID 1) _ = Some E_badcav (checked with vm_compute). *)
Lemma nested_denial_validate_access_l cs c' a :
  In c' (flat_all cs) -> is_attestation c' = false ->
  (exists e, prohibits c' a = Some e /\ eUnspec e = false) ->
  validate_access cs a <> None.
Proof.
  intros Hin Hatt Hden Hnil. apply in_flat_map in Hin. destruct Hin as [c [Hc Hc']].
  assert (Hattc : is_attestation c = false).
  { destruct (is_attestation c) eqn:E; [|reflexivity].
    rewrite (flat_attestation c E) in Hc'. destruct Hc' as [<-|[]]. congruence. }
  pose proof (nested_denial_strong c c' a Hc' Hden) as Hd.
  rewrite validate_access_nil_iff in Hnil. rewrite (Hnil c Hc Hattc) in Hd.
  destruct Hd as [e [Hd _]]. discriminate.
Qed.

Lemma nested_denial_validate_l cs c' a accs :
  In a accs -> In c' (flat_all cs) -> is_attestation c' = false ->
  (exists e, prohibits c' a = Some e /\ eUnspec e = false) ->
  validate cs accs <> None.
Proof.
  intros Ha Hin Hatt Hden Hnil. rewrite validate_nil_iff in Hnil.
  destruct (Hnil a Ha) as [_ Hc].
  apply (nested_denial_validate_access_l cs c' a Hin Hatt Hden).
  apply validate_access_nil_iff. exact Hc.
Qed.

(* the corollary in the shape asked for *)
Lemma nested_denial_validate_flyio_l cs c' f :
  In c' (flat_all cs) -> is_attestation c' = false ->
  (exists e, prohibits c' (AFlyio f) = Some e /\ eUnspec e = false) ->
  validate cs [AFlyio f] <> None.
Proof. intros. eapply nested_denial_validate_l; eauto. left; reflexivity. Qed.

(* ------------------------------------------------------------------ *)
(* Expiration                                                          *)

Definition exp_step (ret : time) (na : Z) : time :=
  if t_before (unixT na 0) ret then unixT na 0 else ret.

Lemma expiration_unfold cs : expiration cs = fold_left exp_step (windows_of cs) max_time.
Proof. reflexivity. Qed.

Lemma fold_exp_in ws : forall init,
  fold_left exp_step ws init = init \/
  exists na, In na ws /\ fold_left exp_step ws init = unixT na 0.
Proof.
  induction ws as [|w ws IH]; intros init; simpl.
  - left; reflexivity.
  - destruct (IH (exp_step init w)) as [E|[na [Hna E]]].
    + rewrite E. unfold exp_step. destruct (t_before (unixT w 0) init).
      * right. exists w. split; [left; reflexivity|reflexivity].
      * left; reflexivity.
    + right. exists na. split; [right; exact Hna|exact E].
Qed.

Lemma max_time_eq : max_time = mkT 9223372036854775807 999999999.
Proof. vm_compute. reflexivity. Qed.

Lemma not_after_max_time t :
  (t_nsec t <= 999999999)%Z -> (-9223372036854775808 <= t_sec t < 9223372036854775808)%Z ->
  t_after t max_time = false.
Proof.
  intros Hn Hs. rewrite max_time_eq. unfold t_after. cbn [t_sec t_nsec].
  apply orb_false_iff. split.
  - apply Z.ltb_ge. lia.
  - apply andb_false_iff. right. apply Z.ltb_ge. exact Hn.
Qed.

Lemma windows_of_In na cs :
  In na (windows_of cs) -> exists nb, In (CValidityWindow nb na) (flat_all cs).
Proof.
  unfold windows_of. intros H. apply in_flat_map in H. destruct H as [c [Hc Hna]].
  destruct c; simpl in Hna; try contradiction. destruct Hna as [<-|[]].
  eexists. exact Hc.
Qed.

Lemma window_expired nb na a :
  t_after (a_now a) (unixT na 0) = true ->
  prohibits (CValidityWindow nb na) a = Some E_unauth.
Proof. intros H. cbn [prohibits]. rewrite H. reflexivity. Qed.

Lemma expiration_is_upper_bound_l cs accs a :
  In a accs -> (t_nsec (a_now a) <= 999999999)%Z ->
  (-9223372036854775808 <= t_sec (a_now a) < 9223372036854775808)%Z ->
  t_after (a_now a) (expiration cs) = true -> validate cs accs <> None.
Proof.
  intros Ha Hn Hs Hafter. rewrite expiration_unfold in Hafter.
  destruct (fold_exp_in (windows_of cs) max_time) as [E|[na [Hna E]]]; rewrite E in Hafter.
  - rewrite (not_after_max_time _ Hn Hs) in Hafter. discriminate.
  - destruct (windows_of_In na cs Hna) as [nb Hin].
    apply (nested_denial_validate_l cs (CValidityWindow nb na) a accs Ha Hin eq_refl).
    exists E_unauth. split; [apply window_expired; exact Hafter|reflexivity].
Qed.

Lemma expiration_no_window_l cs : windows_of cs = [] -> expiration cs = max_time.
Proof. intros H. rewrite expiration_unfold, H. reflexivity. Qed.

(* ------------------------------------------------------------------ *)
(* OrganizationScope                                                   *)

Lemma orgs_of_shape cs c : In c (orgs_of cs) -> exists i m, c = COrganization i m.
Proof.
  unfold orgs_of. intros H. apply filter_In in H. destruct H as [_ H].
  destruct c; try discriminate. eauto.
Qed.

Lemma orgs_of_flat cs c : In c (orgs_of cs) -> In c (flat_all cs).
Proof. unfold orgs_of. intros H. apply filter_In in H. tauto. Qed.

Lemma prohibits_org i m f :
  prohibits (COrganization i m) (AFlyio f) =
  match fa_org f with
  | None => Some E_unspec
  | Some o => if negb (N.eqb i 0) && negb (N.eqb i o) then Some E_forres
              else if subset (fa_action f) m then None else Some E_foract
  end.
Proof. reflexivity. Qed.

Lemma organization_scope_inl cs now id :
  organization_scope cs now = inl id ->
  (exists m rest, orgs_of cs = COrganization id m :: rest) /\
  validate (orgs_of cs) [AFlyio (with_org (blank_access 0 now) id)] = None.
Proof.
  unfold organization_scope. intros H.
  destruct (orgs_of cs) as [|c0 rest] eqn:E; [discriminate|].
  destruct c0; try discriminate.
  match type of H with context [validate ?x ?y] => destruct (validate x y) eqn:V end;
    [discriminate|].
  injection H as <-. split; [eauto|exact V].
Qed.

Lemma org_scope_ids cs now id :
  organization_scope cs now = inl id ->
  forall i m, In (COrganization i m) (orgs_of cs) -> i = 0%N \/ i = id.
Proof.
  intros H i m Hin. apply organization_scope_inl in H. destruct H as [_ V].
  rewrite validate_nil_iff in V.
  destruct (V _ (or_introl eq_refl)) as [_ Hc].
  pose proof (Hc _ Hin eq_refl) as P. rewrite prohibits_org in P. cbn [fa_org with_org] in P.
  destruct (N.eqb_spec i 0) as [E0|N0]; [left; exact E0|].
  destruct (N.eqb_spec i id) as [E1|N1]; [right; exact E1|].
  simpl in P. discriminate.
Qed.

Lemma org_scope_sound_l cs now id : organization_scope cs now = inl id ->
  (forall i m, In (COrganization i m) (orgs_of cs) -> i = 0%N \/ i = id) /\
  (id <> 0%N -> forall f, fa_org f <> Some id -> validate cs [AFlyio f] <> None) /\
  (id = 0%N -> forall i m, In (COrganization i m) (orgs_of cs) -> i = 0%N).
Proof.
  intros H. split; [|split].
  - exact (org_scope_ids cs now id H).
  - intros Hid f Hf. apply organization_scope_inl in H. destruct H as [[m [rest E]] _].
    assert (Hin : In (COrganization id m) (flat_all cs)).
    { apply orgs_of_flat. rewrite E. left; reflexivity. }
    destruct (fa_org f) as [o|] eqn:Eo.
    + apply (nested_denial_validate_flyio_l cs (COrganization id m) f Hin eq_refl).
      exists E_forres. split; [|reflexivity]. rewrite prohibits_org, Eo.
      destruct (N.eqb_spec id 0) as [|_]; [contradiction|].
      destruct (N.eqb_spec id o) as [->|_]; [contradiction|]. reflexivity.
    + intros Hnil. rewrite validate_nil_iff in Hnil.
      destruct (Hnil _ (or_introl eq_refl)) as [Hv _]. simpl in Hv.
      unfold fa_validate in Hv. rewrite Eo in Hv. discriminate.
  - intros -> i m Hin. destruct (org_scope_ids cs now 0%N H i m Hin); assumption.
Qed.

Lemma org_scope_error_l cs now : orgs_of cs = [] -> organization_scope cs now = inr E_unauth.
Proof. intros H. unfold organization_scope. rewrite H. reflexivity. Qed.

(* ------------------------------------------------------------------ *)
(* resource sets, generically (exact-match id types)                   *)

Section RS.
  Context {I : Type} (ieqb : I -> I -> bool) (zero : I) (mtch : I -> I -> bool).
  Hypothesis ieqb_eq : forall a b, ieqb a b = true <-> a = b.
  Hypothesis mtch_eq : forall a b, mtch a b = true <-> a = b.
  Notation RP := (rs_prohibits ieqb zero mtch).
  Notation REL := (rs_relevant ieqb zero mtch).

  Lemma rs_prohibits_nil_iff rs id act :
    RP rs (Some id) act = None <->
    rs_validate ieqb zero rs = None /\ REL rs id <> [] /\
    subset act (rs_perm ieqb zero mtch rs id) = true.
  Proof.
    unfold rs_prohibits. destruct (rs_validate ieqb zero rs) as [e|].
    - split; [discriminate|intros [H _]; discriminate].
    - destruct (isnil (REL rs id)) eqn:E.
      + apply isnil_true in E. split; [discriminate|]. intros [_ [H _]]. contradiction.
      + apply isnil_false in E.
        destruct (subset act (rs_perm ieqb zero mtch rs id)) eqn:S.
        * split; auto.
        * split; [discriminate|]. intros [_ [_ H]]. discriminate.
  Qed.

  (* with an id present the answer is never ErrResourceUnspecified *)
  Lemma rs_prohibits_some_nu rs id act e :
    RP rs (Some id) act = Some e -> eUnspec e = false.
  Proof.
    unfold rs_prohibits, rs_validate.
    destruct (rs_has_zero ieqb zero rs && negb (Nat.eqb (List.length rs) 1)).
    - intros [= <-]. reflexivity.
    - destruct (isnil (REL rs id)).
      + intros [= <-]. reflexivity.
      + destruct (subset act (rs_perm ieqb zero mtch rs id)); [discriminate|].
        intros [= <-]. reflexivity.
  Qed.

  Lemma rel_nonempty rs id :
    REL rs id <> [] <-> exists e, In e rs /\ (ieqb (fst e) zero || mtch (fst e) id = true).
  Proof. unfold rs_relevant. rewrite filter_nonempty. reflexivity. Qed.

  Lemma rel_keys rs id : REL rs id <> [] -> In id (map fst rs) \/ In zero (map fst rs).
  Proof.
    rewrite rel_nonempty. intros [e [He Hk]]. apply orb_true_iff in Hk.
    destruct Hk as [Hk|Hk].
    - right. apply ieqb_eq in Hk. rewrite <- Hk. apply in_map. exact He.
    - left. apply mtch_eq in Hk. rewrite <- Hk. apply in_map. exact He.
  Qed.

  Lemma rel_zero_key rs id : In zero (map fst rs) -> REL rs id <> [].
  Proof.
    intros H. apply in_map_iff in H. destruct H as [e [Hk He]].
    apply rel_nonempty. exists e. split; [exact He|].
    apply orb_true_iff. left. apply ieqb_eq. exact Hk.
  Qed.

  Lemma rel_zero_has_key rs : REL rs zero <> [] -> In zero (map fst rs).
  Proof. intros H. destruct (rel_keys rs zero H); assumption. Qed.

  (* clearing for some action implies clearing for the empty action *)
  Lemma rs_clear_act0 rs id act : RP rs (Some id) act = None -> RP rs (Some id) 0 = None.
  Proof.
    rewrite !rs_prohibits_nil_iff. intros [Hv [Hr _]].
    split; [exact Hv|split; [exact Hr|apply subset_0]].
  Qed.

  (* a set that clears the zero id (for the empty action) clears every id *)
  Lemma rs_clear_zero_all rs id : RP rs (Some zero) 0 = None -> RP rs (Some id) 0 = None.
  Proof.
    rewrite !rs_prohibits_nil_iff. intros [Hv [Hr _]].
    split; [exact Hv|split; [|apply subset_0]].
    apply rel_zero_key. apply rel_zero_has_key. exact Hr.
  Qed.

  Lemma in_dec_b (x : I) (l : list I) : In x l \/ ~ In x l.
  Proof.
    destruct (existsb (ieqb x) l) eqn:E.
    - left. apply existsb_exists in E. destruct E as [y [Hy Hxy]].
      apply ieqb_eq in Hxy. subst y. exact Hy.
    - right. intros H. assert (existsb (ieqb x) l = true); [|congruence].
      apply existsb_exists. exists x. split; [exact H|]. apply ieqb_eq. reflexivity.
  Qed.

  (* The scope computation, on a list of resource sets: when every set clears [id]
     for some action then either [id] is a listed key that clears for the empty
     action, or the zero key is listed and clears for the empty action. *)
  Lemma rs_scope_generic (rss : list (rset I)) id act :
    (exists rs, In rs rss) ->
    (forall rs, In rs rss -> RP rs (Some id) act = None) ->
    (In id (flat_map (map fst) rss) /\ forall rs, In rs rss -> RP rs (Some id) 0 = None) \/
    (In zero (flat_map (map fst) rss) /\ forall rs, In rs rss -> RP rs (Some zero) 0 = None).
  Proof.
    intros [rs0 Hrs0] Hall.
    assert (Hall0 : forall rs, In rs rss -> RP rs (Some id) 0 = None).
    { intros rs Hrs. eapply rs_clear_act0. apply Hall. exact Hrs. }
    destruct (in_dec_b id (flat_map (map fst) rss)) as [Hin|Hnin].
    - left. split; assumption.
    - right.
      assert (Hz : forall rs, In rs rss -> In zero (map fst rs)).
      { intros rs Hrs. pose proof (Hall0 rs Hrs) as P. apply rs_prohibits_nil_iff in P.
        destruct P as [_ [Hr _]]. destruct (rel_keys rs id Hr) as [Hk|Hk]; [|exact Hk].
        exfalso. apply Hnin. apply in_flat_map. exists rs. split; assumption. }
      split.
      + apply in_flat_map. exists rs0. split; [exact Hrs0|apply Hz; exact Hrs0].
      + intros rs Hrs. pose proof (Hall0 rs Hrs) as P. apply rs_prohibits_nil_iff in P.
        destruct P as [Hv _]. apply rs_prohibits_nil_iff.
        split; [exact Hv|split; [|apply subset_0]]. apply rel_zero_key. apply Hz. exact Hrs.
  Qed.
End RS.

Lemma match_n_eq a b : match_n a b = true <-> a = b.
Proof. unfold match_n. apply N.eqb_eq. Qed.

Lemma match_s_eq a b : match_s a b = true <-> a = b.
Proof. unfold match_s. apply String.eqb_eq. Qed.

(* ------------------------------------------------------------------ *)
(* AppScope                                                            *)

Definition app_probe (now : time) (id : N) : flyio_access :=
  with_app (with_org (blank_access 0 now) 999%N) id.

Definition rsets_n (l : list cav) : list (rset N) :=
  flat_map (fun c => match c with CApps rs => [rs] | _ => [] end) l.

Lemma rsets_n_In rs l : In rs (rsets_n l) <-> In (CApps rs) l.
Proof.
  unfold rsets_n. rewrite in_flat_map. split.
  - intros [c [Hc Hrs]]. destruct c; simpl in Hrs; try contradiction.
    destruct Hrs as [<-|[]]. exact Hc.
  - intros H. exists (CApps rs). split; [exact H|left; reflexivity].
Qed.

Lemma app_ids_rsets l : app_ids l = flat_map (map fst) (rsets_n l).
Proof.
  unfold app_ids, rsets_n. induction l as [|c l IH]; [reflexivity|].
  destruct c; simpl; try exact IH. f_equal. exact IH.
Qed.

Lemma apps_of_shape cs c : In c (apps_of cs) -> exists rs, c = CApps rs.
Proof.
  unfold apps_of. intros H. apply filter_In in H. destruct H as [_ H].
  destruct c; try discriminate. eauto.
Qed.

Lemma apps_of_flat cs c : In c (apps_of cs) -> In c (flat_all cs).
Proof. unfold apps_of. intros H. apply filter_In in H. tauto. Qed.

Lemma prohibits_apps rs f :
  prohibits (CApps rs) (AFlyio f) = rs_prohibits_n rs (fa_app f) (fa_action f).
Proof. reflexivity. Qed.

Lemma validate_apps_iff cs f :
  validate (apps_of cs) [AFlyio f] = None <->
  fa_validate f = None /\
  forall rs, In rs (rsets_n (apps_of cs)) -> rs_prohibits_n rs (fa_app f) (fa_action f) = None.
Proof.
  rewrite validate_nil_iff. split.
  - intros H. destruct (H _ (or_introl eq_refl)) as [Hv Hc]. split; [exact Hv|].
    intros rs Hrs. apply rsets_n_In in Hrs. rewrite <- prohibits_apps.
    apply Hc; [exact Hrs|reflexivity].
  - intros [Hv Hc] a [<-|[]]. split; [exact Hv|]. intros c Hin _.
    destruct (apps_of_shape cs c Hin) as [rs ->]. rewrite prohibits_apps.
    apply Hc. apply rsets_n_In. exact Hin.
Qed.

Lemma validate_app_probe cs now id :
  validate (apps_of cs) [AFlyio (app_probe now id)] = None <->
  forall rs, In rs (rsets_n (apps_of cs)) -> rs_prohibits_n rs (Some id) 0 = None.
Proof.
  rewrite validate_apps_iff. split.
  - intros [_ H]. exact H.
  - intros H. split; [reflexivity|exact H].
Qed.

Definition app_kept (cs : list cav) (now : time) : list N :=
  filter (fun id => is_nil (validate (apps_of cs) [AFlyio (app_probe now id)]))
         (sort_dedup_n (app_ids (apps_of cs))).

Lemma app_scope_eq cs now :
  app_scope cs now =
  if isnil (apps_of cs) then None
  else if mem_n 0 (app_kept cs now) then None else Some (app_kept cs now).
Proof. unfold app_scope, app_kept, app_probe. destruct (apps_of cs); reflexivity. Qed.

Lemma app_kept_In cs now id :
  In id (app_kept cs now) <->
  In id (app_ids (apps_of cs)) /\ validate (apps_of cs) [AFlyio (app_probe now id)] = None.
Proof. unfold app_kept. rewrite filter_In, sort_dedup_n_In, is_nil_true. reflexivity. Qed.

Lemma rsets_n_nonempty cs : apps_of cs <> [] -> exists rs, In rs (rsets_n (apps_of cs)).
Proof.
  destruct (apps_of cs) as [|c r] eqn:E; [contradiction|]. intros _.
  destruct (apps_of_shape cs c) as [rs ->]; [rewrite E; left; reflexivity|].
  exists rs. apply rsets_n_In. left; reflexivity.
Qed.

(* every Apps caveat anywhere in the set clears an access the set clears *)
Lemma apps_clear_of_validate cs f id :
  fa_app f = Some id -> validate cs [AFlyio f] = None ->
  forall rs, In rs (rsets_n (apps_of cs)) -> rs_prohibits_n rs (Some id) (fa_action f) = None.
Proof.
  intros Hf Hv rs Hrs. apply rsets_n_In in Hrs.
  destruct (rs_prohibits_n rs (Some id) (fa_action f)) as [e|] eqn:P; [exfalso|reflexivity].
  apply (nested_denial_validate_flyio_l cs (CApps rs) f (apps_of_flat _ _ Hrs) eq_refl);
    [|exact Hv].
  exists e. split.
  - rewrite prohibits_apps, Hf. exact P.
  - exact (rs_prohibits_some_nu N.eqb 0%N match_n rs id (fa_action f) e P).
Qed.

Lemma app_scope_sound_l cs now l : app_scope cs now = Some l ->
  (forall id, In id l ->
     validate (apps_of cs) [AFlyio (with_app (with_org (blank_access 0 now) 999) id)] = None) /\
  (forall id, ~ In id l -> forall f, fa_app f = Some id -> validate cs [AFlyio f] <> None).
Proof.
  rewrite app_scope_eq. intros H.
  destruct (isnil (apps_of cs)) eqn:E; [discriminate|]. apply isnil_false in E.
  destruct (mem_n 0 (app_kept cs now)) eqn:M; [discriminate|]. injection H as <-.
  split.
  - intros id Hin. apply app_kept_In in Hin. exact (proj2 Hin).
  - intros id Hnin f Hf Hv.
    pose proof (apps_clear_of_validate cs f id Hf Hv) as Hall.
    destruct (rs_scope_generic N.eqb 0%N match_n N.eqb_eq match_n_eq
                (rsets_n (apps_of cs)) id (fa_action f) (rsets_n_nonempty cs E) Hall)
      as [[Hk Hc]|[Hk Hc]].
    + apply Hnin. apply app_kept_In. rewrite app_ids_rsets. split; [exact Hk|].
      apply validate_app_probe. exact Hc.
    + assert (Hz : In 0%N (app_kept cs now)).
      { apply app_kept_In. rewrite app_ids_rsets. split; [exact Hk|].
        apply validate_app_probe. exact Hc. }
      apply mem_n_In in Hz. congruence.
Qed.

Lemma app_scope_unrestricted_l cs now : app_scope cs now = None ->
  forall id, validate (apps_of cs) [AFlyio (with_app (with_org (blank_access 0 now) 999) id)] = None.
Proof.
  rewrite app_scope_eq. intros H id. fold (app_probe now id).
  destruct (isnil (apps_of cs)) eqn:E.
  - apply isnil_true in E. rewrite E. reflexivity.
  - destruct (mem_n 0 (app_kept cs now)) eqn:M; [|discriminate].
    apply mem_n_In, app_kept_In in M. destruct M as [_ M].
    rewrite validate_app_probe in M. apply validate_app_probe.
    intros rs Hrs. apply (rs_clear_zero_all N.eqb 0%N match_n N.eqb_eq match_n_eq).
    apply M. exact Hrs.
Qed.

(* ------------------------------------------------------------------ *)
(* ClusterScope                                                        *)

Definition cluster_probe (now : time) (id : string) : flyio_access :=
  with_feature_cluster (with_org (blank_access 0 now) 999%N) feature_lfsc id.

Definition rsets_c (l : list cav) : list (rset string) :=
  flat_map (fun c => match c with CClusters rs => [rs] | _ => [] end) l.

Lemma rsets_c_In rs l : In rs (rsets_c l) <-> In (CClusters rs) l.
Proof.
  unfold rsets_c. rewrite in_flat_map. split.
  - intros [c [Hc Hrs]]. destruct c; simpl in Hrs; try contradiction.
    destruct Hrs as [<-|[]]. exact Hc.
  - intros H. exists (CClusters rs). split; [exact H|left; reflexivity].
Qed.

Lemma cluster_ids_rsets l : cluster_ids l = flat_map (map fst) (rsets_c l).
Proof.
  unfold cluster_ids, rsets_c. induction l as [|c l IH]; [reflexivity|].
  destruct c; simpl; try exact IH. f_equal. exact IH.
Qed.

Lemma clusters_of_shape cs c : In c (clusters_of cs) -> exists rs, c = CClusters rs.
Proof.
  unfold clusters_of. intros H. apply filter_In in H. destruct H as [_ H].
  destruct c; try discriminate. eauto.
Qed.

Lemma clusters_of_flat cs c : In c (clusters_of cs) -> In c (flat_all cs).
Proof. unfold clusters_of. intros H. apply filter_In in H. tauto. Qed.

Lemma prohibits_clusters rs f :
  prohibits (CClusters rs) (AFlyio f) = rs_prohibits_s rs (fa_cluster f) (fa_action f).
Proof. reflexivity. Qed.

Lemma validate_clusters_iff cs f :
  validate (clusters_of cs) [AFlyio f] = None <->
  fa_validate f = None /\
  forall rs, In rs (rsets_c (clusters_of cs)) ->
             rs_prohibits_s rs (fa_cluster f) (fa_action f) = None.
Proof.
  rewrite validate_nil_iff. split.
  - intros H. destruct (H _ (or_introl eq_refl)) as [Hv Hc]. split; [exact Hv|].
    intros rs Hrs. apply rsets_c_In in Hrs. rewrite <- prohibits_clusters.
    apply Hc; [exact Hrs|reflexivity].
  - intros [Hv Hc] a [<-|[]]. split; [exact Hv|]. intros c Hin _.
    destruct (clusters_of_shape cs c Hin) as [rs ->]. rewrite prohibits_clusters.
    apply Hc. apply rsets_c_In. exact Hin.
Qed.

Lemma validate_cluster_probe cs now id :
  validate (clusters_of cs) [AFlyio (cluster_probe now id)] = None <->
  forall rs, In rs (rsets_c (clusters_of cs)) -> rs_prohibits_s rs (Some id) 0 = None.
Proof.
  rewrite validate_clusters_iff. split.
  - intros [_ H]. exact H.
  - intros H. split; [reflexivity|exact H].
Qed.

Definition cluster_kept (cs : list cav) (now : time) : list string :=
  filter (fun id => is_nil (validate (clusters_of cs) [AFlyio (cluster_probe now id)]))
         (sort_dedup_s (cluster_ids (clusters_of cs))).

Lemma cluster_scope_eq cs now :
  cluster_scope cs now =
  if isnil (clusters_of cs) then None
  else if mem_s EmptyString (cluster_kept cs now) then None else Some (cluster_kept cs now).
Proof. unfold cluster_scope, cluster_kept, cluster_probe. destruct (clusters_of cs); reflexivity. Qed.

Lemma cluster_kept_In cs now id :
  In id (cluster_kept cs now) <->
  In id (cluster_ids (clusters_of cs)) /\
  validate (clusters_of cs) [AFlyio (cluster_probe now id)] = None.
Proof. unfold cluster_kept. rewrite filter_In, sort_dedup_s_In, is_nil_true. reflexivity. Qed.

Lemma rsets_c_nonempty cs :
  clusters_of cs <> [] -> exists rs, In rs (rsets_c (clusters_of cs)).
Proof.
  destruct (clusters_of cs) as [|c r] eqn:E; [contradiction|]. intros _.
  destruct (clusters_of_shape cs c) as [rs ->]; [rewrite E; left; reflexivity|].
  exists rs. apply rsets_c_In. left; reflexivity.
Qed.

Lemma clusters_clear_of_validate cs f id :
  fa_cluster f = Some id -> validate cs [AFlyio f] = None ->
  forall rs, In rs (rsets_c (clusters_of cs)) ->
             rs_prohibits_s rs (Some id) (fa_action f) = None.
Proof.
  intros Hf Hv rs Hrs. apply rsets_c_In in Hrs.
  destruct (rs_prohibits_s rs (Some id) (fa_action f)) as [e|] eqn:P; [exfalso|reflexivity].
  apply (nested_denial_validate_flyio_l cs (CClusters rs) f (clusters_of_flat _ _ Hrs) eq_refl);
    [|exact Hv].
  exists e. split.
  - rewrite prohibits_clusters, Hf. exact P.
  - exact (rs_prohibits_some_nu String.eqb EmptyString match_s rs id (fa_action f) e P).
Qed.

Lemma cluster_scope_sound_l cs now l : cluster_scope cs now = Some l ->
  (forall id, In id l ->
     validate (clusters_of cs)
       [AFlyio (with_feature_cluster (with_org (blank_access 0 now) 999) feature_lfsc id)] = None) /\
  (forall id, ~ In id l -> forall f, fa_cluster f = Some id -> validate cs [AFlyio f] <> None).
Proof.
  rewrite cluster_scope_eq. intros H.
  destruct (isnil (clusters_of cs)) eqn:E; [discriminate|]. apply isnil_false in E.
  destruct (mem_s EmptyString (cluster_kept cs now)) eqn:M; [discriminate|]. injection H as <-.
  split.
  - intros id Hin. apply cluster_kept_In in Hin. exact (proj2 Hin).
  - intros id Hnin f Hf Hv.
    pose proof (clusters_clear_of_validate cs f id Hf Hv) as Hall.
    destruct (rs_scope_generic String.eqb EmptyString match_s String.eqb_eq match_s_eq
                (rsets_c (clusters_of cs)) id (fa_action f) (rsets_c_nonempty cs E) Hall)
      as [[Hk Hc]|[Hk Hc]].
    + apply Hnin. apply cluster_kept_In. rewrite cluster_ids_rsets. split; [exact Hk|].
      apply validate_cluster_probe. exact Hc.
    + assert (Hz : In EmptyString (cluster_kept cs now)).
      { apply cluster_kept_In. rewrite cluster_ids_rsets. split; [exact Hk|].
        apply validate_cluster_probe. exact Hc. }
      apply mem_s_In in Hz. congruence.
Qed.

Lemma cluster_scope_unrestricted_l cs now : cluster_scope cs now = None ->
  forall id, validate (clusters_of cs)
       [AFlyio (with_feature_cluster (with_org (blank_access 0 now) 999) feature_lfsc id)] = None.
Proof.
  rewrite cluster_scope_eq. intros H id. fold (cluster_probe now id).
  destruct (isnil (clusters_of cs)) eqn:E.
  - apply isnil_true in E. rewrite E. reflexivity.
  - destruct (mem_s EmptyString (cluster_kept cs now)) eqn:M; [|discriminate].
    apply mem_s_In, cluster_kept_In in M. destruct M as [_ M].
    rewrite validate_cluster_probe in M. apply validate_cluster_probe.
    intros rs Hrs.
    apply (rs_clear_zero_all String.eqb EmptyString match_s String.eqb_eq match_s_eq).
    apply M. exact Hrs.
Qed.

(* ------------------------------------------------------------------ *)
(* AppsAllowing                                                        *)

Lemma apps_allowing_sound_l cs act now org l :
  apps_allowing cs act now = (org, Some l, None) ->
  forall id, In id l ->
    validate cs [AFlyio (with_app (with_org (blank_access act now) org) id)] = None.
Proof.
  unfold apps_allowing. intros H.
  destruct (organization_scope cs now) as [org0|e0]; [|discriminate].
  destruct (app_scope cs now) as [[|s0 scope]|].
  - discriminate.
  - match type of H with context [filter ?p ?x] => destruct (filter p x) as [|r0 ret] eqn:F end;
      [discriminate|].
    injection H as <- <-. intros id Hin. rewrite <- F in Hin.
    apply filter_In in Hin. apply is_nil_true. exact (proj2 Hin).
  - match type of H with context [validate ?x ?y] => destruct (validate x y) end; discriminate.
Qed.

Lemma apps_allowing_any_l cs act now org :
  apps_allowing cs act now = (org, None, None) ->
  organization_scope cs now = inl org /\ app_scope cs now = None /\
  validate cs [AFlyio (with_app (with_org (blank_access act now) org) 0)] = None.
Proof.
  unfold apps_allowing. intros H.
  destruct (organization_scope cs now) as [org0|e0]; [|discriminate].
  destruct (app_scope cs now) as [[|s0 scope]|].
  - discriminate.
  - match type of H with context [filter ?p ?x] => destruct (filter p x) as [|r0 ret] end;
      discriminate.
  - match type of H with context [validate ?x ?y] => destruct (validate x y) eqn:V end;
      [discriminate|].
    injection H as <-. auto.
Qed.

(* the three possible shapes of the result *)
Lemma apps_allowing_error_l cs act now :
  (exists org l, l <> [] /\ apps_allowing cs act now = (org, Some l, None)) \/
  (exists org, apps_allowing cs act now = (org, None, None)) \/
  (exists e, apps_allowing cs act now = (0%N, Some [], Some e)).
Proof.
  unfold apps_allowing.
  destruct (organization_scope cs now) as [org0|e0]; [|right; right; eauto].
  destruct (app_scope cs now) as [[|s0 scope]|].
  - right; right; eauto.
  - match goal with |- context [filter ?p ?x] => destruct (filter p x) as [|r0 ret] end.
    + right; right; eauto.
    + left. exists org0, (r0 :: ret). split; [discriminate|reflexivity].
  - match goal with |- context [validate ?x ?y] => destruct (validate x y) end.
    + right; right; eauto.
    + right; left; eauto.
Qed.

Lemma apps_allowing_error_cases_l cs act now org l e :
  apps_allowing cs act now = (org, l, Some e) -> org = 0%N /\ l = Some [].
Proof.
  intros H.
  destruct (apps_allowing_error_l cs act now) as [[o [l' [_ E]]]|[[o E]|[e' E]]];
    rewrite E in H; inversion H; auto.
Qed.

(* ------------------------------------------------------------------ *)
(* DangerousUserID                                                     *)

Lemma dangerous_user_id_spec_l cs u :
  dangerous_user_id cs = Some u <->
  user_ids_of cs <> [] /\ forall x, In x (user_ids_of cs) -> x = u.
Proof.
  unfold dangerous_user_id. destruct (user_ids_of cs) as [|x r].
  - split; [discriminate|]. intros [H _]. contradiction.
  - destruct (forallb (N.eqb x) r) eqn:F.
    + split.
      * intros [= <-]. split; [discriminate|]. intros y [<-|Hy]; [reflexivity|].
        rewrite forallb_forall in F. symmetry. apply N.eqb_eq. apply F. exact Hy.
      * intros [_ H]. f_equal. apply H. left; reflexivity.
    + split; [discriminate|]. intros [_ H]. exfalso.
      assert (T : forallb (N.eqb x) r = true); [|congruence].
      apply forallb_forall. intros y Hy. apply N.eqb_eq.
      rewrite (H x (or_introl eq_refl)), (H y (or_intror Hy)). reflexivity.
Qed.
