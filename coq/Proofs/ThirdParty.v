(* Task S2, part 1 (C04): a third-party caveat is satisfied only by its own discharge.
   Symbolic model: Model/Sym.v, basics: Proofs/SymBasics.v. *)
From Coq Require Import List Bool NArith Lia.
From Mac Require Import Model.Sym Proofs.SymBasics.
Import ListNotations.
Local Open Scope N_scope.

(* ------------------------------------------------------------------ *)
(** * Helpers *)

Lemma In_concat_of_nth {A} (Ss : list (list A)) i S x :
  nth_error Ss i = Some S -> In x S -> In x (List.concat Ss).
Proof.
  intros Hn Hx. apply in_concat. exists S. split; [|exact Hx].
  eapply nth_error_In. exact Hn.
Qed.

(* the flag used by [try_cands] is [cand_trust] *)
Lemma cand_trust_unfold ta tr d dk :
  cand_trust ta tr d dk =
  ta && match trust_check (keys_for tr (t_loc d)) (n_kid (t_nonce d)) dk with TTrusted => true | _ => false end.
Proof. reflexivity. Qed.

(* ------------------------------------------------------------------ *)
(** * The discharge that satisfies a third-party caveat *)

(* Stronger form: additionally the candidate was not skipped by the trust loop. *)
Lemma tp_needs_own_discharge_strong k t ds tr S i l vk tk :
  verify k t ds tr = Some S -> nth_error (t_cavs t) i = Some (P3P l vk tk) ->
  exists r dk d Sd,
    vk = TSeal (chain k (t_nonce t) (firstn i (t_cavs t))) r dk /\
    In d ds /\ n_kid (t_nonce d) = tk /\
    trust_check (keys_for tr (t_loc d)) tk dk <> TSkip /\
    verify_flat dk d (tok_bids k t) (cand_trust true tr d dk) = Some Sd /\
    t_tail d = fin_if (n_proof (t_nonce d)) (chain dk (t_nonce d) (t_cavs d)) /\
    (forall l' vk' tk', ~ In (P3P l' vk' tk') (t_cavs d)) /\
    (forall x, In x Sd -> In x S).
Proof.
  intros Hv Hn.
  destruct (verify_sound_chain _ _ _ _ _ Hv) as [_ [pl [dret [Hpl [HS Hda]]]]].
  unfold tok_pend in Hpl.
  destruct (pend_of_nth _ _ _ _ _ _ _ Hpl Hn) as [r [dk [Hvk Hin]]].
  rewrite chain_tok_start in Hvk.
  destruct (discharge_all_sound' _ _ _ _ _ Hda) as [Ss [Hdret [_ Hnth]]].
  apply In_nth_error in Hin. destruct Hin as [j Hj].
  destruct (Hnth _ _ _ Hj) as [Sd [d [HSd [Hd [Hkid [Hns Hvf]]]]]].
  exists r, dk, d, Sd.
  destruct (verify_flat_sound _ _ _ _ _ Hvf) as [Htail [_ [_ [Hno3p _]]]].
  repeat (split; [assumption|]).
  intros x Hx. subst S dret. apply in_or_app. right.
  eapply In_concat_of_nth; eassumption.
Qed.

Lemma tp_needs_own_discharge_l k t ds tr S i l vk tk :
  verify k t ds tr = Some S -> nth_error (t_cavs t) i = Some (P3P l vk tk) ->
  exists r dk d Sd,
    vk = TSeal (chain k (t_nonce t) (firstn i (t_cavs t))) r dk /\
    In d ds /\ n_kid (t_nonce d) = tk /\
    verify_flat dk d (tok_bids k t) (cand_trust true tr d dk) = Some Sd /\
    t_tail d = fin_if (n_proof (t_nonce d)) (chain dk (t_nonce d) (t_cavs d)) /\
    (forall l' vk' tk', ~ In (P3P l' vk' tk') (t_cavs d)) /\
    (forall x, In x Sd -> In x S).
Proof.
  intros Hv Hn.
  destruct (tp_needs_own_discharge_strong _ _ _ _ _ _ _ _ _ Hv Hn)
    as [r [dk [d [Sd [H1 [H2 [H3 [_ [H5 [H6 [H7 H8]]]]]]]]]]].
  exists r, dk, d, Sd. auto 10.
Qed.

(* a discharge verifies under at most one secret *)
Lemma discharge_key_unique_l dk dk' d b b' ta ta' S S' :
  verify_flat dk d b ta = Some S -> verify_flat dk' d b' ta' = Some S' -> dk = dk'.
Proof.
  intros H H'.
  destruct (verify_flat_sound _ _ _ _ _ H) as [Ht _].
  destruct (verify_flat_sound _ _ _ _ _ H') as [Ht' _].
  rewrite Ht in Ht'. apply fin_if_eq_proof in Ht'.
  destruct (chain_inj' _ _ _ _ _ _ Ht') as [E _]. exact E.
Qed.

(* a discharge that itself carries a third-party caveat is rejected *)
Lemma nested_discharge_rejected_l dk d b ta l vk tk :
  In (P3P l vk tk) (t_cavs d) -> verify_flat dk d b ta = None.
Proof.
  intros Hin. destruct (verify_flat dk d b ta) as [S|] eqn:E; [|reflexivity].
  destruct (verify_flat_sound _ _ _ _ _ E) as [_ [_ [_ [Hno _]]]].
  destruct (Hno _ _ _ Hin).
Qed.

(* a third-party caveat without any discharge carrying its ticket: rejected *)
Lemma no_candidate_rejected_l k t ds tr l vk tk :
  In (P3P l vk tk) (t_cavs t) -> cands_for ds tk = [] -> verify k t ds tr = None.
Proof.
  intros Hin Hc. destruct (verify k t ds tr) as [S|] eqn:E; [|reflexivity].
  destruct (verify_sound_more _ _ _ _ _ E) as [_ [_ H3]].
  destruct (H3 _ _ _ Hin Hc).
Qed.

(* ------------------------------------------------------------------ *)
(** * try_cands *)

Lemma try_cands_first_l d rest dk bids tr S :
  trust_check (keys_for tr (t_loc d)) (n_kid (t_nonce d)) dk <> TSkip ->
  verify_flat dk d bids (cand_trust true tr d dk) = Some S ->
  try_cands (d :: rest) dk bids true tr = Some S.
Proof.
  intros Hns Hv. rewrite cand_trust_unfold in Hv. cbn [try_cands].
  destruct (trust_check (keys_for tr (t_loc d)) (n_kid (t_nonce d)) dk);
    [destruct (Hns eq_refl)| |]; rewrite Hv; reflexivity.
Qed.

Lemma try_cands_skip_l d rest dk bids ta tr :
  (trust_check (keys_for tr (t_loc d)) (n_kid (t_nonce d)) dk = TSkip \/
   verify_flat dk d bids (cand_trust ta tr d dk) = None) ->
  try_cands (d :: rest) dk bids ta tr = try_cands rest dk bids ta tr.
Proof.
  rewrite cand_trust_unfold. cbn [try_cands].
  intros [Hs|Hv].
  - rewrite Hs. reflexivity.
  - destruct (trust_check (keys_for tr (t_loc d)) (n_kid (t_nonce d)) dk);
      [reflexivity| |]; rewrite Hv; reflexivity.
Qed.

(* either the head is tried successfully, or it is passed over *)
Lemma try_cands_cons_cases d rest dk bids ta tr :
  (exists S, try_cands (d :: rest) dk bids ta tr = Some S /\
             forall rest', try_cands (d :: rest') dk bids ta tr = Some S) \/
  (forall rest', try_cands (d :: rest') dk bids ta tr = try_cands rest' dk bids ta tr).
Proof.
  destruct (trust_check (keys_for tr (t_loc d)) (n_kid (t_nonce d)) dk) eqn:Etc.
  - right. intros rest'. apply try_cands_skip_l. left. exact Etc.
  - destruct (verify_flat dk d bids (cand_trust ta tr d dk)) as [S|] eqn:Ev.
    + left. exists S. rewrite cand_trust_unfold, Etc in Ev.
      split; [|intros rest']; cbn [try_cands]; rewrite Etc, Ev; reflexivity.
    + right. intros rest'. apply try_cands_skip_l. right. exact Ev.
  - destruct (verify_flat dk d bids (cand_trust ta tr d dk)) as [S|] eqn:Ev.
    + left. exists S. rewrite cand_trust_unfold, Etc in Ev.
      split; [|intros rest']; cbn [try_cands]; rewrite Etc, Ev; reflexivity.
    + right. intros rest'. apply try_cands_skip_l. right. exact Ev.
Qed.

Lemma try_cands_app a b dk bids ta tr :
  try_cands (a ++ b) dk bids ta tr =
  match try_cands a dk bids ta tr with Some s => Some s | None => try_cands b dk bids ta tr end.
Proof.
  induction a as [|d a IH]; [reflexivity|]. rewrite <- app_comm_cons.
  destruct (try_cands_cons_cases d a dk bids ta tr) as [[S [_ HS]]|Hskip].
  - rewrite !HS. reflexivity.
  - rewrite !Hskip. exact IH.
Qed.

(* a second copy of a candidate is never decisive *)
Lemma try_cands_dup a b c d dk bids ta tr :
  try_cands (a ++ d :: b ++ d :: c) dk bids ta tr = try_cands (a ++ d :: b ++ c) dk bids ta tr.
Proof.
  rewrite !(try_cands_app a). destruct (try_cands a dk bids ta tr); [reflexivity|].
  destruct (try_cands_cons_cases d (b ++ d :: c) dk bids ta tr) as [[S [_ HS]]|Hskip].
  - rewrite !HS. reflexivity.
  - rewrite !Hskip, !(try_cands_app b). destruct (try_cands b dk bids ta tr); [reflexivity|].
    apply Hskip.
Qed.

(* ------------------------------------------------------------------ *)
(** * verify depends on the presented discharges only through the candidates of its tickets *)

Lemma cands_for_app ds ds' tk : cands_for (ds ++ ds') tk = cands_for ds tk ++ cands_for ds' tk.
Proof. unfold cands_for. apply filter_app. Qed.

Lemma cands_for_cons d ds tk :
  cands_for (d :: ds) tk = if term_eqb (n_kid (t_nonce d)) tk then d :: cands_for ds tk else cands_for ds tk.
Proof. reflexivity. Qed.

Lemma discharge_all_ext pend ds ds' bids tr :
  (forall tk dk, In (tk, dk) pend ->
     try_cands (cands_for ds tk) dk bids true tr = try_cands (cands_for ds' tk) dk bids true tr) ->
  discharge_all pend ds bids tr = discharge_all pend ds' bids tr.
Proof.
  induction pend as [|[tk dk] r IH]; intros H; [reflexivity|].
  cbn [discharge_all]. rewrite (H tk dk) by (left; reflexivity).
  rewrite IH by (intros tk' dk' Hin; apply H; right; exact Hin). reflexivity.
Qed.

Lemma discharge_all_None_of_In pend ds bids tr tk dk :
  In (tk, dk) pend -> try_cands (cands_for ds tk) dk bids true tr = None ->
  discharge_all pend ds bids tr = None.
Proof.
  induction pend as [|[tk' dk'] r IH]; intros Hin Hn; [contradiction|].
  cbn [discharge_all]. destruct Hin as [E|Hin].
  - injection E. intros. subst. rewrite Hn. reflexivity.
  - rewrite (IH Hin Hn). destruct (try_cands (cands_for ds tk') dk' bids true tr); reflexivity.
Qed.

(* the candidate test used by [verify] *)
Definition hascand (ds : list token) (tk : term) : bool :=
  negb (match cands_for ds tk with [] => true | _ => false end).

Lemma hascand_true ds tk : hascand ds tk = true <-> cands_for ds tk <> [].
Proof. unfold hascand. destruct (cands_for ds tk); cbn [negb]; split; congruence. Qed.

Lemma hascand_false ds tk : hascand ds tk = false <-> cands_for ds tk = [].
Proof. unfold hascand. destruct (cands_for ds tk); cbn [negb]; split; congruence. Qed.

Lemma verify_unfold k t ds tr :
  verify k t ds tr =
  if n_proof (t_nonce t) && t_newproof t then None else
  match walk (n_proof (t_nonce t)) true [] (hascand ds) (t_cavs t) (start_walk k t) with
  | None => None
  | Some w =>
    match discharge_all (w_pend w) ds (w_bids w) tr with
    | None => None
    | Some dret =>
      if term_eqb (fin_if (n_proof (t_nonce t)) (w_mac w)) (t_tail t) then Some (w_ret w ++ dret) else None
    end
  end.
Proof. reflexivity. Qed.

(* a successful walk from [start_walk k t] yields the token's pending list and binding ids *)
Lemma walk_start_result p hc k t w :
  walk p true [] hc (t_cavs t) (start_walk k t) = Some w ->
  exists pl, tok_pend k t = Some pl /\ w_pend w = pl /\ w_bids w = tok_bids k t.
Proof.
  intros Hw. destruct (walk_pend _ _ _ _ _ _ _ Hw) as [pl [Hpl Hp]].
  exists pl. split; [exact Hpl|]. split; [exact Hp|].
  rewrite (walk_bids _ _ _ _ _ _ _ Hw). reflexivity.
Qed.

(* if the walk fails only because of the candidate test, some ticket has no candidate *)
Lemma walk_pre_weaken p pb hc hc' cs :
  walk_pre p pb hc cs ->
  walk_pre p pb hc' cs \/ exists l vk tk, In (P3P l vk tk) cs /\ hc' tk = false.
Proof.
  induction cs as [|c cs IH]; intros Hpre; [left; apply walk_pre_nil|].
  rewrite walk_pre_cons in Hpre. destruct Hpre as [Hc Hpre].
  destruct (IH Hpre) as [Hpre'|[l [vk [tk [Hin Hf]]]]].
  - destruct c as [d|l vk tk|b].
    + left. rewrite walk_pre_cons. auto.
    + destruct (hc' tk) eqn:E.
      * left. rewrite walk_pre_cons. auto.
      * right. exists l, vk, tk. split; [left; reflexivity|exact E].
    + left. rewrite walk_pre_cons. auto.
  - right. exists l, vk, tk. split; [right; exact Hin|exact Hf].
Qed.

Lemma walk_hc_mono p t pb hc hc' cs w w' :
  (forall tk, hc tk = true -> hc' tk = true) ->
  walk p t pb hc cs w = Some w' -> walk p t pb hc' cs w = Some w'.
Proof.
  intros Hm Hw. apply walk_iff in Hw. apply walk_iff.
  destruct Hw as [[Hd [Hb H3]] Hres]. split; [|exact Hres].
  split; [exact Hd|]. split; [exact Hb|]. intros l vk tk Hin. apply Hm. eapply H3. exact Hin.
Qed.

(* Main congruence: [ds] may be replaced by [ds'] when (1) every ticket that has a candidate in [ds']
   has one in [ds], and (2) for every pending (ticket, key) pair the candidate loop gives the same
   result.  (No symmetry is needed in (1): a ticket with a candidate in [ds] only has all its
   candidates passed over, by (2).) *)
Lemma verify_congr k t ds ds' tr :
  (forall tk, cands_for ds' tk <> [] -> cands_for ds tk <> []) ->
  (forall pl tk dk, tok_pend k t = Some pl -> In (tk, dk) pl ->
     try_cands (cands_for ds tk) dk (tok_bids k t) true tr =
     try_cands (cands_for ds' tk) dk (tok_bids k t) true tr) ->
  verify k t ds tr = verify k t ds' tr.
Proof.
  intros Hmono Htc. rewrite !verify_unfold.
  destruct (n_proof (t_nonce t) && t_newproof t); [reflexivity|].
  destruct (walk _ _ _ (hascand ds') _ _) as [w'|] eqn:Ew'.
  - (* the walk with ds' succeeds: so does the walk with ds, same result *)
    assert (Ew : walk (n_proof (t_nonce t)) true [] (hascand ds) (t_cavs t) (start_walk k t) = Some w').
    { eapply walk_hc_mono; [|exact Ew']. intros tk. rewrite !hascand_true. apply Hmono. }
    rewrite Ew. destruct (walk_start_result _ _ _ _ _ Ew) as [pl [Hpl [Hp Hb]]].
    rewrite Hp, Hb.
    rewrite (discharge_all_ext pl ds ds') by (intros tk dk Hin; eapply Htc; eassumption).
    reflexivity.
  - destruct (walk _ _ _ (hascand ds) _ _) as [w|] eqn:Ew; [|reflexivity].
    destruct (walk_start_result _ _ _ _ _ Ew) as [pl [Hpl [Hp Hb]]].
    pose proof Ew as Ew2. apply walk_iff in Ew2. destruct Ew2 as [Hpre Hres].
    destruct (walk_pre_weaken _ _ _ (hascand ds') _ Hpre) as [Hpre'|[l [vk [tk [Hin Hf]]]]].
    + assert (Habs : walk (n_proof (t_nonce t)) true [] (hascand ds') (t_cavs t) (start_walk k t) = Some w).
      { apply walk_iff. split; assumption. }
      congruence.
    + apply hascand_false in Hf. apply In_nth_error in Hin. destruct Hin as [i Hi].
      unfold tok_pend in Hpl.
      destruct (pend_of_nth _ _ _ _ _ _ _ Hpl Hi) as [r [dk [_ Hinpl]]].
      rewrite Hp, Hb. rewrite (discharge_all_None_of_In pl ds _ tr tk dk Hinpl); [reflexivity|].
      rewrite (Htc pl tk dk Hpl Hinpl), Hf. reflexivity.
Qed.

(* ------------------------------------------------------------------ *)
(** * Extra and duplicate discharges *)

(* [e] cannot discharge any third-party caveat of [t]: for each pending (ticket, key) pair whose
   ticket is [e]'s key-id, [e] is skipped by the trust loop or fails verification *)
Definition useless (k : term) (t : token) (tr : trusted_map) (e : token) : Prop :=
  forall pl tk dk, tok_pend k t = Some pl -> In (tk, dk) pl -> n_kid (t_nonce e) = tk ->
    trust_check (keys_for tr (t_loc e)) tk dk = TSkip \/
    verify_flat dk e (tok_bids k t) (cand_trust true tr e dk) = None.

Lemma cands_for_mono_insert ds1 ds2 e tk : cands_for (ds1 ++ ds2) tk <> [] -> cands_for (ds1 ++ e :: ds2) tk <> [].
Proof.
  rewrite !cands_for_app, cands_for_cons. intros H Habs. apply H.
  apply app_eq_nil in Habs. destruct Habs as [H1 H2]. rewrite H1.
  destruct (term_eqb _ _); [discriminate H2|exact H2].
Qed.

Lemma extra_discharge_irrelevant_l k t ds1 ds2 tr e :
  useless k t tr e -> verify k t (ds1 ++ e :: ds2) tr = verify k t (ds1 ++ ds2) tr.
Proof.
  intros Hu. apply verify_congr.
  - intros tk. apply cands_for_mono_insert.
  - intros pl tk dk Hpl Hin. rewrite !cands_for_app, cands_for_cons.
    destruct (term_eqb (n_kid (t_nonce e)) tk) eqn:E; [|reflexivity].
    apply term_eqb_spec in E. rewrite !try_cands_app.
    destruct (try_cands (cands_for ds1 tk) _ _ _ _); [reflexivity|].
    apply try_cands_skip_l. rewrite E. apply (Hu pl tk dk Hpl Hin E).
Qed.

(* sufficient conditions for [useless]: foreign, malformed, tampered discharges *)
Lemma useless_foreign k t tr e :
  ~ In (n_kid (t_nonce e)) (tickets (t_cavs t)) -> useless k t tr e.
Proof.
  intros Hnot pl tk dk Hpl Hin Hk. exfalso. apply Hnot.
  unfold tok_pend in Hpl. rewrite <- (pend_of_tickets _ _ _ Hpl), Hk.
  apply (in_map fst) in Hin. exact Hin.
Qed.

Lemma useless_nested k t tr e l vk tk : In (P3P l vk tk) (t_cavs e) -> useless k t tr e.
Proof. intros Hin pl tk' dk _ _ _. right. eapply nested_discharge_rejected_l. exact Hin. Qed.

Lemma useless_bad_tail k t tr e :
  (forall pl tk dk, tok_pend k t = Some pl -> In (tk, dk) pl -> n_kid (t_nonce e) = tk ->
     t_tail e <> fin_if (n_proof (t_nonce e)) (chain dk (t_nonce e) (t_cavs e))) ->
  useless k t tr e.
Proof.
  intros Hbad pl tk dk Hpl Hin Hk. right.
  destruct (verify_flat dk e (tok_bids k t) (cand_trust true tr e dk)) as [Sd|] eqn:E; [|reflexivity].
  destruct (verify_flat_sound _ _ _ _ _ E) as [Ht _].
  destruct (Hbad pl tk dk Hpl Hin Hk Ht).
Qed.

Lemma duplicate_discharge_irrelevant_l k t ds1 ds2 ds3 tr d :
  verify k t (ds1 ++ d :: ds2 ++ d :: ds3) tr = verify k t (ds1 ++ d :: ds2 ++ ds3) tr.
Proof.
  apply verify_congr.
  - intros tk H Habs. apply H. clear H.
    destruct (cands_for (ds1 ++ d :: ds2 ++ ds3) tk) as [|x r] eqn:E; [reflexivity|exfalso].
    assert (Hx : In x (cands_for (ds1 ++ d :: ds2 ++ ds3) tk)) by (rewrite E; left; reflexivity).
    apply In_cands_for in Hx. destruct Hx as [Hx Hk].
    assert (Hx' : In x (cands_for (ds1 ++ d :: ds2 ++ d :: ds3) tk)).
    { apply In_cands_for. split; [|exact Hk].
      rewrite in_app_iff in *. cbn [In] in *. rewrite in_app_iff in *. cbn [In]. tauto. }
    rewrite Habs in Hx'. exact Hx'.
  - intros pl tk dk _ _.
    rewrite !cands_for_app, !cands_for_cons, !cands_for_app, !cands_for_cons.
    destruct (term_eqb (n_kid (t_nonce d)) tk); [|reflexivity].
    apply try_cands_dup.
Qed.

(* ------------------------------------------------------------------ *)
(** * Tickets *)

Lemma ticket_roundtrip_l ka loc r dk cavs proof rnd :
  discharge_ticket ka loc (TSeal ka r (TTicket dk cavs)) proof rnd =
  Some (cavs, mint dk (TSeal ka r (TTicket dk cavs)) loc proof 1 rnd).
Proof. cbn [discharge_ticket]. rewrite term_eqb_refl. reflexivity. Qed.

Lemma ticket_wrong_key_l ka ka' loc r pt proof rnd :
  ka <> ka' -> discharge_ticket ka' loc (TSeal ka r pt) proof rnd = None.
Proof.
  intros Hne. cbn [discharge_ticket]. destruct pt; try reflexivity.
  apply term_eqb_false in Hne. rewrite Hne. reflexivity.
Qed.

Lemma ticket_shape_l ka loc tk proof rnd cs d :
  discharge_ticket ka loc tk proof rnd = Some (cs, d) ->
  exists r dk, tk = TSeal ka r (TTicket dk cs) /\ d = mint dk tk loc proof 1 rnd.
Proof.
  unfold discharge_ticket. destruct tk as [| | | | | | |k r pt|]; try discriminate.
  destruct pt as [| | | | | | | |dk cavs]; try discriminate.
  destruct (term_eqb k ka) eqn:E; [|discriminate]. apply term_eqb_spec in E. subst k.
  intros H. injection H. intros Hd Hc. subst cavs. exists r, dk. split; [reflexivity|].
  symmetry. exact Hd.
Qed.

Lemma seal_fresh_l k r r' pt : r <> r' -> TSeal k r pt <> TSeal k r' pt.
Proof. intros Hne E. injection E. exact Hne. Qed.

(* ------------------------------------------------------------------ *)
Print Assumptions tp_needs_own_discharge_strong.
Print Assumptions tp_needs_own_discharge_l.
Print Assumptions discharge_key_unique_l.
Print Assumptions nested_discharge_rejected_l.
Print Assumptions no_candidate_rejected_l.
Print Assumptions try_cands_first_l.
Print Assumptions try_cands_skip_l.
Print Assumptions verify_congr.
Print Assumptions extra_discharge_irrelevant_l.
Print Assumptions duplicate_discharge_irrelevant_l.
Print Assumptions ticket_roundtrip_l.
Print Assumptions ticket_wrong_key_l.
Print Assumptions ticket_shape_l.
Print Assumptions seal_fresh_l.
