(* C03 - "every caveat must clear every request": clearing distributes over both lists. *)
From Coq Require Import List Bool NArith.
From Mac Require Import Model.Err Model.Caveat Model.Access Model.Prohibits Proofs.ErrFacts.
Import ListNotations.

(* a list of requests is cleared iff each part of it is *)
Lemma validate_accs_app_iff_l cs accs accs' :
  validate cs (accs ++ accs') = None <-> validate cs accs = None /\ validate cs accs' = None.
Proof.
  rewrite !validate_nil_iff. split.
  - intros H. split; intros a Ha; apply H; apply in_or_app; [left|right]; exact Ha.
  - intros [H1 H2] a Ha. apply in_app_or in Ha. destruct Ha as [Ha|Ha]; [now apply H1|now apply H2].
Qed.

(* a set clears a request list iff each part of the set does: no caveat is excused by its position or neighbours *)
Lemma validate_cavs_app_iff_l cs cs' accs :
  validate (cs ++ cs') accs = None <-> validate cs accs = None /\ validate cs' accs = None.
Proof.
  rewrite !validate_nil_iff. split.
  - intros H. split; intros a Ha; destruct (H a Ha) as [Hv Hc]; (split; [exact Hv|]);
      intros c Hin; apply Hc; apply in_or_app; [left|right]; exact Hin.
  - intros [H1 H2] a Ha. destruct (H1 a Ha) as [Hv Hc1]. destruct (H2 a Ha) as [_ Hc2].
    split; [exact Hv|]. intros c Hin. apply in_app_or in Hin. destruct Hin as [Hin|Hin]; [now apply Hc1|now apply Hc2].
Qed.

(* attenuation (appending caveats) never turns a denial into a clearance, for any request list *)
Lemma validate_attenuate_l cs cs' accs :
  validate cs accs <> None -> validate (cs ++ cs') accs <> None.
Proof. intros H H'. apply H. now apply validate_cavs_app_iff_l in H'. Qed.

(* asking for more never turns a denial into a clearance *)
Lemma validate_more_requests_l cs accs accs' :
  validate cs accs <> None -> validate cs (accs ++ accs') <> None.
Proof. intros H H'. apply H. now apply validate_accs_app_iff_l in H'. Qed.
