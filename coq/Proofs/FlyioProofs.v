(* C10: one spec lemma per Fly.io caveat, each an iff against the documented rule. *)
From Coq Require Import List Bool NArith ZArith String Lia.
From Mac Require Import Model.Err Model.Caveat Model.Access Generated.Facts Model.Prohibits Proofs.ErrFacts.
Import ListNotations.

(* ---- Organization *)
Lemma organization_spec_l id mask f :
  prohibits (COrganization id mask) (AFlyio f) = None <->
  exists o, fa_org f = Some o /\ (id = 0%N \/ id = o) /\ subset (fa_action f) mask = true.
Proof.
  simpl. destruct (fa_org f) as [o|].
  - destruct (N.eqb_spec id 0) as [Hz|Hz]; simpl.
    + destruct (subset (fa_action f) mask).
      * split; [|reflexivity]. intros _. exists o. auto.
      * split; [discriminate|]. intros [o' [_ [_ Hs]]]. discriminate.
    + destruct (N.eqb_spec id o) as [Ho|Ho]; simpl.
      * destruct (subset (fa_action f) mask).
        -- split; [|reflexivity]. intros _. exists o. auto.
        -- split; [discriminate|]. intros [o' [_ [_ Hs]]]. discriminate.
      * split; [discriminate|]. intros [o' [Ho' [[Hid|Hid] _]]]; [contradiction|].
        injection Ho' as Ho'. congruence.
  - split; [discriminate|]. intros [o [Ho _]]. discriminate.
Qed.

(* ---- resource-set caveats: each is the generic rule on one field *)
Lemma resource_caveats_l f :
  (forall rs, prohibits (CApps rs) (AFlyio f) = rs_prohibits_n rs (fa_app f) (fa_action f)) /\
  (forall rs, prohibits (CVolumes rs) (AFlyio f) = rs_prohibits_s rs (fa_volume f) (fa_action f)) /\
  (forall rs, prohibits (CMachines rs) (AFlyio f) = rs_prohibits_s rs (fa_machine f) (fa_action f)) /\
  (forall rs, prohibits (CMachineFeatureSet rs) (AFlyio f) =
              rs_prohibits_s rs (fa_machinefeature f) (fa_action f)) /\
  (forall rs, prohibits (CFeatureSet rs) (AFlyio f) = rs_prohibits_s rs (fa_feature f) (fa_action f)) /\
  (forall rs, prohibits (CClusters rs) (AFlyio f) = rs_prohibits_s rs (fa_cluster f) (fa_action f)) /\
  (forall rs, prohibits (CAppFeatureSet rs) (AFlyio f) =
              rs_prohibits_s rs (fa_appfeature f) (fa_action f)) /\
  (forall rs, prohibits (CStorageObjects rs) (AFlyio f) =
              rs_prohibits_p rs (fa_storage f) (fa_action f)).
Proof. repeat split. Qed.

(* the generic rule itself *)
Lemma rs_prohibits_spec {I} (ieqb : I -> I -> bool) zero mtch rs id act :
  rs_prohibits ieqb zero mtch rs id act = None <->
  rs_validate ieqb zero rs = None /\
  exists i, id = Some i /\ rs_relevant ieqb zero mtch rs i <> [] /\
            subset act (rs_perm ieqb zero mtch rs i) = true.
Proof.
  unfold rs_prohibits. destruct (rs_validate ieqb zero rs) as [e|].
  - split; [discriminate|]. intros [H _]. discriminate.
  - destruct id as [i|].
    + destruct (isnil (rs_relevant ieqb zero mtch rs i)) eqn:Hn.
      * apply isnil_true in Hn. split; [discriminate|].
        intros [_ [i' [Hi [Hr _]]]]. injection Hi as <-. contradiction.
      * apply isnil_false in Hn.
        destruct (subset act (rs_perm ieqb zero mtch rs i)) eqn:Hs.
        -- split; [|reflexivity]. intros _. split; [reflexivity|]. exists i. auto.
        -- split; [discriminate|]. intros [_ [i' [Hi [_ Hs']]]]. injection Hi as <-. congruence.
    + split; [discriminate|]. intros [_ [i [Hi _]]]. discriminate.
Qed.

(* ---- Mutations *)
Lemma mutations_spec_l ms f :
  prohibits (CMutations ms) (AFlyio f) = None <->
  exists m, fa_mutation f = Some m /\ In m (opt_list ms).
Proof.
  simpl. destruct (fa_mutation f) as [m|].
  - destruct (mem_s m (opt_list ms)) eqn:Hm.
    + apply mem_s_In in Hm. split; [|reflexivity]. intros _. exists m. auto.
    + split; [discriminate|]. intros [m' [Hm' Hin]]. injection Hm' as <-.
      apply mem_s_In in Hin. congruence.
  - split; [discriminate|]. intros [m [Hm _]]. discriminate.
Qed.

(* ---- Commands *)
Lemma list_eqb_string_eq l1 l2 : list_eqb String.eqb l1 l2 = true <-> l1 = l2.
Proof.
  revert l2. induction l1 as [|x l1 IH]; intros [|y l2]; simpl.
  - tauto.
  - split; discriminate.
  - split; discriminate.
  - rewrite andb_true_iff, String.eqb_eq, IH. split.
    + intros [-> ->]. reflexivity.
    + intros H. injection H as -> ->. auto.
Qed.

Lemma firstn_length_app {A} (l r : list A) : firstn (List.length l) (l ++ r) = l.
Proof. induction l as [|x l IH]; simpl; [reflexivity|now rewrite IH]. Qed.

Lemma prefix_iff_firstn {A} (args cmd : list A) :
  firstn (List.length args) cmd = args <-> exists rest, cmd = args ++ rest.
Proof.
  split.
  - intros H. exists (skipn (List.length args) cmd). rewrite <- H at 1. symmetry. apply firstn_skipn.
  - intros [rest ->]. apply firstn_length_app.
Qed.

Definition command_rule (args : list string) (exact : bool) (cmd : list string) : Prop :=
  if exact then args = cmd else exists rest, cmd = args ++ rest.

Lemma command_allows_spec args exact cmd :
  command_allows (args, exact) cmd = true <-> command_rule (opt_list args) exact cmd.
Proof.
  unfold command_allows, command_rule. cbn [fst snd].
  generalize (opt_list args). clear args. intros args.
  destruct (Nat.ltb_spec (List.length cmd) (List.length args)) as [Hlt|Hge].
  - split; [discriminate|]. destruct exact.
    + intros ->. lia.
    + intros [rest ->]. rewrite app_length in Hlt. lia.
  - destruct exact; cbn [andb].
    + destruct (Nat.eqb_spec (List.length args) (List.length cmd)) as [Heq|Hne]; cbn [negb].
      * rewrite list_eqb_string_eq, Heq, firstn_all. split; congruence.
      * split; [discriminate|]. intros ->. now elim Hne.
    + rewrite list_eqb_string_eq. split.
      * intros H. apply prefix_iff_firstn. congruence.
      * intros H. apply prefix_iff_firstn in H. congruence.
Qed.

Lemma commands_spec_l cmds f :
  prohibits (CCommands cmds) (AFlyio f) = None <->
  exists cmd, fa_command f = Some cmd /\
    exists args exact, In (args, exact) (opt_list cmds) /\
      (if exact then opt_list args = cmd else exists rest, cmd = opt_list args ++ rest).
Proof.
  simpl. destruct (fa_command f) as [cmd|].
  - destruct (existsb (fun ac => command_allows ac cmd) (opt_list cmds)) eqn:Hex.
    + split; [|reflexivity]. intros _. exists cmd. split; [reflexivity|].
      apply existsb_exists in Hex. destruct Hex as [[args exact] [Hin Hal]].
      exists args, exact. split; [assumption|]. now apply command_allows_spec in Hal.
    + split; [discriminate|]. intros [cmd' [Hc [args [exact [Hin Hr]]]]]. injection Hc as <-.
      assert (Ht : existsb (fun ac => command_allows ac cmd) (opt_list cmds) = true).
      { apply existsb_exists. exists (args, exact). split; [assumption|].
        now apply command_allows_spec. }
      congruence.
  - split; [discriminate|]. intros [cmd [Hc _]]. discriminate.
Qed.

(* consequences quoted in the task: empty list allows nothing; an entry with
   no arguments and exact = false allows every command *)
Lemma commands_empty_denies cmds f :
  opt_list cmds = [] -> prohibits (CCommands cmds) (AFlyio f) <> None.
Proof.
  intros He H. apply commands_spec_l in H. destruct H as [cmd [_ [args [exact [Hin _]]]]].
  rewrite He in Hin. contradiction.
Qed.

Lemma commands_wildcard_allows cmds f cmd args :
  fa_command f = Some cmd -> opt_list args = [] -> In (args, false) (opt_list cmds) ->
  prohibits (CCommands cmds) (AFlyio f) = None.
Proof.
  intros Hc Ha Hin. apply commands_spec_l. exists cmd. split; [assumption|].
  exists args, false. split; [assumption|]. exists cmd. now rewrite Ha.
Qed.

(* ---- roles *)
Lemma role_member_ne_admin : role_admin <> role_member.
Proof. discriminate. Qed.

Lemma permitted_role_spec_l f :
  permitted_role f = role_member <->
  (fa_feature f = None \/
   exists ft allowed, fa_feature f = Some ft /\ assoc_s ft member_features = Some allowed /\
                      subset (fa_action f) allowed = true).
Proof.
  unfold permitted_role. destruct (fa_feature f) as [ft|].
  - destruct (assoc_s ft member_features) as [allowed|] eqn:Has.
    + destruct (subset (fa_action f) allowed) eqn:Hs.
      * split; [|reflexivity]. intros _. right. exists ft, allowed. auto.
      * split; [intros H; now apply role_member_ne_admin in H|].
        intros [H|[ft' [al' [Hft [Has' Hs']]]]]; [discriminate|].
        injection Hft as <-. rewrite Has in Has'. injection Has' as <-. congruence.
    + split; [intros H; now apply role_member_ne_admin in H|].
      intros [H|[ft' [al' [Hft [Has' _]]]]]; [discriminate|].
      injection Hft as <-. congruence.
  - split; auto.
Qed.

Lemma permitted_role_cases_l f :
  permitted_role f = role_member \/ permitted_role f = role_admin.
Proof.
  unfold permitted_role. destruct (fa_feature f) as [ft|]; [|now left].
  destruct (assoc_s ft member_features) as [allowed|]; [|now right].
  destruct (subset (fa_action f) allowed); auto.
Qed.

Lemma allowed_roles_spec_l mask f :
  prohibits (CAllowedRoles mask) (AFlyio f) = None <->
  N.land mask (permitted_role f) = permitted_role f.
Proof.
  simpl. destruct (N.eqb_spec (N.land mask (permitted_role f)) (permitted_role f)) as [He|Hn].
  - tauto.
  - split; [discriminate|contradiction].
Qed.

Lemma land_role_member r :
  r = role_member \/ r = role_admin -> (N.land role_member r = r <-> r = role_member).
Proof. intros [->| ->]; split; intros H; try reflexivity; discriminate. Qed.

Lemma is_member_spec_l f :
  prohibits CIsMember (AFlyio f) = None <-> permitted_role f = role_member.
Proof.
  change (prohibits CIsMember (AFlyio f)) with (prohibits (CAllowedRoles role_member) (AFlyio f)).
  rewrite allowed_roles_spec_l. apply land_role_member, permitted_role_cases_l.
Qed.

Lemma member_features_pinned_l :
  member_features =
  [("addon",31);("authentication",1);("billing",1);("builder",31);("checks",31);("deletion",0);
   ("document_signing",0);("domain",31);("litefs-cloud",31);("membership",1);("site",31);
   ("wg",31)]%string%N.
Proof. reflexivity. Qed.

(* ---- source caveats *)
Lemma from_machine_spec_l id f :
  prohibits (CFromMachine id) (AFlyio f) = None <-> fa_srcmachine f = Some id.
Proof.
  simpl. destruct (fa_srcmachine f) as [m|].
  - destruct (String.eqb_spec id m) as [->|Hn].
    + tauto.
    + split; [discriminate|]. intros H. injection H as ->. now elim Hn.
  - split; discriminate.
Qed.

Lemma src_check_spec want have : src_check want have = None <-> have = Some want.
Proof.
  unfold src_check. destruct have as [h|].
  - destruct (String.eqb_spec want h) as [->|Hn].
    + tauto.
    + split; [discriminate|]. intros H. injection H as ->. now elim Hn.
  - split; discriminate.
Qed.

Definition src_step (want : string) (have : option string) : err :=
  if String.eqb want EmptyString then None else src_check want have.

Lemma src_step_spec want have :
  src_step want have = None <-> (want = EmptyString \/ have = Some want).
Proof.
  unfold src_step. destruct (String.eqb_spec want EmptyString) as [->|Hn].
  - tauto.
  - rewrite src_check_spec. split; [auto|]. intros [H|H]; [contradiction|assumption].
Qed.

Lemma flysrc_unfold org app inst f :
  prohibits (CFlySrc org app inst) (AFlyio f) =
  match src_step inst (fa_srcmachine f) with
  | Some e => Some e
  | None => match src_step app (fa_srcapp f) with
            | Some e => Some e
            | None => src_step org (fa_srcorg f)
            end
  end.
Proof. reflexivity. Qed.

Lemma flysrc_spec_l org app inst f :
  prohibits (CFlySrc org app inst) (AFlyio f) = None <->
  (inst = EmptyString \/ fa_srcmachine f = Some inst) /\
  (app = EmptyString \/ fa_srcapp f = Some app) /\
  (org = EmptyString \/ fa_srcorg f = Some org).
Proof.
  rewrite flysrc_unfold, <- !src_step_spec.
  destruct (src_step inst (fa_srcmachine f)) as [e1|].
  - split; [discriminate|]. intros [H _]. discriminate.
  - destruct (src_step app (fa_srcapp f)) as [e2|].
    + split; [discriminate|]. intros [_ [H _]]. discriminate.
    + tauto.
Qed.

(* ---- time *)
Local Open Scope Z_scope.

Definition t_le (t u : time) : Prop :=
  t_sec t < t_sec u \/ (t_sec t = t_sec u /\ t_nsec t <= t_nsec u).

Lemma t_after_false_iff t u : t_after t u = false <-> t_le t u.
Proof.
  unfold t_after, t_le. generalize (t_sec t) (t_sec u) (t_nsec t) (t_nsec u).
  intros a b c d. rewrite orb_false_iff, andb_false_iff, !Z.ltb_ge, Z.eqb_neq. lia.
Qed.

Lemma validity_window_spec_l nb na a :
  prohibits (CValidityWindow nb na) a = None <->
  t_le (unixT nb 0) (a_now a) /\ t_le (a_now a) (unixT na 0).
Proof.
  cbn [prohibits]. unfold t_before. rewrite <- !t_after_false_iff.
  destruct (t_after (a_now a) (unixT na 0)).
  - split; [discriminate|]. intros [_ H]. discriminate.
  - destruct (t_after (unixT nb 0) (a_now a)).
    + split; [discriminate|]. intros [H _]. discriminate.
    + tauto.
Qed.

Lemma unixT_nowrap_l s n :
  -9223372036854775808 <= s + 62135596800 < 9223372036854775808 ->
  t_sec (unixT s n) = s + 62135596800.
Proof.
  intros H. unfold unixT, wrap64, unix_to_internal, two63, two64. cbn [t_sec].
  generalize dependent (s + 62135596800). intros z H.
  rewrite Z.mod_small; lia.
Qed.

Lemma t_nsec_unixT s n : t_nsec (unixT s n) = n.
Proof. reflexivity. Qed.

(* for in-range instants: not_before <= now <= not_after, lexicographically on
   (seconds, nanoseconds), with now given as internal seconds *)
Lemma validity_window_inrange_l nb na a :
  -9223372036854775808 <= nb + 62135596800 < 9223372036854775808 ->
  -9223372036854775808 <= na + 62135596800 < 9223372036854775808 ->
  (prohibits (CValidityWindow nb na) a = None <->
   (nb + 62135596800 < t_sec (a_now a) \/
    (nb + 62135596800 = t_sec (a_now a) /\ 0 <= t_nsec (a_now a))) /\
   (t_sec (a_now a) < na + 62135596800 \/
    (t_sec (a_now a) = na + 62135596800 /\ t_nsec (a_now a) <= 0))).
Proof.
  intros Hnb Hna. rewrite validity_window_spec_l. unfold t_le.
  rewrite !unixT_nowrap_l, !t_nsec_unixT by assumption. tauto.
Qed.

Local Close Scope Z_scope.

(* ---- request well-formedness *)
Definition atmost1 (l : list bool) : bool := Nat.leb (count_true l) 1.
Definition any (l : list bool) : bool := negb (Nat.eqb (count_true l) 0).
Definition is_lfsc (o : option string) : bool :=
  match o with Some ft => String.eqb ft feature_lfsc | None => false end.

Definition fa_wf (f : flyio_access) : bool :=
  isSome (fa_org f)
  && atmost1 [isSome (fa_app f); isSome (fa_feature f); isSome (fa_storage f)]
  && implb (any [isSome (fa_machine f); isSome (fa_volume f); isSome (fa_appfeature f)])
           (isSome (fa_app f))
  && atmost1 [isSome (fa_machine f); isSome (fa_volume f); isSome (fa_appfeature f)]
  && implb (isSome (fa_cluster f)) (is_lfsc (fa_feature f))
  && implb (any [isSome (fa_command f); isSome (fa_machinefeature f)]) (isSome (fa_machine f))
  && atmost1 [isSome (fa_command f); isSome (fa_machinefeature f)].

(* fa_validate as a cascade over booleans only *)
Definition fa_validate_b (org app feature storage machine volume appfeature cluster lfsc
                          command machinefeature : bool) : err :=
  if negb org then Some E_unspec else
  if Nat.ltb 1 (count_true [app; feature; storage]) then Some E_mutex else
  if negb (Nat.eqb (count_true [machine; volume; appfeature]) 0) && negb app then Some E_unspec else
  if Nat.ltb 1 (count_true [machine; volume; appfeature]) then Some E_mutex else
  match (if cluster then if feature then if lfsc then None else Some E_invalid
                         else Some E_unspec else None) with
  | Some e => Some e
  | None =>
    if negb (Nat.eqb (count_true [command; machinefeature]) 0) && negb machine then Some E_unspec else
    if Nat.ltb 1 (count_true [command; machinefeature]) then Some E_mutex else None
  end.

Definition fa_wf_b (org app feature storage machine volume appfeature cluster lfsc
                    command machinefeature : bool) : bool :=
  org && atmost1 [app; feature; storage]
  && implb (any [machine; volume; appfeature]) app
  && atmost1 [machine; volume; appfeature]
  && implb cluster lfsc
  && implb (any [command; machinefeature]) machine
  && atmost1 [command; machinefeature].

Lemma fa_validate_as_b f :
  fa_validate f =
  fa_validate_b (isSome (fa_org f)) (isSome (fa_app f)) (isSome (fa_feature f))
    (isSome (fa_storage f)) (isSome (fa_machine f)) (isSome (fa_volume f))
    (isSome (fa_appfeature f)) (isSome (fa_cluster f)) (is_lfsc (fa_feature f))
    (isSome (fa_command f)) (isSome (fa_machinefeature f)).
Proof.
  unfold fa_validate, fa_validate_b.
  destruct (fa_cluster f) as [cl|], (fa_feature f) as [ft|]; cbn [isSome is_lfsc];
    try destruct (String.eqb ft feature_lfsc); reflexivity.
Qed.

Lemma fa_wf_as_b f :
  fa_wf f =
  fa_wf_b (isSome (fa_org f)) (isSome (fa_app f)) (isSome (fa_feature f))
    (isSome (fa_storage f)) (isSome (fa_machine f)) (isSome (fa_volume f))
    (isSome (fa_appfeature f)) (isSome (fa_cluster f)) (is_lfsc (fa_feature f))
    (isSome (fa_command f)) (isSome (fa_machinefeature f)).
Proof. reflexivity. Qed.

Lemma is_lfsc_isSome o : is_lfsc o = true -> isSome o = true.
Proof. destruct o; [reflexivity|discriminate]. Qed.

(* lfsc = true forces feature = true; under that side condition the two agree *)
Lemma fa_validate_b_spec org app feature storage machine volume appfeature cluster lfsc
      command machinefeature :
  implb lfsc feature = true ->
  is_nil (fa_validate_b org app feature storage machine volume appfeature cluster lfsc
            command machinefeature) =
  fa_wf_b org app feature storage machine volume appfeature cluster lfsc command machinefeature.
Proof.
  destruct org; [|reflexivity].
  destruct app, feature, storage; try reflexivity;
    destruct machine, volume, appfeature; try reflexivity;
    destruct cluster, lfsc; try reflexivity; try discriminate;
    destruct command, machinefeature; reflexivity.
Qed.

Lemma is_nil_true_iff (e : err) : is_nil e = true <-> e = None.
Proof. destruct e; simpl; split; intros; try discriminate; reflexivity. Qed.

Lemma access_validate_spec_l f : fa_validate f = None <-> fa_wf f = true.
Proof.
  rewrite <- is_nil_true_iff, fa_validate_as_b, fa_wf_as_b, fa_validate_b_spec; [tauto|].
  destruct (is_lfsc (fa_feature f)) eqn:Hl; [|reflexivity].
  now rewrite (is_lfsc_isSome _ Hl).
Qed.

Lemma fa_validate_b_classes org app feature storage machine volume appfeature cluster lfsc
      command machinefeature :
  let e := fa_validate_b org app feature storage machine volume appfeature cluster lfsc
             command machinefeature in
  e = None \/ e = Some E_unspec \/ e = Some E_mutex \/ e = Some E_invalid.
Proof.
  unfold fa_validate_b.
  destruct (negb org); [auto|].
  destruct (Nat.ltb 1 (count_true [app; feature; storage])); [auto|].
  destruct (negb (Nat.eqb (count_true [machine; volume; appfeature]) 0) && negb app); [auto|].
  destruct (Nat.ltb 1 (count_true [machine; volume; appfeature])); [auto|].
  destruct cluster; [destruct feature; [destruct lfsc|]|]; auto;
    (destruct (negb (Nat.eqb (count_true [command; machinefeature]) 0) && negb machine); [auto|]);
    (destruct (Nat.ltb 1 (count_true [command; machinefeature])); auto).
Qed.

Lemma fa_validate_classes_l f :
  fa_validate f = None \/ fa_validate f = Some E_unspec \/
  fa_validate f = Some E_mutex \/ fa_validate f = Some E_invalid.
Proof. rewrite fa_validate_as_b. apply fa_validate_b_classes. Qed.

Print Assumptions organization_spec_l.
Print Assumptions resource_caveats_l.
Print Assumptions rs_prohibits_spec.
Print Assumptions mutations_spec_l.
Print Assumptions commands_spec_l.
Print Assumptions commands_empty_denies.
Print Assumptions commands_wildcard_allows.
Print Assumptions permitted_role_spec_l.
Print Assumptions permitted_role_cases_l.
Print Assumptions allowed_roles_spec_l.
Print Assumptions is_member_spec_l.
Print Assumptions member_features_pinned_l.
Print Assumptions from_machine_spec_l.
Print Assumptions flysrc_spec_l.
Print Assumptions validity_window_spec_l.
Print Assumptions unixT_nowrap_l.
Print Assumptions validity_window_inrange_l.
Print Assumptions access_validate_spec_l.
Print Assumptions fa_validate_classes_l.
