(* The "type" field of a JSON caveat survives the round trip for every 64-bit type number (C11, JSON fidelity). *)
From Coq Require Import List Bool NArith String Ascii Decimal DecimalString DecimalN DecimalPos Lia.
From Mac Require Import Model.Caveat Model.Msgpack Model.Codec Generated.Facts.
Import ListNotations.
Local Open Scope N_scope.

Lemma to_uint_nonnil (t : N) : N.to_uint t <> Nil.
Proof.
  destruct t as [|p]; [discriminate|]. cbn [N.to_uint]. apply DecimalPos.Unsigned.to_uint_nonnil.
Qed.

Lemma uint_of_dec_string (t : N) : NilZero.uint_of_string (dec_string t) = Some (N.to_uint t).
Proof. unfold dec_string. apply NilZero.usu, to_uint_nonnil. Qed.

Lemma parse_dec_string (t : N) : t < 2 ^ 64 -> parse_uint64 (dec_string t) = Some t.
Proof.
  intros Ht. unfold parse_uint64. rewrite uint_of_dec_string.
  cbv zeta. rewrite DecimalN.Unsigned.of_to.
  destruct (N.ltb_spec t (2 ^ 64)); [reflexivity|lia].
Qed.

Lemma dec_string_is_decimal (t : N) : is_decimal (dec_string t) = true.
Proof. unfold is_decimal. now rewrite uint_of_dec_string. Qed.

Lemma find_name_dec reg t :
  forallb (fun e : N * string => negb (is_decimal (snd e))) reg = true ->
  find (fun e : N * string => String.eqb (snd e) (dec_string t)) reg = None.
Proof.
  intros H. destruct (find _ reg) as [e|] eqn:E; [|reflexivity].
  apply find_some in E. destruct E as [Hin He].
  rewrite forallb_forall in H. specialize (H e Hin).
  apply String.eqb_eq in He. rewrite He, dec_string_is_decimal in H. discriminate.
Qed.

Lemma type_json_roundtrip_l reg min_user unreg t :
  reg_ok reg = true -> t < 2 ^ 64 ->
  type_from_json reg unreg (type_to_json reg min_user t) = t.
Proof.
  unfold reg_ok. intros Hok Ht. apply andb_true_iff in Hok. destruct Hok as [Hcons Hdec].
  assert (Hnum : type_from_json reg unreg (dec_string t) = t).
  { unfold type_from_json. rewrite (find_name_dec reg t Hdec), (parse_dec_string t Ht). reflexivity. }
  unfold type_to_json.
  destruct (find (fun e => fst e =? t) reg) as [[t' s]|] eqn:E; [|exact Hnum].
  destruct (t <? min_user); [|exact Hnum].
  apply find_some in E. destruct E as [Hin Ht']. cbn [fst] in Ht'. apply N.eqb_eq in Ht'. subst t'.
  rewrite forallb_forall in Hcons. specialize (Hcons (t, s) Hin). cbn [fst snd] in Hcons.
  unfold type_from_json.
  destruct (find (fun e' => String.eqb (snd e') s) reg) as [[t'' s'']|]; [|discriminate].
  now apply N.eqb_eq in Hcons.
Qed.

(* reading accepts exactly the decimal numerals below 2^64 besides the names: an out-of-range or malformed numeral is
   "unregistered", never another type *)
Lemma type_from_json_numeric_l reg unreg s t :
  find (fun e : N * string => String.eqb (snd e) s) reg = None ->
  type_from_json reg unreg s = t -> t <> unreg ->
  exists d, NilZero.uint_of_string s = Some d /\ N.of_uint d = t /\ t < 2 ^ 64.
Proof.
  unfold type_from_json, parse_uint64. intros -> H Hne.
  destruct (NilZero.uint_of_string s) as [d|]; [|now symmetry in H].
  cbv zeta in H. destruct (N.ltb_spec (N.of_uint d) (2 ^ 64)); [|now symmetry in H].
  exists d. subst t. auto.
Qed.

Lemma facts_reg_ok_l : reg_ok all_reg = true.
Proof. vm_compute. reflexivity. Qed.

Lemma type_json_roundtrip_facts_l t :
  t < 2 ^ 64 ->
  type_from_json all_reg f_cav_unregistered (type_to_json all_reg f_cav_min_user_defined t) = t.
Proof. intros Ht. apply type_json_roundtrip_l; [exact facts_reg_ok_l|exact Ht]. Qed.

(* with aliases: a name printed for a registered type is found among the registered names first, a numeral is no alias
   (the generated alias list is checked), so the round trip is unchanged *)
Definition aliases_ok (reg : list (N * string)) (al : list (string * N)) : bool :=
  forallb (fun e => negb (is_decimal (fst e))) al.
Lemma type_json_roundtrip_al_l reg al min_user unreg t :
  reg_ok reg = true -> aliases_ok reg al = true -> t < 2 ^ 64 ->
  type_from_json_al reg al unreg (type_to_json reg min_user t) = t.
Proof.
  intros Hok Hal Ht. pose proof (type_json_roundtrip_l reg min_user unreg t Hok Ht) as H.
  unfold type_from_json_al. unfold type_from_json in H.
  destruct (find (fun e => String.eqb (snd e) (type_to_json reg min_user t)) reg) as [[t' s']|] eqn:E; [exact H|].
  (* not a registered name: then it is the numeral of t, and no alias is a numeral *)
  assert (Hd : type_to_json reg min_user t = dec_string t).
  { unfold type_to_json. destruct (find (fun e => fst e =? t) reg) as [[t1 s1]|] eqn:F; [|reflexivity].
    destruct (t <? min_user) eqn:L; [|reflexivity]. exfalso.
    apply find_some in F. destruct F as [Hin Ht1]. cbn [fst] in Ht1. apply N.eqb_eq in Ht1. subst t1.
    unfold type_to_json in E. 
    assert (F2 : find (fun e => fst e =? t) reg <> None).
    { intro Hn. apply (find_none _ _ Hn) in Hin. cbn [fst] in Hin. rewrite N.eqb_refl in Hin. discriminate. }
    destruct (find (fun e => fst e =? t) reg) as [[t2 s2]|] eqn:F3; [|now contradiction F2].
    rewrite L in E. apply find_some in F3. destruct F3 as [Hin3 _].
    apply (find_none _ _ E) in Hin3. cbn [snd] in Hin3. rewrite String.eqb_refl in Hin3. discriminate. }
  rewrite Hd in *.
  destruct (find (fun e => String.eqb (fst e) (dec_string t)) al) as [[a ta]|] eqn:A; [|exact H].
  exfalso. apply find_some in A. destruct A as [Hin Ha]. cbn [fst] in Ha. apply String.eqb_eq in Ha.
  unfold aliases_ok in Hal. rewrite forallb_forall in Hal. specialize (Hal _ Hin). cbn [fst] in Hal.
  rewrite Ha, dec_string_is_decimal in Hal. discriminate.
Qed.

Lemma aliases_ok_facts_l : aliases_ok all_reg json_aliases = true.
Proof. vm_compute. reflexivity. Qed.

Lemma type_json_roundtrip_al_facts_l t :
  t < 2 ^ 64 ->
  type_from_json_al all_reg json_aliases f_cav_unregistered (type_to_json all_reg f_cav_min_user_defined t) = t.
Proof. intros Ht. apply type_json_roundtrip_al_l; [exact facts_reg_ok_l|exact aliases_ok_facts_l|exact Ht]. Qed.
