(* C19, part 2: the Authorization header grammar parses unambiguously and round-trips. *)
From Coq Require Import List Bool NArith ZArith Lia.
From Mac Require Import Model.Base64 Model.Header Proofs.Base64Proofs.
Import ListNotations.
Local Open Scope N_scope.

(* ================= generic string facts ================= *)

Lemma str_eqb_eq a : forall b, str_eqb a b = true <-> a = b.
Proof.
  induction a as [|x a IH]; intros [|y b]; cbn [str_eqb]; split; intros H;
    try reflexivity; try discriminate.
  - apply andb_true_iff in H. destruct H as [Hx Hr].
    apply N.eqb_eq in Hx. apply IH in Hr. now subst.
  - inversion H; subst. rewrite N.eqb_refl. cbn [andb]. now apply IH.
Qed.

Lemma str_eqb_refl a : str_eqb a a = true.
Proof. now apply str_eqb_eq. Qed.

Lemma cut_app sep a b : ~ In sep a -> cut sep (a ++ sep :: b) = Some (a, b).
Proof.
  induction a as [|c a IH]; intros Hni.
  - cbn [app cut]. now rewrite N.eqb_refl.
  - cbn [app cut]. destruct (c =? sep) eqn:Hc.
    + apply N.eqb_eq in Hc. elim Hni. now left.
    + rewrite IH; [reflexivity|]. intros Hin. apply Hni. now right.
Qed.

Lemma cut_none sep s : ~ In sep s -> cut sep s = None.
Proof.
  induction s as [|c s IH]; intros Hni; [reflexivity|].
  cbn [cut]. destruct (c =? sep) eqn:Hc.
  - apply N.eqb_eq in Hc. elim Hni. now left.
  - rewrite IH; [reflexivity|]. intros Hin. apply Hni. now right.
Qed.

Lemma cut_some sep s a b : cut sep s = Some (a, b) -> s = a ++ sep :: b /\ ~ In sep a.
Proof.
  revert a b. induction s as [|c s IH]; intros a b Hc; [discriminate|].
  cbn [cut] in Hc. destruct (c =? sep) eqn:Hs.
  - apply N.eqb_eq in Hs. inversion Hc; subst. split; [reflexivity|intros []].
  - destruct (cut sep s) as [[a' b']|] eqn:Hr; [|discriminate].
    inversion Hc; subst. destruct (IH a' b eq_refl) as [E Hni]. subst s.
    split; [reflexivity|]. intros [E|Hin]; [|now apply Hni].
    subst. now rewrite N.eqb_refl in Hs.
Qed.

Lemma split_no_sep sep s : ~ In sep s -> split sep s = [s].
Proof.
  induction s as [|c s IH]; intros Hni; [reflexivity|].
  cbn [split]. destruct (c =? sep) eqn:Hc.
  - apply N.eqb_eq in Hc. elim Hni. now left.
  - rewrite IH; [reflexivity|]. intros Hin. apply Hni. now right.
Qed.

Lemma split_app_sep sep x s : ~ In sep x -> split sep (x ++ sep :: s) = x :: split sep s.
Proof.
  induction x as [|c x IH]; intros Hni.
  - cbn [app split]. now rewrite N.eqb_refl.
  - cbn [app split]. destruct (c =? sep) eqn:Hc.
    + apply N.eqb_eq in Hc. elim Hni. now left.
    + rewrite IH; [reflexivity|]. intros Hin. apply Hni. now right.
Qed.

Lemma join_comma_cons2 x y r : join_comma (x :: y :: r) = x ++ c_comma :: join_comma (y :: r).
Proof. reflexivity. Qed.

Lemma split_join_l xs : xs <> [] -> Forall (fun x => ~ In c_comma x) xs ->
  split c_comma (join_comma xs) = xs.
Proof.
  induction xs as [|x [|y r] IH]; intros Hne Hall.
  - now elim Hne.
  - inversion Hall; subst. cbn [join_comma]. now apply split_no_sep.
  - inversion Hall as [|? ? Hx Hr]; subst.
    rewrite join_comma_cons2, split_app_sep by exact Hx.
    f_equal. apply IH; [discriminate|exact Hr].
Qed.

Lemma join_comma_In c xs : In c (join_comma xs) -> c = c_comma \/ exists x, In x xs /\ In c x.
Proof.
  induction xs as [|x [|y r] IH]; intros Hin.
  - destruct Hin.
  - cbn [join_comma] in Hin. right. exists x. split; [now left|exact Hin].
  - rewrite join_comma_cons2 in Hin. apply in_app_or in Hin.
    destruct Hin as [Hin|[E|Hin]].
    + right. exists x. split; [now left|exact Hin].
    + now left.
    + destruct (IH Hin) as [E|[z [Hz Hc]]]; [now left|].
      right. exists z. split; [now right|exact Hc].
Qed.

Lemma join_comma_nonempty x r : x <> [] -> join_comma (x :: r) <> [].
Proof.
  intros Hx. destruct r as [|y r]; [exact Hx|].
  rewrite join_comma_cons2. destruct x; [now elim Hx|discriminate].
Qed.

(* ================= parse_toks characterisation ================= *)

(* verdict of Parse on a single comma-separated entry:
   None = reject the whole header, Some None = skipped fo1 entry, Some (Some raw) = token *)
Definition part_ok (p : str) : option (option bytes) :=
  match cut c_under p with
  | None => None
  | Some (pfx, b64) =>
    if is_mac_label pfx then
      match b64_decode b64 with
      | None => None
      | Some [] => None
      | Some raw => Some (Some raw)
      end
    else if str_eqb pfx l_fo1 then Some None
    else None
  end.

Definition part_toks (p : str) : list bytes :=
  match part_ok p with Some (Some r) => [r] | _ => [] end.

Lemma part_ok_no_under_l p : cut c_under p = None -> part_ok p = None.
Proof. unfold part_ok. now intros ->. Qed.

Lemma part_ok_mac_l p pfx b64 : cut c_under p = Some (pfx, b64) -> is_mac_label pfx = true ->
  part_ok p = match b64_decode b64 with
              | None => None | Some [] => None | Some raw => Some (Some raw) end.
Proof. unfold part_ok. now intros -> ->. Qed.

Lemma part_ok_fo1_l p pfx b64 : cut c_under p = Some (pfx, b64) -> pfx = l_fo1 ->
  part_ok p = Some None.
Proof. unfold part_ok. intros -> ->. reflexivity. Qed.

Lemma part_ok_other_l p pfx b64 : cut c_under p = Some (pfx, b64) ->
  is_mac_label pfx = false -> str_eqb pfx l_fo1 = false -> part_ok p = None.
Proof. unfold part_ok. now intros -> -> ->. Qed.

Lemma is_mac_label_iff pfx : is_mac_label pfx = true <-> pfx = l_fm1r \/ pfx = l_fm1a \/ pfx = l_fm2.
Proof.
  unfold is_mac_label. rewrite !orb_true_iff, !str_eqb_eq. tauto.
Qed.

(* a token entry: label in {fm1r, fm1a, fm2}, base64 decodes to a non-empty string *)
Lemma part_ok_token_iff p r : part_ok p = Some (Some r) <->
  exists pfx b64, cut c_under p = Some (pfx, b64) /\ is_mac_label pfx = true /\
                  b64_decode b64 = Some r /\ r <> [].
Proof.
  unfold part_ok. split.
  - destruct (cut c_under p) as [[pfx b64]|]; [|discriminate].
    destruct (is_mac_label pfx) eqn:Hm.
    + destruct (b64_decode b64) as [[|x raw]|] eqn:Hd; try discriminate.
      intros H; inversion H; subst. exists pfx, b64. repeat split; auto. discriminate.
    + destruct (str_eqb pfx l_fo1); discriminate.
  - intros [pfx [b64 [-> [-> [-> Hr]]]]]. destruct r; [now elim Hr|reflexivity].
Qed.

Lemma part_ok_skip_iff p : part_ok p = Some None <->
  exists b64, cut c_under p = Some (l_fo1, b64).
Proof.
  unfold part_ok. split.
  - destruct (cut c_under p) as [[pfx b64]|]; [|discriminate].
    destruct (is_mac_label pfx) eqn:Hm.
    + destruct (b64_decode b64) as [[|x raw]|]; discriminate.
    + destruct (str_eqb pfx l_fo1) eqn:Hf; [|discriminate].
      apply str_eqb_eq in Hf. subst. intros _. now exists b64.
  - intros [b64 ->]. reflexivity.
Qed.

Lemma parse_toks_cons p r :
  parse_toks (p :: r) =
    match part_ok p with
    | None => None
    | Some None => parse_toks r
    | Some (Some raw) => match parse_toks r with Some l => Some (raw :: l) | None => None end
    end.
Proof.
  cbn [parse_toks]. unfold part_ok.
  destruct (cut c_under p) as [[pfx b64]|]; [|reflexivity].
  destruct (is_mac_label pfx).
  - destruct (b64_decode b64) as [[|x raw]|]; reflexivity.
  - destruct (str_eqb pfx l_fo1); reflexivity.
Qed.

Lemma parse_toks_spec_l parts l :
  parse_toks parts = Some l <->
  (forall p, In p parts -> part_ok p <> None) /\ l = flat_map part_toks parts.
Proof.
  revert l. induction parts as [|p r IH]; intros l.
  - cbn [parse_toks flat_map]. split.
    + intros H; inversion H; subst. split; [intros ? []|reflexivity].
    + intros [_ ->]. reflexivity.
  - rewrite parse_toks_cons. cbn [flat_map]. unfold part_toks at 1.
    destruct (part_ok p) as [[raw|]|] eqn:Hp.
    + destruct (parse_toks r) as [l'|].
      * destruct (IH l') as [IH1 _]. destruct (IH1 eq_refl) as [Hall El']. split.
        -- intros H; inversion H; subst. split; [|reflexivity].
           intros q [E|Hq]; [subst; congruence|now apply Hall].
        -- intros [_ ->]. cbn [app]. now rewrite El'.
      * split; [discriminate|]. intros [Hall _].
        destruct (IH (flat_map part_toks r)) as [_ IH2].
        assert (Hn : None = Some (flat_map part_toks r)); [|discriminate].
        apply IH2. split; [|reflexivity]. intros q Hq. apply Hall. now right.
    + cbn [app]. rewrite IH. split.
      * intros [Hall ->]. split; [|reflexivity].
        intros q [E|Hq]; [subst; congruence|now apply Hall].
      * intros [Hall ->]. split; [|reflexivity]. intros q Hq. apply Hall. now right.
    + split; [discriminate|]. intros [Hall _]. elim (Hall p); [now left|exact Hp].
Qed.

Lemma parse_toks_reject_l parts p : In p parts -> part_ok p = None -> parse_toks parts = None.
Proof.
  intros Hin Hp. destruct (parse_toks parts) as [l|] eqn:Hl; [|reflexivity].
  apply parse_toks_spec_l in Hl. destruct Hl as [Hall _]. elim (Hall p Hin Hp).
Qed.

(* the four error classes *)
Lemma parse_toks_no_under_l parts p : In p parts -> cut c_under p = None -> parse_toks parts = None.
Proof. intros Hin Hc. eapply parse_toks_reject_l; [exact Hin|now apply part_ok_no_under_l]. Qed.

Lemma parse_toks_unknown_label_l parts p pfx b : In p parts -> cut c_under p = Some (pfx, b) ->
  is_mac_label pfx = false -> str_eqb pfx l_fo1 = false -> parse_toks parts = None.
Proof. intros Hin Hc Hm Hf. eapply parse_toks_reject_l; [exact Hin|eapply part_ok_other_l; eauto]. Qed.

Lemma parse_toks_bad_base64_l parts p pfx b : In p parts -> cut c_under p = Some (pfx, b) ->
  is_mac_label pfx = true -> b64_decode b = None -> parse_toks parts = None.
Proof.
  intros Hin Hc Hm Hd. eapply parse_toks_reject_l; [exact Hin|].
  rewrite (part_ok_mac_l p pfx b Hc Hm), Hd. reflexivity.
Qed.

Lemma parse_toks_empty_token_l parts p pfx b : In p parts -> cut c_under p = Some (pfx, b) ->
  is_mac_label pfx = true -> b64_decode b = Some [] -> parse_toks parts = None.
Proof.
  intros Hin Hc Hm Hd. eapply parse_toks_reject_l; [exact Hin|].
  rewrite (part_ok_mac_l p pfx b Hc Hm), Hd. reflexivity.
Qed.

Definition hdr_parts (hdr : str) : list str := split c_comma (fst (strip hdr)).

Lemma parse_unfold hdr :
  parse hdr = match parse_toks (hdr_parts hdr) with Some [] => None | r => r end.
Proof. reflexivity. Qed.

Lemma parse_total_deterministic hdr r1 r2 : parse hdr = r1 -> parse hdr = r2 -> r1 = r2.
Proof. congruence. Qed.

(* Parse's answer is determined by the per-entry verdicts: error iff some entry is rejected
   or no entry is a token *)
Lemma parse_error_classes_l hdr :
  parse hdr = None <->
  (exists p, In p (hdr_parts hdr) /\ part_ok p = None) \/
  (forall p, In p (hdr_parts hdr) -> part_ok p = Some None).
Proof.
  rewrite parse_unfold. generalize (hdr_parts hdr) as parts. intros parts. split.
  - destruct (parse_toks parts) as [[|t l]|] eqn:Hp; try discriminate; intros _.
    + right. apply parse_toks_spec_l in Hp. destruct Hp as [Hall Hl].
      intros p Hin. specialize (Hall p Hin).
      destruct (part_ok p) as [[raw|]|] eqn:Hq; [|reflexivity|now elim Hall].
      exfalso. apply in_split in Hin. destruct Hin as [l1 [l2 E]]. subst parts.
      rewrite flat_map_app in Hl. cbn [flat_map] in Hl. unfold part_toks at 2 in Hl.
      rewrite Hq in Hl. symmetry in Hl. apply app_eq_nil in Hl. destruct Hl as [_ Hl]. discriminate.
    + left. induction parts as [|p r IH]; [discriminate|].
      rewrite parse_toks_cons in Hp. destruct (part_ok p) as [[raw|]|] eqn:Hq.
      * destruct (parse_toks r); [discriminate|].
        destruct (IH eq_refl) as [q [Hin Hn]]. exists q. split; [now right|exact Hn].
      * destruct (IH Hp) as [q [Hin Hn]]. exists q. split; [now right|exact Hn].
      * exists p. split; [now left|exact Hq].
  - intros [[p [Hin Hn]]|Hall].
    + now rewrite (parse_toks_reject_l parts p Hin Hn).
    + assert (Hs : parse_toks parts = Some []); [|now rewrite Hs].
      apply parse_toks_spec_l. split.
      * intros p Hin. rewrite (Hall p Hin). discriminate.
      * induction parts as [|p r IH]; [reflexivity|].
        cbn [flat_map]. unfold part_toks at 1. rewrite (Hall p); [|now left].
        cbn [app]. apply IH. intros q Hq. apply Hall. now right.
Qed.

Lemma parse_no_tokens_l hdr :
  (forall p, In p (hdr_parts hdr) -> part_ok p = Some None) -> parse hdr = None.
Proof. intros Hall. apply parse_error_classes_l. now right. Qed.

(* accepted headers: exactly the tokens of the accepted entries, in order *)
Lemma parse_some_l hdr toks :
  parse hdr = Some toks <->
  (forall p, In p (hdr_parts hdr) -> part_ok p <> None) /\
  toks = flat_map part_toks (hdr_parts hdr) /\ toks <> [].
Proof.
  rewrite parse_unfold. generalize (hdr_parts hdr) as parts. intros parts. split.
  - destruct (parse_toks parts) as [[|t l]|] eqn:Hp; try discriminate.
    intros H; inversion H; subst. apply parse_toks_spec_l in Hp. destruct Hp as [Hall Hl].
    repeat split; auto. discriminate.
  - intros [Hall [Hl Hne]].
    assert (Hp : parse_toks parts = Some toks) by (apply parse_toks_spec_l; now split).
    rewrite Hp. destruct toks; [now elim Hne|reflexivity].
Qed.

(* ================= round trip without decorations ================= *)

Definition tok_ok (t : bytes) : Prop := t <> [] /\ wfb t.
Definition mac_label (l : str) : Prop := l = l_fm1r \/ l = l_fm1a \/ l = l_fm2.
Definition entry (lt : str * bytes) : str := fst lt ++ c_under :: b64_encode (snd lt).
Definition encode_labelled (lts : list (str * bytes)) : str := join_comma (map entry lts).

(* characters of an entry: letters/digits of the label, '_', base64 alphabet, '=' *)
Definition entry_charb (c : N) : bool :=
  negb (is_space c) && negb (c =? c_comma).

Lemma b64_char_entry v : v < 64 -> entry_charb (b64_char v) = true.
Proof.
  intros Hv. destruct (b64_char_alphabet_l v Hv) as [_ [_ [Hc [_ [Hs Hr]]]]].
  cbv zeta in Hc, Hs, Hr. unfold entry_charb, is_space, c_comma.
  apply andb_true_iff. split; apply negb_true_iff.
  - apply orb_false_iff. split; [|now apply N.eqb_neq].
    apply andb_false_iff.
    destruct (9 <=? b64_char v) eqn:H9; [right|now left].
    apply N.leb_gt. apply N.leb_le in H9. lia.
  - now apply N.eqb_neq.
Qed.

Lemma entry_chars lt c : mac_label (fst lt) -> wfb (snd lt) -> In c (entry lt) -> entry_charb c = true.
Proof.
  intros Hl Hw Hin. unfold entry in Hin. apply in_app_or in Hin.
  destruct Hin as [Hin|[E|Hin]].
  - assert (Hf : forallb entry_charb (fst lt) = true).
    { destruct Hl as [-> | [-> | ->]]; reflexivity. }
    rewrite forallb_forall in Hf. now apply Hf.
  - subst c. reflexivity.
  - destruct (b64_encode_chars_l _ _ Hw Hin) as [->|[v [Hv ->]]]; [reflexivity|].
    now apply b64_char_entry.
Qed.

Lemma entry_charb_comma c : entry_charb c = true -> c <> c_comma.
Proof.
  unfold entry_charb. intros H. apply andb_true_iff in H. destruct H as [_ H].
  apply negb_true_iff in H. now apply N.eqb_neq.
Qed.

Lemma entry_charb_space c : entry_charb c = true -> is_space c = false.
Proof.
  unfold entry_charb. intros H. apply andb_true_iff in H. destruct H as [H _].
  now apply negb_true_iff in H.
Qed.

Lemma mac_label_no_under l : mac_label l -> ~ In c_under l.
Proof.
  intros [-> | [-> | ->]] Hin; cbn in Hin;
    repeat (destruct Hin as [Hin|Hin]; [discriminate|]); exact Hin.
Qed.

Lemma mac_label_is l : mac_label l -> is_mac_label l = true.
Proof. intros H. now apply is_mac_label_iff. Qed.

Lemma part_ok_entry lt : mac_label (fst lt) -> tok_ok (snd lt) ->
  part_ok (entry lt) = Some (Some (snd lt)).
Proof.
  intros Hl [Hne Hw]. apply part_ok_token_iff.
  exists (fst lt), (b64_encode (snd lt)). repeat split.
  - unfold entry. apply cut_app. now apply mac_label_no_under.
  - now apply mac_label_is.
  - now apply b64_dec_enc_l.
  - exact Hne.
Qed.

Lemma parse_toks_entries lts :
  Forall (fun lt => mac_label (fst lt) /\ tok_ok (snd lt)) lts ->
  parse_toks (map entry lts) = Some (map snd lts).
Proof.
  induction 1 as [|lt lts [Hl Ht] _ IH]; [reflexivity|].
  cbn [map]. rewrite parse_toks_cons, part_ok_entry, IH by assumption. reflexivity.
Qed.

Lemma split_encode_labelled lts : lts <> [] ->
  Forall (fun lt => mac_label (fst lt) /\ tok_ok (snd lt)) lts ->
  split c_comma (encode_labelled lts) = map entry lts.
Proof.
  intros Hne Hall. unfold encode_labelled. apply split_join_l.
  - destruct lts; [now elim Hne|discriminate].
  - apply Forall_forall. intros x Hx. apply in_map_iff in Hx. destruct Hx as [lt [<- Hlt]].
    rewrite Forall_forall in Hall. destruct (Hall lt Hlt) as [Hl [_ Hw]].
    intros Hin. apply (entry_chars lt _ Hl Hw) in Hin. now apply entry_charb_comma in Hin.
Qed.

(* any of the three macaroon labels per token *)
Lemma parse_encode_labelled_l lts : lts <> [] ->
  Forall (fun lt => mac_label (fst lt) /\ tok_ok (snd lt)) lts ->
  parse_toks (split c_comma (encode_labelled lts)) = Some (map snd lts).
Proof.
  intros Hne Hall. rewrite split_encode_labelled by assumption. now apply parse_toks_entries.
Qed.

Lemma labelled_combine labels toks : List.length labels = List.length toks ->
  Forall mac_label labels -> Forall tok_ok toks ->
  Forall (fun lt => mac_label (fst lt) /\ tok_ok (snd lt)) (combine labels toks) /\
  map snd (combine labels toks) = toks.
Proof.
  revert toks. induction labels as [|l labels IH]; intros [|t toks] Hlen Hl Ht; try discriminate.
  - split; [constructor|reflexivity].
  - inversion Hl; subst. inversion Ht; subst. injection Hlen as Hlen.
    destruct (IH toks Hlen) as [IH1 IH2]; try assumption.
    cbn [combine map snd]. split; [constructor; [split|]; assumption|now rewrite IH2].
Qed.

Lemma parse_encode_labels_l labels toks : toks <> [] ->
  List.length labels = List.length toks -> Forall mac_label labels -> Forall tok_ok toks ->
  parse_toks (split c_comma (encode_labelled (combine labels toks))) = Some toks.
Proof.
  intros Hne Hlen Hl Ht. destruct (labelled_combine labels toks Hlen Hl Ht) as [Hall Hs].
  rewrite parse_encode_labelled_l; [now rewrite Hs|destruct labels, toks; try discriminate; now elim Hne|exact Hall].
Qed.

Lemma encode_tokens_labelled toks :
  encode_tokens toks = encode_labelled (map (fun t => (l_fm2, t)) toks).
Proof. unfold encode_tokens, encode_labelled. now rewrite map_map. Qed.

Lemma fm2_labelled toks : Forall tok_ok toks ->
  Forall (fun lt => mac_label (fst lt) /\ tok_ok (snd lt)) (map (fun t => (l_fm2, t)) toks).
Proof.
  induction 1 as [|t toks Ht _ IH]; [constructor|].
  cbn [map]. constructor; [|exact IH]. split; [right; right; reflexivity|exact Ht].
Qed.

Lemma parse_encode_tokens_l toks : toks <> [] -> Forall tok_ok toks ->
  parse_toks (split c_comma (encode_tokens toks)) = Some toks.
Proof.
  intros Hne Hall. rewrite encode_tokens_labelled, parse_encode_labelled_l.
  - rewrite map_map. cbn [snd]. now rewrite map_id.
  - destruct toks; [now elim Hne|discriminate].
  - now apply fm2_labelled.
Qed.

Lemma encode_labelled_chars lts c :
  Forall (fun lt => mac_label (fst lt) /\ tok_ok (snd lt)) lts ->
  In c (encode_labelled lts) -> is_space c = false.
Proof.
  intros Hall Hin. apply join_comma_In in Hin. destruct Hin as [->|[x [Hx Hc]]]; [reflexivity|].
  apply in_map_iff in Hx. destruct Hx as [lt [<- Hlt]].
  rewrite Forall_forall in Hall. destruct (Hall lt Hlt) as [Hl [_ Hw]].
  apply entry_charb_space. eapply entry_chars; eassumption.
Qed.

Lemma encode_labelled_nonempty lts : lts <> [] -> encode_labelled lts <> [].
Proof.
  destruct lts as [|lt lts]; intros Hne; [now elim Hne|].
  unfold encode_labelled. cbn [map]. apply join_comma_nonempty.
  unfold entry. destruct (fst lt); discriminate.
Qed.

Lemma encode_tokens_no_space toks : Forall tok_ok toks ->
  Forall (fun c => is_space c = false) (encode_tokens toks).
Proof.
  intros Hall. apply Forall_forall. intros c Hc. rewrite encode_tokens_labelled in Hc.
  eapply encode_labelled_chars; [apply fm2_labelled; exact Hall|exact Hc].
Qed.

Lemma encode_tokens_nonempty toks : toks <> [] -> encode_tokens toks <> [].
Proof.
  intros Hne. rewrite encode_tokens_labelled. apply encode_labelled_nonempty.
  destruct toks; [now elim Hne|discriminate].
Qed.

(* ================= trimming ================= *)

Definition spaces (ws : str) : Prop := Forall (fun c => is_space c = true) ws.
Definition nospace (s : str) : Prop := Forall (fun c => is_space c = false) s.

(* non-empty, first and last characters are not spaces *)
Definition tight (m : str) : Prop :=
  (exists a x, m = a :: x /\ is_space a = false) /\ (exists x z, m = x ++ [z] /\ is_space z = false).

Lemma trim_left_spaces ws s : spaces ws -> trim_left (ws ++ s) = trim_left s.
Proof.
  induction 1 as [|c ws Hc _ IH]; [reflexivity|]. cbn [app trim_left]. now rewrite Hc.
Qed.

Lemma trim_left_nonspace a s : is_space a = false -> trim_left (a :: s) = a :: s.
Proof. intros Ha. cbn [trim_left]. now rewrite Ha. Qed.

Lemma spaces_rev ws : spaces ws -> spaces (rev ws).
Proof. unfold spaces. apply Forall_rev. Qed.

Lemma trim_right_spaces s ws : spaces ws -> trim_right (s ++ ws) = trim_right s.
Proof.
  intros Hw. unfold trim_right. rewrite rev_app_distr, trim_left_spaces; [reflexivity|].
  now apply spaces_rev.
Qed.

Lemma trim_right_nonspace s z : is_space z = false -> trim_right (s ++ [z]) = s ++ [z].
Proof.
  intros Hz. unfold trim_right. rewrite rev_app_distr. cbn [rev app].
  rewrite trim_left_nonspace by exact Hz.
  cbn [rev]. now rewrite rev_involutive.
Qed.

Lemma trim_space_tight ws1 m ws2 : spaces ws1 -> spaces ws2 -> tight m ->
  trim_space (ws1 ++ m ++ ws2) = m.
Proof.
  intros H1 H2 [[a [x [Ea Ha]]] [y [z [Ez Hz]]]]. unfold trim_space.
  rewrite trim_left_spaces by exact H1.
  rewrite Ea at 1. cbn [app]. rewrite trim_left_nonspace by exact Ha.
  change (a :: x ++ ws2) with ((a :: x) ++ ws2). rewrite <- Ea.
  rewrite trim_right_spaces by exact H2.
  rewrite Ez. now apply trim_right_nonspace.
Qed.

Lemma trim_space_tight_id m : tight m -> trim_space m = m.
Proof.
  intros Hm. pose proof (trim_space_tight [] m [] (Forall_nil _) (Forall_nil _) Hm) as H.
  cbn [app] in H. now rewrite app_nil_r in H.
Qed.

Lemma nospace_tight s : s <> [] -> nospace s -> tight s.
Proof.
  intros Hne Hs. split.
  - destruct s as [|a x]; [now elim Hne|]. inversion Hs; subst. now exists a, x.
  - destruct (exists_last Hne) as [x [z E]]. subst s.
    apply Forall_app in Hs. destruct Hs as [_ Hz]. inversion Hz; subst. now exists x, z.
Qed.

Lemma nospace_not_in s : nospace s -> ~ In c_space s.
Proof.
  intros Hs Hin. unfold nospace in Hs. rewrite Forall_forall in Hs.
  specialize (Hs _ Hin). discriminate.
Qed.

(* strip_scheme looks at its argument only through trim_space *)
Lemma strip_scheme_trim_eq fuel x y : trim_space x = trim_space y ->
  strip_scheme fuel x = strip_scheme fuel y.
Proof. intros E. destruct fuel; cbn [strip_scheme]; rewrite E; reflexivity. Qed.

Lemma strip_scheme_S f hdr :
  strip_scheme (S f) hdr =
    match cut c_space (trim_space hdr) with
    | None => (trim_space hdr, false)
    | Some (pfx, rest) =>
      if eq_fold (trim_space pfx) s_bearer || eq_fold (trim_space pfx) s_flyv1
      then (fst (strip_scheme f rest), true)
      else (trim_space hdr, false)
    end.
Proof. reflexivity. Qed.

(* ================= scheme words ================= *)

Lemma lower_space c : is_space c = true -> lower c = c.
Proof.
  unfold is_space, lower. intros Hs.
  destruct ((65 <=? c) && (c <=? 90)) eqn:Hu; [|reflexivity].
  apply andb_true_iff in Hu. destruct Hu as [Hu _]. apply N.leb_le in Hu.
  apply orb_true_iff in Hs. destruct Hs as [Hs|Hs].
  - apply andb_true_iff in Hs. destruct Hs as [_ Hs]. apply N.leb_le in Hs. lia.
  - apply N.eqb_eq in Hs. lia.
Qed.

Lemma eq_fold_nospace sch w : nospace w -> eq_fold sch w = true -> map lower w = w -> nospace sch.
Proof.
  intros Hw He Hlw. unfold eq_fold in He. apply str_eqb_eq in He. rewrite Hlw in He.
  apply Forall_forall. intros c Hc.
  destruct (is_space c) eqn:Hs; [|reflexivity].
  assert (Hin : In (lower c) w) by (rewrite <- He; now apply in_map).
  rewrite lower_space in Hin by exact Hs.
  unfold nospace in Hw. rewrite Forall_forall in Hw. rewrite (Hw c Hin) in Hs. discriminate.
Qed.

Lemma eq_fold_nonempty sch w : w <> [] -> eq_fold sch w = true -> sch <> [].
Proof.
  intros Hw He ->. unfold eq_fold in He. cbn [map] in He.
  destruct w; [now elim Hw|discriminate].
Qed.

Definition is_scheme (sch : str) : Prop := eq_fold sch s_bearer = true \/ eq_fold sch s_flyv1 = true.

Lemma scheme_nospace sch : is_scheme sch -> nospace sch /\ sch <> [].
Proof.
  intros [H|H].
  - split; [eapply eq_fold_nospace; [|exact H|reflexivity]|eapply eq_fold_nonempty; [|exact H]; discriminate].
    repeat constructor.
  - split; [eapply eq_fold_nospace; [|exact H|reflexivity]|eapply eq_fold_nonempty; [|exact H]; discriminate].
    repeat constructor.
Qed.

(* ================= decorations ================= *)

Inductive decorated (body : str) : str -> Prop :=
| dec_body ws1 ws2 : spaces ws1 -> spaces ws2 -> decorated body (ws1 ++ body ++ ws2)
| dec_scheme ws1 sch h ws2 : spaces ws1 -> spaces ws2 -> is_scheme sch ->
    decorated body h -> decorated body (ws1 ++ sch ++ c_space :: h ++ ws2).

(* the core of a decorated header: surrounding spaces removed; enough fuel = its length *)
Lemma decorated_core body h : body <> [] -> nospace body -> decorated body h ->
  exists ws1 m ws2, h = ws1 ++ m ++ ws2 /\ spaces ws1 /\ spaces ws2 /\ tight m /\
    forall fuel, (List.length m <= fuel)%nat -> fst (strip_scheme fuel m) = body.
Proof.
  intros Hne Hns Hd. induction Hd as [ws1 ws2 H1 H2|ws1 sch h ws2 H1 H2 Hsch Hd IH].
  - exists ws1, body, ws2. assert (Ht : tight body) by now apply nospace_tight.
    split; [reflexivity|]. split; [exact H1|]. split; [exact H2|]. split; [exact Ht|].
    intros fuel _.
    destruct fuel; cbn [strip_scheme]; rewrite trim_space_tight_id by exact Ht; [reflexivity|].
    rewrite cut_none; [reflexivity|now apply nospace_not_in].
  - destruct IH as [w1 [m [w2 [Eh [Hw1 [Hw2 [Hm Hfuel]]]]]]].
    destruct (scheme_nospace sch Hsch) as [Hsn Hsne].
    exists ws1, (sch ++ c_space :: w1 ++ m), (w2 ++ ws2).
    assert (Ht : tight (sch ++ c_space :: w1 ++ m)).
    { split.
      - destruct sch as [|a x]; [now elim Hsne|]. inversion Hsn; subst.
        exists a, (x ++ c_space :: w1 ++ m). split; [reflexivity|assumption].
      - destruct Hm as [_ [y [z [Ez Hz]]]]. exists (sch ++ c_space :: w1 ++ y), z.
        split; [|exact Hz]. rewrite Ez. rewrite <- !app_assoc. cbn [app].
        now rewrite <- !app_assoc. }
    split; [|split; [|split; [|split]]].
    + rewrite Eh. rewrite <- !app_assoc. cbn [app]. now rewrite <- !app_assoc.
    + exact H1.
    + apply Forall_app. now split.
    + exact Ht.
    + intros fuel Hlen. destruct fuel as [|f].
      { rewrite app_length in Hlen. cbn [List.length] in Hlen. lia. }
      rewrite strip_scheme_S, trim_space_tight_id by exact Ht.
      rewrite cut_app by now apply nospace_not_in.
      assert (Hts : trim_space sch = sch).
      { apply trim_space_tight_id. now apply nospace_tight. }
      rewrite Hts.
      assert (Hb : eq_fold sch s_bearer || eq_fold sch s_flyv1 = true).
      { apply orb_true_iff. exact Hsch. }
      rewrite Hb. cbn [fst].
      rewrite (strip_scheme_trim_eq f (w1 ++ m) m).
      * apply Hfuel. rewrite !app_length in Hlen. cbn [List.length] in Hlen.
        rewrite app_length in Hlen. lia.
      * rewrite <- (app_nil_r (w1 ++ m)), <- app_assoc.
        rewrite trim_space_tight by (try assumption; constructor).
        now rewrite trim_space_tight_id.
Qed.

Lemma strip_decorated_l body h : decorated body h -> body <> [] ->
  Forall (fun c => is_space c = false) body -> fst (strip h) = body.
Proof.
  intros Hd Hne Hns.
  destruct (decorated_core body h Hne Hns Hd) as [ws1 [m [ws2 [Eh [H1 [H2 [Hm Hfuel]]]]]]].
  unfold strip. rewrite (strip_scheme_trim_eq _ h m).
  - apply Hfuel. subst h. rewrite !app_length. lia.
  - subst h. rewrite trim_space_tight by assumption. now rewrite trim_space_tight_id.
Qed.

Lemma parse_format_roundtrip_l toks h : toks <> [] -> Forall tok_ok toks ->
  decorated (encode_tokens toks) h -> parse h = Some toks.
Proof.
  intros Hne Hall Hd. rewrite parse_unfold. unfold hdr_parts.
  rewrite (strip_decorated_l (encode_tokens toks) h Hd).
  - rewrite parse_encode_tokens_l by assumption. destruct toks; [now elim Hne|reflexivity].
  - now apply encode_tokens_nonempty.
  - now apply encode_tokens_no_space.
Qed.

Lemma to_header_decorated toks : decorated (encode_tokens toks) (to_header toks).
Proof.
  unfold to_header.
  pose proof (dec_scheme (encode_tokens toks) [] s_FlyV1 (encode_tokens toks) []) as H.
  cbn [app] in H. rewrite app_nil_r in H. apply H.
  - constructor.
  - constructor.
  - right. reflexivity.
  - pose proof (dec_body (encode_tokens toks) [] []) as Hb. cbn [app] in Hb.
    rewrite app_nil_r in Hb. apply Hb; constructor.
Qed.

Lemma parse_to_header_l toks : toks <> [] -> Forall tok_ok toks ->
  parse (to_header toks) = Some toks.
Proof.
  intros Hne Hall. apply parse_format_roundtrip_l; try assumption. apply to_header_decorated.
Qed.

(* ================= FindPermissionAndDischargeTokens ================= *)

Lemma find_perm_dis_spec_l {T} (decode : bytes -> option T) (loc_eqb : T -> bool) toks :
  find_perm_dis decode loc_eqb toks =
    (filter (fun t => match decode t with Some m => loc_eqb m | None => false end) toks,
     filter (fun t => match decode t with Some m => negb (loc_eqb m) | None => false end) toks).
Proof.
  induction toks as [|t r IH]; [reflexivity|].
  cbn [find_perm_dis filter]. rewrite IH.
  destruct (decode t) as [m|]; [|reflexivity].
  destruct (loc_eqb m); reflexivity.
Qed.

Lemma perm_and_dis_spec_l {T} (decode : bytes -> option T) (loc_eqb : T -> bool) toks p ds :
  perm_and_dis decode loc_eqb toks = Some (p, ds) ->
  filter (fun t => match decode t with Some m => loc_eqb m | None => false end) toks = [p] /\
  ds = filter (fun t => match decode t with Some m => negb (loc_eqb m) | None => false end) toks /\
  In p toks /\ (exists m, decode p = Some m /\ loc_eqb m = true).
Proof.
  unfold perm_and_dis. rewrite find_perm_dis_spec_l.
  set (fp := fun t => match decode t with Some m => loc_eqb m | None => false end).
  destruct (filter fp toks) as [|q [|q' r]] eqn:E; try discriminate.
  intros H. injection H as -> <-.
  split; [reflexivity|]. split; [reflexivity|].
  assert (Hin : In p (filter fp toks)) by (rewrite E; now left).
  apply filter_In in Hin. destruct Hin as [Hin Hp]. split; [exact Hin|].
  unfold fp in Hp. destruct (decode p) as [m|]; [|discriminate]. now exists m.
Qed.

(* a header without exactly one token of the wanted location yields no permission token -- in particular a lone token of
   another location, or one that does not decode *)
Lemma perm_and_dis_none_l {T} (decode : bytes -> option T) (loc_eqb : T -> bool) toks :
  List.length (filter (fun t => match decode t with Some m => loc_eqb m | None => false end) toks) <> 1%nat ->
  perm_and_dis decode loc_eqb toks = None.
Proof.
  unfold perm_and_dis. rewrite find_perm_dis_spec_l.
  destruct (filter _ toks) as [|q [|q' r]]; cbn [List.length]; intros H; try reflexivity. now contradiction H.
Qed.

(* ================= bundle tokeniser vs Parse ================= *)

Lemma trim_left_decomp s : exists ws, s = ws ++ trim_left s /\ spaces ws /\
  (trim_left s = [] \/ exists a x, trim_left s = a :: x /\ is_space a = false).
Proof.
  induction s as [|c s IH].
  - exists []. split; [reflexivity|]. split; [constructor|now left].
  - cbn [trim_left]. destruct (is_space c) eqn:Hc.
    + destruct IH as [ws [E [Hw Ht]]]. exists (c :: ws). split; [cbn [app]; now rewrite <- E|].
      split; [now constructor|exact Ht].
    + exists []. split; [reflexivity|]. split; [constructor|]. right. now exists c, s.
Qed.

Lemma trim_right_decomp s : exists ws, s = trim_right s ++ ws /\ spaces ws /\
  (trim_right s = [] \/ exists x z, trim_right s = x ++ [z] /\ is_space z = false).
Proof.
  unfold trim_right. destruct (trim_left_decomp (rev s)) as [ws [E [Hw Ht]]].
  exists (rev ws). split; [|split].
  - rewrite <- rev_app_distr, <- E. now rewrite rev_involutive.
  - now apply spaces_rev.
  - destruct Ht as [->|[a [x [-> Ha]]]]; [now left|]. right. exists (rev x), a. now split.
Qed.

Lemma trim_right_tail pre b : (exists x z, pre = x ++ [z] /\ is_space z = false) ->
  trim_right (pre ++ b) = pre ++ trim_right b.
Proof.
  intros [x [z [Ep Hz]]].
  destruct (trim_right_decomp b) as [ws [Eb [Hw Ht]]].
  rewrite Eb at 1. rewrite app_assoc, trim_right_spaces by exact Hw.
  destruct Ht as [->|[y [u [-> Hu]]]].
  - rewrite app_nil_r, Ep. now apply trim_right_nonspace.
  - rewrite app_assoc. now apply trim_right_nonspace.
Qed.

(* an entry "label_b64" whose label starts with a non-space: only the tail of b64 is trimmed *)
Lemma trim_space_entry a x b : is_space a = false ->
  trim_space ((a :: x) ++ c_under :: b) = (a :: x) ++ c_under :: trim_right b.
Proof.
  intros Ha. unfold trim_space. cbn [app]. rewrite trim_left_nonspace by exact Ha.
  replace (a :: x ++ c_under :: b) with ((a :: x ++ [c_under]) ++ b)
    by (cbn [app]; now rewrite <- app_assoc).
  rewrite trim_right_tail.
  - cbn [app]. now rewrite <- app_assoc.
  - exists (a :: x), c_under. split; [reflexivity|reflexivity].
Qed.

Lemma is_space_cases c : is_space c = true -> In c [9; 10; 11; 12; 13; 32].
Proof.
  unfold is_space. intros Hs. apply orb_true_iff in Hs. destruct Hs as [Hs|Hs].
  - apply andb_true_iff in Hs. destruct Hs as [Hlo Hhi].
    apply N.leb_le in Hlo. apply N.leb_le in Hhi. cbn [In]. lia.
  - apply N.eqb_eq in Hs. cbn [In]. lia.
Qed.

Lemma space_inputc_nl c : is_space c = true -> b64_inputc c -> is_nl c = true.
Proof.
  intros Hs Hi. apply is_space_cases in Hs. cbn [In] in Hs.
  destruct Hs as [E|[E|[E|[E|[E|[E|[]]]]]]]; subst c; try reflexivity;
    destruct Hi as [Hi|[Hi|Hi]]; try discriminate; now elim Hi.
Qed.

(* trimming the base64 text does not change a successful decode *)
Lemma b64_decode_trim_right b r : b64_decode b = Some r -> b64_decode (trim_right b) = Some r.
Proof.
  intros Hd. destruct (trim_right_decomp b) as [ws [Eb [Hw _]]].
  assert (Hc : Forall b64_inputc b) by (eapply b64_dec_chars; exact Hd).
  rewrite Eb in Hc. apply Forall_app in Hc. destruct Hc as [_ Hc].
  assert (Hn : Forall (fun c => is_nl c = true) ws).
  { unfold spaces in Hw. rewrite Forall_forall in *. intros c Hin.
    apply space_inputc_nl; [now apply Hw|now apply Hc]. }
  rewrite Eb in Hd. now rewrite b64_decode_app_nl in Hd.
Qed.

Lemma parse_part_unfold p :
  parse_part p =
    match cut c_under (trim_space p) with
    | None => PNonMacaroon (trim_space p)
    | Some (pfx, b64) =>
      if is_mac_label pfx then
        match b64_decode b64 with
        | None => PBadBase64 (trim_space p)
        | Some raw => PRaw (trim_space p) raw
        end
      else PNonMacaroon (trim_space p)
    end.
Proof. reflexivity. Qed.

Lemma parse_part_token_l p r : part_ok p = Some (Some r) -> parse_part p = PRaw (trim_space p) r.
Proof.
  intros Hp. apply part_ok_token_iff in Hp.
  destruct Hp as [pfx [b64 [Hc [Hm [Hd _]]]]].
  apply cut_some in Hc. destruct Hc as [Ep _].
  assert (Hl : mac_label pfx) by now apply is_mac_label_iff.
  assert (Hpf : exists a x, pfx = a :: x /\ is_space a = false).
  { destruct Hl as [-> | [-> | ->]]; eexists; eexists; split; reflexivity. }
  destruct Hpf as [a [x [Epf Ha]]].
  rewrite parse_part_unfold, Ep, Epf, trim_space_entry by exact Ha. rewrite <- Epf.
  rewrite cut_app by now apply mac_label_no_under.
  rewrite Hm, (b64_decode_trim_right b64 r Hd). reflexivity.
Qed.

Lemma parse_part_skip_l p : part_ok p = Some None -> parse_part p = PNonMacaroon (trim_space p).
Proof.
  intros Hp. apply part_ok_skip_iff in Hp. destruct Hp as [b64 Hc].
  apply cut_some in Hc. destruct Hc as [Ep Hni].
  rewrite parse_part_unfold, Ep. unfold l_fo1 at 1 3.
  rewrite trim_space_entry by reflexivity.
  rewrite cut_app by exact Hni. reflexivity.
Qed.

Definition ptok_keep (p : ptok) : bool := match p with PNonMacaroon _ => false | _ => true end.
Definition ptok_raw (p : ptok) : list bytes := match p with PRaw _ raw => [raw] | _ => [] end.

Lemma parse_toks_bundle parts l : parse_toks parts = Some l ->
  l = flat_map ptok_raw (filter ptok_keep (map parse_part parts)).
Proof.
  revert l. induction parts as [|p r IH]; intros l Hl.
  - inversion Hl. reflexivity.
  - rewrite parse_toks_cons in Hl. cbn [map filter].
    destruct (part_ok p) as [[raw|]|] eqn:Hp; [| |discriminate].
    + rewrite (parse_part_token_l p raw Hp). cbn [ptok_keep flat_map ptok_raw app].
      destruct (parse_toks r) as [l'|]; [|discriminate].
      inversion Hl; subst. f_equal. now apply IH.
    + rewrite (parse_part_skip_l p Hp). cbn [ptok_keep]. now apply IH.
Qed.

(* On headers that Parse accepts, the decoded payloads of the macaroon-labelled entries produced
   by the bundle tokeniser are exactly Parse's tokens, in order.  True as stated: although
   parseToks trims each entry and Parse does not, an accepted entry has a label starting with 'f'
   and its base64 text can only end in CR/LF (which the decoder ignores), every other ASCII space
   makes Parse reject. *)
Lemma bundle_tokeniser_agrees_l hdr toks : parse hdr = Some toks ->
  toks = flat_map (fun p => match p with PRaw _ raw => [raw] | _ => [] end)
           (filter (fun p => match p with PNonMacaroon _ => false | _ => true end) (bundle_parts hdr)).
Proof.
  intros Hp. rewrite parse_unfold in Hp. unfold bundle_parts. fold (hdr_parts hdr).
  apply (parse_toks_bundle (hdr_parts hdr) toks).
  destruct (parse_toks (hdr_parts hdr)) as [[|t l]|]; try discriminate. exact Hp.
Qed.

(* no PBadBase64 entry can occur on an accepted header, so the filter keeps only PRaw entries *)
Lemma bundle_no_bad_base64_l hdr toks s : parse hdr = Some toks -> ~ In (PBadBase64 s) (bundle_parts hdr).
Proof.
  intros Hp Hin. apply parse_some_l in Hp. destruct Hp as [Hall _].
  unfold bundle_parts in Hin. fold (hdr_parts hdr) in Hin.
  apply in_map_iff in Hin. destruct Hin as [p [Hpp Hin]].
  specialize (Hall p Hin). destruct (part_ok p) as [[raw|]|] eqn:Hq; [| |now elim Hall].
  - rewrite (parse_part_token_l p raw Hq) in Hpp. discriminate.
  - rewrite (parse_part_skip_l p Hq) in Hpp. discriminate.
Qed.
