(* C16: the third-party discharge service releases a discharge only after approval, once.
   Proofs about Model/TPServer.v.  No axioms. *)
From Coq Require Import List Bool NArith Arith Lia.
From Mac Require Import Model.TPServer.
Import ListNotations.

(* ------------------------------------------------------------------ *)
(* Specification-side definitions                                      *)

(* [targets a f]: action [a] addresses flow [f] through the matching kind of secret. *)
Definition targets (a : action) (f : N) : Prop :=
  match a with
  | APoll (SPoll g) => g = f
  | AUserVisit (SUser g) _ => g = f
  | AApprovePoll (SPoll g) _ => g = f
  | AAbortPoll (SPoll g) _ => g = f
  | AApproveUser (SUser g) _ => g = f
  | AAbortUser (SUser g) _ => g = f
  | _ => False
  end.

(* what a decision stores: an approval with caveats or an abort with a message *)
Inductive dec_kind :=
| KApprove (cavs : list N)
| KAbort (msg : N).

(* the flow a decision action addresses (through the matching secret) and what it decides *)
Definition decision_on (a : action) : option (N * dec_kind) :=
  match a with
  | AUserVisit (SUser f) (DApprove cavs) => Some (f, KApprove cavs)
  | AUserVisit (SUser f) (DAbort msg) => Some (f, KAbort msg)
  | AApprovePoll (SPoll f) cavs => Some (f, KApprove cavs)
  | AAbortPoll (SPoll f) msg => Some (f, KAbort msg)
  | AApproveUser (SUser f) cavs => Some (f, KApprove cavs)
  | AAbortUser (SUser f) msg => Some (f, KAbort msg)
  | _ => None
  end.

(* the body stored by a decision on a flow whose ticket is [tk] *)
Definition body_of (tk : N) (k : dec_kind) : body :=
  match k with
  | KApprove cavs => BDischarge tk cavs
  | KAbort msg => BError msg
  end.

(* [decides_with tk a f b]: [a] is an approval/abort of flow [f] which, the ticket of [f]
   being [tk], stores body [b].  (The task's [decides a f b] leaves "ticket of f" implicit;
   it is made an explicit parameter here, and [decides] below quantifies it away.) *)
Definition decides_with (tk : N) (a : action) (f : N) (b : body) : Prop :=
  exists k, decision_on a = Some (f, k) /\ b = body_of tk k.

Definition decides (a : action) (f : N) (b : body) : Prop :=
  exists tk, decides_with tk a f b.

(* [a] is a decision (approval or abort, accepted or not) addressed to flow [f] *)
Definition is_decision_on (a : action) (f : N) : Prop :=
  exists k, decision_on a = Some (f, k).

(* the observation of an accepted decision *)
Definition accepted (o : obs) : Prop := o = OCall true \/ o = OVisited true true.

(* action [a] with observation [o] created flow [f] from ticket [tk] *)
Definition creation (a : action) (o : obs) (f tk : N) : Prop :=
  (a = AInit (TValid tk) MPoll /\ o = OPollURL f) \/
  (a = AInit (TValid tk) MUser /\ o = OUserURL f).

(* position [c] of the trace [l] / observations [os] created flow [f] from ticket [tk] *)
Definition created_at (l : list action) (os : list obs) (c : nat) (f tk : N) : Prop :=
  exists a o, nth_error l c = Some a /\ nth_error os c = Some o /\ creation a o f tk.

(* position [m] is an accepted decision on [f] storing [b] (ticket of [f] = [tk]) *)
Definition decided_at (l : list action) (os : list obs) (m : nat) (f tk : N) (b : body) : Prop :=
  exists a o, nth_error l m = Some a /\ nth_error os m = Some o /\
              decides_with tk a f b /\ accepted o.

(* the poll secret an [APoll] addresses *)
Definition poll_target (a : action) : option N :=
  match a with APoll (SPoll g) => Some g | _ => None end.

(* the effect of one action on the [f]-th flow, as a function of that flow alone *)
Definition flow_step (f : N) (fl : flow) (a : action) : flow :=
  if fl_alive fl then
    match decision_on a with
    | Some (g, k) =>
        if N.eqb g f
        then mkFlow (fl_ticket fl) (Some (200%N, body_of (fl_ticket fl) k)) true
        else fl
    | None =>
        match poll_target a with
        | Some g =>
            if N.eqb g f
            then match fl_resp fl with
                 | None => fl
                 | Some _ => mkFlow (fl_ticket fl) (fl_resp fl) false
                 end
            else fl
        | None => fl
        end
    end
  else fl.

(* observation of a decision action that found / did not find its flow *)
Definition acc_obs (a : action) : obs :=
  match a with AUserVisit _ _ => OVisited true true | _ => OCall true end.
Definition rej_obs (a : action) : obs :=
  match a with AUserVisit _ _ => ONotFound false | _ => OCall false end.

(* store invariant: stored responses have status 200 and discharges carry the flow's ticket *)
Definition resp_ok (st : store) : Prop :=
  forall f fl status b, nth_error st f = Some fl -> fl_resp fl = Some (status, b) ->
    status = 200%N /\ match b with BDischarge tk _ => tk = fl_ticket fl | BError _ => True end.

(* ------------------------------------------------------------------ *)
(* decides_with is exactly the enumeration of the task statement       *)

Lemma decides_with_cases tk a f b :
  decides_with tk a f b <->
  (exists cavs, (a = AUserVisit (SUser f) (DApprove cavs) \/ a = AApprovePoll (SPoll f) cavs \/
                 a = AApproveUser (SUser f) cavs) /\ b = BDischarge tk cavs) \/
  (exists msg, (a = AUserVisit (SUser f) (DAbort msg) \/ a = AAbortPoll (SPoll f) msg \/
                a = AAbortUser (SUser f) msg) /\ b = BError msg).
Proof.
  unfold decides_with. split.
  - intros [k [Hd Hb]]. subst b.
    destruct a as [t m|s|s d|s cavs|s msg|s cavs|s msg]; try discriminate Hd;
      destruct s as [g|g|]; try discriminate Hd; try destruct d; try discriminate Hd;
      simpl in Hd; inversion Hd; subst; simpl; eauto 8.
  - intros [[cavs [Ha Hb]]|[msg [Ha Hb]]]; subst b.
    + exists (KApprove cavs). destruct Ha as [Ha|[Ha|Ha]]; subst a; auto.
    + exists (KAbort msg). destruct Ha as [Ha|[Ha|Ha]]; subst a; auto.
Qed.

Lemma decides_with_decides tk a f b : decides_with tk a f b -> decides a f b.
Proof. intros H. exists tk. exact H. Qed.

Lemma decides_with_is_decision tk a f b : decides_with tk a f b -> is_decision_on a f.
Proof. intros [k [H _]]. exists k. exact H. Qed.

Lemma decision_targets a f k : decision_on a = Some (f, k) -> targets a f.
Proof.
  destruct a as [t m|s|s d|s cavs|s msg|s cavs|s msg]; try discriminate;
    destruct s as [g|g|]; try discriminate; try destruct d; try discriminate;
    simpl; intros H; inversion H; reflexivity.
Qed.

Lemma poll_target_some a g : poll_target a = Some g -> a = APoll (SPoll g).
Proof.
  destruct a as [t m|s|s d|s cavs|s msg|s cavs|s msg]; try discriminate.
  destruct s; try discriminate. simpl. intros H. inversion H. reflexivity.
Qed.

(* ------------------------------------------------------------------ *)
(* set_nth / put / get                                                 *)

Lemma length_set_nth n st fl : List.length (set_nth n st fl) = List.length st.
Proof.
  revert st. induction n as [|n IH]; intros [|x r]; simpl; auto.
Qed.

Lemma length_put st f fl : List.length (put st f fl) = List.length st.
Proof. apply length_set_nth. Qed.

Lemma nth_set_nth_same n st fl :
  n < List.length st -> nth_error (set_nth n st fl) n = Some fl.
Proof.
  revert st. induction n as [|n IH]; intros [|x r] Hlt; simpl in *; try lia; auto.
  apply IH. lia.
Qed.

Lemma nth_set_nth_other n m st fl :
  n <> m -> nth_error (set_nth n st fl) m = nth_error st m.
Proof.
  revert m st. induction n as [|n IH]; intros [|m] [|x r] Hne; simpl; auto; try lia.
Qed.

Lemma nth_some_lt {A} (l : list A) n x : nth_error l n = Some x -> n < List.length l.
Proof. intros H. apply nth_error_Some. congruence. Qed.

Lemma nth_put_same st f fl0 fl :
  nth_error st (N.to_nat f) = Some fl0 -> nth_error (put st f fl) (N.to_nat f) = Some fl.
Proof. intros H. apply nth_set_nth_same. eapply nth_some_lt; eauto. Qed.

Lemma nth_put_other st g f fl :
  g <> f -> nth_error (put st g fl) (N.to_nat f) = nth_error st (N.to_nat f).
Proof.
  intros Hne. apply nth_set_nth_other. intros Heq. apply Hne. apply N2Nat.inj. exact Heq.
Qed.

Lemma get_some st f fl :
  get st f = Some fl -> nth_error st (N.to_nat f) = Some fl /\ fl_alive fl = true.
Proof.
  unfold get. destruct (nth_error st (N.to_nat f)) as [x|]; try discriminate.
  destruct (fl_alive x) eqn:Ha; try discriminate. intros H. inversion H. subst. auto.
Qed.

Lemma get_of_nth st f fl :
  nth_error st (N.to_nat f) = Some fl -> get st f = if fl_alive fl then Some fl else None.
Proof. unfold get. intros H. rewrite H. reflexivity. Qed.

Lemma get_none_nth st f : nth_error st (N.to_nat f) = None -> get st f = None.
Proof. unfold get. intros H. rewrite H. reflexivity. Qed.

(* ------------------------------------------------------------------ *)
(* normal forms of step                                                *)

Lemma step_decision st a f k :
  decision_on a = Some (f, k) ->
  step st a = match get st f with
              | Some fl => (set_resp st f fl (200%N, body_of (fl_ticket fl) k), acc_obs a)
              | None => (st, rej_obs a)
              end.
Proof.
  destruct a as [t m|s|s d|s cavs|s msg|s cavs|s msg]; try discriminate;
    destruct s as [g|g|]; try discriminate; try destruct d; try discriminate;
    simpl; intros H; inversion H; subst; destruct (get st f); reflexivity.
Qed.

Lemma step_poll st g :
  step st (APoll (SPoll g)) =
  match get st g with
  | None => (st, ONotFound false)
  | Some fl =>
      match fl_resp fl with
      | None => (st, ONotReady)
      | Some (status, b) =>
          (put st g (mkFlow (fl_ticket fl) (fl_resp fl) false), OBody status b false)
      end
  end.
Proof. simpl. destruct (get st g); reflexivity. Qed.

Lemma step_other st a :
  decision_on a = None -> poll_target a = None ->
  fst (step st a) = st \/
  exists i, creation a (snd (step st a)) (N.of_nat (List.length st)) i /\
            fst (step st a) = st ++ [mkFlow i None true].
Proof.
  unfold creation.
  destruct a as [t m|s|s d|s cavs|s msg|s cavs|s msg]; intros Hd Hp.
  - destruct t; try (left; reflexivity). destruct m; try (left; reflexivity).
    + right. exists i. simpl. auto.
    + right. exists i. simpl. auto.
  - destruct s; try discriminate Hp; left; reflexivity.
  - destruct s as [g|g|]; try (left; reflexivity).
    destruct d; try discriminate Hd. left. simpl. destruct (get st g); reflexivity.
  - destruct s; try discriminate Hd; left; reflexivity.
  - destruct s; try discriminate Hd; left; reflexivity.
  - destruct s; try discriminate Hd; left; reflexivity.
  - destruct s; try discriminate Hd; left; reflexivity.
Qed.

(* ------------------------------------------------------------------ *)
(* shape of the store                                                  *)

Lemma step_store_shape_strong st a :
  List.length (fst (step st a)) = List.length st \/
  exists i, creation a (snd (step st a)) (N.of_nat (List.length st)) i /\
            fst (step st a) = st ++ [mkFlow i None true].
Proof.
  destruct (decision_on a) as [[g k]|] eqn:Hd.
  - left. rewrite (step_decision st a g k Hd). destruct (get st g); simpl; auto.
    unfold set_resp. apply length_put.
  - destruct (poll_target a) as [g|] eqn:Hp.
    + left. apply poll_target_some in Hp. subst a. rewrite step_poll.
      destruct (get st g) as [fl|]; auto. destruct (fl_resp fl) as [[s b]|]; auto.
      simpl. apply length_put.
    + destruct (step_other st a Hd Hp) as [H|H]; [left; rewrite H; reflexivity | right; exact H].
Qed.

(* requested statement *)
Lemma step_store_shape st a :
  List.length (fst (step st a)) = List.length st \/
  (exists i, a = AInit (TValid i) MPoll \/ a = AInit (TValid i) MUser).
Proof.
  destruct (step_store_shape_strong st a) as [H|[i [[[Ha _]|[Ha _]] _]]]; eauto.
Qed.

(* the store never shrinks *)
Lemma step_length_mono st a : List.length st <= List.length (fst (step st a)).
Proof.
  destruct (step_store_shape_strong st a) as [H|[i [_ H]]]; rewrite H; try lia.
  rewrite app_length. simpl. lia.
Qed.

(* pointwise effect of a step on an existing flow *)
Lemma step_flow st a f fl :
  nth_error st (N.to_nat f) = Some fl ->
  nth_error (fst (step st a)) (N.to_nat f) = Some (flow_step f fl a).
Proof.
  intros Hn. unfold flow_step.
  destruct (decision_on a) as [[g k]|] eqn:Hd.
  - rewrite (step_decision st a g k Hd). destruct (N.eqb_spec g f) as [Heq|Hne].
    + subst g. rewrite (get_of_nth _ _ _ Hn). destruct (fl_alive fl); simpl; auto.
      unfold set_resp. eapply nth_put_same; eauto.
    + destruct (fl_alive fl); destruct (get st g); simpl; auto;
        unfold set_resp; rewrite nth_put_other; auto.
  - destruct (poll_target a) as [g|] eqn:Hp.
    + apply poll_target_some in Hp. subst a. rewrite step_poll.
      destruct (N.eqb_spec g f) as [Heq|Hne].
      * subst g. rewrite (get_of_nth _ _ _ Hn). destruct (fl_alive fl); simpl; auto.
        destruct (fl_resp fl) as [[s b]|] eqn:Hr; simpl; auto.
        eapply nth_put_same; eauto.
      * destruct (fl_alive fl); (destruct (get st g) as [fl0|]; simpl; auto;
          destruct (fl_resp fl0) as [[s b]|]; simpl; auto; rewrite nth_put_other; auto).
    + assert (Hgoal : nth_error (fst (step st a)) (N.to_nat f) = Some fl).
      { destruct (step_other st a Hd Hp) as [H|[i [_ H]]]; rewrite H; auto.
        rewrite nth_error_app1; auto. eapply nth_some_lt; eauto. }
      rewrite Hgoal. destruct (fl_alive fl); reflexivity.
Qed.

(* a flow that appears in a step was created by it *)
Lemma step_new st a f fl' :
  nth_error st (N.to_nat f) = None ->
  nth_error (fst (step st a)) (N.to_nat f) = Some fl' ->
  f = N.of_nat (List.length st) /\
  exists i, creation a (snd (step st a)) f i /\ fl' = mkFlow i None true.
Proof.
  intros Hn Hn'. apply nth_error_None in Hn.
  destruct (step_store_shape_strong st a) as [H|[i [Hc H]]].
  - apply nth_some_lt in Hn'. lia.
  - rewrite H in Hn'. rewrite nth_error_app2 in Hn' by exact Hn.
    destruct (N.to_nat f - List.length st) as [|d] eqn:Hd.
    + assert (Hf : f = N.of_nat (List.length st)).
      { apply N2Nat.inj. rewrite Nat2N.id. lia. }
      split; auto. exists i. simpl in Hn'. inversion Hn'. subst f. auto.
    + simpl in Hn'. destruct d; discriminate Hn'.
Qed.

Lemma flow_step_ticket f fl a : fl_ticket (flow_step f fl a) = fl_ticket fl.
Proof.
  unfold flow_step. destruct (fl_alive fl); auto.
  destruct (decision_on a) as [[g k]|].
  - destruct (N.eqb g f); auto.
  - destruct (poll_target a) as [g|]; auto. destruct (N.eqb g f); auto.
    destruct (fl_resp fl); auto.
Qed.

Lemma flow_step_dead f fl a : fl_alive fl = false -> flow_step f fl a = fl.
Proof. unfold flow_step. intros H. rewrite H. reflexivity. Qed.

Lemma flow_step_alive f fl a : fl_alive (flow_step f fl a) = true -> fl_alive fl = true.
Proof.
  destruct (fl_alive fl) eqn:Ha; auto. rewrite flow_step_dead by exact Ha. rewrite Ha. auto.
Qed.

(* nat-indexed versions *)
Lemma step_flow_nat st a n fl :
  nth_error st n = Some fl ->
  nth_error (fst (step st a)) n = Some (flow_step (N.of_nat n) fl a).
Proof.
  intros H. rewrite <- (Nat2N.id n) at 1. apply step_flow. rewrite Nat2N.id. exact H.
Qed.

(* flows persist: an existing index stays defined along any run *)
Lemma flow_persists st l f fl :
  nth_error st f = Some fl -> exists fl', nth_error (final st l) f = Some fl'.
Proof.
  revert st fl. induction l as [|a r IH]; intros st fl H; simpl; eauto.
  eapply IH. apply step_flow_nat. exact H.
Qed.

Lemma ticket_stable st l f fl fl' :
  nth_error st f = Some fl -> nth_error (final st l) f = Some fl' ->
  fl_ticket fl' = fl_ticket fl.
Proof.
  revert st fl. induction l as [|a r IH]; intros st fl H H'; simpl in H'.
  - congruence.
  - rewrite (IH _ _ (step_flow_nat st a f fl H) H'). apply flow_step_ticket.
Qed.

(* a flow that is not alive is never modified again *)
Lemma dead_stays_dead st l f fl :
  nth_error st f = Some fl -> fl_alive fl = false -> nth_error (final st l) f = Some fl.
Proof.
  revert st. induction l as [|a r IH]; intros st H Hd; simpl; auto.
  apply IH; auto. rewrite (step_flow_nat st a f fl H). rewrite flow_step_dead; auto.
Qed.

(* flows only ever go from alive to not alive *)
Lemma alive_was_alive st l f fl fl' :
  nth_error st f = Some fl -> nth_error (final st l) f = Some fl' ->
  fl_alive fl' = true -> fl_alive fl = true.
Proof.
  intros H H' Ha. destruct (fl_alive fl) eqn:Hd; auto.
  rewrite (dead_stays_dead st l f fl H Hd) in H'. inversion H'. subst. congruence.
Qed.

(* ------------------------------------------------------------------ *)
(* single-step facts                                                   *)

Lemma bad_ticket_short_circuits_l st t m :
  (forall i, t <> TValid i) -> step st (AInit t m) = (st, OServerError false).
Proof.
  intros H. destruct t; try reflexivity. exfalso. eapply H. reflexivity.
Qed.

Lemma immediate_discharge_l st i cavs :
  step st (AInit (TValid i) (MImmediate cavs)) = (st, OBody 201%N (BDischarge i cavs) true).
Proof. reflexivity. Qed.

Lemma poll_delivers_only_stored_l st s status b app :
  snd (step st (APoll s)) = OBody status b app ->
  exists f fl, s = SPoll f /\ get st f = Some fl /\ fl_resp fl = Some (status, b) /\ app = false.
Proof.
  destruct s as [g|g|]; try (simpl; discriminate).
  rewrite step_poll. destruct (get st g) as [fl|] eqn:Hg; try (simpl; discriminate).
  destruct (fl_resp fl) as [[s b']|] eqn:Hr; simpl; try discriminate.
  intros H. inversion H. subst. exists g, fl. auto.
Qed.

(* poll of an alive flow without stored response: 202, nothing changes *)
Lemma poll_not_ready_st st f fl :
  get st f = Some fl -> fl_resp fl = None -> step st (APoll (SPoll f)) = (st, ONotReady).
Proof. intros Hg Hr. rewrite step_poll, Hg, Hr. reflexivity. Qed.

(* a decision on an alive flow is accepted and stores its body *)
Lemma decision_accepted st a f k fl :
  decision_on a = Some (f, k) -> get st f = Some fl ->
  step st a = (set_resp st f fl (200%N, body_of (fl_ticket fl) k), acc_obs a) /\
  accepted (acc_obs a).
Proof.
  intros Hd Hg. rewrite (step_decision st a f k Hd), Hg. split; auto.
  unfold accepted. destruct a; simpl; auto.
Qed.

(* any action addressing a flow that is gone (collected, or never issued) is answered
   not-found without invoking the application, and changes nothing *)
Lemma target_gone st a f :
  get st f = None -> targets a f ->
  step st a = (st, ONotFound false) \/ step st a = (st, OCall false).
Proof.
  intros Hg Ht.
  destruct a as [t m|s|s d|s cavs|s msg|s cavs|s msg]; simpl in Ht; try contradiction;
    destruct s as [g|g|]; try contradiction; subst g; simpl; rewrite Hg; simpl; auto.
Qed.

Lemma unissued_secret_not_found st a f :
  List.length st <= N.to_nat f -> targets a f ->
  step st a = (st, ONotFound false) \/ step st a = (st, OCall false).
Proof.
  intros Hl. apply target_gone. apply get_none_nth. apply nth_error_None. exact Hl.
Qed.

(* generalised form: after ANY decision on an alive flow the next poll delivers its body *)
Lemma decision_then_poll st a f k fl :
  decision_on a = Some (f, k) -> get st f = Some fl ->
  snd (step (fst (step st a)) (APoll (SPoll f))) =
  OBody 200%N (body_of (fl_ticket fl) k) false.
Proof.
  intros Hd Hg. destruct (decision_accepted st a f k fl Hd Hg) as [Hs _]. rewrite Hs.
  simpl fst. rewrite step_poll. destruct (get_some _ _ _ Hg) as [Hn _].
  unfold set_resp. rewrite (get_of_nth _ _ _ (nth_put_same st f fl _ Hn)). reflexivity.
Qed.

Lemma abort_delivers_error_l st f fl msg :
  get st f = Some fl ->
  let st' := fst (step st (AAbortPoll (SPoll f) msg)) in
  snd (step st' (APoll (SPoll f))) = OBody 200%N (BError msg) false.
Proof. intros Hg. exact (decision_then_poll st (AAbortPoll (SPoll f) msg) f (KAbort msg) fl eq_refl Hg). Qed.

Lemma abort_user_delivers_error_l st f fl msg :
  get st f = Some fl ->
  let st' := fst (step st (AAbortUser (SUser f) msg)) in
  snd (step st' (APoll (SPoll f))) = OBody 200%N (BError msg) false.
Proof. intros Hg. exact (decision_then_poll st (AAbortUser (SUser f) msg) f (KAbort msg) fl eq_refl Hg). Qed.

Lemma visit_abort_delivers_error_l st f fl msg :
  get st f = Some fl ->
  let st' := fst (step st (AUserVisit (SUser f) (DAbort msg))) in
  snd (step st' (APoll (SPoll f))) = OBody 200%N (BError msg) false.
Proof. intros Hg. exact (decision_then_poll st (AUserVisit (SUser f) (DAbort msg)) f (KAbort msg) fl eq_refl Hg). Qed.

(* companion: an approval delivers a discharge of the flow's own ticket *)
Lemma approve_delivers_discharge_l st a f cavs fl :
  decision_on a = Some (f, KApprove cavs) -> get st f = Some fl ->
  snd (step (fst (step st a)) (APoll (SPoll f))) =
  OBody 200%N (BDischarge (fl_ticket fl) cavs) false.
Proof. intros Hd Hg. exact (decision_then_poll st a f _ fl Hd Hg). Qed.

(* a delivering poll kills the flow *)
Lemma poll_delivered_dead st f status b :
  snd (step st (APoll (SPoll f))) = OBody status b false ->
  exists fl', nth_error (fst (step st (APoll (SPoll f)))) (N.to_nat f) = Some fl' /\
              fl_alive fl' = false.
Proof.
  intros H. destruct (poll_delivers_only_stored_l _ _ _ _ _ H) as [g [fl [Hs [Hg [Hr _]]]]].
  inversion Hs. subst g. rewrite step_poll, Hg, Hr. simpl.
  destruct (get_some _ _ _ Hg) as [Hn _].
  eexists. split. { eapply nth_put_same; eauto. } reflexivity.
Qed.

Lemma collected_then_gone st f status b l :
  snd (step st (APoll (SPoll f))) = OBody status b false ->
  get (final (fst (step st (APoll (SPoll f)))) l) f = None.
Proof.
  intros H. destruct (poll_delivered_dead st f status b H) as [fl' [Hn Hd]].
  rewrite (get_of_nth _ _ fl'). { rewrite Hd. reflexivity. }
  apply dead_stays_dead; auto.
Qed.

(* strong form: the store is unchanged as well *)
Lemma collected_then_not_found_strong st f status b :
  snd (step st (APoll (SPoll f))) = OBody status b false ->
  let st' := fst (step st (APoll (SPoll f))) in
  forall l a, targets a f -> let stl := final st' l in
    step stl a = (stl, ONotFound false) \/ step stl a = (stl, OCall false).
Proof.
  intros H st' l a Ht stl. apply (target_gone stl a f); auto.
  unfold stl, st'. eapply collected_then_gone; eauto.
Qed.

Lemma collected_then_not_found_l st f status b :
  snd (step st (APoll (SPoll f))) = OBody status b false ->
  let st' := fst (step st (APoll (SPoll f))) in
  forall l a, targets a f -> let stl := final st' l in
    snd (step stl a) = ONotFound false \/ snd (step stl a) = OCall false.
Proof.
  intros H st' l a Ht stl.
  destruct (collected_then_not_found_strong st f status b H l a Ht) as [E|E];
    fold st' in E; fold stl in E; rewrite E; auto.
Qed.

Lemma delivered_once_l st f status b :
  snd (step st (APoll (SPoll f))) = OBody status b false ->
  snd (step (fst (step st (APoll (SPoll f)))) (APoll (SPoll f))) = ONotFound false.
Proof.
  intros H. rewrite (step_poll (fst (step st (APoll (SPoll f))))).
  pose proof (collected_then_gone st f status b [] H) as Hg.
  change (get (fst (step st (APoll (SPoll f)))) f = None) in Hg. rewrite Hg. reflexivity.
Qed.

(* guessed secrets and secrets presented at the wrong endpoint: not found, application not
   invoked, store unchanged (each equation gives observation and store at once) *)
Lemma unknown_or_crossed_secret_not_found_l st :
  step st (APoll SGuess) = (st, ONotFound false) /\
  (forall f, step st (APoll (SUser f)) = (st, ONotFound false)) /\
  (forall f d, step st (AUserVisit (SPoll f) d) = (st, ONotFound false)) /\
  (forall d, step st (AUserVisit SGuess d) = (st, ONotFound false)) /\
  (forall f cavs, step st (AApprovePoll (SUser f) cavs) = (st, OCall false)) /\
  (forall cavs, step st (AApprovePoll SGuess cavs) = (st, OCall false)) /\
  (forall f msg, step st (AAbortPoll (SUser f) msg) = (st, OCall false)) /\
  (forall msg, step st (AAbortPoll SGuess msg) = (st, OCall false)) /\
  (forall f cavs, step st (AApproveUser (SPoll f) cavs) = (st, OCall false)) /\
  (forall cavs, step st (AApproveUser SGuess cavs) = (st, OCall false)) /\
  (forall f msg, step st (AAbortUser (SPoll f) msg) = (st, OCall false)) /\
  (forall msg, step st (AAbortUser SGuess msg) = (st, OCall false)).
Proof. repeat split. Qed.

Lemma app_invoked_only_when_found_l st a :
  match snd (step st a) with
  | ONotFound app => app = false
  | OServerError app => app = false
  | _ => True
  end.
Proof.
  destruct a as [t m|s|s d|s cavs|s msg|s cavs|s msg].
  - destruct t; simpl; auto. destruct m; simpl; auto.
  - simpl. destruct (by_poll st s) as [[f fl]|]; simpl; auto.
    destruct (fl_resp fl) as [[x y]|]; simpl; auto.
  - simpl. destruct (by_user st s) as [[f fl]|]; simpl; auto. destruct d; simpl; auto.
  - simpl. destruct (by_poll st s) as [[f fl]|]; simpl; auto.
  - simpl. destruct (by_poll st s) as [[f fl]|]; simpl; auto.
  - simpl. destruct (by_user st s) as [[f fl]|]; simpl; auto.
  - simpl. destruct (by_user st s) as [[f fl]|]; simpl; auto.
Qed.

(* ------------------------------------------------------------------ *)
(* the store invariant resp_ok                                         *)

Lemma flow_step_resp_ok f fl a status b :
  (forall status0 b0, fl_resp fl = Some (status0, b0) ->
     status0 = 200%N /\ match b0 with BDischarge tk _ => tk = fl_ticket fl | BError _ => True end) ->
  fl_resp (flow_step f fl a) = Some (status, b) ->
  status = 200%N /\
  match b with BDischarge tk _ => tk = fl_ticket (flow_step f fl a) | BError _ => True end.
Proof.
  intros Hok. rewrite flow_step_ticket. unfold flow_step.
  destruct (fl_alive fl); auto.
  destruct (decision_on a) as [[g k]|].
  - destruct (N.eqb g f); auto. simpl. intros H. inversion H. split; auto.
    destruct k; simpl; auto.
  - destruct (poll_target a) as [g|]; auto. destruct (N.eqb g f); auto.
    destruct (fl_resp fl) as [r|] eqn:Hr; auto. simpl. rewrite Hr. auto.
Qed.

Lemma resp_ok_step st a : resp_ok st -> resp_ok (fst (step st a)).
Proof.
  intros Hok n fl' status b Hn' Hr.
  destruct (nth_error st n) as [fl|] eqn:Hn.
  - rewrite (step_flow_nat st a n fl Hn) in Hn'. inversion Hn'. subst fl'.
    eapply flow_step_resp_ok; eauto.
  - rewrite <- (Nat2N.id n) in Hn, Hn'.
    destruct (step_new st a _ fl' Hn Hn') as [_ [i [_ Hfl]]]. subst fl'. discriminate Hr.
Qed.

Lemma resp_ok_final st l : resp_ok st -> resp_ok (final st l).
Proof.
  revert st. induction l as [|a r IH]; intros st H; simpl; auto.
  apply IH. apply resp_ok_step. exact H.
Qed.

Lemma resp_ok_nil : resp_ok [].
Proof. intros [|f] fl status b H; discriminate H. Qed.

(* the invariant from the empty store; the generalisation to any start store satisfying
   resp_ok is resp_ok_final *)
Lemma discharge_matches_flow_l l f fl status tk cavs :
  nth_error (final [] l) f = Some fl ->
  fl_resp fl = Some (status, BDischarge tk cavs) ->
  tk = fl_ticket fl /\ status = 200%N.
Proof.
  intros Hn Hr. destruct (resp_ok_final [] l resp_ok_nil f fl status _ Hn Hr). auto.
Qed.

(* ------------------------------------------------------------------ *)
(* run / final over append                                             *)

Lemma final_app st l1 l2 : final st (l1 ++ l2) = final (final st l1) l2.
Proof. revert st. induction l1 as [|a r IH]; intros st; simpl; auto. Qed.

Lemma run_cons st a r : run st (a :: r) = snd (step st a) :: run (fst (step st a)) r.
Proof. simpl. destruct (step st a). reflexivity. Qed.

Lemma run_app st l1 l2 : run st (l1 ++ l2) = run st l1 ++ run (final st l1) l2.
Proof.
  revert st. induction l1 as [|a r IH]; intros st; auto.
  rewrite <- app_comm_cons, !run_cons, IH. reflexivity.
Qed.

Lemma run_length st l : List.length (run st l) = List.length l.
Proof.
  revert st. induction l as [|a r IH]; intros st; auto. rewrite run_cons. simpl. auto.
Qed.

(* the observation at position n is the one of the n-th action in the store reached so far *)
Lemma run_nth st l n a :
  nth_error l n = Some a ->
  nth_error (run st l) n = Some (snd (step (final st (firstn n l)) a)).
Proof.
  revert st n. induction l as [|x r IH]; intros st [|n] H; try discriminate H.
  - simpl in H. inversion H. subst. rewrite run_cons. reflexivity.
  - rewrite run_cons. simpl. apply IH. exact H.
Qed.

Lemma run_firstn st l n : run st (firstn n l) = firstn n (run st l).
Proof.
  revert st n. induction l as [|x r IH]; intros st [|n]; auto.
  rewrite run_cons. simpl firstn. rewrite run_cons, IH. reflexivity.
Qed.

Lemma nth_firstn {A} (l : list A) n j : j < n -> nth_error (firstn n l) j = nth_error l j.
Proof.
  revert n j. induction l as [|x r IH]; intros [|n] [|j] H; simpl; auto; try lia.
  apply IH. lia.
Qed.

Lemma nth_firstn_some {A} (l : list A) n j x :
  nth_error (firstn n l) j = Some x -> j < n /\ nth_error l j = Some x.
Proof.
  intros H. assert (Hj : j < n).
  { apply nth_some_lt in H. rewrite firstn_length in H. lia. }
  split; auto. rewrite <- (nth_firstn l n j Hj). exact H.
Qed.

(* ------------------------------------------------------------------ *)
(* the trace invariant                                                 *)

(* Every flow of the store was created by an accepted init at some position c; if it has a
   stored response then that response has status 200 and is the body of an accepted decision
   at some position m > c, computed from the flow's own ticket; and as long as the flow is
   alive, m is the LAST decision (accepted or not) addressed to the flow. *)
Definition hist_inv (l : list action) (os : list obs) (st : store) : Prop :=
  forall f fl, nth_error st (N.to_nat f) = Some fl ->
    exists c, created_at l os c f (fl_ticket fl) /\
      match fl_resp fl with
      | None => True
      | Some (status, b) =>
          status = 200%N /\
          exists m, c < m /\ decided_at l os m f (fl_ticket fl) b /\
            (fl_alive fl = true ->
             forall j a, m < j -> nth_error l j = Some a -> ~ is_decision_on a f)
      end.

Lemma nth_app_some {A} (l : list A) x j y :
  nth_error l j = Some y -> nth_error (l ++ [x]) j = Some y.
Proof. intros H. rewrite nth_error_app1; auto. eapply nth_some_lt; eauto. Qed.

Lemma nth_app_last {A} (l : list A) x : nth_error (l ++ [x]) (List.length l) = Some x.
Proof. rewrite nth_error_app2 by lia. rewrite Nat.sub_diag. reflexivity. Qed.

Lemma nth_snoc_cases {A} (l : list A) x j y :
  nth_error (l ++ [x]) j = Some y ->
  (j < List.length l /\ nth_error l j = Some y) \/ (j = List.length l /\ y = x).
Proof.
  intros H. destruct (Nat.lt_ge_cases j (List.length l)) as [Hlt|Hge].
  - left. rewrite nth_error_app1 in H by exact Hlt. auto.
  - right. rewrite nth_error_app2 in H by exact Hge.
    destruct (j - List.length l) as [|d] eqn:Hd.
    + simpl in H. inversion H. split; auto. lia.
    + simpl in H. destruct d; discriminate H.
Qed.

Lemma created_at_snoc l os a o c f tk :
  created_at l os c f tk -> created_at (l ++ [a]) (os ++ [o]) c f tk.
Proof.
  intros [a0 [o0 [Ha [Ho Hc]]]]. exists a0, o0. auto using nth_app_some.
Qed.

Lemma decided_at_snoc l os a o m f tk b :
  decided_at l os m f tk b -> decided_at (l ++ [a]) (os ++ [o]) m f tk b.
Proof.
  intros [a0 [o0 [Ha [Ho Hc]]]]. exists a0, o0. auto using nth_app_some.
Qed.

Lemma created_at_lt l os c f tk : created_at l os c f tk -> c < List.length l.
Proof. intros [a [o [Ha _]]]. eapply nth_some_lt; eauto. Qed.

Lemma decided_at_lt l os m f tk b : decided_at l os m f tk b -> m < List.length l.
Proof. intros [a [o [Ha _]]]. eapply nth_some_lt; eauto. Qed.

(* an unchanged flow keeps its history, provided the new action is not a decision on it
   while it is alive *)
Lemma hist_keep l os a o f fl c :
  created_at l os c f (fl_ticket fl) ->
  match fl_resp fl with
  | None => True
  | Some (status, b) =>
      status = 200%N /\
      exists m, c < m /\ decided_at l os m f (fl_ticket fl) b /\
        (fl_alive fl = true ->
         forall j a, m < j -> nth_error l j = Some a -> ~ is_decision_on a f)
  end ->
  (fl_alive fl = true -> ~ is_decision_on a f) ->
  match fl_resp fl with
  | None => True
  | Some (status, b) =>
      status = 200%N /\
      exists m, c < m /\ decided_at (l ++ [a]) (os ++ [o]) m f (fl_ticket fl) b /\
        (fl_alive fl = true ->
         forall j a', m < j -> nth_error (l ++ [a]) j = Some a' -> ~ is_decision_on a' f)
  end.
Proof.
  intros Hc Hr Hnd. destruct (fl_resp fl) as [[status b]|]; auto.
  destruct Hr as [Hs [m [Hcm [Hdec Hlast]]]]. split; auto.
  exists m. split; auto. split. { apply decided_at_snoc. exact Hdec. }
  intros Hal j a' Hmj Hj. destruct (nth_snoc_cases _ _ _ _ Hj) as [[_ Hj']|[_ Hj']].
  - eapply Hlast; eauto.
  - subst a'. auto.
Qed.

(* the three things a step can do to an existing flow *)
Lemma flow_step_cases f fl a :
  (flow_step f fl a = fl /\ (fl_alive fl = true -> ~ is_decision_on a f)) \/
  (fl_alive fl = true /\ exists k, decision_on a = Some (f, k) /\
     flow_step f fl a = mkFlow (fl_ticket fl) (Some (200%N, body_of (fl_ticket fl) k)) true) \/
  (fl_alive fl = true /\ ~ is_decision_on a f /\ (exists r, fl_resp fl = Some r) /\
     flow_step f fl a = mkFlow (fl_ticket fl) (fl_resp fl) false).
Proof.
  unfold flow_step. destruct (fl_alive fl) eqn:Hal.
  2:{ left. split; auto. intros Hx. discriminate Hx. }
  destruct (decision_on a) as [[g k]|] eqn:Hd.
  - destruct (N.eqb_spec g f) as [Heq|Hne].
    + subst g. right. left. split; auto. exists k. auto.
    + left. split; auto. intros _ [k' Hk']. rewrite Hd in Hk'. inversion Hk'. congruence.
  - assert (Hnd : ~ is_decision_on a f).
    { intros [k' Hk']. rewrite Hd in Hk'. discriminate Hk'. }
    destruct (poll_target a) as [g|]; auto. destruct (N.eqb g f); auto.
    destruct (fl_resp fl) as [r|] eqn:Hr; auto.
    right. right. repeat split; auto. exists r. reflexivity.
Qed.

Lemma hist_inv_step l os st a :
  List.length os = List.length l ->
  hist_inv l os st ->
  hist_inv (l ++ [a]) (os ++ [snd (step st a)]) (fst (step st a)).
Proof.
  intros Hlen Hinv f fl' Hn'.
  destruct (nth_error st (N.to_nat f)) as [fl|] eqn:Hn.
  - rewrite (step_flow st a f fl Hn) in Hn'. inversion Hn' as [Hfl']. clear Hn'.
    destruct (Hinv f fl Hn) as [c [Hc Hr]].
    exists c. rewrite flow_step_ticket. split. { apply created_at_snoc. exact Hc. }
    destruct (flow_step_cases f fl a) as [[Hfs Hnd]|[[Hal [k [Hd Hfs]]]|[Hal [Hnd [[r Hresp] Hfs]]]]];
      rewrite Hfs.
    + eapply hist_keep; eauto.
    + (* an accepted decision on f: it becomes the latest one *)
      simpl. split; auto. exists (List.length l).
      split. { eapply created_at_lt; eauto. }
      split.
      * exists a, (snd (step st a)). split. { apply nth_app_last. }
        split. { rewrite <- Hlen. apply nth_app_last. }
        split. { exists k. auto. }
        assert (Hg : get st f = Some fl).
        { rewrite (get_of_nth _ _ _ Hn), Hal. reflexivity. }
        destruct (decision_accepted st a f k fl Hd Hg) as [Hs Hacc].
        rewrite Hs. exact Hacc.
      * intros _ j a' Hlt Hj. apply nth_some_lt in Hj.
        rewrite app_length in Hj. simpl in Hj. lia.
    + (* delivering poll: the flow dies, its response is kept *)
      simpl.
      pose proof (hist_keep l os a (snd (step st a)) f fl c Hc Hr (fun _ => Hnd)) as HK.
      destruct (fl_resp fl) as [[status b]|]; auto.
      destruct HK as [Hs [m [Hcm [Hdec _]]]]. split; auto.
      exists m. split; auto. split; auto. intros Hx. discriminate Hx.
  - destruct (step_new st a f fl' Hn Hn') as [Hf [i [Hc Hfl]]]. subst fl'. simpl.
    exists (List.length l). split; auto.
    exists a, (snd (step st a)). split. { apply nth_app_last. }
    split; auto. rewrite <- Hlen. apply nth_app_last.
Qed.

Lemma hist_inv_run l : hist_inv l (run [] l) (final [] l).
Proof.
  induction l as [|a l IH] using rev_ind.
  - intros f fl H. destruct (N.to_nat f); discriminate H.
  - rewrite run_app, final_app. simpl run. simpl final.
    destruct (step (final [] l) a) as [st' o] eqn:Hs.
    replace st' with (fst (step (final [] l) a)) by (rewrite Hs; reflexivity).
    replace o with (snd (step (final [] l) a)) by (rewrite Hs; reflexivity).
    apply hist_inv_step; auto. apply run_length.
Qed.

(* ------------------------------------------------------------------ *)
(* the trace theorem                                                   *)

(* Formalisation.  In a run of [l] from the empty store, if position [n] is a poll with
   secret [s] answered by a body that is a discharge [BDischarge tk cavs], then
   - [s] is the poll secret of some flow [f], the status is 200, the application was not run;
   - flow [f] was created at a position [c] by [AInit (TValid tk) MPoll] answered
     [OPollURL f], or [AInit (TValid tk) MUser] answered [OUserURL f]  ([created_at]);
   - at a position [m] with [c < m < n] an action [a] which is an approval of flow [f]
     through the matching secret with exactly the caveats [cavs]
     ([decides_with tk a f (BDischarge tk cavs)]) was accepted ([OCall true] or
     [OVisited true true]);
   - no action at a position strictly between [m] and [n] is a decision addressed to [f]
     (approval or abort, accepted or not). *)
Theorem discharge_only_after_approval_l l n s status tk cavs app :
  nth_error l n = Some (APoll s) ->
  nth_error (run [] l) n = Some (OBody status (BDischarge tk cavs) app) ->
  exists f c m a o,
    s = SPoll f /\ c < m /\ m < n /\
    created_at l (run [] l) c f tk /\
    nth_error l m = Some a /\ nth_error (run [] l) m = Some o /\
    decides_with tk a f (BDischarge tk cavs) /\ accepted o /\
    (forall j a', m < j -> j < n -> nth_error l j = Some a' -> ~ is_decision_on a' f) /\
    status = 200%N /\ app = false.
Proof.
  intros Hl Ho. rewrite (run_nth [] l n _ Hl) in Ho. inversion Ho as [Hobs]. clear Ho.
  destruct (poll_delivers_only_stored_l _ _ _ _ _ Hobs) as [f [fl [Hs [Hg [Hr Happ]]]]].
  destruct (get_some _ _ _ Hg) as [Hn Hal].
  pose proof (hist_inv_run (firstn n l) f fl Hn) as [c [Hc HR]].
  rewrite Hr in HR. destruct HR as [Hst [m [Hcm [Hdec Hlast]]]].
  rewrite run_firstn in Hc, Hdec.
  destruct Hdec as [a [o [Ha [Hob [[k [Hdk Hb]] Hacc]]]]].
  destruct k as [cavs'|msg]; simpl in Hb; try discriminate Hb. inversion Hb. subst cavs' tk.
  destruct (nth_firstn_some _ _ _ _ Ha) as [Hmn Ha'].
  destruct (nth_firstn_some _ _ _ _ Hob) as [_ Hob'].
  destruct Hc as [ac [oc [Hac [Hoc Hcr]]]].
  destruct (nth_firstn_some _ _ _ _ Hac) as [_ Hac'].
  destruct (nth_firstn_some _ _ _ _ Hoc) as [_ Hoc'].
  exists f, c, m, a, o. repeat split; auto.
  - exists ac, oc. auto.
  - exists (KApprove cavs). auto.
  - intros j a' Hmj Hjn Hj. apply (Hlast Hal j a' Hmj). rewrite nth_firstn; auto.
Qed.

(* weaker reading with the task's [decides] *)
Corollary discharge_only_after_approval_decides l n s status tk cavs app :
  nth_error l n = Some (APoll s) ->
  nth_error (run [] l) n = Some (OBody status (BDischarge tk cavs) app) ->
  exists f m a, s = SPoll f /\ m < n /\ nth_error l m = Some a /\
                decides a f (BDischarge tk cavs).
Proof.
  intros Hl Ho.
  destruct (discharge_only_after_approval_l l n s status tk cavs app Hl Ho)
    as [f [c [m [a [o [Hs [_ [Hmn [_ [Ha [_ [Hd _]]]]]]]]]]]].
  exists f, m, a. eauto using decides_with_decides.
Qed.

(* ------------------------------------------------------------------ *)
(* poll before any decision                                            *)

(* a fresh flow stays exactly as created while no decision addresses it *)
Lemma undecided_unchanged st l f fl :
  get st f = Some fl -> fl_resp fl = None ->
  (forall a, In a l -> ~ is_decision_on a f) ->
  get (final st l) f = Some fl.
Proof.
  revert st. induction l as [|a r IH]; intros st Hg Hr Hnd; simpl; auto.
  apply IH; auto.
  - destruct (get_some _ _ _ Hg) as [Hn Hal].
    rewrite (get_of_nth _ _ _ (step_flow st a f fl Hn)).
    assert (Hfs : flow_step f fl a = fl).
    { unfold flow_step. rewrite Hal, Hr.
      destruct (decision_on a) as [[g k]|] eqn:Hd.
      - destruct (N.eqb_spec g f) as [Heq|Hne]; auto. subst g.
        exfalso. apply (Hnd a). { left. reflexivity. } exists k. exact Hd.
      - destruct (poll_target a) as [g|]; auto. destruct (N.eqb g f); auto. }
    rewrite Hfs, Hal. reflexivity.
  - intros a' Hin. apply Hnd. right. exact Hin.
Qed.

Lemma creation_get st a f tk :
  creation a (snd (step st a)) f tk ->
  get (fst (step st a)) f = Some (mkFlow tk None true).
Proof.
  assert (Hnew : forall x, get (st ++ [x]) (N.of_nat (List.length st)) =
                           if fl_alive x then Some x else None).
  { intros x. apply get_of_nth. rewrite Nat2N.id. apply nth_app_last. }
  intros [[Ha Ho]|[Ha Ho]]; subst a; simpl in *; inversion Ho; subst f; apply Hnew.
Qed.

(* Formalisation of "f created in l, no decision on f in l": some position [c] of the run of
   [l] (from ANY start store) is answered by the poll/user URL of flow [f] (only an accepted
   init produces these), and no action after position [c] is a decision addressed to [f].
   Then the flow is alive with no stored response (so no poll in [l] can have delivered),
   and a poll now answers 202 and changes nothing. *)
Lemma poll_before_decision_not_ready_l st l c f :
  (nth_error (run st l) c = Some (OPollURL f) \/ nth_error (run st l) c = Some (OUserURL f)) ->
  (forall j a, c < j -> nth_error l j = Some a -> ~ is_decision_on a f) ->
  exists fl, get (final st l) f = Some fl /\ fl_resp fl = None /\
             step (final st l) (APoll (SPoll f)) = (final st l, ONotReady).
Proof.
  revert st c. induction l as [|a r IH]; intros st c Ho Hnd.
  - destruct c; destruct Ho as [Ho|Ho]; discriminate Ho.
  - rewrite run_cons in Ho. destruct c as [|c].
    + simpl in Ho.
      assert (Hcr : exists tk, creation a (snd (step st a)) f tk).
      { destruct a as [t m|s|s d|s cavs|s msg|s cavs|s msg].
        - destruct t; try (destruct Ho as [Ho|Ho]; discriminate Ho).
          destruct m; try (destruct Ho as [Ho|Ho]; discriminate Ho); exists i; simpl in *.
          + left. destruct Ho as [Ho|Ho]; inversion Ho. auto.
          + right. destruct Ho as [Ho|Ho]; inversion Ho. auto.
        - exfalso. simpl in Ho. destruct (by_poll st s) as [[g fl]|].
          + destruct (fl_resp fl) as [[x y]|]; destruct Ho as [Ho|Ho]; discriminate Ho.
          + destruct Ho as [Ho|Ho]; discriminate Ho.
        - exfalso. simpl in Ho. destruct (by_user st s) as [[g fl]|].
          + destruct d; destruct Ho as [Ho|Ho]; discriminate Ho.
          + destruct Ho as [Ho|Ho]; discriminate Ho.
        - exfalso. simpl in Ho.
          destruct (by_poll st s) as [[g fl]|]; destruct Ho as [Ho|Ho]; discriminate Ho.
        - exfalso. simpl in Ho.
          destruct (by_poll st s) as [[g fl]|]; destruct Ho as [Ho|Ho]; discriminate Ho.
        - exfalso. simpl in Ho.
          destruct (by_user st s) as [[g fl]|]; destruct Ho as [Ho|Ho]; discriminate Ho.
        - exfalso. simpl in Ho.
          destruct (by_user st s) as [[g fl]|]; destruct Ho as [Ho|Ho]; discriminate Ho. }
      destruct Hcr as [tk Hcr]. apply creation_get in Hcr.
      assert (Hfin : get (final st (a :: r)) f = Some (mkFlow tk None true)).
      { simpl. apply undecided_unchanged; auto.
        intros a' Hin. destruct (In_nth_error _ _ Hin) as [j Hj].
        apply (Hnd (S j) a'); auto. lia. }
      exists (mkFlow tk None true). split; auto. split; auto.
      apply poll_not_ready_st with (fl := mkFlow tk None true); auto.
    + simpl in Ho. simpl final. apply (IH _ c Ho).
      intros j a' Hlt Hj. apply (Hnd (S j) a'); auto. lia.
Qed.

(* the store-level formulation asked for in the task *)
Lemma poll_before_decision_not_ready_st l f fl :
  get (final [] l) f = Some fl -> fl_resp fl = None ->
  snd (step (final [] l) (APoll (SPoll f))) = ONotReady.
Proof. intros Hg Hr. rewrite (poll_not_ready_st _ f fl Hg Hr). reflexivity. Qed.

(* ------------------------------------------------------------------ *)
Print Assumptions step_store_shape.
Print Assumptions ticket_stable.
Print Assumptions dead_stays_dead.
Print Assumptions alive_was_alive.
Print Assumptions bad_ticket_short_circuits_l.
Print Assumptions immediate_discharge_l.
Print Assumptions poll_delivers_only_stored_l.
Print Assumptions discharge_only_after_approval_l.
Print Assumptions discharge_matches_flow_l.
Print Assumptions poll_before_decision_not_ready_l.
Print Assumptions abort_delivers_error_l.
Print Assumptions abort_user_delivers_error_l.
Print Assumptions visit_abort_delivers_error_l.
Print Assumptions collected_then_not_found_l.
Print Assumptions collected_then_not_found_strong.
Print Assumptions unknown_or_crossed_secret_not_found_l.
Print Assumptions app_invoked_only_when_found_l.
Print Assumptions delivered_once_l.
Print Assumptions decides_with_cases.

(* non-vacuity: a concrete run in which the hypotheses of the trace theorem hold at n = 2 *)
Example run_example :
  run [] [AInit (TValid 7%N) MUser; AUserVisit (SUser 0%N) (DApprove [1%N; 2%N]);
          APoll (SPoll 0%N); APoll (SPoll 0%N); AApprovePoll (SPoll 0%N) []]
  = [OUserURL 0%N; OVisited true true; OBody 200%N (BDischarge 7%N [1%N; 2%N]) false;
     ONotFound false; OCall false].
Proof. reflexivity. Qed.
