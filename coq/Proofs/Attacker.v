(* C01: the Dolev-Yao attacker over the symbolic term algebra of Model/Sym.v, the secrecy
   invariant for MAC chains rooted at the issuer key, and the no-forgery theorem.
   Self-contained: depends only on Model/Sym.v. *)
From Coq Require Import List Bool NArith Lia.
From Mac Require Import Model.Sym.
Import ListNotations.
Local Open Scope N_scope.

Scheme term_mind := Induction for term Sort Prop
with msg_mind := Induction for msg Sort Prop
with pcav_mind := Induction for pcav Sort Prop.

(* ------------------------------------------------------------------ *)
(* basic facts about chains (proved locally; no dependency on SymBasics) *)

Lemma chain_from_snoc start cs c :
  chain_from start (cs ++ [c]) = TMac (chain_from start cs) (MCav c).
Proof. unfold chain_from. rewrite fold_left_app. reflexivity. Qed.

Lemma chain_nil k n : chain k n [] = TMac k (mnonce n).
Proof. reflexivity. Qed.

Lemma chain_snoc k n cs c : chain k n (cs ++ [c]) = TMac (chain k n cs) (MCav c).
Proof. unfold chain. apply chain_from_snoc. Qed.

Lemma chain_from_app start cs e :
  chain_from start (cs ++ e) = chain_from (chain_from start cs) e.
Proof. unfold chain_from. apply fold_left_app. Qed.

(* a chain value is always a MAC: either the nonce MAC or a caveat MAC over a shorter chain *)
Lemma chain_cases k n cs :
  (cs = [] /\ chain k n cs = TMac k (mnonce n)) \/
  (exists cs' c, cs = cs' ++ [c] /\ chain k n cs = TMac (chain k n cs') (MCav c)).
Proof.
  destruct cs as [|c cs' _] using rev_ind.
  - left. split; reflexivity.
  - right. exists cs', c. split; [reflexivity | apply chain_snoc].
Qed.

Lemma chain_is_mac k n cs : exists a m, chain k n cs = TMac a m.
Proof.
  destruct (chain_cases k n cs) as [[_ E] | (cs' & c & _ & E)]; rewrite E; eauto.
Qed.

(* inversion of [TMac a m = chain k n cs] *)
Lemma mac_eq_chain a m k n cs :
  TMac a m = chain k n cs ->
  (cs = [] /\ a = k /\ m = mnonce n) \/
  (exists cs' c, cs = cs' ++ [c] /\ a = chain k n cs' /\ m = MCav c).
Proof.
  intros E. destruct (chain_cases k n cs) as [[Hnil E'] | (cs' & c & Hcs & E')];
    rewrite E' in E; inversion E; subst.
  - left. repeat split.
  - right. exists cs', c. repeat split.
Qed.

Lemma mnonce_inj n n' : mnonce n = mnonce n' -> n = n'.
Proof. destruct n, n'. unfold mnonce. simpl. intros E. inversion E. reflexivity. Qed.

Lemma chain_inj_strong k n cs : forall k' n' cs',
  chain k n cs = chain k' n' cs' -> k = k' /\ n = n' /\ cs = cs'.
Proof.
  induction cs as [|c cs IH] using rev_ind; intros k' n' cs' E.
  - rewrite chain_nil in E. apply mac_eq_chain in E.
    destruct E as [(-> & -> & Hm) | (cs1 & c1 & _ & _ & Hm)].
    + apply mnonce_inj in Hm. repeat split; assumption.
    + discriminate Hm.
  - rewrite chain_snoc in E. apply mac_eq_chain in E.
    destruct E as [(_ & _ & Hm) | (cs1 & c1 & -> & Ha & Hm)].
    + discriminate Hm.
    + inversion Hm; subst c1. apply IH in Ha. destruct Ha as (-> & -> & ->).
      repeat split.
Qed.

Lemma chain_inj k n cs k' n' cs' :
  chain k n cs = chain k' n' cs' -> k = k' /\ mnonce n = mnonce n' /\ cs = cs'.
Proof.
  intros E. apply chain_inj_strong in E. destruct E as (-> & -> & ->). repeat split.
Qed.

Lemma chain_not_key k n cs i : chain k n cs <> TKey i.
Proof. destruct (chain_is_mac k n cs) as (a & m & ->). discriminate. Qed.

Lemma chain_not_fin k n cs t : chain k n cs <> TFin t.
Proof. destruct (chain_is_mac k n cs) as (a & m & ->). discriminate. Qed.

(* ------------------------------------------------------------------ *)
(* soundness of the boolean equalities *)

Lemma list_eqb_sound {A} (e : A -> A -> bool) :
  forall a, (forall x, In x a -> forall y, e x y = true -> x = y) ->
  forall b, list_eqb e a b = true -> a = b.
Proof.
  induction a as [|x r IH]; intros He [|y s] E; simpl in E; try discriminate.
  - reflexivity.
  - apply andb_true_iff in E. destruct E as [E1 E2].
    f_equal.
    + apply (He x); [left; reflexivity | assumption].
    + apply IH; [|assumption]. intros z Hz. apply He. right. assumption.
Qed.

Lemma dcav_eqb_sound a b : dcav_eqb a b = true -> a = b.
Proof.
  destruct a as [i1 a1 w1], b as [i2 a2 w2]. unfold dcav_eqb. simpl. intros E.
  apply andb_true_iff in E. destruct E as [E Ew].
  apply andb_true_iff in E. destruct E as [Ei Ea].
  apply N.eqb_eq in Ei. apply eqb_prop in Ea. apply eqb_prop in Ew. subst. reflexivity.
Qed.

Lemma term_eqb_sound : forall a b, term_eqb a b = true -> a = b.
Proof.
  apply (term_mind
    (fun a => forall b, term_eqb a b = true -> a = b)
    (fun a => forall b, msg_eqb a b = true -> a = b)
    (fun a => forall b, pcav_eqb a b = true -> a = b)).
  - intros l [] E; simpl in E; try discriminate. f_equal.
    apply (list_eqb_sound N.eqb); [|assumption]. intros x _ y Hxy. apply N.eqb_eq. assumption.
  - intros i [] E; simpl in E; try discriminate. apply N.eqb_eq in E. subst. reflexivity.
  - intros i [] E; simpl in E; try discriminate. apply N.eqb_eq in E. subst. reflexivity.
  - intros k IHk m IHm [] E; simpl in E; try discriminate.
    apply andb_true_iff in E. destruct E as [E1 E2].
    apply IHk in E1. apply IHm in E2. subst. reflexivity.
  - intros t IHt [] E; simpl in E; try discriminate. apply IHt in E. subst. reflexivity.
  - intros t IHt [] E; simpl in E; try discriminate. apply IHt in E. subst. reflexivity.
  - intros t IHt [] E; simpl in E; try discriminate. apply IHt in E. subst. reflexivity.
  - intros k IHk r p IHp [] E; simpl in E; try discriminate.
    apply andb_true_iff in E. destruct E as [E E3].
    apply andb_true_iff in E. destruct E as [E1 E2].
    apply IHk in E1. apply N.eqb_eq in E2. apply IHp in E3. subst. reflexivity.
  - intros d IHd c [] E; simpl in E; try discriminate.
    apply andb_true_iff in E. destruct E as [E1 E2].
    apply IHd in E1. subst. f_equal.
    apply (list_eqb_sound dcav_eqb); [|assumption]. intros x _ y. apply dcav_eqb_sound.
  - intros kid IHk rnd IHr p v [] E; simpl in E; try discriminate.
    apply andb_true_iff in E. destruct E as [E E4].
    apply andb_true_iff in E. destruct E as [E E3].
    apply andb_true_iff in E. destruct E as [E1 E2].
    apply IHk in E1. apply IHr in E2. apply eqb_prop in E3. apply N.eqb_eq in E4.
    subst. reflexivity.
  - intros c IHc [] E; simpl in E; try discriminate. apply IHc in E. subst. reflexivity.
  - intros d [] E; simpl in E; try discriminate. apply dcav_eqb_sound in E. subst. reflexivity.
  - intros l vk IHv tk IHt [] E; simpl in E; try discriminate.
    apply andb_true_iff in E. destruct E as [E E3].
    apply andb_true_iff in E. destruct E as [E1 E2].
    apply N.eqb_eq in E1. apply IHv in E2. apply IHt in E3. subst. reflexivity.
  - intros t IHt [] E; simpl in E; try discriminate. apply IHt in E. subst. reflexivity.
Qed.

(* ------------------------------------------------------------------ *)
(* what [verify] establishes about the tail *)

Lemma walk_mac p ta pb hc : forall cs w w',
  walk p ta pb hc cs w = Some w' -> w_mac w' = chain_from (w_mac w) cs.
Proof.
  induction cs as [|c r IH]; intros w w' E.
  - simpl in E. inversion E. reflexivity.
  - assert (Hstep : forall ret pend,
      walk p ta pb hc r (mkW (TMac (w_mac w) (MCav c)) ret pend
                             (w_bids w ++ [THash (TMac (w_mac w) (MCav c))])) = Some w' ->
      w_mac w' = chain_from (w_mac w) (c :: r)).
    { intros ret pend E'. apply IH in E'. exact E'. }
    simpl in E. destruct c as [d | loc vk tk | b].
    + destruct (d_att d && negb p); [discriminate|].
      destruct (d_wrap d); [discriminate|].
      destruct (negb (d_att d) || ta); eapply Hstep; exact E.
    + destruct (hc tk); [|discriminate].
      destruct (unseal (w_mac w) vk); [|discriminate]. eapply Hstep; exact E.
    + destruct (existsb (has_prefix_bid b) pb); [|discriminate]. eapply Hstep; exact E.
Qed.

Lemma verify_tail k t ds tr S :
  verify k t ds tr = Some S ->
  t_tail t = fin_if (n_proof (t_nonce t)) (chain k (t_nonce t) (t_cavs t)).
Proof.
  unfold verify. intros E.
  destruct (n_proof (t_nonce t) && t_newproof t); [discriminate|].
  destruct (walk _ _ _ _ _ _) as [w|] eqn:Ew; [|discriminate].
  destruct (discharge_all _ _ _ _); [|discriminate].
  destruct (term_eqb _ _) eqn:Eq; [|discriminate].
  apply term_eqb_sound in Eq. apply walk_mac in Ew. rewrite Ew in Eq.
  symmetry. exact Eq.
Qed.

Lemma verify_flat_tail k t pb ta S :
  verify_flat k t pb ta = Some S ->
  t_tail t = fin_if (n_proof (t_nonce t)) (chain k (t_nonce t) (t_cavs t)).
Proof.
  unfold verify_flat. intros E.
  destruct (n_proof (t_nonce t) && t_newproof t); [discriminate|].
  destruct (walk _ _ _ _ _ _) as [w|] eqn:Ew; [|discriminate].
  destruct (term_eqb _ _) eqn:Eq; [|discriminate].
  apply term_eqb_sound in Eq. apply walk_mac in Ew. rewrite Ew in Eq.
  symmetry. exact Eq.
Qed.

(* independently minted tokens never share a nonce: the nonce carries the random part *)
Lemma mint_fresh_nonce k kid loc p v rnd k' kid' loc' p' v' rnd' :
  rnd <> rnd' ->
  mnonce (t_nonce (mint k kid loc p v rnd)) <> mnonce (t_nonce (mint k' kid' loc' p' v' rnd')).
Proof. intros Hne E. unfold mint, mnonce in E. simpl in E. inversion E. contradiction. Qed.

Corollary mint_fresh_chain k kid loc p v rnd k' kid' loc' p' v' rnd' cs cs' :
  rnd <> rnd' ->
  chain k (t_nonce (mint k kid loc p v rnd)) cs <> chain k' (t_nonce (mint k' kid' loc' p' v' rnd')) cs'.
Proof.
  intros Hne E. apply chain_inj in E. destruct E as (_ & E & _).
  revert E. apply mint_fresh_nonce. assumption.
Qed.

(* ------------------------------------------------------------------ *)
(* the attacker *)

Definition pcav_terms (c : pcav) : list term :=
  match c with PData _ => [] | P3P _ vk tk => [vk; tk] | PBind t => [t] end.
Definition msg_terms (m : msg) : list term :=
  match m with MNonce k r _ _ => [k; r] | MCav c => pcav_terms c end.

(* terms of a token that are visible on the wire *)
Definition exposed (t : token) : list term :=
  n_kid (t_nonce t) :: n_rnd (t_nonce t) :: t_tail t :: flat_map pcav_terms (t_cavs t).

(* extractable positions: through seal plaintexts and ticket keys *)
Inductive ext : term -> term -> Prop :=
| ext_refl t : ext t t
| ext_seal s k r pt : ext s pt -> ext s (TSeal k r pt)
| ext_tick s dk cs : ext s dk -> ext s (TTicket dk cs).

Section Attacker.
  Variable K : term -> Prop.   (* initial knowledge *)

  Inductive knows : term -> Prop :=
  | k_in t : K t -> knows t
  | k_lit b : knows (TLit b)
  | k_mac k m : knows k -> Forall knows (msg_terms m) -> knows (TMac k m)
  | k_fin t : knows t -> knows (TFin t)
  | k_hash t : knows t -> knows (THash t)
  | k_pre t : knows t -> knows (TPre16 t)
  | k_seal k r pt : knows k -> knows pt -> knows (TSeal k r pt)
  | k_ticket dk cs : knows dk -> knows (TTicket dk cs)
  | k_unseal k r pt : knows (TSeal k r pt) -> knows k -> knows pt
  | k_untick dk cs : knows (TTicket dk cs) -> knows dk.

  Variable k0 : N.                                (* the issuer key is [TKey k0] *)
  Variable HeldU : nonce -> list pcav -> Prop.    (* held tokens whose tail is the plain chain value *)
  Variable HeldF : nonce -> list pcav -> Prop.    (* held finalised proofs: tail = TFin (chain ..) *)

  Definition GoodU (n : nonce) (cs : list pcav) : Prop :=
    exists cs' e, HeldU n cs' /\ cs = cs' ++ e.

  Definition I (t : term) : Prop :=
    forall s, ext s t ->
      s <> TKey k0 /\
      (forall n cs, s = chain (TKey k0) n cs -> GoodU n cs) /\
      (forall n cs, s = TFin (chain (TKey k0) n cs) -> GoodU n cs \/ HeldF n cs).

  Hypothesis K_ok : forall t, K t -> I t.

  Lemma GoodU_held n cs : HeldU n cs -> GoodU n cs.
  Proof. intros H. exists cs, []. split; [assumption | symmetry; apply app_nil_r]. Qed.

  Lemma GoodU_snoc n cs c : GoodU n cs -> GoodU n (cs ++ [c]).
  Proof.
    intros (cs' & e & Hh & ->). exists cs', (e ++ [c]). split; [assumption | apply app_assoc_reverse].
  Qed.

  Lemma GoodU_app n cs e : GoodU n cs -> GoodU n (cs ++ e).
  Proof.
    intros (cs' & e' & Hh & ->). exists cs', (e' ++ e). split; [assumption | apply app_assoc_reverse].
  Qed.

  (* a term whose only extractable position is itself *)
  Lemma I_self_only t :
    (forall s, ext s t -> s = t) ->
    t <> TKey k0 ->
    (forall n cs, t = chain (TKey k0) n cs -> GoodU n cs) ->
    (forall n cs, t = TFin (chain (TKey k0) n cs) -> GoodU n cs \/ HeldF n cs) ->
    I t.
  Proof. intros Hs H1 H2 H3 s Hx. apply Hs in Hx. subst. repeat split; assumption. Qed.

  (* a term that is opaque and neither a key, a MAC nor a TFin *)
  Lemma I_atom t :
    (forall s, ext s t -> s = t) ->
    (forall i, t <> TKey i) -> (forall a m, t <> TMac a m) -> (forall u, t <> TFin u) -> I t.
  Proof.
    intros Hs Hk Hm Hf. apply I_self_only.
    - assumption.
    - apply Hk.
    - intros n cs E. destruct (chain_is_mac (TKey k0) n cs) as (a & m & E'). rewrite E' in E.
      exfalso. exact (Hm _ _ E).
    - intros n cs E. exfalso. exact (Hf _ E).
  Qed.

  Lemma I_lit b : I (TLit b).
  Proof. apply I_atom; [intros s Hx; inversion Hx; reflexivity | discriminate ..]. Qed.

  Lemma I_fresh j : I (TFresh j).
  Proof. apply I_atom; [intros s Hx; inversion Hx; reflexivity | discriminate ..]. Qed.

  Lemma I_hash t : I (THash t).
  Proof. apply I_atom; [intros s Hx; inversion Hx; reflexivity | discriminate ..]. Qed.

  Lemma I_pre t : I (TPre16 t).
  Proof. apply I_atom; [intros s Hx; inversion Hx; reflexivity | discriminate ..]. Qed.

  Lemma I_key k : k <> k0 -> I (TKey k).
  Proof.
    intros Hne. apply I_self_only.
    - intros s Hx; inversion Hx; reflexivity.
    - intros E. inversion E. contradiction.
    - intros n cs E. symmetry in E. exfalso. exact (chain_not_key _ _ _ _ E).
    - discriminate.
  Qed.

  (* the outermost position of a seal / ticket is harmless *)
  Lemma I_seal k r pt : I pt -> I (TSeal k r pt).
  Proof.
    intros Hpt s Hx. inversion Hx; subst.
    - split; [discriminate|]. split.
      + intros n cs E. symmetry in E. destruct (chain_is_mac (TKey k0) n cs) as (a & m & E').
        rewrite E' in E. discriminate.
      + discriminate.
    - apply Hpt. assumption.
  Qed.

  Lemma I_ticket dk cs : I dk -> I (TTicket dk cs).
  Proof.
    intros Hdk s Hx. inversion Hx; subst.
    - split; [discriminate|]. split.
      + intros n cs' E. symmetry in E. destruct (chain_is_mac (TKey k0) n cs') as (a & m & E').
        rewrite E' in E. discriminate.
      + discriminate.
    - apply Hdk. assumption.
  Qed.

  (* MAC and TFin steps of the attacker preserve the invariant *)
  Lemma I_mac a m : I a -> I (TMac a m).
  Proof.
    intros Ha. apply I_self_only.
    - intros s Hx; inversion Hx; reflexivity.
    - discriminate.
    - intros n cs E. apply mac_eq_chain in E.
      destruct E as [(_ & -> & _) | (cs' & c & -> & -> & _)].
      + exfalso. destruct (Ha (TKey k0) (ext_refl _)) as [Hne _]. apply Hne; reflexivity.
      + apply GoodU_snoc. destruct (Ha _ (ext_refl _)) as (_ & Hg & _). apply (Hg n cs' eq_refl).
    - discriminate.
  Qed.

  Lemma I_fin t : I t -> I (TFin t).
  Proof.
    intros Ht. apply I_self_only.
    - intros s Hx; inversion Hx; reflexivity.
    - discriminate.
    - intros n cs E. symmetry in E. exfalso. exact (chain_not_fin _ _ _ _ E).
    - intros n cs E. inversion E; subst. left.
      destruct (Ht _ (ext_refl _)) as (_ & Hg & _). apply (Hg n cs eq_refl).
  Qed.

  Theorem knows_I t : knows t -> I t.
  Proof.
    induction 1 as [t Ht | b | k m Hk IHk Hm | t Ht IH | t Ht IH | t Ht IH
                    | k r pt Hk IHk Hpt IHpt | dk cs Hdk IHdk | k r pt Hs IHs Hk IHk | dk cs Ht IHt].
    - apply K_ok; assumption.
    - apply I_lit.
    - apply I_mac; assumption.
    - apply I_fin; assumption.
    - apply I_hash.
    - apply I_pre.
    - apply I_seal; assumption.
    - apply I_ticket; assumption.
    - intros s Hx. apply IHs. apply ext_seal; assumption.
    - intros s Hx. apply IHt. apply ext_tick; assumption.
  Qed.

  Corollary chain_secrecy n cs : knows (chain (TKey k0) n cs) -> GoodU n cs.
  Proof. intros H. destruct (knows_I _ H _ (ext_refl _)) as (_ & Hg & _). apply Hg; reflexivity. Qed.

  Corollary fin_chain_secrecy n cs :
    knows (TFin (chain (TKey k0) n cs)) -> GoodU n cs \/ HeldF n cs.
  Proof. intros H. destruct (knows_I _ H _ (ext_refl _)) as (_ & _ & Hf). apply Hf; reflexivity. Qed.

  Corollary key_secrecy : ~ knows (TKey k0).
  Proof. intros H. destruct (knows_I _ H _ (ext_refl _)) as [Hne _]. apply Hne; reflexivity. Qed.

  (* ---------------------------------------------------------------- *)
  (* honest knowledge satisfies the invariant *)

  (* Tails of tokens rooted at any other key.  The task's side condition
     [forall s, ext s k -> s = k] is not needed: a chain value is a MAC, whose only
     extractable position is itself, and [chain_inj] identifies the root key. *)
  Lemma I_rooted_elsewhere k n cs b : k <> TKey k0 -> I (fin_if b (chain k n cs)).
  Proof.
    intros Hne. destruct (chain_is_mac k n cs) as (a & m & Em).
    destruct b; simpl.
    - apply I_self_only.
      + intros s Hx; inversion Hx; reflexivity.
      + discriminate.
      + intros n' cs' E. symmetry in E. exfalso. exact (chain_not_fin _ _ _ _ E).
      + intros n' cs' E. inversion E as [E']. apply chain_inj in E'. destruct E' as (E' & _).
        contradiction.
    - apply I_self_only.
      + rewrite Em. intros s Hx; inversion Hx; reflexivity.
      + apply chain_not_key.
      + intros n' cs' E. apply chain_inj in E. destruct E as (E & _). contradiction.
      + intros n' cs' E. exfalso. exact (chain_not_fin _ _ _ _ E).
  Qed.

  (* the statement exactly as in the task description (weaker) *)
  Corollary I_rooted_elsewhere' k n cs b :
    k <> TKey k0 -> (forall s, ext s k -> s = k) -> I (fin_if b (chain k n cs)).
  Proof. intros Hne _. apply I_rooted_elsewhere. assumption. Qed.

  (* tails of held tokens *)
  Lemma I_heldU n cs : HeldU n cs -> I (chain (TKey k0) n cs).
  Proof.
    intros Hh. destruct (chain_is_mac (TKey k0) n cs) as (a & m & Em). apply I_self_only.
    - rewrite Em. intros s Hx; inversion Hx; reflexivity.
    - apply chain_not_key.
    - intros n' cs' E. apply chain_inj_strong in E. destruct E as (_ & <- & <-).
      apply GoodU_held. assumption.
    - intros n' cs' E. exfalso. exact (chain_not_fin _ _ _ _ E).
  Qed.

  Lemma I_heldF n cs : HeldF n cs -> I (TFin (chain (TKey k0) n cs)).
  Proof.
    intros Hh. apply I_self_only.
    - intros s Hx; inversion Hx; reflexivity.
    - discriminate.
    - intros n' cs' E. symmetry in E. exfalso. exact (chain_not_fin _ _ _ _ E).
    - intros n' cs' E. inversion E as [E']. apply chain_inj_strong in E'. destruct E' as (_ & <- & <-).
      right. assumption.
  Qed.

  (* caveats an honest party adds: data; third-party caveats whose verifier key seals a
     harmless discharge key [rn] (under any key [kk], in practice the current tail) and
     whose ticket seals [TTicket rn tc]; binding caveats with a harmless binding id *)
  Definition honest_cav (c : pcav) : Prop :=
    match c with
    | PData _ => True
    | P3P _ vk tk =>
        exists kk r rn ka r' tc,
          vk = TSeal kk r rn /\ tk = TSeal ka r' (TTicket rn tc) /\ I rn
    | PBind b => I b
    end.

  Lemma honest_cav_terms c : honest_cav c -> forall x, In x (pcav_terms c) -> I x.
  Proof.
    destruct c as [d | loc vk tk | b]; simpl; intros Hc x Hx.
    - contradiction.
    - destruct Hc as (kk & r & rn & ka & r' & tc & -> & -> & Hrn).
      destruct Hx as [<- | [<- | []]].
      + apply I_seal. assumption.
      + apply I_seal. apply I_ticket. assumption.
    - destruct Hx as [<- | []]. assumption.
  Qed.

  Lemma honest_cavs_terms cs :
    Forall honest_cav cs -> forall x, In x (flat_map pcav_terms cs) -> I x.
  Proof.
    intros Hall x Hx. apply in_flat_map in Hx. destruct Hx as (c & Hc & Hx).
    rewrite Forall_forall in Hall. apply (honest_cav_terms c); [apply Hall|]; assumption.
  Qed.

  Theorem honest_token_ok t n cs :
    t_nonce t = n -> t_cavs t = cs -> I (n_kid n) -> I (n_rnd n) -> Forall honest_cav cs ->
    (t_tail t = chain (TKey k0) n cs /\ HeldU n cs) \/
    (t_tail t = TFin (chain (TKey k0) n cs) /\ HeldF n cs) ->
    forall x, In x (exposed t) -> I x.
  Proof.
    intros Hn Hcs Hkid Hrnd Hall Htail x Hx. unfold exposed in Hx. rewrite Hn, Hcs in Hx.
    destruct Hx as [<- | [<- | [<- | Hx]]].
    - assumption.
    - assumption.
    - destruct Htail as [[-> Hh] | [-> Hh]]; [apply I_heldU | apply I_heldF]; assumption.
    - apply (honest_cavs_terms cs); assumption.
  Qed.

  (* exposed terms of a token rooted at another key (a third-party discharge, or a token the
     attacker minted itself) are harmless as well *)
  Lemma other_token_ok t k :
    k <> TKey k0 ->
    t_tail t = fin_if (n_proof (t_nonce t)) (chain k (t_nonce t) (t_cavs t)) \/
    t_tail t = chain k (t_nonce t) (t_cavs t) ->
    I (n_kid (t_nonce t)) -> I (n_rnd (t_nonce t)) -> Forall honest_cav (t_cavs t) ->
    forall x, In x (exposed t) -> I x.
  Proof.
    intros Hne Htail Hkid Hrnd Hall x Hx. unfold exposed in Hx.
    destruct Hx as [<- | [<- | [<- | Hx]]].
    - assumption.
    - assumption.
    - destruct Htail as [-> | ->].
      + apply I_rooted_elsewhere. assumption.
      + apply (I_rooted_elsewhere k _ _ false). assumption.
    - apply (honest_cavs_terms (t_cavs t)); assumption.
  Qed.

  (* ---------------------------------------------------------------- *)
  (* no forgery *)

  Theorem no_forgery tok ds tr S :
    knows (t_tail tok) -> verify (TKey k0) tok ds tr = Some S ->
    (n_proof (t_nonce tok) = false ->
       exists cs' e, HeldU (t_nonce tok) cs' /\ t_cavs tok = cs' ++ e) /\
    (n_proof (t_nonce tok) = true ->
       (exists cs' e, HeldU (t_nonce tok) cs' /\ t_cavs tok = cs' ++ e) \/
       HeldF (t_nonce tok) (t_cavs tok)).
  Proof.
    intros Hk Hv. apply verify_tail in Hv. rewrite Hv in Hk. split; intros Hp; rewrite Hp in Hk; simpl in Hk.
    - apply chain_secrecy. assumption.
    - apply fin_chain_secrecy. assumption.
  Qed.

  (* the same for a discharge-style verification under the issuer key *)
  Theorem no_forgery_flat tok pb ta S :
    knows (t_tail tok) -> verify_flat (TKey k0) tok pb ta = Some S ->
    (n_proof (t_nonce tok) = false -> GoodU (t_nonce tok) (t_cavs tok)) /\
    (n_proof (t_nonce tok) = true ->
       GoodU (t_nonce tok) (t_cavs tok) \/ HeldF (t_nonce tok) (t_cavs tok)).
  Proof.
    intros Hk Hv. apply verify_flat_tail in Hv. rewrite Hv in Hk. split; intros Hp; rewrite Hp in Hk; simpl in Hk.
    - apply chain_secrecy. assumption.
    - apply fin_chain_secrecy. assumption.
  Qed.
End Attacker.

(* ------------------------------------------------------------------ *)
(* non-vacuity: the hypotheses of [no_forgery] are satisfiable, with a token that carries a
   data caveat and a third-party caveat, presented with its bound discharge *)

Module Example.
  Definition k0 : N := 0.
  Definition ka : term := TKey 1.                       (* the third party's key *)
  Definition rn : term := TFresh 1.                     (* discharge key *)
  Definition ticket : term := TSeal ka 3 (TTicket rn [mkD 8 false false]).

  Definition tok0 : token := mint (TKey k0) (TLit [1]) 7 false 1 (TFresh 0).
  Definition tok : token :=
    fst (add tok0 [AData (mkD 5 false false); A3P 9 rn 2 ticket]).

  (* the third party's discharge, bound to [tok] *)
  Definition dis : token :=
    match discharge_ticket ka 9 ticket false (TFresh 2) with
    | Some (_, d) => fst (add d [bind_cav tok])
    | None => tok0
    end.

  Definition HeldU (n : nonce) (cs : list pcav) : Prop := n = t_nonce tok /\ cs = t_cavs tok.
  Definition HeldF (n : nonce) (cs : list pcav) : Prop := False.
  Definition K (x : term) : Prop := In x (exposed tok) \/ In x (exposed dis).

  Lemma tok_cavs_honest : Forall (honest_cav k0 HeldU HeldF) (t_cavs tok).
  Proof.
    unfold tok; simpl. constructor; [exact Logic.I|]. constructor; [|constructor]. simpl.
    eexists _, _, rn, ka, _, _. split; [reflexivity|]. split; [reflexivity|]. apply I_fresh.
  Qed.

  Lemma K_ok : forall x, K x -> I k0 HeldU HeldF x.
  Proof.
    intros x [Hx | Hx].
    - revert x Hx.
      apply (honest_token_ok k0 HeldU HeldF tok (t_nonce tok) (t_cavs tok) eq_refl eq_refl).
      + apply I_lit.
      + apply I_fresh.
      + apply tok_cavs_honest.
      + left. split; [reflexivity | split; reflexivity].
    - revert x Hx. apply (other_token_ok k0 HeldU HeldF dis rn).
      + discriminate.
      + left. reflexivity.
      + apply I_seal. apply I_ticket. apply I_fresh.
      + apply I_fresh.
      + unfold dis; simpl. constructor; [|constructor]. simpl. apply I_pre.
  Qed.

  Lemma knows_tail : knows K (t_tail tok).
  Proof. apply k_in. left. unfold exposed. right. right. left. reflexivity. Qed.

  Lemma verify_ok : verify (TKey k0) tok [dis] [] = Some [mkD 5 false false].
  Proof. vm_compute. reflexivity. Qed.

  (* the conclusion of [no_forgery] for this instance *)
  Example no_forgery_instance :
    exists cs' e, HeldU (t_nonce tok) cs' /\ t_cavs tok = cs' ++ e.
  Proof.
    exact (proj1 (no_forgery K k0 HeldU HeldF K_ok tok [dis] [] _ knows_tail verify_ok) eq_refl).
  Qed.

  (* and the attacker really cannot do better here: it does not know the issuer key, nor the
     tail of the token with the last caveat removed *)
  Example key_unknown : ~ knows K (TKey k0).
  Proof. exact (key_secrecy K k0 HeldU HeldF K_ok). Qed.

  Example cannot_strip :
    ~ knows K (chain (TKey k0) (t_nonce tok) [PData (mkD 5 false false)]).
  Proof.
    intros H. apply (chain_secrecy K k0 HeldU HeldF K_ok) in H.
    destruct H as (cs' & e & [_ ->] & E).
    apply (f_equal (@List.length pcav)) in E. rewrite app_length in E. simpl in E. lia.
  Qed.
End Example.

Print Assumptions knows_I.
Print Assumptions chain_secrecy.
Print Assumptions fin_chain_secrecy.
Print Assumptions key_secrecy.
Print Assumptions honest_token_ok.
Print Assumptions no_forgery.
Print Assumptions term_eqb_sound.
Print Assumptions Example.no_forgery_instance.
Print Assumptions Example.cannot_strip.
