(* C15: the lock discipline of Bundle (flat lock programs over Go's writer-preferring
   RWMutex) is safe: mutual exclusion, race freedom, atomic write sections, deadlock
   freedom, termination; and the legacy nested RLock deadlocks. *)
From Coq Require Import List Bool Arith Lia.
From Mac Require Import Model.RWLock.
Import ListNotations.

(* ------------------------------------------------------------------ *)
(* flat programs                                                       *)

Lemma flat_in_cases m p : flat_in m p = true ->
  (exists p', p = Rd :: p' /\ flat_in m p' = true) \/
  (exists p', p = Wr :: p' /\ m = W /\ flat_in W p' = true) \/
  (exists p', p = Rel m :: p' /\ flat_out p' = true).
Proof.
  destruct p as [|i p]; simpl; [discriminate|].
  destruct i as [m'|m'| |]; try discriminate.
  - destruct m, m'; try discriminate; intros Hf; right; right; eexists; split; eauto.
  - intros Hf; left; eexists; split; eauto.
  - destruct m; [discriminate|]. intros Hf; right; left; eexists; repeat split; eauto.
Qed.

Lemma flat_out_cases p : flat_out p = true ->
  p = [] \/ exists m p', p = Acq m :: p' /\ flat_in m p' = true.
Proof.
  destruct p as [|i p]; simpl; [left; reflexivity|].
  destruct i as [m'|m'| |]; try discriminate.
  intros Hf. right. exists m', p. split; [reflexivity|assumption].
Qed.

Lemma flat_app_both q : flat_out q = true -> forall p,
  (flat_out p = true -> flat_out (p ++ q) = true) /\
  (forall m, flat_in m p = true -> flat_in m (p ++ q) = true).
Proof.
  intros Hq p. induction p as [|i p [IHo IHi]].
  - split; [intros _; exact Hq|]. intros m Hm. simpl in Hm. discriminate.
  - split.
    + destruct i as [m'|m'| |]; simpl; try discriminate. apply IHi.
    + intros m. destruct i as [m'|m'| |]; simpl; try discriminate.
      * destruct m, m'; try discriminate; apply IHo.
      * apply IHi.
      * destruct m; [discriminate|]. apply IHi.
Qed.

(* a thread may call any sequence of (flat) methods *)
Lemma flat_out_app p q : flat_out p = true -> flat_out q = true -> flat_out (p ++ q) = true.
Proof. intros Hp Hq. apply (flat_app_both q Hq p). exact Hp. Qed.

Lemma flat_in_app m p q : flat_in m p = true -> flat_out q = true -> flat_in m (p ++ q) = true.
Proof. intros Hp Hq. apply (flat_app_both q Hq p). exact Hp. Qed.

Lemma flat_out_concat ps : Forall (fun p => flat_out p = true) ps -> flat_out (List.concat ps) = true.
Proof.
  induction 1 as [|p ps Hp _ IH]; [reflexivity|]. simpl. apply flat_out_app; assumption.
Qed.

(* ------------------------------------------------------------------ *)
(* well-formed thread states                                           *)

Definition twf (t : thread) : Prop :=
  match held t with
  | [] => flat_out (rest t) = true
  | [m] => pend t = false /\ flat_in m (rest t) = true
  | _ => False
  end /\ (pend t = true -> exists p, rest t = Acq W :: p).

Definition swf (s : sys) : Prop := forall t, In t s -> twf t.

Lemma twf_cases t : twf t ->
  (held t = [] /\ flat_out (rest t) = true) \/
  (exists m, held t = [m] /\ pend t = false /\ flat_in m (rest t) = true).
Proof.
  unfold twf. intros [Hh _]. destruct (held t) as [|m [|m2 h]]; [left; auto| |contradiction].
  right. exists m. destruct Hh as [Hp Hf]. auto.
Qed.

(* what twf says depending on the next instruction *)
Lemma twf_acq t m p : twf t -> rest t = Acq m :: p -> held t = [] /\ flat_in m p = true.
Proof.
  intros Hw E. destruct (twf_cases t Hw) as [[Hh Hf]|(m' & Hh & _ & Hf)]; rewrite E in Hf.
  - split; [assumption|exact Hf].
  - simpl in Hf. discriminate.
Qed.

Lemma twf_rel t m p : twf t -> rest t = Rel m :: p -> held t = [m] /\ flat_out p = true.
Proof.
  intros Hw E. destruct (twf_cases t Hw) as [[Hh Hf]|(m' & Hh & _ & Hf)]; rewrite E in Hf.
  - simpl in Hf. discriminate.
  - simpl in Hf. destruct m', m; try discriminate; split; assumption.
Qed.

Lemma twf_rd t p : twf t -> rest t = Rd :: p -> exists m, held t = [m] /\ flat_in m p = true.
Proof.
  intros Hw E. destruct (twf_cases t Hw) as [[Hh Hf]|(m' & Hh & _ & Hf)]; rewrite E in Hf.
  - simpl in Hf. discriminate.
  - exists m'. split; [assumption|exact Hf].
Qed.

Lemma twf_wr t p : twf t -> rest t = Wr :: p -> held t = [W] /\ flat_in W p = true.
Proof.
  intros Hw E. destruct (twf_cases t Hw) as [[Hh Hf]|(m' & Hh & _ & Hf)]; rewrite E in Hf.
  - simpl in Hf. discriminate.
  - simpl in Hf. destruct m'; [discriminate|]. split; assumption.
Qed.

Lemma twf_mk_nil b p : flat_out p = true -> (b = true -> exists q, p = Acq W :: q) ->
  twf (mkThread [] b p).
Proof. intros Hf Hb. split; assumption. Qed.

Lemma twf_mk_one m p : flat_in m p = true -> twf (mkThread [m] false p).
Proof. intros Hf. split; simpl; [split; [reflexivity|assumption]|discriminate]. Qed.

Lemma init_wf ps : Forall (fun p => flat_out p = true) ps -> forall t, In t (init_sys ps) -> twf t.
Proof.
  intros Hall t Hin. unfold init_sys in Hin. apply in_map_iff in Hin.
  destruct Hin as (p & <- & Hp). rewrite Forall_forall in Hall.
  apply twf_mk_nil; [apply Hall; assumption|discriminate].
Qed.

Lemma tstep_wf s t t' : twf t -> tstep s t t' -> twf t'.
Proof.
  intros Hw Ht. destruct Ht as [t p E Hp HW HP|t p E Hp HP HW|t p E Hp HR HW|t m h p E Eh Hp|t p E Hp|t p E Hp].
  - destruct (twf_acq _ _ _ Hw E) as [Hh Hf]. rewrite Hh. apply twf_mk_one; assumption.
  - destruct (twf_acq _ _ _ Hw E) as [Hh Hf]. rewrite Hh.
    apply twf_mk_nil; [exact Hf|]. intros _. eexists; reflexivity.
  - destruct (twf_acq _ _ _ Hw E) as [Hh Hf]. rewrite Hh. apply twf_mk_one; assumption.
  - destruct (twf_rel _ _ _ Hw E) as [Hh Hf]. rewrite Hh in Eh. inversion Eh; subst.
    apply twf_mk_nil; [assumption|discriminate].
  - destruct (twf_rd _ _ Hw E) as (m & Hh & Hf). rewrite Hh. apply twf_mk_one; assumption.
  - destruct (twf_wr _ _ Hw E) as (Hh & Hf). rewrite Hh. apply twf_mk_one; assumption.
Qed.

Lemma step_wf s s' : (forall t, In t s -> twf t) -> step s s' -> (forall t, In t s' -> twf t).
Proof.
  intros Hwf Hs. destruct Hs as [pre t t' post Ht]. intros u Hin.
  apply in_app_or in Hin. destruct Hin as [Hin|[<-|Hin]].
  - apply Hwf. apply in_or_app. left; assumption.
  - eapply tstep_wf; [|exact Ht]. apply Hwf. apply in_or_app. right; left; reflexivity.
  - apply Hwf. apply in_or_app. right; right; assumption.
Qed.

(* ------------------------------------------------------------------ *)
(* counting                                                            *)

Definition cnt (f : thread -> bool) (s : sys) : nat := List.length (filter f s).
Definition b2n (b : bool) : nat := if b then 1 else 0.

Lemma cnt_nil f : cnt f [] = 0.
Proof. reflexivity. Qed.

Lemma cnt_cons f t s : cnt f (t :: s) = b2n (f t) + cnt f s.
Proof. unfold cnt. simpl. destruct (f t); reflexivity. Qed.

Lemma cnt_app f a b : cnt f (a ++ b) = cnt f a + cnt f b.
Proof.
  induction a as [|t a IH]; [reflexivity|].
  rewrite <- app_comm_cons, !cnt_cons, IH. lia.
Qed.

Lemma cnt_split f pre t post : cnt f (pre ++ t :: post) = cnt f pre + b2n (f t) + cnt f post.
Proof. rewrite cnt_app, cnt_cons. lia. Qed.

Lemma existsb_false_cnt f s : existsb f s = false <-> cnt f s = 0.
Proof.
  induction s as [|t s IH]; [split; reflexivity|].
  rewrite cnt_cons. cbn [existsb]. destruct (f t); cbn [orb b2n].
  - split; [discriminate|lia].
  - rewrite IH. lia.
Qed.

Lemma existsb_true_cnt f s : existsb f s = true <-> 1 <= cnt f s.
Proof.
  destruct (existsb f s) eqn:E.
  - split; [intros _|reflexivity]. destruct (cnt f s) eqn:Ec; [|lia].
    apply existsb_false_cnt in Ec. congruence.
  - apply existsb_false_cnt in E. split; [discriminate|lia].
Qed.

Lemma cnt_in f s u : In u s -> f u = true -> 1 <= cnt f s.
Proof.
  intros Hin Hf. apply existsb_true_cnt. apply existsb_exists. exists u. split; assumption.
Qed.

Lemma cnt_zero_in f s : cnt f s = 0 -> forall u, In u s -> f u = false.
Proof.
  intros Hc u Hin. destruct (f u) eqn:E; [|reflexivity].
  pose proof (cnt_in f s u Hin E). lia.
Qed.

Lemma cnt_le f g s : (forall t, In t s -> f t = true -> g t = true) -> cnt f s <= cnt g s.
Proof.
  induction s as [|t s IH]; intros Himp; [apply Nat.le_refl|].
  rewrite !cnt_cons.
  assert (Hs : cnt f s <= cnt g s) by (apply IH; intros u Hu; apply Himp; right; assumption).
  assert (Ht : b2n (f t) <= b2n (g t)).
  { destruct (f t) eqn:E; [|simpl; lia]. rewrite (Himp t (or_introl eq_refl) E). apply Nat.le_refl. }
  lia.
Qed.

(* ------------------------------------------------------------------ *)
(* the lock invariant                                                  *)

(* the thread holds some lock *)
Definition holds (t : thread) : bool := match held t with [] => false | _ => true end.

(* at most one W holder; a W holder is the only thread holding anything *)
Definition linv (s : sys) : Prop :=
  List.length (filter holdsW s) <= 1 /\
  (anyW s = true -> List.length (filter holds s) = 1).

Lemma linv_cnt s : linv s <-> cnt holdsW s <= 1 /\ (1 <= cnt holdsW s -> cnt holds s = 1).
Proof.
  unfold linv, anyW. fold (cnt holdsW s) (cnt holds s). rewrite existsb_true_cnt. reflexivity.
Qed.

Lemma holdsW_holds t : holdsW t = true -> holds t = true.
Proof. unfold holdsW, holds. destruct (held t); [discriminate|reflexivity]. Qed.

Lemma holdsR_holds t : holdsR t = true -> holds t = true.
Proof. unfold holdsR, holds. destruct (held t); [discriminate|reflexivity]. Qed.

Lemma holds_false_nil t : holds t = false <-> held t = [].
Proof. unfold holds. destruct (held t); split; congruence. Qed.

Lemma holds_RW t : twf t -> holds t = orb (holdsR t) (holdsW t).
Proof.
  intros Hw. unfold holds, holdsR, holdsW.
  destruct (twf_cases t Hw) as [[-> _]|(m & -> & _)]; [reflexivity|destruct m; reflexivity].
Qed.

Lemma cnt_holdsW_le s : cnt holdsW s <= cnt holds s.
Proof. apply cnt_le. intros t _. apply holdsW_holds. Qed.

Lemma cnt_holds_zero s : (forall t, In t s -> twf t) ->
  nreaders s = 0 -> anyW s = false -> cnt holds s = 0.
Proof.
  unfold nreaders, anyW. fold (cnt holdsR s). rewrite existsb_false_cnt.
  induction s as [|t s IH]; intros Hwf HR HW; [reflexivity|].
  rewrite cnt_cons in *. rewrite (holds_RW t (Hwf t (or_introl eq_refl))).
  destruct (holdsR t), (holdsW t); simpl in *; try lia.
  apply IH; [intros u Hu; apply Hwf; right; assumption|lia|lia].
Qed.

Lemma init_linv ps : linv (init_sys ps).
Proof.
  apply linv_cnt.
  assert (H0 : cnt holdsW (init_sys ps) = 0).
  { induction ps as [|p ps IH]; [reflexivity|]. simpl. rewrite cnt_cons, IH. reflexivity. }
  lia.
Qed.

(* how a step changes the held locks of the stepping thread *)
Lemma tstep_held s t t' : twf t -> tstep s t t' ->
  held t' = held t \/
  (held t = [] /\ anyW s = false /\ (held t' = [R] \/ (held t' = [W] /\ nreaders s = 0))) \/
  (exists m, held t = [m] /\ held t' = []).
Proof.
  intros Hw Ht. destruct Ht as [t p E Hp HW HP|t p E Hp HP HW|t p E Hp HR HW|t m h p E Eh Hp|t p E Hp|t p E Hp].
  - destruct (twf_acq _ _ _ Hw E) as [Hh _]. right; left. simpl. rewrite Hh. auto.
  - left; reflexivity.
  - destruct (twf_acq _ _ _ Hw E) as [Hh _]. right; left. simpl. rewrite Hh. auto.
  - destruct (twf_rel _ _ _ Hw E) as [Hh _]. right; right. exists m. rewrite Hh in Eh.
    inversion Eh; subst. auto.
  - left; reflexivity.
  - left; reflexivity.
Qed.

Lemma held_flags t h : held t = h ->
  holdsW t = existsb is_W h /\ holds t = match h with [] => false | _ => true end.
Proof. intros <-. split; reflexivity. Qed.

Lemma step_linv s s' : (forall t, In t s -> twf t) -> linv s -> step s s' -> linv s'.
Proof.
  intros Hwf Hl Hs. destruct Hs as [pre t t' post Ht].
  assert (Hwt : twf t) by (apply Hwf; apply in_or_app; right; left; reflexivity).
  apply linv_cnt in Hl. apply linv_cnt. rewrite !cnt_split in *.
  pose proof (cnt_holdsW_le pre) as Lpre. pose proof (cnt_holdsW_le post) as Lpost.
  destruct (tstep_held _ _ _ Hwt Ht) as [Eh|[(Eh & HW & Eh')|(m & Eh & Eh')]].
  - destruct (held_flags t' _ Eh) as [-> ->]. destruct (held_flags t _ eq_refl) as [<- <-].
    exact Hl.
  - unfold anyW in HW. apply existsb_false_cnt in HW. rewrite cnt_split in HW.
    destruct Eh' as [Eh'|[Eh' HR]].
    + destruct (held_flags t' _ Eh') as [-> ->]. simpl. lia.
    + pose proof (cnt_holds_zero _ Hwf HR) as Hz. unfold anyW in Hz.
      rewrite existsb_false_cnt, !cnt_split in Hz. specialize (Hz HW).
      destruct (held_flags t' _ Eh') as [-> ->]. simpl. lia.
  - destruct (held_flags t' _ Eh') as [-> ->]. destruct (held_flags t _ Eh) as [Ew Eho].
    rewrite Ew, Eho in Hl. simpl in *. lia.
Qed.

Lemma steps_inv s s' : steps s s' -> (forall t, In t s -> twf t) /\ linv s ->
  (forall t, In t s' -> twf t) /\ linv s'.
Proof.
  induction 1 as [s|s s1 s2 Hs _ IH]; intros [Hwf Hl]; [split; assumption|].
  apply IH. split; [exact (step_wf _ _ Hwf Hs)|exact (step_linv _ _ Hwf Hl Hs)].
Qed.

Theorem reachable_inv ps s : Forall (fun p => flat_out p = true) ps -> steps (init_sys ps) s ->
  (forall t, In t s -> twf t) /\ linv s.
Proof.
  intros Hall Hst. apply (steps_inv _ _ Hst). split; [apply init_wf; assumption|apply init_linv].
Qed.

(* ------------------------------------------------------------------ *)
(* safety                                                              *)

(* the state-level core: two distinct positions that both hold something hold no W *)
Lemma linv_two_holders pre t post u : linv (pre ++ t :: post) -> In u (pre ++ post) ->
  holds t = true -> holds u = true -> holdsW t = false /\ holdsW u = false.
Proof.
  intros Hl Hin Ht Hu. apply linv_cnt in Hl. rewrite !cnt_split in Hl. rewrite Ht in Hl.
  assert (H1 : 1 <= cnt holds pre + cnt holds post).
  { rewrite <- cnt_app. exact (cnt_in _ _ _ Hin Hu). }
  assert (H2 : b2n (holdsW u) <= cnt holdsW pre + cnt holdsW post).
  { destruct (holdsW u) eqn:E; [|simpl; lia]. rewrite <- cnt_app. exact (cnt_in _ _ _ Hin E). }
  destruct (holdsW t), (holdsW u); simpl in *; try (split; reflexivity); lia.
Qed.

(* a W holder is the only thread that holds any lock *)
Lemma w_holder_alone pre t post : linv (pre ++ t :: post) -> holdsW t = true ->
  forall u, In u (pre ++ post) -> held u = [].
Proof.
  intros Hl Ht u Hin. apply holds_false_nil. destruct (holds u) eqn:E; [|reflexivity].
  destruct (linv_two_holders _ _ _ _ Hl Hin (holdsW_holds _ Ht) E) as [Hc _]. congruence.
Qed.

(* writer exclusion, on states satisfying the lock invariant *)
Lemma writer_exclusion_inv pre t post : linv (pre ++ t :: post) -> holdsW t = true ->
  forall u, In u (pre ++ post) -> holdsW u = false /\ holdsR u = false.
Proof.
  intros Hl Ht u Hin. unfold holdsW, holdsR.
  rewrite (w_holder_alone _ _ _ Hl Ht u Hin). split; reflexivity.
Qed.

(* positions: i <> j in s splits s around i with the j-th element in the remainder *)
Lemma nth_error_split_other (s : sys) : forall i j t u,
  nth_error s i = Some t -> nth_error s j = Some u -> i <> j ->
  exists pre post, s = pre ++ t :: post /\ In u (pre ++ post).
Proof.
  induction s as [|a s IH]; intros i j t u Hi Hj Hne; [destruct i; discriminate|].
  destruct i as [|i]; simpl in Hi.
  - inversion Hi; subst. exists [], s. split; [reflexivity|].
    destruct j as [|j]; [congruence|]. simpl in Hj. simpl. eapply nth_error_In; eassumption.
  - destruct j as [|j]; simpl in Hj.
    + inversion Hj; subst. apply nth_error_split in Hi. destruct Hi as (l1 & l2 & -> & _).
      exists (u :: l1), l2. split; [reflexivity|left; reflexivity].
    + destruct (IH i j t u Hi Hj) as (pre & post & -> & Hin); [congruence|].
      exists (a :: pre), post. split; [reflexivity|right; assumption].
Qed.

(* for every reachable state of flat programs: two distinct positions cannot both hold W,
   and a W holder excludes every R holder (indeed every other holder) *)
Theorem writer_exclusion ps s : Forall (fun p => flat_out p = true) ps -> steps (init_sys ps) s ->
  forall pre t post, s = pre ++ t :: post -> holdsW t = true ->
  forall u, In u (pre ++ post) -> holdsW u = false /\ holdsR u = false.
Proof.
  intros Hall Hst pre t post -> Ht. destruct (reachable_inv _ _ Hall Hst) as [_ Hl].
  exact (writer_exclusion_inv _ _ _ Hl Ht).
Qed.

Theorem writer_exclusion_pos ps s : Forall (fun p => flat_out p = true) ps -> steps (init_sys ps) s ->
  forall i j t u, nth_error s i = Some t -> nth_error s j = Some u -> i <> j ->
  holdsW t = true -> holdsW u = false /\ holdsR u = false.
Proof.
  intros Hall Hst i j t u Hi Hj Hne Ht.
  destruct (nth_error_split_other s i j t u Hi Hj Hne) as (pre & post & E & Hin).
  exact (writer_exclusion ps s Hall Hst pre t post E Ht u Hin).
Qed.

(* accesses happen only under a lock, writes only under W *)
Lemma access_holds t b : twf t -> next_access t = Some b ->
  holds t = true /\ (b = true -> holdsW t = true).
Proof.
  unfold next_access. intros Hw Hn. destruct (rest t) as [|i p] eqn:E; [discriminate|].
  destruct i as [m|m| |]; try discriminate.
  - destruct (twf_rd _ _ Hw E) as (m & Hh & _). inversion Hn; subst.
    destruct (held_flags t _ Hh) as [_ ->]. split; [reflexivity|discriminate].
  - destruct (twf_wr _ _ Hw E) as (Hh & _).
    destruct (held_flags t _ Hh) as [-> ->]. split; reflexivity.
Qed.

Lemma no_lock_no_access t : twf t -> held t = [] -> next_access t = None.
Proof.
  intros Hw Hh. destruct (next_access t) as [b|] eqn:E; [|reflexivity].
  destruct (access_holds t b Hw E) as [Hc _]. apply holds_false_nil in Hh. congruence.
Qed.

Lemma race_free_inv pre t post : (forall u, In u (pre ++ t :: post) -> twf u) ->
  linv (pre ++ t :: post) ->
  (next_access t = Some true -> forall u, In u (pre ++ post) -> next_access u = None) /\
  (next_access t = Some false -> forall u, In u (pre ++ post) -> next_access u <> Some true).
Proof.
  intros Hwf Hl.
  assert (Hwt : twf t) by (apply Hwf; apply in_or_app; right; left; reflexivity).
  assert (Hwu : forall u, In u (pre ++ post) -> twf u).
  { intros u Hin. apply Hwf. apply in_app_or in Hin. apply in_or_app.
    destruct Hin; [left|right; right]; assumption. }
  split; intros Hn u Hin.
  - destruct (access_holds t true Hwt Hn) as [_ HW]. apply no_lock_no_access; [auto|].
    exact (w_holder_alone _ _ _ Hl (HW eq_refl) u Hin).
  - intros Hu. destruct (access_holds t false Hwt Hn) as [Ht _].
    destruct (access_holds u true (Hwu u Hin) Hu) as [Hhu HWu].
    destruct (linv_two_holders _ _ _ _ Hl Hin Ht Hhu) as [_ Hc]. rewrite (HWu eq_refl) in Hc.
    discriminate.
Qed.

(* no data race in any reachable state of flat programs: a thread about to write is the only
   one about to access; a thread about to read excludes threads about to write *)
Theorem race_free ps s : Forall (fun p => flat_out p = true) ps -> steps (init_sys ps) s ->
  forall pre t post, s = pre ++ t :: post ->
  (next_access t = Some true -> forall u, In u (pre ++ post) -> next_access u = None) /\
  (next_access t = Some false -> forall u, In u (pre ++ post) -> next_access u <> Some true).
Proof.
  intros Hall Hst pre t post ->. destruct (reachable_inv _ _ Hall Hst) as [Hwf Hl].
  exact (race_free_inv _ _ _ Hwf Hl).
Qed.

(* while some thread holds W, the only thread that can take a step at all (in particular
   any Rd / Wr / Rel step) is that W holder, and no other thread holds a lock *)
Lemma w_section_atomic_inv pre t t' post :
  (forall u, In u (pre ++ t :: post) -> twf u) -> linv (pre ++ t :: post) ->
  anyW (pre ++ t :: post) = true -> tstep (pre ++ t :: post) t t' ->
  holdsW t = true /\ (forall u, In u (pre ++ post) -> held u = []) /\
  (exists p, rest t = Rd :: p \/ rest t = Wr :: p \/ rest t = Rel W :: p) /\
  (holdsW t' = true \/ (forall u, In u (pre ++ t' :: post) -> held u = [])).
Proof.
  intros Hwf Hl HW Ht.
  assert (Hwt : twf t) by (apply Hwf; apply in_or_app; right; left; reflexivity).
  assert (Hholds : holds t = true -> holdsW t = true).
  { intros Hh. destruct (holdsW t) eqn:E; [reflexivity|]. exfalso.
    unfold anyW in HW. apply existsb_exists in HW. destruct HW as (u & Hin & Hu).
    assert (Hin' : In u (pre ++ post)).
    { apply in_app_or in Hin. apply in_or_app. destruct Hin as [Hin|[<-|Hin]]; auto. congruence. }
    destruct (linv_two_holders _ _ _ _ Hl Hin' Hh (holdsW_holds _ Hu)) as [_ Hc]. congruence. }
  assert (Hgoal : holds t = true -> holdsW t = true /\ (forall u, In u (pre ++ post) -> held u = [])).
  { intros Hh. split; [auto|]. apply (w_holder_alone _ _ _ Hl). auto. }
  inversion Ht as [t0 p E Hp HW' HP|t0 p E Hp HP HW'|t0 p E Hp HR HW'|t0 m h p E Eh Hp|t0 p E Hp|t0 p E Hp];
    subst; try congruence.
  - destruct (twf_rel _ _ _ Hwt E) as [Hh _]. destruct (held_flags t _ Hh) as [Ew Eho].
    destruct Hgoal as [G1 G2]; [rewrite Eho; reflexivity|].
    rewrite Ew in G1. destruct m; [discriminate|].
    split; [rewrite Ew; reflexivity|]. split; [exact G2|]. split; [exists p; auto|].
    right. rewrite Hh in Eh. inversion Eh; subst. intros u Hin. apply in_app_or in Hin.
    destruct Hin as [Hin|[<-|Hin]]; [apply G2; apply in_or_app; auto|reflexivity|apply G2; apply in_or_app; auto].
  - destruct (twf_rd _ _ Hwt E) as (m & Hh & _). destruct (held_flags t _ Hh) as [_ Eho].
    destruct Hgoal as [G1 G2]; [rewrite Eho; reflexivity|].
    split; [exact G1|]. split; [exact G2|]. split; [exists p; auto|]. left. exact G1.
  - destruct (twf_wr _ _ Hwt E) as (Hh & _). destruct (held_flags t _ Hh) as [_ Eho].
    destruct Hgoal as [G1 G2]; [rewrite Eho; reflexivity|].
    split; [exact G1|]. split; [exact G2|]. split; [exists p; auto|]. left. exact G1.
Qed.

Theorem w_section_atomic ps s s' : Forall (fun p => flat_out p = true) ps -> steps (init_sys ps) s ->
  anyW s = true -> step s s' ->
  exists pre t t' post, s = pre ++ t :: post /\ s' = pre ++ t' :: post /\
    tstep s t t' /\ holdsW t = true /\ (forall u, In u (pre ++ post) -> held u = []).
Proof.
  intros Hall Hst HW Hs. destruct (reachable_inv _ _ Hall Hst) as [Hwf Hl].
  destruct Hs as [pre t t' post Ht]. exists pre, t, t', post.
  destruct (w_section_atomic_inv _ _ _ _ Hwf Hl HW Ht) as (G1 & G2 & _).
  repeat split; assumption.
Qed.

(* ------------------------------------------------------------------ *)
(* deadlock freedom                                                    *)

Lemma final_dec s : {final s} + {exists t, In t s /\ rest t <> []}.
Proof.
  induction s as [|t s [IH|IH]].
  - left. intros t [].
  - destruct (rest t) as [|i p] eqn:E.
    + left. intros u [<-|Hin]; [assumption|apply IH; assumption].
    + right. exists t. split; [left; reflexivity|congruence].
  - right. destruct IH as (u & Hin & Hne). exists u. split; [right; assumption|assumption].
Qed.

Lemma not_final_ex s : ~ final s -> exists t, In t s /\ rest t <> [].
Proof. intros Hnf. destruct (final_dec s) as [Hf|Hex]; [contradiction|assumption]. Qed.

(* a thread that holds a lock can always step *)
Lemma holder_steps pre t post : twf t -> holds t = true ->
  exists t', tstep (pre ++ t :: post) t t'.
Proof.
  intros Hw Hh. destruct (twf_cases t Hw) as [[Hn _]|(m & Hm & Hp & Hf)].
  - apply holds_false_nil in Hn. congruence.
  - destruct (flat_in_cases _ _ Hf) as [(p' & E & _) | [(p' & E & _) | (p' & E & _)]].
    + eexists. eapply s_rd; eauto.
    + eexists. eapply s_wr; eauto.
    + eexists. eapply s_rel; eauto.
Qed.

Theorem progress (s : sys) : (forall t, In t s -> twf t) -> ~ final s -> exists s', step s s'.
Proof.
  intros Hwf Hnf.
  destruct (existsb holds s) eqn:Hh.
  - (* someone holds a lock: it can access or release *)
    apply existsb_exists in Hh. destruct Hh as (t & Hin & Hheld).
    pose proof (Hwf t Hin) as Hwt.
    apply in_split in Hin. destruct Hin as (pre & post & ->).
    destruct (holder_steps pre t post Hwt Hheld) as (t' & Ht).
    eexists. apply st. exact Ht.
  - (* nobody holds anything *)
    apply existsb_false_cnt in Hh.
    assert (HnW : anyW s = false).
    { apply existsb_false_cnt. pose proof (cnt_holdsW_le s). lia. }
    assert (HnR : nreaders s = 0).
    { unfold nreaders. fold (cnt holdsR s).
      assert (cnt holdsR s <= cnt holds s) by (apply cnt_le; intros t _; apply holdsR_holds). lia. }
    destruct (anyPend s) eqn:Hp.
    + (* a pending writer acquires *)
      apply existsb_exists in Hp. destruct Hp as (t & Hin & Hpt).
      destruct (Hwf t Hin) as [_ Hw]. destruct (Hw Hpt) as (p & E).
      apply in_split in Hin. destruct Hin as (pre & post & ->).
      eexists. apply st. eapply s_wacq; eauto.
    + (* all idle, none pending: any unfinished thread starts its next section *)
      destruct (not_final_ex s Hnf) as (t & Hin & Hne).
      assert (Hpt : pend t = false).
      { unfold anyPend in Hp. apply existsb_false_cnt in Hp. exact (cnt_zero_in _ _ Hp t Hin). }
      destruct (twf_cases t (Hwf t Hin)) as [[Hheld Hf]|(m & Hheld & _)].
      2:{ pose proof (cnt_zero_in _ _ Hh t Hin) as Hc. apply holds_false_nil in Hc. congruence. }
      destruct (flat_out_cases _ Hf) as [E|(m & p & E & _)]; [congruence|].
      apply in_split in Hin. destruct Hin as (pre & post & ->).
      destruct m.
      * eexists. apply st. eapply s_rlock; eauto.
      * eexists. apply st. eapply s_wbegin; eauto.
Qed.

(* ------------------------------------------------------------------ *)
(* termination                                                         *)

Lemma measure_app a b : measure (a ++ b) = measure a + measure b.
Proof.
  induction a as [|t a IH]; [reflexivity|].
  change (measure ((t :: a) ++ b)) with (tmeasure t + measure (a ++ b)).
  change (measure (t :: a)) with (tmeasure t + measure a). rewrite IH. lia.
Qed.

Lemma measure_split pre t post : measure (pre ++ t :: post) = measure pre + tmeasure t + measure post.
Proof. rewrite measure_app. change (measure (t :: post)) with (tmeasure t + measure post). lia. Qed.

Lemma tstep_measure s t t' : tstep s t t' -> tmeasure t' < tmeasure t.
Proof.
  intros Ht. unfold tmeasure.
  destruct Ht as [t p E Hp HW HP|t p E Hp HP HW|t p E Hp HR HW|t m h p E Eh Hp|t p E Hp|t p E Hp];
    rewrite E, Hp; cbn [rest pend List.length]; lia.
Qed.

Theorem step_measure s s' : step s s' -> measure s' < measure s.
Proof.
  intros Hs. destruct Hs as [pre t t' post Ht]. rewrite !measure_split.
  pose proof (tstep_measure _ _ _ Ht). lia.
Qed.

(* runs of exactly n steps *)
Inductive nsteps : nat -> sys -> sys -> Prop :=
| nsteps_O s : nsteps 0 s s
| nsteps_S n s s' s'' : step s s' -> nsteps n s' s'' -> nsteps (S n) s s''.

Lemma nsteps_measure n s s' : nsteps n s s' -> n + measure s' <= measure s.
Proof.
  induction 1 as [s|n s s1 s2 Hs _ IH]; [lia|]. pose proof (step_measure _ _ Hs). lia.
Qed.

(* every run from s has at most measure s steps: every call returns *)
Theorem every_run_terminates n s s' : nsteps n s s' -> n <= measure s.
Proof. intros H. pose proof (nsteps_measure _ _ _ H). lia. Qed.

Lemma steps_nsteps s s' : steps s s' <-> exists n, nsteps n s s'.
Proof.
  split.
  - induction 1 as [s|s s1 s2 Hs _ (n & IH)]; [exists 0; constructor|].
    exists (S n). econstructor; eassumption.
  - intros (n & H). induction H as [s|n s s1 s2 Hs _ IH]; [constructor|].
    econstructor; eassumption.
Qed.

(* no infinite run: there is no function enumerating an infinite step sequence *)
Theorem no_infinite_run (f : nat -> sys) : ~ (forall n, step (f n) (f (S n))).
Proof.
  intros Hf.
  assert (H : forall n, nsteps n (f 0) (f n) ).
  { assert (G : forall n k, nsteps n (f k) (f (n + k))).
    { induction n as [|n IH]; intros k; [constructor|].
      econstructor; [apply Hf|]. replace (S n + k) with (n + S k) by lia. apply IH. }
    intros n. specialize (G n 0). rewrite Nat.add_0_r in G. exact G. }
  pose proof (every_run_terminates _ _ _ (H (S (measure (f 0))))). lia.
Qed.

(* combining progress and termination: from a well-formed state every maximal run ends
   in a final state after at most measure s steps *)
Theorem wf_run_completes s : (forall t, In t s -> twf t) ->
  exists n s', n <= measure s /\ nsteps n s s' /\ final s'.
Proof.
  remember (measure s) as k eqn:Ek. revert s Ek.
  induction k as [k IH] using lt_wf_ind. intros s Ek Hwf.
  destruct (final_dec s) as [Hf|Hex].
  - exists 0, s. split; [lia|]. split; [constructor|assumption].
  - destruct (progress s Hwf) as (s1 & Hs).
    { intros Hf. destruct Hex as (t & Hin & Hne). apply Hne. apply Hf. assumption. }
    pose proof (step_measure _ _ Hs) as Hm.
    destruct (IH (measure s1) ltac:(lia) s1 eq_refl (step_wf _ _ Hwf Hs)) as (n & s2 & Hn & Hr & Hfin).
    exists (S n), s2. split; [lia|]. split; [econstructor; eassumption|assumption].
Qed.

(* ------------------------------------------------------------------ *)
(* the legacy nested read lock deadlocks                               *)

Definition stuck_state : sys :=
  [ mkThread [R] false [Acq R; Rd; Rel R; Rel R];
    mkThread [] true [Acq W; Wr; Rel W] ].

Lemma stuck_reachable : steps (init_sys [legacy_nested_read; a_writer]) stuck_state.
Proof.
  apply steps_cons with (s' := [mkThread [R] false [Acq R; Rd; Rel R; Rel R]; init_thread a_writer]).
  { apply (st [] (init_thread legacy_nested_read)
              (mkThread [R] false [Acq R; Rd; Rel R; Rel R]) [init_thread a_writer]).
    apply (s_rlock _ (init_thread legacy_nested_read)); reflexivity. }
  apply steps_cons with (s' := stuck_state).
  { apply (st [mkThread [R] false [Acq R; Rd; Rel R; Rel R]] (init_thread a_writer)
              (mkThread [] true [Acq W; Wr; Rel W]) []).
    apply (s_wbegin _ (init_thread a_writer)); reflexivity. }
  apply steps_refl.
Qed.

Lemma stuck_no_step : forall s', ~ step stuck_state s'.
Proof.
  intros s' H. remember stuck_state as s0 eqn:Es. destruct H as [pre t t' post Ht].
  unfold stuck_state in Es.
  destruct pre as [|a pre]; simpl in Es.
  - inversion Es; subst; clear Es. inversion Ht; subst; simpl in *; try discriminate.
  - destruct pre as [|b pre]; simpl in Es.
    + inversion Es; subst; clear Es. inversion Ht; subst; simpl in *; try discriminate.
    + inversion Es as [[E1 E2]]. destruct pre; discriminate.
Qed.

Lemma stuck_not_final : ~ final stuck_state.
Proof. intros Hf. specialize (Hf _ (or_introl eq_refl)). discriminate. Qed.

Theorem nested_rlock_deadlocks :
  exists s, steps (init_sys [legacy_nested_read; a_writer]) s /\ ~ final s /\ forall s', ~ step s s'.
Proof.
  exists stuck_state. split; [exact stuck_reachable|]. split; [exact stuck_not_final|exact stuck_no_step].
Qed.

(* the nested program is indeed rejected by the flatness check, and the lock invariant
   alone does not save it (the stuck state satisfies linv) *)
Lemma legacy_not_flat : flat_out legacy_nested_read = false.
Proof. reflexivity. Qed.

Lemma stuck_linv : linv stuck_state.
Proof. split; simpl; [lia|discriminate]. Qed.

(* ------------------------------------------------------------------ *)
(* summary                                                             *)

Theorem flat_safe ps s : Forall (fun p => flat_out p = true) ps -> steps (init_sys ps) s ->
  linv s /\ (~ final s -> exists s', step s s').
Proof.
  intros Hall Hst. destruct (reachable_inv _ _ Hall Hst) as [Hwf Hl].
  split; [exact Hl|]. apply progress. exact Hwf.
Qed.

(* every flat system runs to completion from any reachable state, in boundedly many steps *)
Theorem flat_completes ps s : Forall (fun p => flat_out p = true) ps -> steps (init_sys ps) s ->
  exists n s', n <= measure s /\ nsteps n s s' /\ final s'.
Proof.
  intros Hall Hst. destruct (reachable_inv _ _ Hall Hst) as [Hwf _]. apply wf_run_completes. exact Hwf.
Qed.

Print Assumptions init_wf.
Print Assumptions step_wf.
Print Assumptions flat_out_app.
Print Assumptions init_linv.
Print Assumptions step_linv.
Print Assumptions reachable_inv.
Print Assumptions writer_exclusion.
Print Assumptions writer_exclusion_pos.
Print Assumptions race_free.
Print Assumptions w_section_atomic.
Print Assumptions w_section_atomic_inv.
Print Assumptions progress.
Print Assumptions step_measure.
Print Assumptions every_run_terminates.
Print Assumptions no_infinite_run.
Print Assumptions wf_run_completes.
Print Assumptions nested_rlock_deadlocks.
Print Assumptions flat_safe.
Print Assumptions flat_completes.
