(* C05 (task S4): legitimately produced tokens always verify and yield their caveats. *)
From Coq Require Import List Bool NArith Lia.
From Mac Require Import Model.Sym Proofs.SymBasics Proofs.Attenuation.
Import ListNotations.
Local Open Scope N_scope.

(* ------------------------------------------------------------------ *)
(** * The invariant of honestly produced tokens *)

(* [k] is the root key (for a discharge: the discharge key).
   - the tail is the MAC chain over nonce and caveats, finalised iff the token is an encoded proof
     ([n_proof && negb t_newproof], called [frozen] in Attenuation.v);
   - every data caveat is admissible for the kind of token (attestations only in proofs, no wrapped attestation);
   - every third-party caveat's verifier key is the discharge key sealed under the chain value before it.
   (The first conjunct of the task's sketch, [n_proof = false \/ True], is trivial and dropped.) *)
Definition valid (k : term) (t : token) : Prop :=
  t_tail t = fin_if (n_proof (t_nonce t) && negb (t_newproof t)) (chain k (t_nonce t) (t_cavs t)) /\
  data_ok (n_proof (t_nonce t)) (t_cavs t) /\
  exists pl, tok_pend k t = Some pl.

Lemma mint_valid_l k kid loc proof ver rnd : valid k (mint k kid loc proof ver rnd).
Proof.
  unfold valid, mint, tok_pend. cbn [t_tail t_nonce t_cavs t_newproof n_proof pend_of].
  rewrite andb_negb_r. split; [reflexivity|]. split; [apply data_ok_nil|]. eauto.
Qed.

(* loop invariant of Add *)
Lemma add_loop_valid proof start l : forall seen cavs tail cavs' tail' ok,
  add_loop proof seen cavs tail l = (cavs', tail', ok) ->
  tail = chain_from start cavs -> data_ok proof cavs -> (exists pl, pend_of start cavs = Some pl) ->
  tail' = chain_from start cavs' /\ data_ok proof cavs' /\ exists pl, pend_of start cavs' = Some pl.
Proof.
  induction l as [|a r IH]; intros seen cavs tail cavs' tail' ok H Et Hdo Hpl.
  - rewrite add_loop_nil in H. injection H. intros. subst. auto.
  - assert (Hstop : (cavs, tail, false) = (cavs', tail', ok) ->
        tail' = chain_from start cavs' /\ data_ok proof cavs' /\ exists pl, pend_of start cavs' = Some pl).
    { intros E. injection E. intros. subst. auto. }
    destruct Hpl as [pl Hpl].
    destruct a as [d|loc rn rs tk|b].
    + rewrite add_loop_data_cons in H.
      destruct ((d_att d && negb proof) || d_wrap d) eqn:E; [auto|].
      apply orb_false_iff in E. destruct E as [Ea Ew]. apply (IH _ _ _ _ _ _ H).
      * rewrite chain_from_snoc, Et. reflexivity.
      * apply data_ok_app. split; [exact Hdo|]. intros d' [Hd'|[]]. injection Hd'. intros. subst d'.
        split; [apply data_cond_false_inv; exact Ea|exact Ew].
      * rewrite pend_of_app, Hpl. cbn [pend_of]. eauto.
    + rewrite add_loop_3p_cons in H. destruct (existsb (N.eqb loc) seen); [auto|].
      apply (IH _ _ _ _ _ _ H).
      * rewrite chain_from_snoc, Et. reflexivity.
      * apply data_ok_app. split; [exact Hdo|]. intros d' [Hd'|[]]. discriminate Hd'.
      * rewrite pend_of_app, Hpl. cbn [pend_of]. rewrite <- Et, unseal_seal. eauto.
    + rewrite add_loop_bind_cons in H. apply (IH _ _ _ _ _ _ H).
      * rewrite chain_from_snoc, Et. reflexivity.
      * apply data_ok_app. split; [exact Hdo|]. intros d' [Hd'|[]]. discriminate Hd'.
      * rewrite pend_of_app, Hpl. cbn [pend_of]. eauto.
Qed.

(* In the model an [A3P loc rn r tk] is by construction what NewCaveat3P produces: the verifier key is
   the discharge key [rn] sealed under the current tail with seal nonce [r]; [rn], [r], [tk] are arbitrary.
   So no side condition on [l] is needed.  Holds also when [ok = false] (Add is not atomic). *)
Lemma add_valid_l k t l t' ok : valid k t -> add t l = (t', ok) -> valid k t'.
Proof.
  intros [Et [Hdo Hpl]] H.
  destruct (add_inv _ _ _ _ H) as [[_ [E _]]|[Ef [cavs [tail [El E]]]]]; subst t'.
  - split; [exact Et|]. split; [exact Hdo|exact Hpl].
  - unfold frozen in Ef. rewrite Ef in Et. cbn [fin_if] in Et.
    destruct (add_loop_valid _ (tok_start k t) _ _ _ _ _ _ _ El Et Hdo Hpl) as [Et' [Hdo' Hpl']].
    unfold valid, tok_pend, tok_start. cbn [t_tail t_nonce t_cavs t_newproof]. rewrite Ef. cbn [fin_if].
    split; [exact Et'|]. split; [exact Hdo'|exact Hpl'].
Qed.

(** ** encode / decode / clone *)
Lemma encode_nonce t : t_nonce (encode t) = t_nonce t.
Proof. unfold encode. destruct (n_proof (t_nonce t) && t_newproof t); reflexivity. Qed.
Lemma encode_cavs t : t_cavs (encode t) = t_cavs t.
Proof. unfold encode. destruct (n_proof (t_nonce t) && t_newproof t); reflexivity. Qed.
Lemma encode_loc t : t_loc (encode t) = t_loc t.
Proof. unfold encode. destruct (n_proof (t_nonce t) && t_newproof t); reflexivity. Qed.
Lemma encode_not_new t : n_proof (t_nonce (encode t)) && t_newproof (encode t) = false.
Proof.
  unfold encode. destruct (n_proof (t_nonce t) && t_newproof t) eqn:E; [|exact E].
  cbn [t_newproof]. apply andb_false_r.
Qed.
Lemma encode_nonproof t : n_proof (t_nonce t) = false -> encode t = t.
Proof. unfold encode. intros E. rewrite E. reflexivity. Qed.
Lemma encode_idem t : encode (encode t) = encode t.
Proof. unfold encode at 1. rewrite encode_not_new. reflexivity. Qed.

Lemma decode_nonce t : t_nonce (decode t) = t_nonce t.
Proof. reflexivity. Qed.
Lemma decode_cavs t : t_cavs (decode t) = t_cavs t.
Proof. reflexivity. Qed.
Lemma decode_loc t : t_loc (decode t) = t_loc t.
Proof. reflexivity. Qed.
Lemma decode_tail t : t_tail (decode t) = t_tail t.
Proof. reflexivity. Qed.
Lemma decode_newproof t : t_newproof (decode t) = false.
Proof. reflexivity. Qed.

Lemma encode_valid_l k t : valid k t -> valid k (encode t).
Proof.
  intros [Et [Hdo Hpl]]. unfold encode. destruct (n_proof (t_nonce t) && t_newproof t) eqn:E.
  - apply andb_true_iff in E. destruct E as [Ep En]. rewrite Ep, En in Et. cbn [andb negb fin_if] in Et.
    unfold valid, tok_pend, tok_start. cbn [t_tail t_nonce t_cavs t_newproof]. rewrite Ep, Et.
    split; [reflexivity|]. split; [rewrite <- Ep; exact Hdo|exact Hpl].
  - split; [exact Et|]. split; [exact Hdo|exact Hpl].
Qed.

(* decoding the wire form loses [newproof]; harmless unless the token is a proof that was not encoded *)
Lemma decode_valid_l k t : n_proof (t_nonce t) && t_newproof t = false -> valid k t -> valid k (decode t).
Proof.
  intros E [Et [Hdo Hpl]]. unfold valid, tok_pend, tok_start, decode. cbn [t_tail t_nonce t_cavs t_newproof].
  split; [|split; [exact Hdo|exact Hpl]]. rewrite Et.
  destruct (n_proof (t_nonce t)), (t_newproof t); try reflexivity. discriminate E.
Qed.

Lemma decode_encode_valid_l k t : valid k t -> valid k (decode (encode t)).
Proof. intros H. apply decode_valid_l; [apply encode_not_new|apply encode_valid_l; exact H]. Qed.

Lemma clone_valid_l k t : valid k t -> valid k (fst (clone t)) /\ valid k (snd (clone t)).
Proof.
  intros H. unfold clone. cbn [fst snd]. split; [apply encode_valid_l; exact H|apply decode_encode_valid_l; exact H].
Qed.

(* ------------------------------------------------------------------ *)
(** * Completeness of verification *)

Lemma discharge_all_complete pl ds bids tr Ss :
  Forall2 (fun p S => try_cands (cands_for ds (fst p)) (snd p) bids true tr = Some S) pl Ss ->
  discharge_all pl ds bids tr = Some (List.concat Ss).
Proof.
  intros HF. induction HF as [|[tk dk] S pl' Ss' Hp HF IH]; [reflexivity|].
  cbn [fst snd] in Hp. cbn [discharge_all List.concat]. rewrite Hp, IH. reflexivity.
Qed.

Lemma Forall2_In_l {A B} (R : A -> B -> Prop) l l' x :
  Forall2 R l l' -> In x l -> exists y, In y l' /\ R x y.
Proof.
  intros HF. induction HF as [|a b l0 l0' Hab HF IH]; intros Hin; [contradiction|].
  destruct Hin as [Hx|Hx].
  - subst. exists b. split; [left; reflexivity|exact Hab].
  - destruct (IH Hx) as [y [Hy HR]]. exists y. split; [right; exact Hy|exact HR].
Qed.

Lemma In_tickets cs l vk tk : In (P3P l vk tk) cs -> In tk (tickets cs).
Proof.
  intros Hin. unfold tickets. apply in_flat_map. exists (P3P l vk tk). split; [exact Hin|left; reflexivity].
Qed.

Lemma verify_complete_l k t ds tr pl Ss :
  valid k t -> (n_proof (t_nonce t) && t_newproof t) = false -> (forall b, ~ In (PBind b) (t_cavs t)) ->
  tok_pend k t = Some pl ->
  Forall2 (fun p S => try_cands (cands_for ds (fst p)) (snd p) (tok_bids k t) true tr = Some S) pl Ss ->
  verify k t ds tr = Some (returned (n_proof (t_nonce t)) true (t_cavs t) ++ List.concat Ss).
Proof.
  intros [Et [Hdo _]] Enp Hnb Hpl HF.
  apply (verify_complete_gen _ _ _ _ pl); try assumption.
  - intros l vk tk Hin. apply In_tickets in Hin. rewrite <- (pend_of_tickets _ _ _ Hpl) in Hin.
    apply in_map_iff in Hin. destruct Hin as [p [Hp Hin]].
    destruct (Forall2_In_l _ _ _ _ HF Hin) as [S [_ HS]]. rewrite Hp in HS.
    intros Hnil. rewrite Hnil in HS. discriminate HS.
  - apply discharge_all_complete. exact HF.
  - rewrite Et. apply fin_if_frozen_verify. exact Enp.
Qed.

(* ------------------------------------------------------------------ *)
(** * Candidates and trust *)

(* first candidate not skipped and verifying => chosen *)
Lemma try_cands_first d r dk bids ta tr S :
  trust_check (keys_for tr (t_loc d)) (n_kid (t_nonce d)) dk <> TSkip ->
  verify_flat dk d bids (cand_trust ta tr d dk) = Some S ->
  try_cands (d :: r) dk bids ta tr = Some S.
Proof.
  unfold cand_trust. intros Hns Hv. cbn [try_cands].
  destruct (trust_check (keys_for tr (t_loc d)) (n_kid (t_nonce d)) dk); [congruence| |]; rewrite Hv; reflexivity.
Qed.

(* a key listed for the location that opens the ticket, with the right discharge key inside: trusted *)
Lemma trust_check_In kas ka r dk cavs :
  In ka kas -> trust_check kas (TSeal ka r (TTicket dk cavs)) dk = TTrusted.
Proof.
  induction kas as [|ka0 kas IH]; intros Hin; [contradiction|].
  cbn [trust_check unseal]. destruct (term_eqb ka ka0) eqn:E.
  - rewrite term_eqb_refl. reflexivity.
  - apply term_eqb_false in E. destruct Hin as [Hin|Hin]; [congruence|]. apply IH. exact Hin.
Qed.

(* ------------------------------------------------------------------ *)
(** * Honest discharges *)

Lemma valid_verify_flat k t pb ta :
  valid k t -> n_proof (t_nonce t) && t_newproof t = false ->
  (forall l vk tk, ~ In (P3P l vk tk) (t_cavs t)) ->
  (forall b, In (PBind b) (t_cavs t) -> existsb (has_prefix_bid b) pb = true) ->
  verify_flat k t pb ta = Some (returned (n_proof (t_nonce t)) ta (t_cavs t)).
Proof.
  intros [Et [Hdo _]] Enp H3 Hb. apply verify_flat_complete; try assumption.
  rewrite Et. apply fin_if_frozen_verify. exact Enp.
Qed.

Lemma discharge_ticket_honest ka loc r dk cs proof rnd :
  discharge_ticket ka loc (TSeal ka r (TTicket dk cs)) proof rnd =
  Some (cs, mint dk (TSeal ka r (TTicket dk cs)) loc proof 1 rnd).
Proof. unfold discharge_ticket. rewrite term_eqb_refl. reflexivity. Qed.

Lemma returned_map_PData p l : returned p true (map PData l) = l.
Proof.
  induction l as [|d r IH]; [reflexivity|]. cbn [map]. rewrite returned_cons, IH. cbn [ret_of].
  rewrite orb_true_r. reflexivity.
Qed.

Lemma not_P3P_map_PData l loc vk tk : ~ In (P3P loc vk tk) (map PData l).
Proof. intros Hin. apply in_map_iff in Hin. destruct Hin as [d [Hd _]]. discriminate Hd. Qed.

Lemma not_PBind_map_PData l b : ~ In (PBind b) (map PData l).
Proof. intros Hin. apply in_map_iff in Hin. destruct Hin as [d [Hd _]]. discriminate Hd. Qed.

Section HonestDischarge.
  Variables (ka : term) (loc : N) (r : N) (dk : term) (cs : list dcav) (proof : bool) (rnd : term).
  Let tk := TSeal ka r (TTicket dk cs).
  Variables (cs' : list dcav) (d0 d1 : token) (ds : list dcav).
  Hypothesis Hticket : discharge_ticket ka loc tk proof rnd = Some (cs', d0).
  Hypothesis Hadd : add d0 (map AData ds) = (d1, true).

  Lemma honest_d0 : cs' = cs /\ d0 = mint dk tk loc proof 1 rnd.
  Proof.
    unfold tk in Hticket. rewrite discharge_ticket_honest in Hticket. injection Hticket. auto.
  Qed.

  Lemma honest_d1_fields :
    t_nonce d1 = mkNonce tk rnd proof 1 /\ t_loc d1 = loc /\ t_newproof d1 = proof /\
    t_cavs d1 = map PData (dedup_data [] ds).
  Proof.
    destruct honest_d0 as [_ E0].
    destruct (add_extends_l _ _ _ _ Hadd) as [En [El [Enp _]]].
    destruct (add_appended_are_new_l _ _ _ Hadd) as [Ec _].
    rewrite En, El, Enp, Ec, E0. auto.
  Qed.

  Lemma honest_d1_valid : valid dk d1.
  Proof.
    destruct honest_d0 as [_ E0]. apply (add_valid_l dk d0 (map AData ds) d1 true); [|exact Hadd].
    rewrite E0. apply mint_valid_l.
  Qed.

  (* the caveats of the discharge, as verification returns them *)
  Lemma honest_d1_returned : returned proof true (t_cavs (encode d1)) = dedup_data [] ds.
  Proof.
    destruct honest_d1_fields as [_ [_ [_ Ec]]]. rewrite encode_cavs, Ec. apply returned_map_PData.
  Qed.

  (* an honest discharge (first-party caveats [ds]; attestations allowed iff [proof]) verifies under its
     discharge key, whatever the parent's binding ids, and returns its caveats *)
  Lemma honest_discharge_verifies_l bids ta :
    verify_flat dk (decode (encode d1)) bids ta = Some (returned proof ta (t_cavs (encode d1))).
  Proof.
    destruct honest_d1_fields as [En [_ [_ Ec]]].
    rewrite (valid_verify_flat dk (decode (encode d1)) bids ta).
    - rewrite decode_nonce, encode_nonce, En, decode_cavs. reflexivity.
    - apply decode_encode_valid_l. apply honest_d1_valid.
    - rewrite decode_nonce, decode_newproof. apply andb_false_r.
    - intros l vk tk0. rewrite decode_cavs, encode_cavs, Ec. apply not_P3P_map_PData.
    - intros b. rewrite decode_cavs, encode_cavs, Ec. intros Hin. destruct (not_PBind_map_PData _ _ Hin).
  Qed.

  (* the same discharge, bound to a parent token [p] before encoding: verifies whenever the hash of the
     parent's tail is among the binding ids, and returns the same caveats *)
  Variables (p : token) (d2 : token).
  Hypothesis Hbind : add d1 [bind_cav p] = (d2, true).

  Lemma honest_d2_fields :
    t_nonce d2 = mkNonce tk rnd proof 1 /\ t_loc d2 = loc /\
    t_cavs d2 = map PData (dedup_data [] ds) ++ [PBind (TPre16 (THash (t_tail p)))].
  Proof.
    destruct honest_d1_fields as [En [El [_ Ec]]].
    destruct (add_extends_l _ _ _ _ Hbind) as [En2 [El2 _]].
    rewrite En2, El2, En, El. split; [reflexivity|]. split; [reflexivity|].
    unfold bind_cav in Hbind. destruct (add_single_bind _ _ _ Hbind) as [[_ [_ Hin]]|[Ec2 _]].
    - rewrite Ec in Hin. destruct (not_PBind_map_PData _ _ Hin).
    - rewrite Ec2, Ec. reflexivity.
  Qed.

  Lemma honest_bound_discharge_verifies_l bids ta :
    In (THash (t_tail p)) bids ->
    verify_flat dk (decode (encode d2)) bids ta = Some (returned proof ta (t_cavs (encode d1))).
  Proof.
    intros Hbid. destruct honest_d1_fields as [_ [_ [_ Ec1]]]. destruct honest_d2_fields as [En [_ Ec]].
    rewrite (valid_verify_flat dk (decode (encode d2)) bids ta).
    - rewrite decode_nonce, encode_nonce, En, decode_cavs, !encode_cavs, Ec, Ec1, returned_app.
      cbn [returned flat_map ret_of n_proof]. rewrite !app_nil_r. reflexivity.
    - apply decode_encode_valid_l. apply (add_valid_l _ _ _ _ _ honest_d1_valid Hbind).
    - rewrite decode_nonce, decode_newproof. apply andb_false_r.
    - intros l vk tk0. rewrite decode_cavs, encode_cavs, Ec. intros Hin. apply in_app_or in Hin.
      destruct Hin as [Hin|[Hin|[]]]; [destruct (not_P3P_map_PData _ _ _ _ Hin)|discriminate Hin].
    - intros b. rewrite decode_cavs, encode_cavs, Ec. intros Hin. apply in_app_or in Hin.
      destruct Hin as [Hin|[Hin|[]]]; [destruct (not_PBind_map_PData _ _ Hin)|].
      injection Hin. intros Eb. subst b. apply existsb_exists. exists (THash (t_tail p)).
      split; [exact Hbid|]. cbn [has_prefix_bid]. apply term_eqb_refl.
  Qed.
End HonestDischarge.

(* ------------------------------------------------------------------ *)
(** * End to end: one third-party caveat, honestly discharged *)

Lemma In_map_PData d l : In (PData d) (map PData l) <-> In d l.
Proof.
  rewrite in_map_iff. split.
  - intros [x [E Hx]]. injection E. intros. subst. exact Hx.
  - intros Hd. exists d. auto.
Qed.

Lemma pend_of_map_PData s l : pend_of s (map PData l) = Some [].
Proof. revert s. induction l as [|d r IH]; intros s; [reflexivity|]. cbn [map pend_of]. apply IH. Qed.

Lemma cands_for_single d tk : n_kid (t_nonce d) = tk -> cands_for [d] tk = [d].
Proof. intros E. unfold cands_for. cbn [filter]. rewrite E, term_eqb_refl. reflexivity. Qed.

Section EndToEnd.
  (* the root token: minted as a non-proof (either nonce version), data caveats [c1], one third-party
     caveat for location [loc3] with discharge key [rn], seal nonce [r] and ticket [tk] (sealed for the
     third party's key [ka], containing [rn] and the ticket caveats [tc]), then data caveats [c2] *)
  Variables (k kid : term) (loc ver : N) (rnd : term).
  Variables (c1 c2 : list dcav) (t1 t2 t3 : token).
  Variables (loc3 : N) (rn : term) (r : N) (ka : term) (r' : N) (tc : list dcav).
  Let tk := TSeal ka r' (TTicket rn tc).
  Let n0 := mkNonce kid rnd false ver.
  Let e1 := dedup_data [] c1.
  Let e2 := dedup_data (map PData c1) c2.
  Let c3 := P3P loc3 (TSeal (chain k n0 (map PData e1)) r rn) tk.
  Hypothesis Hadd1 : add (mint k kid loc false ver rnd) (map AData c1) = (t1, true).
  Hypothesis Hadd2 : add t1 [A3P loc3 rn r tk] = (t2, true).
  Hypothesis Hadd3 : add t2 (map AData c2) = (t3, true).

  Lemma e2e_dedup : e1 ++ e2 = dedup_data [] (c1 ++ c2).
  Proof. unfold e1, e2. rewrite dedup_data_app, app_nil_r. reflexivity. Qed.

  Lemma e2e_t1 : t_nonce t1 = n0 /\ t_cavs t1 = map PData e1 /\ t_tail t1 = chain k n0 (map PData e1).
  Proof.
    destruct (add_extends_l _ _ _ _ Hadd1) as [En _].
    destruct (add_appended_are_new_l _ _ _ Hadd1) as [Ec [Et _]].
    split; [exact En|]. split; [exact Ec|exact Et].
  Qed.

  Lemma e2e_t2 : t_nonce t2 = n0 /\ t_cavs t2 = map PData e1 ++ [c3].
  Proof.
    destruct e2e_t1 as [En1 [Ec1 Et1]].
    destruct (add_extends_l _ _ _ _ Hadd2) as [En _].
    destruct (add_single_3p _ _ _ _ _ _ Hadd2) as [Ec _].
    { rewrite Ec1. apply not_P3P_map_PData. }
    split; [congruence|]. rewrite Ec, Ec1, Et1. reflexivity.
  Qed.

  Lemma e2e_t3 : t_nonce t3 = n0 /\ t_cavs t3 = map PData e1 ++ [c3] ++ map PData e2.
  Proof.
    destruct e2e_t2 as [En2 Ec2].
    destruct (add_extends_l _ _ _ _ Hadd3) as [En _].
    destruct (add_appended_are_new_l _ _ _ Hadd3) as [Ec _].
    split; [congruence|]. rewrite Ec, Ec2, <- app_assoc. do 3 f_equal.
    apply dedup_data_ext. intros d. rewrite in_app_iff, !In_map_PData. unfold e1. rewrite dedup_data_In.
    cbn [In]. unfold c3. split; [|tauto]. intros [[Hd _]|[Habs|[]]]; [exact Hd|discriminate Habs].
  Qed.

  Lemma e2e_valid : valid k t3.
  Proof.
    eapply add_valid_l; [|exact Hadd3].
    eapply add_valid_l; [|exact Hadd2].
    eapply add_valid_l; [|exact Hadd1]. apply mint_valid_l.
  Qed.

  Let tv := decode (encode t3).    (* what the verifier parses from the wire *)

  Lemma e2e_tv : t_nonce tv = n0 /\ t_cavs tv = map PData e1 ++ [c3] ++ map PData e2.
  Proof.
    destruct e2e_t3 as [En Ec]. unfold tv. rewrite decode_nonce, decode_cavs, encode_nonce, encode_cavs. auto.
  Qed.

  Lemma e2e_pend : tok_pend k tv = Some [(tk, rn)].
  Proof.
    destruct e2e_tv as [En Ec]. unfold tok_pend, tok_start. rewrite En, Ec.
    rewrite pend_of_app, pend_of_map_PData. fold (chain k n0 (map PData e1)).
    unfold c3 at 1. cbn [app pend_of]. rewrite unseal_seal, pend_of_map_PData. reflexivity.
  Qed.

  Lemma e2e_returned : returned false true (t_cavs tv) = dedup_data [] (c1 ++ c2).
  Proof.
    destruct e2e_tv as [_ Ec]. rewrite Ec, !returned_app, !returned_map_PData, <- e2e_dedup. reflexivity.
  Qed.

  (* the binding id a discharge has to be bound to: the hash of the root token's tail *)
  Lemma e2e_bid : In (THash (t_tail (encode t3))) (tok_bids k tv).
  Proof.
    destruct e2e_t3 as [En _]. destruct e2e_valid as [Et _].
    rewrite encode_nonproof by (rewrite En; reflexivity).
    rewrite En in Et. cbn [n0 n_proof andb fin_if] in Et. rewrite Et.
    apply In_tok_bids. exists (List.length (t_cavs tv)). split; [lia|].
    rewrite firstn_all. unfold tv. rewrite decode_nonce, decode_cavs, encode_nonce, encode_cavs, En. reflexivity.
  Qed.

  (* glue: any presented discharge [dd] whose key-id is the ticket, whose location lists [ka] as trusted,
     and which verifies under [rn] with the root token's binding ids, makes the root token verify *)
  Lemma honest_single_3p_core dd tr Sd :
    n_kid (t_nonce dd) = tk -> In ka (keys_for tr (t_loc dd)) ->
    verify_flat rn dd (tok_bids k tv) true = Some Sd ->
    verify k tv [dd] tr = Some (dedup_data [] (c1 ++ c2) ++ Sd).
  Proof.
    intros Hkid Hka Hv. destruct e2e_tv as [En Ec].
    assert (Htc : trust_check (keys_for tr (t_loc dd)) (n_kid (t_nonce dd)) rn = TTrusted).
    { rewrite Hkid. unfold tk. apply trust_check_In. exact Hka. }
    rewrite (verify_complete_l k tv [dd] tr [(tk, rn)] [Sd]).
    - rewrite En. cbn [n0 n_proof List.concat]. rewrite e2e_returned, app_nil_r. reflexivity.
    - unfold tv. apply decode_encode_valid_l. exact e2e_valid.
    - rewrite En. reflexivity.
    - intros b. rewrite Ec. intros Hin. apply in_app_or in Hin.
      destruct Hin as [Hin|[Hin|Hin]];
        [destruct (not_PBind_map_PData _ _ Hin)|discriminate Hin|destruct (not_PBind_map_PData _ _ Hin)].
    - exact e2e_pend.
    - constructor; [|constructor]. cbn [fst snd]. rewrite (cands_for_single _ _ Hkid).
      apply try_cands_first.
      + rewrite Htc. discriminate.
      + unfold cand_trust. rewrite Htc. exact Hv.
  Qed.

  (* the discharge: produced from the ticket by the third party holding [ka], at its location [dloc],
     as a proof or not, with its own first-party caveats [ds] (attestations allowed iff [proof]) *)
  Variables (dloc : N) (proof : bool) (drnd : term) (cs' : list dcav) (d0 d1 : token) (ds : list dcav).
  Hypothesis Hticket : discharge_ticket ka dloc tk proof drnd = Some (cs', d0).
  Hypothesis Hdadd : add d0 (map AData ds) = (d1, true).
  Variable tr : trusted_map.
  Hypothesis Htrust : In ka (keys_for tr dloc).

  Lemma honest_single_3p_verifies_l :
    verify k (decode (encode t3)) [decode (encode d1)] tr =
    Some (dedup_data [] (c1 ++ c2) ++ returned proof true (t_cavs (encode d1))).
  Proof.
    destruct (honest_d1_fields _ _ _ _ _ _ _ _ _ _ _ Hticket Hdadd) as [En [El _]].
    apply honest_single_3p_core.
    - rewrite decode_nonce, encode_nonce, En. reflexivity.
    - rewrite decode_loc, encode_loc, El. exact Htrust.
    - apply (honest_discharge_verifies_l _ _ _ _ _ _ _ _ _ _ _ Hticket Hdadd).
  Qed.

  (* fully explicit result: first-party caveats of the root token in the order added, duplicates collapsed,
     then those of the discharge *)
  Lemma honest_single_3p_verifies_explicit :
    verify k (decode (encode t3)) [decode (encode d1)] tr =
    Some (dedup_data [] (c1 ++ c2) ++ dedup_data [] ds).
  Proof.
    rewrite honest_single_3p_verifies_l, (honest_d1_returned _ _ _ _ _ _ _ _ _ _ _ Hticket Hdadd). reflexivity.
  Qed.

  (* the same with the discharge bound to the (encoded) root token before it is sent *)
  Variable d2 : token.
  Hypothesis Hbind : add d1 [bind_cav (encode t3)] = (d2, true).

  Lemma honest_single_3p_bound_verifies_l :
    verify k (decode (encode t3)) [decode (encode d2)] tr =
    Some (dedup_data [] (c1 ++ c2) ++ returned proof true (t_cavs (encode d1))).
  Proof.
    destruct (honest_d2_fields _ _ _ _ _ _ _ _ _ _ _ Hticket Hdadd _ _ Hbind) as [En [El _]].
    apply honest_single_3p_core.
    - rewrite decode_nonce, encode_nonce, En. reflexivity.
    - rewrite decode_loc, encode_loc, El. exact Htrust.
    - apply (honest_bound_discharge_verifies_l _ _ _ _ _ _ _ _ _ _ _ Hticket Hdadd _ _ Hbind). exact e2e_bid.
  Qed.
End EndToEnd.

(* ------------------------------------------------------------------ *)
Print Assumptions mint_valid_l.
Print Assumptions add_valid_l.
Print Assumptions encode_valid_l.
Print Assumptions decode_valid_l.
Print Assumptions clone_valid_l.
Print Assumptions verify_complete_l.
Print Assumptions try_cands_first.
Print Assumptions trust_check_In.
Print Assumptions honest_discharge_verifies_l.
Print Assumptions honest_bound_discharge_verifies_l.
Print Assumptions honest_single_3p_core.
Print Assumptions honest_single_3p_verifies_l.
Print Assumptions honest_single_3p_verifies_explicit.
Print Assumptions honest_single_3p_bound_verifies_l.
