(* What the typed decoder of Model.TypedDec2 ACCEPTS, whatever the bytes:
   - every decoded caveat is of the announced type, well-formed (wf_cav) and canonical (canon_cav: masks fit, resource sets in
     ascending key order, unregistered bodies are single values the generic decoder takes) - dec_cav_good_l;
   - hence it has a canonical encoding and that encoding decodes to the same caveats: dec_body2_reenc_l,
     dec_set_typed_reenc_l (what a re-encoding verifier signs is what is cleared);
   - the decoder reads a non-empty prefix of its input. *)
From Coq Require Import List Bool NArith ZArith String Ascii Lia ZifyN ZifyNat ZifyBool Sorted.
From Mac Require Import Model.Caveat Model.Msgpack Model.Codec Model.TypedDec Model.TypedDec2
  Proofs.CavInd Proofs.CodecProofs Proofs.CodecProofs2 Proofs.LenientProofs Proofs.TypedDecProofs Proofs.TypedDec2Proofs.
Import ListNotations.
Ltac Zify.zify_post_hook ::= Z.div_mod_to_equations.
Local Open Scope N_scope.

(* ------------------------------------------------------------------------------------------ *)
(* Skip looks at the value it skips only: cutting the input after it changes nothing            *)

Definition cuts (sk : bytes -> option bytes) : Prop :=
  forall l t r, sk (l ++ t) = Some r -> (List.length t <= List.length r)%nat ->
  exists r0, r = r0 ++ t /\ sk l = Some r0.

Lemma take_cut k l t a b : take k (l ++ t) = Some (a, b) -> (List.length t <= List.length b)%nat ->
  exists b0, b = b0 ++ t /\ take k l = Some (a, b0).
Proof.
  unfold take. rewrite app_length.
  destruct (N.ltb_spec (N.of_nat (List.length l + List.length t)) k) as [H1|H1]; [discriminate|].
  intros Heq Hlen. injection Heq as <- <-.
  rewrite skipn_length, app_length in Hlen.
  assert (Hk : (N.to_nat k <= List.length l)%nat) by lia.
  destruct (N.ltb_spec (N.of_nat (List.length l)) k) as [H2|H2]; [lia|].
  exists (skipn (N.to_nat k) l). split.
  - rewrite skipn_app. replace (N.to_nat k - List.length l)%nat with 0%nat by lia. reflexivity.
  - rewrite firstn_app. replace (N.to_nat k - List.length l)%nat with 0%nat by lia. cbn [firstn]. rewrite app_nil_r. reflexivity.
Qed.

Lemma go_many_cut sk k : suffixing sk -> cuts sk ->
  forall x t r, go_many sk k (x ++ t) = Some r -> (List.length t <= List.length r)%nat ->
  exists r0, r = r0 ++ t /\ go_many sk k x = Some r0.
Proof.
  intros Hs Hc. induction k as [|k IH]; intros x t r Hgo Hlen; cbn [go_many] in *.
  - injection Hgo as <-. exists x. auto.
  - destruct (sk (x ++ t)) as [x'|] eqn:Ex; [|discriminate].
    assert (Hx' : (List.length t <= List.length x')%nat).
    { apply go_many_suffix in Hgo; [|exact Hs]. destruct Hgo as (p & ->). rewrite app_length. lia. }
    destruct (Hc _ _ _ Ex Hx') as (x0 & -> & Ex0). rewrite Ex0. apply IH; assumption.
Qed.

Lemma skip_many_cut sk n x t r : suffixing sk -> cuts sk -> skip_many sk n (x ++ t) = Some r ->
  (List.length t <= List.length r)%nat -> (N.of_nat (List.length x) <? n) = false ->
  exists r0, r = r0 ++ t /\ skip_many sk n x = Some r0.
Proof.
  intros Hs Hc. unfold skip_many. destruct (N.of_nat (List.length (x ++ t)) <? n); [discriminate|].
  intros Hgo Hlen Hx. rewrite Hx. apply go_many_cut; assumption.
Qed.

(* n values take at least n bytes *)
Lemma go_many_count sk k : suffixing sk -> forall x r, go_many sk k x = Some r -> (k + List.length r <= List.length x)%nat.
Proof.
  intros Hs. induction k as [|k IH]; intros x r Hgo; cbn [go_many] in Hgo.
  - injection Hgo as <-. lia.
  - destruct (sk x) as [x'|] eqn:Ex; [|discriminate]. apply (suffixing_length _ _ _ Hs) in Ex. apply IH in Hgo. lia.
Qed.

Lemma skip_many_cut' sk n x t r : suffixing sk -> cuts sk -> skip_many sk n (x ++ t) = Some r ->
  (List.length t <= List.length r)%nat -> exists r0, r = r0 ++ t /\ skip_many sk n x = Some r0.
Proof.
  intros Hs Hc Hm Hlen. apply skip_many_cut; try assumption.
  unfold skip_many in Hm. destruct (N.of_nat (List.length (x ++ t)) <? n); [discriminate|].
  apply go_many_count in Hm; [|exact Hs]. rewrite app_length in Hm. apply N.ltb_ge. lia.
Qed.

Lemma run_cut sk sh : suffixing sk -> cuts sk -> cuts (run sk sh).
Proof.
  intros Hs Hc l t r. destruct sh as [| |n|k|a b|k g]; cbn [run].
  - discriminate.
  - intros Heq _. injection Heq as <-. exists l. auto.
  - apply skip_many_cut'; assumption.
  - destruct (take k (l ++ t)) as [[a b]|] eqn:E; cbn [option_map snd]; [|discriminate].
    intros Heq Hlen. injection Heq as <-. destruct (take_cut _ _ _ _ _ E Hlen) as (b0 & -> & E0).
    exists b0. rewrite E0. auto.
  - unfold skip_lp. destruct (take a (l ++ t)) as [[lb r1]|] eqn:E1; [|discriminate].
    destruct (take (be_val lb 0 + b) r1) as [[p r2]|] eqn:E2; [|discriminate].
    intros Heq Hlen. injection Heq as <-.
    assert (Hr1 : (List.length t <= List.length r1)%nat).
    { apply take_Some in E2. destruct E2 as [-> _]. rewrite app_length. lia. }
    destruct (take_cut _ _ _ _ _ E1 Hr1) as (r10 & -> & E10).
    destruct (take_cut _ _ _ _ _ E2 Hlen) as (r20 & -> & E20).
    exists r20. rewrite E10, E20. auto.
  - unfold skip_arrlen. destruct (take k (l ++ t)) as [[lb r1]|] eqn:E; [|discriminate].
    intros Hm Hlen.
    assert (Hr1 : (List.length t <= List.length r1)%nat).
    { apply skip_many_suffix in Hm; [|exact Hs]. destruct Hm as (p & ->). rewrite app_length. lia. }
    destruct (take_cut _ _ _ _ _ E Hr1) as (r10 & -> & E10). rewrite E10.
    apply skip_many_cut'; assumption.
Qed.

Lemma skip_cuts f : cuts (skip f).
Proof.
  induction f as [|f IH]; intros l t r Hl Hlen; [discriminate|].
  destruct l as [|c l0].
  - (* nothing before t: the remainder would be shorter than t *)
    cbn [app] in Hl. apply skip_length in Hl. lia.
  - rewrite <- app_comm_cons, skip_S in Hl. rewrite skip_S. revert Hl Hlen. apply run_cut; [apply skip_suffixing|exact IH].
Qed.

(* the span that Skip finds is one value *)
Lemma skip_span_isval f l r : skip f l = Some r -> isval (firstn (List.length l - List.length r) l).
Proof.
  intros Hl. destruct (skip_suffix _ _ _ Hl) as (pre & -> & _). rewrite firstn_app_exact.
  destruct (skip_cuts f pre r r Hl (Nat.le_refl _)) as (r0 & Hr0 & Hsk).
  assert (r0 = []).
  { assert (Hlen : List.length r = List.length (r0 ++ r)) by (rewrite <- Hr0; reflexivity).
    rewrite app_length in Hlen. destruct r0; [reflexivity|cbn [List.length] in Hlen; lia]. }
  subst r0. exists f. exact Hsk.
Qed.

(* ------------------------------------------------------------------------------------------ *)
(* ranges                                                                                      *)

Lemma dec_uint_len_bound l n r : byte_list l -> dec_uint_len l = Some (n, r) -> n < 2 ^ 64.
Proof.
  rewrite pow_2_64. intros Hl. rewrite dec_uint_len_eq. destruct l as [|c l0]; [discriminate|].
  inversion Hl as [|c0 l1 Hc Hl0]; subst.
  destruct (N.leb_spec c 127) as [H1|H1]. { intros H. injection H as <- _. lia. }
  destruct (N.eqb_spec c 192) as [H2|H2]. { intros H. injection H as <- _. lia. }
  destruct (N.leb_spec 224 c) as [H3|H3]. { intros H. assert (Hn : n = 2 ^ 64 - (256 - c)) by congruence. rewrite Hn, pow_2_64. lia. }
  repeat match goal with |- (if ?b then _ else _) = _ -> _ => destruct b end; try discriminate;
    intros H; apply (rd_be_bound _ _ _ _ _ Hl0) in H; destruct H as (v & -> & Hv);
    rewrite ?p256_1, ?p256_2, ?p256_4, ?p256_8 in Hv; rewrite ?twos8, ?twos16, ?twos32, ?twos64;
    repeat match goal with |- context [if ?a <? ?b then _ else _] => destruct (N.ltb_spec a b) end; lia.
Qed.

Lemma suffix_byte_list (l pre r : bytes) : byte_list l -> l = pre ++ r -> byte_list r.
Proof. intros Hl ->. apply byte_list_app in Hl. apply Hl. Qed.

Lemma consumes_length {A} (dec : bytes -> option (A * bytes)) l a r : consumes dec -> dec l = Some (a, r) ->
  (List.length r < List.length l)%nat.
Proof.
  intros Hc H. apply Hc in H. destruct H as (pre & -> & Hne). rewrite app_length.
  destruct pre; [congruence|cbn [List.length]; lia].
Qed.

Lemma mod_pow_lt n b : n mod 2 ^ b < 2 ^ b.
Proof. apply N.mod_upper_bound, N.pow_nonzero. discriminate. Qed.

(* ------------------------------------------------------------------------------------------ *)
(* DecodeMapLen                                                                                *)

Lemma maplen_code_consumes c r o r' : maplen_code c r = Some (o, r') -> exists p, r = p ++ r'.
Proof.
  unfold maplen_code.
  destruct (c =? 192). { intros H. injection H as _ <-. exists []. reflexivity. }
  destruct ((128 <=? c) && (c <=? 143)). { intros H. injection H as _ <-. exists []. reflexivity. }
  destruct (c =? 222). { intros H. apply rd_be_Some in H. destruct H as (p & -> & _). exists p. reflexivity. }
  destruct (c =? 223). { intros H. apply rd_be_Some in H. destruct H as (p & -> & _). exists p. reflexivity. }
  discriminate.
Qed.

Lemma dec_maplen_consumes ext : consumes (dec_maplen ext).
Proof.
  intros l o r. destruct l as [|c l0]; [discriminate|]. cbn [dec_maplen].
  destruct (ext && is_ext c).
  - destruct (take (ext_skip c) l0) as [[a [|c1 r1]]|] eqn:E; try discriminate.
    apply take_Some in E. destruct E as [-> _]. intros H. apply maplen_code_consumes in H. destruct H as (p & ->).
    exists (c :: a ++ c1 :: p). split; [cbn [app]; rewrite <- app_assoc; reflexivity|discriminate].
  - intros H. apply maplen_code_consumes in H. destruct H as (p & ->). exists (c :: p). split; [reflexivity|discriminate].
Qed.

(* ------------------------------------------------------------------------------------------ *)
(* resource sets: ascending keys whatever the wire order, masks of 16 bits, no more entries than bytes *)

Section RSGood.
  Context {K : Type} (leb : K -> K -> bool) (dk : bytes -> option (K * bytes)) (PK : K -> Prop).
  Hypothesis leb_total : forall a b, leb a b = true \/ leb b a = true.
  Hypothesis leb_antisym : forall a b, leb a b = true -> leb b a = true -> a = b.
  Hypothesis leb_trans : forall a b c, leb a b = true -> leb b c = true -> leb a c = true.
  Hypothesis dk_consumes : consumes dk.
  Hypothesis dk_ok : forall l k r, byte_list l -> dk l = Some (k, r) -> PK k.

  Definition rs_good (m : list (K * N)) : Prop :=
    ksorted leb m /\ Forall (fun e => PK (fst e) /\ snd e < 2 ^ 16) m.

  Lemma dec_rs_entries_good n : forall acc l m r, byte_list l -> rs_good acc ->
    dec_rs_entries dk (set_k leb) n acc l = Some (m, r) ->
    rs_good m /\ (List.length m + List.length r <= List.length acc + List.length l)%nat /\ exists pre, l = pre ++ r.
  Proof.
    induction n as [|n IH]; intros acc l m r Hl Hacc; cbn [dec_rs_entries].
    - intros H. injection H as <- <-. split; [exact Hacc|]. split; [lia|]. exists []. reflexivity.
    - destruct (dk l) as [[k r1]|] eqn:Ek; [|discriminate].
      destruct (dec_uint_len r1) as [[v r2]|] eqn:Ev; [|discriminate].
      pose proof (dk_ok _ _ _ Hl Ek) as Hk.
      pose proof (consumes_length _ _ _ _ dk_consumes Ek) as Hlen1.
      pose proof (consumes_length _ _ _ _ dec_uint_len_consumes Ev) as Hlen2.
      destruct (dk_consumes _ _ _ Ek) as (p1 & Hp1 & _). destruct (dec_uint_len_consumes _ _ _ Ev) as (p2 & Hp2 & _).
      assert (Hr2 : byte_list r2) by (eapply suffix_byte_list; [eapply suffix_byte_list; [exact Hl|exact Hp1]|exact Hp2]).
      assert (Hacc' : rs_good (set_k leb k (v mod 2 ^ 16) acc)).
      { destruct Hacc as [Hs Ha]. split.
        - apply set_k_sorted; assumption.
        - apply set_k_Forall; [split; [exact Hk|apply mod_pow_lt]|exact Ha]. }
      intros H. destruct (IH _ _ _ _ Hr2 Hacc' H) as (Hm & Hsz & (p3 & Hp3)).
      split; [exact Hm|]. split.
      + assert (Hsl : (List.length (set_k leb k (v mod 2 ^ 16) acc) <= S (List.length acc))%nat)
          by (apply set_k_length; assumption).
        lia.
      + exists (p1 ++ p2 ++ p3). rewrite Hp1, Hp2, Hp3, <- !app_assoc. reflexivity.
  Qed.

  Lemma dec_rs_good ext cur l o r : byte_list l -> rs_good (rs_list cur) -> dec_rs dk (set_k leb) ext cur l = Some (o, r) ->
    rs_good (rs_list o) /\ (List.length (rs_list o) + List.length r <= List.length (rs_list cur) + List.length l)%nat /\
    exists pre, l = pre ++ r /\ pre <> [].
  Proof.
    intros Hl Hcur. unfold dec_rs. destruct (dec_maplen ext l) as [[[n|] r1]|] eqn:Em; [| |discriminate].
    - destruct (N.of_nat (List.length r1) <? 2 * n); [discriminate|].
      destruct (dec_rs_entries dk (set_k leb) (N.to_nat n) (rs_list cur) r1) as [[m r2]|] eqn:Ee; [|discriminate].
      intros H. injection H as <- <-.
      destruct (dec_maplen_consumes ext _ _ _ Em) as (p1 & Hp1 & Hne).
      pose proof (consumes_length _ _ _ _ (dec_maplen_consumes ext) Em) as Hlen1.
      destruct (dec_rs_entries_good _ _ _ _ _ (suffix_byte_list _ _ _ Hl Hp1) Hcur Ee) as (Hm & Hsz & (p2 & Hp2)).
      cbn [rs_list]. split; [exact Hm|]. split; [lia|].
      exists (p1 ++ p2). split; [rewrite Hp1, Hp2, app_assoc; reflexivity|]. destruct p1; [congruence|discriminate].
    - intros H. injection H as <- <-. cbn [rs_list]. split; [split; [constructor|constructor]|].
      pose proof (consumes_length _ _ _ _ (dec_maplen_consumes ext) Em) as Hlen1.
      split; [cbn [List.length]; lia|]. apply (dec_maplen_consumes ext _ _ _ Em).
  Qed.
End RSGood.

Lemma dk_s_consumes : consumes dk_s.
Proof.
  intros l k r. unfold dk_s. destruct (dec_str_len l) as [[p r1]|] eqn:E; [|discriminate].
  cbn [option_map fst snd]. intros H. injection H as _ <-. apply (dec_str_len_consumes _ _ _ E).
Qed.
Lemma dk_s_ok l k r : byte_list l -> dk_s l = Some (k, r) -> wf_str k.
Proof.
  intros Hl. unfold dk_s. destruct (dec_str_len l) as [[p r1]|] eqn:E; [|discriminate].
  cbn [option_map fst snd]. intros H. injection H as <- _. apply wf_str_bytes_str, (dec_str_len_bound _ _ _ Hl E).
Qed.
Lemma dk_n_ok l k r : byte_list l -> dk_n l = Some (k, r) -> k < 2 ^ 64.
Proof. apply dec_uint_len_bound. Qed.

Definition rs_good_s : rset string -> Prop := rs_good str_leb wf_str.
Definition rs_good_n : rset N -> Prop := rs_good N.leb (fun k => k < 2 ^ 64).

Lemma rs_good_s_spec rs : rs_good_s rs -> N.of_nat (List.length rs) < 2 ^ 32 -> wf_rs_s rs /\ rs_canon_s rs.
Proof.
  intros [Hs Hall] Hlen. split; [split; [exact Hlen|]|split; [apply ksorted_s_iff, Hs|]].
  - revert Hall. apply Forall_impl. intros e [Hk Hv]. split; [exact Hk|]. eapply N.lt_trans; [exact Hv|reflexivity].
  - revert Hall. apply Forall_impl. intros e [_ Hv]. exact Hv.
Qed.
Lemma rs_good_n_spec rs : rs_good_n rs -> N.of_nat (List.length rs) < 2 ^ 32 -> wf_rs_n rs /\ rs_canon_n rs.
Proof.
  intros [Hs Hall] Hlen. split; [split; [exact Hlen|]|split; [apply ksorted_n_iff, Hs|]].
  - revert Hall. apply Forall_impl. intros e [Hk Hv]. split; [exact Hk|]. eapply N.lt_trans; [exact Hv|reflexivity].
  - revert Hall. apply Forall_impl. intros e [_ Hv]. exact Hv.
Qed.

(* ------------------------------------------------------------------------------------------ *)
(* []string, bool                                                                              *)

Lemma dec_strs_n_good n : forall l ss r, byte_list l -> dec_strs_n n l = Some (ss, r) ->
  Forall wf_str ss /\ (List.length ss + List.length r <= List.length l)%nat /\ exists pre, l = pre ++ r.
Proof.
  induction n as [|n IH]; intros l ss r Hl; cbn [dec_strs_n].
  - intros H. injection H as <- <-. split; [constructor|]. split; [cbn [List.length]; lia|]. exists []. reflexivity.
  - destruct (dec_str_len l) as [[s r1]|] eqn:E; [|discriminate].
    destruct (dec_strs_n n r1) as [[ss' r2]|] eqn:E2; [|discriminate]. intros H. injection H as <- <-.
    pose proof (consumes_length _ _ _ _ dec_str_len_consumes E) as Hlen1.
    destruct (dec_str_len_consumes _ _ _ E) as (p1 & Hp1 & _).
    destruct (IH _ _ _ (suffix_byte_list _ _ _ Hl Hp1) E2) as (Hss & Hsz & (p2 & Hp2)).
    split; [constructor; [apply wf_str_bytes_str, (dec_str_len_bound _ _ _ Hl E)|exact Hss]|].
    split; [cbn [List.length]; lia|]. exists (p1 ++ p2). rewrite Hp1, Hp2, app_assoc. reflexivity.
Qed.

Definition olen {A} (o : option (list A)) : nat := match o with Some l => List.length l | None => 0%nat end.

Lemma dec_strs_len_good l o r : byte_list l -> dec_strs_len l = Some (o, r) ->
  match o with Some ss => Forall wf_str ss | None => True end /\
  (olen o + List.length r <= List.length l)%nat /\ exists pre, l = pre ++ r /\ pre <> [].
Proof.
  intros Hl. unfold dec_strs_len. destruct l as [|c l0]; [discriminate|].
  destruct (c =? 192).
  { intros H. injection H as <- <-. split; [exact I|]. split; [cbn [olen List.length]; lia|].
    exists [c]. split; [reflexivity|discriminate]. }
  destruct (dec_arr_hdr (c :: l0)) as [[n r1]|] eqn:Eh; [|discriminate].
  destruct (N.of_nat (List.length r1) <? n); [discriminate|].
  destruct (dec_strs_n (N.to_nat n) r1) as [[ss r2]|] eqn:E; [|discriminate]. intros H. injection H as <- <-.
  destruct (dec_arr_hdr_consumes _ _ _ Eh) as (p1 & Hp1 & Hne).
  pose proof (consumes_length _ _ _ _ dec_arr_hdr_consumes Eh) as Hlen1.
  destruct (dec_strs_n_good _ _ _ _ (suffix_byte_list _ _ _ Hl Hp1) E) as (Hss & Hsz & (p2 & Hp2)).
  split; [exact Hss|]. split; [cbn [olen]; lia|].
  exists (p1 ++ p2). split; [rewrite Hp1, Hp2, app_assoc; reflexivity|]. destruct p1; [congruence|discriminate].
Qed.

Lemma dec_bool_len_consumes : consumes dec_bool_len.
Proof.
  intros l b r. destruct l as [|c l0]; [discriminate|]. cbn [dec_bool_len].
  destruct ((c =? 192) || (c =? 194)); [|destruct (c =? 195); [|discriminate]];
    intros H; injection H as _ <-; exists [c]; (split; [reflexivity|discriminate]).
Qed.

(* ------------------------------------------------------------------------------------------ *)
(* struct fields                                                                               *)

(* what a set decoder has to guarantee *)
Definition cgood (c : cav) : Prop := wf_cav c /\ canon_cav c.
Definition ds_good (ds : bytes -> option (list cav * bytes)) : Prop :=
  forall l cs r, byte_list l -> N.of_nat (List.length l) < 2 ^ 29 -> ds l = Some (cs, r) ->
  Forall cgood cs /\ (List.length cs + List.length r <= List.length l)%nat /\ exists pre, l = pre ++ r /\ pre <> [].

(* a field value of the right kind, in range; [fsz]: the number of elements it holds *)
Definition fgood (k : fkind2) (v : fval2) : Prop :=
  match k, v with
  | KS, WS s => wf_str s
  | KB, WB o => wf_obin o
  | KU bits, WU n => n < 2 ^ bits
  | KL, WL o => match o with Some ss => Forall wf_str ss | None => True end
  | KBool, WBool _ => True
  | KRS, WRS o => rs_good_s (rs_list o)
  | KRN, WRN o => rs_good_n (rs_list o)
  | KSet, WSet o => Forall cgood (ifs_list o)
  | _, _ => False
  end.
Definition fsz (v : fval2) : nat :=
  match v with
  | WL o => olen o | WRS o => List.length (rs_list o) | WRN o => List.length (rs_list o) | WSet o => List.length (ifs_list o)
  | _ => 0%nat
  end.

Lemma fzero2_good k : fgood k (fzero2 k).
Proof.
  destruct k as [| |bits| | | | |]; cbn [fgood fzero2 rs_list ifs_list]; try exact I.
  - unfold wf_str. cbn [String.length]. rewrite pow_2_32. lia.
  - assert (2 ^ bits <> 0) by (apply N.pow_nonzero; discriminate). lia.
  - split; constructor.
  - split; constructor.
  - constructor.
Qed.
Lemma fzero2_sz k : fsz (fzero2 k) = 0%nat.
Proof. destruct k; reflexivity. Qed.

Section FieldGood.
  Variables (ext pz : bool) (ds : bytes -> option (list cav * bytes)).
  Hypothesis Hds : ds_good ds.

  Lemma dec_field2_good k cur l v r : byte_list l -> N.of_nat (List.length l) < 2 ^ 29 -> fgood k cur ->
    dec_field2 ext pz ds k cur l = Some (v, r) ->
    fgood k v /\ (fsz v + List.length r <= fsz cur + List.length l)%nat /\ exists pre, l = pre ++ r /\ pre <> [].
  Proof.
    intros Hl Hlen Hcur. destruct k as [| |bits| | | | |]; cbn [dec_field2].
    - destruct (dec_str_len l) as [[p r1]|] eqn:E; [|discriminate]. cbn [option_map fst snd]. intros H. injection H as <- <-.
      pose proof (consumes_length _ _ _ _ dec_str_len_consumes E).
      split; [apply wf_str_bytes_str, (dec_str_len_bound _ _ _ Hl E)|]. split; [cbn [fsz]; lia|apply (dec_str_len_consumes _ _ _ E)].
    - destruct (dec_bytes_len l) as [[o r1]|] eqn:E; [|discriminate]. cbn [option_map fst snd]. intros H. injection H as <- <-.
      pose proof (consumes_length _ _ _ _ dec_bytes_len_consumes E).
      split; [|split; [cbn [fsz]; lia|apply (dec_bytes_len_consumes _ _ _ E)]].
      destruct o as [p|]; cbn [fgood wf_obin]; [apply (dec_bytes_len_bound _ _ _ Hl E)|exact I].
    - destruct (dec_uint_len l) as [[n r1]|] eqn:E; [|discriminate]. cbn [option_map fst snd]. intros H. injection H as <- <-.
      pose proof (consumes_length _ _ _ _ dec_uint_len_consumes E).
      split; [apply mod_pow_lt|]. split; [cbn [fsz]; lia|apply (dec_uint_len_consumes _ _ _ E)].
    - destruct (dec_strs_len l) as [[[ss|] r1]|] eqn:E; [| |discriminate]; intros H; injection H as <- <-;
        destruct (dec_strs_len_good _ _ _ Hl E) as (Hss & Hsz & Hpre).
      + split; [exact Hss|]. split; [cbn [fsz olen] in *; lia|exact Hpre].
      + split; [exact Hcur|]. split; [cbn [olen] in Hsz; lia|exact Hpre].
    - destruct (dec_bool_len l) as [[b r1]|] eqn:E; [|discriminate]. cbn [option_map fst snd]. intros H. injection H as <- <-.
      pose proof (consumes_length _ _ _ _ dec_bool_len_consumes E).
      split; [exact I|]. split; [cbn [fsz]; lia|apply (dec_bool_len_consumes _ _ _ E)].
    - destruct (dec_rs dk_s set_s ext (cur_rs cur) l) as [[o r1]|] eqn:E; [|discriminate].
      cbn [option_map fst snd]. intros H. injection H as <- <-.
      assert (Hc : rs_good_s (rs_list (cur_rs cur))).
      { destruct cur; cbn [cur_rs rs_list]; try (split; constructor). exact Hcur. }
      destruct (dec_rs_good str_leb dk_s wf_str str_leb_total str_leb_antisym str_leb_trans dk_s_consumes dk_s_ok
                  ext _ _ _ _ Hl Hc E) as (Ho & Hsz & Hpre).
      split; [exact Ho|]. split; [|exact Hpre].
      cbn [fsz]. assert ((List.length (rs_list (cur_rs cur)) <= fsz cur)%nat) by (destruct cur; cbn [cur_rs rs_list fsz List.length]; lia). lia.
    - destruct (dec_rs dk_n set_n ext (cur_rn cur) l) as [[o r1]|] eqn:E; [|discriminate].
      cbn [option_map fst snd]. intros H. injection H as <- <-.
      assert (Hc : rs_good_n (rs_list (cur_rn cur))).
      { destruct cur; cbn [cur_rn rs_list]; try (split; constructor). exact Hcur. }
      destruct (dec_rs_good N.leb dk_n (fun k => k < 2 ^ 64) nleb_total nleb_antisym nleb_trans dec_uint_len_consumes dk_n_ok
                  ext _ _ _ _ Hl Hc E) as (Ho & Hsz & Hpre).
      split; [exact Ho|]. split; [|exact Hpre].
      cbn [fsz]. assert ((List.length (rs_list (cur_rn cur)) <= fsz cur)%nat) by (destruct cur; cbn [cur_rn rs_list fsz List.length]; lia). lia.
    - destruct l as [|c l0]; [discriminate|]. destruct (c =? 192).
      { intros H. injection H as <- <-. split; [|split; [|exists [c]; split; [reflexivity|discriminate]]].
        - destruct cur as [| | | | | | |[o|]]; try constructor. destruct pz; constructor.
        - assert (Hz : forall o' : option (list cav), (o' = None \/ o' = Some []) -> fsz (WSet o') = 0%nat)
            by (intros o' [->| ->]; reflexivity).
          rewrite Hz; [cbn [List.length]; lia|]. destruct cur as [| | | | | | |[o|]]; auto. destruct pz; auto. }
      destruct (ds (c :: l0)) as [[cs r1]|] eqn:E; [|discriminate]. cbn [option_map fst snd]. intros H. injection H as <- <-.
      destruct (Hds _ _ _ Hl Hlen E) as (Hcs & Hsz & Hpre).
      assert (Hc : Forall cgood (cur_set cur) /\ (List.length (cur_set cur) <= fsz cur)%nat).
      { destruct cur; cbn [cur_set fsz ifs_list]; try (split; [constructor|cbn [List.length]; lia]). split; [exact Hcur|lia]. }
      split; [cbn [fgood ifs_list]; apply Forall_app; split; [apply Hc|exact Hcs]|]. split; [|exact Hpre].
      cbn [fsz ifs_list]. rewrite app_length. lia.
  Qed.

  (* array form *)
  Lemma dec_fields2_good ks : forall l vs r, byte_list l -> N.of_nat (List.length l) < 2 ^ 29 ->
    dec_fields2 ext pz ds ks l = Some (vs, r) ->
    Forall2 fgood ks vs /\ Forall (fun v => (fsz v + List.length r <= List.length l)%nat) vs /\ exists pre, l = pre ++ r.
  Proof.
    induction ks as [|k ks IH]; intros l vs r Hl Hlen; cbn [dec_fields2].
    - intros H. injection H as <- <-. split; [constructor|]. split; [constructor|]. exists []. reflexivity.
    - destruct (dec_field2 ext pz ds k (fzero2 k) l) as [[v r1]|] eqn:E; [|discriminate].
      destruct (dec_fields2 ext pz ds ks r1) as [[vs' r2]|] eqn:E2; [|discriminate]. intros H. injection H as <- <-.
      destruct (dec_field2_good _ _ _ _ _ Hl Hlen (fzero2_good k) E) as (Hv & Hsz & (p1 & Hp1 & _)).
      rewrite fzero2_sz in Hsz.
      assert (Hlen1 : (List.length r1 <= List.length l)%nat) by (rewrite Hp1, app_length; lia).
      destruct (IH _ _ _ (suffix_byte_list _ _ _ Hl Hp1) ltac:(lia) E2) as (Hvs & Hszs & (p2 & Hp2)).
      assert (Hlen2 : (List.length r2 <= List.length r1)%nat) by (rewrite Hp2, app_length; lia).
      split; [constructor; assumption|]. split.
      + constructor; [lia|]. revert Hszs. apply Forall_impl. intros w Hw. lia.
      + exists (p1 ++ p2). rewrite Hp1, Hp2, app_assoc. reflexivity.
  Qed.

  Lemma find_field2_nth sch name : forall i0 i k, find_field2 sch name i0 = Some (i, k) ->
    exists j, i = (i0 + j)%nat /\ nth_error (map snd sch) j = Some k.
  Proof.
    induction sch as [|[nm0 k0] sch IH]; intros i0 i k; cbn [find_field2]; [discriminate|].
    destruct (bytes_eqb nm0 name).
    - intros H. injection H as <- <-. exists 0%nat. split; [lia|reflexivity].
    - intros H. apply IH in H. destruct H as (j & -> & Hj). exists (S j). split; [lia|exact Hj].
  Qed.

  Lemma nth_good ks : forall vs i k (P : fval2 -> Prop), Forall2 fgood ks vs -> Forall P vs -> nth_error ks i = Some k ->
    P (fzero2 k) -> fgood k (nth i vs (fzero2 k)) /\ P (nth i vs (fzero2 k)).
  Proof.
    induction ks as [|k0 ks IH]; intros vs i k P HF HP Hn Hz.
    - destruct i; discriminate.
    - inversion HF as [|k1 v1 ks1 vs1 H1 H2]; subst. inversion HP as [|v2 vs2 Hp1 Hp2]; subst.
      destruct i as [|i]; cbn [nth_error nth] in *.
      + injection Hn as ->. auto.
      + apply IH; assumption.
  Qed.

  Lemma set_nth2_good ks : forall vs i k v (P : fval2 -> Prop), Forall2 fgood ks vs -> Forall P vs -> nth_error ks i = Some k ->
    fgood k v -> P v -> Forall2 fgood ks (set_nth2 i v vs) /\ Forall P (set_nth2 i v vs).
  Proof.
    induction ks as [|k0 ks IH]; intros vs i k v P HF HP Hn Hv Hpv.
    - destruct i; discriminate.
    - inversion HF as [|k1 v1 ks1 vs1 H1 H2]; subst. inversion HP as [|v2 vs2 Hp1 Hp2]; subst.
      destruct i as [|i]; cbn [nth_error set_nth2] in *.
      + injection Hn as ->. split; constructor; assumption.
      + destruct (IH _ _ _ _ P H2 Hp2 Hn Hv Hpv) as [Ha Hb]. split; constructor; assumption.
  Qed.

  (* map form: [L] is the length of the whole struct value's input; every field holds at most as many elements as bytes
     were read so far *)
  Lemma dec_map_entries2_good sch (L : nat) n : forall vs l vs' r, byte_list l -> (List.length l <= L)%nat ->
    N.of_nat L < 2 ^ 29 ->
    Forall2 fgood (map snd sch) vs -> Forall (fun v => (fsz v + List.length l <= L)%nat) vs ->
    dec_map_entries2 ext pz ds sch n vs l = Some (vs', r) ->
    Forall2 fgood (map snd sch) vs' /\ Forall (fun v => (fsz v + List.length r <= L)%nat) vs' /\ exists pre, l = pre ++ r.
  Proof.
    induction n as [|n IH]; intros vs l vs' r Hl HL HL29 Hvs Hsz; cbn [dec_map_entries2].
    - intros H. injection H as <- <-. split; [exact Hvs|]. split; [exact Hsz|]. exists []. reflexivity.
    - destruct (dec_str_len l) as [[name r1]|] eqn:E; [|discriminate].
      destruct (dec_str_len_consumes _ _ _ E) as (p1 & Hp1 & _).
      pose proof (consumes_length _ _ _ _ dec_str_len_consumes E) as Hlen1.
      pose proof (suffix_byte_list _ _ _ Hl Hp1) as Hr1.
      destruct (find_field2 sch name 0) as [[i k]|] eqn:Ef.
      + destruct (dec_field2 ext pz ds k (nth i vs (fzero2 k)) r1) as [[v r2]|] eqn:E2; [|discriminate].
        apply find_field2_nth in Ef. destruct Ef as (j & -> & Hj). cbn [Nat.add] in *.
        destruct (nth_good _ _ _ _ (fun v => (fsz v + List.length l <= L)%nat) Hvs Hsz Hj
                    ltac:(cbv beta; rewrite fzero2_sz; lia)) as (Hcg & Hcs).
        cbv beta in Hcs.
        destruct (dec_field2_good _ _ _ _ _ Hr1 ltac:(lia) Hcg E2) as (Hv & Hvsz & (p2 & Hp2 & _)).
        assert (Hlen2 : (List.length r2 <= List.length r1)%nat) by (rewrite Hp2, app_length; lia).
        intros H.
        assert (Hsz' : Forall (fun v => (fsz v + List.length r2 <= L)%nat) vs).
        { revert Hsz. apply Forall_impl. intros w Hw. lia. }
        destruct (set_nth2_good _ _ _ _ v (fun v => (fsz v + List.length r2 <= L)%nat) Hvs Hsz' Hj Hv ltac:(cbv beta; lia)) as (Ha & Hb).
        destruct (IH _ _ _ _ (suffix_byte_list _ _ _ Hr1 Hp2) ltac:(lia) HL29 Ha Hb H) as (Hr & Hrs & (p3 & Hp3)).
        split; [exact Hr|]. split; [exact Hrs|]. exists (p1 ++ p2 ++ p3). rewrite Hp1, Hp2, Hp3, <- !app_assoc. reflexivity.
      + destruct (skip (S (List.length r1)) r1) as [r2|] eqn:E2; [|discriminate].
        destruct (skip_suffix _ _ _ E2) as (p2 & Hp2 & _).
        assert (Hlen2 : (List.length r2 <= List.length r1)%nat) by (rewrite Hp2, app_length; lia).
        intros H.
        assert (Hsz' : Forall (fun v => (fsz v + List.length r2 <= L)%nat) vs).
        { revert Hsz. apply Forall_impl. intros w Hw. lia. }
        destruct (IH _ _ _ _ (suffix_byte_list _ _ _ Hr1 Hp2) ltac:(lia) HL29 Hvs Hsz' H) as (Hr & Hrs & (p3 & Hp3)).
        split; [exact Hr|]. split; [exact Hrs|]. exists (p1 ++ p2 ++ p3). rewrite Hp1, Hp2, Hp3, <- !app_assoc. reflexivity.
  Qed.

  Lemma fzeros2_good sch : Forall2 fgood (map snd sch) (fzeros2 sch).
  Proof. unfold fzeros2. induction sch as [|e sch IH]; cbn [map]; constructor; [apply fzero2_good|exact IH]. Qed.
  Lemma fzeros2_sz sch (m : nat) : Forall (fun v => (fsz v + m <= m)%nat) (fzeros2 sch).
  Proof. unfold fzeros2. induction sch as [|e sch IH]; cbn [map]; constructor; [rewrite fzero2_sz; lia|exact IH]. Qed.

  (* decodeStructValue *)
  Lemma dec_struct2_good sch l vs r : byte_list l -> N.of_nat (List.length l) < 2 ^ 29 ->
    dec_struct2 ext pz ds sch l = Some (vs, r) ->
    Forall2 fgood (map snd sch) vs /\ Forall (fun v => (fsz v + List.length r <= List.length l)%nat) vs /\
    exists pre, l = pre ++ r /\ pre <> [].
  Proof.
    intros Hl Hlen. destruct l as [|c l0]; [discriminate|]. unfold dec_struct2.
    assert (Hl0 : byte_list l0) by (inversion Hl; assumption).
    assert (Hzero : forall r' : bytes, (List.length r' <= List.length (c :: l0))%nat ->
              Forall (fun v => (fsz v + List.length r' <= List.length (c :: l0))%nat) (fzeros2 sch)).
    { intros r' Hr'. generalize (fzeros2_sz sch (List.length r')). apply Forall_impl. intros w Hw. lia. }
    assert (Hmap : forall n (l1 p : bytes), l0 = p ++ l1 -> dec_map2 ext pz ds sch n l1 = Some (vs, r) ->
              Forall2 fgood (map snd sch) vs /\ Forall (fun v => (fsz v + List.length r <= List.length (c :: l0))%nat) vs /\
              exists pre, c :: l0 = pre ++ r /\ pre <> []).
    { intros n l1 p Hp H. unfold dec_map2 in H. destruct (N.of_nat (List.length l1) <? 2 * n); [discriminate|].
      assert (Hl1 : (List.length l1 <= List.length (c :: l0))%nat) by (rewrite Hp; cbn [List.length]; rewrite app_length; lia).
      destruct (dec_map_entries2_good sch (List.length (c :: l0)) _ _ _ _ _ (suffix_byte_list _ _ _ Hl0 Hp) Hl1 Hlen
                  (fzeros2_good sch) ltac:(generalize (fzeros2_sz sch (List.length l1)); apply Forall_impl; intros w Hw; lia) H)
        as (Ha & Hb & (p2 & Hp2)).
      split; [exact Ha|]. split; [exact Hb|]. exists (c :: p ++ p2). split; [|discriminate].
      rewrite Hp, Hp2. cbn [app]. rewrite <- app_assoc. reflexivity. }
    destruct (c =? 192).
    { intros H. injection H as <- <-. split; [apply fzeros2_good|]. split; [apply Hzero; cbn [List.length]; lia|].
      exists [c]. split; [reflexivity|discriminate]. }
    destruct ((128 <=? c) && (c <=? 143)). { apply (Hmap _ l0 []). reflexivity. }
    destruct (c =? 222).
    { destruct (take 2 l0) as [[lb r1]|] eqn:E; [|discriminate]. apply take_Some in E. destruct E as [E _]. apply (Hmap _ r1 lb E). }
    destruct (c =? 223).
    { destruct (take 4 l0) as [[lb r1]|] eqn:E; [|discriminate]. apply take_Some in E. destruct E as [E _]. apply (Hmap _ r1 lb E). }
    destruct (dec_arr_hdr (c :: l0)) as [[n r1]|] eqn:E; [|discriminate].
    destruct (dec_arr_hdr_consumes _ _ _ E) as (p1 & Hp1 & Hne).
    pose proof (consumes_length _ _ _ _ dec_arr_hdr_consumes E) as Hlen1.
    destruct (n =? 0).
    { intros H. injection H as <- <-. split; [apply fzeros2_good|]. split; [apply Hzero; lia|]. exists p1. auto. }
    destruct (n =? N.of_nat (List.length sch)); [|discriminate].
    intros H. destruct (dec_fields2_good _ _ _ _ (suffix_byte_list _ _ _ Hl Hp1) ltac:(lia) H) as (Ha & Hb & (p2 & Hp2)).
    split; [exact Ha|]. split; [revert Hb; apply Forall_impl; intros w Hw; lia|].
    exists (p1 ++ p2). split; [rewrite Hp1, Hp2, app_assoc; reflexivity|]. destruct p1; [congruence|discriminate].
  Qed.
End FieldGood.

(* ------------------------------------------------------------------------------------------ *)
(* the non-scalar types                                                                        *)

Lemma len29_32 (n m : nat) : N.of_nat m < 2 ^ 29 -> (n <= m)%nat -> N.of_nat n < 2 ^ 32.
Proof. change (2 ^ 29) with 536870912. rewrite pow_2_32. lia. Qed.
Lemma len29_31 (n m : nat) : N.of_nat m < 2 ^ 29 -> (n <= m)%nat -> N.of_nat n < 2 ^ 31.
Proof. change (2 ^ 29) with 536870912. rewrite pow_2_31. lia. Qed.

Definition dc_good (dc : N -> bytes -> option (cav * bytes)) : Prop :=
  forall ty b c r, ty < 2 ^ 64 -> byte_list b -> N.of_nat (List.length b) < 2 ^ 29 -> dc ty b = Some (c, r) ->
  cav_type c = ty /\ cgood c /\ exists pre, b = pre ++ r /\ pre <> [].

Section LeafGood.
  Variables (ext pz : bool) (ds : bytes -> option (list cav * bytes)).
  Hypothesis Hds : ds_good ds.

  Ltac struct_good sch b Hb Hlen :=
    let E := fresh "E" in let vs := fresh "vs" in let r1 := fresh "r1" in
    destruct (dec_struct2 ext pz ds sch b) as [[vs r1]|] eqn:E; [|discriminate];
    apply (dec_struct2_good ext pz ds Hds _ _ _ _ Hb Hlen) in E;
    repeat match goal with |- match ?v with _ => _ end = _ -> _ => is_var v; destruct v end;
    try discriminate;
    let H := fresh "H" in intros H; injection H as <- <-;
    let Hg := fresh "Hg" in let Hz := fresh "Hz" in let Hp := fresh "Hp" in
    destruct E as (Hg & Hz & Hp);
    unfold sch_rs, sch_apps, sch_mut, sch_3p, sch_ifp in Hg; cbn [map snd] in Hg;
    repeat match goal with HF : Forall2 fgood (_ :: _) (_ :: _) |- _ => inversion HF; subst; clear HF end;
    repeat match goal with HF : Forall _ (_ :: _) |- _ => inversion HF; subst; clear HF end;
    cbn [fgood fsz] in *.

  Lemma dec_rs_cav_good name Kc b c r : byte_list b -> N.of_nat (List.length b) < 2 ^ 29 ->
    (forall rs, wf_rs_s rs -> rs_canon_s rs -> cgood (Kc rs)) ->
    dec_rs_cav ext pz ds name Kc b = Some (c, r) ->
    (exists rs, c = Kc rs) /\ cgood c /\ exists pre, b = pre ++ r /\ pre <> [].
  Proof.
    intros Hb Hlen HK. unfold dec_rs_cav. struct_good (sch_rs name) b Hb Hlen.
    split; [eexists; reflexivity|]. split; [|exact Hp].
    match goal with Hr : rs_good_s _ |- _ => destruct (rs_good_s_spec _ Hr) as [Hw Hc] end.
    { apply (len29_32 _ _ Hlen). lia. }
    apply HK; assumption.
  Qed.

  Lemma cgood_rs_s (Kc : rset string -> cav) :
    (forall rs, wf_cav (Kc rs) = wf_rs_s rs) ->
    (forall rs, canon_cav (Kc rs) = (fits_cav (Kc rs) = true /\ rs_canon_s rs)) -> (forall rs, fits_cav (Kc rs) = true) ->
    forall rs, wf_rs_s rs -> rs_canon_s rs -> cgood (Kc rs).
  Proof. intros H1 H2 H3 rs Hw Hc. split; [rewrite H1; exact Hw|rewrite H2; split; [apply H3|exact Hc]]. Qed.

  Lemma dec_cmds_n_good n : forall l cs r, byte_list l -> N.of_nat (List.length l) < 2 ^ 29 ->
    dec_cmds_n ext pz ds n l = Some (cs, r) ->
    Forall (fun ce => wf_ostrs (fst ce)) cs /\ (List.length cs + List.length r <= List.length l)%nat /\ exists pre, l = pre ++ r.
  Proof.
    induction n as [|n IH]; intros l cs r Hl Hlen; cbn [dec_cmds_n].
    - intros H. injection H as <- <-. split; [constructor|]. split; [cbn [List.length]; lia|]. exists []. reflexivity.
    - destruct (dec_struct2 ext pz ds sch_cmd l) as [[vs r1]|] eqn:E; [|discriminate].
      apply (dec_struct2_good ext pz ds Hds _ _ _ _ Hl Hlen) in E. destruct E as (Hg & Hz & (p1 & Hp1 & Hne)).
      destruct vs as [|[| | |a| | | |] [|[| | | |e| | |] [|? ?]]]; try discriminate.
      destruct (dec_cmds_n ext pz ds n r1) as [[cs' r2]|] eqn:E2; [|discriminate]. intros H. injection H as <- <-.
      assert (Hlen1 : (List.length r1 < List.length l)%nat).
      { rewrite Hp1, app_length. destruct p1; [congruence|cbn [List.length]; lia]. }
      destruct (IH _ _ _ (suffix_byte_list _ _ _ Hl Hp1) ltac:(lia) E2) as (Hcs & Hsz & (p2 & Hp2)).
      unfold sch_cmd in Hg. cbn [map snd] in Hg.
      assert (Ha : fgood KL (WL a)) by (inversion Hg; assumption). cbn [fgood] in Ha.
      assert (Hza : (fsz (WL a) + List.length r1 <= List.length l)%nat) by (inversion Hz; assumption). cbn [fsz] in Hza.
      split; [constructor; [|exact Hcs]|].
      + cbn [fst]. destruct a as [ss|]; cbn [wf_ostrs]; [|exact I]. split; [|exact Ha].
        apply (len29_32 _ _ Hlen). cbn [olen] in Hza. lia.
      + split; [cbn [List.length]; lia|]. exists (p1 ++ p2). rewrite Hp1, Hp2, app_assoc. reflexivity.
  Qed.

  Lemma dec_commands_good b c r : byte_list b -> N.of_nat (List.length b) < 2 ^ 29 -> dec_commands ext pz ds b = Some (c, r) ->
    cav_type c = 27 /\ cgood c /\ exists pre, b = pre ++ r /\ pre <> [].
  Proof.
    intros Hb Hlen. unfold dec_commands. destruct b as [|x b0]; [discriminate|].
    destruct (x =? 192).
    { intros H. injection H as <- <-. split; [reflexivity|]. split; [split; [exact I|split; [reflexivity|exact I]]|].
      exists [x]. split; [reflexivity|discriminate]. }
    destruct (dec_arr_hdr (x :: b0)) as [[n r1]|] eqn:Eh; [|discriminate].
    destruct (N.of_nat (List.length r1) <? n); [discriminate|].
    destruct (dec_cmds_n ext pz ds (N.to_nat n) r1) as [[cs r2]|] eqn:E; [|discriminate]. intros H. injection H as <- <-.
    destruct (dec_arr_hdr_consumes _ _ _ Eh) as (p1 & Hp1 & Hne).
    pose proof (consumes_length _ _ _ _ dec_arr_hdr_consumes Eh) as Hlen1.
    destruct (dec_cmds_n_good _ _ _ _ (suffix_byte_list _ _ _ Hb Hp1) ltac:(lia) E) as (Hcs & Hsz & (p2 & Hp2)).
    split; [reflexivity|]. split.
    - split; [cbn [wf_cav]; split; [apply (len29_32 _ _ Hlen); lia|exact Hcs]|split; [reflexivity|exact I]].
    - exists (p1 ++ p2). split; [rewrite Hp1, Hp2, app_assoc; reflexivity|]. destruct p1; [congruence|discriminate].
  Qed.

  Lemma dec_leaf2_good ty b c r : byte_list b -> N.of_nat (List.length b) < 2 ^ 29 -> dec_leaf2 ext pz ds ty b = Some (c, r) ->
    cav_type c = ty /\ cgood c /\ exists pre, b = pre ++ r /\ pre <> [].
  Proof.
    intros Hb Hlen. unfold dec_leaf2.
    assert (Hrs : forall name Kc k, (forall rs, cav_type (Kc rs) = k) ->
              (forall rs, wf_rs_s rs -> rs_canon_s rs -> cgood (Kc rs)) ->
              dec_rs_cav ext pz ds name Kc b = Some (c, r) ->
              cav_type c = k /\ cgood c /\ exists pre, b = pre ++ r /\ pre <> []).
    { intros name Kc k Hk HK H. destruct (dec_rs_cav_good _ _ _ _ _ Hb Hlen HK H) as ((rs & ->) & Hg & Hp). auto. }
    destruct (N.eqb_spec ty 2) as [->|_].
    { apply Hrs; [reflexivity|]. apply cgood_rs_s; reflexivity. }
    destruct (N.eqb_spec ty 3) as [->|_].
    { struct_good sch_apps b Hb Hlen. split; [reflexivity|]. split; [|exact Hp].
      match goal with Hr : rs_good_n _ |- _ => destruct (rs_good_n_spec _ Hr) as [Hw Hc] end.
      { apply (len29_32 _ _ Hlen). lia. }
      split; [exact Hw|split; [reflexivity|exact Hc]]. }
    destruct (N.eqb_spec ty 5) as [->|_].
    { apply Hrs; [reflexivity|]. apply cgood_rs_s; reflexivity. }
    destruct (N.eqb_spec ty 6) as [->|_].
    { struct_good sch_mut b Hb Hlen. split; [reflexivity|]. split; [|exact Hp].
      split; [|split; [reflexivity|exact I]]. cbn [wf_cav].
      match goal with |- wf_ostrs ?o => destruct o as [ss|]; cbn [wf_ostrs olen] in *; [|exact I] end.
      split; [apply (len29_32 _ _ Hlen); lia|assumption]. }
    destruct (N.eqb_spec ty 7) as [->|_].
    { apply Hrs; [reflexivity|]. apply cgood_rs_s; reflexivity. }
    destruct (N.eqb_spec ty 11) as [->|_].
    { struct_good sch_3p b Hb Hlen. split; [reflexivity|]. split; [|exact Hp].
      split; [cbn [wf_cav]; auto|split; [reflexivity|exact I]]. }
    destruct (N.eqb_spec ty 13) as [->|_].
    { struct_good sch_ifp b Hb Hlen. split; [reflexivity|]. split; [|exact Hp].
      match goal with Hs : Forall cgood (ifs_list ?o), He : ?n < 2 ^ 16 |- cgood (CIfPresent ?o ?n) =>
        destruct o as [l|]; cbn [ifs_list] in *;
        [split; [apply wf_cav_ifs|apply canon_cav_ifs]|split; [cbn [wf_cav]|cbn [canon_cav fits_cav]]] end.
      - split; [eapply N.lt_trans; [eassumption|reflexivity]|]. split; [apply (len29_31 _ _ Hlen); lia|].
        match goal with Hs : Forall cgood _ |- _ => revert Hs; apply Forall_impl; intros ? [? ?]; assumption end.
      - split; [assumption|].
        match goal with Hs : Forall cgood _ |- _ => revert Hs; apply Forall_impl; intros ? [? ?]; assumption end.
      - split; [eapply N.lt_trans; [eassumption|reflexivity]|exact I].
      - auto. }
    destruct (N.eqb_spec ty 14) as [->|_].
    { apply Hrs; [reflexivity|]. apply cgood_rs_s; reflexivity. }
    destruct (N.eqb_spec ty 16) as [->|_].
    { apply Hrs; [reflexivity|]. apply cgood_rs_s; reflexivity. }
    destruct (N.eqb_spec ty 27) as [->|_]. { apply dec_commands_good; assumption. }
    destruct (N.eqb_spec ty 28) as [->|_].
    { apply Hrs; [reflexivity|]. apply cgood_rs_s; reflexivity. }
    destruct (N.eqb_spec ty 29) as [->|_].
    { apply Hrs; [reflexivity|]. apply cgood_rs_s; reflexivity. }
    discriminate.
  Qed.
End LeafGood.

(* ------------------------------------------------------------------------------------------ *)
(* unregistered types, sets, and the recursion                                                 *)

Lemma dec_unreg_good ty b c r : ty < 2 ^ 64 -> reg_ty ty = false -> dec_unreg ty b = Some (c, r) ->
  cav_type c = ty /\ cgood c /\ exists pre, b = pre ++ r /\ pre <> [].
Proof.
  intros Hty Hreg. unfold dec_unreg. destruct (skip (S (List.length b)) b) as [rest|] eqn:Es; [|discriminate].
  destruct (gen_ok (firstn (List.length b - List.length rest) b)) eqn:Eg; [|discriminate].
  intros H. injection H as <- <-. split; [reflexivity|]. split; [|apply (skip_suffix _ _ _ Es)].
  split; [cbn [wf_cav]; split; [exact Hty|]|cbn [canon_cav fits_cav]; auto].
  apply isval_iff, (skip_span_isval _ _ _ Es).
Qed.

Lemma dec_items_good dc n : dc_good dc -> forall l cs r, byte_list l -> N.of_nat (List.length l) < 2 ^ 29 ->
  dec_items dc n l = Some (cs, r) ->
  Forall cgood cs /\ (2 * List.length cs + List.length r <= List.length l)%nat /\ exists pre, l = pre ++ r.
Proof.
  intros Hdc. induction n as [|n IH]; intros l cs r Hl Hlen; cbn [dec_items].
  - intros H. injection H as <- <-. split; [constructor|]. split; [cbn [List.length]; lia|]. exists []. reflexivity.
  - destruct (dec_uint_len l) as [[ty r1]|] eqn:Et; [|discriminate].
    destruct (dc ty r1) as [[c r2]|] eqn:Ec; [|discriminate].
    destruct (dec_items dc n r2) as [[cs' r3]|] eqn:Ei; [|discriminate]. intros H. injection H as <- <-.
    destruct (dec_uint_len_consumes _ _ _ Et) as (p1 & Hp1 & _).
    pose proof (consumes_length _ _ _ _ dec_uint_len_consumes Et) as Hlen1.
    pose proof (suffix_byte_list _ _ _ Hl Hp1) as Hr1.
    destruct (Hdc _ _ _ _ (dec_uint_len_bound _ _ _ Hl Et) Hr1 ltac:(lia) Ec) as (_ & Hc & (p2 & Hp2 & Hne)).
    assert (Hlen2 : (List.length r2 < List.length r1)%nat).
    { rewrite Hp2, app_length. destruct p2; [congruence|cbn [List.length]; lia]. }
    destruct (IH _ _ _ (suffix_byte_list _ _ _ Hr1 Hp2) ltac:(lia) Ei) as (Hcs & Hsz & (p3 & Hp3)).
    split; [constructor; assumption|]. split; [cbn [List.length]; lia|].
    exists (p1 ++ p2 ++ p3). rewrite Hp1, Hp2, Hp3, <- !app_assoc. reflexivity.
Qed.

Lemma dec_set_rest_good dc : dc_good dc -> ds_good (dec_set_rest dc).
Proof.
  intros Hdc l cs r Hl Hlen. unfold dec_set_rest.
  destruct (dec_arr_hdr l) as [[n r1]|] eqn:Eh; [|discriminate].
  destruct (N.odd n); [discriminate|]. destruct (N.of_nat (List.length r1) <? n); [discriminate|].
  intros H. destruct (dec_arr_hdr_consumes _ _ _ Eh) as (p1 & Hp1 & Hne).
  pose proof (consumes_length _ _ _ _ dec_arr_hdr_consumes Eh) as Hlen1.
  destruct (dec_items_good dc _ Hdc _ _ _ (suffix_byte_list _ _ _ Hl Hp1) ltac:(lia) H) as (Hcs & Hsz & (p2 & Hp2)).
  split; [exact Hcs|]. split; [lia|].
  exists (p1 ++ p2). split; [rewrite Hp1, Hp2, app_assoc; reflexivity|]. destruct p1; [congruence|discriminate].
Qed.

Lemma canon_scalar c : scalar_cav c = true -> fits_cav c = true -> canon_cav c.
Proof. destruct c; try discriminate; intros _ Hf; cbn [canon_cav]; auto. Qed.

Lemma dec_cav_dc_good ext pz fuel : dc_good (dec_cav ext pz fuel).
Proof.
  induction fuel as [|f IH]; intros ty b c r Hty Hb Hlen; cbn [dec_cav]; [discriminate|].
  destruct (scalar_ty ty) eqn:Es.
  { intros H. destruct (dec_body_rest_wf_l _ _ _ _ Hb Hlen H) as (Ht & Hsc & Hf & Hw).
    split; [exact Ht|]. split; [split; [exact Hw|apply canon_scalar; assumption]|].
    apply (dec_body_rest_consumes_l _ _ _ _ H). }
  destruct (nonscalar_ty ty) eqn:En.
  { apply dec_leaf2_good; [apply dec_set_rest_good, IH|exact Hb|exact Hlen]. }
  apply dec_unreg_good; [exact Hty|]. unfold reg_ty. rewrite Es, En. reflexivity.
Qed.

(* whatever is accepted is a caveat of the announced type, well-formed and in canonical form; a non-empty prefix was read *)
Theorem dec_cav_good_l ext pz fuel ty b c r : ty < 2 ^ 64 -> byte_list b -> N.of_nat (List.length b) < 2 ^ 29 ->
  dec_cav ext pz fuel ty b = Some (c, r) ->
  cav_type c = ty /\ wf_cav c /\ canon_cav c /\ exists pre, b = pre ++ r /\ pre <> [].
Proof.
  intros Hty Hb Hlen H. destruct (dec_cav_dc_good ext pz fuel _ _ _ _ Hty Hb Hlen H) as (Ht & [Hw Hc] & Hp). auto.
Qed.

(* ------------------------------------------------------------------------------------------ *)
(* well-formed caveats have an encoding                                                        *)

Lemma wf_enc_frames l : Forall (fun c => exists b, enc_body c = Some b) l -> exists b, enc_frames l = Some b.
Proof.
  induction 1 as [|c l [b Hb] _ [bs Hbs]]; cbn [enc_frames]; [eauto|]. rewrite Hb, Hbs. eauto.
Qed.

Lemma wf_enc_body c : wf_cav c -> exists b, enc_body c = Some b.
Proof.
  induction c as [c Hleaf|els|l els IH] using cav_ind'.
  - destruct c; try (exfalso; exact (Hleaf _ _ eq_refl)); cbn [enc_body]; eauto.
    + destruct cmds; eauto.
    + cbn [wf_cav]. intros [_ Hsk]. destruct body as [|x body]; [rewrite skip_nil in Hsk; discriminate|eauto].
  - cbn [enc_body]. eauto.
  - rewrite wf_cav_ifs, enc_body_ifs. intros (_ & _ & Hwf).
    destruct (wf_enc_frames l) as (inner & ->); [|eauto].
    rewrite Forall_forall in *. intros c Hin. apply IH; [exact Hin|apply Hwf, Hin].
Qed.

Lemma wf_enc_set cs : Forall wf_cav cs -> exists b, enc_set cs = Some b.
Proof.
  intros Hwf. unfold enc_set. destruct (wf_enc_frames cs) as (fr & ->); [|cbn [option_map]; eauto].
  revert Hwf. apply Forall_impl. apply wf_enc_body.
Qed.

(* ------------------------------------------------------------------------------------------ *)
(* what is accepted has a canonical encoding, and that encoding decodes to the same value       *)

Theorem dec_body2_reenc_gen_l ext pz ty b c : ty < 2 ^ 64 -> byte_list b -> N.of_nat (List.length b) < 2 ^ 29 ->
  dec_body2_gen ext pz ty b = Some c ->
  exists b', enc_body c = Some b' /\ dec_body2_gen ext pz ty b' = Some c.
Proof.
  intros Hty Hb Hlen. unfold dec_body2_gen at 1, dec_body2_rest_gen.
  destruct (dec_cav ext pz (S (List.length b)) ty b) as [[c' r]|] eqn:E; [|discriminate].
  cbn [option_map fst]. intros H. injection H as ->.
  destruct (dec_cav_good_l _ _ _ _ _ _ _ Hty Hb Hlen E) as (Ht & Hw & Hc & _).
  destruct (wf_enc_body c Hw) as (b' & Hb'). exists b'. split; [exact Hb'|].
  rewrite <- Ht. apply dec_body2_enc_body_gen_l; [exact Hw|destruct c; apply Hc|exact Hc|exact Hb'].
Qed.

Theorem dec_body2_reenc_l ty b c : ty < 2 ^ 64 -> byte_list b -> N.of_nat (List.length b) < 2 ^ 29 ->
  dec_body2 ty b = Some c -> exists b', enc_body c = Some b' /\ dec_body2 ty b' = Some c.
Proof. apply dec_body2_reenc_gen_l. Qed.

Theorem dec_set_typed_good_l ext pz b cs : byte_list b -> N.of_nat (List.length b) < 2 ^ 29 ->
  dec_set_typed_gen ext pz b = Some cs ->
  Forall wf_cav cs /\ Forall canon_cav cs /\ (2 * List.length cs <= List.length b)%nat.
Proof.
  intros Hb Hlen. unfold dec_set_typed_gen. destruct b as [|x b0]; [discriminate|].
  destruct (x =? 192). { intros H. injection H as <-. split; [constructor|]. split; [constructor|cbn [List.length]; lia]. }
  destruct (dec_set_rest (dec_cav ext pz (S (List.length (x :: b0)))) (x :: b0)) as [[cs' r]|] eqn:E; [|discriminate].
  cbn [option_map fst]. intros H. injection H as ->.
  unfold dec_set_rest in E. destruct (dec_arr_hdr (x :: b0)) as [[n r1]|] eqn:Eh; [|discriminate].
  destruct (N.odd n); [discriminate|]. destruct (N.of_nat (List.length r1) <? n); [discriminate|].
  destruct (dec_arr_hdr_consumes _ _ _ Eh) as (p1 & Hp1 & Hne).
  pose proof (consumes_length _ _ _ _ dec_arr_hdr_consumes Eh) as Hlen1.
  destruct (dec_items_good _ _ (dec_cav_dc_good ext pz _) _ _ _ (suffix_byte_list _ _ _ Hb Hp1) ltac:(lia) E) as (Hcs & Hsz & _).
  split; [revert Hcs; apply Forall_impl; intros c [Hw _]; exact Hw|].
  split; [revert Hcs; apply Forall_impl; intros c [_ Hc]; exact Hc|lia].
Qed.

(* THE statement of the property: whatever bytes are accepted, the caveats handed to clearing have a canonical encoding (the
   one a re-encoding verifier signs), and that encoding decodes to exactly these caveats *)
Theorem dec_set_typed_reenc_gen_l ext pz b cs : byte_list b -> N.of_nat (List.length b) < 2 ^ 29 ->
  dec_set_typed_gen ext pz b = Some cs ->
  exists b', enc_set cs = Some b' /\ dec_set_typed_gen ext pz b' = Some cs.
Proof.
  intros Hb Hlen H. destruct (dec_set_typed_good_l _ _ _ _ Hb Hlen H) as (Hw & Hc & Hn).
  destruct (wf_enc_set cs Hw) as (b' & Hb'). exists b'. split; [exact Hb'|].
  apply dec_set_typed_enc_set_gen_l; [exact Hw|exact Hc| |exact Hb'].
  apply (len29_31 _ _ Hlen). lia.
Qed.

Theorem dec_set_typed_reenc_l b cs : byte_list b -> N.of_nat (List.length b) < 2 ^ 29 -> dec_set_typed b = Some cs ->
  exists b', enc_set cs = Some b' /\ dec_set_typed b' = Some cs.
Proof. apply dec_set_typed_reenc_gen_l. Qed.

Print Assumptions dec_cav_good_l.
Print Assumptions dec_body2_reenc_l.
Print Assumptions dec_set_typed_good_l.
Print Assumptions dec_set_typed_reenc_l.
Print Assumptions skip_span_isval.
