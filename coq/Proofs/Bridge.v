(* Bridge between the protocol layer (which caveats a verification returns) and the
   clearing layer (what a caveat set permits): fewer caveats never deny more. *)
From Coq Require Import List Bool.
From Mac Require Import Model.Err Model.Caveat Model.Access Model.Prohibits Proofs.ErrFacts.
Import ListNotations.

Lemma validate_subset_l cs cs' accs :
  (forall c, In c cs -> In c cs') -> validate cs' accs = None -> validate cs accs = None.
Proof.
  intros Hsub H. rewrite validate_nil_iff in *. intros a Ha. destruct (H a Ha) as [Hv Hc].
  split; [exact Hv|]. intros c Hin Hatt. apply Hc; auto.
Qed.

Lemma validate_superset_denies_l cs cs' accs :
  (forall c, In c cs -> In c cs') -> validate cs accs <> None -> validate cs' accs <> None.
Proof. intros Hsub H C. apply H. eapply validate_subset_l; eauto. Qed.
